#!/bin/bash
# Offline setup: build the driver and warm the Go build cache for /repo.
set -eu
cd "$(dirname "$0")"
unset GOSUMDB GOTOOLCHAIN
export GOFLAGS=-mod=mod GOPROXY=off GOWORK=off
mkdir -p .build evidence replays
( cd cmd/vrun && go build -o ../../.build/vrun . )
( cd /repo && go build ./... ) || true
echo setup ok
