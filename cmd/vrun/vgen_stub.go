package main

import "fmt"

// Rewrite is replaced by the real source rewriter (vgen.go).
func Rewrite(h *Harness, ov map[string]string, gdir string) error {
	return fmt.Errorf("vgen not built yet")
}
