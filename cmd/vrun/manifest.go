package main

import (
	"encoding/json"
	"fmt"
	"os"
	"path/filepath"
	"sort"
	"strings"
)

type naEntry struct {
	PropertyID string `json:"property_id"`
	Reason     string `json:"reason"`
}

func writeManifest() {
	dirs, _ := filepath.Glob(filepath.Join(verif, "harness", "C*", "harness.json"))
	sort.Strings(dirs)
	checks := []map[string]any{}
	claimed := map[string]bool{}
	engines := map[string][]string{}
	ready := map[string]bool{}
	if b, err := os.ReadFile(filepath.Join(verif, "ready.txt")); err == nil {
		for _, f := range strings.Fields(string(b)) {
			ready[f] = true
		}
	}
	for _, d := range dirs {
		id := filepath.Base(filepath.Dir(d))
		if !ready[id] {
			continue
		}
		h := loadHarness(id)
		claimed[id] = true
		engines[h.Engine] = append(engines[h.Engine], id)
		c := map[string]any{
			"property_id":         id,
			"quick_cmd":           "./check " + id + " quick",
			"evidence_file":       "/verif/evidence/" + id + ".json",
			"replay_cmd_template": "./check " + id + " quick --replay {path}",
			"engine":              h.Engine,
			"level_claimed":       map[string]any{"category": h.Level, "text": h.LevelText, "design_ref": h.DesignRef},
			"level_note":          h.LevelNote,
			"technique":           h.Technique,
		}
		if !h.NoThorough {
			c["thorough_cmd"] = "./check " + id + " thorough"
		}
		checks = append(checks, c)
	}
	var na []naEntry
	if b, err := os.ReadFile(filepath.Join(verif, "not_applicable.json")); err == nil {
		json.Unmarshal(b, &na)
	}
	// every property not claimed must be listed
	props := readPropIDs()
	have := map[string]bool{}
	out := []naEntry{}
	for _, n := range na {
		if !claimed[n.PropertyID] {
			out = append(out, n)
			have[n.PropertyID] = true
		}
	}
	for _, p := range props {
		if !claimed[p] && !have[p] {
			out = append(out, naEntry{p, "no check registered yet: harness under construction (see DESIGN.md §3 " + p + ")"})
		}
	}
	sort.Slice(out, func(i, j int) bool { return out[i].PropertyID < out[j].PropertyID })
	engDesc := map[string]string{
		"opseq":  "E1: breadth-first exploration of all operation sequences up to a depth on the real code (fresh instance + replay per transition) against a Go reference model, deduplicated on canonical model+hidden state",
		"enum":   "E2: bounded-exhaustive enumeration of a declared finite input/configuration space, each case executed on the real code and judged by an independent reference",
		"vsched": "E3: controlled cooperative scheduler over source-rewritten boxo packages (sync/atomic/channels/select/timers virtualised) with deviation-bounded depth-first search over all schedules",
		"crash":  "E4: enumeration of every crash point / write-log prefix (and unsynced subsets) of a write history executed on the real code, followed by recovery on the real code",
	}
	engs := []map[string]any{}
	names := []string{}
	for n := range engines {
		names = append(names, n)
	}
	sort.Strings(names)
	for _, n := range names {
		engs = append(engs, map[string]any{"name": n, "path": "/verif/lib", "serves_properties": engines[n], "kind_free_text": engDesc[n]})
	}
	m := map[string]any{
		"version":   1,
		"setup_cmd": "./setup.sh",
		"hooks": map[string]any{
			"guard":            "verif",
			"enable":           "go build -tags verif -overlay /verif/.build/<ID>/overlay.json (overlay generated from /repo's working tree on every run; /repo holds no hook code)",
			"baseline_off_cmd": "cd /repo && GOFLAGS=-mod=mod GOPROXY=off go test -json -vet=off -count=1 -timeout 25m ./...",
			"source_commits":   []string{},
			"add_only":         true,
		},
		"engines":        engs,
		"checks":         checks,
		"not_applicable": out,
		"notes":          "All instrumentation is injected with go build -overlay from /verif; /repo carries only fix: commits. See DESIGN.md.",
	}
	b, _ := json.MarshalIndent(m, "", " ")
	if err := os.WriteFile(filepath.Join(verif, "MANIFEST.json"), append(b, '\n'), 0o644); err != nil {
		die(2, "%v", err)
	}
	fmt.Printf("MANIFEST.json: %d checks, %d not_applicable\n", len(checks), len(out))
}

func readPropIDs() []string {
	b, err := os.ReadFile(filepath.Join(verif, "properties.jsonl"))
	if err != nil {
		die(2, "%v", err)
	}
	ids := []string{}
	dec := json.NewDecoder(bytesReader(b))
	for dec.More() {
		var p struct {
			ID string `json:"id"`
		}
		if err := dec.Decode(&p); err != nil {
			break
		}
		ids = append(ids, p.ID)
	}
	return ids
}
