package main

// vgen: type-directed source rewriter that puts boxo packages (and copies of
// third-party packages) under the control of the vsched scheduler. See
// DESIGN.md §2.4. Output files are registered in the build overlay; /repo is
// never written.

import (
	"bytes"
	"encoding/json"
	"fmt"
	"go/ast"
	"go/importer"
	"go/parser"
	"go/printer"
	"go/token"
	"go/types"
	"io"
	"os"
	"os/exec"
	"path/filepath"
	"reflect"
	"sort"
	"strconv"
	"strings"
)

const shimBase = modpath + "/verifshim/"

// selectors of std packages that are redirected to a shim package
var redirect = map[string]struct {
	shim string
	sels map[string]bool
}{
	"sync":         {"vsync", set("Mutex", "RWMutex", "Once", "WaitGroup", "Cond", "NewCond", "Locker")},
	"sync/atomic":  {"vatomic", set("Int32", "Int64", "Uint32", "Uint64", "Bool", "Pointer", "Value", "AddInt32", "AddInt64", "AddUint32", "AddUint64", "LoadInt32", "LoadInt64", "LoadUint32", "LoadUint64", "StoreInt32", "StoreInt64", "StoreUint32", "StoreUint64", "SwapInt32", "SwapInt64", "CompareAndSwapInt32", "CompareAndSwapInt64", "CompareAndSwapUint32", "CompareAndSwapUint64")},
	"time":         {"vtime", set("Now", "Since", "Until", "Sleep", "NewTimer", "NewTicker", "AfterFunc", "After", "Tick", "Timer", "Ticker")},
	"context":      {"vctx", set("WithTimeout", "WithDeadline", "AfterFunc")},
	"os":           {"vos", set("WriteFile", "Remove", "RemoveAll", "Rename", "MkdirAll", "Mkdir", "Chmod")},
	"math/rand":    {"vrand", set("Intn", "Int63n", "Int31n", "Float64")},
	"math/rand/v2": {"vrand", set("IntN", "Int64N", "Int32N", "Uint64N", "Float64")},
}

func set(xs ...string) map[string]bool {
	m := map[string]bool{}
	for _, x := range xs {
		m[x] = true
	}
	return m
}

type listPkg struct {
	Dir        string
	ImportPath string
	Name       string
	Export     string
	GoFiles    []string
	CgoFiles   []string
	Standard   bool
	Error      *struct{ Err string }
}

func goList(ovf string, args ...string) ([]listPkg, error) {
	a := []string{"list", "-e", "-json=Dir,ImportPath,Name,Export,GoFiles,CgoFiles,Standard,Error", "-tags", "verif"}
	if ovf != "" {
		a = append(a, "-overlay", ovf)
	}
	if currentModfile != "" {
		a = append(a, "-modfile", currentModfile)
	}
	a = append(a, args...)
	cmd := exec.Command("go", a...)
	cmd.Dir = repo
	cmd.Env = goEnv()
	var stderr bytes.Buffer
	cmd.Stderr = &stderr
	out, err := cmd.Output()
	if err != nil {
		return nil, fmt.Errorf("go %s: %v\n%s", strings.Join(a, " "), err, stderr.String())
	}
	var res []listPkg
	dec := json.NewDecoder(bytes.NewReader(out))
	for {
		var p listPkg
		if err := dec.Decode(&p); err == io.EOF {
			break
		} else if err != nil {
			return nil, err
		}
		res = append(res, p)
	}
	return res, nil
}

type target struct {
	importPath string // original import path
	newPath    string // import path after rewriting (differs for third-party copies)
	name       string
	dir        string   // source dir
	outDir     string   // dir under /repo the files are mapped to
	files      []string // base names
}

// Rewrite generates instrumented copies for h.Rewrite / h.Third into gdir and
// registers them in ov.
func Rewrite(h *Harness, ov map[string]string, gdir string) error {
	detMaps = h.DetMaps
	// overlay as it stands (patches, exports) so that go list sees the same tree
	pre, _ := json.Marshal(map[string]any{"Replace": ov})
	preOv := filepath.Join(gdir, "pre-overlay.json")
	os.WriteFile(preOv, pre, 0o644)

	var targets []*target
	thirdNew := map[string]string{}
	var listArgs []string
	for _, d := range h.Rewrite {
		listArgs = append(listArgs, "./"+d)
	}
	thirdPaths := []string{}
	for p := range h.Third {
		thirdPaths = append(thirdPaths, p)
	}
	sort.Strings(thirdPaths)
	listArgs = append(listArgs, thirdPaths...)
	pkgs, err := goList(preOv, listArgs...)
	if err != nil {
		return err
	}
	for _, p := range pkgs {
		if p.Error != nil {
			return fmt.Errorf("go list %s: %s", p.ImportPath, p.Error.Err)
		}
		t := &target{importPath: p.ImportPath, newPath: p.ImportPath, name: p.Name, dir: p.Dir, files: p.GoFiles}
		if alias, ok := h.Third[p.ImportPath]; ok {
			t.newPath = shimBase + "third/" + alias
			t.outDir = filepath.Join(repo, "verifshim", "third", alias)
			thirdNew[p.ImportPath] = t.newPath
		} else {
			t.outDir = p.Dir
		}
		if len(p.CgoFiles) > 0 {
			return fmt.Errorf("%s uses cgo; cannot rewrite", p.ImportPath)
		}
		targets = append(targets, t)
	}
	// export data of all dependencies
	deps, err := goList(preOv, append([]string{"-export", "-deps"}, listArgs...)...)
	if err != nil {
		return err
	}
	exports := map[string]string{}
	for _, d := range deps {
		if d.Export != "" {
			exports[d.ImportPath] = d.Export
		}
	}
	fset := token.NewFileSet()
	imp := importer.ForCompiler(fset, "gc", func(path string) (io.ReadCloser, error) {
		f, ok := exports[path]
		if !ok {
			return nil, fmt.Errorf("no export data for %s", path)
		}
		return os.Open(f)
	})
	for _, t := range targets {
		if err := rewritePkg(fset, imp, t, ov, gdir, thirdNew); err != nil {
			return fmt.Errorf("%s: %v", t.importPath, err)
		}
	}
	return nil
}

func readSrc(ov map[string]string, path string) ([]byte, error) {
	if r, ok := ov[path]; ok {
		return os.ReadFile(r)
	}
	return os.ReadFile(path)
}

func rewritePkg(fset *token.FileSet, imp types.Importer, t *target, ov map[string]string, gdir string, thirdNew map[string]string) error {
	var files []*ast.File
	for _, f := range t.files {
		p := filepath.Join(t.dir, f)
		src, err := readSrc(ov, p)
		if err != nil {
			return err
		}
		af, err := parser.ParseFile(fset, p, src, parser.ParseComments|parser.SkipObjectResolution)
		if err != nil {
			return err
		}
		files = append(files, af)
	}
	info := &types.Info{Types: map[ast.Expr]types.TypeAndValue{}, Uses: map[*ast.Ident]types.Object{}, Defs: map[*ast.Ident]types.Object{}, Selections: map[*ast.SelectorExpr]*types.Selection{}}
	var terrs []string
	conf := types.Config{Importer: imp, Error: func(err error) {
		if len(terrs) < 5 {
			terrs = append(terrs, err.Error())
		}
	}}
	conf.Check(t.importPath, fset, files, info)
	if len(terrs) > 0 {
		return fmt.Errorf("type errors (rewriter needs exact types):\n  %s", strings.Join(terrs, "\n  "))
	}
	sub := filepath.Join(gdir, strings.ReplaceAll(t.newPath, "/", "_"))
	os.MkdirAll(sub, 0o755)
	for i, af := range files {
		w := &rw{info: info, fset: fset, file: af, thirdNew: thirdNew, used: map[string]bool{}}
		w.rewriteFile()
		var buf bytes.Buffer
		if err := (&printer.Config{Mode: printer.UseSpaces | printer.TabIndent, Tabwidth: 8}).Fprint(&buf, fset, af); err != nil {
			return err
		}
		out := filepath.Join(sub, t.files[i])
		if err := os.WriteFile(out, buf.Bytes(), 0o644); err != nil {
			return err
		}
		ov[filepath.Join(t.outDir, t.files[i])] = out
	}
	return nil
}

// detMaps: harness.json "detmaps" (see vsched.RangeMap)
var detMaps bool

// detMapKey reports whether t is a map whose iteration vsched.RangeMap can order.
func detMapKey(t types.Type) bool {
	if t == nil {
		return false
	}
	m, ok := t.Underlying().(*types.Map)
	if !ok {
		return false
	}
	switch k := m.Key().Underlying().(type) {
	case *types.Chan:
		return true
	case *types.Basic:
		return k.Info()&(types.IsString|types.IsInteger) != 0
	}
	return false
}

type rw struct {
	info     *types.Info
	fset     *token.FileSet
	file     *ast.File
	thirdNew map[string]string
	used     map[string]bool // shim packages needed by this file
	cnt      int
	pkgUses  map[string]int // import path -> remaining (non-redirected) uses
}

func (w *rw) shim(name string) *ast.Ident {
	w.used[name] = true
	return ast.NewIdent("verif_" + name)
}

func (w *rw) call(pkg, fn string, args ...ast.Expr) *ast.CallExpr {
	return &ast.CallExpr{Fun: &ast.SelectorExpr{X: w.shim(pkg), Sel: ast.NewIdent(fn)}, Args: args}
}

func (w *rw) rewriteFile() {
	w.pkgUses = map[string]int{}
	// count uses of imported package names
	for id, obj := range w.info.Uses {
		if pn, ok := obj.(*types.PkgName); ok && w.inFile(id) {
			w.pkgUses[pn.Imported().Path()]++
		}
	}
	for _, d := range w.file.Decls {
		w.node(reflect.ValueOf(d))
	}
	// imports: redirect third-party copies, drop std imports that lost all uses, add shims
	for _, d := range w.file.Decls {
		gd, ok := d.(*ast.GenDecl)
		if !ok || gd.Tok != token.IMPORT {
			continue
		}
		keep := gd.Specs[:0]
		for _, s := range gd.Specs {
			is := s.(*ast.ImportSpec)
			path, _ := strconv.Unquote(is.Path.Value)
			if np, ok := w.thirdNew[path]; ok {
				if is.Name == nil {
					is.Name = ast.NewIdent(w.importedName(path))
				}
				is.Path = &ast.BasicLit{Kind: token.STRING, Value: strconv.Quote(np)}
			}
			if _, isRedir := redirect[path]; isRedir && w.pkgUses[path] == 0 && (is.Name == nil || (is.Name.Name != "_" && is.Name.Name != ".")) {
				continue
			}
			keep = append(keep, s)
		}
		gd.Specs = keep
	}
	names := []string{}
	for n := range w.used {
		names = append(names, n)
	}
	sort.Strings(names)
	if len(names) > 0 {
		gd := &ast.GenDecl{Tok: token.IMPORT, Lparen: 1}
		for _, n := range names {
			gd.Specs = append(gd.Specs, &ast.ImportSpec{Name: ast.NewIdent("verif_" + n), Path: &ast.BasicLit{Kind: token.STRING, Value: strconv.Quote(shimBase + n)}})
		}
		// after the last import decl
		idx := 0
		for i, d := range w.file.Decls {
			if g, ok := d.(*ast.GenDecl); ok && g.Tok == token.IMPORT {
				idx = i + 1
			}
		}
		decls := append([]ast.Decl{}, w.file.Decls[:idx]...)
		decls = append(decls, gd)
		decls = append(decls, w.file.Decls[idx:]...)
		w.file.Decls = decls
	}
	// remove emptied import decls
	out := w.file.Decls[:0]
	for _, d := range w.file.Decls {
		if g, ok := d.(*ast.GenDecl); ok && g.Tok == token.IMPORT && len(g.Specs) == 0 {
			continue
		}
		out = append(out, d)
	}
	w.file.Decls = out
}

func (w *rw) inFile(id *ast.Ident) bool {
	return id.Pos() >= w.file.Pos() && id.Pos() <= w.file.End()
}

func (w *rw) importedName(path string) string {
	for id, obj := range w.info.Uses {
		if pn, ok := obj.(*types.PkgName); ok && pn.Imported().Path() == path {
			_ = id
			return pn.Imported().Name()
		}
	}
	return filepath.Base(path)
}

var (
	exprType = reflect.TypeOf((*ast.Expr)(nil)).Elem()
	stmtType = reflect.TypeOf((*ast.Stmt)(nil)).Elem()
	nodeType = reflect.TypeOf((*ast.Node)(nil)).Elem()
)

// node descends generically into the children of an AST node, replacing
// expression and statement children by their rewritten forms.
func (w *rw) node(v reflect.Value) {
	if !v.IsValid() {
		return
	}
	switch v.Kind() {
	case reflect.Interface, reflect.Ptr:
		if v.IsNil() {
			return
		}
		w.node(v.Elem())
	case reflect.Struct:
		for i := 0; i < v.NumField(); i++ {
			f := v.Field(i)
			if !f.CanSet() {
				continue
			}
			ft := f.Type()
			switch {
			case ft == exprType:
				if !f.IsNil() {
					f.Set(reflect.ValueOf(w.expr(f.Interface().(ast.Expr))))
				}
			case ft == stmtType:
				if !f.IsNil() {
					f.Set(reflect.ValueOf(w.stmt(f.Interface().(ast.Stmt))))
				}
			case ft.Kind() == reflect.Slice:
				et := ft.Elem()
				for j := 0; j < f.Len(); j++ {
					e := f.Index(j)
					switch {
					case et == exprType:
						if !e.IsNil() {
							e.Set(reflect.ValueOf(w.expr(e.Interface().(ast.Expr))))
						}
					case et == stmtType:
						if !e.IsNil() {
							e.Set(reflect.ValueOf(w.stmt(e.Interface().(ast.Stmt))))
						}
					case et.Kind() == reflect.Ptr || et.Kind() == reflect.Interface:
						if et.Implements(nodeType) {
							w.node(e)
						}
					}
				}
			case ft.Kind() == reflect.Ptr && ft.Implements(nodeType):
				if ft == reflect.TypeOf((*ast.Object)(nil)) || ft == reflect.TypeOf((*ast.Scope)(nil)) {
					continue
				}
				if !f.IsNil() {
					// concrete statement/expression pointers (e.g. IfStmt.Body) keep their type
					w.node(f)
					if bs, ok := f.Interface().(*ast.BlockStmt); ok {
						_ = bs
					}
				}
			}
		}
	}
}

func (w *rw) typeOf(e ast.Expr) types.Type {
	if tv, ok := w.info.Types[e]; ok {
		return tv.Type
	}
	return nil
}

func chanOf(t types.Type) *types.Chan {
	if t == nil {
		return nil
	}
	c, _ := t.Underlying().(*types.Chan)
	if c == nil {
		if tp, ok := t.(*types.TypeParam); ok {
			_ = tp
		}
	}
	return c
}

func isArrow(e ast.Expr) (*ast.UnaryExpr, bool) {
	for {
		p, ok := e.(*ast.ParenExpr)
		if !ok {
			break
		}
		e = p.X
	}
	u, ok := e.(*ast.UnaryExpr)
	return u, ok && u.Op == token.ARROW
}

func (w *rw) isBuiltin(id *ast.Ident, name string) bool {
	if id.Name != name {
		return false
	}
	obj := w.info.Uses[id]
	_, ok := obj.(*types.Builtin)
	return ok
}

func (w *rw) expr(e ast.Expr) ast.Expr {
	switch x := e.(type) {
	case *ast.SelectorExpr:
		if id, ok := x.X.(*ast.Ident); ok {
			if pn, ok := w.info.Uses[id].(*types.PkgName); ok {
				if rd, ok := redirect[pn.Imported().Path()]; ok && rd.sels[x.Sel.Name] {
					w.pkgUses[pn.Imported().Path()]--
					return &ast.SelectorExpr{X: w.shim(rd.shim), Sel: x.Sel}
				}
				return x
			}
		}
		x.X = w.expr(x.X)
		return x
	case *ast.UnaryExpr:
		if x.Op == token.ARROW {
			ch := w.expr(x.X)
			return w.call("vsched", "Recv", ch)
		}
	case *ast.CallExpr:
		if id, ok := x.Fun.(*ast.Ident); ok {
			switch {
			case w.isBuiltin(id, "make") && chanOf(w.typeOf(x)) != nil:
				for i := 1; i < len(x.Args); i++ {
					x.Args[i] = w.expr(x.Args[i])
				}
				return w.call("vsched", "Reg", x)
			case w.isBuiltin(id, "close"):
				ct := chanOf(w.typeOf(x.Args[0]))
				arg := w.expr(x.Args[0])
				if ct != nil && ct.Dir() == types.SendOnly {
					return w.call("vsched", "CloseS", arg)
				}
				return w.call("vsched", "Close", arg)
			case w.isBuiltin(id, "len") && chanOf(w.typeOf(x.Args[0])) != nil:
				return w.call("vsched", "Len", w.expr(x.Args[0]))
			}
		}
	case *ast.FuncLit:
		w.node(reflect.ValueOf(x.Type))
		x.Body = w.stmt(x.Body).(*ast.BlockStmt)
		return x
	}
	w.node(reflect.ValueOf(e))
	return e
}

func (w *rw) tick() ast.Stmt { return &ast.ExprStmt{X: w.call("vsched", "Tick")} }

func (w *rw) stmts(list []ast.Stmt) []ast.Stmt {
	for i, s := range list {
		list[i] = w.stmt(s)
	}
	return list
}

func (w *rw) stmt(s ast.Stmt) ast.Stmt {
	switch x := s.(type) {
	case nil:
		return nil
	case *ast.BlockStmt:
		if x == nil {
			return x
		}
		x.List = w.stmts(x.List)
		return x
	case *ast.SendStmt:
		ch := w.expr(x.Chan)
		v := w.expr(x.Value)
		return &ast.ExprStmt{X: &ast.CallExpr{Fun: w.call("vsched", "SendTo", ch), Args: []ast.Expr{v}}}
	case *ast.AssignStmt:
		if len(x.Lhs) == 2 && len(x.Rhs) == 1 {
			if u, ok := isArrow(x.Rhs[0]); ok {
				for i := range x.Lhs {
					x.Lhs[i] = w.expr(x.Lhs[i])
				}
				x.Rhs[0] = w.call("vsched", "Recv2", w.expr(u.X))
				return x
			}
		}
	case *ast.DeclStmt:
		if gd, ok := x.Decl.(*ast.GenDecl); ok && gd.Tok == token.VAR {
			for _, sp := range gd.Specs {
				vs := sp.(*ast.ValueSpec)
				if len(vs.Names) == 2 && len(vs.Values) == 1 {
					if u, ok := isArrow(vs.Values[0]); ok {
						if vs.Type != nil {
							vs.Type = w.expr(vs.Type)
						}
						vs.Values[0] = w.call("vsched", "Recv2", w.expr(u.X))
						continue
					}
				}
				w.node(reflect.ValueOf(vs))
			}
			return x
		}
	case *ast.GoStmt:
		return w.goStmt(x)
	case *ast.DeferStmt:
		if ce, ok := w.expr(x.Call).(*ast.CallExpr); ok {
			x.Call = ce
		}
		return x
	case *ast.ForStmt:
		w.node(reflect.ValueOf(x))
		x.Body.List = append([]ast.Stmt{w.tick()}, x.Body.List...)
		return x
	case *ast.RangeStmt:
		ct := chanOf(w.typeOf(x.X))
		dm := detMaps && detMapKey(w.typeOf(x.X))
		w.node(reflect.ValueOf(x))
		if ct != nil {
			x.X = w.call("vsched", "Range", x.X)
		} else if dm {
			x.X = w.call("vsched", "RangeMap", x.X)
		}
		x.Body.List = append([]ast.Stmt{w.tick()}, x.Body.List...)
		return x
	case *ast.LabeledStmt:
		if sel, ok := x.Stmt.(*ast.SelectStmt); ok {
			return w.selectStmt(sel, x.Label)
		}
	case *ast.SelectStmt:
		return w.selectStmt(x, nil)
	}
	w.node(reflect.ValueOf(s))
	return s
}

func (w *rw) goStmt(g *ast.GoStmt) ast.Stmt {
	call := g.Call
	var pre []ast.Stmt
	w.cnt++
	n := w.cnt
	// function value
	var fun ast.Expr
	switch f := call.Fun.(type) {
	case *ast.FuncLit:
		fun = w.expr(f)
	default:
		fe := w.expr(call.Fun)
		// conversions and builtins cannot be bound to a variable; they have no side effects worth ordering
		if tv, ok := w.info.Types[call.Fun]; ok && (tv.IsType() || tv.IsBuiltin()) {
			fun = fe
		} else if sig, ok := w.typeOf(call.Fun).(*types.Signature); ok && sig.TypeParams() != nil && sig.TypeParams().Len() > 0 {
			fun = fe
		} else {
			id := ast.NewIdent(fmt.Sprintf("verif_f%d", n))
			pre = append(pre, &ast.AssignStmt{Lhs: []ast.Expr{id}, Tok: token.DEFINE, Rhs: []ast.Expr{fe}})
			fun = id
		}
	}
	args := make([]ast.Expr, len(call.Args))
	for i, a := range call.Args {
		tv := w.info.Types[a]
		ae := w.expr(a)
		if tv.Value != nil || tv.IsNil() {
			args[i] = ae // constants and nil are inlined
			continue
		}
		id := ast.NewIdent(fmt.Sprintf("verif_a%d_%d", n, i))
		pre = append(pre, &ast.AssignStmt{Lhs: []ast.Expr{id}, Tok: token.DEFINE, Rhs: []ast.Expr{ae}})
		args[i] = id
	}
	inner := &ast.CallExpr{Fun: fun, Args: args, Ellipsis: call.Ellipsis}
	if call.Ellipsis.IsValid() {
		inner.Ellipsis = 1
	}
	lit := &ast.FuncLit{Type: &ast.FuncType{Params: &ast.FieldList{}}, Body: &ast.BlockStmt{List: []ast.Stmt{&ast.ExprStmt{X: inner}}}}
	spawn := &ast.ExprStmt{X: w.call("vsched", "Go", lit)}
	if len(pre) == 0 {
		return spawn
	}
	return &ast.BlockStmt{List: append(pre, spawn)}
}

func (w *rw) selectStmt(sel *ast.SelectStmt, label *ast.Ident) ast.Stmt {
	w.cnt++
	n := w.cnt
	var pre []ast.Stmt
	var caseArgs []ast.Expr
	sw := &ast.SwitchStmt{Body: &ast.BlockStmt{}}
	hasDefault := false
	idx := 0
	for _, c := range sel.Body.List {
		cc := c.(*ast.CommClause)
		body := w.stmts(cc.Body)
		if cc.Comm == nil {
			hasDefault = true
			sw.Body.List = append(sw.Body.List, &ast.CaseClause{Body: body})
			continue
		}
		k := ast.NewIdent(fmt.Sprintf("verif_k%d_%d", n, idx))
		var head []ast.Stmt
		switch cm := cc.Comm.(type) {
		case *ast.SendStmt:
			ch := w.expr(cm.Chan)
			v := w.expr(cm.Value)
			pre = append(pre, &ast.AssignStmt{Lhs: []ast.Expr{k}, Tok: token.DEFINE, Rhs: []ast.Expr{&ast.CallExpr{Fun: w.call("vsched", "SndTo", ch), Args: []ast.Expr{v}}}})
		case *ast.ExprStmt:
			u, _ := isArrow(cm.X)
			pre = append(pre, &ast.AssignStmt{Lhs: []ast.Expr{k}, Tok: token.DEFINE, Rhs: []ast.Expr{w.call("vsched", "R", w.expr(u.X))}})
		case *ast.AssignStmt:
			u, _ := isArrow(cm.Rhs[0])
			pre = append(pre, &ast.AssignStmt{Lhs: []ast.Expr{k}, Tok: token.DEFINE, Rhs: []ast.Expr{w.call("vsched", "R", w.expr(u.X))}})
			rhs := []ast.Expr{&ast.SelectorExpr{X: ast.NewIdent(k.Name), Sel: ast.NewIdent("V")}}
			if len(cm.Lhs) == 2 {
				rhs = append(rhs, &ast.SelectorExpr{X: ast.NewIdent(k.Name), Sel: ast.NewIdent("Ok")})
			}
			lhs := make([]ast.Expr, len(cm.Lhs))
			for i := range cm.Lhs {
				lhs[i] = w.expr(cm.Lhs[i])
			}
			// `case v := <-ch` with v == _ everywhere would not compile as :=
			tok := cm.Tok
			allBlank := true
			for _, l := range lhs {
				if id, ok := l.(*ast.Ident); !ok || id.Name != "_" {
					allBlank = false
				}
			}
			if allBlank {
				tok = token.ASSIGN
			}
			head = append(head, &ast.AssignStmt{Lhs: lhs, Tok: tok, Rhs: rhs})
		}
		caseArgs = append(caseArgs, ast.NewIdent(k.Name))
		sw.Body.List = append(sw.Body.List, &ast.CaseClause{
			List: []ast.Expr{&ast.BasicLit{Kind: token.INT, Value: strconv.Itoa(idx)}},
			Body: append(head, body...),
		})
		idx++
	}
	def := "false"
	if hasDefault {
		def = "true"
	} else {
		// keeps the switch a terminating statement whenever the select was one
		sw.Body.List = append(sw.Body.List, &ast.CaseClause{Body: []ast.Stmt{&ast.ExprStmt{X: &ast.CallExpr{Fun: ast.NewIdent("panic"), Args: []ast.Expr{&ast.BasicLit{Kind: token.STRING, Value: `"vsched: select returned no case"`}}}}}})
	}
	sw.Tag = w.call("vsched", "Select", append([]ast.Expr{ast.NewIdent(def)}, caseArgs...)...)
	var inner ast.Stmt = sw
	if label != nil {
		inner = &ast.LabeledStmt{Label: label, Stmt: sw}
	}
	return &ast.BlockStmt{List: append(pre, inner)}
}
