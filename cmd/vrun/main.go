// vrun builds and runs one property check of /verif against the current
// working tree of /repo.
//
//	vrun <ID> quick|thorough [--replay file] [--patch diff]...   run a check
//	vrun selftest <ID>                                            run the check against every mutants/<ID>/*.diff; each must be caught
//	vrun manifest                                                 regenerate MANIFEST.json from harness/*/harness.json
//
// Everything that instruments /repo goes through `go build -overlay`; /repo is
// never written.
package main

import (
	"crypto/sha256"
	"encoding/hex"
	"encoding/json"
	"fmt"
	"os"
	"os/exec"
	"path/filepath"
	"sort"
	"strconv"
	"strings"
	"time"
)

const (
	repo    = "/repo"
	modpath = "github.com/ipfs/boxo"
)

var verif = func() string {
	if v := os.Getenv("VERIF_ROOT"); v != "" {
		return v
	}
	return "/verif"
}()

type Harness struct {
	ID     string              `json:"id"`
	Mount  string              `json:"mount"`
	Level  string              `json:"level"`
	Engine string              `json:"engine"`
	Export map[string][]string `json:"exports"` // repo package dir -> files in harness dir added to it
	// Rewrite lists repo package dirs (or third-party "path=>alias") compiled from
	// scheduler-instrumented copies (engine E3/E4).
	Rewrite   []string          `json:"rewrite"`
	Third     map[string]string `json:"third"` // module-cache import path -> virtual name under verifshim/third
	Budget    map[string]string `json:"budget"`
	Timeout   map[string]string `json:"timeout"`
	LevelText string            `json:"level_text"`
	LevelNote string            `json:"level_note"`
	Technique string            `json:"technique"`
	DesignRef string            `json:"design_ref"`
	Tags      []string          `json:"tags"`
	Env       []string          `json:"env"`
	NoThorough bool             `json:"no_thorough"`
	DetMaps    bool             `json:"detmaps"` // rewrite `range` over maps keyed by strings/integers/channels to a deterministic order (vsched.RangeMap)
}

func die(code int, f string, a ...any) {
	fmt.Fprintf(os.Stderr, "vrun: "+f+"\n", a...)
	os.Exit(code)
}

func loadHarness(id string) *Harness {
	b, err := os.ReadFile(filepath.Join(verif, "harness", id, "harness.json"))
	if err != nil {
		die(2, "%v", err)
	}
	var h Harness
	if err := json.Unmarshal(b, &h); err != nil {
		die(2, "harness.json of %s: %v", id, err)
	}
	if h.ID != id {
		die(2, "harness.json of %s has id %q", id, h.ID)
	}
	return &h
}

func goEnv() []string {
	env := []string{}
	for _, e := range os.Environ() {
		if strings.HasPrefix(e, "GOFLAGS=") || strings.HasPrefix(e, "GOPROXY=") || strings.HasPrefix(e, "GOSUMDB=") || strings.HasPrefix(e, "GOTOOLCHAIN=") || strings.HasPrefix(e, "GOWORK=") {
			continue
		}
		env = append(env, e)
	}
	return append(env, "GOFLAGS=-mod=mod", "GOPROXY=off", "GOWORK=off")
}

// addTree maps every .go file of src (non-recursive unless rec) to dstDir in the overlay.
func addTree(ov map[string]string, src, dstDir string, rec bool) {
	ents, err := os.ReadDir(src)
	if err != nil {
		die(2, "%v", err)
	}
	for _, e := range ents {
		p := filepath.Join(src, e.Name())
		if e.IsDir() {
			if rec && e.Name() != "export" && e.Name() != "testdata" {
				addTree(ov, p, filepath.Join(dstDir, e.Name()), rec)
			}
			continue
		}
		if strings.HasSuffix(e.Name(), ".go") && !strings.HasSuffix(e.Name(), "_test.go") {
			ov[filepath.Join(dstDir, e.Name())] = p
		}
	}
}

// applyPatches copies every file touched by the diffs into dir, applies the
// diffs there and maps the originals to the patched copies.
func applyPatches(ov map[string]string, dir string, patches []string) {
	if len(patches) == 0 {
		return
	}
	pdir := filepath.Join(dir, "patched")
	os.RemoveAll(pdir)
	os.MkdirAll(pdir, 0o755)
	for _, p := range patches {
		b, err := os.ReadFile(p)
		if err != nil {
			die(2, "%v", err)
		}
		files := map[string]bool{}
		for _, l := range strings.Split(string(b), "\n") {
			for _, pre := range []string{"--- a/", "+++ b/", "--- b/", "+++ a/"} {
				if strings.HasPrefix(l, pre) {
					f := strings.TrimSpace(strings.TrimPrefix(l, pre))
					if i := strings.IndexByte(f, '\t'); i >= 0 {
						f = f[:i]
					}
					files[f] = true
				}
			}
		}
		for f := range files {
			dst := filepath.Join(pdir, f)
			if _, err := os.Stat(dst); err == nil {
				continue
			}
			os.MkdirAll(filepath.Dir(dst), 0o755)
			src, err := os.ReadFile(filepath.Join(repo, f))
			if err == nil {
				os.WriteFile(dst, src, 0o644)
			}
		}
		ap, _ := filepath.Abs(p)
		cmd := exec.Command("patch", "-p1", "-s", "--no-backup-if-mismatch", "-i", ap)
		cmd.Dir = pdir
		if out, err := cmd.CombinedOutput(); err != nil {
			die(2, "patch %s does not apply to the current tree: %v\n%s", p, err, out)
		}
	}
	filepath.Walk(pdir, func(p string, fi os.FileInfo, err error) error {
		if err == nil && !fi.IsDir() {
			rel, _ := filepath.Rel(pdir, p)
			ov[filepath.Join(repo, rel)] = p
		}
		return nil
	})
}

// modfileFor copies /repo's go.mod and go.sum next to the build so that the go
// command (which runs with -mod=mod) can never rewrite the files in /repo.
func modfileFor(dir string) string {
	mf := filepath.Join(dir, "go.mod")
	for _, n := range []string{"go.mod", "go.sum"} {
		b, err := os.ReadFile(filepath.Join(repo, n))
		if err != nil {
			die(2, "%v", err)
		}
		os.WriteFile(filepath.Join(dir, n), b, 0o644)
	}
	return mf
}

var currentModfile string

func build(h *Harness, dir string, patches []string) string {
	os.MkdirAll(dir, 0o755)
	currentModfile = modfileFor(dir)
	ov := map[string]string{}
	addTree(ov, filepath.Join(verif, "lib"), filepath.Join(repo, "verifshim"), true)
	addTree(ov, filepath.Join(verif, "harness", h.ID), filepath.Join(repo, h.Mount), false)
	for pkg, files := range h.Export {
		for _, f := range files {
			ov[filepath.Join(repo, pkg, "zz_verif_"+h.ID+"_"+filepath.Base(f))] = filepath.Join(verif, "harness", h.ID, "export", f)
		}
	}
	applyPatches(ov, dir, patches)
	if len(h.Rewrite) > 0 || len(h.Third) > 0 {
		rewriteInto(h, ov, dir)
	}
	b, _ := json.MarshalIndent(map[string]any{"Replace": ov}, "", " ")
	ovf := filepath.Join(dir, "overlay.json")
	os.WriteFile(ovf, b, 0o644)
	bin := filepath.Join(dir, "h")
	tags := append([]string{"verif"}, h.Tags...)
	cmd := exec.Command("go", "build", "-modfile", currentModfile, "-tags", strings.Join(tags, ","), "-overlay", ovf, "-o", bin, "./"+h.Mount)
	cmd.Dir = repo
	cmd.Env = goEnv()
	out, err := cmd.CombinedOutput()
	if err != nil {
		fmt.Fprintf(os.Stderr, "%s", out)
		die(2, "build of harness %s failed: %v", h.ID, err)
	}
	return bin
}

// rewriteInto runs vgen (same binary, subcommand) to produce instrumented copies.
func rewriteInto(h *Harness, ov map[string]string, dir string) {
	gdir := filepath.Join(dir, "gen")
	os.RemoveAll(gdir)
	os.MkdirAll(gdir, 0o755)
	if err := Rewrite(h, ov, gdir); err != nil {
		die(2, "vgen: %v", err)
	}
}

func runCheck(id, tier string, replay string, patches []string, quiet bool) int {
	h := loadHarness(id)
	tag := id
	if len(patches) > 0 {
		hh := sha256.Sum256([]byte(strings.Join(patches, "|")))
		tag = id + "-p" + hex.EncodeToString(hh[:4])
	}
	dir := filepath.Join(verif, ".build", tag)
	bin := build(h, dir, patches)
	seed := os.Getenv("VERIF_SEED")
	if _, err := strconv.ParseInt(seed, 10, 64); err != nil {
		seed = "0"
	}
	args := []string{"-tier", tier, "-seed", seed, "-known", filepath.Join(verif, "known_findings.json") + "," + filepath.Join(verif, "harness", id, "findings.json")}
	if len(patches) == 0 {
		args = append(args, "-evidence", filepath.Join(verif, "evidence", id+".json"), "-replaydir", filepath.Join(verif, "replays"))
	} else {
		args = append(args, "-replaydir", filepath.Join(dir, "replays"))
	}
	if b := h.Budget[tier]; b != "" {
		args = append(args, "-budget", b)
	}
	if replay != "" {
		replay, _ = filepath.Abs(replay)
		args = append(args, "-replay", replay)
	}
	if os.Getenv("VERIF_VERBOSE") != "" {
		args = append(args, "-v")
	}
	scratch, err := os.MkdirTemp("", "verif-"+id+"-")
	if err != nil {
		die(2, "%v", err)
	}
	defer os.RemoveAll(scratch)
	cmd := exec.Command(bin, args...)
	cmd.Dir = scratch
	cmd.Env = append(goEnv(), "VERIF_SCRATCH="+scratch, "VERIF_BIN="+bin, "TMPDIR="+scratch, "GOLOG_LOG_LEVEL=error", "GOLOG_OUTPUT=file", "GOLOG_FILE=/dev/null")
	cmd.Env = append(cmd.Env, h.Env...)
	if quiet {
		out, err := cmd.CombinedOutput()
		code := exitCode(err)
		lines := strings.Split(string(out), "\n")
		for _, l := range lines {
			if strings.HasPrefix(l, "VIOLATION") || strings.HasPrefix(l, "KNOWN-FINDING") || strings.HasPrefix(l, id+" ") || strings.HasPrefix(l, "  symptom") {
				fmt.Println("    " + l)
			}
		}
		if code == 2 {
			fmt.Println(tail(string(out), 30))
		}
		return code
	}
	cmd.Stdout = os.Stdout
	cmd.Stderr = os.Stderr
	to := 6 * time.Hour
	if t := h.Timeout[tier]; t != "" {
		if d, err := time.ParseDuration(t); err == nil {
			to = d
		}
	}
	if err := cmd.Start(); err != nil {
		die(2, "%v", err)
	}
	done := make(chan error, 1)
	go func() { done <- cmd.Wait() }()
	select {
	case err := <-done:
		return exitCode(err)
	case <-time.After(to):
		cmd.Process.Kill()
		die(2, "harness %s exceeded hard timeout %v", id, to)
	}
	return 2
}

func tail(s string, n int) string {
	ls := strings.Split(strings.TrimRight(s, "\n"), "\n")
	if len(ls) > n {
		ls = ls[len(ls)-n:]
	}
	return strings.Join(ls, "\n")
}

func exitCode(err error) int {
	if err == nil {
		return 0
	}
	if ee, ok := err.(*exec.ExitError); ok {
		c := ee.ExitCode()
		if c == 0 || c == 1 {
			return c
		}
		return 2
	}
	return 2
}

func selftest(id string) int {
	ms, _ := filepath.Glob(filepath.Join(verif, "mutants", id, "*.diff"))
	sd, _ := filepath.Glob(filepath.Join(verif, "seeded", "*", "patch.diff"))
	for _, s := range sd {
		mb, err := os.ReadFile(filepath.Join(filepath.Dir(s), "meta.json"))
		if err != nil {
			continue
		}
		var meta struct {
			Property string `json:"property"`
			// CheckProperty names the check that decides this change when it is not the
			// property the seeding agent filed it under
			CheckProperty string `json:"check_property"`
		}
		json.Unmarshal(mb, &meta)
		if meta.CheckProperty != "" {
			meta.Property = meta.CheckProperty
		}
		if meta.Property == id {
			ms = append(ms, s)
		}
	}
	sort.Strings(ms)
	if len(ms) == 0 {
		fmt.Printf("selftest %s: no mutants\n", id)
		return 0
	}
	bad := 0
	for _, m := range ms {
		fmt.Printf("selftest %s: %s\n", id, strings.TrimPrefix(m, verif+"/"))
		// own process: a patch that does not apply must not end the whole selftest
		self, _ := os.Executable()
		sub := exec.Command(self, id, "quick", "--patch", m)
		out, err := sub.CombinedOutput()
		code := exitCode(err)
		for _, l := range strings.Split(string(out), "\n") {
			if strings.HasPrefix(l, "VIOLATION") || strings.HasPrefix(l, "KNOWN-FINDING") || strings.HasPrefix(l, id+" ") || strings.HasPrefix(l, "  symptom") || strings.HasPrefix(l, "vrun:") {
				fmt.Println("    " + l)
			}
		}
		// the patched build (binary, overlay, replays) is not needed once the verdict is printed
		hh := sha256.Sum256([]byte(m))
		os.RemoveAll(filepath.Join(verif, ".build", id+"-p"+hex.EncodeToString(hh[:4])))
		switch code {
		case 1:
			fmt.Println("    caught")
		case 0:
			fmt.Println("    MISSED")
			bad++
		default:
			fmt.Println("    ERROR (harness/infra)")
			bad++
		}
	}
	if bad > 0 {
		return 1
	}
	return 0
}

func main() {
	if len(os.Args) < 2 {
		die(2, "usage: vrun <ID> quick|thorough [--replay f] [--patch d] | selftest <ID> | manifest")
	}
	switch os.Args[1] {
	case "manifest":
		writeManifest()
		return
	case "testpatch":
		// vrun testpatch <diff> <go test args...>: run the repository's own tests with the patch applied through the overlay
		if len(os.Args) < 4 {
			die(2, "testpatch <diff> <pkgs...>")
		}
		dir, _ := os.MkdirTemp("", "verif-testpatch-")
		defer os.RemoveAll(dir)
		ov := map[string]string{}
		applyPatches(ov, dir, []string{os.Args[2]})
		b, _ := json.Marshal(map[string]any{"Replace": ov})
		ovf := filepath.Join(dir, "overlay.json")
		os.WriteFile(ovf, b, 0o644)
		args := append([]string{"test", "-modfile", modfileFor(dir), "-vet=off", "-count=1", "-overlay", ovf}, os.Args[3:]...)
		cmd := exec.Command("go", args...)
		cmd.Dir = repo
		cmd.Env = goEnv()
		cmd.Stdout, cmd.Stderr = os.Stdout, os.Stderr
		err := cmd.Run()
		os.RemoveAll(dir)
		os.Exit(exitCode(err))
	case "selftest":
		if len(os.Args) < 3 {
			die(2, "selftest <ID>")
		}
		os.Exit(selftest(os.Args[2]))
	}
	id := os.Args[1]
	tier := "quick"
	if t := os.Getenv("VERIF_TIER"); t == "quick" || t == "thorough" {
		tier = t
	}
	var replay string
	var patches []string
	rest := os.Args[2:]
	for i := 0; i < len(rest); i++ {
		switch rest[i] {
		case "quick", "thorough":
			tier = rest[i]
		case "--replay":
			i++
			replay = rest[i]
		case "--patch":
			i++
			patches = append(patches, rest[i])
		default:
			die(2, "unknown argument %q", rest[i])
		}
	}
	os.Exit(runCheck(id, tier, replay, patches, false))
}
