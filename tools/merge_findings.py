#!/usr/bin/env python3
"""Move per-harness findings fragments (harness/CNN/findings.json) of READY harnesses into the single committed
known_findings.json; fragments are removed afterwards."""
import json,glob,os,sys
root='/verif'
kf=json.load(open(f'{root}/known_findings.json'))
ready=set(open(f'{root}/ready.txt').read().split())
have={json.dumps([f['property'],f.get('status'),f.get('match')],sort_keys=True) for f in kf['findings']}
n=0
for p in sorted(glob.glob(f'{root}/harness/C*/findings.json')):
    cid=p.split('/')[-2]
    if cid not in ready: continue
    try: d=json.load(open(p))
    except Exception as e:
        print('bad',p,e); continue
    for f in d.get('findings',[]):
        k=json.dumps([f['property'],f.get('status'),f.get('match')],sort_keys=True)
        if k not in have:
            kf['findings'].append(f); have.add(k); n+=1
    os.remove(p)
kf['findings'].sort(key=lambda f:(f['property'],f.get('status','')))
json.dump(kf,open(f'{root}/known_findings.json','w'),indent=1)
print('merged',n,'entries; total',len(kf['findings']))
