#!/usr/bin/env python3
"""Generate DESIGN.md appendix B: per-property as-built table + detection matrix (mutants, seeded changes)."""
import json,glob,os
root='/verif'
kf=json.load(open(f'{root}/known_findings.json'))['findings']
for p in glob.glob(f'{root}/harness/C*/findings.json'):
    try: kf+=json.load(open(p))['findings']
    except: pass
ready=set(open(f'{root}/ready.txt').read().split())
rows=[]
for hp in sorted(glob.glob(f'{root}/harness/C*/harness.json')):
    h=json.load(open(hp)); i=h['id']
    ev={}
    try: ev=json.load(open(f'{root}/evidence/{i}.json'))
    except: pass
    c=ev.get('coverage',{})
    cov=f"{c.get('evaluations','?')} cases" + (f", {c['states']} states/{c['transitions']} transitions" if 'states' in c else '') + (", exhaustive" if c.get('exhaustive') else ", capped")
    known=[f for f in kf if f['property']==i and f.get('status')=='known']
    fixed=[f for f in kf if f['property']==i and f.get('status')=='fixed']
    muts=sorted(os.path.basename(m)[:-5] for m in glob.glob(f'{root}/mutants/{i}/*.diff'))
    seeds=[]
    for mp in sorted(glob.glob(f'{root}/seeded/{i}-*/meta.json')):
        m=json.load(open(mp)); seeds.append((m['id'],m['our_check'].get('caught')))
    rows.append((i,h.get('engine'),h.get('level'),ev.get('tier','-'),cov,len(known),[f['commit'] for f in fixed],muts,seeds,i in ready))
print('| id | engine | level | last run | known findings | fix commits | own mutants (all caught by selftest) | seeded changes (caught?) | registered |')
print('|---|---|---|---|---|---|---|---|---|')
for r in rows:
    print(f"| {r[0]} | {r[1]} | {r[2]} | {r[3]}: {r[4]} | {r[5]} | {' '.join(r[6]) or '-'} | {len(r[7])}: {', '.join(r[7])[:160]} | {', '.join(s+('=caught' if c else '=MISSED') for s,c in r[8]) or '-'} | {'yes' if r[9] else 'no'} |")

print()
print('### What each check claims (level_text / level_note of harness.json)')
print()
for hp in sorted(glob.glob(f'{root}/harness/C*/harness.json')):
    h=json.load(open(hp))
    print(f"* **{h['id']}** ({h.get('engine')}, {h.get('level')}): {h.get('level_text','').strip()} *Assumes:* {h.get('level_note','').strip()}")
print()
print('### Findings on ipfs/boxo (from known_findings.json and per-harness fragments)')
print()
seen=set()
for f in sorted(kf,key=lambda f:(f['property'],f.get('status',''))):
    key=(f['property'],f.get('status'),f['what'])
    if key in seen: continue
    seen.add(key)
    st=f.get('status')
    w=f['what']
    if st=='fixed': print(f"* **{f['property']}** repaired by `{f.get('commit','?')}` — {w.split(' ',3)[-1] if w.startswith('fixed:') else w}")
    else: print(f"* **{f['property']}** recorded (not repaired) — {w}")
