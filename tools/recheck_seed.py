#!/usr/bin/env python3
"""recheck_seed.py <seed id>...: re-run the quick check of the seed's property (meta check_property or property) against the stored
patch and update our_check in meta.json (history of earlier results is kept under our_check_history)."""
import json,sys,subprocess,os
for sid in sys.argv[1:]:
    d=f'/verif/seeded/{sid}'; m=json.load(open(f'{d}/meta.json'))
    prop=m.get('check_property') or m['property']
    p=subprocess.run(f'nice ./check {prop} quick --patch seeded/{sid}/patch.diff',shell=True,cwd='/verif',stdout=subprocess.PIPE,stderr=subprocess.STDOUT)
    o=p.stdout.decode(errors='replace')
    tail=[l for l in o.splitlines() if l.startswith('VIOLATION') or l.startswith(prop+' ') or l.startswith('vrun')][-4:]
    old=m.get('our_check')
    if old and old.get('exit')!=p.returncode: m.setdefault('our_check_history',[]).append(old)
    m['our_check']={'cmd':f'./check {prop} quick --patch seeded/{sid}/patch.diff','exit':p.returncode,'caught':p.returncode==1,'tail':tail}
    json.dump(m,open(f'{d}/meta.json','w'),indent=1)
    print(sid,'caught' if p.returncode==1 else f'NOT CAUGHT (exit {p.returncode})',tail[-1][:140] if tail else '')
