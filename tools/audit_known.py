#!/usr/bin/env python3
"""audit_known.py [log files...]: list `known` entries of known_findings.json that were matched neither in the last evidence files
(coverage.known_findings_matched) nor by a KNOWN-FINDING line in any of the given check logs. An entry that the unchanged tree no longer reaches is stale: it could hide the return of a repaired defect."""
import json,sys,re
k=json.load(open('/verif/known_findings.json'))['findings']
seen=set()
for f in sys.argv[1:]:
    for l in open(f,errors='replace'):
        m=re.match(r'KNOWN-FINDING: property=(\S+) (.*) \(matched \d+ cases\)',l.strip())
        if m: seen.add((m.group(1),m.group(2)))
import glob
for f in glob.glob('/verif/evidence/*.json'):
    e=json.load(open(f))
    for w in (e.get('coverage') or {}).get('known_findings_matched',[]) or []:
        seen.add((e.get('property') or f.split('/')[-1][:-5],w))
rc=0
for e in k:
    if e['status']!='known': continue
    if not any(p==e['property'] and (w.startswith(e['what'][:80]) or e['what'].startswith(w[:80])) for p,w in seen):
        print('UNMATCHED',e['property'],json.dumps(e['match']),e['what'][:100]); rc=1
sys.exit(rc)
