#!/bin/bash
# runs thorough checks for the given ids sequentially; one summary line each
cd "$(dirname "$0")/.."
for i in "$@"; do
  ./check $i thorough > thorough_$i.log 2>&1; rc=$?
  echo "$i exit=$rc viol=$(grep -c '^VIOLATION' thorough_$i.log) known=$(grep -c '^KNOWN-FINDING' thorough_$i.log) :: $(tail -1 thorough_$i.log | cut -c1-220)"
  grep -A4 '^VIOLATION' thorough_$i.log | head -40
done
echo THOROUGHDONE
