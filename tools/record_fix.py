#!/usr/bin/env python3
"""record_fix.py <prop> <commit> <symptom> <what...> : record a fix: commit in known_findings.json, drop the matching 'known'
entries (by symptom) from harness/<prop>/findings.json and known_findings.json, write the reverse patch as a mutant."""
import sys,json,subprocess,os
prop,commit,symptom=sys.argv[1:4]; what=' '.join(sys.argv[4:])
kp='/verif/known_findings.json'; k=json.load(open(kp))
k['findings']=[f for f in k['findings'] if not (f['property']==prop and f.get('status')=='known' and f['match'].get('symptom')==symptom)]
k['findings'].append({"property":prop,"status":"fixed","commit":commit,"match":{"symptom":symptom},"what":"fixed: property=%s %s %s"%(prop,commit,what)})
json.dump(k,open(kp,'w'),indent=1)
fp=f'/verif/harness/{prop}/findings.json'
if os.path.exists(fp):
    d=json.load(open(fp)); d['findings']=[f for f in d['findings'] if f['match'].get('symptom')!=symptom]; json.dump(d,open(fp,'w'),indent=1)
os.makedirs(f'/verif/mutants/{prop}',exist_ok=True)
open(f'/verif/mutants/{prop}/revert_fix_{commit}.diff','w').write(subprocess.check_output(['git','-C','/repo','diff',commit+'~1',commit,'-R']).decode())
print('recorded',prop,commit)
