#!/bin/bash
# runs every registered quick check sequentially (refreshes evidence/*.json); one summary line each, full logs under .build/quick_logs/
cd "$(dirname "$0")/.."
mkdir -p .build/quick_logs
for i in ${@:-$(cat ready.txt)}; do
  ./check $i quick > .build/quick_logs/$i.log 2>&1; rc=$?
  echo "$i exit=$rc known=$(grep -c '^KNOWN-FINDING' .build/quick_logs/$i.log) viol=$(grep -c '^VIOLATION' .build/quick_logs/$i.log) :: $(tail -1 .build/quick_logs/$i.log | cut -c1-200)"
done
echo QUICKDONE
