#!/usr/bin/env python3
"""verify_seed.py <worktree> <seed-out-dir>...  : confirm each seeded change (demo passes without / fails with, existing package
tests pass with), run our quick check against it through the overlay, and store it under /verif/seeded/<name>/."""
import sys,os,re,subprocess,json,shutil
W=sys.argv[1]
env=dict(os.environ,GOFLAGS='-mod=mod',GOPROXY='off'); env.pop('GOSUMDB',None); env.pop('GOTOOLCHAIN',None)
def run(cmd,cwd=None,timeout=3000):
    p=subprocess.run(cmd,shell=True,cwd=cwd,env=env,stdout=subprocess.PIPE,stderr=subprocess.STDOUT,timeout=timeout)
    return p.returncode,p.stdout.decode(errors='replace')
head=subprocess.check_output('git -C /repo rev-parse HEAD',shell=True).decode().strip()
run(f'git checkout -q --detach {head} && git checkout -- . && git clean -fdq -e out',cwd=W)
for d in sys.argv[2:]:
    d=d.rstrip('/'); name=os.path.basename(d); prop=name.split('-')[0]
    demo=open(f'{d}/demo_test.go').read()
    m=re.search(r'package directory\s+(\S+?)/?\s',demo) or re.search(r'Goes in:\s+(\S+?)/?\s',demo); pkg=m.group(1).rstrip('/')
    m=re.search(r'-run\s+(\S+)',demo); tname=m.group(1).strip("'\"")
    if 'Stress' in demo: tname='^'+tname+'$' 
    res={'name':name,'property':prop,'pkg':pkg,'test':tname}
    dst=f'{W}/{pkg}/zz_seed_demo_test.go'
    shutil.copy(f'{d}/demo_test.go',dst)
    c,o=run(f'nice go test -count=1 -run {tname} ./{pkg}/',cwd=W); res['demo_without']= 'pass' if c==0 else 'FAIL'
    c,o=run(f'git apply --exclude="*_test.go" {d}/patch.diff',cwd=W); res['applies']=(c==0)
    if c!=0:
        res['apply_out']=o[-500:]
    c,o=run(f'nice go test -count=1 -run {tname} ./{pkg}/',cwd=W); res['demo_with']= 'fail' if c!=0 else 'PASS'
    os.remove(dst)
    c,o=run(f'nice go test -count=1 ./{pkg}/...',cwd=W); res['existing_tests_with']='pass' if c==0 else 'FAIL'
    if c!=0: res['existing_out']=o[-800:]
    run('git checkout -- . && git clean -fdq -e out',cwd=W)
    c,o=run(f'nice ./check {prop} quick --patch {d}/patch.diff',cwd='/verif')
    res['check_exit']=c; res['check_tail']=[l for l in o.splitlines() if l.startswith('VIOLATION') or l.startswith(prop+' ') or l.startswith('vrun')][-4:]
    ok = res['demo_without']=='pass' and res['demo_with']=='fail' and res['existing_tests_with']=='pass' and res['applies']
    res['confirmed']=ok
    print(json.dumps(res),flush=True)
    if ok:
        out=f'/verif/seeded/{name}'; os.makedirs(out,exist_ok=True)
        shutil.copy(f'{d}/patch.diff',out); shutil.copy(f'{d}/demo_test.go',out)
        if os.path.exists(f'{d}/notes.md'): shutil.copy(f'{d}/notes.md',out)
        notes=open(f'{d}/notes.md').read() if os.path.exists(f'{d}/notes.md') else ''
        meta={'property':prop,'id':name,'source':'independent sub-agent given only the property text and a scratch worktree',
              'needs_to_manifest':notes[:1500],
              'confirmed':{'repo_commit':head,'demo':f'go test -run {tname} ./{pkg}/ : passes without the patch, fails with it','existing_tests':f'go test ./{pkg}/... passes with the patch'},
              'our_check':{'cmd':f'./check {prop} quick --patch seeded/{name}/patch.diff','exit':c,'caught':c==1,'tail':res['check_tail']}}
        json.dump(meta,open(f'{out}/meta.json','w'),indent=1)
