#!/bin/bash
# rebase_mutant.sh <diff> <old-commit>: re-base a mutant diff written against <old-commit> of /repo onto /repo's working tree (3-way merge per file)
set -eu
d=$(readlink -f "$1"); old=$2
t=$(mktemp -d); trap 'rm -rf $t' EXIT
files=$(grep -E '^\+\+\+ b/' "$d" | sed 's|^+++ b/||; s|\t.*||')
mkdir -p $t/old $t/mut
for f in $files; do
  mkdir -p $t/old/$(dirname $f) $t/mut/$(dirname $f)
  git -C /repo show $old:$f > $t/old/$f
  cp $t/old/$f $t/mut/$f
done
( cd $t/mut && patch -p1 -s --no-backup-if-mismatch -i "$d" )
: > $t/new.diff
for f in $files; do
  cp /repo/$f $t/cur
  git merge-file --union $t/mut/$f $t/old/$f $t/cur || true
  diff -u --label a/$f --label b/$f /repo/$f $t/mut/$f >> $t/new.diff || true
done
cp $t/new.diff "$d"
echo "rebased $d"
