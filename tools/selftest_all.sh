#!/bin/bash
# runs ./check selftest for every registered property; prints one summary line per mutant
cd "$(dirname "$0")/.."
for i in ${@:-$(cat ready.txt)}; do
  ./check selftest $i 2>&1 | grep -E "^selftest|^    (caught|MISSED|ERROR)|does not apply" | paste - - | sed "s/^/$i: /"
done
echo SELFTESTDONE
