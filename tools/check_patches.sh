#!/bin/bash
# check_patches.sh: list stored property-breaking patches (own mutants and seeded changes) that no longer apply to /repo's working tree
cd "$(dirname "$0")/.."
rc=0
for d in mutants/*/*.diff seeded/*/patch.diff; do
  if ! (cd /repo && patch -p1 --dry-run -s -f < "/verif/$d" >/dev/null 2>&1); then echo "STALE $d"; rc=1; fi
done
exit $rc
