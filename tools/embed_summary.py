#!/usr/bin/env python3
import subprocess,re
s=open('/verif/DESIGN.md').read()
gen=subprocess.check_output(['/verif/tools/summary.py']).decode()
b='<!-- BEGIN GENERATED (tools/embed_summary.py) -->'; e='<!-- END GENERATED -->'
block=f"{b}\n{gen}\n{e}"
if b in s:
    s=s[:s.index(b)]+block+s[s.index(e)+len(e):]
else:
    s=s.replace('## Appendix A.',"## 7. As built: per-property status, detection matrix and findings (generated)\n\n"+block+"\n\n## Appendix A.",1)
open('/verif/DESIGN.md','w').write(s)
