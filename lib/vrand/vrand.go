//go:build verif

// Package vrand replaces math/rand draws in rewritten code by explicit
// environment choices from {0, n/2, n-1} (non-default answers are deviations).
package vrand

import (
	"math/rand/v2"

	"github.com/ipfs/boxo/verifshim/vsched"
)

func pick(n int64) int64 {
	if n <= 0 {
		panic("invalid argument to rand draw")
	}
	if !vsched.Active() {
		return rand.Int64N(n)
	}
	switch vsched.Choose(3, 1) {
	case 1:
		return n / 2
	case 2:
		return n - 1
	}
	return 0
}

func Int64N(n int64) int64 { return pick(n) }
func Int63n(n int64) int64 { return pick(n) }
func IntN(n int) int       { return int(pick(int64(n))) }
func Intn(n int) int       { return int(pick(int64(n))) }
func Int31n(n int32) int32 { return int32(pick(int64(n))) }
func Int32N(n int32) int32 { return int32(pick(int64(n))) }
func Uint64N(n uint64) uint64 { return uint64(pick(int64(n))) }
func Float64() float64 {
	if !vsched.Active() {
		return rand.Float64()
	}
	switch vsched.Choose(3, 1) {
	case 1:
		return 0.5
	case 2:
		return 0.999999
	}
	return 0
}
