//go:build verif

// Package vexp is the stateless schedule explorer of engine E3: deviation-
// bounded depth-first search over the recorded choice points of vsched
// executions, sharded over worker subprocesses.
package vexp

import (
	"bufio"
	"encoding/json"
	"fmt"
	"os"
	"os/exec"
	"runtime"
	"sort"
	"strings"
	"sync"
	"time"

	"github.com/ipfs/boxo/verifshim/eng"
	"github.com/ipfs/boxo/verifshim/vsched"
)

// Exec is one fresh execution of a scenario: it builds a new instance of the
// code under test, drives it from Main (thread 0) and judges the result.
type Exec interface {
	Main()
	// AtEnd runs when the execution has ended, before leftover threads are
	// torn down: snapshot whatever Check needs.
	AtEnd(res *vsched.Result)
	// Check is the oracle. It must not report scheduler verdicts; those are
	// handled by the explorer.
	Check(res *vsched.Result) *eng.Violation
	// Outcome is a canonical observation string (distinct-outcome counting).
	Outcome() string
}

type Scenario struct {
	Name string
	Cfg  vsched.Config
	New  func() Exec
	// Allow lists scheduler verdicts that are not violations for this scenario.
	Allow map[string]bool
	// BoundDelta is added to Options.Bound for this scenario (large scenarios get a smaller bound).
	BoundDelta int
}

type Options struct {
	Bound   int // deviation bound
	Workers int // 0 = NumCPU
	// MaxExecs caps executions per scenario (0 = none); hitting it marks the run incomplete.
	MaxExecs int
	// NoUnlockPoints keeps lock releases from being scheduling points in every scenario.
	NoUnlockPoints bool
	// NoDeepen switches off the thorough tier's use of left-over budget for deeper bounds.
	NoDeepen bool
}

type replayRec struct {
	Scenario string `json:"scenario"`
	Choices  []int  `json:"choices"`
	// UnlockPoints: the schedule was recorded with lock releases as scheduling points (thorough tier)
	UnlockPoints bool `json:"unlock_points,omitempty"`
}

type item struct {
	Sc       string `json:"sc"`
	Prefix   []int  `json:"prefix"`
	Cost     int    `json:"cost"`
	Bound    int    `json:"bound"`
	Deadline int64  `json:"deadline"` // unix seconds, 0 none
	MaxExecs int    `json:"max_execs"`
}

type stats struct {
	Execs       int              `json:"execs"`
	Deviating   int              `json:"deviating"`
	Points      int              `json:"points"`
	MaxPoints   int              `json:"max_points"`
	Outcomes    map[string]int   `json:"outcomes"`
	Verdicts    map[string]int   `json:"verdicts"`
	Viols       []*eng.Violation `json:"viols"`
	Divergences int              `json:"divergences"`
	CapHit      bool             `json:"cap_hit"`
	Sample      []int            `json:"sample,omitempty"`
}

func newStats() *stats { return &stats{Outcomes: map[string]int{}, Verdicts: map[string]int{}} }

func (a *stats) merge(b *stats) {
	a.Execs += b.Execs
	a.Deviating += b.Deviating
	a.Points += b.Points
	if b.MaxPoints > a.MaxPoints {
		a.MaxPoints = b.MaxPoints
	}
	for k, v := range b.Outcomes {
		if len(a.Outcomes) < 5000 || a.Outcomes[k] > 0 {
			a.Outcomes[k] += v
		}
	}
	for k, v := range b.Verdicts {
		a.Verdicts[k] += v
	}
	a.Viols = append(a.Viols, b.Viols...)
	a.Divergences += b.Divergences
	a.CapHit = a.CapHit || b.CapHit
	if a.Sample == nil {
		a.Sample = b.Sample
	}
}

var registry = map[string]*Scenario{}

// Register makes scenarios known to worker mode; call before eng.Main.
func Register(scs ...*Scenario) {
	for _, s := range scs {
		registry[s.Name] = s
	}
	eng.WorkerMain = workerMain
}

// runOne executes one schedule and judges it.
func runOne(sc *Scenario, prefix []int, trace bool) (*vsched.Result, Exec, *eng.Violation) {
	x := sc.New()
	cfg := sc.Cfg
	cfg.Prefix = prefix
	cfg.Trace = trace
	var res *vsched.Result
	cfg.AtEnd = func() {}
	resHolder := &res
	_ = resHolder
	var atEndRes vsched.Result
	cfg.AtEnd = func() { x.AtEnd(&atEndRes) }
	res = vsched.Run(cfg, x.Main)
	var v *eng.Violation
	switch res.Verdict {
	case "ok":
		v = x.Check(res)
	case "horizon", "divergence":
	default:
		if !sc.Allow[res.Verdict] {
			v = eng.V(res.Verdict, "", res.Detail)
		}
	}
	if v != nil {
		if v.Features == nil {
			v.Features = map[string]string{}
		}
		// optional: the Exec adds defect-class features to explorer-made verdict violations (deadlock, panic, ...)
		if c, ok := x.(interface {
			Classify(*vsched.Result, *eng.Violation)
		}); ok && res.Verdict != "ok" {
			c.Classify(res, v)
		}
		v.Features["scenario"] = sc.Name
		v.Replay = replayRec{sc.Name, append([]int{}, res.Choices...), vsched.UnlockPointsForced()}
	}
	return res, x, v
}

// confirm re-runs a violating schedule and requires the same verdict and outcome.
func confirm(sc *Scenario, choices []int, v *eng.Violation, outcome string) bool {
	for i := 0; i < 2; i++ {
		_, x2, v2 := runOne(sc, choices, false)
		if v2 == nil || v2.Symptom != v.Symptom || x2.Outcome() != outcome {
			return false
		}
	}
	return true
}

// sameClass counts the recorded violations with v's symptom, op and features: the
// cap on recorded violations is per class, so that many executions of one
// (possibly known) class cannot crowd out a different class.
func sameClass(vs []*eng.Violation, v *eng.Violation) int {
	n := 0
	for _, w := range vs {
		if w.Symptom != v.Symptom || w.Op != v.Op || len(w.Features) != len(v.Features) {
			continue
		}
		same := true
		for k, x := range v.Features {
			if w.Features[k] != x {
				same = false
				break
			}
		}
		if same {
			n++
		}
	}
	return n
}

// subtree explores everything below prefix (inclusive) within the bound.
func subtree(sc *Scenario, it item, st *stats, split bool) (children []item) {
	var rec func(prefix []int, cost int)
	stop := false
	rec = func(prefix []int, cost int) {
		if stop {
			return
		}
		if it.Deadline > 0 && time.Now().Unix() > it.Deadline {
			st.CapHit = true
			stop = true
			return
		}
		if it.MaxExecs > 0 && st.Execs >= it.MaxExecs {
			st.CapHit = true
			stop = true
			return
		}
		res, x, v := runOne(sc, prefix, false)
		st.Execs++
		if cost > 0 {
			st.Deviating++
		}
		st.Points += len(res.Points)
		if len(res.Points) > st.MaxPoints {
			st.MaxPoints = len(res.Points)
		}
		st.Verdicts[res.Verdict]++
		out := x.Outcome()
		if len(st.Outcomes) < 2000 || st.Outcomes[out] > 0 {
			st.Outcomes[out]++
		}
		if st.Sample == nil && cost > 0 {
			st.Sample = append([]int{}, res.Choices...)
		}
		if res.Verdict == "divergence" {
			st.Divergences++
			return
		}
		if v != nil {
			if confirm(sc, res.Choices, v, out) {
				if sameClass(st.Viols, v) < 3 && len(st.Viols) < 500 {
					st.Viols = append(st.Viols, v)
				}
			} else {
				st.Divergences++
			}
			// do not extend a violating execution's alternatives? They are
			// different schedules; keep exploring.
		}
		for i := len(prefix); i < len(res.Points); i++ {
			p := res.Points[i]
			for a := 1; a < p.N; a++ {
				c := cost + int(p.Costs[a])
				if c > it.Bound {
					continue
				}
				np := make([]int, i+1)
				copy(np, res.Choices[:i])
				np[i] = a
				if split {
					children = append(children, item{Sc: it.Sc, Prefix: np, Cost: c, Bound: it.Bound, Deadline: it.Deadline, MaxExecs: it.MaxExecs})
				} else {
					rec(np, c)
				}
			}
		}
	}
	rec(it.Prefix, it.Cost)
	return children
}

func workerMain() {
	// one P: hand-offs between managed goroutines stay on one processor (4x faster than 16 Ps)
	runtime.GOMAXPROCS(1)
	in := bufio.NewReaderSize(os.Stdin, 1<<20)
	out := bufio.NewWriter(os.Stdout)
	for {
		line, err := in.ReadBytes('\n')
		if len(line) > 0 {
			var it item
			if e := json.Unmarshal(line, &it); e != nil {
				fmt.Fprintln(os.Stderr, "worker: bad item:", e)
				os.Exit(2)
			}
			sc := registry[it.Sc]
			if sc == nil {
				fmt.Fprintln(os.Stderr, "worker: unknown scenario", it.Sc)
				os.Exit(2)
			}
			st := newStats()
			subtree(sc, it, st, false)
			b, _ := json.Marshal(st)
			out.Write(b)
			out.WriteByte('\n')
			out.Flush()
		}
		if err != nil {
			return
		}
	}
}

// exploreAt explores one scenario to the given deviation bound into st.
func exploreAt(sc *Scenario, bound int, deadline int64, maxExecs, nw int, st *stats) {
	root := item{Sc: sc.Name, Bound: bound, Deadline: deadline, MaxExecs: maxExecs}
	// the root execution in the parent; its alternatives (level 1) go to the
	// workers, split once more only when there are too few of them to keep
	// every worker busy
	oldProcs := runtime.GOMAXPROCS(1)
	work := subtree(sc, root, st, true)
	if len(work) > 0 && len(work) < 4*nw {
		var lvl2 []item
		for _, it := range work {
			lvl2 = append(lvl2, subtree(sc, it, st, true)...)
		}
		work = lvl2
	}
	if len(work) > 0 && (nw <= 1 || len(work) < 8 || os.Getenv("VERIF_BIN") == "") {
		for _, it := range work {
			subtree(sc, it, st, false)
		}
		work = nil
	}
	runtime.GOMAXPROCS(oldProcs)
	if len(work) > 0 {
		runWorkers(nw, work, st)
	}
}

// Explore explores every scenario to the deviation bound and reports into r.
func Explore(r *eng.Run, scs []*Scenario, opt Options) {
	Register(scs...)
	nw := opt.Workers
	if nw == 0 {
		nw = runtime.NumCPU()
	}
	if !opt.NoUnlockPoints {
		// lock releases are scheduling points in every scenario (both tiers): a
		// native, un-rewritten state change right after an Unlock (context
		// cancel, a plain field) is otherwise a window no other thread can enter
		vsched.ForceUnlockPoints(true)
	}
	r.Set("unlock_points_everywhere", vsched.UnlockPointsForced())
	total := newStats()
	perSc := map[string]map[string]any{}
	for _, sc := range scs {
		if f := os.Getenv("VERIF_SCENARIO"); f != "" && f != sc.Name {
			continue
		}
		if os.Getenv("VERIF_TRACE_ROOT") != "" {
			res, x, _ := runOne(sc, nil, true)
			fmt.Fprintf(os.Stderr, "--- root execution of %s: verdict=%s outcome=%s\n", sc.Name, res.Verdict, x.Outcome())
			for _, l := range res.Trace {
				fmt.Fprintln(os.Stderr, "  "+l)
			}
		}
		st := newStats()
		var deadline int64
		if d := r.DeadlineUnix(); d > 0 {
			deadline = d
		}
		bound := opt.Bound + sc.BoundDelta
		if bound < 0 {
			bound = 0
		}
		exploreAt(sc, bound, deadline, opt.MaxExecs, nw, st)
		if st.CapHit {
			r.Incomplete(fmt.Sprintf("scenario %s: budget/cap hit after %d executions", sc.Name, st.Execs))
		}
		if st.Divergences > 0 {
			r.Incomplete(fmt.Sprintf("scenario %s: %d non-reproducible executions (divergences) not counted as violations", sc.Name, st.Divergences))
		}
		perSc[sc.Name] = map[string]any{"deviation_bound": bound, "executions": st.Execs, "with_deviations": st.Deviating, "choice_points": st.Points, "max_points_per_execution": st.MaxPoints, "distinct_outcomes": len(st.Outcomes), "verdicts": st.Verdicts}
		if st.Sample == nil {
			// no deviating schedule exists (bound 0 or a single-threaded scenario): show the default schedule
			if res, _, _ := runOne(sc, nil, false); res != nil {
				st.Sample = append([]int{}, res.Choices...)
			}
		}
		if len(perSc) <= 6 {
			r.Sample(map[string]any{"scenario": sc.Name, "schedule_choices": st.Sample})
		}
		for o := range st.Outcomes {
			r.Outcome(sc.Name + ":" + o)
		}
		for _, v := range st.Viols {
			r.Report(v)
		}
		total.merge(st)
	}
	// Thorough tier: spend what is left of the budget on the next deviation
	// bound(s), scenario by scenario (smallest first). The claim of the run
	// stays the base bound; a deeper bound that completes is recorded per
	// scenario, one that is cut by the budget is recorded as such and does not
	// make the run "incomplete". Violations found there are reported as usual.
	if r.Thorough() && !opt.NoDeepen && r.DeadlineUnix() > 0 && total.Divergences == 0 {
		order := append([]*Scenario{}, scs...)
		sort.SliceStable(order, func(i, j int) bool {
			a, _ := perSc[order[i].Name]["executions"].(int)
			b, _ := perSc[order[j].Name]["executions"].(int)
			return a < b
		})
		for extra := 1; extra <= 2; extra++ {
			for _, sc := range order {
				info := perSc[sc.Name]
				if info == nil || info["deeper_cut_by_budget"] != nil {
					continue
				}
				left := r.DeadlineUnix() - time.Now().Unix()
				if left < 60 {
					break
				}
				base, _ := info["deviation_bound"].(int)
				st := newStats()
				exploreAt(sc, base+extra, r.DeadlineUnix()-20, opt.MaxExecs, nw, st)
				for _, v := range st.Viols {
					r.Report(v)
				}
				if st.CapHit || st.Divergences > 0 {
					info["deeper_cut_by_budget"] = map[string]any{"bound": base + extra, "executions_done": st.Execs}
					total.Execs += st.Execs
					total.Points += st.Points
					continue
				}
				info["deeper_bound_completed"] = base + extra
				info["deeper_executions"] = st.Execs
				total.Execs += st.Execs
				total.Points += st.Points
				total.Deviating += st.Deviating
				for o := range st.Outcomes {
					r.Outcome(sc.Name + ":" + o)
				}
			}
		}
	}
	stopPool()
	r.Eval(total.Execs)
	r.States(total.Points + total.Execs)
	r.Transitions(total.Points)
	r.Traces(total.Execs)
	r.SetDistinctCount(total.Deviating)
	r.Set("deviation_bound_completed", opt.Bound)
	r.Set("scenarios", perSc)
	r.Set("divergences", total.Divergences)
	hz := total.Verdicts["horizon"]
	r.Set("horizon_hits", hz)
}

// worker is one persistent exploration subprocess (reused across scenarios).
type worker struct {
	cmd   *exec.Cmd
	stdin interface{ Write([]byte) (int, error); Close() error }
	rd    *bufio.Reader
}

var pool []*worker

func startPool(nw int) {
	for len(pool) < nw {
		cmd := exec.Command(os.Getenv("VERIF_BIN"), "-worker")
		cmd.Stderr = os.Stderr
		cmd.Env = append(os.Environ(), "GOMAXPROCS=1")
		if vsched.UnlockPointsForced() {
			cmd.Env = append(cmd.Env, "VERIF_UNLOCK_POINTS=1")
		}
		stdin, _ := cmd.StdinPipe()
		stdout, _ := cmd.StdoutPipe()
		if err := cmd.Start(); err != nil {
			fmt.Fprintln(os.Stderr, "cannot start worker:", err)
			os.Exit(2)
		}
		pool = append(pool, &worker{cmd: cmd, stdin: stdin, rd: bufio.NewReaderSize(stdout, 1<<20)})
	}
}

func stopPool() {
	for _, w := range pool {
		w.stdin.Close()
		w.cmd.Wait()
	}
	pool = nil
}

func runWorkers(nw int, items []item, st *stats) {
	// biggest remaining budget first
	sort.SliceStable(items, func(i, j int) bool { return items[i].Cost < items[j].Cost })
	q := make(chan item, len(items))
	for _, it := range items {
		q <- it
	}
	close(q)
	var mu sync.Mutex
	var wg sync.WaitGroup
	if nw > len(items) {
		nw = len(items)
	}
	startPool(nw)
	for wi := 0; wi < nw; wi++ {
		wg.Add(1)
		w := pool[wi]
		go func() {
			defer wg.Done()
			for it := range q {
				b, _ := json.Marshal(it)
				w.stdin.Write(append(b, '\n'))
				line, err := w.rd.ReadBytes('\n')
				if err != nil {
					fmt.Fprintf(os.Stderr, "worker died on item %s: %v\n", b, err)
					os.Exit(2)
				}
				ws := newStats()
				if e := json.Unmarshal(line, ws); e != nil {
					fmt.Fprintln(os.Stderr, "bad worker reply:", e, strings.TrimSpace(string(line)))
					os.Exit(2)
				}
				mu.Lock()
				st.merge(ws)
				mu.Unlock()
			}
		}()
	}
	wg.Wait()
}

// Replay re-executes one recorded schedule with tracing and prints it.
func Replay(r *eng.Run, scs []*Scenario, raw json.RawMessage) {
	var rp replayRec
	if err := json.Unmarshal(raw, &rp); err != nil {
		fmt.Println("bad replay:", err)
		return
	}
	for _, sc := range scs {
		if sc.Name != rp.Scenario {
			continue
		}
		if rp.UnlockPoints {
			vsched.ForceUnlockPoints(true)
		}
		res, x, v := runOne(sc, rp.Choices, true)
		for _, l := range res.Trace {
			fmt.Println("  " + l)
		}
		fmt.Printf("  verdict=%s outcome=%s\n", res.Verdict, x.Outcome())
		r.Eval(1)
		if v != nil {
			r.Report(v)
		} else {
			fmt.Println("  replay: no violation")
		}
		return
	}
	fmt.Println("unknown scenario", rp.Scenario)
}
