//go:build verif

// Package eng is the harness-side runtime of the /verif machinery: counters,
// evidence, violation reporting, known-finding matching, replay plumbing.
// It is compiled into the boxo module through `go build -overlay` at the
// virtual path github.com/ipfs/boxo/verifshim/eng.
package eng

import (
	"crypto/sha256"
	"encoding/hex"
	"encoding/json"
	"flag"
	"fmt"
	"os"
	"path/filepath"
	"runtime"
	"runtime/debug"
	"sort"
	"strings"
	"sync"
	"sync/atomic"
	"time"
)

// Violation is a structured record of one failing case.  Known findings match
// on (Symptom, Op, Features) so that a listed defect does not hide a different
// violation of the same property.
type Violation struct {
	Symptom  string            `json:"symptom"`
	Op       string            `json:"op,omitempty"`
	Features map[string]string `json:"features,omitempty"`
	Detail   string            `json:"detail"`
	Replay   any               `json:"replay,omitempty"`
}

func (v *Violation) sig() string {
	ks := make([]string, 0, len(v.Features))
	for k := range v.Features {
		ks = append(ks, k)
	}
	sort.Strings(ks)
	var sb strings.Builder
	sb.WriteString(v.Symptom)
	sb.WriteString("|")
	sb.WriteString(v.Op)
	for _, k := range ks {
		sb.WriteString("|" + k + "=" + v.Features[k])
	}
	return sb.String()
}

// V is shorthand for building a violation.
func V(symptom, op, detail string, kv ...string) *Violation {
	v := &Violation{Symptom: symptom, Op: op, Detail: detail}
	if len(kv) > 0 {
		v.Features = map[string]string{}
		for i := 0; i+1 < len(kv); i += 2 {
			v.Features[kv[i]] = kv[i+1]
		}
	}
	return v
}

type knownEntry struct {
	Property string `json:"property"`
	Status   string `json:"status"` // known | fixed
	Match    struct {
		Symptom  string            `json:"symptom"`
		Op       string            `json:"op,omitempty"`
		Features map[string]string `json:"features,omitempty"`
	} `json:"match"`
	What   string `json:"what"`
	Commit string `json:"commit,omitempty"`
}

type Run struct {
	ID    string
	Tier  string
	Seed  int64
	Level string

	mu          sync.Mutex
	evals       atomic.Int64
	states      atomic.Int64
	transitions atomic.Int64
	traces      atomic.Int64
	distinct    map[[16]byte]struct{}
	outcomes    map[[16]byte]struct{}
	samples     []any
	sampleCap   int
	rule        string
	extra       map[string]any
	assumptions []string
	exhaustive  bool
	incomplete  []string
	viols       map[string]*Violation // by signature, first (smallest) kept
	violCount   int
	known       []knownEntry
	knownHit    map[int]int
	start       time.Time
	deadline    time.Time
	replayFile  string
	replayDir   string
	evidence    string
	verbose     bool
	distinctOverride int
}

var theRun *Run

// WorkerMain, when set by a harness (via vexp), is run instead of the body
// when the binary is started with -worker.
var WorkerMain func()

// Main is the entry point of every harness binary.
func Main(id, level string, body func(r *Run), replay func(r *Run, raw json.RawMessage)) {
	tier := flag.String("tier", "quick", "quick|thorough")
	seed := flag.Int64("seed", 0, "seed (permutes visiting order only)")
	evid := flag.String("evidence", "", "evidence file to write")
	knownF := flag.String("known", "", "known_findings.json")
	replayDir := flag.String("replaydir", "", "directory for replay files")
	replayF := flag.String("replay", "", "replay one recorded case")
	budget := flag.Duration("budget", 0, "soft wall-clock budget; on expiry the run ends with exhaustive=false")
	verbose := flag.Bool("v", false, "verbose")
	worker := flag.Bool("worker", false, "run as exploration worker (internal)")
	flag.Parse()
	if *worker {
		if WorkerMain == nil {
			fmt.Fprintln(os.Stderr, "harness has no worker mode")
			os.Exit(2)
		}
		WorkerMain()
		os.Exit(0)
	}
	r := &Run{ID: id, Tier: *tier, Seed: *seed, Level: level,
		distinct: map[[16]byte]struct{}{}, outcomes: map[[16]byte]struct{}{},
		sampleCap: 6, extra: map[string]any{}, exhaustive: true, viols: map[string]*Violation{},
		knownHit: map[int]int{}, start: time.Now(), replayFile: *replayF, replayDir: *replayDir,
		evidence: *evid, verbose: *verbose}
	theRun = r
	if *budget > 0 {
		r.deadline = r.start.Add(*budget)
	}
	for _, kfn := range strings.Split(*knownF, ",") {
		if b, err := os.ReadFile(kfn); err == nil && kfn != "" {
			var kf struct {
				Findings []knownEntry `json:"findings"`
			}
			if err := json.Unmarshal(b, &kf); err != nil {
				fmt.Fprintf(os.Stderr, "bad known findings file: %v\n", err)
				os.Exit(2)
			}
			for _, k := range kf.Findings {
				if k.Property == id {
					r.known = append(r.known, k)
				}
			}
		}
	}
	debug.SetMaxStack(256 << 20)
	if *replayF != "" {
		b, err := os.ReadFile(*replayF)
		if err != nil {
			fmt.Fprintf(os.Stderr, "replay: %v\n", err)
			os.Exit(2)
		}
		var rec struct {
			Violation Violation `json:"violation"`
		}
		if err := json.Unmarshal(b, &rec); err != nil {
			fmt.Fprintf(os.Stderr, "replay: %v\n", err)
			os.Exit(2)
		}
		if replay == nil {
			fmt.Fprintf(os.Stderr, "harness %s has no replay function\n", id)
			os.Exit(2)
		}
		raw, _ := json.Marshal(rec.Violation.Replay)
		r.evidence = "" // a replay never rewrites evidence
		replay(r, raw)
		r.finish(true)
		return
	}
	body(r)
	r.finish(false)
}

func (r *Run) Thorough() bool { return r.Tier == "thorough" }

// Pick returns q in the quick tier and t in the thorough tier.
func Pick[T any](r *Run, q, t T) T {
	if r.Thorough() {
		return t
	}
	return q
}

func (r *Run) Eval(n int)        { r.evals.Add(int64(n)) }
func (r *Run) States(n int)      { r.states.Add(int64(n)) }
func (r *Run) Transitions(n int) { r.transitions.Add(int64(n)) }
func (r *Run) Traces(n int)      { r.traces.Add(int64(n)) }

func h16(s string) [16]byte {
	h := sha256.Sum256([]byte(s))
	var o [16]byte
	copy(o[:], h[:16])
	return o
}

// Distinct records a non-trivial case by canonical key; the count of distinct
// keys is reported as distinct_nontrivial.
func (r *Run) Distinct(key string) {
	k := h16(key)
	r.mu.Lock()
	r.distinct[k] = struct{}{}
	r.mu.Unlock()
}

// Outcome records an observation vector; a run with a single distinct outcome
// is flagged vacuous.
func (r *Run) Outcome(key string) {
	k := h16(key)
	r.mu.Lock()
	r.outcomes[k] = struct{}{}
	r.mu.Unlock()
}

func (r *Run) Sample(v any) {
	r.mu.Lock()
	if len(r.samples) < r.sampleCap {
		r.samples = append(r.samples, v)
	}
	r.mu.Unlock()
}

func (r *Run) Rule(s string)   { r.mu.Lock(); r.rule = s; r.mu.Unlock() }
func (r *Run) Assume(s string) { r.mu.Lock(); r.assumptions = append(r.assumptions, s); r.mu.Unlock() }
func (r *Run) Set(k string, v any) {
	r.mu.Lock()
	r.extra[k] = v
	r.mu.Unlock()
}

// Add adds n to an integer coverage counter.
func (r *Run) Add(k string, n int) {
	r.mu.Lock()
	c, _ := r.extra[k].(int)
	r.extra[k] = c + n
	r.mu.Unlock()
}

// Incomplete marks the run as not exhaustive (cap or budget hit).
func (r *Run) Incomplete(reason string) {
	r.mu.Lock()
	r.exhaustive = false
	if len(r.incomplete) < 20 {
		r.incomplete = append(r.incomplete, reason)
	}
	r.mu.Unlock()
}

// Expired reports whether the soft budget is used up. Explorers stop
// expanding, mark the run Incomplete and exit 0.
func (r *Run) Expired() bool {
	return !r.deadline.IsZero() && time.Now().After(r.deadline)
}

// shareLeft reports whether configuration i of n may still start extra
// (beyond-the-claim) work: the budget is divided evenly, configuration i may
// use time up to the end of its own share.
func (r *Run) shareLeft(i, n int) bool {
	if r.deadline.IsZero() || n <= 0 {
		return false
	}
	total := r.deadline.Sub(r.start)
	limit := r.start.Add(total * time.Duration(i+1) / time.Duration(n))
	return time.Now().Before(limit.Add(-total / time.Duration(4*n)))
}

// DeadlineUnix returns the soft deadline as unix seconds (0 = none).
func (r *Run) DeadlineUnix() int64 {
	if r.deadline.IsZero() {
		return 0
	}
	return r.deadline.Unix()
}

// SetDistinctCount sets distinct_nontrivial directly when the explorer counts
// distinct cases itself (every explored schedule is a distinct choice sequence).
func (r *Run) SetDistinctCount(n int) {
	r.mu.Lock()
	r.distinctOverride += n
	r.mu.Unlock()
}

func (r *Run) Logf(f string, a ...any) {
	if r.verbose {
		fmt.Fprintf(os.Stderr, f+"\n", a...)
	}
}

func (r *Run) matchKnown(v *Violation) int {
	for i, k := range r.known {
		if k.Status != "known" {
			continue
		}
		if k.Match.Symptom != v.Symptom {
			continue
		}
		if k.Match.Op != "" && k.Match.Op != v.Op {
			continue
		}
		ok := true
		for fk, fv := range k.Match.Features {
			if v.Features[fk] != fv {
				ok = false
				break
			}
		}
		if ok {
			return i
		}
	}
	return -1
}

// Report records a violation. Returns true if it matched a known finding.
func (r *Run) Report(v *Violation) bool {
	if v == nil {
		return false
	}
	r.mu.Lock()
	defer r.mu.Unlock()
	if i := r.matchKnown(v); i >= 0 {
		r.knownHit[i]++
		return true
	}
	r.violCount++
	s := v.sig()
	old, ok := r.viols[s]
	if !ok || replaySize(v) < replaySize(old) {
		r.viols[s] = v
	}
	return false
}

func replaySize(v *Violation) int {
	b, _ := json.Marshal(v.Replay)
	return len(b)
}

func (r *Run) ViolationCount() int {
	r.mu.Lock()
	defer r.mu.Unlock()
	return r.violCount
}

func (r *Run) finish(isReplay bool) {
	wall := time.Since(r.start).Seconds()
	r.mu.Lock()
	defer r.mu.Unlock()
	sigs := make([]string, 0, len(r.viols))
	for s := range r.viols {
		sigs = append(sigs, s)
	}
	sort.Strings(sigs)
	for i, k := range r.known {
		if n := r.knownHit[i]; n > 0 {
			fmt.Printf("KNOWN-FINDING: property=%s %s (matched %d cases)\n", r.ID, k.What, n)
		}
	}
	for _, s := range sigs {
		v := r.viols[s]
		path := ""
		if r.replayDir != "" && !isReplay {
			os.MkdirAll(r.replayDir, 0o755)
			hh := sha256.Sum256([]byte(s))
			path = filepath.Join(r.replayDir, r.ID+"-"+hex.EncodeToString(hh[:5])+".json")
			b, _ := json.MarshalIndent(map[string]any{"property": r.ID, "violation": v}, "", " ")
			os.WriteFile(path, b, 0o644)
		} else if isReplay {
			path = r.replayFile
		}
		fmt.Printf("VIOLATION property=%s replay=%s\n", r.ID, path)
		fmt.Printf("  symptom=%s op=%s features=%v\n  %s\n", v.Symptom, v.Op, v.Features, firstLines(v.Detail, 12))
	}
	if r.evidence != "" {
		cov := map[string]any{}
		for k, v := range r.extra {
			cov[k] = v
		}
		ev := int(r.evals.Load())
		if ev == 0 {
			ev = int(r.transitions.Load())
		}
		cov["evaluations"] = ev
		cov["distinct_nontrivial"] = len(r.distinct) + r.distinctOverride
		cov["distinct_outcomes"] = len(r.outcomes)
		if len(r.outcomes) == 1 {
			cov["vacuous"] = true
		}
		cov["rule"] = r.rule
		cov["samples"] = r.samples
		if r.samples == nil {
			cov["samples"] = []any{}
		}
		if st := r.states.Load(); st > 0 {
			cov["states"] = st
			cov["transitions"] = r.transitions.Load()
			cov["traces_validated_against_impl"] = r.traces.Load()
		}
		cov["exhaustive"] = r.exhaustive
		if len(r.incomplete) > 0 {
			cov["cap_hit"] = r.incomplete
		}
		kn := []string{}
		for i, k := range r.known {
			if r.knownHit[i] > 0 {
				kn = append(kn, k.What)
			}
		}
		if len(kn) > 0 {
			cov["known_findings_matched"] = kn
		}
		cov["go_maxprocs"] = runtime.GOMAXPROCS(0)
		doc := map[string]any{
			"property_id": r.ID, "tier": r.Tier, "seed": r.Seed, "level": r.Level,
			"coverage": cov, "assumptions": r.assumptions, "wall_s": wall, "violations": len(sigs),
		}
		if r.assumptions == nil {
			doc["assumptions"] = []string{}
		}
		b, _ := json.MarshalIndent(doc, "", " ")
		os.MkdirAll(filepath.Dir(r.evidence), 0o755)
		if err := os.WriteFile(r.evidence, append(b, '\n'), 0o644); err != nil {
			fmt.Fprintf(os.Stderr, "evidence: %v\n", err)
			os.Exit(2)
		}
	}
	fmt.Printf("%s %s: evaluations=%d states=%d transitions=%d distinct=%d outcomes=%d exhaustive=%v violations=%d known=%d wall=%.1fs\n",
		r.ID, r.Tier, r.evals.Load(), r.states.Load(), r.transitions.Load(), len(r.distinct), len(r.outcomes), r.exhaustive, len(sigs), len(r.knownHit), wall)
	if len(sigs) > 0 {
		os.Exit(1)
	}
	os.Exit(0)
}

func firstLines(s string, n int) string {
	ls := strings.Split(s, "\n")
	if len(ls) > n {
		ls = append(ls[:n], "...")
	}
	return strings.Join(ls, "\n  ")
}

// Guard runs f and converts a panic into a violation.
func Guard(op string, f func()) (v *Violation) {
	defer func() {
		if e := recover(); e != nil {
			st := string(debug.Stack())
			v = &Violation{Symptom: "panic", Op: op, Detail: fmt.Sprintf("panic: %v\n%s", e, trimStack(st))}
		}
	}()
	f()
	return nil
}

func trimStack(s string) string {
	ls := strings.Split(s, "\n")
	out := []string{}
	for _, l := range ls {
		if strings.Contains(l, "runtime/debug") || strings.Contains(l, "verifshim/eng") {
			continue
		}
		out = append(out, l)
		if len(out) > 24 {
			break
		}
	}
	return strings.Join(out, "\n")
}

// ParFor runs f(i) for i in [0,n) on all cores. f must be goroutine-safe.
func ParFor(n int, f func(i int)) {
	w := runtime.GOMAXPROCS(0)
	if w > n {
		w = n
	}
	if w <= 1 {
		for i := 0; i < n; i++ {
			f(i)
		}
		return
	}
	var next atomic.Int64
	var wg sync.WaitGroup
	for k := 0; k < w; k++ {
		wg.Add(1)
		go func() {
			defer wg.Done()
			for {
				i := int(next.Add(1) - 1)
				if i >= n {
					return
				}
				f(i)
			}
		}()
	}
	wg.Wait()
}

// Shuffle permutes xs deterministically by the run's seed (order of visiting
// only; the set visited is unchanged).
func Shuffle[T any](r *Run, xs []T) {
	if r.Seed == 0 {
		return
	}
	s := uint64(r.Seed)*0x9E3779B97F4A7C15 + 1
	for i := len(xs) - 1; i > 0; i-- {
		s ^= s << 13
		s ^= s >> 7
		s ^= s << 17
		j := int(s % uint64(i+1))
		xs[i], xs[j] = xs[j], xs[i]
	}
}
