//go:build verif

package eng

import (
	"encoding/json"
	"fmt"
	"sort"
	"strings"
	"sync"
)

// Sys is one fresh (implementation, reference model) pair driven by the
// operation-sequence explorer (engine E1).
type Sys interface {
	// Ops lists the operations enabled in the current state, simplest first.
	Ops() []string
	// Do applies op to the real code and to the model and compares the step's
	// observations. obs is a printable observation (for outcome counting).
	Do(op string) (obs string, v *Violation)
	// Key is the canonical state key: model state ⊕ observable hidden
	// implementation state. "" disables deduplication for this state.
	Key() string
	// Check evaluates the global invariant. It is called last on an instance
	// (every successor is rebuilt by replay), so it may be destructive.
	Check() *Violation
	Close()
}

type SeqSpec struct {
	Configs   []string
	New       func(cfg string) Sys
	Depth     int
	MaxStates int // cap on frontier size per config per level (0 = none)
	// CheckEveryStep also runs Check() after every replayed operation of a
	// path, not only after the last one: observers folded into Check are then
	// interleaved with the mutations exactly as a caller could interleave them,
	// so a defect that makes an observer change hidden state (a read cache
	// that is never invalidated) is reached. Requires a non-destructive Check.
	CheckEveryStep bool
	// Deepen (opt-in, thorough tier only): once the declared depth is complete,
	// left-over budget is spent on deeper levels. Only for harnesses whose
	// single ExploreSeq call is the last thing they do - the extra levels use
	// the whole remaining budget.
	Deepen bool
	// NonTrivial decides whether a path counts toward distinct_nontrivial;
	// default: length >= 2.
	NonTrivial func(cfg string, path []string) bool
}

type seqReplay struct {
	Config string   `json:"config"`
	Ops    []string `json:"ops"`
}

func runPath(spec *SeqSpec, cfg string, path []string) (s Sys, obs []string, v *Violation) {
	s = spec.New(cfg)
	for i, op := range path {
		var o string
		var vv *Violation
		pv := Guard(op, func() { o, vv = s.Do(op) })
		if pv != nil {
			vv = pv
		}
		obs = append(obs, o)
		if vv == nil && spec.CheckEveryStep && i < len(path)-1 {
			if pv := Guard("check", func() { vv = s.Check() }); pv != nil {
				vv = pv
			}
		}
		if vv != nil {
			if vv.Op == "" {
				vv.Op = opName(op)
			}
			vv.Replay = seqReplay{cfg, path[:i+1]}
			return s, obs, vv
		}
	}
	return s, obs, nil
}

func opName(op string) string {
	if i := strings.IndexAny(op, "( "); i > 0 {
		return op[:i]
	}
	return op
}

// ExploreSeq does a breadth-first search over operation sequences; every
// successor is produced by replaying its path on a fresh real instance.
func ExploreSeq(r *Run, spec SeqSpec) {
	type node struct {
		path []string
	}
	totalStates := 0
	maxDepthDone := map[string]int{}
	for ci, cfg := range spec.Configs {
		seen := map[[16]byte]struct{}{}
		frontier := []node{{}}
		// initial state
		{
			s := spec.New(cfg)
			if k := s.Key(); k != "" {
				seen[h16(k)] = struct{}{}
			}
			var v *Violation
			if pv := Guard("init", func() { v = s.Check() }); pv != nil {
				v = pv
			}
			if v != nil {
				v.Replay = seqReplay{cfg, nil}
				r.Report(v)
			}
			s.Close()
			totalStates++
		}
		depthDone := 0
		for depth := 1; len(frontier) > 0; depth++ {
			// Thorough tier: once the declared depth is complete for this
			// configuration, left-over budget is spent on deeper levels (at most
			// its fair share per configuration). The claim stays the declared
			// depth; a deeper level that completes is recorded, one that is cut
			// by the budget is not, and neither makes the run "incomplete".
			extra := depth > spec.Depth
			if extra && (!r.Thorough() || !spec.Deepen || !r.shareLeft(ci, len(spec.Configs))) {
				break
			}
			if r.Expired() {
				if !extra {
					r.Incomplete(fmt.Sprintf("budget expired: config %q completed to depth %d", cfg, depthDone))
				}
				break
			}
			type succ struct {
				key  string
				path []string
			}
			var mu sync.Mutex
			var succs []succ
			ParFor(len(frontier), func(i int) {
				if r.Expired() {
					return
				}
				n := frontier[i]
				s0, _, v0 := runPath(&spec, cfg, n.path)
				if v0 != nil { // cannot happen: parents were clean
					s0.Close()
					return
				}
				ops := s0.Ops()
				s0.Close()
				for _, op := range ops {
					p := append(append(make([]string, 0, len(n.path)+1), n.path...), op)
					s, obs, v := runPath(&spec, cfg, p)
					r.Transitions(1)
					r.Traces(1)
					r.Outcome(op + "=>" + obs[len(obs)-1])
					if v != nil {
						r.Report(v)
						s.Close()
						continue
					}
					key := ""
					if pv := Guard("key", func() { key = s.Key() }); pv != nil {
						pv.Replay = seqReplay{cfg, p}
						r.Report(pv)
						s.Close()
						continue
					}
					var cv *Violation
					if pv := Guard("check", func() { cv = s.Check() }); pv != nil {
						cv = pv
					}
					s.Close()
					if cv != nil {
						if cv.Op == "" {
							cv.Op = opName(op)
						}
						cv.Replay = seqReplay{cfg, p}
						r.Report(cv)
						continue
					}
					nt := len(p) >= 2
					if spec.NonTrivial != nil {
						nt = spec.NonTrivial(cfg, p)
					}
					if nt {
						r.Distinct(cfg + "\x00" + strings.Join(p, "\x00"))
					}
					mu.Lock()
					succs = append(succs, succ{key, p})
					mu.Unlock()
				}
			})
			if r.Expired() || (extra && !r.shareLeft(ci, len(spec.Configs))) {
				if !extra {
					r.Incomplete(fmt.Sprintf("budget expired: config %q completed to depth %d", cfg, depthDone))
				}
				break
			}
			// deterministic representative: smallest path per key
			sort.Slice(succs, func(a, b int) bool { return lessPath(succs[a].path, succs[b].path) })
			next := []node{}
			for _, sc := range succs {
				if sc.key != "" {
					h := h16(sc.key)
					if _, ok := seen[h]; ok {
						continue
					}
					seen[h] = struct{}{}
				}
				totalStates++
				next = append(next, node{sc.path})
			}
			depthDone = depth
			if len(r.samples) < r.sampleCap && len(next) > 0 {
				r.Sample(map[string]any{"config": cfg, "ops": next[len(next)/2].path})
			}
			if spec.MaxStates > 0 && len(next) > spec.MaxStates && (depth < spec.Depth || extra) {
				if extra {
					break // no capped levels beyond the declared depth
				}
				Shuffle(r, next)
				r.Incomplete(fmt.Sprintf("config %q: frontier at depth %d capped %d -> %d (all sequences to depth %d covered)", cfg, depth, len(next), spec.MaxStates, depth))
				next = next[:spec.MaxStates]
			}
			frontier = next
		}
		maxDepthDone[cfg] = depthDone
	}
	r.States(totalStates)
	r.Set("depth_bound", spec.Depth)
	r.Set("depth_completed_per_config", maxDepthDone)
	r.Set("configs", len(spec.Configs))
}

func lessPath(a, b []string) bool {
	if len(a) != len(b) {
		return len(a) < len(b)
	}
	for i := range a {
		if a[i] != b[i] {
			return a[i] < b[i]
		}
	}
	return false
}

// ReplaySeq re-executes one recorded operation sequence without the explorer
// and prints each step.
func ReplaySeq(r *Run, spec SeqSpec, raw json.RawMessage) {
	var rp seqReplay
	if err := json.Unmarshal(raw, &rp); err != nil {
		fmt.Println("bad replay:", err)
		return
	}
	s, obs, v := runPath(&spec, rp.Config, rp.Ops)
	for i, o := range obs {
		fmt.Printf("  step %d: %s => %s\n", i+1, rp.Ops[i], o)
	}
	if v == nil {
		if pv := Guard("check", func() { v = s.Check() }); pv != nil {
			v = pv
		}
		if v != nil {
			v.Replay = rp
			if v.Op == "" && len(rp.Ops) > 0 {
				v.Op = opName(rp.Ops[len(rp.Ops)-1])
			}
		}
	}
	s.Close()
	r.Eval(1)
	if v != nil {
		r.Report(v)
	} else {
		fmt.Println("  replay: no violation")
	}
}
