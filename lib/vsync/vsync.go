//go:build verif

// Package vsync replaces sync.{Mutex,RWMutex,Once,WaitGroup,Cond} in rewritten
// code. Under the controlled scheduler every acquire is a scheduling point and
// lock state is virtual; without a scheduler the embedded native primitive is
// used.
package vsync

import (
	"sync"

	"github.com/ipfs/boxo/verifshim/vsched"
)

type Locker = sync.Locker

type Mutex struct {
	n      sync.Mutex
	epoch  uint64
	locked bool
}

func (m *Mutex) sync() {
	if e := vsched.Epoch(); m.epoch != e {
		m.epoch, m.locked = e, false
	}
}

func (m *Mutex) Lock() {
	if !vsched.Active() {
		if vsched.S == nil {
			m.n.Lock()
		}
		return
	}
	m.sync()
	vsched.Block("Mutex.Lock", func() bool { m.sync(); return !m.locked }, func() { m.locked = true })
}

func (m *Mutex) TryLock() bool {
	if !vsched.Active() {
		if vsched.S == nil {
			return m.n.TryLock()
		}
		return true
	}
	m.sync()
	ok := false
	vsched.Block("Mutex.TryLock", nil, func() {
		if !m.locked {
			m.locked, ok = true, true
		}
	})
	return ok
}

func (m *Mutex) Unlock() {
	if vsched.S == nil {
		m.n.Unlock()
		return
	}
	m.sync()
	if !m.locked && vsched.Active() {
		panic("sync: unlock of unlocked mutex")
	}
	m.locked = false
	vsched.UnlockPoint("Mutex.Unlock")
}

// RWMutex with Go's writer preference: a Lock that has announced itself bars
// new readers.
type RWMutex struct {
	n        sync.RWMutex
	epoch    uint64
	readers  int
	writer   bool
	wwaiting int
}

func (m *RWMutex) sync() {
	if e := vsched.Epoch(); m.epoch != e {
		m.epoch, m.readers, m.writer, m.wwaiting = e, 0, false, 0
	}
}

func (m *RWMutex) Lock() {
	if !vsched.Active() {
		if vsched.S == nil {
			m.n.Lock()
		}
		return
	}
	m.sync()
	// step 1: announce (from now on new readers block), step 2: acquire
	vsched.Block("RWMutex.Lock(announce)", nil, func() { m.wwaiting++ })
	vsched.Block("RWMutex.Lock", func() bool { return m.readers == 0 && !m.writer }, func() { m.writer = true; m.wwaiting-- })
}

func (m *RWMutex) TryLock() bool {
	if !vsched.Active() {
		if vsched.S == nil {
			return m.n.TryLock()
		}
		return true
	}
	m.sync()
	ok := false
	vsched.Block("RWMutex.TryLock", nil, func() {
		if m.readers == 0 && !m.writer {
			m.writer, ok = true, true
		}
	})
	return ok
}

func (m *RWMutex) Unlock() {
	if vsched.S == nil {
		m.n.Unlock()
		return
	}
	m.sync()
	if !m.writer && vsched.Active() {
		panic("sync: Unlock of unlocked RWMutex")
	}
	m.writer = false
	vsched.UnlockPoint("RWMutex.Unlock")
}

func (m *RWMutex) RLock() {
	if !vsched.Active() {
		if vsched.S == nil {
			m.n.RLock()
		}
		return
	}
	m.sync()
	vsched.Block("RWMutex.RLock", func() bool { return !m.writer && m.wwaiting == 0 }, func() { m.readers++ })
}

func (m *RWMutex) TryRLock() bool {
	if !vsched.Active() {
		if vsched.S == nil {
			return m.n.TryRLock()
		}
		return true
	}
	m.sync()
	ok := false
	vsched.Block("RWMutex.TryRLock", nil, func() {
		if !m.writer && m.wwaiting == 0 {
			m.readers++
			ok = true
		}
	})
	return ok
}

func (m *RWMutex) RUnlock() {
	if vsched.S == nil {
		m.n.RUnlock()
		return
	}
	m.sync()
	if m.readers <= 0 && vsched.Active() {
		panic("sync: RUnlock of unlocked RWMutex")
	}
	if m.readers > 0 {
		m.readers--
	}
	vsched.UnlockPoint("RWMutex.RUnlock")
}

func (m *RWMutex) RLocker() Locker { return (*rlocker)(m) }

type rlocker RWMutex

func (r *rlocker) Lock()   { (*RWMutex)(r).RLock() }
func (r *rlocker) Unlock() { (*RWMutex)(r).RUnlock() }

type Once struct {
	n     sync.Once
	epoch uint64
	state int // 0 idle, 1 running, 2 done
}

func (o *Once) Do(f func()) {
	if vsched.S == nil {
		o.n.Do(f)
		return
	}
	if !vsched.Active() {
		return
	}
	if e := vsched.Epoch(); o.epoch != e {
		// a Once that was completed natively before the scheduler started stays done
		o.epoch = e
		done := true
		o.n.Do(func() { done = false })
		if done {
			o.state = 2
		} else {
			o.n = sync.Once{}
			o.state = 0
		}
	}
	mine := false
	vsched.Block("Once.Do", func() bool { return o.state != 1 }, func() {
		if o.state == 0 {
			o.state, mine = 1, true
		}
	})
	if mine {
		defer func() { o.state = 2 }()
		f()
	}
}

type WaitGroup struct {
	n     sync.WaitGroup
	epoch uint64
	cnt   int
}

func (w *WaitGroup) sync() {
	if e := vsched.Epoch(); w.epoch != e {
		w.epoch, w.cnt = e, 0
	}
}

func (w *WaitGroup) Add(d int) {
	if vsched.S == nil {
		w.n.Add(d)
		return
	}
	w.sync()
	w.cnt += d
	if w.cnt < 0 && vsched.Active() {
		panic("sync: negative WaitGroup counter")
	}
}

func (w *WaitGroup) Done() { w.Add(-1) }

func (w *WaitGroup) Wait() {
	if !vsched.Active() {
		if vsched.S == nil {
			w.n.Wait()
		}
		return
	}
	w.sync()
	vsched.Block("WaitGroup.Wait", func() bool { return w.cnt <= 0 }, nil)
}

func (w *WaitGroup) Go(f func()) {
	w.Add(1)
	vsched.Go(func() {
		defer w.Done()
		f()
	})
}

type Cond struct {
	L       Locker
	n       *sync.Cond
	epoch   uint64
	waiters []*bool
}

func NewCond(l Locker) *Cond { return &Cond{L: l, n: sync.NewCond(l)} }

func (c *Cond) sync() {
	if e := vsched.Epoch(); c.epoch != e {
		c.epoch, c.waiters = e, nil
	}
}

func (c *Cond) Wait() {
	if !vsched.Active() {
		if vsched.S == nil {
			c.n.Wait()
		}
		return
	}
	c.sync()
	flag := new(bool)
	c.waiters = append(c.waiters, flag)
	c.L.Unlock()
	vsched.Block("Cond.Wait", func() bool { return *flag }, nil)
	c.L.Lock()
}

func (c *Cond) Signal() {
	if vsched.S == nil {
		c.n.Signal()
		return
	}
	c.sync()
	if len(c.waiters) > 0 {
		*c.waiters[0] = true
		c.waiters = c.waiters[1:]
	}
}

func (c *Cond) Broadcast() {
	if vsched.S == nil {
		c.n.Broadcast()
		return
	}
	c.sync()
	for _, f := range c.waiters {
		*f = true
	}
	c.waiters = nil
}
