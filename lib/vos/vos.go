//go:build verif

// Package vos replaces the file-mutating part of package os in rewritten code
// (engine E4): every mutating operation is performed for real, logged, and can
// be interrupted ("stop the world") at every step: before the operation, and
// for WriteFile after the truncate and after every byte written. The crash is
// a panic with vos.Crash that the harness catches; the object under test is
// discarded and recovery runs on the directory as left behind.
package vos

import (
	"io/fs"
	"os"
)

type FileMode = fs.FileMode
type DirEntry = fs.DirEntry
type FileInfo = fs.FileInfo

// Crash is the panic value of an injected crash.
type Crash struct {
	Op   int
	Step int
}

// OpRec describes one mutating operation that was performed.
type OpRec struct {
	Kind  string `json:"kind"`
	Path  string `json:"path"`
	Steps int    `json:"steps"` // number of distinct crash steps inside this op (state BEFORE the op is step 0 of it)
	Size  int    `json:"size,omitempty"`
}

var (
	log      []OpRec
	armed    bool
	armOp    int
	armStep  int
	opCount  int
)

// Reset clears the log and disarms.
func Reset() { log, armed, opCount = nil, false, 0 }

// Ops returns the mutating operations logged since Reset.
func Ops() []OpRec { return append([]OpRec{}, log...) }

// Arm makes the op-th mutating operation (0-based, counted from the next
// Reset/Arm) crash at the given step: step 0 = before the operation has any
// effect; WriteFile: step 1 = file created/truncated, step 1+k = k bytes
// written (k = len(data) is the complete file, crash before returning);
// other operations: step 1 = effect complete, crash before returning.
func Arm(op, step int) { log, opCount, armed, armOp, armStep = nil, 0, true, op, step }

func hit(step int) bool { return armed && opCount == armOp && armStep == step }

func crash(step int) {
	armed = false
	panic(Crash{Op: armOp, Step: step})
}

func WriteFile(name string, data []byte, perm FileMode) error {
	defer func() { opCount++ }()
	log = append(log, OpRec{Kind: "WriteFile", Path: name, Steps: len(data) + 2, Size: len(data)})
	if hit(0) {
		crash(0)
	}
	if !armed || opCount != armOp {
		return os.WriteFile(name, data, perm)
	}
	// crash inside this write: create/truncate, then armStep-1 bytes
	f, err := os.OpenFile(name, os.O_WRONLY|os.O_CREATE|os.O_TRUNC, perm)
	if err != nil {
		return err
	}
	k := armStep - 1
	if k > len(data) {
		k = len(data)
	}
	if k > 0 {
		f.Write(data[:k])
	}
	f.Close()
	crash(armStep)
	return nil
}

func simple(kind, path string, do func() error) error {
	defer func() { opCount++ }()
	log = append(log, OpRec{Kind: kind, Path: path, Steps: 2})
	if hit(0) {
		crash(0)
	}
	err := do()
	if hit(1) {
		crash(1)
	}
	return err
}

func Remove(name string) error { return simple("Remove", name, func() error { return os.Remove(name) }) }
func RemoveAll(name string) error {
	return simple("RemoveAll", name, func() error { return os.RemoveAll(name) })
}
func Rename(o, n string) error {
	return simple("Rename", o+" -> "+n, func() error { return os.Rename(o, n) })
}
func MkdirAll(p string, perm FileMode) error {
	// creating an existing directory is not a mutation worth a crash point
	if fi, err := os.Stat(p); err == nil && fi.IsDir() {
		return nil
	}
	return simple("MkdirAll", p, func() error { return os.MkdirAll(p, perm) })
}
func Mkdir(p string, perm FileMode) error {
	return simple("Mkdir", p, func() error { return os.Mkdir(p, perm) })
}
func Chmod(p string, m FileMode) error {
	return simple("Chmod", p, func() error { return os.Chmod(p, m) })
}

// read-only operations pass through
func ReadFile(name string) ([]byte, error)      { return os.ReadFile(name) }
func ReadDir(name string) ([]DirEntry, error)   { return os.ReadDir(name) }
func Stat(name string) (FileInfo, error)        { return os.Stat(name) }
func Lstat(name string) (FileInfo, error)       { return os.Lstat(name) }
func MkdirTemp(dir, pat string) (string, error) { return os.MkdirTemp(dir, pat) }
