//go:build verif

// Package vctx replaces the timer-driven constructors of package context in
// rewritten code (WithTimeout, WithDeadline, AfterFunc) so that deadlines are
// virtual-time scheduler events and callbacks run on managed threads.
package vctx

import (
	"context"
	"time"

	"github.com/ipfs/boxo/verifshim/vsched"
)

type deadlineCtx struct {
	context.Context
	deadline time.Time
}

func (d *deadlineCtx) Deadline() (time.Time, bool) { return d.deadline, true }
func (d *deadlineCtx) Err() error {
	err := d.Context.Err()
	if err != nil && context.Cause(d.Context) == context.DeadlineExceeded {
		return context.DeadlineExceeded
	}
	return err
}

func WithDeadline(parent context.Context, d time.Time) (context.Context, context.CancelFunc) {
	if !vsched.Active() {
		return context.WithDeadline(parent, d)
	}
	if cur, ok := parent.Deadline(); ok && cur.Before(d) {
		return context.WithCancel(parent)
	}
	inner, cancel := context.WithCancelCause(parent)
	h := vsched.NewTimer(d.Sub(vsched.Now()), 0, func() { cancel(context.DeadlineExceeded) })
	return &deadlineCtx{inner, d}, func() { h.Stop(); cancel(context.Canceled) }
}

func WithTimeout(parent context.Context, d time.Duration) (context.Context, context.CancelFunc) {
	if !vsched.Active() {
		return context.WithTimeout(parent, d)
	}
	return WithDeadline(parent, vsched.Now().Add(d))
}

// AfterFunc runs f on a managed thread once ctx is done. The watcher is a
// managed thread blocked on ctx.Done().
func AfterFunc(ctx context.Context, f func()) (stop func() bool) {
	if !vsched.Active() {
		return context.AfterFunc(ctx, f)
	}
	stopped := vsched.Reg(make(chan struct{}))
	state := 0 // 0 waiting, 1 ran, 2 stopped
	vsched.GoNamed("ctx.AfterFunc", false, func() {
		switch vsched.Select(false, vsched.R(ctx.Done()), vsched.R((<-chan struct{})(stopped))) {
		case 0:
			if state == 0 {
				state = 1
				f()
			}
		}
	})
	return func() bool {
		if state != 0 {
			return false
		}
		state = 2
		vsched.Close(stopped)
		return true
	}
}
