//go:build verif

// Package vtime replaces the clock and timer part of package time in rewritten
// code: Now/Since/Until read the virtual clock, timers are scheduler events.
// Without an active scheduler it falls back to package time (or to the
// passthrough clock installed with vsched.SetPassthroughClock).
package vtime

import (
	"time"

	"github.com/ipfs/boxo/verifshim/vsched"
)

func Now() time.Time                  { return vsched.Now() }
func Since(t time.Time) time.Duration { return vsched.Now().Sub(t) }
func Until(t time.Time) time.Duration { return t.Sub(vsched.Now()) }
func Sleep(d time.Duration)           { vsched.Sleep(d) }

type Timer struct {
	C <-chan time.Time
	c chan time.Time
	h *vsched.TimerHandle
	n *time.Timer
}

func NewTimer(d time.Duration) *Timer {
	if !vsched.Active() {
		n := time.NewTimer(d)
		return &Timer{C: n.C, n: n}
	}
	c := vsched.Reg(make(chan time.Time, 1))
	t := &Timer{C: c, c: c}
	t.h = vsched.NewTimer(d, 0, func() { vsched.ChanPutLocked(c, vsched.Now()) })
	return t
}

func AfterFunc(d time.Duration, f func()) *Timer {
	if !vsched.Active() {
		return &Timer{n: time.AfterFunc(d, f)}
	}
	t := &Timer{}
	t.h = vsched.NewTimer(d, 0, func() { vsched.SpawnLocked("AfterFunc", f) })
	return t
}

func (t *Timer) Stop() bool {
	if t.n != nil {
		return t.n.Stop()
	}
	if t.h == nil {
		return false
	}
	was := t.h.Stop()
	if t.c != nil {
		vsched.ChanDrain(t.c)
	}
	return was
}

func (t *Timer) Reset(d time.Duration) bool {
	if t.n != nil {
		return t.n.Reset(d)
	}
	if t.h == nil {
		return false
	}
	if t.c != nil {
		vsched.ChanDrain(t.c)
	}
	return t.h.Reset(d)
}

// VerifArmed reports whether the virtual timer is armed and its remaining delay (oracles).
func (t *Timer) VerifArmed() (bool, time.Duration) {
	if t == nil || t.h == nil {
		return false, 0
	}
	return t.h.Armed(), t.h.Remaining()
}

type Ticker struct {
	C <-chan time.Time
	c chan time.Time
	h *vsched.TimerHandle
	n *time.Ticker
}

func NewTicker(d time.Duration) *Ticker {
	if d <= 0 {
		panic("non-positive interval for NewTicker")
	}
	if !vsched.Active() {
		n := time.NewTicker(d)
		return &Ticker{C: n.C, n: n}
	}
	c := vsched.Reg(make(chan time.Time, 1))
	t := &Ticker{C: c, c: c}
	t.h = vsched.NewTimer(d, d, func() { vsched.ChanPutLocked(c, vsched.Now()) })
	return t
}

func (t *Ticker) Stop() {
	if t.n != nil {
		t.n.Stop()
		return
	}
	t.h.Stop()
}

func (t *Ticker) Reset(d time.Duration) {
	if t.n != nil {
		t.n.Reset(d)
		return
	}
	vsched.ChanDrain(t.c)
	t.h.Reset(d)
}

func After(d time.Duration) <-chan time.Time { return NewTimer(d).C }

func Tick(d time.Duration) <-chan time.Time {
	if d <= 0 {
		return nil
	}
	return NewTicker(d).C
}
