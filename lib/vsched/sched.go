//go:build verif

// Package vsched is a controlled cooperative scheduler for source-rewritten Go
// code (engine E3). Exactly one managed goroutine ("thread") runs between two
// scheduling points; every blocking primitive used by the rewritten code
// (vsync locks, vatomic operations, channel operations, select, timers) is a
// scheduling point at which the scheduler takes one recorded choice. Channels
// are fully virtual: the native channel value is only an identity key, its
// buffer, closed flag and waiters live in the scheduler. When no scheduler is
// active every primitive falls through to its native counterpart
// ("passthrough").
package vsched

import (
	"fmt"
	"os"
	"runtime"
	"runtime/debug"
	"strings"
	"sync"
	"time"
)

type tState int

const (
	tReady   tState = iota // runnable, no pending operation (fresh thread or completed rendezvous)
	tRunning               // the one thread that is executing
	tParked                // waiting at a scheduling point with a pending operation
	tDone
)

// Thread is one managed goroutine.
type Thread struct {
	ID     int
	Name   string
	Driver bool // a driver thread must finish, otherwise the execution is a deadlock
	state  tState
	op     *Op
	wake   chan struct{}
	exited chan struct{}
	// Config.Fair: signature (cases + ready set) and chosen case of this thread's previous select, and the number of
	// consecutive selects with that same signature (a busy-wait loop)
	selSig  string
	selLast int
	spin    int
}

// Op is a pending operation of a parked thread.
type Op struct {
	Kind      string
	Obj       any
	enabled   func() bool
	perform   func()
	completed bool // performed on the thread's behalf by a rendezvous partner / timer
	cases     []Case
	hasDef    bool
	chosen    int
	idleWait  bool
	arrived   bool // channel operation: the thread is really blocked in it (visible to partners)
}

type altKind int

const (
	altThread altKind = iota
	altTimer
)

type alt struct {
	kind altKind
	id   int
}

// Point is one recorded decision.
type Point struct {
	N      int     // number of alternatives
	Chosen int     // index taken
	Costs  []uint8 // deviation cost of each alternative (Costs[0] == 0)
	Desc   string  // only filled when tracing
}

// Config of one execution.
type Config struct {
	MaxSteps      int   // Tick / scheduling-point budget (non-termination verdict)
	MaxIdleFires  int   // timer firings allowed while no thread is enabled (horizon); <0 = none
	SelectCost    int   // deviation cost of taking a ready select case other than the first ready one
	Fair          bool  // fair defaults for busy-wait loops: a select repeated with the same cases and ready set takes the next ready case round-robin by default, and a thread that repeated such a select twice is by default descheduled in favour of another enabled thread (the other choices stay available as deviations)
	SwitchCost    int   // deviation cost of resuming, when the running thread blocked or exited, a thread other than the lowest-numbered enabled one (0 = free: classical preemption bounding; 1 = delay bounding)
	UnlockPoints  bool  // opt-in: vsync Unlock/RUnlock are scheduling points too (exposes the window right after a critical section when the following operation, e.g. a context cancel, is not instrumented)
	Trace         bool
	Prefix        []int // choices to replay; afterwards default choices
	AtEnd         func() // called when the execution has ended, before leftover threads are torn down
	StartTime     time.Time
}

// Result of one execution.
type Result struct {
	Points      []Point
	Choices     []int
	Verdict     string // "ok", "deadlock", "horizon", "nontermination", "panic", "divergence"
	Detail      string
	Blocked     []string // unfinished threads and what they wait for
	Steps       int
	Fires       int
	Trace       []string
	ForeignPoll int
}


type Sched struct {
	mu       sync.Mutex
	epoch    uint64
	threads  []*Thread
	cur      *Thread
	cfg      Config
	res      *Result
	chans    map[uintptr]*vchan
	chanSeq  int
	timers   []*vtimer
	timerSeq int
	now      int64 // virtual ns since StartTime
	steps    int
	idleFires int
	ended    bool
	horizon  bool
	aborting bool
	endCh    chan struct{}
	pos      int // next index into cfg.Prefix
}

// S is the active scheduler (nil = passthrough).
var S *Sched

var epochCounter uint64

// VERIF_UNLOCK_POINTS=1 turns lock releases into scheduling points in every
// scenario (experiment switch; harnesses normally opt in per scenario).
var forceUnlockPoints = os.Getenv("VERIF_UNLOCK_POINTS") != ""

// ForceUnlockPoints makes lock releases scheduling points in every execution
// from now on (the thorough tier and replays of its schedules use it).
func ForceUnlockPoints(on bool) { forceUnlockPoints = on }

// UnlockPointsForced reports the current setting.
func UnlockPointsForced() bool { return forceUnlockPoints }

// Active reports whether code runs under the controlled scheduler.
func Active() bool { s := S; return s != nil && !s.aborting }

// Epoch identifies the current execution; shim objects that outlive an
// execution reset their virtual state when the epoch changes.
func Epoch() uint64 {
	if s := S; s != nil {
		return s.epoch
	}
	return 0
}

// Run executes main as driver thread 0 under a fresh scheduler and returns
// the recorded execution.
func Run(cfg Config, main func()) *Result {
	if cfg.MaxSteps == 0 {
		cfg.MaxSteps = 200000
	}
	if forceUnlockPoints {
		cfg.UnlockPoints = true
	}
	if cfg.StartTime.IsZero() {
		cfg.StartTime = time.Unix(1_700_000_000, 0)
	}
	epochCounter++
	s := &Sched{epoch: epochCounter, cfg: cfg, res: &Result{Verdict: "ok"}, chans: map[uintptr]*vchan{}, endCh: make(chan struct{})}
	S = s
	t := s.newThread("main", true, main)
	s.mu.Lock()
	t.state = tRunning
	s.cur = t
	s.mu.Unlock()
	t.wake <- struct{}{}
	<-s.endCh
	if cfg.AtEnd != nil {
		func() {
			defer func() {
				if e := recover(); e != nil {
					s.res.Verdict = "panic"
					s.res.Detail = fmt.Sprintf("panic in AtEnd: %v\n%s", e, debug.Stack())
				}
			}()
			cfg.AtEnd()
		}()
	}
	// tear down leftover threads one at a time
	s.mu.Lock()
	s.aborting = true
	ts := append([]*Thread{}, s.threads...)
	s.mu.Unlock()
	for i := 0; i < len(ts); i++ {
		t := ts[i]
		if t.state != tDone {
			select {
			case t.wake <- struct{}{}:
			default:
			}
			select {
			case <-t.exited:
			case <-time.After(10 * time.Second):
				// leftover thread refuses to die; leak it
			}
		}
		s.mu.Lock()
		if len(s.threads) > len(ts) {
			ts = append(ts, s.threads[len(ts):]...)
		}
		s.mu.Unlock()
	}
	S = nil
	s.res.Steps = s.steps
	return s.res
}

func (s *Sched) newThread(name string, driver bool, f func()) *Thread {
	s.mu.Lock()
	defer s.mu.Unlock()
	return s.newThreadLocked(name, driver, f)
}

func (s *Sched) newThreadLocked(name string, driver bool, f func()) *Thread {
	t := &Thread{ID: len(s.threads), Name: name, Driver: driver, state: tReady, wake: make(chan struct{}, 1), exited: make(chan struct{})}
	s.threads = append(s.threads, t)
	go func() {
		defer close(t.exited)
		<-t.wake
		if s.aborting {
			t.state = tDone
			return
		}
		defer func() {
			if e := recover(); e != nil {
				if s.aborting {
					t.state = tDone
					return
				}
				s.mu.Lock()
				if s.res.Verdict == "ok" {
					s.res.Verdict = "panic"
					s.res.Detail = fmt.Sprintf("thread %d (%s) panicked: %v\n%s", t.ID, t.Name, e, trimStack(string(debug.Stack())))
				}
				s.mu.Unlock()
				t.state = tDone
				s.end()
				return
			}
			// normal exit or Goexit
			if s.aborting {
				t.state = tDone
				return
			}
			s.exit(t)
		}()
		f()
	}()
	return t
}

func trimStack(st string) string {
	ls := strings.Split(st, "\n")
	out := []string{}
	for _, l := range ls {
		if strings.Contains(l, "verifshim/vsched") || strings.Contains(l, "runtime/debug") || strings.Contains(l, "runtime/panic") {
			continue
		}
		out = append(out, l)
		if len(out) > 30 {
			break
		}
	}
	return strings.Join(out, "\n")
}

// Go starts f as a managed thread (rewritten `go` statements).
func Go(f func()) { GoNamed("", false, f) }

// GoNamed starts a named managed thread; driver threads must finish.
func GoNamed(name string, driver bool, f func()) {
	s := S
	if s == nil {
		go f()
		return
	}
	if s.aborting {
		return
	}
	if name == "" {
		_, file, line, _ := runtime.Caller(2)
		if i := strings.LastIndexByte(file, '/'); i >= 0 {
			file = file[i+1:]
		}
		name = fmt.Sprintf("%s:%d", file, line)
	}
	s.newThread(name, driver, f)
}

// exit is called by a thread's goroutine when its function returned.
func (s *Sched) exit(t *Thread) {
	s.mu.Lock()
	t.state = tDone
	t.op = nil
	s.cur = nil
	if s.ended {
		s.mu.Unlock()
		return
	}
	next := s.decide(nil)
	s.mu.Unlock()
	if next != nil {
		next.wake <- struct{}{}
	}
}

// end terminates the execution (called with or without mu held? -> without).
func (s *Sched) end() {
	s.mu.Lock()
	if !s.ended {
		s.ended = true
		close(s.endCh)
	}
	s.mu.Unlock()
}

func (s *Sched) endLocked() {
	if !s.ended {
		s.ended = true
		close(s.endCh)
	}
}


// point is THE scheduling point: the running thread announces op and blocks
// until the scheduler chooses it and op is enabled; op.perform has run when
// point returns.
func (s *Sched) point(op *Op) {
	if s.aborting {
		// teardown: deferred code of a dying thread; never block
		runtime.Goexit()
	}
	s.mu.Lock()
	t := s.cur
	if t == nil {
		s.mu.Unlock()
		panic("vsched: scheduling point reached by an unmanaged goroutine (a goroutine that was not started through vsched.Go touches instrumented code)")
	}
	s.steps++
	if s.steps > s.cfg.MaxSteps {
		s.res.Verdict = "nontermination"
		s.res.Detail = fmt.Sprintf("step budget %d exhausted (thread %d %s at %s)", s.cfg.MaxSteps, t.ID, t.Name, op.Kind)
		s.endLocked()
		s.mu.Unlock()
		<-t.wake
		runtime.Goexit()
	}
	t.op = op
	t.state = tParked
	if op.cases == nil && !op.idleWait {
		t.selSig, t.spin = "", 0
	}
	for {
		next := s.decide(t)
		if next != t {
			s.mu.Unlock()
			if next != nil {
				next.wake <- struct{}{}
			}
			<-t.wake
			if s.aborting {
				runtime.Goexit()
			}
			s.mu.Lock()
		}
		// t was chosen. A channel operation that cannot proceed yet "arrives": the
		// thread really blocks in the operation and only from now on is it visible
		// to rendezvous partners; another decision follows.
		if op.cases != nil && !op.hasDef && !op.arrived && !op.completed && !op.enabled() {
			op.arrived = true
			s.cur = t
			if s.cfg.Trace {
				s.res.Trace = append(s.res.Trace, fmt.Sprintf("T%d(%s) blocks in %s", t.ID, t.Name, op.Kind))
			}
			continue
		}
		pv := s.runOp(t)
		s.mu.Unlock()
		if pv != nil {
			panic(pv)
		}
		return
	}
}

// runOp makes t the running thread and performs its pending op (mu held).
func (s *Sched) runOp(t *Thread) (pv any) {
	s.cur = t
	t.state = tRunning
	op := t.op
	t.op = nil
	if op != nil && !op.completed && op.perform != nil {
		defer func() { pv = recover() }()
		op.perform()
	}
	return nil
}

func (s *Sched) threadEnabled(t *Thread) bool {
	switch t.state {
	case tReady:
		return true
	case tParked:
		if t.op == nil || t.op.completed {
			return true
		}
		if t.op.idleWait {
			return false // decided separately
		}
		if t.op.cases != nil && !t.op.hasDef && !t.op.arrived {
			return true // may always run up to the point where it blocks in the operation
		}
		return t.op.enabled == nil || t.op.enabled()
	}
	return false
}

// decide takes one scheduling decision (mu held). cur is the thread that just
// parked (or nil when the running thread exited). Returns the thread to run,
// or nil when the execution ended.
func (s *Sched) decide(cur *Thread) *Thread {
	for {
		var alts []alt
		curEnabled := false
		if cur != nil && s.threadEnabled(cur) {
			curEnabled = true
			alts = append(alts, alt{altThread, cur.ID})
		}
		anyThread := curEnabled
		for _, t := range s.threads {
			if t == cur {
				continue
			}
			if s.threadEnabled(t) {
				alts = append(alts, alt{altThread, t.ID})
				anyThread = true
			}
		}
		if s.cfg.Fair && curEnabled && cur.spin >= 2 && len(alts) > 1 {
			alts = append(alts[1:], alts[0]) // a spinning thread yields by default
		}
		if !anyThread {
			// idle waiters become enabled only when nothing else is
			for _, t := range s.threads {
				if t.state == tParked && t.op != nil && t.op.idleWait && !t.op.completed {
					alts = append(alts, alt{altThread, t.ID})
					anyThread = true
					if t == cur {
						curEnabled = true
					}
					break
				}
			}
		}
		// timers: only those with the minimal deadline may fire
		tms := s.dueTimers()
		if anyThread {
			for _, tm := range tms {
				alts = append(alts, alt{altTimer, tm.id})
			}
		} else if len(tms) > 0 {
			if s.cfg.MaxIdleFires >= 0 && s.idleFires >= s.cfg.MaxIdleFires {
				tms = nil
				s.horizon = true
			} else {
				for _, tm := range tms {
					alts = append(alts, alt{altTimer, tm.id})
				}
			}
		}
		if len(alts) == 0 {
			s.finishExecution()
			return nil
		}
		idx := 0
		if len(alts) > 1 {
			costs := make([]uint8, len(alts))
			for i, a := range alts {
				if i == 0 {
					continue
				}
				if a.kind == altThread && curEnabled {
					costs[i] = 1 // preemption of a thread that could continue
				} else if a.kind == altThread && s.cfg.SwitchCost > 0 {
					costs[i] = uint8(s.cfg.SwitchCost) // not the lowest-numbered enabled thread
				}
				if a.kind == altTimer && anyThread {
					costs[i] = 1 // a timer landing before a runnable thread moves
				}
			}
			idx = s.choose(costs, func() string { return s.describe(alts) })
			if idx < 0 {
				return nil
			}
		}
		a := alts[idx]
		if a.kind == altThread {
			if s.cfg.Trace {
				t := s.threads[a.id]
				k := "resume"
				if t.op != nil {
					k = t.op.Kind
				}
				s.res.Trace = append(s.res.Trace, fmt.Sprintf("T%d(%s) %s", t.ID, t.Name, k))
			}
			nt := s.threads[a.id]
			if nt.state == tReady {
				nt.state = tRunning
				s.cur = nt
			}
			return nt
		}
		// fire timer inline, then decide again
		if !anyThread {
			s.idleFires++
		}
		s.fire(a.id)
	}
}


func (s *Sched) describe(alts []alt) string {
	var sb strings.Builder
	for i, a := range alts {
		if i > 0 {
			sb.WriteString(" | ")
		}
		if a.kind == altThread {
			t := s.threads[a.id]
			k := "resume"
			if t.op != nil {
				k = t.op.Kind
			}
			fmt.Fprintf(&sb, "T%d:%s", t.ID, k)
		} else {
			fmt.Fprintf(&sb, "timer%d", a.id)
		}
	}
	return sb.String()
}

// choose records one decision with n alternatives; replayed from the prefix
// if present, otherwise the default 0. Returns -1 on divergence.
func (s *Sched) choose(costs []uint8, desc func() string) int {
	n := len(costs)
	idx := 0
	if s.pos < len(s.cfg.Prefix) {
		idx = s.cfg.Prefix[s.pos]
		if idx >= n {
			s.res.Verdict = "divergence"
			s.res.Detail = fmt.Sprintf("replayed choice %d at point %d but only %d alternatives", idx, s.pos, n)
			s.endLocked()
			return -1
		}
	}
	s.pos++
	p := Point{N: n, Chosen: idx, Costs: costs}
	if s.cfg.Trace {
		p.Desc = desc()
		s.res.Trace = append(s.res.Trace, fmt.Sprintf("  choice %d/%d costs=%v [%s]", idx, n, costs, p.Desc))
	}
	s.res.Points = append(s.res.Points, p)
	s.res.Choices = append(s.res.Choices, idx)
	return idx
}

// Choose is an explicit environment choice (fault injection, random draw,
// select case): n alternatives, default 0, every other one costs altCost
// deviations.
func Choose(n, altCost int) int {
	s := S
	if s == nil || s.aborting || n <= 1 {
		return 0
	}
	costs := make([]uint8, n)
	for i := 1; i < n; i++ {
		costs[i] = uint8(altCost)
	}
	s.mu.Lock()
	i := s.choose(costs, func() string { return fmt.Sprintf("env choice of %d", n) })
	t := s.cur
	s.mu.Unlock()
	if i < 0 {
		<-t.wake
		runtime.Goexit()
	}
	return i
}

func (s *Sched) finishExecution() {
	// no enabled thread, no timer may fire
	for _, t := range s.threads {
		if t.state == tDone {
			continue
		}
		k := "?"
		if t.op != nil {
			k = t.op.Kind
		}
		s.res.Blocked = append(s.res.Blocked, fmt.Sprintf("T%d(%s) blocked on %s", t.ID, t.Name, k))
		if t.Driver && s.res.Verdict == "ok" {
			if s.horizon {
				s.res.Verdict = "horizon"
				s.res.Detail = fmt.Sprintf("timer horizon (%d idle firings) reached while driver thread %d (%s) waits on %s", s.cfg.MaxIdleFires, t.ID, t.Name, k)
			} else {
				s.res.Verdict = "deadlock"
				s.res.Detail = fmt.Sprintf("driver thread %d (%s) blocked forever on %s", t.ID, t.Name, k)
			}
		}
	}
	if s.res.Verdict == "deadlock" {
		s.res.Detail += "\n" + strings.Join(s.res.Blocked, "\n")
	}
	s.endLocked()
}

// Yield is a plain scheduling point (always enabled).
func Yield(kind string) {
	s := S
	if s == nil {
		return
	}
	s.point(&Op{Kind: kind})
}

// UnlockPoint is called by vsync after a lock was released: a plain scheduling
// point when Config.UnlockPoints is set, nothing otherwise.
func UnlockPoint(kind string) {
	s := S
	if s == nil || s.aborting || !s.cfg.UnlockPoints || s.cur == nil {
		return
	}
	s.point(&Op{Kind: kind})
}

// Block parks the calling thread until enabled() holds, then runs perform
// atomically. Shim packages build locks etc. on it.
func Block(kind string, enabled func() bool, perform func()) {
	s := S
	if s == nil {
		panic("vsched.Block without scheduler")
	}
	s.point(&Op{Kind: kind, enabled: enabled, perform: perform})
}

// WaitIdle blocks the calling (harness) thread until no other thread is
// enabled: every other thread is blocked or finished. Timers are not waited
// for.
func WaitIdle() {
	s := S
	if s == nil {
		return
	}
	s.point(&Op{Kind: "WaitIdle", idleWait: true})
}

// Tick is inserted at the top of every rewritten loop body: a step counter
// that turns a non-terminating loop into a deterministic verdict.
func Tick() {
	s := S
	if s == nil {
		if tickBudget > 0 {
			tickCount++
			if tickCount > tickBudget {
				panic(TickOverrun{})
			}
		}
		return
	}
	if s.aborting {
		runtime.Goexit()
	}
	s.steps++
	if s.steps > s.cfg.MaxSteps {
		s.mu.Lock()
		t := s.cur
		if s.res.Verdict == "ok" {
			s.res.Verdict = "nontermination"
			s.res.Detail = fmt.Sprintf("step budget %d exhausted in a loop", s.cfg.MaxSteps)
		}
		s.endLocked()
		s.mu.Unlock()
		if t != nil {
			<-t.wake
		}
		runtime.Goexit()
	}
}

// Passthrough-mode loop budget (sequential harnesses): SetTickBudget(n) makes
// the n+1st Tick panic with TickOverrun.
type TickOverrun struct{}

var tickBudget, tickCount int

func SetTickBudget(n int) { tickBudget, tickCount = n, 0 }

// Now returns the virtual time.
func Now() time.Time {
	s := S
	if s == nil {
		return passNow()
	}
	return s.cfg.StartTime.Add(time.Duration(s.now))
}

// ThreadCount returns the number of managed threads created so far in this
// execution. Thread ids are assigned in creation order, so a thread whose id
// is >= an earlier ThreadCount() was created after that moment (oracles).
func ThreadCount() int {
	s := S
	if s == nil {
		return 0
	}
	s.mu.Lock()
	defer s.mu.Unlock()
	return len(s.threads)
}

// CurrentThread returns the id of the running thread (-1 in passthrough).
func CurrentThread() int {
	s := S
	if s == nil || s.cur == nil {
		return -1
	}
	return s.cur.ID
}
