//go:build verif

package vsched

import (
	"sort"
	"time"
)

// vtimer is one armed virtual timer.
type vtimer struct {
	id       int
	deadline int64 // virtual ns
	fire     func() // runs inside the scheduler (mu held): must not block
	period   int64  // >0: re-armed after firing (tickers)
	armed    bool
}

// TimerHandle is what vtime builds its Timer/Ticker on.
type TimerHandle struct {
	s *Sched
	t *vtimer
}

// dueTimers returns the armed timers with the minimal deadline.
func (s *Sched) dueTimers() []*vtimer {
	var min int64
	var out []*vtimer
	for _, t := range s.timers {
		if !t.armed {
			continue
		}
		if out == nil || t.deadline < min {
			min = t.deadline
			out = []*vtimer{t}
		} else if t.deadline == min {
			out = append(out, t)
		}
	}
	sort.Slice(out, func(i, j int) bool { return out[i].id < out[j].id })
	return out
}

func (s *Sched) fire(id int) {
	for _, t := range s.timers {
		if t.id == id && t.armed {
			if t.deadline > s.now {
				s.now = t.deadline
			}
			if t.period > 0 {
				t.deadline = s.now + t.period
			} else {
				t.armed = false
			}
			s.res.Fires++
			s.steps++
			if s.cfg.Trace {
				s.res.Trace = append(s.res.Trace, "timer fires: id "+itoa(id)+" at +"+time.Duration(s.now).String())
			}
			t.fire()
			s.gcTimers()
			return
		}
	}
}

func itoa(i int) string {
	if i == 0 {
		return "0"
	}
	b := []byte{}
	for i > 0 {
		b = append([]byte{byte('0' + i%10)}, b...)
		i /= 10
	}
	return string(b)
}

func (s *Sched) gcTimers() {
	if len(s.timers) < 64 {
		return
	}
	k := s.timers[:0]
	for _, t := range s.timers {
		if t.armed {
			k = append(k, t)
		}
	}
	s.timers = k
}

// NewTimer arms a virtual timer; fire runs inside the scheduler when it
// expires. Only valid while a scheduler is active.
func NewTimer(d time.Duration, period time.Duration, fire func()) *TimerHandle {
	s := S
	s.mu.Lock()
	defer s.mu.Unlock()
	if d < 0 {
		d = 0
	}
	s.timerSeq++
	t := &vtimer{id: s.timerSeq, deadline: s.now + int64(d), fire: fire, period: int64(period), armed: true}
	s.timers = append(s.timers, t)
	return &TimerHandle{s, t}
}

// Stop disarms; reports whether the timer was armed.
func (h *TimerHandle) Stop() bool {
	if h.s != S {
		return false
	}
	h.s.mu.Lock()
	defer h.s.mu.Unlock()
	was := h.t.armed
	h.t.armed = false
	return was
}

// Reset re-arms with a new duration; reports whether it was armed.
func (h *TimerHandle) Reset(d time.Duration) bool {
	if h.s != S {
		return false
	}
	h.s.mu.Lock()
	defer h.s.mu.Unlock()
	if d < 0 {
		d = 0
	}
	was := h.t.armed
	h.t.armed = true
	h.t.deadline = h.s.now + int64(d)
	if h.t.period > 0 {
		h.t.period = int64(d)
	}
	found := false
	for _, t := range h.s.timers {
		if t == h.t {
			found = true
			break
		}
	}
	if !found {
		h.s.timers = append(h.s.timers, h.t)
	}
	return was
}

// Armed reports whether the timer is armed (harness oracles).
func (h *TimerHandle) Armed() bool { return h.s == S && h.t.armed }

// Deadline returns the virtual delay until the timer fires.
func (h *TimerHandle) Remaining() time.Duration { return time.Duration(h.t.deadline - h.s.now) }

// ArmedTimers returns the remaining delays of all armed timers (oracles).
func ArmedTimers() []time.Duration {
	s := S
	if s == nil {
		return nil
	}
	var out []time.Duration
	for _, t := range s.timers {
		if t.armed {
			out = append(out, time.Duration(t.deadline-s.now))
		}
	}
	return out
}

// ChanPut appends v to the virtual buffer of registered channel ch if there
// is room (timer channels, capacity 1); never blocks. mu must be held by the
// caller (it is called from fire functions).
func ChanPutLocked[T any](ch chan T, v T) {
	s := S
	vc := s.lookup(chanKey(ch))
	if vc == nil {
		return
	}
	// deliver directly to a parked receiver, else buffer
	if len(vc.buf) == 0 {
		if p, i := s.partner(nil, chanKey(ch), false); p != nil {
			p.op.cases[i].deliver(v, true)
			p.op.chosen = i
			p.op.completed = true
			return
		}
	}
	if len(vc.buf) < vc.cap {
		vc.buf = append(vc.buf, v)
	}
}

// ChanDrain discards buffered values of a registered channel (timer Stop/Reset
// semantics of Go >= 1.23).
func ChanDrain[T any](ch chan T) {
	s := S
	if s == nil {
		return
	}
	s.mu.Lock()
	if vc := s.lookup(chanKey(ch)); vc != nil {
		vc.buf = nil
	}
	s.mu.Unlock()
}

// SpawnLocked starts a managed thread from inside a timer fire function.
func SpawnLocked(name string, f func()) {
	s := S
	s.newThreadLocked(name, false, f)
}

// Sleep blocks the calling thread for virtual duration d.
func Sleep(d time.Duration) {
	s := S
	if s == nil {
		time.Sleep(d)
		return
	}
	op := &Op{Kind: "sleep", enabled: func() bool { return false }}
	NewTimer(d, 0, func() { op.completed = true })
	s.point(op)
}

var passClock func() time.Time

// SetPassthroughClock installs a virtual clock for passthrough mode (sequential harnesses).
func SetPassthroughClock(f func() time.Time) { passClock = f }

func passNow() time.Time {
	if passClock != nil {
		return passClock()
	}
	return time.Now()
}
