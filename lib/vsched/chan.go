//go:build verif

package vsched

import (
	"fmt"
	"iter"
	"reflect"
	"runtime"
	"sort"
)

// vchan is the virtual state of a registered channel.
type vchan struct {
	keep   any // keeps the native channel alive (its address is the key)
	cap    int
	buf    []any
	closed bool
	seq    int // registration order (deterministic map iteration over channel keys)
}

func chanKey(ch any) uintptr {
	v := reflect.ValueOf(ch)
	if !v.IsValid() || v.IsNil() {
		return 0
	}
	return v.Pointer()
}

// Reg registers a freshly made channel with the active scheduler (rewritten
// `make(chan T, n)`). In passthrough it is the identity.
func Reg[C any](ch C) C {
	s := S
	if s == nil {
		return ch
	}
	k := chanKey(ch)
	s.mu.Lock()
	s.chanSeq++
	s.chans[k] = &vchan{keep: ch, cap: reflect.ValueOf(ch).Cap(), seq: s.chanSeq}
	s.mu.Unlock()
	return ch
}

func (s *Sched) lookup(k uintptr) *vchan {
	if k == 0 {
		return nil
	}
	return s.chans[k]
}

// Case is one communication of a select (or a stand-alone send/receive).
type Case interface {
	key() uintptr
	isSend() bool
	value() any          // send: the value
	deliver(v any, ok bool) // recv: store the result
	pollForeign() bool   // non-registered channel: try the native operation
	mustTake() bool      // a foreign poll already moved a real value: this case has to be the one taken
	isNil() bool
}

type RecvCase[T any] struct {
	ch  <-chan T
	k   uintptr
	V   T
	Ok  bool
	got bool
}

// R builds a receive case.
func R[T any](ch <-chan T) *RecvCase[T] { return &RecvCase[T]{ch: ch, k: chanKey(ch)} }

func (c *RecvCase[T]) key() uintptr { return c.k }
func (c *RecvCase[T]) isSend() bool { return false }
func (c *RecvCase[T]) value() any   { return nil }
func (c *RecvCase[T]) isNil() bool  { return c.ch == nil }
func (c *RecvCase[T]) deliver(v any, ok bool) {
	c.got = true
	c.Ok = ok
	if ok && v != nil {
		c.V = v.(T)
	}
}
func (c *RecvCase[T]) mustTake() bool { return c.got && c.Ok }
func (c *RecvCase[T]) pollForeign() bool {
	if c.got {
		return true
	}
	select {
	case v, ok := <-c.ch:
		c.V, c.Ok, c.got = v, ok, true
		return true
	default:
		return false
	}
}

type SendCase[T any] struct {
	ch   chan<- T
	k    uintptr
	v    T
	sent bool
}

// Snd builds a send case.
func Snd[T any](ch chan<- T, v T) *SendCase[T] { return &SendCase[T]{ch: ch, k: chanKey(ch), v: v} }

func (c *SendCase[T]) key() uintptr       { return c.k }
func (c *SendCase[T]) isSend() bool       { return true }
func (c *SendCase[T]) value() any         { return c.v }
func (c *SendCase[T]) isNil() bool        { return c.ch == nil }
func (c *SendCase[T]) deliver(any, bool)  { c.sent = true }
func (c *SendCase[T]) mustTake() bool     { return c.sent }
func (c *SendCase[T]) pollForeign() bool {
	if c.sent {
		return true
	}
	select {
	case c.ch <- c.v:
		c.sent = true
		return true
	default:
		return false
	}
}

// partner finds a parked thread (other than self) whose pending operation
// contains a case of the opposite direction on channel k.
func (s *Sched) partner(self *Thread, k uintptr, wantSend bool) (*Thread, int) {
	for _, t := range s.threads {
		if t == self || t.state != tParked || t.op == nil || t.op.completed || !t.op.arrived {
			continue // only threads really blocked in the operation can be rendezvous partners
		}
		for i, c := range t.op.cases {
			if c.key() == k && c.isSend() == wantSend {
				return t, i
			}
		}
	}
	return nil, -1
}

// caseReady reports whether case c of thread t could proceed now (mu held).
func (s *Sched) caseReady(t *Thread, c Case) bool {
	if c.isNil() {
		return false
	}
	vc := s.lookup(c.key())
	if vc == nil {
		s.res.ForeignPoll++
		return c.pollForeign()
	}
	if c.isSend() {
		if vc.closed {
			return true // will panic, as natively
		}
		if len(vc.buf) < vc.cap {
			return true
		}
		p, _ := s.partner(t, c.key(), false)
		return p != nil
	}
	if len(vc.buf) > 0 || vc.closed {
		return true
	}
	p, _ := s.partner(t, c.key(), true)
	return p != nil
}

// doCase performs case c for thread t (mu held; caseReady was true).
func (s *Sched) doCase(t *Thread, c Case) {
	vc := s.lookup(c.key())
	if vc == nil {
		return // foreign: already performed by pollForeign
	}
	if c.isSend() {
		if vc.closed {
			panic("send on closed channel")
		}
		// hand over directly to a parked receiver if the buffer is empty
		if len(vc.buf) == 0 {
			if p, i := s.partner(t, c.key(), false); p != nil {
				p.op.cases[i].deliver(c.value(), true)
				p.op.chosen = i
				p.op.completed = true
				c.deliver(nil, true)
				return
			}
		}
		vc.buf = append(vc.buf, c.value())
		c.deliver(nil, true)
		return
	}
	if len(vc.buf) > 0 {
		v := vc.buf[0]
		vc.buf[0] = nil
		vc.buf = vc.buf[1:]
		c.deliver(v, true)
		// a sender parked on the full buffer simply becomes enabled
		return
	}
	if p, i := s.partner(t, c.key(), true); p != nil {
		c.deliver(p.op.cases[i].value(), true)
		p.op.cases[i].deliver(nil, true)
		p.op.chosen = i
		p.op.completed = true
		return
	}
	if vc.closed {
		c.deliver(nil, false)
		return
	}
	panic("vsched: doCase on a case that is not ready")
}

// selectOp runs a select over cases; returns the chosen index or -1 (default).
func (s *Sched) selectOp(kind string, hasDef bool, cases []Case) int {
	op := &Op{Kind: kind, cases: cases, hasDef: hasDef, chosen: -1}
	var self *Thread
	op.enabled = func() bool {
		if hasDef {
			return true
		}
		for _, c := range cases {
			if s.caseReady(self, c) {
				return true
			}
		}
		return false
	}
	op.perform = func() {
		ready := []int{}
		for i, c := range cases {
			if s.caseReady(self, c) {
				ready = append(ready, i)
			}
		}
		if len(ready) == 0 {
			op.chosen = -1 // default
			if s.cfg.Fair && self != nil {
				sig := fmt.Sprint("default", len(cases))
				for _, c := range cases {
					sig += fmt.Sprint(" ", c.key(), c.isSend())
				}
				if sig == self.selSig {
					self.spin++
				} else {
					self.selSig, self.spin = sig, 0
				}
			}
			return
		}
		pick := 0
		for j, i := range ready {
			if s.lookup(cases[i].key()) == nil && cases[i].mustTake() {
				ready = []int{ready[j]}
				break
			}
		}
		if s.cfg.Fair && self != nil {
			sig := fmt.Sprint(len(cases), hasDef, ready)
			for _, c := range cases {
				sig += fmt.Sprint(" ", c.key(), c.isSend())
			}
			if op.arrived {
				self.selSig, self.spin = "", 0 // the thread really blocked: not a busy-wait iteration
			} else if sig == self.selSig {
				self.spin++
				for j, i := range ready {
					if i == self.selLast && len(ready) > 1 {
						ready = append(append([]int{}, ready[j+1:]...), ready[:j+1]...) // round-robin default
						break
					}
				}
			} else {
				self.selSig, self.spin = sig, 0
			}
		}
		if len(ready) > 1 {
			costs := make([]uint8, len(ready))
			for i := 1; i < len(ready); i++ {
				costs[i] = uint8(s.cfg.SelectCost)
			}
			pick = s.choose(costs, func() string { return fmt.Sprintf("select ready cases %v", ready) })
			if pick < 0 {
				pick = 0
			}
		}
		op.chosen = ready[pick]
		if self != nil {
			self.selLast = op.chosen
			if s.cfg.Fair {
				// only a case that changes nothing (receive from a closed or foreign channel) is a busy-wait iteration;
				// a send or the receipt of a value is progress
				c := cases[op.chosen]
				vc := s.lookup(c.key())
				if c.isSend() || c.mustTake() || (vc != nil && len(vc.buf) > 0) || (vc != nil && !vc.closed) {
					self.selSig, self.spin = "", 0
				}
			}
		}
		s.doCase(self, cases[op.chosen])
	}
	s.mu.Lock()
	self = s.cur
	s.mu.Unlock()
	s.point(op)
	return op.chosen
}

// Select implements a rewritten select statement.
func Select(hasDefault bool, cases ...Case) int {
	s := S
	if s == nil || s.aborting {
		if s != nil {
			runtime.Goexit()
		}
		return nativeSelect(hasDefault, cases)
	}
	return s.selectOp("select", hasDefault, cases)
}

// Send implements `ch <- v`.
func Send[T any](ch chan<- T, v T) {
	s := S
	if s == nil {
		ch <- v
		return
	}
	if s.aborting {
		runtime.Goexit()
	}
	s.selectOp("send", false, []Case{Snd(ch, v)})
}

// Recv implements `<-ch`.
func Recv[T any](ch <-chan T) T {
	v, _ := Recv2(ch)
	return v
}

// Recv2 implements `v, ok := <-ch`.
func Recv2[T any](ch <-chan T) (T, bool) {
	s := S
	if s == nil {
		v, ok := <-ch
		return v, ok
	}
	if s.aborting {
		runtime.Goexit()
	}
	c := R(ch)
	if ch != nil {
		s.mu.Lock()
		vc := s.lookup(c.k)
		s.mu.Unlock()
		if vc == nil {
			// foreign channel outside select: its producer is not under our
			// control; wait natively (part of this thread's step).
			v, ok := <-ch
			return v, ok
		}
	}
	s.selectOp("recv", false, []Case{c})
	return c.V, c.Ok
}

// Close implements close(ch).
func Close[T any](ch chan T) {
	s := S
	if s == nil {
		close(ch)
		return
	}
	if s.aborting {
		return
	}
	k := chanKey(ch)
	s.mu.Lock()
	vc := s.lookup(k)
	s.mu.Unlock()
	if vc == nil {
		close(ch)
		return
	}
	s.point(&Op{Kind: "close", perform: func() {
		if vc.closed {
			panic("close of closed channel")
		}
		vc.closed = true
	}})
}

// CloseSendOnly implements close on a send-only channel value.
func CloseS[T any](ch chan<- T) {
	s := S
	if s == nil {
		close(ch)
		return
	}
	if s.aborting {
		return
	}
	k := chanKey(ch)
	s.mu.Lock()
	vc := s.lookup(k)
	s.mu.Unlock()
	if vc == nil {
		close(ch)
		return
	}
	s.point(&Op{Kind: "close", perform: func() {
		if vc.closed {
			panic("close of closed channel")
		}
		vc.closed = true
	}})
}

// Len implements len(ch).
func Len[C any](ch C) int {
	s := S
	if s != nil {
		s.mu.Lock()
		vc := s.lookup(chanKey(ch))
		s.mu.Unlock()
		if vc != nil {
			return len(vc.buf)
		}
	}
	return reflect.ValueOf(ch).Len()
}

// Range implements `for v := range ch`.
func Range[T any](ch <-chan T) iter.Seq[T] {
	return func(yield func(T) bool) {
		for {
			v, ok := Recv2(ch)
			if !ok {
				return
			}
			if !yield(v) {
				return
			}
		}
	}
}

// RangeB is Range for bidirectional channel values.
func RangeB[T any](ch chan T) iter.Seq[T] { return Range((<-chan T)(ch)) }

func nativeSelect(hasDefault bool, cases []Case) int {
	// passthrough: build a reflect.Select
	scs := make([]reflect.SelectCase, 0, len(cases)+1)
	for _, c := range cases {
		scs = append(scs, c.(interface{ reflectCase() reflect.SelectCase }).reflectCase())
	}
	if hasDefault {
		scs = append(scs, reflect.SelectCase{Dir: reflect.SelectDefault})
	}
	i, v, ok := reflect.Select(scs)
	if hasDefault && i == len(cases) {
		return -1
	}
	if !cases[i].isSend() {
		if ok {
			cases[i].deliver(v.Interface(), true)
		} else {
			cases[i].deliver(nil, false)
		}
	}
	return i
}

func (c *RecvCase[T]) reflectCase() reflect.SelectCase {
	return reflect.SelectCase{Dir: reflect.SelectRecv, Chan: reflect.ValueOf(c.ch)}
}

func (c *SendCase[T]) reflectCase() reflect.SelectCase {
	return reflect.SelectCase{Dir: reflect.SelectSend, Chan: reflect.ValueOf(c.ch), Send: reflect.ValueOf(&c.v).Elem()}
}

// SendTo / SndTo split channel and value so that T is inferred from the
// channel alone and the value is converted by ordinary assignability.
func SendTo[T any](ch chan<- T) func(T) { return func(v T) { Send(ch, v) } }

func SndTo[T any](ch chan<- T) func(T) *SendCase[T] {
	return func(v T) *SendCase[T] { return Snd(ch, v) }
}

// RangeMap implements `for k, v := range m` (harness.json "detmaps": true;
// maps keyed by strings, integers or channels only). Under the scheduler the
// entries are visited in a deterministic order (keys ascending; channels in
// registration order), so that an execution is a function of its recorded
// choices; entries deleted before they are reached are skipped and entries
// added during the iteration are not visited, both as the language allows.
// In passthrough it is the native iteration.
func RangeMap[M ~map[K]V, K comparable, V any](m M) iter.Seq2[K, V] {
	return func(yield func(K, V) bool) {
		s := S
		if s == nil {
			for k, v := range m {
				if !yield(k, v) {
					return
				}
			}
			return
		}
		keys := make([]K, 0, len(m))
		for k := range m {
			keys = append(keys, k)
		}
		rank := func(k K) (int64, uint64, string) {
			v := reflect.ValueOf(k)
			switch v.Kind() {
			case reflect.String:
				return 0, 0, v.String()
			case reflect.Int, reflect.Int8, reflect.Int16, reflect.Int32, reflect.Int64:
				return v.Int(), 0, ""
			case reflect.Uint, reflect.Uint8, reflect.Uint16, reflect.Uint32, reflect.Uint64, reflect.Uintptr:
				return 0, v.Uint(), ""
			case reflect.Chan:
				s.mu.Lock()
				vc := s.lookup(chanKey(k))
				s.mu.Unlock()
				if vc != nil {
					return int64(vc.seq), 0, ""
				}
			}
			return 0, 0, ""
		}
		sort.SliceStable(keys, func(i, j int) bool {
			a1, a2, a3 := rank(keys[i])
			b1, b2, b3 := rank(keys[j])
			if a1 != b1 {
				return a1 < b1
			}
			if a2 != b2 {
				return a2 < b2
			}
			return a3 < b3
		})
		for _, k := range keys {
			v, ok := m[k]
			if !ok {
				continue
			}
			if !yield(k, v) {
				return
			}
		}
	}
}
