//go:build verif

package main

import (
	"bytes"
	"encoding/json"
	"errors"
	"fmt"
	"io"
	"math/bits"
	"os"
	"runtime/pprof"
	"sort"
	"strconv"
	"strings"
	"sync"
	"sync/atomic"
	"time"

	chunk "github.com/ipfs/boxo/chunker"
	"github.com/ipfs/boxo/verifshim/eng"
	pool "github.com/libp2p/go-buffer-pool"
)

// ---------------------------------------------------------------------------
// inputs

type inputDesc struct {
	Gen  string `json:"gen"` // "bits" | "letters" | pattern name
	Len  int    `json:"len"`
	Bits uint64 `json:"bits,omitempty"` // gen=bits: byte i = 0x61 if bit i set else 0x00
}

var patternNames = []string{"const00", "constff", "period2", "period3", "period251", "xorshiftA", "xorshiftB", "xorshiftC"}

var (
	patMu   sync.Mutex
	patBufs = map[string][]byte{}
	patCap  int
)

func genPattern(name string, n int) []byte {
	b := make([]byte, n)
	switch name {
	case "const00":
	case "constff":
		for i := range b {
			b[i] = 0xff
		}
	case "period2":
		for i := range b {
			if i%2 == 1 {
				b[i] = 0x61
			}
		}
	case "period3":
		for i := range b {
			b[i] = byte("abc"[i%3])
		}
	case "period251":
		for i := range b {
			b[i] = byte(i % 251)
		}
	case "xorshiftA", "xorshiftB", "xorshiftC":
		s := map[string]uint64{"xorshiftA": 0x9E3779B97F4A7C15, "xorshiftB": 0xD1B54A32D192ED03, "xorshiftC": 1}[name]
		for i := 0; i < n; {
			s ^= s << 13
			s ^= s >> 7
			s ^= s << 17
			v := s
			for k := 0; k < 8 && i < n; k++ {
				b[i] = byte(v)
				v >>= 8
				i++
			}
		}
	default:
		panic("unknown pattern " + name)
	}
	return b
}

// pattern returns the first n bytes of the named infinite pattern.
func pattern(name string, n int) []byte {
	patMu.Lock()
	defer patMu.Unlock()
	b := patBufs[name]
	if len(b) < n {
		c := n
		if c < patCap {
			c = patCap
		}
		b = genPattern(name, c)
		patBufs[name] = b
	}
	return b[:n:n]
}

func (d inputDesc) data() []byte {
	switch d.Gen {
	case "bits":
		b := make([]byte, d.Len)
		for i := range b {
			if d.Bits>>uint(i)&1 == 1 {
				b[i] = 0x61
			}
		}
		return b
	case "letters":
		b := make([]byte, d.Len)
		for i := range b {
			b[i] = byte('a' + i%26)
		}
		return b
	}
	return pattern(d.Gen, d.Len)
}

// ---------------------------------------------------------------------------
// read fragmentation

type fragDesc struct {
	Kind        string `json:"kind"`             // whole | max | comp
	Max         int    `json:"max,omitempty"`    // kind=max: at most Max bytes per Read
	Comp        uint64 `json:"comp,omitempty"`   // kind=comp: bit j set => a read ends after byte j+1
	EOFWithData bool   `json:"eof_with_data,omitempty"`
	Zero        bool   `json:"zero,omitempty"` // Read calls #1 and #3 return 0,nil
}

func (f fragDesc) String() string {
	s := f.Kind
	if f.Kind == "max" {
		s += strconv.Itoa(f.Max)
	}
	if f.Kind == "comp" {
		s += fmt.Sprintf("%#x", f.Comp)
	}
	if f.EOFWithData {
		s += "+eofdata"
	}
	if f.Zero {
		s += "+zero"
	}
	return s
}

var errReadBound = errors.New("verif: read-call bound exceeded")

type fragReader struct {
	data     []byte
	off      int
	f        fragDesc
	calls    int
	bound    int
	exceeded bool
}

func newFragReader(data []byte, f fragDesc) *fragReader {
	return &fragReader{data: data, f: f, bound: 4*len(data) + 1000}
}

func (r *fragReader) Read(p []byte) (int, error) {
	r.calls++
	if r.calls > r.bound {
		r.exceeded = true
		return 0, errReadBound
	}
	if len(p) == 0 {
		return 0, nil
	}
	if r.f.Zero && (r.calls == 1 || r.calls == 3) {
		return 0, nil
	}
	rem := len(r.data) - r.off
	if rem == 0 {
		return 0, io.EOF
	}
	n := rem
	switch r.f.Kind {
	case "max":
		if n > r.f.Max {
			n = r.f.Max
		}
	case "comp":
		// next cut strictly after r.off
		for k := 1; k < n; k++ {
			pos := r.off + k // cut after byte index pos-1 <=> bit pos-1
			if pos-1 < 64 && r.f.Comp>>uint(pos-1)&1 == 1 {
				n = k
				break
			}
		}
	}
	if n > len(p) {
		n = len(p)
	}
	copy(p, r.data[r.off:r.off+n])
	r.off += n
	if r.f.EOFWithData && r.off == len(r.data) {
		return n, io.EOF
	}
	return n, nil
}

// ---------------------------------------------------------------------------
// what the spec text advertises

type specModel struct {
	kind          string // default | size | rabin | rabin3 | buzhash | other
	min, avg, max int
	known         bool
}

func atoi(s string) (int, bool) {
	n, err := strconv.Atoi(s)
	return n, err == nil
}

func lastLabel(s string) string {
	p := strings.Split(s, ":")
	return p[len(p)-1]
}

func modelOf(spec string) specModel {
	if spec == "" || spec == "default" {
		n := int(chunk.DefaultBlockSize)
		return specModel{"default", n, n, n, true}
	}
	parts := strings.Split(spec, "-")
	switch parts[0] {
	case "size":
		if len(parts) == 2 {
			if n, ok := atoi(parts[1]); ok {
				return specModel{"size", n, n, n, true}
			}
		}
		return specModel{kind: "size"}
	case "rabin":
		switch len(parts) {
		case 1:
			n := int(chunk.DefaultBlockSize)
			return specModel{"rabin", n / 3, n, n + n/2, true}
		case 2:
			if n, ok := atoi(parts[1]); ok && n >= 0 {
				return specModel{"rabin", n / 3, n, n + n/2, true}
			}
		case 4:
			a, ok1 := atoi(lastLabel(parts[1]))
			b, ok2 := atoi(lastLabel(parts[2]))
			c, ok3 := atoi(lastLabel(parts[3]))
			if ok1 && ok2 && ok3 {
				return specModel{"rabin3", a, b, c, true}
			}
		}
		return specModel{kind: "rabin"}
	case "buzhash":
		return specModel{"buzhash", 128 << 10, 256 << 10, 512 << 10, true}
	}
	return specModel{kind: "other"}
}

func (m specModel) features() []string {
	f := []string{"chunker", m.kind}
	if m.kind == "rabin" || m.kind == "rabin3" {
		f = append(f, "rabin_min_lt_window", strconv.FormatBool(m.known && m.min < 16))
	}
	return f
}

// ---------------------------------------------------------------------------
// one execution

type caseDesc struct {
	Spec string    `json:"spec"`
	In   inputDesc `json:"in"`
	Frag fragDesc  `json:"frag"`
}

// runSplit runs the real splitter for spec over data through the given
// fragmentation and checks everything that concerns a single run.
func runSplit(st *stats, spec string, sm specModel, data []byte, fd fragDesc) (accepted bool, lens []int, v *eng.Violation) {
	fr := newFragReader(data, fd)
	var s chunk.Splitter
	var err error
	if pv := eng.Guard("FromString", func() { s, err = chunk.FromString(fr, spec) }); pv != nil {
		pv.Features = featMap(sm.features())
		return false, nil, pv
	}
	if err != nil {
		return false, nil, nil
	}
	feat := sm.features()
	off := 0
	for calls := 0; ; calls++ {
		if calls > len(data)+10 {
			return true, lens, eng.V("nextbytes-bound-exceeded", "NextBytes", fmt.Sprintf("spec %q: more than len(input)+10=%d NextBytes calls without io.EOF", spec, len(data)+10), feat...)
		}
		if calls&0xffff == 0xffff {
			st.progress.Add(1) // watchdog: completed NextBytes calls count as progress
		}
		var b []byte
		if pv := eng.Guard("NextBytes", func() { b, err = s.NextBytes() }); pv != nil {
			pv.Features = featMap(feat)
			return true, lens, pv
		}
		if err != nil {
			if errors.Is(err, io.EOF) {
				break
			}
			if fr.exceeded {
				return true, lens, eng.V("read-bound-exceeded", "NextBytes", fmt.Sprintf("spec %q: splitter issued more than %d Read calls for %d input bytes", spec, fr.bound, len(data)), feat...)
			}
			return true, lens, eng.V("unexpected-error", "NextBytes", fmt.Sprintf("spec %q: NextBytes error %v on an error-free reader", spec, err), feat...)
		}
		if len(b) == 0 {
			return true, lens, eng.V("empty-chunk", "NextBytes", fmt.Sprintf("spec %q: chunk #%d is empty (offset %d of %d)", spec, len(lens), off, len(data)), feat...)
		}
		if off+len(b) > len(data) || !bytes.Equal(b, data[off:off+len(b)]) {
			return true, lens, eng.V("content-mismatch", "NextBytes", fmt.Sprintf("spec %q: chunk #%d (len %d) at offset %d differs from the input (len %d)", spec, len(lens), len(b), off, len(data)), feat...)
		}
		off += len(b)
		lens = append(lens, len(b))
		if sm.kind == "size" || sm.kind == "default" {
			// the fixed-size splitter hands out go-buffer-pool buffers owned by the
			// caller; returning them after the comparison (pool.Put takes any slice) avoids
			// page-faulting a fresh 2 MiB buffer per chunk.
			pool.Put(b)
		}
	}
	if off != len(data) {
		return true, lens, eng.V("content-truncated", "NextBytes", fmt.Sprintf("spec %q: chunks cover %d of %d input bytes", spec, off, len(data)), feat...)
	}
	for i, l := range lens {
		if l > chunk.ChunkSizeLimit {
			return true, lens, eng.V("chunk-exceeds-limit", "NextBytes", fmt.Sprintf("spec %q: chunk #%d of %d has %d bytes > ChunkSizeLimit %d (input %d bytes)", spec, i, len(lens), l, chunk.ChunkSizeLimit, len(data)), feat...)
		}
		if sm.known && i < len(lens)-1 {
			if l < sm.min {
				return true, lens, eng.V("chunk-below-min", "NextBytes", fmt.Sprintf("spec %q: non-last chunk #%d has %d bytes < min %d", spec, i, l, sm.min), feat...)
			}
			if l > sm.max {
				return true, lens, eng.V("chunk-above-max", "NextBytes", fmt.Sprintf("spec %q: non-last chunk #%d has %d bytes > max %d", spec, i, l, sm.max), feat...)
			}
		}
	}
	return true, lens, nil
}

func featMap(kv []string) map[string]string {
	m := map[string]string{}
	for i := 0; i+1 < len(kv); i += 2 {
		m[kv[i]] = kv[i+1]
	}
	return m
}

func sameLens(a, b []int) bool {
	if len(a) != len(b) {
		return false
	}
	for i := range a {
		if a[i] != b[i] {
			return false
		}
	}
	return true
}

func lensStr(l []int) string {
	if len(l) > 12 {
		return fmt.Sprintf("%v...(%d chunks)", l[:12], len(l))
	}
	return fmt.Sprint(l)
}

var whole = fragDesc{Kind: "whole"}

// checkInput runs the canonical (whole-reader) split and every listed
// fragmentation, and reports all violations (each with its replay record).
func checkInput(r *eng.Run, st *stats, spec string, sm specModel, in inputDesc, data []byte, frags []fragDesc) (accepted bool, canon []int) {
	accepted, canon, v := runSplit(st, spec, sm, data, whole)
	st.progress.Add(1)
	if v != nil {
		v.Replay = caseDesc{spec, in, whole}
		r.Report(v)
		return accepted, canon
	}
	r.Eval(1)
	if !accepted {
		return false, nil
	}
	for _, fd := range frags {
		acc2, lens, v := runSplit(st, spec, sm, data, fd)
		r.Eval(1)
		st.progress.Add(1)
		if v != nil {
			v.Replay = caseDesc{spec, in, fd}
			r.Report(v)
			continue
		}
		if !acc2 {
			v := eng.V("acceptance-nondeterministic", "FromString", fmt.Sprintf("spec %q accepted once and rejected once", spec), sm.features()...)
			v.Replay = caseDesc{spec, in, fd}
			r.Report(v)
			continue
		}
		if !sameLens(lens, canon) {
			sym := "boundaries-depend-on-fragmentation"
			if fd == whole {
				sym = "nondeterministic-boundaries"
			}
			v := eng.V(sym, "NextBytes", fmt.Sprintf("spec %q input %+v: reader %s gives chunks %s, whole-reader gives %s", spec, in, fd, lensStr(lens), lensStr(canon)), sm.features()...)
			v.Replay = caseDesc{spec, in, fd}
			r.Report(v)
		}
	}
	// the fixed-size splitter is fully determined by the statement
	if sm.known && (sm.kind == "size" || sm.kind == "default") && sm.max > 0 {
		want := len(data) / sm.max
		if len(data)%sm.max != 0 {
			want++
		}
		if len(canon) != want {
			v := eng.V("size-split-wrong-count", "NextBytes", fmt.Sprintf("spec %q: %d chunks for %d bytes, want %d", spec, len(canon), len(data), want), sm.features()...)
			v.Replay = caseDesc{spec, in, whole}
			r.Report(v)
		}
	}
	return true, canon
}

// ---------------------------------------------------------------------------
// local statistics flushed per work item (keeps the shared mutex cold)

type stats struct {
	progress atomic.Int64 // bumped after every finished input; read by the watchdog
	outcomes map[string]struct{}
	distinct map[string]struct{}
	nontriv  int
	cutHist  map[string]int
	sample   any
}

func newStats() *stats {
	return &stats{outcomes: map[string]struct{}{}, distinct: map[string]struct{}{}, cutHist: map[string]int{}}
}

func (s *stats) note(spec string, sm specModel, accepted bool, canon []int, total int) {
	if !accepted {
		s.outcomes["rejected:"+spec] = struct{}{}
		return
	}
	key := ""
	if len(canon) <= 5 {
		key = fmt.Sprint(canon)
	} else {
		key = fmt.Sprintf("n=2^%d", bits.Len(uint(len(canon))))
	}
	s.outcomes[sm.kind+":"+key] = struct{}{}
	if len(canon) >= 2 {
		s.nontriv++
		if s.sample == nil && len(canon) <= 8 {
			s.sample = map[string]any{"spec": spec, "input_len": total, "chunks": canon}
		}
		if len(canon) <= 8 {
			s.distinct[spec+fmt.Sprint(canon)] = struct{}{}
		} else {
			s.distinct[fmt.Sprintf("%s n=%d total=%d first=%d", spec, len(canon), total, canon[0])] = struct{}{}
		}
		if sm.known && sm.min != sm.max {
			for _, l := range canon[:len(canon)-1] {
				switch {
				case l == sm.min:
					s.cutHist[sm.kind+"_cut_at_min"]++
				case l == sm.max:
					s.cutHist[sm.kind+"_cut_at_max"]++
				default:
					s.cutHist[sm.kind+"_cut_content_defined"]++
				}
			}
		}
	}
}

func (s *stats) flush(r *eng.Run) {
	for k := range s.outcomes {
		r.Outcome(k)
	}
	for k := range s.distinct {
		r.Distinct(k)
	}
	if s.sample != nil {
		r.Sample(s.sample)
	}
	r.Add("nontrivial_cases", s.nontriv)
	for k, n := range s.cutHist {
		r.Add(k, n)
	}
}

// ---------------------------------------------------------------------------
// work items

type item struct {
	desc string
	run  func(st *stats)
}

var stdFrags = []fragDesc{
	{Kind: "max", Max: 1},
	{Kind: "max", Max: 7},
	{Kind: "max", Max: 4096, EOFWithData: true},
	{Kind: "max", Max: 13, Zero: true},
	{Kind: "whole", EOFWithData: true},
	whole, // repetition: same input, same reader => same chunks
}

// every accepted form with boundary parameters plus the rejected neighbours
func familySpecs() []string {
	L := chunk.ChunkSizeLimit
	s := []string{"", "default", "size", "size-", "size-0", "size--1", "size-+3", "size-1", "size-2", "size-3", "size-5", "size-8",
		"size-255", "size-256", "size-4096", "size-262144", "size-1-2", "size-x", "sizex-5",
		fmt.Sprintf("size-%d", L-1), fmt.Sprintf("size-%d", L), fmt.Sprintf("size-%d", L+1), fmt.Sprintf("size-%d", 2*1024*1024), "size-4294967297",
		"rabin", "rabin-", "rabin-0", "rabin-1", "rabin-2", "rabin-3", "rabin-15", "rabin-16", "rabin-17", "rabin-47", "rabin-48", "rabin-49",
		"rabin-1024", "rabin-262144", "rabin-1397930", "rabin-1397931", "rabin-1397932", "rabin-2096896", "rabin-16777217", "rabin--5", "rabin-1-2",
		"rabin-16-17-18", "rabin-16-32-64", "rabin-min:16-avg:32-max:64", "rabin-15-32-64", "rabin-16-16-64", "rabin-16-32-32",
		"rabin-avg:16-min:32-max:64", "rabin-16-20-24", "rabin-17-24-31", "rabin-256-1024-4096", "rabin-87381-262144-393216",
		fmt.Sprintf("rabin-16-1024-%d", L), fmt.Sprintf("rabin-16-1024-%d", L+1), fmt.Sprintf("rabin-%d-%d-%d", L-2, L-1, L),
		"buzhash", "buzhash-1", "unknown", "Size-5"}
	return s
}

func familyLengths(r *eng.Run, sm specModel, capLen int) []int {
	L := chunk.ChunkSizeLimit
	set := map[int]struct{}{0: {}, 1: {}, 2: {}, 17: {}}
	add := func(n int) {
		if n >= 0 && n <= capLen {
			set[n] = struct{}{}
		}
	}
	if sm.known {
		for _, b := range []int{sm.min, sm.avg, sm.max} {
			add(b - 1)
			add(b)
			add(b + 1)
		}
		for k := 2; k <= eng.Pick(r, 4, 8); k++ {
			add(k*sm.max - 1)
			add(k * sm.max)
			add(k*sm.max + 1)
		}
		if sm.max > 0 && sm.max <= 8192 {
			add(100*sm.max + 1)
			if r.Thorough() {
				add(1000*sm.max + 7)
			}
		}
		if sm.kind == "buzhash" {
			add(4<<20 + 1)
		}
		// ChunkSizeLimit+1 bytes: the smallest input on which a splitter that
		// never cuts breaks the limit. Skipped for Rabin specs that do cut with
		// a small max: the library memmoves its 512 KiB buffer per chunk, which
		// makes 2 MiB / 17 B chunks take minutes without adding a boundary case.
		rabinSmall := (sm.kind == "rabin" || sm.kind == "rabin3") && sm.min >= 16 && sm.max < 4096
		if !rabinSmall && (r.Thorough() || sm.max >= 255 || sm.kind == "rabin" || sm.kind == "rabin3") {
			add(L + 1)
		}
	} else {
		add(1000)
		add(L + 1)
	}
	out := make([]int, 0, len(set))
	for n := range set {
		out = append(out, n)
	}
	sort.Ints(out)
	return out
}

func buildItems(r *eng.Run) []item {
	var items []item

	// (a) exhaustive strings over {0x00,0x61}
	type exh struct {
		spec string
		maxL int
	}
	var ex []exh
	for n := 1; n <= 8; n++ {
		ex = append(ex, exh{fmt.Sprintf("size-%d", n), 12})
	}
	lr := eng.Pick(r, 18, 21)
	ex = append(ex, exh{"rabin-16-17-18", lr}, exh{"rabin-16-20-24", lr}, exh{"rabin-17-24-31", lr})
	exFrags := []fragDesc{{Kind: "max", Max: 1}, {Kind: "max", Max: 2}, {Kind: "max", Max: 3}, {Kind: "max", Max: 7},
		{Kind: "max", Max: 5, EOFWithData: true}, {Kind: "max", Max: 13, Zero: true}, {Kind: "whole", EOFWithData: true}}
	nStrings := 0
	for _, e := range ex {
		e := e
		sm := modelOf(e.spec)
		total := uint64(1)<<uint(e.maxL+1) - 1 // strings of length 0..maxL <-> idx+1 in [1, 2^(maxL+1))
		nStrings += int(total)
		const blk = 1 << 13
		for lo := uint64(0); lo < total; lo += blk {
			lo := lo
			hi := lo + blk
			if hi > total {
				hi = total
			}
			items = append(items, item{fmt.Sprintf("exhaustive %s idx %d..%d", e.spec, lo, hi), func(st *stats) {
				for idx := lo; idx < hi; idx++ {
					code := idx + 1
					ln := bits.Len64(code) - 1
					in := inputDesc{Gen: "bits", Len: ln, Bits: code &^ (1 << uint(ln))}
					data := in.data()
					acc, canon := checkInput(r, st, e.spec, sm, in, data, exFrags)
					st.note(e.spec, sm, acc, canon, ln)
				}
			}})
		}
	}
	r.Set("exhaustive_binary_strings", nStrings)
	r.Set("exhaustive_specs", len(ex))
	r.Set("exhaustive_rabin_max_len", lr)

	// (b) every read composition for short inputs
	type comp struct {
		spec string
		in   inputDesc
	}
	var cs []comp
	for n := 1; n <= 4; n++ {
		for l := 0; l <= eng.Pick(r, 10, 13); l++ {
			cs = append(cs, comp{fmt.Sprintf("size-%d", n), inputDesc{Gen: "letters", Len: l}})
		}
	}
	// Rabin: pick, deterministically, the first strings (in enumeration order) of
	// the given length whose first cut falls on min, strictly inside, and on max.
	for _, spec := range []string{"rabin-16-17-18", "rabin-16-20-24"} {
		lc := eng.Pick(r, 18, 21)
		if spec == "rabin-16-17-18" {
			lc = eng.Pick(r, 19, 21) // >= max+1 so that a first cut at max exists
		}
		sm := modelOf(spec)
		found := map[string]bool{}
		for b := uint64(0); b < 1<<16 && len(found) < 3; b++ {
			in := inputDesc{Gen: "bits", Len: lc, Bits: b}
			_, lens, _ := runSplit(newStats(), spec, sm, in.data(), whole)
			if len(lens) < 2 {
				continue
			}
			cl := "mid"
			if lens[0] == sm.min {
				cl = "min"
			} else if lens[0] == sm.max {
				cl = "max"
			}
			if !found[cl] {
				found[cl] = true
				cs = append(cs, comp{spec, in})
			}
		}
		r.Set("composition_rabin_cut_classes_"+spec, len(found))
	}
	nComp := 0
	for _, c := range cs {
		c := c
		sm := modelOf(c.spec)
		data := c.in.data()
		ncomp := uint64(1)
		if c.in.Len > 1 {
			ncomp = 1 << uint(c.in.Len-1)
		}
		nComp += int(ncomp) * 4
		const blk = 1 << 12
		for lo := uint64(0); lo < ncomp; lo += blk {
			lo := lo
			hi := lo + blk
			if hi > ncomp {
				hi = ncomp
			}
			items = append(items, item{fmt.Sprintf("compositions %s %+v %d..%d", c.spec, c.in, lo, hi), func(st *stats) {
				frags := make([]fragDesc, 0, 4*(hi-lo))
				for m := lo; m < hi; m++ {
					for _, e := range []bool{false, true} {
						for _, z := range []bool{false, true} {
							frags = append(frags, fragDesc{Kind: "comp", Comp: m, EOFWithData: e, Zero: z})
						}
					}
				}
				acc, canon := checkInput(r, st, c.spec, sm, c.in, data, frags)
				if lo == 0 {
					st.note(c.spec, sm, acc, canon, c.in.Len)
				}
			}})
		}
	}
	r.Set("read_compositions", nComp)

	// (c) declared family: every spec form x patterns x boundary lengths x reader behaviours
	capLen := eng.Pick(r, 4<<20+1, 8*chunk.ChunkSizeLimit+1)
	patCap = capLen
	specs := familySpecs()
	r.Set("family_specs", len(specs))
	r.Set("family_patterns", len(patternNames))
	r.Set("family_readers", len(stdFrags)+1)
	r.Set("family_max_input_bytes", capLen)
	nFam := 0
	bigLen := eng.Pick(r, 512<<10, 4<<20)
	r.Set("family_half_patterns_above_bytes", bigLen)
	var big []item
	for _, spec := range specs {
		spec := spec
		sm := modelOf(spec)
		for _, ln := range familyLengths(r, sm, capLen) {
			for pi, pn := range patternNames {
				ln, pn := ln, pn
				// cost control, declared in the evidence: inputs above bigLen use every
				// second pattern (const00, period2, period251, xorshiftB); in the
				// quick tier 1-byte reads stop at 256 KiB.
				if ln > bigLen && pi%2 == 1 {
					continue
				}
				frags := stdFrags
				if !r.Thorough() && ln > 256<<10 {
					frags = stdFrags[1:]
				}
				nFam++
				it := item{fmt.Sprintf("family %q %s len %d", spec, pn, ln), func(st *stats) {
					in := inputDesc{Gen: pn, Len: ln}
					acc, canon := checkInput(r, st, spec, sm, in, in.data(), frags)
					st.note(spec, sm, acc, canon, ln)
				}}
				if ln > 1<<20 {
					big = append(big, it)
				} else {
					items = append(items, it)
				}
			}
		}
	}
	r.Set("family_inputs", nFam)
	// long-running items first so the tail of the parallel loop is short
	return append(big, items...)
}

const watchdog = 20 * time.Second

func body(r *eng.Run) {
	r.Rule("(a) every string over {0x00,0x61} of length 0..12 for size-1..8 and 0..L for the three smallest Rabin windows, x 7 reader behaviours; (b) every composition of the input into read sizes x {EOF separate, EOF with data} x {no zero reads, 0,nil on calls 1 and 3} for short inputs; (c) every spec form (accepted and rejected neighbours) x 8 patterns x boundary lengths x 7 reader behaviours. A case is non-trivial when it yields >= 2 chunks; distinct = distinct (spec, chunk-length vector)")
	r.Assume("readers return no error other than io.EOF; io.ReadFull (stdlib) is correct")
	r.Assume("spec min/max derived from the spec text: size-N N..N, rabin-N N/3..N+N/2 (NewRabin doc), rabin-a-b-c a..c, buzhash 128KiB..512KiB")
	items := buildItems(r)
	if only := os.Getenv("VERIF_C06_ONLY"); only != "" { // development aid: run a subset
		var sel []item
		for _, it := range items {
			if strings.HasPrefix(it.desc, only) {
				sel = append(sel, it)
			}
		}
		items = sel
		r.Incomplete("VERIF_C06_ONLY set")
	}
	r.Set("work_items", len(items))
	var expired sync.Once
	eng.ParFor(len(items), func(i int) {
		if r.Expired() {
			expired.Do(func() { r.Incomplete("budget expired before all work items ran") })
			return
		}
		st := newStats()
		done := make(chan struct{})
		go func() {
			defer close(done)
			if pv := eng.Guard("harness", func() { items[i].run(st) }); pv != nil {
				pv.Symptom = "harness-panic"
				r.Report(pv)
			}
		}()
		// INFRA watchdog: if no input of this item finishes within `watchdog`,
		// the item is abandoned as inconclusive (never a verdict).
		last, lastAt := int64(-1), time.Now()
		tick := time.NewTicker(500 * time.Millisecond)
		defer tick.Stop()
		for {
			select {
			case <-done:
				st.flush(r)
				return
			case now := <-tick.C:
				if p := st.progress.Load(); p != last {
					last, lastAt = p, now
				} else if now.Sub(lastAt) > watchdog {
					r.Incomplete("watchdog: no result for item " + items[i].desc)
					return
				}
			}
		}
	})
}

func replay(r *eng.Run, raw json.RawMessage) {
	var c caseDesc
	if err := json.Unmarshal(raw, &c); err != nil {
		panic(err)
	}
	sm := modelOf(c.Spec)
	checkInput(r, newStats(), c.Spec, sm, c.In, c.In.data(), []fragDesc{c.Frag})
}

func main() {
	if f := os.Getenv("VERIF_C06_CPUPROF"); f != "" { // development aid
		w, _ := os.Create(f)
		pprof.StartCPUProfile(w)
		go func() { time.Sleep(20 * time.Second); pprof.StopCPUProfile(); w.Close() }()
	}
	eng.Main("C06", "exploration", body, replay)
}
