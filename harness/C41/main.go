//go:build verif

// C41: filestore references stay inside the filestore root.
package main

import (
	"bytes"
	"context"
	"encoding/json"
	"fmt"
	"os"
	"path/filepath"
	"strings"
	"sync"
	"sync/atomic"

	bstore "github.com/ipfs/boxo/blockstore"
	"github.com/ipfs/boxo/filestore"
	posinfo "github.com/ipfs/boxo/filestore/posinfo"
	dag "github.com/ipfs/boxo/ipld/merkledag"
	"github.com/ipfs/boxo/verifshim/eng"
	blocks "github.com/ipfs/go-block-format"
	ds "github.com/ipfs/go-datastore"
	dssync "github.com/ipfs/go-datastore/sync"
)

// S is the scratch directory holding the static tree; it is also the process
// working directory, so relative paths and relative roots resolve against it.
var S string

func must(err error) {
	if err != nil {
		panic("harness setup: " + err.Error())
	}
}

// buildTree creates
//
//	S/root/{file, sub/file, root/file, root2/file, outside/file, link -> ../outside, flink -> ../outside/file}
//	S/{root2,outside,sub}/{file, sub/file}, S/file, S/rootfile
//
// every regular file holds its own physical location, so the bytes served by
// Get tell which file was read.
func buildTree() {
	wd, err := os.Getwd()
	must(err)
	S, err = filepath.EvalSymlinks(wd)
	must(err)
	must(os.Chdir(S))
	mk := func(rel string) {
		p := filepath.Join(S, rel)
		must(os.MkdirAll(filepath.Dir(p), 0o755))
		must(os.WriteFile(p, []byte("physical file "+rel+"\n"), 0o644))
	}
	for _, f := range []string{
		"root/file", "root/sub/file", "root/sub/sub/file", "root/root/file", "root/root2/file", "root/outside/file", "root/rootfile",
		"root2/file", "root2/sub/file", "root2/root/file",
		"outside/file", "outside/sub/file", "outside/root/file",
		"sub/file", "sub/root/file", "file", "rootfile",
	} {
		mk(f)
	}
	must(os.Symlink("../outside", filepath.Join(S, "root/link")))
	must(os.Symlink("../outside/file", filepath.Join(S, "root/flink")))
}

var alphabet = []string{"root", "root2", "rootfile", "sub", "outside", "..", ".", "", "link", "flink", "file"}

type rootCfg struct {
	name string
	root func() string // the string given to NewFileManager
}

var rootCfgs = []rootCfg{
	{"abs", func() string { return S + "/root" }},
	{"abs-trailing-slash", func() string { return S + "/root/" }},
	{"abs-unclean", func() string { return S + "/root/." }},
	{"rel", func() string { return "root" }},
	{"rel-dot", func() string { return "." }},
}

var entries = []string{"Filestore.Put", "Filestore.PutMany", "FileManager.Put"}

// abs makes p absolute against S (the working directory) and cleans it, purely lexically.
func abs(p string) string {
	if filepath.IsAbs(p) {
		return filepath.Clean(p)
	}
	return filepath.Join(S, p)
}

// inside is the reference judgement: component-wise containment of p in root.
func inside(root, p string) bool {
	rel, err := filepath.Rel(abs(root), abs(p))
	if err != nil {
		return false
	}
	return rel != ".." && !strings.HasPrefix(rel, "../")
}

func escapeClass(root, p string) string {
	ar, ap := abs(root), abs(p)
	switch {
	case strings.Contains(p, "..") && strings.HasPrefix(p, root):
		return "dotdot-after-root-prefix"
	case strings.Contains(p, ".."):
		return "dotdot"
	case strings.HasPrefix(ap, ar) && ar != "/":
		return "sibling-sharing-name-prefix"
	case !filepath.IsAbs(p):
		return "relative-elsewhere"
	}
	return "absolute-elsewhere"
}

type kase struct {
	cfg   int
	entry string
	path  string // raw FullPath handed to the filestore
}

func (k kase) id() string { return fmt.Sprintf("%s|%s|%s", rootCfgs[k.cfg].name, k.entry, k.path) }

var (
	cntMu sync.Mutex
	cnt   = map[string]int{}
)

func count(r *eng.Run, k string) {
	cntMu.Lock()
	cnt[k]++
	cntMu.Unlock()
}

func run(r *eng.Run, k kase, verbose bool) *eng.Violation {
	bg := context.Background()
	root := rootCfgs[k.cfg].root()
	// the path as the user sees it: S-relative placeholders are already expanded
	p := k.path

	data := []byte("no regular file at " + p)
	if st, err := os.Stat(abs(p)); err == nil && st.Mode().IsRegular() && p != "" {
		b, err := os.ReadFile(abs(p))
		must(err)
		data = b
	}
	mds := dssync.MutexWrap(ds.NewMapDatastore())
	fm := filestore.NewFileManager(mds, root)
	fm.AllowFiles = true
	fs := filestore.NewFilestore(bstore.NewBlockstore(mds), fm, nil)
	node := dag.NewRawNode(data)
	fn := &posinfo.FilestoreNode{Node: node, PosInfo: &posinfo.PosInfo{FullPath: p, Offset: 0}}
	var err error
	switch k.entry {
	case "Filestore.Put":
		err = fs.Put(bg, fn)
	case "Filestore.PutMany":
		err = fs.PutMany(bg, []blocks.Block{fn})
	case "FileManager.Put":
		err = fm.Put(bg, fn)
	default:
		panic("bad entry " + k.entry)
	}
	in := inside(root, p)
	id := k.id()
	if verbose {
		fmt.Printf("  root=%q path=%q component-wise inside=%v Put err=%v\n", root, p, in, err)
	}
	if err != nil {
		// rejection is what the statement allows for anything; the plain control must pass
		if p == filepath.Join(abs(root), "file") && (k.cfg == 0) {
			return eng.V("inside-reference-rejected", k.entry, fmt.Sprintf("%s: control path rejected: %v", id, err), "root", rootCfgs[k.cfg].name)
		}
		if in {
			count(r, "rejected_inside")
			r.Outcome("rejected|inside")
		} else {
			count(r, "rejected_outside")
			r.Outcome("rejected|outside")
		}
		return nil
	}
	// accepted: read the stored reference back and resolve it the way Get does
	lr := filestore.List(bg, fs, node.Cid())
	if lr.Status != filestore.StatusOk {
		return eng.V("accepted-reference-not-listed", k.entry, fmt.Sprintf("%s: Put ok but List status %v %s", id, lr.Status, lr.ErrorMsg), "root", rootCfgs[k.cfg].name)
	}
	resolved := filepath.Join(root, filepath.FromSlash(lr.FilePath))
	resIn := inside(root, resolved)
	blk, gerr := fs.Get(bg, node.Cid())
	served := gerr == nil && bytes.Equal(blk.RawData(), data)
	physOutside := false
	if rp, e1 := filepath.EvalSymlinks(abs(resolved)); e1 == nil {
		if rr, e2 := filepath.EvalSymlinks(abs(root)); e2 == nil {
			physOutside = !inside(rr, rp)
		}
	}
	if verbose {
		fmt.Printf("  stored FilePath=%q resolves to %q inside=%v; Get err=%v served=%v physically-outside=%v\n", lr.FilePath, resolved, resIn, gerr, served, physOutside)
	}
	if !in || !resIn {
		sym := "reference-outside-root-accepted"
		if in && !resIn {
			sym = "stored-reference-resolves-outside-root"
		}
		return eng.V(sym, k.entry,
			fmt.Sprintf("%s: root %q accepted FullPath %q (component-wise inside=%v); stored FilePath %q resolves to %q (inside=%v); Get served the bytes of that file: %v", id, root, p, in, lr.FilePath, abs(resolved), resIn, served),
			"root", rootCfgs[k.cfg].name, "escape", escapeClass(root, p), "outside_data_served", fmt.Sprint(served))
	}
	cls := "accepted|inside"
	if physOutside {
		cls += "|symlink-escape"
		count(r, "symlink_escapes_accepted")
		if served {
			count(r, "symlink_escapes_served")
		}
	}
	if served {
		cls += "|served"
	}
	count(r, "accepted_inside")
	r.Outcome(cls)
	return nil
}

func words(maxLen int) [][]string {
	out := [][]string{}
	prev := [][]string{{}}
	for l := 1; l <= maxLen; l++ {
		var cur [][]string
		for _, p := range prev {
			for _, a := range alphabet {
				cur = append(cur, append(append([]string{}, p...), a))
			}
		}
		out = append(out, cur...)
		prev = cur
	}
	return out
}

func paths(maxLen int) []string {
	ps := []string{"", "/", "/etc/hostname", "/etc/../etc/hostname", S, S + "/", S + "root", S + "/rootfile", "/root/file", "root", "rootfile"}
	for _, w := range words(maxLen) {
		j := strings.Join(w, "/")
		ps = append(ps, S+"/"+j, j)
	}
	seen := map[string]bool{}
	out := ps[:0]
	for _, p := range ps {
		if !seen[p] {
			seen[p] = true
			out = append(out, p)
		}
	}
	return out
}

func body(r *eng.Run) {
	r.Rule("all raw path words of bounded length over the component alphabet (absolute under the scratch dir and relative) plus fixed foreign paths x root configuration x entry point; every case is a distinct canonical (root, entry, path) triple; non-trivial = path does not name the control file")
	r.Assume("path/filepath.Rel, Clean and EvalSymlinks are correct (they form the reference judgement)")
	buildTree()
	ps := paths(eng.Pick(r, 4, 5))
	r.Set("alphabet", alphabet)
	r.Set("paths", len(ps))
	r.Set("root_configs", len(rootCfgs))
	r.Set("entry_points", len(entries))
	var ks []kase
	for ci := range rootCfgs {
		for _, e := range entries {
			for _, p := range ps {
				ks = append(ks, kase{ci, e, p})
			}
		}
	}
	var skipped atomic.Int64
	eng.ParFor(len(ks), func(i int) {
		if r.Expired() {
			skipped.Add(1)
			return
		}
		k := ks[i]
		var v *eng.Violation
		if pv := eng.Guard(k.entry, func() { v = run(r, k, false) }); pv != nil {
			v = pv
		}
		r.Eval(1)
		r.Distinct(k.id())
		if v != nil {
			v.Replay = map[string]any{"root": rootCfgs[k.cfg].name, "entry": k.entry, "path_under_scratch": strings.ReplaceAll(k.path, S, "$S")}
			r.Report(v)
		}
	})
	if n := skipped.Load(); n > 0 {
		r.Incomplete(fmt.Sprintf("budget expired: %d of %d cases not executed", n, len(ks)))
	}
	cntMu.Lock()
	for k, n := range cnt {
		r.Set(k, n)
	}
	cntMu.Unlock()
	for i := 0; i < len(ks); i += len(ks)/6 + 1 {
		k := ks[len(ks)-1-i]
		r.Sample(map[string]string{"root": rootCfgs[k.cfg].name, "entry": k.entry, "path": strings.ReplaceAll(k.path, S, "$S")})
	}
}

func replay(r *eng.Run, raw json.RawMessage) {
	var rp struct {
		Root  string `json:"root"`
		Entry string `json:"entry"`
		Path  string `json:"path_under_scratch"`
	}
	if err := json.Unmarshal(raw, &rp); err != nil {
		fmt.Println("bad replay:", err)
		return
	}
	buildTree()
	for ci, c := range rootCfgs {
		if c.name != rp.Root {
			continue
		}
		k := kase{ci, rp.Entry, strings.ReplaceAll(rp.Path, "$S", S)}
		var v *eng.Violation
		if pv := eng.Guard(k.entry, func() { v = run(r, k, true) }); pv != nil {
			v = pv
		}
		r.Eval(1)
		if v != nil {
			v.Replay = rp
			r.Report(v)
		} else {
			fmt.Println("  replay: no violation")
		}
		return
	}
	fmt.Println("unknown root config", rp.Root)
}

func main() { eng.Main("C41", "exploration", body, replay) }
