//go:build verif

// C41: filestore references stay inside the filestore root.
package main

import (
	"bytes"
	"context"
	"encoding/json"
	"fmt"
	"os"
	"path/filepath"
	"strings"
	"sync"
	"sync/atomic"

	bstore "github.com/ipfs/boxo/blockstore"
	"github.com/ipfs/boxo/filestore"
	posinfo "github.com/ipfs/boxo/filestore/posinfo"
	dag "github.com/ipfs/boxo/ipld/merkledag"
	"github.com/ipfs/boxo/verifshim/eng"
	blocks "github.com/ipfs/go-block-format"
	ds "github.com/ipfs/go-datastore"
	dssync "github.com/ipfs/go-datastore/sync"
)

// S is the scratch directory holding the static tree; it is also the process
// working directory, so relative paths and relative roots resolve against it.
var S string

func must(err error) {
	if err != nil {
		panic("harness setup: " + err.Error())
	}
}

// buildTree creates
//
//	S/root/{file, sub/file, root/file, root2/file, outside/file, link -> ../outside, flink -> ../outside/file}
//	S/{root2,outside,sub}/{file, sub/file}, S/file, S/rootfile
//
// every regular file holds its own physical location, so the bytes served by
// Get tell which file was read.
func buildTree() {
	wd, err := os.Getwd()
	must(err)
	S, err = filepath.EvalSymlinks(wd)
	must(err)
	must(os.Chdir(S))
	mk := func(rel string) {
		p := filepath.Join(S, rel)
		must(os.MkdirAll(filepath.Dir(p), 0o755))
		must(os.WriteFile(p, []byte("physical file "+rel+"\n"), 0o644))
	}
	for _, f := range []string{
		"root/file", "root/sub/file", "root/sub/sub/file", "root/root/file", "root/root2/file", "root/outside/file", "root/rootfile",
		"root2/file", "root2/sub/file", "root2/root/file",
		"outside/file", "outside/sub/file", "outside/root/file",
		"sub/file", "sub/root/file", "file", "rootfile",
	} {
		mk(f)
	}
	must(os.Symlink("../outside", filepath.Join(S, "root/link")))
	must(os.Symlink("../outside/file", filepath.Join(S, "root/flink")))
}

var alphabet = []string{"root", "root2", "rootfile", "sub", "outside", "..", ".", "", "link", "flink", "file"}

type rootCfg struct {
	name string
	root func() string // the string given to NewFileManager
}

var rootCfgs = []rootCfg{
	{"abs", func() string { return S + "/root" }},
	{"abs-trailing-slash", func() string { return S + "/root/" }},
	{"abs-unclean", func() string { return S + "/root/." }},
	{"rel", func() string { return "root" }},
	{"rel-dot", func() string { return "." }},
}

var entries = []string{"Filestore.Put", "Filestore.PutMany", "FileManager.Put"}

// abs makes p absolute against S (the working directory) and cleans it, purely lexically.
func abs(p string) string {
	if filepath.IsAbs(p) {
		return filepath.Clean(p)
	}
	return filepath.Join(S, p)
}

// inside is the reference judgement: component-wise containment of p in root.
func inside(root, p string) bool {
	rel, err := filepath.Rel(abs(root), abs(p))
	if err != nil {
		return false
	}
	return rel != ".." && !strings.HasPrefix(rel, "../")
}

func escapeClass(root, p string) string {
	ar, ap := abs(root), abs(p)
	switch {
	case strings.Contains(p, "..") && strings.HasPrefix(p, root):
		return "dotdot-after-root-prefix"
	case strings.Contains(p, ".."):
		return "dotdot"
	case strings.HasPrefix(ap, ar) && ar != "/":
		return "sibling-sharing-name-prefix"
	case !filepath.IsAbs(p):
		return "relative-elsewhere"
	}
	return "absolute-elsewhere"
}

// kase is one history: the paths of hist are offered one after the other to
// ONE FileManager (each offer with its own block, like the blocks of one file).
type kase struct {
	cfg   int
	entry string   // entry point used for every offer; "mixed" cycles through all three
	hist  []string // raw FullPaths handed to the filestore
}

func (k kase) id() string {
	return fmt.Sprintf("%s|%s|%s", rootCfgs[k.cfg].name, k.entry, strings.Join(k.hist, " ; "))
}

var (
	cntMu sync.Mutex
	cnt   = map[string]int{}
)

func count(r *eng.Run, k string) {
	cntMu.Lock()
	cnt[k]++
	cntMu.Unlock()
}

type fsys struct {
	fm *filestore.FileManager
	fs *filestore.Filestore
}

func newFsys(root string) *fsys {
	mds := dssync.MutexWrap(ds.NewMapDatastore())
	fm := filestore.NewFileManager(mds, root)
	fm.AllowFiles = true
	return &fsys{fm, filestore.NewFilestore(bstore.NewBlockstore(mds), fm, nil)}
}

func (f *fsys) put(entry string, fn *posinfo.FilestoreNode) error {
	bg := context.Background()
	switch entry {
	case "Filestore.Put":
		return f.fs.Put(bg, fn)
	case "Filestore.PutMany":
		return f.fs.PutMany(bg, []blocks.Block{fn})
	case "FileManager.Put":
		return f.fm.Put(bg, fn)
	case "FileManager.PutMany":
		return f.fm.PutMany(bg, []*posinfo.FilestoreNode{fn})
	}
	panic("bad entry " + entry)
}

// freshVerdict: is p accepted when it is the first thing ever offered to a new FileManager?
var freshMemo sync.Map

func freshVerdict(cfg int, entry, p string) bool {
	key := fmt.Sprintf("%d|%s|%s", cfg, entry, p)
	if v, ok := freshMemo.Load(key); ok {
		return v.(bool)
	}
	f := newFsys(rootCfgs[cfg].root())
	node := dag.NewRawNode([]byte("fresh offer of " + p))
	ok := f.put(entry, &posinfo.FilestoreNode{Node: node, PosInfo: &posinfo.PosInfo{FullPath: p}}) == nil
	freshMemo.Store(key, ok)
	return ok
}

func run(r *eng.Run, k kase, verbose bool) *eng.Violation {
	bg := context.Background()
	root := rootCfgs[k.cfg].root()
	f := newFsys(root)
	id := k.id()
	firstCls := ""
	for i, p := range k.hist {
		entry := k.entry
		if entry == "mixed" {
			entry = entriesAll[i%len(entriesAll)]
		}
		// every offer carries real bytes of the file at p when there is one (so
		// that Get can serve them), like the successive blocks of one file
		data := []byte(fmt.Sprintf("offer %d: no regular file at %s", i, p))
		isFile := false
		off := 0
		if st, err := os.Stat(abs(p)); err == nil && st.Mode().IsRegular() && p != "" {
			b, err := os.ReadFile(abs(p))
			must(err)
			if len(b) > i {
				// offer i is the block at offset i of that file: distinct CIDs, all servable
				data, isFile, off = b[i:], true, i
			}
		}
		node := dag.NewRawNode(data)
		err := f.put(entry, &posinfo.FilestoreNode{Node: node, PosInfo: &posinfo.PosInfo{FullPath: p, Offset: uint64(off)}})
		in := inside(root, p)
		hist := "first-offer"
		switch {
		case i > 0 && k.hist[i-1] == p:
			hist = "repeated-in-a-row"
		case i > 0:
			hist = "after-other-path"
		}
		if verbose {
			fmt.Printf("  offer %d via %s: root=%q path=%q component-wise inside=%v Put err=%v\n", i+1, entry, root, p, in, err)
		}
		if err != nil {
			// rejection is what the statement allows for anything; the plain control must pass
			if i == 0 && p == filepath.Join(abs(root), "file") && k.cfg == 0 {
				return eng.V("inside-reference-rejected", entry, fmt.Sprintf("%s: control path rejected: %v", id, err), "root", rootCfgs[k.cfg].name)
			}
			if i > 0 && freshVerdict(k.cfg, entry, p) {
				return eng.V("verdict-depends-on-history", entry, fmt.Sprintf("%s: offer %d of %q is rejected (%v) although a fresh FileManager accepts it", id, i+1, p, err),
					"root", rootCfgs[k.cfg].name, "history", hist, "direction", "accepted-fresh-rejected-later")
			}
			if i == 0 {
				if in {
					firstCls = "rejected|inside"
					count(r, "rejected_inside")
				} else {
					firstCls = "rejected|outside"
					count(r, "rejected_outside")
				}
			}
			continue
		}
		// accepted: read the stored reference back and resolve it the way Get does
		lr := filestore.List(bg, f.fs, node.Cid())
		if lr.Status != filestore.StatusOk {
			return eng.V("accepted-reference-not-listed", entry, fmt.Sprintf("%s: offer %d: Put ok but List status %v %s", id, i+1, lr.Status, lr.ErrorMsg), "root", rootCfgs[k.cfg].name)
		}
		resolved := filepath.Join(root, filepath.FromSlash(lr.FilePath))
		resIn := inside(root, resolved)
		served := false
		var gerr error
		if isFile {
			var blk blocks.Block
			blk, gerr = f.fs.Get(bg, node.Cid())
			served = gerr == nil && bytes.Equal(blk.RawData(), data)
		}
		physOutside := false
		if rp, e1 := filepath.EvalSymlinks(abs(resolved)); e1 == nil {
			if rr, e2 := filepath.EvalSymlinks(abs(root)); e2 == nil {
				physOutside = !inside(rr, rp)
			}
		}
		if verbose {
			fmt.Printf("    stored FilePath=%q resolves to %q inside=%v; Get err=%v served=%v physically-outside=%v\n", lr.FilePath, resolved, resIn, gerr, served, physOutside)
		}
		if !in || !resIn {
			sym := "reference-outside-root-accepted"
			if in && !resIn {
				sym = "stored-reference-resolves-outside-root"
			}
			return eng.V(sym, entry,
				fmt.Sprintf("%s: offer %d (%s): root %q accepted FullPath %q (component-wise inside=%v); stored FilePath %q resolves to %q (inside=%v); Get served the bytes of that file: %v", id, i+1, hist, root, p, in, lr.FilePath, abs(resolved), resIn, served),
				"root", rootCfgs[k.cfg].name, "escape", escapeClass(root, p), "outside_data_served", fmt.Sprint(served), "history", hist)
		}
		if i > 0 && !freshVerdict(k.cfg, entry, p) {
			return eng.V("verdict-depends-on-history", entry, fmt.Sprintf("%s: offer %d of %q is accepted although a fresh FileManager rejects it", id, i+1, p),
				"root", rootCfgs[k.cfg].name, "history", hist, "direction", "rejected-fresh-accepted-later")
		}
		if i == 0 {
			firstCls = "accepted|inside"
			if physOutside {
				firstCls += "|symlink-escape"
				count(r, "symlink_escapes_accepted")
				if served {
					count(r, "symlink_escapes_served")
				}
			}
			if served {
				firstCls += "|served"
			}
			count(r, "accepted_inside")
		}
	}
	r.Outcome(firstCls)
	return nil
}

var entriesAll = []string{"FileManager.Put", "Filestore.PutMany", "Filestore.Put", "FileManager.PutMany"}

func words(maxLen int) [][]string {
	out := [][]string{}
	prev := [][]string{{}}
	for l := 1; l <= maxLen; l++ {
		var cur [][]string
		for _, p := range prev {
			for _, a := range alphabet {
				cur = append(cur, append(append([]string{}, p...), a))
			}
		}
		out = append(out, cur...)
		prev = cur
	}
	return out
}

func paths(maxLen int) []string {
	ps := []string{"", "/", "/etc/hostname", "/etc/../etc/hostname", S, S + "/", S + "root", S + "/rootfile", "/root/file", "root", "rootfile"}
	for _, w := range words(maxLen) {
		j := strings.Join(w, "/")
		ps = append(ps, S+"/"+j, j)
	}
	seen := map[string]bool{}
	out := ps[:0]
	for _, p := range ps {
		if !seen[p] {
			seen[p] = true
			out = append(out, p)
		}
	}
	return out
}

// pool picks, for one root configuration, the first perClass paths (shortest
// words first) of every class of the full path domain; the class only serves
// to make the pool diverse (escaping / non-escaping, passing / failing a
// string-prefix comparison with the root, with / without '..', through a symlink).
func pool(cfg int, ps []string, perClass int) []string {
	root := rootCfgs[cfg].root()
	n := map[string]int{}
	var out []string
	for _, p := range ps {
		cls := fmt.Sprintf("in=%v pre=%v dd=%v ln=%v abs=%v", inside(root, p), strings.HasPrefix(p, root),
			strings.Contains(p, ".."), strings.Contains(p, "link"), filepath.IsAbs(p))
		if n[cls] < perClass {
			n[cls]++
			out = append(out, p)
		}
	}
	return out
}

func body(r *eng.Run) {
	r.Rule("(1) all raw path words of bounded length over the component alphabet (absolute under the scratch dir and relative) plus fixed foreign paths x root configuration x entry point, each offered TWICE IN A ROW to one fresh FileManager; (2) for a reduced pool (first paths of every class: inside/outside x passes/fails the string prefix x '..' x symlink x abs/rel) every ordered pair (p,q) offered as p,q,p and q,p,p (p=q gives p,p,p) to one FileManager, per root configuration and entry point (incl. one that alternates entry points). Every Put of every history is judged: accepted => component-wise inside and stored reference resolves inside; verdict equals the verdict of a fresh FileManager. Every (root, entry, history) is a distinct case.")
	r.Assume("path/filepath.Rel, Clean and EvalSymlinks are correct (they form the reference judgement)")
	buildTree()
	ps := paths(eng.Pick(r, 4, 5))
	r.Set("alphabet", alphabet)
	r.Set("paths", len(ps))
	r.Set("root_configs", len(rootCfgs))
	r.Set("entry_points", len(entries))
	var ks []kase
	for ci := range rootCfgs {
		for _, e := range entries {
			for _, p := range ps {
				ks = append(ks, kase{ci, e, []string{p, p}})
			}
		}
	}
	nSingle := len(ks)
	perClass := eng.Pick(r, 2, 4)
	poolSizes := map[string]int{}
	for ci := range rootCfgs {
		pl := pool(ci, ps, perClass)
		poolSizes[rootCfgs[ci].name] = len(pl)
		for _, e := range append(append([]string{}, entries...), "FileManager.PutMany", "mixed") {
			for _, p := range pl {
				for _, q := range pl {
					ks = append(ks, kase{ci, e, []string{p, q, p}})
					if p != q {
						ks = append(ks, kase{ci, e, []string{q, p, p}})
					}
				}
			}
		}
	}
	r.Set("histories_twice_in_a_row", nSingle)
	r.Set("histories_pairs", len(ks)-nSingle)
	r.Set("pair_pool_sizes", poolSizes)
	var skipped atomic.Int64
	eng.ParFor(len(ks), func(i int) {
		if r.Expired() {
			skipped.Add(1)
			return
		}
		k := ks[i]
		var v *eng.Violation
		if pv := eng.Guard(k.entry, func() { v = run(r, k, false) }); pv != nil {
			v = pv
		}
		r.Eval(1)
		r.Distinct(k.id())
		if v != nil {
			v.Replay = replayRec(k)
			r.Report(v)
		}
	})
	if n := skipped.Load(); n > 0 {
		r.Incomplete(fmt.Sprintf("budget expired: %d of %d cases not executed", n, len(ks)))
	}
	cntMu.Lock()
	for k, n := range cnt {
		r.Set(k, n)
	}
	cntMu.Unlock()
	for i := 0; i < len(ks); i += len(ks)/6 + 1 {
		r.Sample(replayRec(ks[len(ks)-1-i]))
	}
}

type replayT struct {
	Root    string   `json:"root"`
	Entry   string   `json:"entry"`
	History []string `json:"history_under_scratch"`
}

func replayRec(k kase) replayT {
	h := make([]string, len(k.hist))
	for i, p := range k.hist {
		h[i] = strings.ReplaceAll(p, S, "$S")
	}
	return replayT{rootCfgs[k.cfg].name, k.entry, h}
}

func replay(r *eng.Run, raw json.RawMessage) {
	var rp replayT
	if err := json.Unmarshal(raw, &rp); err != nil {
		fmt.Println("bad replay:", err)
		return
	}
	buildTree()
	for ci, c := range rootCfgs {
		if c.name != rp.Root {
			continue
		}
		k := kase{cfg: ci, entry: rp.Entry}
		for _, p := range rp.History {
			k.hist = append(k.hist, strings.ReplaceAll(p, "$S", S))
		}
		var v *eng.Violation
		if pv := eng.Guard(k.entry, func() { v = run(r, k, true) }); pv != nil {
			v = pv
		}
		r.Eval(1)
		if v != nil {
			v.Replay = rp
			r.Report(v)
		} else {
			fmt.Println("  replay: no violation")
		}
		return
	}
	fmt.Println("unknown root config", rp.Root)
}

func main() { eng.Main("C41", "exploration", body, replay) }
