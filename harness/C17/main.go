//go:build verif

// C17: in SizeEstimationBlock mode the size a BasicDirectory tracks for its
// sharding decision equals len(GetNode().RawData()).
// Part A (E2): bounded-exhaustive inputs (mode x mtime on empty directories,
// single entries over name length x target CID form x Tsize class, all
// replacement pairs).  Part B (E1): BFS over add/replace/remove/SetStat/reload
// histories with the invariant checked in every state.
package main

import (
	"context"
	"encoding/json"
	"fmt"
	"os"
	"sort"
	"strings"
	"sync"
	"sync/atomic"
	"time"

	"github.com/ipfs/boxo/ipld/merkledag"
	mdtest "github.com/ipfs/boxo/ipld/merkledag/test"
	uio "github.com/ipfs/boxo/ipld/unixfs/io"
	pb "github.com/ipfs/boxo/ipld/unixfs/pb"
	"github.com/ipfs/boxo/verifshim/eng"
	cid "github.com/ipfs/go-cid"
	ipld "github.com/ipfs/go-ipld-format"
	mh "github.com/multiformats/go-multihash"
	"google.golang.org/protobuf/proto"
)

var ctx = context.Background()

// ---------------------------------------------------------------- domains

func refMode(p uint32) os.FileMode {
	m := os.FileMode(p & 0o777)
	if p&0o4000 != 0 {
		m |= os.ModeSetuid
	}
	if p&0o2000 != 0 {
		m |= os.ModeSetgid
	}
	if p&0o1000 != 0 {
		m |= os.ModeSticky
	}
	return m
}

type T struct {
	Zero bool  `json:"zero,omitempty"`
	Sec  int64 `json:"sec"`
	Nsec int64 `json:"nsec"`
}

func (t T) time() time.Time {
	if t.Zero {
		return time.Time{}
	}
	return time.Unix(t.Sec, t.Nsec)
}

func (t T) class() string {
	if t.Zero {
		return "zero"
	}
	s := "s>=0"
	if t.Sec < 0 {
		s = "s<0"
	}
	if t.Nsec > 0 {
		return s + ",ns>0"
	}
	return s + ",ns=0"
}

func modeClass(m os.FileMode) string {
	switch {
	case m == 0:
		return "zero"
	case m&(os.ModePerm|os.ModeSetuid|os.ModeSetgid|os.ModeSticky) == 0:
		return "type-bits-only"
	default:
		return "perm-bits"
	}
}

func timePool(thorough bool) []T {
	secs := []int64{-(1 << 40), -62135596800, -2, -1, 0, 1, 127, 128, 16383, 16384, 1<<31 - 1, 1 << 31, 1<<35 - 1, 1 << 35, 1 << 40, 253402300799}
	nanos := []int64{0, 1, 5, 999999999}
	if thorough {
		for k := uint(21); k <= 56; k += 7 {
			secs = append(secs, 1<<k-1, 1<<k)
		}
		secs = append(secs, -62135596801, -62135596799, 1<<62)
		nanos = append(nanos, 127, 128, 500000000)
	}
	pool := []T{{Zero: true}}
	for _, s := range secs {
		for _, n := range nanos {
			pool = append(pool, T{Sec: s, Nsec: n})
		}
	}
	return pool
}

// Target is a real ipld node whose (CID bytes, Size()) are what a directory link records.
type Target struct {
	Kind  string
	Tsize uint64
	node  ipld.Node
}

func (t *Target) String() string {
	return fmt.Sprintf("%s/cidlen%d/tsize%d", t.Kind, len(t.node.Cid().Bytes()), t.Tsize)
}

var childCid = merkledag.NodeWithData([]byte("child")).Cid()

func protoWithSize(builder cid.Builder, tsize uint64) *merkledag.ProtoNode {
	try := func(n *merkledag.ProtoNode) *merkledag.ProtoNode {
		if builder != nil {
			if err := n.SetCidBuilder(builder); err != nil {
				panic(err)
			}
		}
		if s, err := n.Size(); err == nil && s == tsize {
			return n
		}
		return nil
	}
	if tsize == 0 {
		return try(merkledag.NodeWithData(nil))
	}
	if tsize <= 200 {
		for l := uint64(0); l <= tsize; l++ {
			if n := try(merkledag.NodeWithData(make([]byte, l))); n != nil {
				return n
			}
		}
		return nil
	}
	for pad := 0; pad < 4; pad++ {
		for x := tsize - 80; x <= tsize; x++ {
			n := merkledag.NodeWithData(make([]byte, pad))
			if err := n.AddRawLink("", &ipld.Link{Size: x, Cid: childCid}); err != nil {
				panic(err)
			}
			if n = try(n); n != nil {
				return n
			}
		}
	}
	return nil
}

func buildTargets(thorough bool) []*Target {
	tsizes := []uint64{0, 2, 127, 128, 16383, 16384}
	for k := uint(21); k <= 63; k += 7 {
		tsizes = append(tsizes, 1<<k-1)
		if k < 63 {
			tsizes = append(tsizes, 1<<k)
		}
	}
	var out []*Target
	add := func(kind string, ts uint64, n ipld.Node, err error) {
		if err != nil {
			panic(err)
		}
		if s, _ := n.Size(); s != ts {
			panic(fmt.Sprintf("harness: target %s size %d != %d", kind, s, ts))
		}
		out = append(out, &Target{Kind: kind, Tsize: ts, node: n})
	}
	protoKinds := []struct {
		kind string
		b    cid.Builder
	}{
		{"pb-v0-sha256", nil},
		{"pb-v1-sha256", cid.V1Builder{Codec: cid.DagProtobuf, MhType: mh.SHA2_256}},
		{"pb-v1-sha512", cid.V1Builder{Codec: cid.DagProtobuf, MhType: mh.SHA2_512}},
		{"pb-v1-blake2b-160", cid.V1Builder{Codec: cid.DagProtobuf, MhType: mh.BLAKE2B_MIN + 19}},
	}
	for ki, pk := range protoKinds {
		for ti, ts := range tsizes {
			if !thorough && ki >= 2 && ti%3 != 0 {
				continue
			}
			n := protoWithSize(pk.b, ts)
			if n == nil {
				panic(fmt.Sprintf("harness: cannot build %s target with Tsize %d", pk.kind, ts))
			}
			add(pk.kind, ts, n, nil)
		}
	}
	for _, l := range []int{0, 1, 127, 128, 16383, 16384} {
		add("raw-v1-sha256", uint64(l), merkledag.NewRawNode(make([]byte, l)), nil)
	}
	// identity CIDs: CID length = 4(+1) + payload; 123/124 straddle a 1/2-byte CID length varint
	for _, l := range []int{0, 4, 123, 124, 200} {
		n, err := merkledag.NewRawNodeWPrefix(make([]byte, l), cid.V1Builder{Codec: cid.Raw, MhType: mh.IDENTITY})
		add("raw-v1-identity", uint64(l), n, err)
	}
	return out
}

type Stat struct {
	Mode uint32 `json:"mode"` // os.FileMode bits
	Time T      `json:"time"`
}

func (s Stat) set() bool { return s.Mode != 0 || !s.Time.Zero }

func (s Stat) opts() []uio.DirectoryOption {
	block := uio.SizeEstimationBlock
	o := []uio.DirectoryOption{uio.WithSizeEstimationMode(block)}
	if s.set() {
		o = append(o, uio.WithStat(os.FileMode(s.Mode), s.Time.time()))
	}
	return o
}

// ---------------------------------------------------------------- the oracle

// dataFeats describes the UnixFS Data field the node really carries (defect class features).
func dataFeats(data []byte, stage string, delta int) []string {
	var d pb.Data
	modeF, mtimeF := "absent", "absent"
	if err := proto.Unmarshal(data, &d); err == nil {
		if d.Mode != nil {
			modeF = "nonzero"
			if *d.Mode == 0 {
				modeF = "zero"
			}
		}
		if d.Mtime != nil {
			mtimeF = "s>=0"
			if d.Mtime.GetSeconds() < 0 {
				mtimeF = "s<0"
			}
			if d.Mtime.Nanos != nil {
				mtimeF += ",ns"
			}
		}
	}
	return []string{"stage", stage, "mode_field", modeF, "mtime_field", mtimeF, "delta", fmt.Sprint(delta)}
}

// checkBasic is the whole property: tracked estimate == exact serialized length.
func checkBasic(d *uio.BasicDirectory, stage, what string) *eng.Violation {
	nd, err := d.GetNode()
	if err != nil {
		return eng.V("getnode-error", "GetNode", err.Error(), "stage", stage)
	}
	raw := nd.RawData()
	est := d.VerifEstimatedSize()
	if est != len(raw) {
		m, t := d.VerifStat()
		return eng.V("estimate-differs-from-serialized-size", stage,
			fmt.Sprintf("%s: tracked estimatedSize=%d, len(GetNode().RawData())=%d (directory fields mode=%v mtime=%v; node Data=%x)", what, est, len(raw), m, t, nd.(*merkledag.ProtoNode).Data()),
			dataFeats(nd.(*merkledag.ProtoNode).Data(), stage, est-len(raw))...)
	}
	return nil
}

func reloadBasic(dserv ipld.DAGService, d *uio.BasicDirectory) (*uio.BasicDirectory, error) {
	nd, err := d.GetNode()
	if err != nil {
		return nil, err
	}
	// travel through bytes, as a directory read back from a block store would
	pn, err := merkledag.DecodeProtobuf(nd.RawData())
	if err != nil {
		return nil, err
	}
	pn.SetCidBuilder(nd.(*merkledag.ProtoNode).CidBuilder())
	nb := uio.NewBasicDirectoryFromNode(dserv, pn)
	nb.SetSizeEstimationMode(uio.SizeEstimationBlock)
	return nb, nil
}

// ---------------------------------------------------------------- part A cases

type Case struct {
	Kind    string `json:"kind"` // empty | single | replace
	Stat    Stat   `json:"stat"`
	Dyn     bool   `json:"dyn,omitempty"`
	Reload  bool   `json:"reload,omitempty"`
	NameLen int    `json:"namelen,omitempty"`
	T1      int    `json:"t1,omitempty"`
	T2      int    `json:"t2,omitempty"`
}

var targets []*Target

func mkName(n int) string { return strings.Repeat("n", n) }

func newBasic(st Stat, dyn bool) (*uio.BasicDirectory, uio.Directory, error) {
	if dyn {
		// dynamic directory with the size threshold switched off for this directory
		// is not expressible (0 = use global); use a threshold far above any case.
		d, err := uio.NewDirectory(nil, st.opts()...)
		if err != nil {
			return nil, nil, err
		}
		d.SetHAMTShardingSize(1 << 30)
		return d.(*uio.DynamicDirectory).Directory.(*uio.BasicDirectory), d, nil
	}
	b, err := uio.NewBasicDirectory(nil, st.opts()...)
	return b, b, err
}

func runCase(c *Case) (v *eng.Violation, outcome string) {
	pv := eng.Guard(c.Kind, func() { v, outcome = runCase1(c) })
	if pv != nil {
		pv.Features = map[string]string{"kind": c.Kind}
		v = pv
	}
	if v != nil {
		v.Replay = map[string]any{"part": "A", "case": c}
	}
	return
}

func runCase1(c *Case) (*eng.Violation, string) {
	b, d, err := newBasic(c.Stat, c.Dyn)
	if err != nil {
		return eng.V("constructor-error", "NewBasicDirectory", err.Error()), ""
	}
	basicOf := func() *uio.BasicDirectory {
		if dd, ok := d.(*uio.DynamicDirectory); ok {
			bb, _ := dd.Directory.(*uio.BasicDirectory)
			return bb
		}
		return b
	}
	step := func(stage, what string) *eng.Violation {
		bb := basicOf()
		if bb == nil {
			return eng.V("harness-unexpected-hamt", stage, "directory became a HAMT although the threshold is 1 GiB")
		}
		if v := checkBasic(bb, stage, what); v != nil {
			return v
		}
		if c.Reload {
			rb, err := reloadBasic(nil, bb)
			if err != nil {
				return eng.V("reload-error", stage, err.Error())
			}
			if v := checkBasic(rb, "reload", what+", then NewBasicDirectoryFromNode(decode(RawData)) + SetSizeEstimationMode(Block)"); v != nil {
				v.Features["after"] = stage
				return v
			}
		}
		return nil
	}
	if v := step("create", "empty directory"); v != nil {
		return v, ""
	}
	est0 := b.VerifEstimatedSize()
	switch c.Kind {
	case "empty":
		return nil, fmt.Sprintf("empty/%d", est0)
	case "single", "replace":
		name := mkName(c.NameLen)
		t1 := targets[c.T1]
		if err := d.AddChild(ctx, name, t1.node); err != nil {
			return eng.V("addchild-error", "AddChild", fmt.Sprintf("AddChild(len %d, %s): %v", c.NameLen, t1, err)), ""
		}
		if v := step("add", fmt.Sprintf("after AddChild(name of %d bytes, %s)", c.NameLen, t1)); v != nil {
			return v, ""
		}
		est1 := basicOf().VerifEstimatedSize()
		if c.Kind == "replace" {
			t2 := targets[c.T2]
			if err := d.AddChild(ctx, name, t2.node); err != nil {
				return eng.V("addchild-error", "AddChild", fmt.Sprintf("replace with %s: %v", t2, err)), ""
			}
			if v := step("replace", fmt.Sprintf("after replacing name of %d bytes: %s -> %s", c.NameLen, t1, t2)); v != nil {
				return v, ""
			}
		}
		est2 := basicOf().VerifEstimatedSize()
		if err := d.RemoveChild(ctx, name); err != nil {
			return eng.V("removechild-error", "RemoveChild", err.Error()), ""
		}
		if v := step("remove", fmt.Sprintf("after removing the only entry (name %d bytes)", c.NameLen)); v != nil {
			return v, ""
		}
		return nil, fmt.Sprintf("%s/+%d/+%d", c.Kind, est1-est0, est2-est0)
	}
	return eng.V("harness-bad-case", "", c.Kind), ""
}

// ---------------------------------------------------------------- part B (E1)

type seqEntry struct {
	name string
	tgt  int // index into seqTargets
}

var (
	seqNames   = []string{"", "a", mkName(127), mkName(300)}
	seqNameTag = []string{"n0", "n1", "n127", "n300"}
	seqTargets []*Target
	seqStats   = []Stat{
		{},
		{Mode: uint32(os.ModeDir | 0o755), Time: T{Sec: 1700000000, Nsec: 5}},
		{Mode: uint32(os.ModeDir), Time: T{Sec: -1}},
		{Mode: 0o4711, Time: T{Zero: true}},
	}
	setStats = []Stat{
		{Mode: uint32(os.ModeDir | 0o700), Time: T{Sec: 1 << 35, Nsec: 999999999}},
		{Mode: 0, Time: T{Sec: -5, Nsec: 1}},
	}
)

type seqSys struct {
	layout  string // basic | dyn-big | dyn-small
	stat    Stat
	dserv   ipld.DAGService
	dir     uio.Directory
	model   map[string]int
	statNow Stat
	r       *eng.Run
}

const smallThreshold = 420

func newSeq(r *eng.Run, cfg string) eng.Sys {
	var layout string
	var si int
	fmt.Sscanf(strings.ReplaceAll(cfg, "/", " "), "%s stat=%d", &layout, &si)
	s := &seqSys{layout: layout, stat: seqStats[si], statNow: seqStats[si], model: map[string]int{}, dserv: mdtest.Mock(), r: r}
	var err error
	switch layout {
	case "basic":
		s.dir, err = uio.NewBasicDirectory(s.dserv, s.stat.opts()...)
	case "dyn-big":
		s.dir, err = uio.NewDirectory(s.dserv, s.stat.opts()...)
		s.dir.SetHAMTShardingSize(1 << 30)
	case "dyn-small":
		s.dir, err = uio.NewDirectory(s.dserv, append(s.stat.opts(), uio.WithMaxHAMTFanout(8))...)
		s.dir.SetHAMTShardingSize(smallThreshold)
	}
	if err != nil {
		panic(err)
	}
	return s
}

func (s *seqSys) basic() *uio.BasicDirectory {
	switch d := s.dir.(type) {
	case *uio.BasicDirectory:
		return d
	case *uio.DynamicDirectory:
		b, _ := d.Directory.(*uio.BasicDirectory)
		return b
	}
	return nil
}

func (s *seqSys) Ops() []string {
	ops := []string{}
	for i := range seqNames {
		for j := range seqTargets {
			ops = append(ops, fmt.Sprintf("add %s %d", seqNameTag[i], j))
		}
	}
	for i := range seqNames {
		ops = append(ops, "rm "+seqNameTag[i])
	}
	for k := range setStats {
		ops = append(ops, fmt.Sprintf("setstat %d", k))
	}
	ops = append(ops, "reload")
	return ops
}

func nameByTag(tag string) string {
	for i, t := range seqNameTag {
		if t == tag {
			return seqNames[i]
		}
	}
	panic(tag)
}

func (s *seqSys) Do(op string) (string, *eng.Violation) {
	f := strings.Fields(op)
	stage := f[0]
	switch f[0] {
	case "add":
		var j int
		fmt.Sscan(f[2], &j)
		name := nameByTag(f[1])
		if _, ok := s.model[name]; ok {
			stage = "replace"
		}
		// C17 judges only the estimate; whether the edit itself behaves like a map is C15's business
		if err := s.dir.AddChild(ctx, name, seqTargets[j].node); err != nil {
			s.r.Add("edit_errors", 1)
			stage = "add-error"
		} else {
			s.model[name] = j
		}
	case "rm":
		name := nameByTag(f[1])
		err := s.dir.RemoveChild(ctx, name)
		_, had := s.model[name]
		switch {
		case err == nil:
			delete(s.model, name)
			stage = "remove"
		case had:
			s.r.Add("edit_errors", 1)
			stage = "remove-error"
		default:
			stage = "remove-missing"
		}
	case "setstat":
		var k int
		fmt.Sscan(f[1], &k)
		st := setStats[k]
		s.dir.SetStat(os.FileMode(st.Mode), st.Time.time())
	case "reload":
		nd, err := s.dir.GetNode()
		if err != nil {
			return "err", eng.V("getnode-error", "GetNode", err.Error())
		}
		if b := s.basic(); b != nil {
			nb, err := reloadBasic(s.dserv, b)
			if err != nil {
				return "err", eng.V("reload-error", "reload", err.Error())
			}
			switch s.layout {
			case "basic":
				s.dir = nb
			case "dyn-big":
				nb.SetHAMTShardingSize(1 << 30)
				s.dir = &uio.DynamicDirectory{Directory: nb}
			case "dyn-small":
				nb.SetHAMTShardingSize(smallThreshold)
				nb.SetMaxHAMTFanout(8)
				s.dir = &uio.DynamicDirectory{Directory: nb}
			}
		} else {
			if err := s.dserv.Add(ctx, nd); err != nil {
				return "err", eng.V("dserv-error", "reload", err.Error())
			}
			d, err := uio.NewDirectoryFromNode(s.dserv, nd)
			if err != nil {
				return "err", eng.V("reload-error", "reload", err.Error())
			}
			d.SetSizeEstimationMode(uio.SizeEstimationBlock)
			d.SetHAMTShardingSize(smallThreshold)
			d.SetMaxHAMTFanout(8)
			s.dir = d
		}
	}
	b := s.basic()
	if b == nil {
		s.r.Add("steps_in_hamt_state", 1)
		return "hamt", nil
	}
	s.r.Add("basic_states_checked", 1)
	// the stat recorded in violation features is what the node's Data field carries
	if v := checkBasic(b, stage, fmt.Sprintf("after %q with entries %s", op, s.modelKey())); v != nil {
		return "mismatch", v
	}
	return fmt.Sprintf("basic est=%d", b.VerifEstimatedSize()), nil
}

func (s *seqSys) modelKey() string {
	ks := []string{}
	for n, t := range s.model {
		ks = append(ks, fmt.Sprintf("%d=%d", len(n), t))
	}
	sort.Strings(ks)
	return strings.Join(ks, ",")
}

func (s *seqSys) Key() string {
	k := "M:" + s.modelKey()
	if b := s.basic(); b != nil {
		m, t := b.VerifStat()
		k += fmt.Sprintf("|basic est=%d links=%d mode=%v mtime=%d.%d", b.VerifEstimatedSize(), b.VerifTotalLinks(), m, t.Unix(), t.Nanosecond())
		nd, _ := b.GetNode()
		k += fmt.Sprintf(" data=%x", nd.(*merkledag.ProtoNode).Data())
	} else {
		h := s.dir.(*uio.DynamicDirectory).Directory.(*uio.HAMTDirectory)
		m, t := h.VerifStat()
		k += fmt.Sprintf("|hamt sc=%d links=%d mode=%v mtime=%d.%d", h.VerifSizeChange(), h.VerifTotalLinks(), m, t.Unix(), t.Nanosecond())
	}
	return k
}

func (s *seqSys) Check() *eng.Violation { return nil }
func (s *seqSys) Close()                {}

func seqSpec(r *eng.Run) eng.SeqSpec {
	cfgs := []string{}
	for _, l := range []string{"basic", "dyn-big", "dyn-small"} {
		for i := range seqStats {
			cfgs = append(cfgs, fmt.Sprintf("%s/stat=%d", l, i))
		}
	}
	return eng.SeqSpec{Configs: cfgs, New: func(c string) eng.Sys { return newSeq(r, c) }, Depth: eng.Pick(r, 5, 7)}
}

// ---------------------------------------------------------------- driver

func setup(r *eng.Run) {
	targets = buildTargets(r.Thorough())
	pick := func(kind string, ts uint64) *Target {
		for _, t := range targets {
			if t.Kind == kind && t.Tsize == ts {
				return t
			}
		}
		panic("harness: no target " + kind)
	}
	seqTargets = []*Target{pick("pb-v0-sha256", 2), pick("pb-v1-sha256", 1<<56-1), pick("raw-v1-identity", 124)}
}

func main() {
	eng.Main("C17", "exploration", body, func(r *eng.Run, raw json.RawMessage) {
		setup(r)
		var rp struct {
			Part string `json:"part"`
			Case *Case  `json:"case"`
		}
		json.Unmarshal(raw, &rp)
		if rp.Part == "A" && rp.Case != nil {
			v, out := runCase(rp.Case)
			r.Eval(1)
			fmt.Printf("  replay %+v\n  outcome %q\n", *rp.Case, out)
			if v != nil {
				r.Report(v)
			} else {
				fmt.Println("  replay: no violation")
			}
			return
		}
		eng.ReplaySeq(r, seqSpec(r), raw)
	})
}

func body(r *eng.Run) {
	setup(r)
	r.Rule("part A: nested loops, every case on a fresh BasicDirectory (plain and inside a DynamicDirectory) in SizeEstimationBlock mode, estimate compared with len(GetNode().RawData()) after every step and again after a reload from the serialized bytes: (A1) empty directory x all 4096 permission values x {plain, |ModeDir} + type-bit-only modes x mtime pool; (A2) one entry: every name length 0..300 x every target (CID form x Tsize varint class) x 3 directory stats, add then remove; (A3) every ordered pair of targets as add-then-replace under 5 name lengths. part B: BFS over add/replace/remove/SetStat/reload sequences on basic and dynamic directories (one config converts to HAMT and back at 420 bytes), invariant checked in every basic state. Non-trivial = mode or mtime set (A1) / any entry present")
	r.Assume("go-codec-dagpb / protobuf encoders are the definition of 'serialized length'")
	r.Assume("Tsize domain is 0..2^63-1 as in the property text (larger values are rejected by ProtoNode.AddRawLink)")
	th := r.Thorough()
	times := timePool(th)
	r.Set("domain_targets", len(targets))
	r.Set("domain_times", len(times))
	r.Sample(func() []string {
		s := []string{}
		for _, t := range targets {
			s = append(s, t.String())
		}
		return s
	}())

	var sigCount sync.Map
	report := func(v *eng.Violation) {
		k := v.Symptom + "|" + v.Op + "|" + fmt.Sprint(v.Features)
		c, _ := sigCount.LoadOrStore(k, new(atomic.Int64))
		if c.(*atomic.Int64).Add(1) <= 25 {
			r.Report(v)
		}
	}
	type local struct {
		evals int
		dist  map[string]struct{}
		outc  map[string]struct{}
	}
	var mu sync.Mutex
	merge := func(l *local) {
		r.Eval(l.evals)
		mu.Lock()
		defer mu.Unlock()
		for k := range l.dist {
			r.Distinct(k)
		}
		for k := range l.outc {
			r.Outcome(k)
		}
	}
	do := func(l *local, c Case, nontrivial bool, dkey string) {
		v, out := runCase(&c)
		l.evals++
		if v != nil {
			report(v)
			return
		}
		l.outc[out] = struct{}{}
		if nontrivial {
			l.dist[dkey] = struct{}{}
		}
	}
	newLocal := func() *local { return &local{dist: map[string]struct{}{}, outc: map[string]struct{}{}} }

	// A1: modes x mtimes on empty directories
	var modes []uint32
	for p := uint32(0); p < 4096; p++ {
		modes = append(modes, uint32(refMode(p)), uint32(refMode(p)|os.ModeDir))
	}
	modes = append(modes, uint32(os.ModeSymlink), uint32(os.ModeDir|os.ModeSymlink), uint32(os.ModeIrregular|0o644), uint32(os.ModeNamedPipe))
	r.Set("domain_modes", len(modes))
	eng.ParFor(len(modes), func(i int) {
		if r.Expired() {
			return
		}
		l := newLocal()
		for ti, t := range times {
			st := Stat{Mode: modes[i], Time: t}
			for _, dyn := range []bool{false, true} {
				do(l, Case{Kind: "empty", Stat: st, Dyn: dyn, Reload: true}, st.set(), fmt.Sprintf("empty/%d/%d", i, ti))
			}
		}
		merge(l)
	})

	// A2: single entries
	stats := []Stat{{}, {Mode: uint32(os.ModeDir | 0o755), Time: T{Sec: 1700000000, Nsec: 5}}, {Mode: uint32(os.ModeDir), Time: T{Sec: -1}}}
	nameLens := []int{}
	for n := 0; n <= 300; n++ {
		nameLens = append(nameLens, n)
	}
	if th {
		nameLens = append(nameLens, 16383-60, 16383, 16384, 70000)
	}
	r.Set("domain_name_lengths", len(nameLens))
	eng.ParFor(len(nameLens), func(i int) {
		if r.Expired() {
			return
		}
		l := newLocal()
		for ti := range targets {
			for si, st := range stats {
				for _, dyn := range []bool{false, true} {
					if dyn && si != 1 {
						continue
					}
					do(l, Case{Kind: "single", Stat: st, Dyn: dyn, Reload: si != 2, NameLen: nameLens[i], T1: ti}, true, fmt.Sprintf("single/%d/%d/%d", nameLens[i], ti, si))
				}
			}
		}
		merge(l)
	})

	// A3: all ordered target pairs as replacement
	repLens := []int{0, 1, 127, 128, 300}
	eng.ParFor(len(targets), func(i int) {
		if r.Expired() {
			return
		}
		l := newLocal()
		for j := range targets {
			for _, nl := range repLens {
				do(l, Case{Kind: "replace", Stat: stats[1], NameLen: nl, T1: i, T2: j}, true, fmt.Sprintf("replace/%d/%d/%d", nl, i, j))
			}
		}
		merge(l)
	})
	r.Sample(Case{Kind: "replace", Stat: stats[1], NameLen: 128, T1: 3, T2: len(targets) - 1})
	if r.Expired() {
		r.Incomplete("budget expired during part A")
		return
	}

	// B: histories
	eng.ExploreSeq(r, seqSpec(r))
}
