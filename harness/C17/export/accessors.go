//go:build verif

package io

import (
	"os"
	"time"
)

// Read-only accessors for the verification harness (C17). No behaviour change.

func (d *BasicDirectory) VerifEstimatedSize() int { return d.estimatedSize }
func (d *BasicDirectory) VerifTotalLinks() int    { return d.totalLinks }
func (d *BasicDirectory) VerifStat() (os.FileMode, time.Time) {
	return d.mode, d.mtime
}
func (d *HAMTDirectory) VerifSizeChange() int { return d.sizeChange }
func (d *HAMTDirectory) VerifTotalLinks() int { return d.totalLinks }
func (d *HAMTDirectory) VerifStat() (os.FileMode, time.Time) {
	return d.mode, d.mtime
}
