//go:build verif

package main

import (
	"context"
	"encoding/json"
	"fmt"
	"sort"
	"strings"

	bstore "github.com/ipfs/boxo/blockstore"
	"github.com/ipfs/boxo/datastore/dshelp"
	"github.com/ipfs/boxo/verifshim/eng"
	blocks "github.com/ipfs/go-block-format"
	cid "github.com/ipfs/go-cid"
	ds "github.com/ipfs/go-datastore"
	dsq "github.com/ipfs/go-datastore/query"
	dssync "github.com/ipfs/go-datastore/sync"
	ipld "github.com/ipfs/go-ipld-format"
	mh "github.com/multiformats/go-multihash"
)

type entry struct {
	name string
	c    cid.Cid
	data []byte
	id   bool // identity multihash
}

var pool []entry     // everything that can be Put
var observe []entry  // pool + cid.Undef
var byName = map[string]entry{}

func mustSum(data []byte, code uint64) mh.Multihash {
	h, err := mh.Sum(data, code, -1)
	if err != nil {
		panic(err)
	}
	return h
}

func initPool(r *eng.Run) {
	blobs := [][]byte{{}, []byte("a"), []byte("bb"), []byte(strings.Repeat("0123456789", 4))}
	if !r.Thorough() {
		blobs = blobs[:3]
	}
	for i, d := range blobs {
		s := mustSum(d, mh.SHA2_256)
		b := mustSum(d, mh.BLAKE2B_MIN+31)
		add := func(tag string, c cid.Cid) {
			e := entry{name: fmt.Sprintf("b%d.%s", i, tag), c: c, data: d}
			pool = append(pool, e)
		}
		add("v0", cid.NewCidV0(s))
		add("v1raw", cid.NewCidV1(cid.Raw, s))
		add("v1pb", cid.NewCidV1(cid.DagProtobuf, s))
		add("v1blake", cid.NewCidV1(cid.Raw, b))
	}
	// identity payloads at the multihash length-varint boundary (127 -> 1-byte varint, 128 -> 2-byte varint)
	idPayloads := [][]byte{{}, []byte("xy"), []byte(strings.Repeat("k", 127)), []byte(strings.Repeat("m", 128))}
	if !r.Thorough() {
		idPayloads = [][]byte{{}, []byte("xy"), []byte(strings.Repeat("m", 128))}
	}
	for i, d := range idPayloads {
		m := mustSum(d, mh.IDENTITY)
		pool = append(pool, entry{name: fmt.Sprintf("id%d", i), c: cid.NewCidV1(cid.Raw, m), data: d, id: true})
	}
	observe = append(append([]entry{}, pool...), entry{name: "undef", c: cid.Undef})
	for _, e := range observe {
		byName[e.name] = e
	}
}

type sys struct {
	wt, np, ids bool
	raw         ds.Batching
	bs          bstore.Blockstore
	model       map[string][]byte // multihash -> bytes
	thorough    bool
}

func newSys(cfg string, thorough bool) eng.Sys {
	s := &sys{model: map[string][]byte{}, thorough: thorough}
	s.wt = strings.Contains(cfg, "wt=1")
	s.np = strings.Contains(cfg, "np=1")
	s.ids = strings.Contains(cfg, "id=1")
	s.raw = dssync.MutexWrap(ds.NewMapDatastore())
	opts := []bstore.Option{bstore.WriteThrough(s.wt)}
	if s.np {
		opts = append(opts, bstore.NoPrefix())
	}
	s.bs = bstore.NewBlockstore(s.raw, opts...)
	if s.ids {
		s.bs = bstore.NewIdStore(s.bs)
	}
	return s
}

func (s *sys) Ops() []string {
	ops := []string{}
	for _, e := range pool {
		ops = append(ops, "Put "+e.name)
	}
	for _, e := range observe {
		ops = append(ops, "Delete "+e.name)
	}
	ops = append(ops, "PutMany")
	// pairs: first element over the whole pool, second over a sub-pool chosen to
	// contain an alias of the first, a different block and an identity CID.
	for _, a := range pool {
		ops = append(ops, "PutMany "+a.name)
		for j, b := range pool {
			if s.thorough || j%3 == 0 || b.id {
				ops = append(ops, "PutMany "+a.name+" "+b.name)
			}
		}
	}
	return ops
}

func (s *sys) stored(e entry) bool { return !(s.ids && e.id) }

func (s *sys) Do(op string) (string, *eng.Violation) {
	ctx := context.Background()
	f := strings.Fields(op)
	var err error
	switch f[0] {
	case "Put":
		e := byName[f[1]]
		b, _ := blocks.NewBlockWithCid(e.data, e.c)
		err = s.bs.Put(ctx, b)
		if s.stored(e) {
			s.model[string(e.c.Hash())] = e.data
		}
	case "PutMany":
		var bl []blocks.Block
		for _, n := range f[1:] {
			e := byName[n]
			b, _ := blocks.NewBlockWithCid(e.data, e.c)
			bl = append(bl, b)
			if s.stored(e) {
				s.model[string(e.c.Hash())] = e.data
			}
		}
		err = s.bs.PutMany(ctx, bl)
	case "Delete":
		e := byName[f[1]]
		err = s.bs.DeleteBlock(ctx, e.c)
		if e.c.Defined() {
			delete(s.model, string(e.c.Hash()))
		}
	}
	if err != nil {
		return "err", eng.V("unexpected-error", "", fmt.Sprintf("%s returned %v", op, err))
	}
	return "ok", nil
}

func (s *sys) dump() []string {
	res, err := s.raw.Query(context.Background(), dsq.Query{})
	if err != nil {
		panic(err)
	}
	all, _ := res.Rest()
	out := []string{}
	for _, e := range all {
		out = append(out, e.Key+"="+string(e.Value))
	}
	sort.Strings(out)
	return out
}

func (s *sys) Key() string { return "S:" + strings.Join(s.dump(), "\x00") }

func (s *sys) Check() *eng.Violation {
	ctx := context.Background()
	for _, e := range observe {
		want, present := s.model[string(e.c.Hash())]
		if !e.c.Defined() {
			present = false
		}
		if s.ids && e.id {
			want, present = e.data, true
		}
		feat := []string{"cid", cidKind(e), "present", fmt.Sprint(present)}
		has, err := s.bs.Has(ctx, e.c)
		if err != nil || has != present {
			return eng.V("has-mismatch", "Has", fmt.Sprintf("Has(%s)=%v,%v want %v", e.name, has, err, present), feat...)
		}
		blk, err := s.bs.Get(ctx, e.c)
		if present {
			if err != nil {
				return eng.V("get-missing", "Get", fmt.Sprintf("Get(%s) error %v, model has it", e.name, err), feat...)
			}
			if string(blk.RawData()) != string(want) {
				return eng.V("get-wrong-bytes", "Get", fmt.Sprintf("Get(%s)=%q want %q", e.name, blk.RawData(), want), feat...)
			}
			if !blk.Cid().Equals(e.c) {
				return eng.V("get-wrong-cid", "Get", fmt.Sprintf("Get(%s) returned block with cid %s", e.name, blk.Cid()), feat...)
			}
		} else if !ipld.IsNotFound(err) {
			return eng.V("get-absent-not-notfound", "Get", fmt.Sprintf("Get(%s)=%v,%v want not-found", e.name, blk, err), feat...)
		}
		n, err := s.bs.GetSize(ctx, e.c)
		if present {
			if err != nil || n != len(want) {
				return eng.V("getsize-mismatch", "GetSize", fmt.Sprintf("GetSize(%s)=%d,%v want %d", e.name, n, err, len(want)), feat...)
			}
		} else if !ipld.IsNotFound(err) {
			return eng.V("getsize-absent-not-notfound", "GetSize", fmt.Sprintf("GetSize(%s)=%d,%v want not-found", e.name, n, err), feat...)
		}
		if v, ok := s.bs.(bstore.Viewer); ok {
			var got []byte
			called := false
			err := v.View(ctx, e.c, func(b []byte) error { called = true; got = append([]byte{}, b...); return nil })
			if present {
				if err != nil || !called || string(got) != string(want) {
					return eng.V("view-mismatch", "View", fmt.Sprintf("View(%s)=%q,%v called=%v want %q", e.name, got, err, called, want), feat...)
				}
			} else if !ipld.IsNotFound(err) || called {
				return eng.V("view-absent-not-notfound", "View", fmt.Sprintf("View(%s) err=%v called=%v want not-found", e.name, err, called), feat...)
			}
		}
	}
	// enumeration
	ch, err := s.bs.AllKeysChan(ctx)
	if err != nil {
		return eng.V("allkeys-error", "AllKeysChan", err.Error())
	}
	got := []string{}
	for c := range ch {
		got = append(got, c.String())
	}
	sort.Strings(got)
	want := []string{}
	rawWant := []string{}
	for m, d := range s.model {
		want = append(want, cid.NewCidV1(cid.Raw, mh.Multihash(m)).String())
		k := dshelp.MultihashToDsKey(mh.Multihash(m)).String()
		if !s.np {
			k = bstore.BlockPrefix.String() + k
		}
		rawWant = append(rawWant, k+"="+string(d))
	}
	sort.Strings(want)
	sort.Strings(rawWant)
	if strings.Join(got, ",") != strings.Join(want, ",") {
		return eng.V("allkeys-mismatch", "AllKeysChan", fmt.Sprintf("AllKeysChan=%v want %v", got, want))
	}
	raw := s.dump()
	if strings.Join(raw, "\x00") != strings.Join(rawWant, "\x00") {
		return eng.V("backing-store-mismatch", "", fmt.Sprintf("datastore=%q want %q", raw, rawWant))
	}
	if s.ids {
		for _, e := range pool {
			if e.id {
				k := dshelp.MultihashToDsKey(e.c.Hash()).String()
				for _, l := range raw {
					if strings.Contains(l, k+"=") {
						return eng.V("identity-in-backing-store", "", l)
					}
				}
			}
		}
	}
	return nil
}

func cidKind(e entry) string {
	if i := strings.IndexByte(e.name, '.'); i > 0 {
		return e.name[i+1:]
	}
	if e.id {
		return "identity"
	}
	return e.name
}

func (s *sys) Close() {}

func spec(r *eng.Run) eng.SeqSpec {
	initPool(r)
	cfgs := []string{}
	for _, wt := range []string{"0", "1"} {
		for _, np := range []string{"0", "1"} {
			for _, id := range []string{"0", "1"} {
				cfgs = append(cfgs, "wt="+wt+",np="+np+",id="+id)
			}
		}
	}
	th := r.Thorough()
	return eng.SeqSpec{Configs: cfgs, New: func(c string) eng.Sys { return newSys(c, th) }, Depth: eng.Pick(r, 6, 12), CheckEveryStep: true}
}

func main() {
	eng.Main("C01", "model_checking", func(r *eng.Run) {
		r.Rule("BFS over Put/PutMany/DeleteBlock sequences, successor = replay on a fresh blockstore + 1 op; state = raw datastore dump; a case is non-trivial when its path has >= 2 operations; after every transition Get/Has/GetSize/View of every pool CID + AllKeysChan + raw dump are compared with the multihash->bytes model")
		r.Assume("go-datastore MapDatastore / sync / namespace wrappers are correct")
		r.Assume("blocks are honest (bytes hash to the CID)")
		eng.ExploreSeq(r, spec(r))
	}, func(r *eng.Run, raw json.RawMessage) { eng.ReplaySeq(r, spec(r), raw) })
}
