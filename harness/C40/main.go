//go:build verif

package main

import (
	"bytes"
	"encoding/base32"
	"encoding/json"
	"errors"
	"fmt"
	"os"
	"path/filepath"
	"sort"
	"strings"
	"sync/atomic"

	"github.com/ipfs/boxo/keystore"
	"github.com/ipfs/boxo/verifshim/eng"
	ci "github.com/libp2p/go-libp2p/core/crypto"
)

// ---------------------------------------------------------------------------
// domains

// nameMax is the filename length limit of the scratch filesystem (verified at
// start-up by probeNameMax).  "key_" + base32(name) must fit into it: the
// longest admissible key name has 156 bytes (250 base32 characters).
const nameMax = 255

type nameT struct {
	tag  string // printable tag used in op strings
	s    string // the key name handed to the keystore
	over bool   // encoded filename exceeds nameMax: outside the quantified domain
	key2 bool   // the second key of the pool is also put under this name
}

var names []nameT
var nameByTag = map[string]nameT{}

var keys []ci.PrivKey // keys[0], keys[1]
var keyBytes [][]byte
var decoyKey ci.PrivKey // planted OUTSIDE the keystore dir; must never be returned

func mkKey(seed byte) ci.PrivKey {
	k, _, err := ci.GenerateEd25519Key(bytes.NewReader(bytes.Repeat([]byte{seed}, 64)))
	if err != nil {
		panic(err)
	}
	return k
}

func encLen(n string) int {
	return len("key_") + base32.StdEncoding.WithPadding(base32.NoPadding).EncodedLen(len(n))
}

func initDomains(r *eng.Run) {
	add := func(tag, s string) {
		n := nameT{tag: tag, s: s, over: encLen(s) > nameMax}
		switch tag {
		case "a", "A", "../x", "e-acute", "Pk":
			n.key2 = true
		}
		if r.Thorough() {
			switch tag {
			case "len156", "nul", "Wz":
				n.key2 = true
			}
		}
		names = append(names, n)
		nameByTag[tag] = n
	}
	add("a", "a")
	add("A", "A")
	// first byte whose base32 text starts with k / e / y, the letters of the file name prefix "key_"
	add("Pk", "Pk")
	add("space", " s")
	add("e-acute", "é")
	add("a/b", "a/b")
	add("../x", "../x")
	add("dot", ".")
	add("nul", "\x00")
	add("len156", strings.Repeat("L", 156)) // longest name whose file name fits (254 chars)
	add("len157", strings.Repeat("L", 157)) // first one that does not (256 chars)
	if r.Thorough() {
		add("Wz", "Wz")
		add("quote", "'")
		add("dotdot", "..")
		add("/abs", "/etc/hostname")
		add("a-nul-b", "a\x00b")
		add("key_mfqq", "key_mfqq") // looks like an encoded file name (that of "a")
		add("len155", strings.Repeat("L", 155))
	}
	keys = []ci.PrivKey{mkKey(1), mkKey(2)}
	for _, k := range keys {
		b, err := ci.MarshalPrivateKey(k)
		if err != nil {
			panic(err)
		}
		keyBytes = append(keyBytes, b)
	}
	decoyKey = mkKey(9)
	nOver := 0
	for _, n := range names {
		if n.over {
			nOver++
		}
	}
	r.Set("names", len(names))
	r.Set("names_over_filename_limit", nOver)
	r.Set("keys", len(keys))
}

// probeNameMax checks the assumption about the scratch filesystem.
func probeNameMax() error {
	d, err := os.MkdirTemp(".", "probe")
	if err != nil {
		return err
	}
	defer os.RemoveAll(d)
	if err := os.WriteFile(filepath.Join(d, strings.Repeat("n", nameMax)), nil, 0o600); err != nil {
		return fmt.Errorf("a %d-character file name is refused: %v", nameMax, err)
	}
	if err := os.WriteFile(filepath.Join(d, strings.Repeat("n", nameMax+1)), nil, 0o600); err == nil {
		return fmt.Errorf("a %d-character file name is accepted", nameMax+1)
	}
	return nil
}

// ---------------------------------------------------------------------------
// system = real FSKeystore + real MemKeystore + two name->keyIndex maps

type sys struct {
	top   string // S: private directory of this instance
	ksdir string // S/ks
	fs    *keystore.FSKeystore
	mem   *keystore.MemKeystore
	mfs   map[string]int // model of the FS keystore
	mmem  map[string]int // model of the in-memory keystore
	base  []string       // listing of S right after construction

	observeEach bool // run the observers after every mutation (config "observe=each")
	observeOp   bool // "Observe" is an operation of the alphabet (config "observe=op")
	// lastObs is what the observers saw the last time they ran on this
	// instance (nil = never): the abstraction of any read-side cache the
	// stores may keep, part of the state key.
	lastObs map[string]int
}

// decoy files planted in S (the parent of the keystore directory).  A key
// name that escaped the directory ("../x", "..", "/...") would hit them.
func decoys() map[string][]byte {
	db, _ := ci.MarshalPrivateKey(decoyKey)
	enc := func(n string) string {
		return "key_" + strings.ToLower(base32.StdEncoding.WithPadding(base32.NoPadding).EncodeToString([]byte(n)))
	}
	return map[string][]byte{
		"x":         db, // target of "../x" if the name were used as a path
		enc("../x"): db, // encoded name one level up
		"sub/b":     db,
	}
}

func newSys(cfg string) eng.Sys {
	// spread the instances over 64 parent directories: creating and removing
	// them all in one directory serialises the workers on that directory's lock
	par := fmt.Sprintf("p%02d", instCounter.Add(1)%64)
	os.MkdirAll(par, 0o700)
	top, err := os.MkdirTemp(par, "inst")
	if err != nil {
		panic(err)
	}
	top, _ = filepath.Abs(top)
	s := &sys{top: top, ksdir: filepath.Join(top, "ks"), mfs: map[string]int{}, mmem: map[string]int{}, observeEach: cfg == "observe=each", observeOp: cfg == "observe=op"}
	for n, b := range decoys() {
		p := filepath.Join(top, n)
		os.MkdirAll(filepath.Dir(p), 0o700)
		if err := os.WriteFile(p, b, 0o600); err != nil {
			panic(err)
		}
	}
	s.base = snapshot(top, "ks")
	s.fs, err = keystore.NewFSKeystore(s.ksdir)
	if err != nil {
		panic(err)
	}
	s.mem = keystore.NewMemKeystore()
	return s
}

func (s *sys) Close() { os.RemoveAll(s.top) }

// snapshot lists every file below root (relative path, size, content hash-free
// content string for small files), skipping the sub-directory `skip`.
func snapshot(root, skip string) []string {
	out := []string{}
	filepath.Walk(root, func(p string, fi os.FileInfo, err error) error {
		if err != nil {
			out = append(out, "ERR "+p+" "+err.Error())
			return nil
		}
		rel, _ := filepath.Rel(root, p)
		if rel == skip && skip != "" {
			return filepath.SkipDir
		}
		if fi.IsDir() {
			out = append(out, "D "+rel)
			return nil
		}
		b, _ := os.ReadFile(p)
		out = append(out, fmt.Sprintf("F %s %x", rel, b))
		return nil
	})
	sort.Strings(out)
	return out
}

func (s *sys) Ops() []string {
	ops := []string{}
	for _, n := range names {
		ops = append(ops, "Put "+n.tag+" 0")
	}
	for _, n := range names {
		ops = append(ops, "Delete "+n.tag)
	}
	for _, n := range names {
		if n.key2 {
			ops = append(ops, "Put "+n.tag+" 1")
		}
	}
	ops = append(ops, "PutEmpty")
	if s.observeOp {
		ops = append(ops, "Observe")
	}
	return ops
}

func keyLabel(k ci.PrivKey) string {
	switch {
	case k == nil:
		return "<nil>"
	case k.Equals(keys[0]):
		return "key0"
	case k.Equals(keys[1]):
		return "key1"
	case k.Equals(decoyKey):
		return "decoy-key"
	}
	return "unknown-key"
}

func cls(err error) string {
	switch {
	case err == nil:
		return "ok"
	case errors.Is(err, keystore.ErrKeyExists):
		return "ErrKeyExists"
	case errors.Is(err, keystore.ErrNoSuchKey):
		return "ErrNoSuchKey"
	}
	return "error"
}

func feats(n nameT, present bool, which string) []string {
	return []string{"store", which, "name", n.tag, "present", fmt.Sprint(present), "over_limit", fmt.Sprint(n.over)}
}

// Do applies one mutation.  In the "observe=each" configuration every
// mutation is followed by the pure observers (Has/Get of every pool name and
// List on both stores, compared with the model) on the SAME instances, so
// reads are interleaved with writes as a caller could interleave them (a read
// cache that is not invalidated is reached); in "observe=op" the observers are an operation of their own, so any placement of reads is covered;
// mutation-only histories are covered as well.
func (s *sys) Do(op string) (string, *eng.Violation) {
	if op == "Observe" {
		// the pure observers as an operation: any placement of reads between
		// the mutations is a path of the search
		v := observe("fs", s.fs, s.mfs)
		if v == nil {
			v = observe("mem", s.mem, s.mmem)
		}
		s.snapshotObs()
		return "observed", v
	}
	o, v := s.do(op)
	if v == nil && s.observeEach {
		defer s.snapshotObs()
		if v = observe("fs", s.fs, s.mfs); v == nil {
			v = observe("mem", s.mem, s.mmem)
		}
		if v != nil {
			v.Symptom = "interleaved-" + v.Symptom
		}
	}
	return o, v
}

func (s *sys) do(op string) (string, *eng.Violation) {
	f := strings.Split(op, " ")
	switch f[0] {
	case "PutEmpty":
		// the empty name is outside the quantified domain; both stores document
		// (by their error text) that it is refused.  Demand: refused, nothing changes.
		e1 := s.fs.Put("", keys[0])
		e2 := s.mem.Put("", keys[0])
		if e1 == nil || e2 == nil {
			return "accepted", eng.V("empty-name-accepted", "Put", fmt.Sprintf("Put(\"\") fs=%v mem=%v", e1, e2))
		}
		return "refused", nil
	case "Put":
		n := nameByTag[f[1]]
		ki := int(f[2][0] - '0')
		_, pf := s.mfs[n.s]
		_, pm := s.mmem[n.s]
		ef := s.fs.Put(n.s, keys[ki])
		// names beyond the filename limit (outside the quantified domain) are
		// not applied to the in-memory keystore: it would only double the states
		var em error
		if !n.over {
			em = s.mem.Put(n.s, keys[ki])
		}
		obs := "fs:" + cls(ef) + ",mem:" + cls(em)
		// in-memory keystore: plain map with refuse-overwrite
		wantM := "ok"
		if pm {
			wantM = "ErrKeyExists"
		} else if !n.over {
			s.mmem[n.s] = ki
		}
		if cls(em) != wantM {
			return obs, eng.V("put-result-mismatch", "Put", fmt.Sprintf("MemKeystore.Put(%s)=%v want %s", n.tag, em, wantM), feats(n, pm, "mem")...)
		}
		wantF := "ok"
		if pf {
			wantF = "ErrKeyExists"
		}
		if n.over && !pf && ef != nil {
			// name beyond the filename limit: outside the quantified domain.
			// A refusal is tolerated provided nothing changes (checked globally).
			theRun.Add("over_limit_put_refused", 1)
			return obs, nil
		}
		if !pf {
			s.mfs[n.s] = ki
		}
		if cls(ef) != wantF {
			return obs, eng.V("put-result-mismatch", "Put", fmt.Sprintf("FSKeystore.Put(%s)=%v want %s", n.tag, ef, wantF), feats(n, pf, "fs")...)
		}
		if pf {
			theRun.Add("overwrite_refused", 1)
		}
		return obs, nil
	case "Delete":
		n := nameByTag[f[1]]
		_, pf := s.mfs[n.s]
		_, pm := s.mmem[n.s]
		ef := s.fs.Delete(n.s)
		var em error
		if !n.over {
			em = s.mem.Delete(n.s)
		}
		obs := "fs:" + cls(ef) + ",mem:" + cls(em)
		delete(s.mfs, n.s)
		delete(s.mmem, n.s)
		// The statement: behaves like a map and agrees with the in-memory
		// keystore.  Deleting from a map never fails; the in-memory keystore
		// returns nil for present and absent names alike.
		if em != nil {
			return obs, eng.V("delete-result-mismatch", "Delete", fmt.Sprintf("MemKeystore.Delete(%s)=%v want nil", n.tag, em), feats(n, pm, "mem")...)
		}
		if ef != nil {
			if n.over && !pf {
				theRun.Add("over_limit_delete_refused", 1)
				return obs, nil
			}
			return obs, eng.V("delete-result-mismatch", "Delete", fmt.Sprintf("FSKeystore.Delete(%s)=%v while MemKeystore.Delete returns nil (key present in model: %v)", n.tag, ef, pf), feats(n, pf, "fs")...)
		}
		return obs, nil
	}
	panic("unknown op " + op)
}

var theRun *eng.Run
var instCounter atomic.Int64

func (s *sys) ksListing() []string {
	ents, err := os.ReadDir(s.ksdir)
	if err != nil {
		return []string{"ERR " + err.Error()}
	}
	out := []string{}
	for _, e := range ents {
		b, _ := os.ReadFile(filepath.Join(s.ksdir, e.Name()))
		kind := "F"
		if e.IsDir() {
			kind = "D"
		}
		out = append(out, fmt.Sprintf("%s %s %x", kind, e.Name(), b))
	}
	sort.Strings(out)
	return out
}

func modelKey(m map[string]int) string {
	out := []string{}
	for n, k := range m {
		out = append(out, fmt.Sprintf("%q=%d", n, k))
	}
	sort.Strings(out)
	return strings.Join(out, ",")
}

func (s *sys) snapshotObs() {
	s.lastObs = map[string]int{}
	for n, k := range s.mfs {
		s.lastObs[n] = k
	}
}

func (s *sys) Key() string {
	obs := "never"
	if s.lastObs != nil {
		obs = "{" + modelKey(s.lastObs) + "}"
	}
	return "fs{" + modelKey(s.mfs) + "} mem{" + modelKey(s.mmem) + "} dir{" + strings.Join(s.ksListing(), ";") + "} lastobs" + obs
}

type store interface {
	Has(string) (bool, error)
	Get(string) (ci.PrivKey, error)
	List() ([]string, error)
}

func observe(which string, st store, model map[string]int) *eng.Violation {
	for _, n := range names {
		ki, present := model[n.s]
		ft := feats(n, present, which)
		has, err := st.Has(n.s)
		if n.over && which == "fs" && !present && err != nil {
			theRun.Add("over_limit_has_refused", 1)
		} else if err != nil || has != present {
			return eng.V("has-mismatch", "Has", fmt.Sprintf("%s Has(%s)=%v,%v want %v,nil", which, n.tag, has, err, present), ft...)
		}
		k, err := st.Get(n.s)
		if present {
			if err != nil || k == nil {
				return eng.V("get-missing", "Get", fmt.Sprintf("%s Get(%s)=%v,%v but the key was put", which, n.tag, k, err), ft...)
			}
			if !k.Equals(keys[ki]) {
				who := "another key"
				if k.Equals(decoyKey) {
					who = "the decoy key stored OUTSIDE the keystore directory"
				} else if k.Equals(keys[1-ki]) {
					who = "the other key of the pool"
				}
				return eng.V("get-wrong-key", "Get", fmt.Sprintf("%s Get(%s) returned %s", which, n.tag, who), ft...)
			}
		} else {
			if k != nil && k.Equals(decoyKey) {
				return eng.V("read-outside-directory", "Get", fmt.Sprintf("%s Get(%s) returned the decoy key stored outside the keystore directory", which, n.tag), ft...)
			}
			if n.over && which == "fs" && err != nil && k == nil {
				theRun.Add("over_limit_get_refused", 1)
			} else if !errors.Is(err, keystore.ErrNoSuchKey) || k != nil {
				return eng.V("get-absent-mismatch", "Get", fmt.Sprintf("%s Get(%s)=%v,%v want ErrNoSuchKey", which, n.tag, keyLabel(k), err), ft...)
			}
		}
	}
	got, err := st.List()
	if err != nil {
		return eng.V("list-error", "List", fmt.Sprintf("%s List: %v", which, err), "store", which)
	}
	got = append([]string{}, got...)
	sort.Strings(got)
	want := []string{}
	for n := range model {
		want = append(want, n)
	}
	sort.Strings(want)
	if fmt.Sprintf("%q", got) != fmt.Sprintf("%q", want) {
		return eng.V("list-mismatch", "List", fmt.Sprintf("%s List=%.80q want %.80q", which, got, want), "store", which)
	}
	return nil
}

func (s *sys) Check() *eng.Violation {
	if v := observe("fs", s.fs, s.mfs); v != nil {
		return v
	}
	if v := observe("mem", s.mem, s.mmem); v != nil {
		return v
	}
	// confinement: nothing outside S/ks changed ...
	if now := snapshot(s.top, "ks"); strings.Join(now, "\n") != strings.Join(s.base, "\n") {
		return eng.V("file-outside-directory", "", fmt.Sprintf("parent directory changed:\nbefore %.300q\nafter  %.300q", s.base, now))
	}
	// ... and S/ks holds exactly one regular file key_<lower base32(name)> per key
	want := []string{}
	for n, ki := range s.mfs {
		fn := "key_" + strings.ToLower(base32.StdEncoding.WithPadding(base32.NoPadding).EncodeToString([]byte(n)))
		want = append(want, fmt.Sprintf("F %s %x", fn, keyBytes[ki]))
	}
	sort.Strings(want)
	got := s.ksListing()
	if strings.Join(got, "\n") != strings.Join(want, "\n") {
		return eng.V("directory-content-mismatch", "", fmt.Sprintf("keystore dir:\n got  %.300q\n want %.300q", got, want))
	}
	// a second keystore opened on the same directory sees the same map (the
	// directory is the whole state)
	re, err := keystore.NewFSKeystore(s.ksdir)
	if err != nil {
		return eng.V("reopen-error", "", err.Error())
	}
	if v := observe("fs", re, s.mfs); v != nil {
		v.Symptom = "reopen-" + v.Symptom
		return v
	}
	return nil
}

func spec(r *eng.Run) eng.SeqSpec {
	theRun = r
	initDomains(r)
	return eng.SeqSpec{Configs: eng.Pick(r, []string{"observe=op"}, []string{"observe=each", "observe=op"}), New: newSys, Depth: 4}
}

func main() {
	eng.Main("C40", "model_checking", func(r *eng.Run) {
		r.Rule("BFS over all sequences of Put(name,key)/Delete(name)/Put(\"\") applied to a fresh FSKeystore and a fresh MemKeystore, in the configurations observe=each (thorough only) (after every mutation Has/Get of every pool name and List run on the same instances and are compared with the model, so reads are interleaved with writes) and observe=op (the observers are one operation Observe of the alphabet, so every placement of reads between the mutations - none, some, all - is a path; what they last saw is part of the state key); successor = replay on fresh instances + 1 op; state = name->key maps + listing of the keystore directory; after every transition Has/Get for every pool name and List on both stores (and on a re-opened FSKeystore) are compared with the map model, and the listing+contents of the keystore directory and of its parent (with decoy key files planted where an unencoded name would land) are compared with the expected files; non-trivial = path of >= 2 operations")
		r.Assume(fmt.Sprintf("scratch filesystem has NAME_MAX=%d (probed at start) and is case-sensitive or not - the encoding is lower-case only", nameMax))
		r.Assume("names whose encoded file name exceeds NAME_MAX are outside the quantified domain: for them only 'a refused operation changes nothing' and confinement are demanded")
		if err := probeNameMax(); err != nil {
			fmt.Fprintln(os.Stderr, "C40: scratch filesystem assumption broken:", err)
			os.Exit(2)
		}
		eng.ExploreSeq(r, spec(r))
	}, func(r *eng.Run, raw json.RawMessage) { eng.ReplaySeq(r, spec(r), raw) })
}
