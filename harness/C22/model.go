//go:build verif

package main

import (
	"context"
	"fmt"
	"sort"
	"strings"

	ipfspinner "github.com/ipfs/boxo/pinning/pinner"
	"github.com/ipfs/boxo/verifshim/eng"
	cid "github.com/ipfs/go-cid"
)

// ---- the pin model of the property statement ----
//
// One pin per CID: recursive ("R") or direct ("D"), with a name. A recursive
// pin supersedes (replaces) a direct one; re-pinning replaces the name.
// indirect(c) <=> c is a strict descendant of some recursive root and is not
// itself a recursive root.

type pinRec struct {
	Mode string // "R" | "D"
	Name string
	// AnyName: the statement does not say which name a pin created by Update
	// carries (the implementation copies the name of `from`); any name is
	// accepted until the CID is pinned again.
	AnyName bool
}

type model struct {
	pins map[string]pinRec // by CID name
}

func newModel() *model { return &model{pins: map[string]pinRec{}} }

func (m *model) rec(c string) bool { return m.pins[c].Mode == "R" }
func (m *model) dir(c string) bool { return m.pins[c].Mode == "D" }

// via lists the recursive roots that have c as a strict descendant.
func (m *model) via(c string) []string {
	out := []string{}
	for r, p := range m.pins {
		if p.Mode == "R" && desc[r][c] {
			out = append(out, r)
		}
	}
	sort.Strings(out)
	return out
}

func (m *model) ind(c string) bool { return !m.rec(c) && len(m.via(c)) > 0 }

func (m *model) String() string {
	ks := []string{}
	for c, p := range m.pins {
		nm := fmt.Sprintf("%q", p.Name)
		if p.AnyName {
			nm = "<any name>"
		}
		ks = append(ks, fmt.Sprintf("%s:%s%s", c, p.Mode, nm))
	}
	sort.Strings(ks)
	return "{" + strings.Join(ks, " ") + "}"
}

func (m *model) clone() *model {
	n := newModel()
	for k, v := range m.pins {
		n.pins[k] = v
	}
	return n
}

// ---- observation of the real pinner, compared with the model ----

var modeNames = []struct {
	m    ipfspinner.Mode
	name string
}{
	{ipfspinner.Recursive, "recursive"}, {ipfspinner.Direct, "direct"}, {ipfspinner.Indirect, "indirect"},
	{ipfspinner.Internal, "internal"}, {ipfspinner.Any, "any"}, {ipfspinner.NotPinned, "notpinned(invalid)"}, {ipfspinner.Mode(99), "99(invalid)"},
}

type observer struct {
	f   *fixture
	p   pinnerT
	m   *model
	raw *rawState
	// traversalMayFail: some block below a recursive root of the *implementation's* index is missing,
	// so a query that has to walk the DAGs may legitimately return an error.
	traversalMayFail bool
	vec              []string
	viols            []*eng.Violation
}

func (o *observer) facts(c string) []string {
	return []string{"rec", fmt.Sprint(o.m.rec(c)), "dir", fmt.Sprint(o.m.dir(c)), "under_rec_root", fmt.Sprint(len(o.m.via(c)) > 0)}
}

func (o *observer) bad(op, mode, c, detail string) {
	kv := append([]string{"mode", mode}, o.facts(c)...)
	o.viols = append(o.viols, eng.V("query-mismatch", op, fmt.Sprintf("%s [cid %s, model %s]", detail, c, o.m), kv...))
}

func inList(x string, l []string) bool {
	for _, y := range l {
		if x == y {
			return true
		}
	}
	return false
}

// reasonOK checks the (reason, pinned) answer of IsPinned/IsPinnedWithType.
func (o *observer) checkIsPinned(op, mode, c string, reason string, pinned bool, err error) {
	m := o.m
	norm := reason
	if n, ok := o.f.byStr[reason]; ok {
		if inList(n, m.via(c)) {
			norm = "via-ok"
		} else {
			norm = "via:" + n
		}
	}
	if err != nil {
		o.vec = append(o.vec, fmt.Sprintf("%s(%s,%s)=err", op, c, mode))
	} else {
		o.vec = append(o.vec, fmt.Sprintf("%s(%s,%s)=%v/%s", op, c, mode, pinned, norm))
	}
	walks := mode == "indirect" || mode == "any"
	if strings.Contains(mode, "invalid") {
		return // an invalid mode may be rejected or answered "not pinned"; the statement does not say
	}
	if err != nil {
		if walks && o.traversalMayFail {
			return
		}
		o.bad(op, mode, c, fmt.Sprintf("%s(%s, %s) returned error %v", op, c, mode, err))
		return
	}
	var want bool
	okReasons := []string{}
	switch mode {
	case "recursive":
		want = m.rec(c)
		okReasons = []string{"recursive"}
	case "direct":
		want = m.dir(c)
		okReasons = []string{"direct"}
	case "indirect":
		want = m.ind(c)
		okReasons = []string{"via-ok"}
	case "internal":
		want = false
	case "any":
		want = m.rec(c) || m.dir(c) || m.ind(c)
		if m.rec(c) {
			okReasons = []string{"recursive"} // recursive supersedes
		} else {
			if m.dir(c) {
				okReasons = append(okReasons, "direct")
			}
			if m.ind(c) {
				okReasons = append(okReasons, "via-ok")
			}
		}
	}
	if pinned != want {
		o.bad(op, mode, c, fmt.Sprintf("%s(%s, %s) = (%q, %v), model says pinned=%v", op, c, mode, norm, pinned, want))
		return
	}
	if pinned && !inList(norm, okReasons) {
		o.bad(op, mode, c, fmt.Sprintf("%s(%s, %s) = (%q, true), model allows reasons %v", op, c, mode, norm, okReasons))
	}
}

func (o *observer) checkBatch(op, mode string, names bool, res []ipfspinner.Pinned, err error) {
	m := o.m
	tag := fmt.Sprintf("%s(%s,names=%v)", op, mode, names)
	if err != nil {
		o.vec = append(o.vec, tag+"=err")
		if strings.Contains(mode, "invalid") {
			return
		}
		if (mode == "indirect" || mode == "any") && o.traversalMayFail {
			return
		}
		o.bad(op, mode, "-", fmt.Sprintf("%s returned error %v", tag, err))
		return
	}
	byCid := map[string][]ipfspinner.Pinned{}
	for _, e := range res {
		byCid[o.f.name(e.Key)] = append(byCid[o.f.name(e.Key)], e)
	}
	for _, c := range cidNames {
		es := byCid[c]
		delete(byCid, c)
		if strings.Contains(mode, "invalid") {
			continue
		}
		if len(es) == 0 {
			o.vec = append(o.vec, fmt.Sprintf("%s[%s]=absent", tag, c))
			o.bad(op, mode, c, fmt.Sprintf("%s has no entry for %s", tag, c))
			continue
		}
		for _, e := range es {
			ms, _ := ipfspinner.ModeToString(e.Mode)
			viaN := ""
			if e.Mode == ipfspinner.Indirect {
				viaN = "via:" + o.f.name(e.Via)
				if inList(o.f.name(e.Via), m.via(c)) {
					viaN = "via-ok"
				}
			}
			nm := ""
			if names {
				nm = fmt.Sprintf("%q", e.Name)
			}
			o.vec = append(o.vec, fmt.Sprintf("%s[%s]=%s/%s/%s", tag, c, ms, viaN, nm))
			ok := false
			nameOK := !names || e.Name == m.pins[c].Name || m.pins[c].AnyName
			switch mode {
			case "any":
				switch {
				case m.rec(c):
					ok = e.Mode == ipfspinner.Recursive && nameOK
				default:
					if m.dir(c) && e.Mode == ipfspinner.Direct && nameOK {
						ok = true
					}
					if m.ind(c) && e.Mode == ipfspinner.Indirect && viaN == "via-ok" {
						ok = true
					}
					if !m.dir(c) && !m.ind(c) && e.Mode == ipfspinner.NotPinned {
						ok = true
					}
				}
			case "recursive":
				ok = (m.rec(c) && e.Mode == ipfspinner.Recursive && nameOK) || (!m.rec(c) && e.Mode == ipfspinner.NotPinned)
			case "direct":
				ok = (m.dir(c) && e.Mode == ipfspinner.Direct && nameOK) || (!m.dir(c) && e.Mode == ipfspinner.NotPinned)
			case "indirect":
				ok = (m.ind(c) && e.Mode == ipfspinner.Indirect && viaN == "via-ok") || (!m.ind(c) && e.Mode == ipfspinner.NotPinned)
			case "internal":
				ok = e.Mode == ipfspinner.NotPinned
			}
			if !ok {
				o.bad(op, mode, c, fmt.Sprintf("%s reports %s as {mode %s %s name %q}", tag, c, ms, viaN, e.Name))
			}
		}
	}
	for c := range byCid {
		o.bad(op, mode, c, fmt.Sprintf("%s has an entry for a CID that was not asked for: %s", tag, c))
	}
}

func (o *observer) checkList(op string, detailed bool, ch <-chan ipfspinner.StreamedPin, wantMode string) {
	m := o.m
	tag := fmt.Sprintf("%s(detailed=%v)", op, detailed)
	seen := map[string]int{}
	lines := []string{}
	for sp := range ch {
		if sp.Err != nil {
			lines = append(lines, "err")
			o.bad(op, wantMode, "-", fmt.Sprintf("%s streamed error %v", tag, sp.Err))
			continue
		}
		c := o.f.name(sp.Pin.Key)
		seen[c]++
		if detailed {
			ms, _ := ipfspinner.ModeToString(sp.Pin.Mode)
			lines = append(lines, fmt.Sprintf("%s/%s/%q", c, ms, sp.Pin.Name))
			want := m.pins[c]
			wm := map[string]string{"R": "recursive", "D": "direct"}[want.Mode]
			if wm == wantMode && (ms != wantMode || (sp.Pin.Name != want.Name && !want.AnyName)) {
				o.bad(op, wantMode, c, fmt.Sprintf("%s lists %s as {mode %s name %q}, model has {mode %s name %q}", tag, c, ms, sp.Pin.Name, wm, want.Name))
			}
		} else {
			lines = append(lines, c)
		}
	}
	sort.Strings(lines)
	o.vec = append(o.vec, tag+"="+strings.Join(lines, ","))
	for _, c := range cidNames {
		want := 0
		if (wantMode == "recursive" && m.rec(c)) || (wantMode == "direct" && m.dir(c)) {
			want = 1
		}
		if seen[c] != want {
			o.bad(op, wantMode, c, fmt.Sprintf("%s lists %s %d times, model says %d", tag, c, seen[c], want))
		}
		delete(seen, c)
	}
	for c := range seen {
		o.bad(op, wantMode, c, fmt.Sprintf("%s lists unknown CID %s", tag, c))
	}
}

// observe runs every query of the Pinner interface and compares it with the
// model. It returns the canonical observation vector and the mismatches.
func observe(f *fixture, p pinnerT, m *model, raw *rawState) (string, []*eng.Violation) {
	ctx := context.Background()
	o := &observer{f: f, p: p, m: m, raw: raw}
	// which DAGs would the implementation have to walk? those of its recursive index
	for _, rp := range raw.Pins {
		if rp.Mode == "recursive" && !strings.HasPrefix(rp.Cid, "?") {
			root := rp.Cid
			if root == "A1" {
				root = "L1"
			}
			if !f.closureComplete(root, true) {
				o.traversalMayFail = true
			}
		}
	}
	for r := range m.pins {
		if m.rec(r) {
			root := r
			if root == "A1" {
				root = "L1"
			}
			if !f.closureComplete(root, true) {
				o.traversalMayFail = true
			}
		}
	}
	all := []cid.Cid{}
	for _, c := range cidNames {
		all = append(all, f.cids[c])
	}
	for _, c := range cidNames {
		reason, pinned, err := p.IsPinned(ctx, f.cids[c])
		o.checkIsPinned("IsPinned", "any", c, reason, pinned, err)
		for _, md := range modeNames {
			reason, pinned, err := p.IsPinnedWithType(ctx, f.cids[c], md.m)
			o.checkIsPinned("IsPinnedWithType", md.name, c, reason, pinned, err)
		}
	}
	res, err := p.CheckIfPinned(ctx, all...)
	o.checkBatch("CheckIfPinned", "any", false, res, err)
	for _, md := range modeNames {
		for _, names := range []bool{false, true} {
			res, err := p.CheckIfPinnedWithType(ctx, md.m, names, all...)
			o.checkBatch("CheckIfPinnedWithType", md.name, names, res, err)
		}
	}
	// a batch of one: the per-CID result must not depend on the rest of the batch
	for _, c := range []string{"M", "L1"} {
		res, err := p.CheckIfPinnedWithType(ctx, ipfspinner.Any, true, f.cids[c])
		sub := &observer{f: f, p: p, m: m, raw: raw, traversalMayFail: o.traversalMayFail}
		if err == nil {
			// complete the answer with what the model says about the CIDs not asked for, so checkBatch can be reused
			for _, other := range cidNames {
				if other != c {
					res = append(res, sub.modelEntry(other))
				}
			}
		}
		sub.checkBatch("CheckIfPinnedWithType", "any", true, res, err)
		for _, v := range sub.viols {
			v.Detail = "single-CID batch: " + v.Detail
		}
		o.viols = append(o.viols, sub.viols...)
		for _, l := range sub.vec {
			if strings.Contains(l, "["+c+"]") || strings.HasSuffix(l, "=err") {
				o.vec = append(o.vec, "single:"+l)
			}
		}
	}
	for _, detailed := range []bool{false, true} {
		o.checkList("DirectKeys", detailed, p.DirectKeys(ctx, detailed), "direct")
		o.checkList("RecursiveKeys", detailed, p.RecursiveKeys(ctx, detailed), "recursive")
	}
	return strings.Join(o.vec, "\n"), o.viols
}

// modelEntry is the answer the model gives for c in an Any-mode batch check.
func (o *observer) modelEntry(c string) ipfspinner.Pinned {
	m := o.m
	e := ipfspinner.Pinned{Key: o.f.cids[c], Mode: ipfspinner.NotPinned}
	switch {
	case m.rec(c):
		e.Mode, e.Name = ipfspinner.Recursive, m.pins[c].Name
	case m.dir(c):
		e.Mode, e.Name = ipfspinner.Direct, m.pins[c].Name
	case m.ind(c):
		e.Mode, e.Via = ipfspinner.Indirect, o.f.cids[m.via(c)[0]]
	}
	return e
}
