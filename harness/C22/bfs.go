//go:build verif

package main

// Local level-synchronous, process-sharded variant of eng.ExploreSeq (same
// semantics: BFS over operation sequences, every successor produced by replay
// on a fresh instance, dedup on Sys.Key(), Check() after every transition,
// smallest path kept per state). The parent keeps the frontier and the seen
// set; each level's frontier is cut into chunks that are expanded by child
// processes (see shard.go for why: GOMAXPROCS=1 children are much faster for
// goroutine/channel-heavy code under test). Replay records have the same JSON
// shape as eng's ({"config","ops"}), so eng.ReplaySeq replays them.

import (
	"crypto/sha256"
	"encoding/hex"
	"encoding/json"
	"fmt"
	"os"
	"path/filepath"
	"runtime"
	"sort"
	"strings"

	"github.com/ipfs/boxo/verifshim/eng"
)

type seqRep struct {
	Config string   `json:"config"`
	Ops    []string `json:"ops"`
}

type bfsSucc struct {
	Key  string   `json:"k"`
	Path []string `json:"p"`
}

type bfsOut struct {
	Succs    []bfsSucc `json:"succs"`
	Outcomes []string  `json:"outcomes"`
}

func hashKey(k string) string {
	if k == "" {
		return ""
	}
	h := sha256.Sum256([]byte(k))
	return hex.EncodeToString(h[:16])
}

func opWord(op string) string {
	if i := strings.IndexAny(op, "( "); i > 0 {
		return op[:i]
	}
	return op
}

// opClass: the operation without its CID arguments (for outcome counting).
func opClass(op string) string {
	f := strings.Fields(op)
	out := []string{}
	for _, w := range f {
		switch w {
		case "R1", "R2", "M", "LM", "L1", "L2", "A1", "Z", "-", "x", "y":
		default:
			out = append(out, w)
		}
	}
	return strings.Join(out, " ")
}

func runSeqPath(spec *eng.SeqSpec, cfg string, path []string) (s eng.Sys, obs []string, v *eng.Violation) {
	s = spec.New(cfg)
	for i, op := range path {
		var o string
		var vv *eng.Violation
		if pv := eng.Guard(op, func() { o, vv = s.Do(op) }); pv != nil {
			vv = pv
		}
		obs = append(obs, o)
		if vv != nil {
			if vv.Op == "" {
				vv.Op = opWord(op)
			}
			vv.Replay = seqRep{cfg, path[:i+1]}
			return s, obs, vv
		}
	}
	return s, obs, nil
}

func lessPath(a, b []string) bool {
	if len(a) != len(b) {
		return len(a) < len(b)
	}
	for i := range a {
		if a[i] != b[i] {
			return a[i] < b[i]
		}
	}
	return false
}

// bfsExpandUnit is the child side: expand every path of infile by every enabled op.
func bfsExpandUnit(r *eng.Run, spec eng.SeqSpec, cfg, infile, outfile string) {
	var paths [][]string
	b, err := os.ReadFile(infile)
	must(err)
	must(json.Unmarshal(b, &paths))
	out := bfsOut{}
	outcomes := map[string]bool{}
	trans := 0
	for i, n := range paths {
		if r.Expired() {
			r.Incomplete(fmt.Sprintf("budget expired: config %q, chunk stopped after %d of %d frontier states at depth %d", cfg, i, len(paths), len(n)+1))
			break
		}
		s0, _, v0 := runSeqPath(&spec, cfg, n)
		if v0 != nil {
			s0.Close()
			continue
		}
		ops := s0.Ops()
		s0.Close()
		for _, op := range ops {
			p := append(append(make([]string, 0, len(n)+1), n...), op)
			s, obs, v := runSeqPath(&spec, cfg, p)
			trans++
			outcomes[opClass(op)+"=>"+obs[len(obs)-1]] = true
			if v != nil {
				r.Report(v)
				s.Close()
				continue
			}
			key := ""
			if pv := eng.Guard("key", func() { key = s.Key() }); pv != nil {
				pv.Replay = seqRep{cfg, p}
				r.Report(pv)
				s.Close()
				continue
			}
			var cv *eng.Violation
			if pv := eng.Guard("check", func() { cv = s.Check() }); pv != nil {
				cv = pv
			}
			s.Close()
			if cv != nil {
				if cv.Op == "" {
					cv.Op = opWord(op)
				}
				cv.Replay = seqRep{cfg, p}
				r.Report(cv)
				continue
			}
			if len(p) >= 2 {
				r.Distinct(cfg + "\x00" + strings.Join(p, "\x00"))
			}
			out.Succs = append(out.Succs, bfsSucc{hashKey(key), p})
		}
	}
	for o := range outcomes {
		out.Outcomes = append(out.Outcomes, o)
	}
	r.Set("unit_kind", "bfs")
	r.Set("unit_transitions", trans)
	ob, _ := json.Marshal(out)
	must(os.WriteFile(outfile, ob, 0o644))
}

// exploreSharded is the parent side. Depth-major: all configurations are
// taken to depth d before any goes to depth d+1, so a budget cut leaves every
// configuration explored to (nearly) the same depth.
func exploreSharded(r *eng.Run, spec eng.SeqSpec) {
	tmp, err := os.MkdirTemp("", "bfs-")
	must(err)
	defer os.RemoveAll(tmp)
	totalStates := 0
	type cfgState struct {
		seen     map[string]bool
		frontier [][]string
		done     int
		stopped  bool
	}
	cs := map[string]*cfgState{}
	for _, cfg := range spec.Configs {
		st := &cfgState{seen: map[string]bool{}, frontier: [][]string{{}}}
		cs[cfg] = st
		s := spec.New(cfg)
		if k := s.Key(); k != "" {
			st.seen[hashKey(k)] = true
		}
		var v *eng.Violation
		if pv := eng.Guard("init", func() { v = s.Check() }); pv != nil {
			v = pv
		}
		if v != nil {
			v.Replay = seqRep{cfg, nil}
			r.Report(v)
		}
		s.Close()
		totalStates++
	}
	for depth := 1; depth <= spec.Depth; depth++ {
		for ci, cfg := range spec.Configs {
			st := cs[cfg]
			if st.stopped || len(st.frontier) == 0 {
				continue
			}
			frontier := st.frontier
			if r.Expired() {
				r.Incomplete(fmt.Sprintf("budget expired: config %q completed to depth %d", cfg, st.done))
				st.stopped = true
				continue
			}
			// a child process costs ~1 CPU-second to start: few chunks for small frontiers
			nchunks := len(frontier) / 4
			if nchunks < 1 {
				nchunks = 1
			}
			if nchunks > 3*runtime.NumCPU() {
				nchunks = 3 * runtime.NumCPU()
			}
			units := []string{}
			outs := []string{}
			for c := 0; c < nchunks; c++ {
				var chunk [][]string
				for i := c; i < len(frontier); i += nchunks {
					chunk = append(chunk, frontier[i])
				}
				in := filepath.Join(tmp, fmt.Sprintf("c%d-d%d-%d.in", ci, depth, c))
				out := filepath.Join(tmp, fmt.Sprintf("c%d-d%d-%d.out", ci, depth, c))
				b, _ := json.Marshal(chunk)
				must(os.WriteFile(in, b, 0o644))
				units = append(units, "bfs|"+cfg+"|"+in+"|"+out)
				outs = append(outs, out)
			}
			runUnits(r, units)
			var succs []bfsSucc
			complete := true
			for _, of := range outs {
				b, err := os.ReadFile(of)
				if err != nil {
					complete = false
					continue
				}
				var o bfsOut
				must(json.Unmarshal(b, &o))
				succs = append(succs, o.Succs...)
				for _, oc := range o.Outcomes {
					r.Outcome(oc)
				}
				os.Remove(of)
			}
			if !complete || r.Expired() {
				r.Incomplete(fmt.Sprintf("config %q: depth %d not completed (completed to depth %d)", cfg, depth, st.done))
				st.stopped = true
				continue
			}
			sort.Slice(succs, func(a, b int) bool { return lessPath(succs[a].Path, succs[b].Path) })
			next := [][]string{}
			for _, sc := range succs {
				if sc.Key != "" {
					if st.seen[sc.Key] {
						continue
					}
					st.seen[sc.Key] = true
				}
				totalStates++
				next = append(next, sc.Path)
			}
			st.done = depth
			if len(next) > 0 {
				r.Sample(map[string]any{"config": cfg, "ops": next[len(next)/2]})
			}
			if spec.MaxStates > 0 && len(next) > spec.MaxStates && depth < spec.Depth {
				eng.Shuffle(r, next)
				r.Incomplete(fmt.Sprintf("config %q: frontier at depth %d capped %d -> %d (all sequences to depth %d covered)", cfg, depth, len(next), spec.MaxStates, depth))
				next = next[:spec.MaxStates]
			}
			r.Logf("config %s depth %d: %d successors, %d new states", cfg, depth, len(succs), len(next))
			st.frontier = next
		}
	}
	depthDone := map[string]any{}
	for cfg, st := range cs {
		if len(st.frontier) == 0 && !st.stopped {
			depthDone[cfg] = fmt.Sprintf("%d (state space closed)", st.done)
		} else {
			depthDone[cfg] = st.done
		}
	}
	r.States(totalStates)
	r.Set("depth_bound", spec.Depth)
	r.Set("depth_completed_per_config", depthDone)
	r.Set("configs", len(spec.Configs))
}
