//go:build verif

// C22: dspinner follows the pin model; failed calls change nothing.
package main

import (
	"encoding/json"
	"strings"

	"github.com/ipfs/boxo/verifshim/eng"
)

func spec(r *eng.Run) eng.SeqSpec {
	cfgs := []string{"miss=none,auto=1", "miss=L1,auto=1"}
	if r.Thorough() {
		cfgs = append(cfgs, "miss=none,auto=0", "miss=LM,auto=1")
	}
	return eng.SeqSpec{Configs: cfgs, New: func(c string) eng.Sys { return newSys(r, c) }, Depth: eng.Pick(r, 3, 6)}
}

type replayProbe struct {
	Kind string `json:"kind"`
	Unit string `json:"unit"`
}

func runUnit(r *eng.Run, u string) {
	f := strings.Split(u, "|")
	switch f[0] {
	case "bfs":
		bfsExpandUnit(r, spec(r), f[1], f[2], f[3])
	default:
		panic("unknown unit " + u)
	}
}

func main() {
	eng.Main("C22", "model_checking", func(r *eng.Run) {
		if u := shardUnit(); u != "" {
			runUnit(r, u)
			return
		}
		r.Rule("BFS over sequences of Pin/PinWithMode/Unpin/Update/Flush (names, every mode incl. invalid ones, cancelled contexts) on the real dspinner over the DAG R1->{M,L1} R2->{M,L2} M->{LM} + CIDv1 alias of L1 + an unknown CID, per configuration (a block missing from the block store or not, autosync on/off); successor = replay on a fresh pinner + 1 op; state = canonical dump of the pinner's datastore (random pin ids canonicalised) + blocks present; a path is non-trivial when it has >= 2 operations. After every transition IsPinned, IsPinnedWithType x 7 modes, CheckIfPinned, CheckIfPinnedWithType x 7 modes x names on/off (full batch and single-CID batches), DirectKeys/RecursiveKeys (plain and detailed) of all 8 CIDs are compared with the pin model; after a call that returned an error and wrote pin state, the full observation vector is compared with the one of the state before the call.")
		r.Assume("block store, block service, DAG service and MapDatastore are correct; the blocks are honest")
		r.Assume("a call that the pin model allows and that meets no fault must succeed; a call that returns nil although the pin model does not allow it (e.g. invalid mode) must change nothing")
		r.Assume("the statement fixes no precedence between direct and indirect: either answer is accepted for a CID that is both; an error from a query that has to walk a DAG with a missing block is accepted")
		exploreSharded(r, spec(r))
	}, func(r *eng.Run, raw json.RawMessage) {
		var p replayProbe
		json.Unmarshal(raw, &p)
		if p.Kind == "unit" {
			runUnit(r, p.Unit)
			return
		}
		eng.ReplaySeq(r, spec(r), raw)
	})
}
