//go:build verif

package main

import (
	"context"
	"sync"

	ds "github.com/ipfs/go-datastore"
	dsq "github.com/ipfs/go-datastore/query"
)

// trigDS sits between the pinner and its datastore and cancels the context of
// the running operation at the start of the k-th datastore call of that
// operation (fault "cancel-mid-op@k"; deterministic: context cancellation
// propagates synchronously to derived contexts).
type trigDS struct {
	mu     sync.Mutex
	inner  ds.Batching
	k      int // 0 = disarmed
	count  int
	fired  bool
	cancel context.CancelFunc
}

func (t *trigDS) arm(k int, cancel context.CancelFunc) {
	t.mu.Lock()
	t.k, t.count, t.fired, t.cancel = k, 0, false, cancel
	t.mu.Unlock()
}

func (t *trigDS) disarm() (fired bool) {
	t.mu.Lock()
	defer t.mu.Unlock()
	t.k = 0
	return t.fired
}

func (t *trigDS) tick() {
	t.mu.Lock()
	if t.k > 0 {
		t.count++
		if t.count == t.k {
			t.fired = true
			t.cancel()
		}
	}
	t.mu.Unlock()
}

func (t *trigDS) Get(ctx context.Context, key ds.Key) ([]byte, error) { t.tick(); return t.inner.Get(ctx, key) }
func (t *trigDS) Has(ctx context.Context, key ds.Key) (bool, error)   { t.tick(); return t.inner.Has(ctx, key) }
func (t *trigDS) GetSize(ctx context.Context, key ds.Key) (int, error) {
	t.tick()
	return t.inner.GetSize(ctx, key)
}
func (t *trigDS) Query(ctx context.Context, q dsq.Query) (dsq.Results, error) {
	t.tick()
	return t.inner.Query(ctx, q)
}
func (t *trigDS) Put(ctx context.Context, key ds.Key, v []byte) error { t.tick(); return t.inner.Put(ctx, key, v) }
func (t *trigDS) Delete(ctx context.Context, key ds.Key) error        { t.tick(); return t.inner.Delete(ctx, key) }
func (t *trigDS) Sync(ctx context.Context, p ds.Key) error            { t.tick(); return t.inner.Sync(ctx, p) }
func (t *trigDS) Close() error                                        { return nil }
func (t *trigDS) Batch(ctx context.Context) (ds.Batch, error)         { t.tick(); return t.inner.Batch(ctx) }
