//go:build verif

package main

import (
	"context"
	"fmt"
	"strconv"
	"strings"

	ipfspinner "github.com/ipfs/boxo/pinning/pinner"
	"github.com/ipfs/boxo/verifshim/eng"
)

// config: "miss=<CID name|none>,auto=<0|1>"
type sys struct {
	r       *eng.Run
	cfg     string
	f       *fixture
	p       pinnerT
	trig    *trigDS
	m       *model
	path    []string
	auto    bool
	lastOp  string
	lastErr error
	lastFlt string // fault class of the last op
	lastTgt string // model pin state of the target CID before the last op
	rawPre  string // canonical raw pin state before the last op (dirty flag excluded)
	thorough bool
}

func cfgVal(cfg, k string) string {
	for _, kv := range strings.Split(cfg, ",") {
		if strings.HasPrefix(kv, k+"=") {
			return kv[len(k)+1:]
		}
	}
	return ""
}

func newSys(r *eng.Run, cfg string) *sys {
	s := &sys{r: r, cfg: cfg, m: newModel(), thorough: r != nil && r.Thorough()}
	var missing []string
	if m := cfgVal(cfg, "miss"); m != "none" && m != "" {
		missing = strings.Split(m, "+")
	}
	s.f = newFixture(missing)
	s.trig = &trigDS{inner: s.f.pinDS}
	p, err := openPinner(s.trig, s.f.dserv)
	must(err)
	s.p = p
	s.auto = cfgVal(cfg, "auto") != "0"
	if !s.auto {
		p.SetAutosync(false)
	}
	return s
}

var pinNames = []string{"-", "x", "y"}

func (s *sys) Ops() []string {
	ops := []string{}
	if !s.thorough {
		// quick: reduced alphabet (two names, fewer targets)
		for _, c := range []string{"R1", "M", "R2", "L1", "A1"} {
			names := pinNames[:1]
			if c == "R1" || c == "M" {
				names = pinNames[:2]
			}
			for _, mode := range []string{"rec", "dir"} {
				for _, n := range names {
					ops = append(ops, fmt.Sprintf("Pin %s %s %s", c, mode, n))
				}
			}
		}
		ops = append(ops, "PinMode R1 rec y", "PinMode M dir y", "PinMode A1 rec y", "PinMode R1 indirect x", "PinMode R1 bad x")
		for _, c := range []string{"R1", "M", "L1", "Z"} {
			ops = append(ops, "Unpin "+c+" rec", "Unpin "+c+" nonrec")
		}
		ops = append(ops, "Unpin R2 rec", "Unpin A1 rec")
		for _, from := range []string{"R1", "M"} {
			for _, to := range []string{"R1", "R2", "M", "L1"} {
				ops = append(ops, fmt.Sprintf("Update %s %s unpin", from, to), fmt.Sprintf("Update %s %s keep", from, to))
			}
		}
		ops = append(ops, "Update Z R1 unpin")
		if !s.auto {
			ops = append(ops, "Flush")
		}
		ops = append(ops, "Pin R1 rec x !ctx", "Unpin R1 rec !ctx", "Update R1 R2 unpin !ctx")
		for k := 2; k <= 12; k += 2 {
			ops = append(ops, fmt.Sprintf("Pin R1 rec y !cancel@%d", k))
		}
		for k := 1; k <= 8; k++ {
			ops = append(ops, fmt.Sprintf("Update R1 R2 unpin !cancel@%d", k))
		}
		return ops
	}
	// Pin(node, recursive, name)
	for _, c := range []string{"R1", "M", "R2", "L1", "A1"} {
		names := pinNames
		if c != "R1" && c != "M" {
			names = pinNames[:2]
		}
		for _, mode := range []string{"rec", "dir"} {
			for _, n := range names {
				ops = append(ops, fmt.Sprintf("Pin %s %s %s", c, mode, n))
			}
		}
	}
	// PinWithMode: valid modes (no fetch) and every other mode
	for _, c := range []string{"R1", "M", "A1"} {
		for _, mode := range []string{"rec", "dir"} {
			ops = append(ops, fmt.Sprintf("PinMode %s %s y", c, mode))
		}
	}
	for _, mode := range []string{"indirect", "internal", "notpinned", "any", "bad"} {
		ops = append(ops, fmt.Sprintf("PinMode R1 %s x", mode))
	}
	for _, c := range []string{"R1", "R2", "M", "L1", "A1", "Z"} {
		ops = append(ops, "Unpin "+c+" rec", "Unpin "+c+" nonrec")
	}
	for _, from := range []string{"R1", "M", "L1"} {
		for _, to := range []string{"R1", "R2", "M", "L1"} {
			ops = append(ops, fmt.Sprintf("Update %s %s unpin", from, to), fmt.Sprintf("Update %s %s keep", from, to))
		}
	}
	ops = append(ops, "Update Z R1 unpin", "Update R2 Z keep")
	if !s.auto {
		ops = append(ops, "Flush")
	}
	// the same calls with an already cancelled context
	ops = append(ops, "Pin R1 rec x !ctx", "Pin M dir x !ctx", "PinMode R1 rec x !ctx", "Unpin R1 rec !ctx", "Unpin M rec !ctx", "Update R1 R2 unpin !ctx")
	// the context is cancelled at the start of the k-th datastore call of the operation
	for _, base := range []string{"Pin R1 rec y", "Pin M rec y", "Update R1 R2 unpin"} {
		for k := 1; k <= 16; k++ {
			ops = append(ops, fmt.Sprintf("%s !cancel@%d", base, k))
		}
	}
	return ops
}

var modeByWord = map[string]ipfspinner.Mode{"rec": ipfspinner.Recursive, "dir": ipfspinner.Direct, "indirect": ipfspinner.Indirect,
	"internal": ipfspinner.Internal, "notpinned": ipfspinner.NotPinned, "any": ipfspinner.Any, "bad": ipfspinner.Mode(99)}

func pinName(w string) string {
	if w == "-" {
		return ""
	}
	return w
}

func (s *sys) modelState(c string) string {
	if p, ok := s.m.pins[c]; ok {
		return p.Mode
	}
	return "-"
}

func (s *sys) rawNoDirty() string {
	st := s.f.dumpRaw(s.f.rawPin)
	st.Dirty = ""
	return st.canon()
}

// Do executes one operation. Rules taken from the statement only:
//   - the call returned an error  => the model does not change;
//   - the call returned nil       => the model changes as the pin model says
//     (a call the pin model does not allow, e.g. direct pin of a recursively
//     pinned CID or an invalid mode, changes nothing if it returns nil);
//   - a call that the pin model allows and that meets no fault (all needed
//     blocks present, live context) must succeed.
func (s *sys) Do(op string) (string, *eng.Violation) {
	s.path = append(s.path, op)
	fl := strings.Fields(op)
	ctx := context.Background()
	cancelled := fl[len(fl)-1] == "!ctx"
	if cancelled {
		c, cancel := context.WithCancel(ctx)
		cancel()
		ctx = c
		fl = fl[:len(fl)-1]
	}
	midCancel := false
	if last := fl[len(fl)-1]; strings.HasPrefix(last, "!cancel@") {
		// cancel the context at the start of the k-th datastore call of this operation
		k, err := strconv.Atoi(strings.TrimPrefix(last, "!cancel@"))
		must(err)
		c, cancel := context.WithCancel(ctx)
		defer cancel()
		ctx = c
		s.trig.arm(k, cancel)
		midCancel = true
		fl = fl[:len(fl)-1]
	}
	f, m := s.f, s.m
	s.rawPre = s.rawNoDirty()
	var err error
	allowed := true       // the pin model allows the call
	fault := "none"       // environment fault that may make it fail
	apply := func() {}    // effect on the model if the call returns nil and is allowed
	target := ""
	if len(fl) > 1 {
		target = fl[1]
	}
	switch fl[0] {
	case "Pin", "PinMode":
		c, mode, name := fl[1], fl[2], pinName(fl[3])
		switch mode {
		case "rec":
			apply = func() { m.pins[c] = pinRec{Mode: "R", Name: name} }
			if fl[0] == "Pin" {
				blockRoot := c
				if c == "A1" {
					blockRoot = "L1"
				}
				if !f.closureComplete(blockRoot, false) {
					fault = "missing-block"
				}
			}
		case "dir":
			if m.rec(c) {
				allowed = false // recursive supersedes direct
			}
			apply = func() { m.pins[c] = pinRec{Mode: "D", Name: name} }
		default:
			allowed = false
		}
		if fl[0] == "Pin" {
			err = s.p.Pin(ctx, f.nodes[c], mode == "rec", name)
		} else {
			err = s.p.PinWithMode(ctx, f.cids[c], modeByWord[mode], name)
		}
	case "Unpin":
		c, recursive := fl[1], fl[2] == "rec"
		switch {
		case m.dir(c), m.rec(c) && recursive:
			apply = func() { delete(m.pins, c) }
		default:
			allowed = false // not pinned, only indirectly pinned, or recursive pin without the recursive flag
		}
		err = s.p.Unpin(ctx, f.cids[c], recursive)
	case "Update":
		from, to, unpin := fl[1], fl[2], fl[3] == "unpin"
		target = from
		switch {
		case !m.rec(from):
			allowed = false
		case from == to:
			// nothing to do
		case m.rec(to):
			allowed = false
		default:
			name := m.pins[from].Name
			apply = func() {
				m.pins[to] = pinRec{Mode: "R", Name: name, AnyName: true} // recursive supersedes a direct pin of `to`
				if unpin {
					delete(m.pins, from)
				}
			}
			if !f.closureComplete(from, true) || !f.closureComplete(to, true) {
				fault = "missing-block"
			}
		}
		err = s.p.Update(ctx, f.cids[from], f.cids[to], unpin)
	case "Flush":
		err = s.p.Flush(ctx)
	default:
		panic("unknown op " + op)
	}
	if cancelled {
		fault = "cancelled-ctx"
	}
	if midCancel {
		if s.trig.disarm() {
			fault = "cancel-mid-op"
			if s.r != nil {
				s.r.Add("mid_op_cancellations_fired", 1)
			}
		} // else: the operation made fewer datastore calls; it ran without a fault
	}
	s.lastOp, s.lastErr, s.lastFlt, s.lastTgt = fl[0], err, fault, s.modelState(target)
	if err != nil {
		cls := "err"
		if !allowed {
			cls = "err(not-allowed)"
		} else if fault != "none" {
			cls = "err(" + fault + ")"
		}
		if allowed && fault == "none" {
			return cls, eng.V("unexpected-error", fl[0], fmt.Sprintf("%s returned %v although the pin model allows it and no fault is present; model %s blocks present {%s}", op, err, m, f.presentSet()),
				"target_state", s.lastTgt)
		}
		return cls, nil
	}
	if allowed {
		apply()
	}
	if !allowed {
		return "ok(not-allowed)", nil
	}
	return "ok", nil
}

// Key: canonical persisted pin state (ids canonicalised) + blocks present.
// The pinner keeps no other state that influences pin queries (its dirty/clean
// counters only decide whether the dirty flag is rewritten).
func (s *sys) Key() string {
	return "K:" + s.f.dumpRaw(s.f.rawPin).canon() + "|blocks=" + s.f.presentSet()
}

func (s *sys) replayInfo() map[string]any {
	return map[string]any{"config": s.cfg, "ops": append([]string{}, s.path...)}
}

// Check compares the full observation vector with the model. Query
// mismatches are reported here (all of them, so that a known one does not
// hide another) and exploration continues; only a failed operation that
// changed the answers is returned (the model and the implementation have
// diverged, so nothing below this state is meaningful).
func (s *sys) Check() *eng.Violation {
	raw := s.f.dumpRaw(s.f.rawPin)
	vec, viols := observe(s.f, s.p, s.m, raw)
	if s.lastErr != nil {
		post := *raw
		post.Dirty = ""
		if post.canon() != s.rawPre {
			// the failed call wrote pin state: did it change any query answer? (exact check of the
			// statement's last sentence: compare with the observation vector of the state before the call)
			pre := newSys(s.r, s.cfg)
			for _, op := range s.path[:len(s.path)-1] {
				pre.Do(op)
			}
			preVec, _ := observe(pre.f, pre.p, pre.m, pre.f.dumpRaw(pre.f.rawPin))
			pre.Close()
			if preVec != vec {
				return eng.V("failed-op-changed-queries", s.lastOp,
					fmt.Sprintf("%s returned error %q but pin queries changed.\nfirst differing answers (before -> after):\n%s\nmodel %s", s.path[len(s.path)-1], s.lastErr, vecDiff(preVec, vec, 6), s.m),
					"fault", s.lastFlt, "target_state", s.lastTgt)
			}
		}
	}
	for _, v := range viols {
		v.Replay = s.replayInfo()
		if s.r != nil {
			s.r.Report(v)
		}
	}
	return nil
}

func vecDiff(a, b string, max int) string {
	la, lb := strings.Split(a, "\n"), strings.Split(b, "\n")
	out := []string{}
	for i := 0; i < len(la) && i < len(lb) && len(out) < max; i++ {
		if la[i] != lb[i] {
			out = append(out, "  "+la[i]+"  ->  "+lb[i])
		}
	}
	if len(la) != len(lb) {
		out = append(out, fmt.Sprintf("  (vector length %d -> %d)", len(la), len(lb)))
	}
	return strings.Join(out, "\n")
}

func (s *sys) Close() {
	if s.p != nil {
		s.p.Close()
	}
}
