//go:build verif

// C23: pin state survives crashes consistently (fault enumeration over the
// pinner's datastore write log).
package main

import (
	"encoding/json"
	"fmt"
	"sort"
	"strconv"
	"strings"

	"github.com/ipfs/boxo/verifshim/eng"
)

func alphabet(thorough bool) []string {
	a := []string{
		"Pin R1 rec x", "Pin R1 rec y", "Pin R1 dir x", "Pin R1 dir -",
		"Pin M rec -", "Pin M dir x", "Pin M dir y", "Pin L1 dir -",
		"Unpin R1 rec", "Unpin M rec",
		"Update R1 R2 unpin", "Update R1 R2 keep", "Update R1 M keep", "Update M R1 unpin",
		"Flush",
	}
	if thorough {
		a = append(a, "PinMode R2 rec x", "Unpin R2 rec", "Unpin L1 nonrec", "Auto off", "Auto on")
	}
	return a
}

// configuration with >= 50 pin records before the history: short histories over a small alphabet
var manyAlphabet = []string{"Pin R1 rec x", "Pin R1 rec y", "Pin R1 dir x", "Unpin R1 rec", "Update R1 R2 unpin"}

const manyConfig = "miss=none,auto=1,many=51"

func configs(thorough bool) []string {
	c := []string{"miss=none,auto=1", "miss=none,auto=0"}
	if thorough {
		c = append(c, "miss=L1,auto=1")
	}
	return c
}

func maxLen(r *eng.Run) int { return eng.Pick(r, 3, 4) }

type crashReplay struct {
	Kind   string   `json:"kind"`
	Config string   `json:"config"`
	Ops    []string `json:"ops"`
	Write  int      `json:"crash_after_write"`
	Drop   []int    `json:"dropped_unsynced_writes,omitempty"`
}

type enumState struct {
	r     *eng.Run
	cfg   string
	cache map[string]*imageVerdict
	torn  bool
	gens  int // crash generations explored inside recovery runs (0 = none)
	// counters
	evals, cacheHits, dirtyImages, repairedImages, unstable int
	tornEvals, tornFailing                                   int
	recoveryImages, recoveryFailing                          int
	tornSample                                               string
	histories, failedOps                                     int
}

func writeClass(e logEntry) string { return e.Kind + ":" + keyClass(e.Key) }

// verdictFor evaluates (or fetches) the verdict of an image. gens = how many
// further crash generations (crashes inside the recovery run) are explored.
func (es *enumState) verdictFor(h *history, img map[string][]byte, required map[string]bool) *imageVerdict {
	return es.verdictGen(h, img, required, es.gens)
}

func (es *enumState) verdictGen(h *history, img map[string][]byte, required map[string]bool, gens int) *imageVerdict {
	canon := fmt.Sprintf("%s|req=%s|g=%d", h.f.dumpRaw(imageDS(img)).canon(), setStr(required), gens)
	if v, ok := es.cache[canon]; ok {
		es.cacheHits++
		return v
	}
	v := evalImage(h.f, img, required, gens, func(sub map[string][]byte, g int) *imageVerdict {
		return es.verdictGen(h, sub, required, g)
	})
	es.cache[canon] = v
	return v
}

// imageWithout replays the write log up to write j, skipping the writes in drop.
func imageWithout(rec *recorder, j int, drop map[int]bool) map[string][]byte {
	img := map[string][]byte{}
	for w := 1; w <= j; w++ {
		if drop[w] {
			continue
		}
		e := rec.log[rec.writeAt[w]]
		if e.Kind == "put" {
			img[e.Key] = e.Value
		} else {
			delete(img, e.Key)
		}
	}
	return img
}

// unsynced lists the writes <= j that no later Sync (before the crash) covers.
func unsynced(rec *recorder, j int) []int {
	out := []int{}
	end := rec.writeAt[j]
	for w := 1; w <= j; w++ {
		e := rec.log[rec.writeAt[w]]
		covered := false
		for li := rec.writeAt[w] + 1; li <= end; li++ {
			s := rec.log[li]
			if s.Kind == "sync" && (s.Key == "/" || e.Key == s.Key || strings.HasPrefix(e.Key, s.Key+"/")) {
				covered = true
				break
			}
		}
		if !covered {
			out = append(out, w)
		}
	}
	return out
}

// checkLastOp enumerates every crash point inside the last operation of h.
func (es *enumState) checkLastOp(h *history) {
	r := es.r
	sp := h.spans[len(h.spans)-1]
	required := map[string]bool{}
	for c := range sp.PinnedBefore {
		if sp.PinnedAfter[c] {
			required[c] = true
		}
	}
	opw := strings.Fields(sp.Op)[0]
	target := opTarget(sp.Op)
	for j := sp.Start + 1; j <= sp.End; j++ {
		v := es.verdictFor(h, h.rec.images[j], required)
		es.evals++
		last := h.rec.log[h.rec.writeAt[j]]
		if v.dirty == "01" {
			es.dirtyImages++
		}
		if v.repaired {
			es.repairedImages++
		}
		if v.unstable {
			es.unstable++
		}
		es.recoveryImages += v.nextGenImages
		es.recoveryFailing += v.nextGenFailing
		syms := []string{}
		for _, tv := range v.viols {
			syms = append(syms, tv.Symptom)
			vv := *tv
			vv.Op = opw
			vv.Features = map[string]string{}
			for k, x := range tv.Features {
				vv.Features[k] = x
			}
			vv.Features["last_write"] = writeClass(last)
			vv.Features["pin_records_ge_50"] = fmt.Sprint(v.records >= 50)
			// is the crash point between the delete of an old pin record and the put of a new one, within this operation?
			window := false
			for w := sp.Start + 1; w <= j; w++ {
				switch writeClass(h.rec.log[h.rec.writeAt[w]]) {
				case "delete:record":
					window = true
				case "put:record":
					window = false
				}
			}
			vv.Features["old_record_deleted_new_not_written"] = fmt.Sprint(window)
			vv.Features["target_pinned_before"] = fmt.Sprint(sp.PinnedBefore[target])
			if lost, ok := tv.Features["lost"]; ok {
				vv.Features["lost_is_target"] = fmt.Sprint(lost == target)
				delete(vv.Features, "lost")
			}
			vv.Detail = fmt.Sprintf("history %v (config %s), crash after write %d of the run = write %d of %d of %q (%s %s); pinned before the op {%s}, after the complete op {%s}; image before reopen: %s\n%s",
				h.ops, h.cfg, j, j-sp.Start, sp.End-sp.Start, sp.Op, last.Kind, last.Key, setStr(sp.PinnedBefore), setStr(sp.PinnedAfter), v.preCanon, tv.Detail)
			vv.Replay = crashReplay{"crash", h.cfg, h.ops, j, nil}
			r.Report(&vv)
		}
		sort.Strings(syms)
		r.Outcome(fmt.Sprintf("dirty=%s repaired=%v viol=%s", v.dirty, v.repaired, strings.Join(syms, "+")))
		if j < sp.End {
			r.Distinct(v.preCanon) // a crash strictly inside an operation
		}
		if !es.torn {
			continue
		}
		// beyond the statement: images in which unsynced writes are lost out of order
		u := unsynced(h.rec, j)
		var subsets [][]int
		if len(u) <= 5 {
			for mask := 1; mask < 1<<len(u); mask++ {
				var s []int
				for b := range u {
					if mask&(1<<b) != 0 {
						s = append(s, u[b])
					}
				}
				subsets = append(subsets, s)
			}
		} else {
			for _, w := range u {
				subsets = append(subsets, []int{w})
			}
		}
		for _, s := range subsets {
			drop := map[int]bool{}
			for _, w := range s {
				drop[w] = true
			}
			tv := es.verdictGen(h, imageWithout(h.rec, j, drop), required, 0)
			es.tornEvals++
			if len(tv.viols) > 0 {
				es.tornFailing++
				if es.tornSample == "" {
					es.tornSample = fmt.Sprintf("history %v config %s crash after write %d with unsynced writes %v lost: %s: %s", h.ops, h.cfg, j, s, tv.viols[0].Symptom, tv.viols[0].Detail)
				}
			}
		}
	}
}

// enumerate runs every history that starts with ops[first] (length 1..maxLen).
func (es *enumState) enumerate(alpha []string, prefix []string, maxLen int) {
	r := es.r
	if r.Expired() {
		r.Incomplete(fmt.Sprintf("budget expired in config %s at history %v", es.cfg, prefix))
		return
	}
	h, err := runHistory(es.cfg, prefix)
	if err != nil {
		r.Report(&eng.Violation{Symptom: "history-failed", Detail: fmt.Sprintf("history %v: %v", prefix, err), Replay: crashReplay{"crash", es.cfg, prefix, 0, nil}})
		return
	}
	es.histories++
	if h.spans[len(h.spans)-1].Err != nil {
		es.failedOps++
	}
	if h.rec.batches > 0 {
		r.Add("batch_commits", h.rec.batches)
	}
	es.checkLastOp(h)
	if len(prefix) == 1 {
		r.Sample(map[string]any{"config": es.cfg, "ops": prefix, "writes": h.rec.writes()})
	}
	if len(prefix) >= maxLen {
		return
	}
	for _, op := range alpha {
		es.enumerate(alpha, append(append([]string{}, prefix...), op), maxLen)
	}
}

func runUnit(r *eng.Run, u string) {
	f := strings.Split(u, "|")
	if f[0] != "hist" {
		panic("unknown unit " + u)
	}
	first, _ := strconv.Atoi(f[2])
	alpha := alphabet(r.Thorough())
	// out-of-order loss images only where the pinner syncs at all (autosync on)
	es := &enumState{r: r, cfg: f[1], cache: map[string]*imageVerdict{}, torn: cfgVal(f[1], "auto") != "0", gens: eng.Pick(r, 1, 2)}
	ml := maxLen(r)
	if cfgVal(f[1], "many") != "" {
		alpha, ml = manyAlphabet, 2
	}
	if cfgVal(f[1], "miss") != "none" && ml > 3 {
		ml = 3 // the missing-block configuration (operations failing half-way) is explored to length 3
	}
	es.enumerate(alpha, []string{alpha[first]}, ml)
	r.Eval(es.evals)
	r.Add("histories", es.histories)
	r.Add("histories_ending_in_failed_op", es.failedOps)
	r.Add("prefix_images", es.evals)
	r.Add("prefix_images_with_dirty_flag_set", es.dirtyImages)
	r.Add("prefix_images_repaired_on_reopen", es.repairedImages)
	r.Add("second_reopen_differs(informational)", es.unstable)
	r.Add("crash_images_inside_recovery_run", es.recoveryImages)
	r.Add("crash_images_inside_recovery_run_failing", es.recoveryFailing)
	r.Add("beyond_statement_unsynced_loss_images", es.tornEvals)
	r.Add("beyond_statement_unsynced_loss_images_failing", es.tornFailing)
	r.Add("batch_commits", 0)
	if es.tornSample != "" {
		r.Set("beyond_statement_unsynced_loss_sample", es.tornSample)
	}
}

func replayCrash(r *eng.Run, raw json.RawMessage) {
	var c crashReplay
	if err := json.Unmarshal(raw, &c); err != nil {
		fmt.Println("bad replay:", err)
		return
	}
	h, err := runHistory(c.Config, c.Ops)
	if err != nil {
		fmt.Println("history failed:", err)
		return
	}
	for i, sp := range h.spans {
		fmt.Printf("  op %d: %-22s err=%v writes %d..%d pinned before {%s} after {%s}\n", i+1, sp.Op, sp.Err, sp.Start+1, sp.End, setStr(sp.PinnedBefore), setStr(sp.PinnedAfter))
	}
	for w := 1; w <= h.rec.writes(); w++ {
		e := h.rec.log[h.rec.writeAt[w]]
		mark := ""
		if w == c.Write {
			mark = "   <== crash after this write"
		}
		fmt.Printf("  write %2d: %-6s %s%s\n", w, e.Kind, e.Key, mark)
	}
	es := &enumState{r: r, cfg: c.Config, cache: map[string]*imageVerdict{}, torn: false, gens: eng.Pick(r, 1, 2)}
	// re-evaluate only the recorded crash point
	sp := &h.spans[len(h.spans)-1]
	if c.Write > sp.Start && c.Write <= sp.End {
		sp.Start, sp.End = c.Write-1, c.Write
	}
	es.checkLastOp(h)
	r.Eval(es.evals)
	if r.ViolationCount() == 0 {
		fmt.Println("  replay: no violation")
	}
}

func main() {
	eng.Main("C23", "fault_enumeration", func(r *eng.Run) {
		if u := shardUnit(); u != "" {
			runUnit(r, u)
			return
		}
		alpha := alphabet(r.Thorough())
		r.Rule(fmt.Sprintf("every operation history of length 1..%d over the alphabet %v (per configuration: autosync on/off, a DAG block missing) is run on the real dspinner over a recording datastore; for every history, every prefix of the write log that ends inside the history's last operation is taken as crash image (crash points in earlier operations belong to the shorter histories, so each (history, write) pair is evaluated once); a fresh MapDatastore is filled with the image, dspinner.New reopens it (dirty-flag recovery), then (i) raw /pins/pin records and /pins/index entries must agree both ways and (ii) every CID that IsPinned reported before the interrupted operation and also after its uninterrupted execution must be reported pinned. A case counts as non-trivial when the crash is strictly inside an operation (distinct canonical images are counted).", maxLen(r), alpha))
		r.Assume("crash model of the statement: Put/Delete are individually durable in call order (prefixes of the write log); Batch.Commit would be key-by-key (basicBatch is not atomic) but the pinner never batches")
		r.Assume("blocks of the DAG are durable and present after the crash (the block store is a separate datastore)")
		r.Assume("images in which unsynced writes are lost out of order (autosync-on configurations only: all subsets of the writes not covered by a Sync when <= 5, single writes otherwise) are evaluated too but are beyond the statement's crash model: their failures are only counted in the evidence (beyond_statement_*), never reported as violations")
		r.Set("alphabet", alpha)
		r.Set("max_history_length", maxLen(r))
		units := []string{}
		for _, cfg := range configs(r.Thorough()) {
			for i := range alpha {
				units = append(units, fmt.Sprintf("hist|%s|%d", cfg, i))
			}
		}
		for i := range manyAlphabet {
			units = append(units, fmt.Sprintf("hist|%s|%d", manyConfig, i))
		}
		r.Set("configs", append(configs(r.Thorough()), manyConfig))
		runUnits(r, units)
	}, func(r *eng.Run, raw json.RawMessage) {
		var p struct {
			Kind string `json:"kind"`
			Unit string `json:"unit"`
		}
		json.Unmarshal(raw, &p)
		if p.Kind == "unit" {
			runUnit(r, p.Unit)
			return
		}
		replayCrash(r, raw)
	})
}
