//go:build verif

package main

import (
	"context"
	"sort"
	"sync"

	ds "github.com/ipfs/go-datastore"
	dsq "github.com/ipfs/go-datastore/query"
)

// recorder wraps the pinner's datastore and records every mutating call.
//
// Write model: Put and Delete are individual durable writes, persisted in call
// order (this is the crash model of the property statement: "stops after any
// individual datastore write"). Batch.Commit is modelled as one write per
// batched key, in key order: go-datastore's MapDatastore.Batch is a basicBatch
// whose Commit applies its operations one by one through Put/Delete and
// promises no atomicity. (dspinner and dsindex never create a batch at the
// pinned commit; the counter batch_commits in the evidence stays 0.)
// Sync calls are recorded as markers (used for the beyond-statement
// "unsynced write lost" images).
type logEntry struct {
	Kind  string // "put" | "delete" | "sync"
	Key   string
	Value []byte
}

type recorder struct {
	mu      sync.Mutex
	inner   *ds.MapDatastore
	log     []logEntry
	images  []map[string][]byte // images[j] = persisted map after the j-th write (j counts put/delete only); images[0] = empty
	writeAt []int               // writeAt[j] = index in log of the j-th write (1-based j; writeAt[0] = -1)
	batches int
}

var _ ds.Batching = (*recorder)(nil)

func newRecorder() *recorder {
	return &recorder{inner: ds.NewMapDatastore(), images: []map[string][]byte{{}}, writeAt: []int{-1}}
}

// newRecorderFrom starts from a persisted image (used to log the writes of the recovery run on reopen).
func newRecorderFrom(img map[string][]byte) *recorder {
	r := newRecorder()
	base := map[string][]byte{}
	for k, v := range img {
		b := append([]byte{}, v...)
		base[k] = b
		r.inner.Put(context.Background(), ds.NewKey(k), b)
	}
	r.images[0] = base
	return r
}

func (r *recorder) snapshot() {
	prev := r.images[len(r.images)-1]
	img := make(map[string][]byte, len(prev)+1)
	for k, v := range prev {
		img[k] = v
	}
	e := r.log[len(r.log)-1]
	if e.Kind == "put" {
		img[e.Key] = e.Value
	} else {
		delete(img, e.Key)
	}
	r.images = append(r.images, img)
	r.writeAt = append(r.writeAt, len(r.log)-1)
}

func (r *recorder) Put(ctx context.Context, key ds.Key, value []byte) error {
	r.mu.Lock()
	defer r.mu.Unlock()
	v := append([]byte{}, value...)
	if err := r.inner.Put(ctx, key, v); err != nil {
		return err
	}
	r.log = append(r.log, logEntry{"put", key.String(), v})
	r.snapshot()
	return nil
}

func (r *recorder) Delete(ctx context.Context, key ds.Key) error {
	r.mu.Lock()
	defer r.mu.Unlock()
	if err := r.inner.Delete(ctx, key); err != nil {
		return err
	}
	r.log = append(r.log, logEntry{"delete", key.String(), nil})
	r.snapshot()
	return nil
}

func (r *recorder) Sync(ctx context.Context, prefix ds.Key) error {
	r.mu.Lock()
	defer r.mu.Unlock()
	r.log = append(r.log, logEntry{"sync", prefix.String(), nil})
	return r.inner.Sync(ctx, prefix)
}

func (r *recorder) Get(ctx context.Context, key ds.Key) ([]byte, error) {
	r.mu.Lock()
	defer r.mu.Unlock()
	return r.inner.Get(ctx, key)
}

func (r *recorder) Has(ctx context.Context, key ds.Key) (bool, error) {
	r.mu.Lock()
	defer r.mu.Unlock()
	return r.inner.Has(ctx, key)
}

func (r *recorder) GetSize(ctx context.Context, key ds.Key) (int, error) {
	r.mu.Lock()
	defer r.mu.Unlock()
	return r.inner.GetSize(ctx, key)
}

func (r *recorder) Query(ctx context.Context, q dsq.Query) (dsq.Results, error) {
	r.mu.Lock()
	defer r.mu.Unlock()
	return r.inner.Query(ctx, q)
}

func (r *recorder) Close() error { return nil }

func (r *recorder) writes() int { return len(r.images) - 1 }

type recBatch struct {
	r   *recorder
	ops map[string]*logEntry
}

func (r *recorder) Batch(ctx context.Context) (ds.Batch, error) {
	return &recBatch{r: r, ops: map[string]*logEntry{}}, nil
}

func (b *recBatch) Put(ctx context.Context, key ds.Key, value []byte) error {
	b.ops[key.String()] = &logEntry{"put", key.String(), append([]byte{}, value...)}
	return nil
}

func (b *recBatch) Delete(ctx context.Context, key ds.Key) error {
	b.ops[key.String()] = &logEntry{"delete", key.String(), nil}
	return nil
}

func (b *recBatch) Commit(ctx context.Context) error {
	b.r.mu.Lock()
	b.r.batches++
	b.r.mu.Unlock()
	keys := make([]string, 0, len(b.ops))
	for k := range b.ops {
		keys = append(keys, k)
	}
	sort.Strings(keys)
	for _, k := range keys {
		e := b.ops[k]
		var err error
		if e.Kind == "put" {
			err = b.r.Put(ctx, ds.NewKey(k), e.Value)
		} else {
			err = b.r.Delete(ctx, ds.NewKey(k))
		}
		if err != nil {
			return err
		}
	}
	return nil
}

// imageDS builds a fresh MapDatastore holding exactly img.
func imageDS(img map[string][]byte) *ds.MapDatastore {
	d := ds.NewMapDatastore()
	for k, v := range img {
		d.Put(context.Background(), ds.NewKey(k), append([]byte{}, v...))
	}
	return d
}

// orderDS returns the entries of a Query whose key is in `last` after all
// others (the datastore contract leaves the order of unordered queries open).
type orderDS struct {
	*recorder
	last map[string]bool
}

func (o *orderDS) Query(ctx context.Context, q dsq.Query) (dsq.Results, error) {
	res, err := o.recorder.Query(ctx, q)
	if err != nil || len(o.last) == 0 || len(q.Orders) > 0 {
		return res, err
	}
	all, err := res.Rest()
	if err != nil {
		return nil, err
	}
	sort.SliceStable(all, func(i, j int) bool { return !o.last[all[i].Key] && o.last[all[j].Key] })
	return dsq.ResultsWithEntries(q, all), nil
}
