//go:build verif

package dspinner

import (
	ipfspinner "github.com/ipfs/boxo/pinning/pinner"
	"github.com/ipfs/go-cid"
)

// VerifDecodePin decodes a stored pin record (read-only accessor for /verif).
func VerifDecodePin(id string, data []byte) (cid.Cid, ipfspinner.Mode, string, error) {
	p, err := decodePin(id, data)
	if err != nil {
		return cid.Undef, 0, "", err
	}
	return p.Cid, p.Mode, p.Name, nil
}
