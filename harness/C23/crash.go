//go:build verif

package main

import (
	"context"
	"fmt"
	"sort"
	"strconv"
	"strings"

	ipfspinner "github.com/ipfs/boxo/pinning/pinner"
	"github.com/ipfs/boxo/pinning/pinner/dspinner"
	"github.com/ipfs/boxo/verifshim/eng"
	dssync "github.com/ipfs/go-datastore/sync"
)

// ---- running a history on the real pinner over the recording datastore ----

type opSpan struct {
	Op           string
	Start, End   int // the op made writes Start+1 .. End
	PinnedBefore map[string]bool
	PinnedAfter  map[string]bool // after the op ran to completion (no crash)
	Err          error
}

var modeByWord = map[string]ipfspinner.Mode{"rec": ipfspinner.Recursive, "dir": ipfspinner.Direct}

func pinName(w string) string {
	if w == "-" {
		return ""
	}
	return w
}

// pinnedSet asks the live pinner which CIDs are pinned (any mode, incl. indirectly).
func pinnedSet(f *fixture, p ipfspinner.Pinner) (map[string]bool, error) {
	out := map[string]bool{}
	for _, c := range append(append([]string{}, cidNames...), f.extra...) {
		_, ok, err := p.IsPinned(context.Background(), f.cids[c])
		if err != nil {
			return nil, fmt.Errorf("IsPinned(%s): %w", c, err)
		}
		if ok {
			out[c] = true
		}
	}
	return out, nil
}

func setStr(m map[string]bool) string {
	ks := []string{}
	for k := range m {
		ks = append(ks, k)
	}
	sort.Strings(ks)
	return strings.Join(ks, ",")
}

func doOp(f *fixture, p pinnerT, op string) error {
	ctx := context.Background()
	fl := strings.Fields(op)
	switch fl[0] {
	case "Pin":
		return p.Pin(ctx, f.nodes[fl[1]], fl[2] == "rec", pinName(fl[3]))
	case "PinMode":
		return p.PinWithMode(ctx, f.cids[fl[1]], modeByWord[fl[2]], pinName(fl[3]))
	case "Unpin":
		return p.Unpin(ctx, f.cids[fl[1]], fl[2] == "rec")
	case "Update":
		return p.Update(ctx, f.cids[fl[1]], f.cids[fl[2]], fl[3] == "unpin")
	case "Flush":
		return p.Flush(ctx)
	case "Auto":
		p.SetAutosync(fl[1] == "on")
		return nil
	}
	panic("unknown op " + op)
}

func opTarget(op string) string {
	fl := strings.Fields(op)
	if len(fl) > 1 {
		if fl[0] == "Update" {
			return fl[2] // the CID that gets (re)pinned
		}
		return fl[1]
	}
	return ""
}

type history struct {
	cfg   string
	ops   []string
	f     *fixture
	rec   *recorder
	spans []opSpan
}

func cfgVal(cfg, k string) string {
	for _, kv := range strings.Split(cfg, ",") {
		if strings.HasPrefix(kv, k+"=") {
			return kv[len(k)+1:]
		}
	}
	return ""
}

func runHistory(cfg string, ops []string) (*history, error) {
	h := &history{cfg: cfg, ops: ops}
	var missing []string
	if m := cfgVal(cfg, "miss"); m != "none" && m != "" {
		missing = strings.Split(m, "+")
	}
	h.f = newFixture(missing)
	h.rec = newRecorder()
	p, err := openPinner(h.rec, h.f.dserv)
	if err != nil {
		return nil, err
	}
	defer p.Close()
	if cfgVal(cfg, "auto") == "0" {
		p.SetAutosync(false)
	}
	// many=N: N direct pins exist before the history starts (the repair on open
	// syncs and clears the dirty flag every syncRepairFrequency=50 records)
	if m, _ := strconv.Atoi(cfgVal(cfg, "many")); m > 0 {
		h.f.addExtraLeaves(m)
		for _, x := range h.f.extra {
			if err := p.PinWithMode(context.Background(), h.f.cids[x], ipfspinner.Direct, ""); err != nil {
				return nil, err
			}
		}
	}
	for _, op := range ops {
		sp := opSpan{Op: op, Start: h.rec.writes()}
		if sp.PinnedBefore, err = pinnedSet(h.f, p); err != nil {
			return nil, err
		}
		sp.Err = doOp(h.f, p, op)
		sp.End = h.rec.writes()
		if sp.PinnedAfter, err = pinnedSet(h.f, p); err != nil {
			return nil, err
		}
		h.spans = append(h.spans, sp)
	}
	return h, nil
}

// ---- evaluating one crash image ----

func keyClass(k string) string {
	switch {
	case strings.HasPrefix(k, "/pins/pin/"):
		return "record"
	case strings.HasPrefix(k, "/pins/index/cidRindex/"):
		return "cidRindex"
	case strings.HasPrefix(k, "/pins/index/cidDindex/"):
		return "cidDindex"
	case strings.HasPrefix(k, "/pins/index/nameIndex/"):
		return "nameIndex"
	case k == "/pins/state/dirty":
		return "dirty"
	}
	return "other"
}

// agreement checks invariant (i) of the statement on a (recovered) raw state:
// every indexed CID has a matching pin record and every pin record is indexed.
func agreement(st *rawState) []*eng.Violation {
	var out []*eng.Violation
	for _, e := range st.Index {
		// "<index>|<key>|->P(cid,mode,name)" or "...|->dangling"
		parts := strings.SplitN(e, "|", 3)
		idx, key, tgt := parts[0], parts[1], strings.TrimPrefix(parts[2], "->")
		if tgt == "dangling" {
			out = append(out, eng.V("index-without-record", "", fmt.Sprintf("index entry %s[%s] points to a pin record that does not exist", idx, key), "index", idx))
			continue
		}
		var want string
		switch idx {
		case "cidRindex":
			want = fmt.Sprintf("P(%s,recursive,", key)
		case "cidDindex":
			want = fmt.Sprintf("P(%s,direct,", key)
		case "nameIndex":
			if !strings.HasSuffix(tgt, fmt.Sprintf(",%q)", key)) {
				out = append(out, eng.V("index-record-mismatch", "", fmt.Sprintf("name index entry %q points to record %s", key, tgt), "index", idx))
			}
			continue
		}
		if !strings.HasPrefix(tgt, want) {
			out = append(out, eng.V("index-record-mismatch", "", fmt.Sprintf("index entry %s[%s] points to record %s", idx, key, tgt), "index", idx))
		}
	}
	for _, p := range st.Pins {
		idx := map[string]string{"recursive": "cidRindex", "direct": "cidDindex"}[p.Mode]
		if !inList(idx+"|"+p.Cid, st.idxByID[p.ID]) {
			out = append(out, eng.V("record-without-index", "", fmt.Sprintf("pin record {%s %s %q} has no entry in %s", p.Cid, p.Mode, p.Name, idx), "index", idx))
		}
		if p.Name != "" && !inList("nameIndex|"+p.Name, st.idxByID[p.ID]) {
			out = append(out, eng.V("record-without-index", "", fmt.Sprintf("pin record {%s %s %q} has no entry in the name index", p.Cid, p.Mode, p.Name), "index", "nameIndex"))
		}
	}
	return out
}

func inList(x string, l []string) bool {
	for _, y := range l {
		if x == y {
			return true
		}
	}
	return false
}

type imageVerdict struct {
	viols     []*eng.Violation
	dirty     string // dirty flag in the image before reopening
	repaired  bool   // reopening changed pins/indexes
	unstable  bool   // a second reopen gave different answers (not part of the statement; counted only)
	records        int // pin records in the image
	recoveryWrites int // datastore writes made by dspinner.New on this image
	nextGenImages  int // crash images taken inside the recovery run (all generations below this one)
	nextGenFailing int
	preCanon  string
	postCanon string
}

// evalImage reopens a pinner on the image and checks the two recovery
// invariants of the statement. required = CIDs that must still be pinned.
//
// The writes that the recovery run of dspinner.New makes are logged too: they
// are datastore writes made by the pinner, so the process may stop after any of
// them. When gensLeft > 0 and the recovery made at least two writes, every
// proper prefix of the recovery's write log is taken as a next-generation crash
// image (first crash image + the first k recovery writes) and judged the same
// way through sub (which caches). A k that ends at the last write is the
// completed recovery, already judged here.
func evalImage(f *fixture, img map[string][]byte, required map[string]bool, gensLeft int, sub func(img map[string][]byte, gensLeft int) *imageVerdict) *imageVerdict {
	ctx := context.Background()
	rec := newRecorderFrom(img)
	pre := f.dumpRaw(rec.inner)
	v := &imageVerdict{dirty: pre.Dirty, preCanon: pre.canon(), records: len(pre.Pins)}
	// The order of Query results is unspecified: the recovery is shown the pin
	// records that need a repair last (a legal, least favourable order).
	p, err := dspinner.New(ctx, &orderDS{recorder: rec, last: pre.unindexedRecordKeys()}, f.dserv)
	if err != nil {
		v.viols = append(v.viols, eng.V("reopen-failed", "", fmt.Sprintf("dspinner.New on the crash image failed: %v", err)))
		return v
	}
	v.recoveryWrites = rec.writes()
	post := f.dumpRaw(rec.inner)
	v.postCanon = post.canon()
	pre.Dirty, post.Dirty = "", ""
	v.repaired = pre.canon() != post.canon()
	v.viols = append(v.viols, agreement(post)...)
	got, err := pinnedSet(f, p)
	p.Close()
	if err != nil {
		v.viols = append(v.viols, eng.V("query-failed-after-reopen", "", err.Error()))
		return v
	}
	req := []string{}
	for c := range required {
		req = append(req, c)
	}
	sort.Strings(req)
	for _, c := range req {
		if !got[c] {
			v.viols = append(v.viols, eng.V("pin-lost-after-crash", "", fmt.Sprintf("%s was pinned before the interrupted operation, the operation does not unpin it, but after the crash and reopen it is not pinned (pinned after reopen: {%s})", c, setStr(got)), "lost", c))
		}
	}
	// second reopen (idempotence of recovery; informational)
	d := imageDS(rec.images[rec.writes()])
	p2, err := dspinner.New(ctx, dssync.MutexWrap(d), f.dserv)
	if err == nil {
		got2, err2 := pinnedSet(f, p2)
		p2.Close()
		post2 := f.dumpRaw(d)
		post2.Dirty = ""
		if err2 != nil || setStr(got2) != setStr(got) || post2.canon() != post.canon() {
			v.unstable = true
		}
	} else {
		v.unstable = true
	}
	// the recovery itself is interrupted
	if gensLeft > 0 && sub != nil && rec.writes() >= 2 {
		for k := 1; k < rec.writes(); k++ {
			sv := sub(rec.images[k], gensLeft-1)
			v.nextGenImages += 1 + sv.nextGenImages
			if len(sv.viols) > 0 {
				v.nextGenFailing++
			}
			last := rec.log[rec.writeAt[k]]
			for _, tv := range sv.viols {
				vv := *tv
				vv.Features = map[string]string{}
				for fk, fv := range tv.Features {
					vv.Features[fk] = fv
				}
				if _, deeper := vv.Features["recovery_interrupted"]; !deeper {
					vv.Features["recovery_interrupted"] = "true"
					vv.Features["recovery_last_write"] = writeClass(last)
					// had the recovery already written the dirty flag (cleared it) before it was interrupted?
					cleared := false
					for w := 1; w <= k; w++ {
						if writeClass(rec.log[rec.writeAt[w]]) == "put:dirty" {
							cleared = true
						}
					}
					vv.Features["recovery_flag_cleared"] = fmt.Sprint(cleared)
				}
				vv.Detail = fmt.Sprintf("the recovery run on reopen was itself interrupted after its write %d of %d (%s %s), then reopened again: %s", k, rec.writes(), last.Kind, last.Key, tv.Detail)
				v.viols = append(v.viols, &vv)
			}
		}
	}
	return v
}
