//go:build verif

package main

import (
	"context"
	"fmt"
	"path"
	"sort"
	"strings"

	bserv "github.com/ipfs/boxo/blockservice"
	bstore "github.com/ipfs/boxo/blockstore"
	offline "github.com/ipfs/boxo/exchange/offline"
	mdag "github.com/ipfs/boxo/ipld/merkledag"
	ipfspinner "github.com/ipfs/boxo/pinning/pinner"
	"github.com/ipfs/boxo/pinning/pinner/dspinner"
	cid "github.com/ipfs/go-cid"
	ds "github.com/ipfs/go-datastore"
	dsq "github.com/ipfs/go-datastore/query"
	dssync "github.com/ipfs/go-datastore/sync"
	ipld "github.com/ipfs/go-ipld-format"
	"github.com/multiformats/go-multibase"
)

// The DAG (names used everywhere in ops, model and reports):
//
//	R1 -> {M, L1}    R2 -> {M, L2}    M -> {LM}
//	A1 = the block of L1 addressed by a CIDv1 (dag-pb); a different CID for the
//	     pinner (keys are CID bytes), the same block for the block store
//	Z  = a leaf that is never stored anywhere
//
// M is both a possible recursive root and a child of R1/R2.
var cidNames = []string{"R1", "R2", "M", "LM", "L1", "L2", "A1", "Z"}

var children = map[string][]string{"R1": {"M", "L1"}, "R2": {"M", "L2"}, "M": {"LM"}}

// desc[x] = strict descendants of x in the ideal DAG.
var desc = map[string]map[string]bool{}

func init() {
	var walk func(root, n string)
	walk = func(root, n string) {
		for _, c := range children[n] {
			desc[root][c] = true
			walk(root, c)
		}
	}
	for _, n := range cidNames {
		desc[n] = map[string]bool{}
		walk(n, n)
	}
}

type fixture struct {
	nodes  map[string]*mdag.ProtoNode
	cids   map[string]cid.Cid
	byKey  map[string]string // cid.KeyString() -> name
	byStr  map[string]string // cid.String() -> name
	bs     bstore.Blockstore
	dserv  ipld.DAGService
	pinDS  ds.Batching // the pinner's datastore (possibly wrapped by the caller)
	rawPin *ds.MapDatastore
	extra  []string // names of extra leaves (observed in addition to cidNames)
}

func leaf(s string) *mdag.ProtoNode { return mdag.NodeWithData([]byte(s)) }

// newFixture builds the block store with every block except those in missing
// (and Z, which is never stored).
func newFixture(missing []string) *fixture {
	ctx := context.Background()
	f := &fixture{nodes: map[string]*mdag.ProtoNode{}, cids: map[string]cid.Cid{}, byKey: map[string]string{}, byStr: map[string]string{}}
	n := f.nodes
	n["LM"], n["L1"], n["L2"], n["Z"] = leaf("lm"), leaf("l1"), leaf("l2"), leaf("z")
	n["M"] = leaf("m")
	must(n["M"].AddNodeLink("lm", n["LM"]))
	n["R1"] = leaf("r1")
	must(n["R1"].AddNodeLink("m", n["M"]))
	must(n["R1"].AddNodeLink("l1", n["L1"]))
	n["R2"] = leaf("r2")
	must(n["R2"].AddNodeLink("m", n["M"]))
	must(n["R2"].AddNodeLink("l2", n["L2"]))
	a1 := n["L1"].Copy().(*mdag.ProtoNode)
	must(a1.SetCidBuilder(mdag.V1CidPrefix()))
	n["A1"] = a1
	for name, nd := range n {
		c := nd.Cid()
		f.cids[name] = c
		f.byKey[c.KeyString()] = name
		f.byStr[c.String()] = name
	}
	if f.cids["A1"].Equals(f.cids["L1"]) || f.cids["A1"].Hash().B58String() != f.cids["L1"].Hash().B58String() {
		panic("A1 must be a different CID with the same multihash as L1")
	}
	blockDS := dssync.MutexWrap(ds.NewMapDatastore())
	f.bs = bstore.NewBlockstore(blockDS)
	f.dserv = mdag.NewDAGService(bserv.New(f.bs, offline.Exchange(f.bs)))
	miss := map[string]bool{"Z": true}
	for _, m := range missing {
		miss[m] = true
	}
	for _, name := range []string{"LM", "L1", "L2", "M", "R1", "R2"} {
		if !miss[name] {
			must(f.dserv.Add(ctx, n[name]))
		}
	}
	f.rawPin = ds.NewMapDatastore()
	f.pinDS = dssync.MutexWrap(f.rawPin)
	return f
}

func must(err error) {
	if err != nil {
		panic(err)
	}
}

// present reports whether the block of the named CID is in the block store.
func (f *fixture) present(name string) bool {
	ok, err := f.bs.Has(context.Background(), f.cids[name])
	must(err)
	return ok
}

func (f *fixture) presentSet() string {
	out := []string{}
	for _, n := range cidNames {
		if n != "A1" && f.present(n) {
			out = append(out, n)
		}
	}
	return strings.Join(out, ",")
}

// closureComplete: are the block of name and of all its descendants present?
func (f *fixture) closureComplete(name string, includeRoot bool) bool {
	if includeRoot && !f.present(name) {
		return false
	}
	for d := range desc[name] {
		if !f.present(d) {
			return false
		}
	}
	return true
}

func (f *fixture) name(c cid.Cid) string {
	if n, ok := f.byKey[c.KeyString()]; ok {
		return n
	}
	return "?" + c.String()
}

// pinnerT is what dspinner.New returns (the concrete type is unexported).
type pinnerT interface {
	ipfspinner.Pinner
	SetAutosync(bool) bool
}

func openPinner(dstore ds.Datastore, dserv ipld.DAGService) (pinnerT, error) {
	return dspinner.New(context.Background(), dstore, dserv)
}

// ---- canonical dump of the pinner's persisted state ----

type rawPin struct {
	ID, Cid, Mode, Name string
}

type rawState struct {
	Pins    []rawPin
	Index   []string // "<index>|<key>|-><pin tuple or dangling>"
	Dirty   string
	Other   []string
	idxByID map[string][]string
}

func decodeMB(s string) string {
	_, b, err := multibase.Decode(s)
	if err != nil {
		return "!undecodable:" + s
	}
	return string(b)
}

// dumpRaw reads /pins/** from a datastore image and canonicalises the random pin ids away.
func (f *fixture) dumpRaw(d ds.Datastore) *rawState {
	res, err := d.Query(context.Background(), dsq.Query{})
	must(err)
	all, err := res.Rest()
	must(err)
	st := &rawState{Dirty: "absent", idxByID: map[string][]string{}}
	pinByID := map[string]rawPin{}
	type ie struct{ idx, key, id string }
	var ies []ie
	for _, e := range all {
		switch {
		case strings.HasPrefix(e.Key, "/pins/pin/"):
			id := path.Base(e.Key)
			c, mode, name, err := dspinner.VerifDecodePin(id, e.Value)
			if err != nil {
				st.Other = append(st.Other, "undecodable-pin:"+e.Key)
				continue
			}
			ms, _ := ipfspinner.ModeToString(mode)
			rp := rawPin{ID: id, Cid: f.name(c), Mode: ms, Name: name}
			pinByID[id] = rp
			st.Pins = append(st.Pins, rp)
		case strings.HasPrefix(e.Key, "/pins/index/"):
			parts := strings.Split(strings.TrimPrefix(e.Key, "/pins/index/"), "/")
			if len(parts) != 3 {
				st.Other = append(st.Other, "odd-index-key:"+e.Key)
				continue
			}
			ies = append(ies, ie{parts[0], decodeMB(parts[1]), decodeMB(parts[2])})
		case e.Key == "/pins/state/dirty":
			st.Dirty = fmt.Sprintf("%x", e.Value)
		default:
			st.Other = append(st.Other, e.Key)
		}
	}
	for _, x := range ies {
		key := x.key
		if x.idx != "nameIndex" {
			if c, err := cid.Cast([]byte(x.key)); err == nil {
				key = f.name(c)
			} else {
				key = fmt.Sprintf("!badcid:%x", x.key)
			}
		}
		target := "dangling"
		if rp, ok := pinByID[x.id]; ok {
			target = fmt.Sprintf("P(%s,%s,%q)", rp.Cid, rp.Mode, rp.Name)
		}
		st.Index = append(st.Index, fmt.Sprintf("%s|%s|->%s", x.idx, key, target))
		st.idxByID[x.id] = append(st.idxByID[x.id], x.idx+"|"+key)
	}
	sort.Slice(st.Pins, func(i, j int) bool {
		a, b := st.Pins[i], st.Pins[j]
		return a.Cid+a.Mode+a.Name < b.Cid+b.Mode+b.Name
	})
	sort.Strings(st.Index)
	sort.Strings(st.Other)
	return st
}

func (st *rawState) canon() string {
	var sb strings.Builder
	for _, p := range st.Pins {
		fmt.Fprintf(&sb, "P(%s,%s,%q);", p.Cid, p.Mode, p.Name)
	}
	sb.WriteString("|" + strings.Join(st.Index, ";") + "|dirty=" + st.Dirty + "|" + strings.Join(st.Other, ";"))
	return sb.String()
}

// bothModes lists CIDs that have a direct and a recursive record at the same time.
func (st *rawState) bothModes() map[string]bool {
	m := map[string]map[string]bool{}
	for _, p := range st.Pins {
		if m[p.Cid] == nil {
			m[p.Cid] = map[string]bool{}
		}
		m[p.Cid][p.Mode] = true
	}
	out := map[string]bool{}
	for c, ms := range m {
		if ms["direct"] && ms["recursive"] {
			out[c] = true
		}
	}
	return out
}

// addExtraLeaves stores n more leaf blocks X00.. (for configurations with many pin records).
func (f *fixture) addExtraLeaves(n int) {
	for i := 0; i < n; i++ {
		name := fmt.Sprintf("X%02d", i)
		nd := leaf("extra-" + name)
		must(f.dserv.Add(context.Background(), nd))
		f.nodes[name] = nd
		c := nd.Cid()
		f.cids[name] = c
		f.byKey[c.KeyString()] = name
		f.byStr[c.String()] = name
		f.extra = append(f.extra, name)
	}
}

// unindexedRecordKeys lists the datastore keys of pin records that have no entry in the cid index of their mode.
func (st *rawState) unindexedRecordKeys() map[string]bool {
	out := map[string]bool{}
	for _, p := range st.Pins {
		idx := map[string]string{"recursive": "cidRindex", "direct": "cidDindex"}[p.Mode]
		found := false
		for _, e := range st.idxByID[p.ID] {
			if e == idx+"|"+p.Cid {
				found = true
			}
		}
		if !found {
			out["/pins/pin/"+p.ID] = true
		}
	}
	return out
}
