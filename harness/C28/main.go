//go:build verif

// C28: names and content paths parse and print canonically.
//
// Paths: every string of two declared finite families is given to the real
// path.NewPath / path.NewPathFromURI:
//
//	(free)       all concatenations of <= L tokens of a 24-token alphabet,
//	(structured) prefix x root x all concatenations of <= K tail tokens,
//
// and for every accepted string the printed form is re-parsed and compared
// (String, Namespace, Segments, Mutable, root CID), checked for "." / ".."
// segments, and URI forms scheme://x are compared with NewPath("/scheme/x").
//
// Names: every peer ID of a pool (several keys of each supported type plus
// synthetic multihashes) is taken through String, Cid, RoutingKey, Peer,
// AsPath, JSON and the alternative textual peer-ID forms and back.
package main

import (
	"encoding/hex"
	"encoding/json"
	"fmt"
	"strings"

	"github.com/ipfs/boxo/ipns"
	"github.com/ipfs/boxo/path"
	"github.com/ipfs/boxo/verifshim/eng"
	"github.com/ipfs/go-cid"
	"github.com/libp2p/go-libp2p/core/peer"
	mb "github.com/multiformats/go-multibase"
	mh "github.com/multiformats/go-multihash"
)

// ---------------------------------------------------------------- paths

type pinfo struct {
	Str     string
	NS      string
	Segs    []string
	Mutable bool
	Imm     bool   // dynamic type is ImmutablePath
	Root    string // binary root CID (immutable paths)
}

func describe(p path.Path) pinfo {
	d := pinfo{Str: p.String(), NS: p.Namespace(), Segs: p.Segments(), Mutable: p.Mutable()}
	if ip, ok := p.(path.ImmutablePath); ok {
		d.Imm = true
		d.Root = ip.RootCid().KeyString()
	}
	return d
}

func (a pinfo) diff(b pinfo) string {
	switch {
	case a.Str != b.Str:
		return "String"
	case a.NS != b.NS:
		return "Namespace"
	case strings.Join(a.Segs, "\x00") != strings.Join(b.Segs, "\x00") || len(a.Segs) != len(b.Segs):
		return "Segments"
	case a.Mutable != b.Mutable:
		return "Mutable"
	case a.Imm != b.Imm || a.Root != b.Root:
		return "RootCid"
	}
	return ""
}

// shape describes a string by class, for violation features and outcome classes.
func shape(s string) (trailing, dots, dblslash string) {
	return fmt.Sprint(strings.HasSuffix(s, "/")), fmt.Sprint(hasDotSeg(strings.Split(s, "/"))), fmt.Sprint(strings.Contains(s, "//"))
}

func hasDotSeg(segs []string) bool {
	for _, x := range segs {
		if x == "." || x == ".." {
			return true
		}
	}
	return false
}

// asciiScheme reports whether s is scheme "://" rest with scheme one of
// ipfs/ipns/ipld in any ASCII case. (Reference written independently of boxo.)
func asciiScheme(s string) (ns, rest string, ok bool) {
	if len(s) < 7 || s[4:7] != "://" {
		return "", "", false
	}
	low := []byte(s[:4])
	for i, c := range low {
		if c >= 'A' && c <= 'Z' {
			low[i] = c + 32
		}
	}
	switch string(low) {
	case "ipfs", "ipns", "ipld":
		return string(low), s[7:], true
	}
	return "", "", false
}

// checkPath runs all path oracles on one input string.
func checkPath(s string) (outcome string, v *eng.Violation) {
	mk := func(sym, op, detail string, kv ...string) *eng.Violation {
		tr, dt, ds := shape(s)
		kv = append(kv, "input_trailing_slash", tr, "input_dot_segments", dt, "input_double_slash", ds)
		vv := eng.V(sym, op, fmt.Sprintf("input %q: %s", s, detail), kv...)
		vv.Replay = replayDesc{Kind: "path", S: s}
		return vv
	}
	var p path.Path
	var err error
	if pv := eng.Guard("NewPath", func() { p, err = path.NewPath(s) }); pv != nil {
		pv.Replay = replayDesc{Kind: "path", S: s}
		return "panic", pv
	}
	outcome = "reject"
	if err == nil {
		d := describe(p)
		outcome = "accept ns=" + d.NS + fmt.Sprintf(" segs=%d trailing=%v changed=%v", min(len(d.Segs), 5), strings.HasSuffix(d.Str, "/"), d.Str != s)
		if hasDotSeg(strings.Split(d.Str, "/")) {
			return outcome, mk("dot-segment-in-printed-form", "String", fmt.Sprintf("String()=%q contains a . or .. segment", d.Str))
		}
		if hasDotSeg(d.Segs) {
			return outcome, mk("dot-segment-in-printed-form", "Segments", fmt.Sprintf("Segments()=%q contains . or ..", d.Segs))
		}
		q, err2 := path.NewPath(d.Str)
		if err2 != nil {
			return outcome, mk("printed-form-not-reparsable", "NewPath", fmt.Sprintf("String()=%q is rejected: %v", d.Str, err2))
		}
		e := describe(q)
		if f := d.diff(e); f != "" {
			return outcome, mk("reparse-differs", "NewPath", fmt.Sprintf("parsed %+v, re-parsing its String() gives %+v", d, e), "field", f)
		}
		if !d.Mutable {
			// immutable paths: the root CID must also survive through NewImmutablePath
			ip, err := path.NewImmutablePath(q)
			if err != nil || ip.RootCid().KeyString() != d.Root {
				return outcome, mk("reparse-differs", "NewImmutablePath", fmt.Sprintf("root CID of re-parsed %q: %v (err %v)", d.Str, ip.RootCid(), err), "field", "RootCid")
			}
		}
	}
	// URI forms
	var canon string
	form := ""
	if ns, rest, ok := asciiScheme(s); ok {
		canon, form = "/"+ns+"/"+rest, "scheme://"
	} else if strings.HasPrefix(s, "/") {
		canon, form = s, "canonical"
	}
	if form != "" {
		var pu, pc path.Path
		var eu, ec error
		if pv := eng.Guard("NewPathFromURI", func() { pu, eu = path.NewPathFromURI(s); pc, ec = path.NewPath(canon) }); pv != nil {
			pv.Replay = replayDesc{Kind: "path", S: s}
			return "panic", pv
		}
		if (eu == nil) != (ec == nil) {
			return outcome, mk("uri-form-differs-from-canonical", "NewPathFromURI", fmt.Sprintf("NewPathFromURI err=%v but NewPath(%q) err=%v", eu, canon, ec), "form", form)
		}
		if eu == nil {
			if f := describe(pu).diff(describe(pc)); f != "" {
				return outcome, mk("uri-form-differs-from-canonical", "NewPathFromURI", fmt.Sprintf("NewPathFromURI=%+v but NewPath(%q)=%+v", describe(pu), canon, describe(pc)), "form", form, "field", f)
			}
			if form == "scheme://" {
				outcome += " uri-accept"
			}
		} else if form == "scheme://" {
			outcome += " uri-reject"
		}
	}
	return outcome, nil
}

// ---- string families ----

var (
	cids   = map[string]string{}
	pidStr = map[string]string{}
)

func initStrings() {
	h := must(mh.Sum([]byte("verif-c28"), mh.SHA2_256, -1))
	c0 := cid.NewCidV0(h)
	c1 := cid.NewCidV1(cid.DagProtobuf, h)
	cids["v0"] = c0.String()
	cids["v1b32"] = c1.String()
	cids["v1b36"] = must(c1.StringOfBase(mb.Base36))
	cids["v1b58"] = must(c1.StringOfBase(mb.Base58BTC))
	cids["v1b32upper"] = must(c1.StringOfBase(mb.Base32Upper))
	cids["identity"] = "bafkqaaa"
	k := genKey("ed25519", "C28-path")
	pidStr["12D3"] = k.pid.String()
	pidStr["k51"] = k.name.String()
}

func freeTokens() []string {
	return []string{"/", "//", "ipfs", "ipns", "ipld", "IPFS", ".", "..", "a", "é", " ", "%2F",
		cids["v0"], cids["v1b32"], cids["v1b36"], cids["v1b58"], pidStr["12D3"], pidStr["k51"],
		"ipfs:", "ipfs://", "ipns://", "ipld://", "IPFS://", "example.com"}
}

func structPrefixes() []string {
	return []string{"/ipfs/", "/ipns/", "/ipld/", "/ipfs", "ipfs/", "//ipfs//", "/./ipfs/", "/../ipfs/", "/a/../ipfs/", "/IPFS/", "/ipfx/", "/", "",
		"ipfs://", "ipns://", "ipld://", "IPFS://", "IpNs://", "ipfs:", "ipfs:/", "ipfs:///", "ipfſ://", "/ipfs://", "http://"}
}

func structRoots() []string {
	return []string{cids["v0"], cids["v1b32"], cids["v1b36"], cids["v1b58"], cids["v1b32upper"], cids["identity"], pidStr["12D3"], pidStr["k51"],
		"example.com", "a", "é", ".", "..", "", strings.ToUpper(cids["v0"]), cids["v1b32"] + "x"}
}

func structTails() []string {
	return []string{"/a", "/b", "/.", "/..", "/", "//", "/é", "/ ", "/%2F", "/...", "/.a", "/ipfs", "/ipns", "/" + cids["v1b32"], "/" + pidStr["k51"], "?q=1", "#frag"}
}

// concatAll calls f for every concatenation of exactly n tokens.
func concatAll(tokens []string, n int, prefix string, f func(string)) {
	if n == 0 {
		f(prefix)
		return
	}
	for _, t := range tokens {
		concatAll(tokens, n-1, prefix+t, f)
	}
}

// ---------------------------------------------------------------- names

type nameCase struct {
	Label string `json:"label"`
	Pid   string `json:"pid_hex"`
}

func checkName(nc nameCase) (string, *eng.Violation) {
	raw, err := hex.DecodeString(nc.Pid)
	if err != nil {
		return "", eng.V("bad-case", "", err.Error())
	}
	pid := peer.ID(raw)
	kind := nc.Label
	if i := strings.IndexByte(kind, '#'); i > 0 {
		kind = kind[:i]
	}
	mk := func(form, detail string) *eng.Violation {
		v := eng.V("name-does-not-round-trip", form, fmt.Sprintf("peer ID %s (%s): %s", nc.Pid, nc.Label, detail), "form", form, "id_kind", kind)
		v.Replay = replayDesc{Kind: "name", Name: &nc}
		return v
	}
	var v *eng.Violation
	pv := eng.Guard("name", func() {
		n := ipns.NameFromPeer(pid)
		if n.Peer() != pid {
			v = mk("Peer", "NameFromPeer(p).Peer() != p")
			return
		}
		s := n.String()
		for _, in := range []string{s, ipns.NamespacePrefix + s} {
			if n2, err := ipns.NameFromString(in); err != nil || !n2.Equal(n) {
				v = mk("String", fmt.Sprintf("NameFromString(%q) = %v, %v", in, n2, err))
				return
			}
		}
		c := n.Cid()
		if n2, err := ipns.NameFromCid(c); err != nil || !n2.Equal(n) {
			v = mk("Cid", fmt.Sprintf("NameFromCid(%s) = %v, %v", c, n2, err))
			return
		}
		rk := n.RoutingKey()
		if n2, err := ipns.NameFromRoutingKey(rk); err != nil || !n2.Equal(n) {
			v = mk("RoutingKey", fmt.Sprintf("NameFromRoutingKey(%q) = %v, %v", rk, n2, err))
			return
		}
		if n2 := ipns.NameFromPeer(n.Peer()); !n2.Equal(n) {
			v = mk("Peer", "NameFromPeer(n.Peer()) != n")
			return
		}
		p := n.AsPath()
		if p.String() != ipns.NamespacePrefix+s || p.Namespace() != path.IPNSNamespace {
			v = mk("AsPath", fmt.Sprintf("AsPath() = %q, want %q", p.String(), ipns.NamespacePrefix+s))
			return
		}
		if n2, err := ipns.NameFromString(p.String()); err != nil || !n2.Equal(n) {
			v = mk("AsPath", fmt.Sprintf("NameFromString(AsPath()) = %v, %v", n2, err))
			return
		}
		if segs := p.Segments(); len(segs) != 2 || segs[1] != s {
			v = mk("AsPath", fmt.Sprintf("AsPath().Segments() = %q", segs))
			return
		}
		js, err := json.Marshal(n)
		var n3 ipns.Name
		if err == nil {
			err = json.Unmarshal(js, &n3)
		}
		if err != nil || !n3.Equal(n) {
			v = mk("JSON", fmt.Sprintf("JSON round trip of %s: %v, %v", js, n3, err))
			return
		}
		// other textual forms of the same peer ID (only for IDs of real keys: identity / sha2-256)
		if !strings.HasPrefix(nc.Label, "synthetic") && !strings.HasPrefix(nc.Label, "fromstring") {
			alts := map[string]string{
				"peer-b58":   pid.String(),
				"cid-b32":    peer.ToCid(pid).String(),
				"cid-b36up":  must(peer.ToCid(pid).StringOfBase(mb.Base36Upper)),
				"cid-b58btc": must(peer.ToCid(pid).StringOfBase(mb.Base58BTC)),
			}
			for form, in := range alts {
				for _, pre := range []string{"", ipns.NamespacePrefix} {
					if n2, err := ipns.NameFromString(pre + in); err != nil || !n2.Equal(n) {
						v = mk("String:"+form, fmt.Sprintf("NameFromString(%q) = %v, %v", pre+in, n2, err))
						return
					}
				}
			}
		}
	})
	if pv != nil {
		pv.Replay = replayDesc{Kind: "name", Name: &nc}
		pv.Features = map[string]string{"id_kind": kind}
		return "panic", pv
	}
	if v != nil {
		return "mismatch", v
	}
	return "name-ok " + kind, nil
}

func namePool(thorough bool) []nameCase {
	var out []nameCase
	counts := map[string]int{"ed25519": 8, "secp256k1": 8, "ecdsa": 3, "rsa2048": 1}
	if thorough {
		counts = map[string]int{"ed25519": 64, "secp256k1": 64, "ecdsa": 16, "rsa2048": 3}
	}
	for _, t := range keyTypes {
		for i := 0; i < counts[t]; i++ {
			k := genKey(t, fmt.Sprintf("C28-%d", i))
			out = append(out, nameCase{fmt.Sprintf("%s#%d inlined=%v", t, i, k.inlined), hex.EncodeToString([]byte(k.pid))})
		}
	}
	// synthetic multihashes: identity digests of boundary lengths, and other hash functions
	for _, n := range []int{0, 1, 2, 35, 36, 37, 41, 42, 43, 64} {
		b := make([]byte, n)
		(&detReader{seed: fmt.Sprint("c28-id-", n)}).Read(b)
		out = append(out, nameCase{fmt.Sprintf("synthetic-identity#%d", n), hex.EncodeToString(must(mh.Sum(b, mh.IDENTITY, -1)))})
	}
	for _, code := range []uint64{mh.SHA2_256, mh.SHA2_512, mh.SHA1, mh.BLAKE2B_MIN + 31} {
		out = append(out, nameCase{fmt.Sprintf("synthetic-hash#0x%x", code), hex.EncodeToString(must(mh.Sum([]byte("x"), code, -1)))})
	}
	return out
}

// ---------------------------------------------------------------- driver

type replayDesc struct {
	Kind string    `json:"kind"`
	S    string    `json:"s,omitempty"`
	Name *nameCase `json:"name,omitempty"`
}

func body(r *eng.Run) {
	initStrings()
	r.Rule("paths: (free) every concatenation of <= L tokens of a 24-token alphabet; (structured) every prefix x root x concatenation of <= K tail tokens; each string goes through NewPath (+ re-parse of String()) and NewPathFromURI (vs NewPath of the canonical spelling); a string is non-trivial when NewPath accepts it or it is a scheme:// URI. names: every pool peer ID through String/Cid/RoutingKey/Peer/AsPath/JSON and the alternative peer-ID spellings and back")
	r.Assume("go-cid / go-multibase / go-multihash / libp2p peer.Decode are the trusted base")
	L := eng.Pick(r, 4, 5)
	K := eng.Pick(r, 3, 4)
	ft, sp, sr, st := freeTokens(), structPrefixes(), structRoots(), structTails()
	r.Set("free_tokens", len(ft))
	r.Set("free_max_tokens", L)
	r.Set("struct_prefixes", len(sp))
	r.Set("struct_roots", len(sr))
	r.Set("struct_tail_tokens", len(st))
	r.Set("struct_max_tail_tokens", K)

	one := func(s string) {
		out, v := checkPath(s)
		r.Eval(1)
		r.Outcome(out)
		if out != "reject" {
			// canonical key of a non-trivial case: the printed form (or the raw string for
			// rejected URIs) plus the shape class of the input spelling
			key := s
			if p, err := path.NewPathFromURI(s); err == nil {
				key = p.String()
			}
			tr, dt, ds := shape(s)
			r.Distinct(key + "|" + tr + dt + ds)
			r.Add("paths_accepted_or_uri", 1)
		}
		if v != nil {
			r.Report(v)
		}
	}
	// free family: parallel over the first two tokens
	eng.ParFor(len(ft)*len(ft), func(i int) {
		a, b := ft[i/len(ft)], ft[i%len(ft)]
		if i%len(ft) == 0 {
			one(a) // length 1
		}
		one(a + b)
		for n := 1; n <= L-2; n++ {
			if r.Expired() {
				return
			}
			concatAll(ft, n, a+b, one)
		}
	})
	one("")
	// structured family: parallel over prefix x root
	eng.ParFor(len(sp)*len(sr), func(i int) {
		base := sp[i/len(sr)] + sr[i%len(sr)]
		for n := 0; n <= K; n++ {
			if r.Expired() {
				return
			}
			concatAll(st, n, base, one)
		}
	})
	if r.Expired() {
		r.Incomplete("budget expired inside the path families")
	}
	// names
	pool := namePool(r.Thorough())
	r.Set("name_pool", len(pool))
	seen := map[string]string{}
	for _, nc := range pool {
		out, v := checkName(nc)
		r.Eval(1)
		r.Outcome(out)
		r.Distinct("name:" + nc.Pid)
		if v != nil {
			r.Report(v)
		}
		// different peer IDs must print differently
		raw, _ := hex.DecodeString(nc.Pid)
		s := ipns.NameFromPeer(peer.ID(raw)).String()
		if prev, dup := seen[s]; dup && prev != nc.Pid {
			vv := eng.V("name-string-collision", "String", fmt.Sprintf("peer IDs %s and %s both print as %s", prev, nc.Pid, s))
			vv.Replay = replayDesc{Kind: "name", Name: &nc}
			r.Report(vv)
		}
		seen[s] = nc.Pid
	}
	// name strings: every textual candidate that NameFromString accepts must denote a
	// name that round-trips (the candidate need not be canonical itself)
	nAcc := 0
	for _, pre := range []string{"", "/ipns/", "/ipns//", "ipns://", "/ipfs/", "/"} {
		roots := append(structRoots(), freeTokens()...)
		// every textual form of the first peer ID of each key type, plus CIDs with the
		// same multihash under a non-libp2p-key codec
		seenType := map[string]bool{}
		for _, nc := range pool {
			typ, _, _ := strings.Cut(nc.Label, "#")
			if seenType[typ] {
				continue
			}
			seenType[typ] = true
			raw, _ := hex.DecodeString(nc.Pid)
			pid := peer.ID(raw)
			c := peer.ToCid(pid)
			roots = append(roots, pid.String(), c.String())
			for _, b := range []mb.Encoding{mb.Base36, mb.Base36Upper, mb.Base58BTC, mb.Base32Upper, mb.Base16, mb.Base64url} {
				roots = append(roots, must(c.StringOfBase(b)))
			}
			roots = append(roots, cid.NewCidV1(cid.DagProtobuf, c.Hash()).String(), cid.NewCidV1(cid.Raw, c.Hash()).String(), strings.ToUpper(pid.String()))
		}
		for _, root := range roots {
			for _, suf := range []string{"", "/", "/a"} {
				in := pre + root + suf
				var n ipns.Name
				var err error
				if pv := eng.Guard("NameFromString", func() { n, err = ipns.NameFromString(in) }); pv != nil {
					pv.Replay = replayDesc{Kind: "namestring", S: in}
					r.Report(pv)
					continue
				}
				r.Eval(1)
				if err != nil {
					r.Outcome("namestring-reject")
					continue
				}
				nAcc++
				out, v := checkName(nameCase{"fromstring#" + in, hex.EncodeToString([]byte(n.Peer()))})
				r.Outcome("namestring-accept " + out)
				r.Distinct("namestring:" + in)
				if v != nil {
					r.Report(v)
				}
			}
		}
	}
	r.Set("name_strings_accepted", nAcc)
	r.Sample(replayDesc{Kind: "path", S: "/ipfs/" + cids["v1b32"] + "/a/../b/"})
	r.Sample(replayDesc{Kind: "path", S: "IPFS://" + cids["v0"] + "/./x"})
	r.Sample(replayDesc{Kind: "name", Name: &pool[0]})
}

func replay(r *eng.Run, raw json.RawMessage) {
	initStrings()
	var d replayDesc
	if err := json.Unmarshal(raw, &d); err != nil {
		fmt.Println("bad replay:", err)
		return
	}
	var out string
	var v *eng.Violation
	if d.Kind == "name" && d.Name != nil {
		out, v = checkName(*d.Name)
	} else if d.Kind == "namestring" {
		n, err := ipns.NameFromString(d.S)
		fmt.Printf("  NameFromString(%q) = %v, %v\n", d.S, n, err)
		out = "namestring"
	} else {
		out, v = checkPath(d.S)
		if p, err := path.NewPath(d.S); err == nil {
			fmt.Printf("  NewPath(%q) = %+v\n", d.S, describe(p))
		} else {
			fmt.Printf("  NewPath(%q) error: %v\n", d.S, err)
		}
	}
	fmt.Printf("  outcome: %s\n", out)
	r.Eval(1)
	if v != nil {
		r.Report(v)
	}
}

func main() {
	eng.Main("C28", "exploration", body, replay)
}
