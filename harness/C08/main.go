//go:build verif

package main

import (
	"bytes"
	"context"
	"encoding/json"
	"fmt"
	"io"
	"os"
	"runtime/pprof"
	"strconv"
	"strings"
	"sync"
	"time"

	chunk "github.com/ipfs/boxo/chunker"
	dag "github.com/ipfs/boxo/ipld/merkledag"
	ft "github.com/ipfs/boxo/ipld/unixfs"
	h "github.com/ipfs/boxo/ipld/unixfs/importer/helpers"
	"github.com/ipfs/boxo/ipld/unixfs/importer/trickle"
	uio "github.com/ipfs/boxo/ipld/unixfs/io"
	"github.com/ipfs/boxo/verifshim/eng"
	cid "github.com/ipfs/go-cid"
	ipld "github.com/ipfs/go-ipld-format"
)

type caseD struct {
	W       int    `json:"w"`
	Chunker string `json:"chunker"`
	Raw     bool   `json:"raw_leaves"`
	Base    int    `json:"base"`  // bytes in the file built with trickle.Layout
	Extra   int    `json:"extra"` // bytes appended with trickle.Append
	Then    []int  `json:"then,omitempty"` // further appends applied to the result (each checked; the violation belongs to the last one)
}

var (
	inputOnce sync.Once
	inputBuf  []byte
)

const inputCap = 1 << 20

func input() []byte {
	inputOnce.Do(func() {
		inputBuf = make([]byte, inputCap)
		s := uint64(0x9E3779B97F4A7C15)
		for i := 0; i < len(inputBuf); {
			s ^= s << 13
			s ^= s >> 7
			s ^= s << 17
			v := s
			for k := 0; k < 8 && i < len(inputBuf); k++ {
				inputBuf[i] = byte(v)
				v >>= 8
				i++
			}
		}
	})
	return inputBuf
}

func params(c caseD, ds ipld.DAGService) h.DagBuilderParams {
	return h.DagBuilderParams{Maxlinks: c.W, RawLeaves: c.Raw, Dagserv: ds}
}

func layout(c caseD, ds ipld.DAGService, data []byte) (ipld.Node, error) {
	spl, err := chunk.FromString(bytes.NewReader(data), c.Chunker)
	if err != nil {
		return nil, err
	}
	p := params(c, ds)
	db, err := p.New(spl)
	if err != nil {
		return nil, err
	}
	return trickle.Layout(db)
}

// shapeInfo summarises the root of the base file; it is what the append path
// infers its position from (trickleDepthInfo), so it is used as the defect
// class in violation features.
type shapeInfo struct {
	leaves         int
	rootChildren   int
	layer          int  // layer of the last root child (0: direct leaves)
	repeat         int  // number of sub-trees in the last layer (1..4), 0 if none
	lastChildFull  bool // last root sub-tree is complete for its layer
	directFull     bool
}

func shapeOf(t *tnode, w int) shapeInfo {
	var s shapeInfo
	min, max := -1, 0
	if !t.leaf {
		t.leafDepths(0, &min, &max, &s.leaves)
	}
	s.rootChildren = len(t.children)
	s.directFull = s.rootChildren >= w
	s.lastChildFull = true
	if s.rootChildren > w {
		nl := s.rootChildren - w
		s.layer = (nl-1)/trickleRepeat + 1
		s.repeat = (nl-1)%trickleRepeat + 1
		s.lastChildFull = trickleFull(t.children[s.rootChildren-1], s.layer, w)
	}
	return s
}

// features describe the state trickle.Append infers its position from:
// root_state: direct-only (root has <= W children), layer-partial (last layer
// holds 1..3 sub-trees), layer-complete (last layer holds 4 sub-trees);
// base_layer: layer of the last root child (0, 1, ge2).
func (s shapeInfo) features(c caseD) []string {
	state := "direct-only"
	if s.layer > 0 {
		state = "layer-partial"
		if s.repeat == trickleRepeat {
			state = "layer-complete"
		}
	}
	layer := strconv.Itoa(s.layer)
	if s.layer >= 2 {
		layer = "ge2"
	}
	return []string{"raw_leaves", strconv.FormatBool(c.Raw), "root_state", state, "base_layer", layer,
		"base_last_subtree_full", strconv.FormatBool(s.lastChildFull)}
}

type baseFile struct {
	ds      *memDag
	root    cid.Cid
	shape   shapeInfo
	size    int  // bytes in the file
	aligned bool // every part so far ended on a chunk boundary
}

func buildBase(c caseD) (*baseFile, *eng.Violation) {
	ds := newMemDag()
	data := input()[:c.Base]
	var root ipld.Node
	var err error
	if pv := eng.Guard("Layout", func() { root, err = layout(c, ds, data) }); pv != nil {
		pv.Replay = c
		return nil, pv
	}
	if err != nil {
		v := eng.V("base-import-error", "Layout", fmt.Sprintf("%+v: %v", c, err))
		v.Replay = c
		return nil, v
	}
	t, cerr := loadTree(context.Background(), ds, root.Cid(), "root")
	if cerr != nil {
		v := eng.V("base-"+cerr.symptom, "Layout", fmt.Sprintf("%+v: %s", c, cerr.detail))
		v.Replay = c
		return nil, v
	}
	return &baseFile{ds: ds, root: root.Cid(), shape: shapeOf(t, c.W), size: c.Base, aligned: aligned(c, c.Base)}, nil
}

type result struct {
	leaves     int
	layers     int
	equalFresh int // 1 equal, 0 different, -1 not compared
}

// appendCase appends n bytes to the file b (c describes the whole history for
// reporting and replay) and checks the result. next is the resulting file.
func appendCase(b *baseFile, c caseD, n int, withReader bool) (res result, next *baseFile, out []*eng.Violation) {
	ctx := context.Background()
	res.equalFresh = -1
	all := input()[:b.size+n]
	feat := b.shape.features(c)
	fail := func(sym, op, detail string) {
		v := eng.V(sym, op, fmt.Sprintf("%+v (base: %d leaves, %d root children): %s", c, b.shape.leaves, b.shape.rootChildren, detail), feat...)
		v.Replay = c
		out = append(out, v)
	}
	baseNode, err := b.ds.Get(ctx, b.root) // fresh decode: Append may mutate the node it is given
	if err != nil {
		fail("base-root-missing", "Append", err.Error())
		return
	}
	var nroot ipld.Node
	if pv := eng.Guard("Append", func() {
		spl, e := chunk.FromString(bytes.NewReader(all[b.size:]), c.Chunker)
		if e != nil {
			err = e
			return
		}
		p := params(c, b.ds)
		db, e := p.New(spl)
		if e != nil {
			err = e
			return
		}
		nroot, err = trickle.Append(ctx, baseNode, db)
	}); pv != nil {
		pv.Features = featMap(feat)
		pv.Replay = c
		return res, nil, append(out, pv)
	}
	if err != nil {
		fail("append-error", "Append", err.Error())
		return
	}
	// Append returns the new root without storing it (callers do that)
	if err := b.ds.Add(ctx, nroot); err != nil {
		fail("append-error", "Append", err.Error())
		return
	}
	stored, err := b.ds.Get(ctx, nroot.Cid())
	if err != nil {
		fail("root-not-stored", "Append", err.Error())
		return
	}
	// sizes of every node
	t, cerr := loadTree(ctx, b.ds, nroot.Cid(), "root")
	if cerr != nil {
		fail(cerr.symptom, "Append", cerr.detail)
		return
	}
	if t.size != uint64(len(all)) {
		fail("tree-content-length-mismatch", "Append", fmt.Sprintf("leaves hold %d bytes, want %d", t.size, len(all)))
	}
	// content: leaves in order (own walker) and, when requested, the DagReader
	if got := leafBytes(ctx, b.ds, nroot.Cid(), nil); !bytes.Equal(got, all) {
		fail("content-mismatch", "Append", fmt.Sprintf("leaves concatenate to %d bytes that differ from old||new (%d bytes)", len(got), len(all)))
	}
	if withReader {
		var dr uio.DagReader
		var got []byte
		if pv := eng.Guard("DagReader", func() {
			dr, err = uio.NewDagReader(ctx, stored, b.ds)
			if err == nil {
				got, err = io.ReadAll(dr)
			}
		}); pv != nil {
			pv.Features = featMap(feat)
			pv.Replay = c
			return res, nil, append(out, pv)
		}
		if err != nil {
			fail("read-error", "DagReader", err.Error())
		} else {
			if !bytes.Equal(got, all) {
				fail("content-mismatch", "DagReader", fmt.Sprintf("read back %d bytes that differ from old||new (%d bytes)", len(got), len(all)))
			}
			if dr.Size() != uint64(len(all)) {
				fail("size-mismatch", "DagReader", fmt.Sprintf("Size()=%d want %d", dr.Size(), len(all)))
			}
		}
	}
	// shape
	min, max := -1, 0
	if !t.leaf {
		t.leafDepths(0, &min, &max, &res.leaves)
	}
	if t.leaf {
		if len(all) != 0 || t.raw {
			fail("trickle-root-is-leaf", "Append", "appended root carries data directly")
		}
	} else {
		_, cerr := checkTrickle(t, -1, c.W, "root")
		res.layers = shapeOf(t, c.W).layer
		if cerr != nil {
			fail(cerr.symptom, "Append", cerr.detail)
		}
	}
	if verr := trickle.VerifyTrickleDagStructure(stored, trickle.VerifyParams{Getter: b.ds, Direct: c.W, LayerRepeat: 4, RawLeaves: c.Raw}); verr != nil {
		v := eng.V("verify-trickle-structure-failed", "VerifyTrickleDagStructure",
			fmt.Sprintf("%+v (base: %d leaves, %d root children): %s", c, b.shape.leaves, b.shape.rootChildren, verr.Error()),
			append(append([]string{}, feat...), "verify_error", strings.ReplaceAll(verr.Error(), " ", "-"))...)
		v.Replay = c
		out = append(out, v)
	}
	// informational differential: equals a fresh Layout of old||new?
	// (only meaningful, and only computed, when the base ends on a chunk boundary)
	if b.aligned {
		if fresh, err := layout(c, newMemDag(), all); err == nil {
			if fresh.Cid().Equals(nroot.Cid()) {
				res.equalFresh = 1
			} else {
				res.equalFresh = 0
			}
		}
	}
	if len(out) == 0 && !t.leaf {
		next = &baseFile{ds: b.ds, root: nroot.Cid(), shape: shapeOf(t, c.W), size: len(all), aligned: b.aligned && aligned(c, n)}
	}
	return res, next, out
}

func aligned(c caseD, n int) bool {
	var cs int
	if _, err := fmt.Sscanf(c.Chunker, "size-%d", &cs); err != nil || cs <= 0 {
		return false
	}
	return n%cs == 0
}

func featMap(kv []string) map[string]string {
	m := map[string]string{}
	for i := 0; i+1 < len(kv); i += 2 {
		m[kv[i]] = kv[i+1]
	}
	return m
}

// leafBytes concatenates the data of all leaves below c, left to right.
func leafBytes(ctx context.Context, ds ipld.NodeGetter, c cid.Cid, acc []byte) []byte {
	n, err := ds.Get(ctx, c)
	if err != nil {
		return acc
	}
	switch nd := n.(type) {
	case *dag.RawNode:
		return append(acc, nd.RawData()...)
	case *dag.ProtoNode:
		if len(nd.Links()) == 0 {
			d, err := unwrap(nd)
			if err != nil {
				return acc
			}
			return append(acc, d...)
		}
		for _, l := range nd.Links() {
			acc = leafBytes(ctx, ds, l.Cid, acc)
		}
	}
	return acc
}

func unwrap(nd *dag.ProtoNode) ([]byte, error) {
	fsn, err := ft.FSNodeFromBytes(nd.Data())
	if err != nil {
		return nil, err
	}
	return fsn.Data(), nil
}

// ---------------------------------------------------------------------------

type item struct {
	c      caseD // Extra unused
	extras []int
	then   []int // lengths of a second append, tried after every clean first append
}

func seq(lo, hi, step int) []int {
	var s []int
	for i := lo; i <= hi; i += step {
		s = append(s, i)
	}
	return s
}

func buildItems(r *eng.Run) []item {
	var items []item
	type bound struct{ w, cs, baseLeaves, extraLeaves int }
	var bs []bound
	if r.Thorough() {
		bs = []bound{{2, 2, 130, 80}, {2, 3, 60, 60}, {3, 2, 170, 100}, {4, 2, 140, 120}, {8, 1, 150, 120}, {16, 1, 180, 100}}
	} else {
		bs = []bound{{2, 2, 70, 45}, {3, 2, 50, 40}, {4, 2, 40, 30}}
	}
	dims := map[string]any{}
	for _, b := range bs {
		ex := seq(0, b.extraLeaves*b.cs, 1)
		for _, raw := range []bool{false, true} {
			for base := 0; base <= b.baseLeaves*b.cs; base++ {
				items = append(items, item{caseD{W: b.w, Chunker: fmt.Sprintf("size-%d", b.cs), Raw: raw, Base: base}, ex, nil})
			}
		}
		dims[fmt.Sprintf("w%d_size%d", b.w, b.cs)] = fmt.Sprintf("base 0..%d bytes x extra 0..%d bytes x {pb,raw}", b.baseLeaves*b.cs, b.extraLeaves*b.cs)
	}
	// content-defined chunker: leaves of unequal sizes (16..64 bytes)
	step := eng.Pick(r, 37, 11)
	for _, w := range []int{2, 3} {
		for _, raw := range []bool{false, true} {
			for base := 0; base <= eng.Pick(r, 1500, 3000); base += step {
				items = append(items, item{caseD{W: w, Chunker: "rabin-16-32-64", Raw: raw, Base: base}, seq(0, eng.Pick(r, 1500, 3000), step+2), nil})
			}
		}
	}
	dims["w2_w3_rabin-16-32-64"] = fmt.Sprintf("base 0..%d step %d x extra 0..%d step %d bytes x {pb,raw}", eng.Pick(r, 1500, 3000), step, eng.Pick(r, 1500, 3000), step+2)
	// (3) two appends in a row: base x first append x second append
	d2 := eng.Pick(r, [3]int{24, 20, 20}, [3]int{60, 40, 40})
	for _, w := range []int{2, 3} {
		for _, raw := range []bool{false, true} {
			for base := 0; base <= d2[0]; base++ {
				items = append(items, item{caseD{W: w, Chunker: "size-2", Raw: raw, Base: base}, seq(1, d2[1], 1), seq(1, d2[2], 1)})
			}
		}
	}
	dims["double_append_w2_w3_size2"] = fmt.Sprintf("base 0..%d x first 1..%d x second 1..%d bytes x {pb,raw}; the second append runs only when the first result is well-formed", d2[0], d2[1], d2[2])
	r.Set("pair_domains", dims)
	return items
}

func body(r *eng.Run) {
	r.Rule("for every width/chunk size in pair_domains: EVERY (base length, appended length) byte pair x {dag-pb, raw leaves}; the base is built with trickle.Layout, then trickle.Append runs on a fresh decode of its root; plus a stepped grid with a content-defined chunker. Non-trivial = the appended part is non-empty and the result has sub-trees; distinct = distinct (width, base leaves, result leaves, raw)")
	r.Assume("in-memory DAG service of the harness (stores serialized blocks, decodes on every Get) is correct; chunkers are correct (C06)")
	r.Assume("input bytes are one fixed xorshift stream; content does not steer fixed-size chunking")
	items := buildItems(r)
	npairs := 0
	for _, it := range items {
		npairs += len(it.extras)
	}
	r.Set("pairs", npairs)
	r.Set("bases", len(items))
	var expired sync.Once
	var mu sync.Mutex
	hist := map[string]int{}
	var dumpF *os.File
	if f := os.Getenv("VERIF_C08_DUMP"); f != "" {
		dumpF, _ = os.Create(f)
		defer dumpF.Close()
	}
	eng.ParFor(len(items), func(i int) {
		it := items[i]
		b, v := buildBase(it.c)
		if v != nil {
			r.Report(v)
			return
		}
		local := map[string]int{}
		for _, e := range it.extras {
			if r.Expired() {
				expired.Do(func() { r.Incomplete("budget expired before all pairs ran") })
				break
			}
			c := it.c
			c.Extra = e
			res, next, vs := appendCase(b, c, e, true)
			r.Eval(1)
			for _, v := range vs {
				r.Report(v)
			}
			if dumpF != nil && next != nil { // development aid: root CIDs of well-formed results
				mu.Lock()
				fmt.Fprintf(dumpF, "%+v fresh=%d %s\n", c, res.equalFresh, next.root)
				mu.Unlock()
			}
			// second append on top of a well-formed first one
			if next != nil && e > 0 {
				for _, e2 := range it.then {
					c2 := c
					c2.Then = []int{e2}
					_, _, vs2 := appendCase(next, c2, e2, true)
					r.Eval(1)
					for _, v := range vs2 {
						r.Report(v)
					}
					local["second_appends"]++
					if len(vs2) == 0 {
						local["second_appends_clean"]++
					}
				}
			}
			r.Outcome(fmt.Sprintf("layers=%d ok=%v fresh=%d", res.layers, len(vs) == 0, res.equalFresh))
			if e > 0 && res.layers > 0 {
				r.Distinct(fmt.Sprintf("w=%d cs=%s base=%d total=%d raw=%v", c.W, c.Chunker, b.shape.leaves, res.leaves, c.Raw))
				if res.layers >= 2 && b.shape.layer >= 1 {
					r.Sample(map[string]any{"case": c, "base_leaves": b.shape.leaves, "result_leaves": res.leaves, "result_layers": res.layers})
				}
			}
			local[fmt.Sprintf("w%d_result_layers_%d", c.W, res.layers)]++
			switch res.equalFresh {
			case 1:
				local["layout_equals_fresh"]++
			case 0:
				local["layout_differs_from_fresh"]++
			}
			if b.shape.layer > 0 && !b.shape.lastChildFull && e > 0 {
				local["appends_into_partial_subtree"]++
			}
			if b.shape.layer >= 2 && !b.shape.lastChildFull && e > 0 {
				local["appends_recursing_into_layer2plus_subtree"]++
			}
		}
		mu.Lock()
		for k, n := range local {
			hist[k] += n
		}
		mu.Unlock()
	})
	for k, n := range hist {
		r.Set(k, n)
	}
}

func replay(r *eng.Run, raw json.RawMessage) {
	var c caseD
	if err := json.Unmarshal(raw, &c); err != nil {
		panic(err)
	}
	b, v := buildBase(c)
	if v != nil {
		r.Report(v)
		return
	}
	steps := append([]int{c.Extra}, c.Then...)
	for k, n := range steps {
		_, next, vs := appendCase(b, c, n, true)
		r.Eval(1)
		if k == len(steps)-1 {
			for _, v := range vs {
				r.Report(v)
			}
			return
		}
		if next == nil {
			return // earlier step no longer clean: nothing to replay
		}
		b = next
	}
}

func main() {
	if f := os.Getenv("VERIF_C08_CPUPROF"); f != "" { // development aid
		w, _ := os.Create(f)
		pprof.StartCPUProfile(w)
		go func() { time.Sleep(30 * time.Second); pprof.StopCPUProfile(); w.Close() }()
	}
	eng.Main("C08", "exploration", body, replay)
}
