//go:build verif

package main

// Independent checkers for UnixFS file DAGs: an in-memory DAG service that
// stores serialized blocks (every Get decodes from bytes), a size-bookkeeping
// walker, and shape checkers for the balanced and trickle layouts.
// (The same file is used by the C07 and C08 harnesses.)

import (
	"context"
	"fmt"
	"strconv"
	"sync"

	dag "github.com/ipfs/boxo/ipld/merkledag"
	ft "github.com/ipfs/boxo/ipld/unixfs"
	blocks "github.com/ipfs/go-block-format"
	cid "github.com/ipfs/go-cid"
	ipld "github.com/ipfs/go-ipld-format"
)

type memDag struct {
	mu   sync.Mutex
	m    map[string][]byte
	adds int
}

func newMemDag() *memDag { return &memDag{m: map[string][]byte{}} }

func (d *memDag) Add(_ context.Context, n ipld.Node) error {
	raw := append([]byte{}, n.RawData()...)
	d.mu.Lock()
	d.m[n.Cid().KeyString()] = raw
	d.adds++
	d.mu.Unlock()
	return nil
}

func (d *memDag) AddMany(ctx context.Context, ns []ipld.Node) error {
	for _, n := range ns {
		d.Add(ctx, n)
	}
	return nil
}

func (d *memDag) Get(_ context.Context, c cid.Cid) (ipld.Node, error) {
	d.mu.Lock()
	raw, ok := d.m[c.KeyString()]
	d.mu.Unlock()
	if !ok {
		return nil, ipld.ErrNotFound{Cid: c}
	}
	b, err := blocks.NewBlockWithCid(raw, c)
	if err != nil {
		return nil, err
	}
	switch c.Type() {
	case cid.DagProtobuf:
		return dag.DecodeProtobufBlock(b)
	case cid.Raw:
		return dag.DecodeRawBlock(b)
	}
	return nil, fmt.Errorf("memDag: unexpected codec %d", c.Type())
}

func (d *memDag) GetMany(ctx context.Context, cs []cid.Cid) <-chan *ipld.NodeOption {
	out := make(chan *ipld.NodeOption, len(cs))
	for _, c := range cs {
		n, err := d.Get(ctx, c)
		out <- &ipld.NodeOption{Node: n, Err: err}
	}
	close(out)
	return out
}

func (d *memDag) Remove(_ context.Context, c cid.Cid) error {
	d.mu.Lock()
	delete(d.m, c.KeyString())
	d.mu.Unlock()
	return nil
}

func (d *memDag) RemoveMany(ctx context.Context, cs []cid.Cid) error {
	for _, c := range cs {
		d.Remove(ctx, c)
	}
	return nil
}

// tnode is the decoded tree used by the shape checkers.
type tnode struct {
	leaf     bool
	raw      bool // RawNode (as opposed to a dag-pb leaf)
	size     uint64
	children []*tnode
}

type checkErr struct {
	symptom string
	detail  string
}

func (e *checkErr) Error() string { return e.symptom + ": " + e.detail }

// loadTree walks the DAG below c, verifying the size bookkeeping of every
// node: len(blocksizes)==len(links), blocksize[i]==content length of child i,
// filesize==sum(blocksizes) for internal nodes and filesize==len(data) for
// leaves. It returns the decoded tree; size is the content length found by
// traversal.
func loadTree(ctx context.Context, ds ipld.NodeGetter, c cid.Cid, path string) (*tnode, *checkErr) {
	t, e := loadTreeRec(ctx, ds, c)
	if e != nil {
		e.detail = path + e.detail
	}
	return t, e
}

func loadTreeRec(ctx context.Context, ds ipld.NodeGetter, c cid.Cid) (*tnode, *checkErr) {
	const path = ""
	n, err := ds.Get(ctx, c)
	if err != nil {
		return nil, &checkErr{"node-missing", fmt.Sprintf("%s: %v", path, err)}
	}
	switch nd := n.(type) {
	case *dag.RawNode:
		return &tnode{leaf: true, raw: true, size: uint64(len(nd.RawData()))}, nil
	case *dag.ProtoNode:
		fsn, err := ft.FSNodeFromBytes(nd.Data())
		if err != nil {
			return nil, &checkErr{"bad-unixfs-data", fmt.Sprintf("%s: %v", path, err)}
		}
		links := nd.Links()
		bs := fsn.BlockSizes()
		if len(links) == 0 {
			if len(bs) != 0 {
				return nil, &checkErr{"blocksizes-without-links", fmt.Sprintf("%s: leaf has %d blocksizes", path, len(bs))}
			}
			if fsn.FileSize() != uint64(len(fsn.Data())) {
				return nil, &checkErr{"leaf-filesize-mismatch", fmt.Sprintf("%s: leaf filesize %d, data %d bytes", path, fsn.FileSize(), len(fsn.Data()))}
			}
			return &tnode{leaf: true, size: uint64(len(fsn.Data()))}, nil
		}
		if len(bs) != len(links) {
			return nil, &checkErr{"blocksizes-links-count-mismatch", fmt.Sprintf("%s: %d blocksizes, %d links", path, len(bs), len(links))}
		}
		t := &tnode{}
		var sum uint64
		for i, l := range links {
			ch, cerr := loadTreeRec(ctx, ds, l.Cid)
			if cerr != nil {
				cerr.detail = fmt.Sprintf("/%d%s", i, cerr.detail)
				return nil, cerr
			}
			if bs[i] != ch.size {
				return nil, &checkErr{"blocksize-not-child-content-length", fmt.Sprintf("%s: blocksize[%d]=%d, child content is %d bytes", path, i, bs[i], ch.size)}
			}
			sum += bs[i]
			t.children = append(t.children, ch)
		}
		if fsn.FileSize() != sum {
			return nil, &checkErr{"filesize-not-sum-of-blocksizes", fmt.Sprintf("%s: filesize %d, sum of blocksizes %d", path, fsn.FileSize(), sum)}
		}
		t.size = sum + uint64(len(fsn.Data()))
		return t, nil
	}
	return nil, &checkErr{"unexpected-node-type", fmt.Sprintf("%s: %T", path, n)}
}

func (t *tnode) leafDepths(d int, min, max *int, nleaves *int) {
	if t.leaf {
		if *min < 0 || d < *min {
			*min = d
		}
		if d > *max {
			*max = d
		}
		*nleaves++
		return
	}
	for _, c := range t.children {
		c.leafDepths(d+1, min, max, nleaves)
	}
}

func (t *tnode) maxFanout() int {
	m := len(t.children)
	for _, c := range t.children {
		if f := c.maxFanout(); f > m {
			m = f
		}
	}
	return m
}

// checkBalanced: all leaves at equal depth, at most w children per node.
func checkBalanced(t *tnode, w int) (depth, leaves int, e *checkErr) {
	min, max := -1, 0
	t.leafDepths(0, &min, &max, &leaves)
	if min != max {
		return max, leaves, &checkErr{"balanced-leaves-at-different-depths", fmt.Sprintf("leaf depths range %d..%d", min, max)}
	}
	if f := t.maxFanout(); f > w {
		return max, leaves, &checkErr{"balanced-too-many-children", fmt.Sprintf("a node has %d children, width is %d", f, w)}
	}
	return max, leaves, nil
}

const trickleRepeat = 4

// trickleFull reports whether a sub-tree built with maximum depth k is
// complete: k==0 is a leaf; k>=1 has w leaves followed by 4 complete
// sub-trees of every depth 1..k-1.
func trickleFull(t *tnode, k, w int) bool {
	if k == 0 {
		return t.leaf
	}
	if t.leaf || len(t.children) != w+trickleRepeat*(k-1) {
		return false
	}
	for i, c := range t.children {
		ck := 0
		if i >= w {
			ck = (i-w)/trickleRepeat + 1
		}
		if !trickleFull(c, ck, w) {
			return false
		}
	}
	return true
}

// checkTrickle verifies the trickle shape of a (sub-)tree whose maximum depth
// is maxDepth (-1: the root, unlimited): the first w children are leaves, then
// groups of 4 sub-trees of maximum depth 1,2,3..., every depth < maxDepth, and
// only the last child of a node may be incomplete. It returns the deepest
// layer index used at the root (for coverage).
func checkTrickle(t *tnode, maxDepth, w int, path string) (layers int, e *checkErr) {
	if t.leaf {
		return 0, &checkErr{"trickle-leaf-where-subtree-expected", path}
	}
	if len(t.children) == 0 && maxDepth != -1 {
		return 0, &checkErr{"trickle-empty-subtree", path}
	}
	for i, c := range t.children {
		last := i == len(t.children)-1
		if i < w {
			if !c.leaf {
				return 0, &checkErr{"trickle-direct-child-not-leaf", path + "/" + strconv.Itoa(i)}
			}
			continue
		}
		p := path + "/" + strconv.Itoa(i)
		k := (i-w)/trickleRepeat + 1
		if maxDepth != -1 && k >= maxDepth {
			return 0, &checkErr{"trickle-child-too-deep", fmt.Sprintf("%s: layer %d inside a sub-tree of maximum depth %d", p, k, maxDepth)}
		}
		if k > layers {
			layers = k
		}
		if c.leaf {
			return 0, &checkErr{"trickle-leaf-where-subtree-expected", p}
		}
		// rules inside the child first (so that an over-deep child is reported
		// as such), then completeness of every child that has a right sibling
		if _, ce := checkTrickle(c, k, w, p); ce != nil {
			return 0, ce
		}
		if !last && !trickleFull(c, k, w) {
			return 0, &checkErr{"trickle-incomplete-subtree-not-last", fmt.Sprintf("%s: sub-tree of depth %d is followed by a sibling but is not complete", p, k)}
		}
	}
	return layers, nil
}
