//go:build verif

package main

import (
	"crypto/sha256"
	"encoding/binary"

	"github.com/ipfs/boxo/ipns"
	ic "github.com/libp2p/go-libp2p/core/crypto"
	"github.com/libp2p/go-libp2p/core/peer"
)

// detReader is a deterministic byte stream (counter-mode sha256 of a seed).
type detReader struct {
	seed string
	ctr  uint64
	buf  []byte
}

func (d *detReader) Read(p []byte) (int, error) {
	for i := range p {
		if len(d.buf) == 0 {
			var c [8]byte
			binary.BigEndian.PutUint64(c[:], d.ctr)
			d.ctr++
			h := sha256.Sum256(append([]byte(d.seed), c[:]...))
			d.buf = h[:]
		}
		p[i] = d.buf[0]
		d.buf = d.buf[1:]
	}
	return len(p), nil
}

type keyInfo struct {
	typ     string
	sk      ic.PrivKey
	pk      ic.PubKey
	pid     peer.ID
	name    ipns.Name
	inlined bool // public key is extractable from the peer ID
}

func must[T any](v T, err error) T {
	if err != nil {
		panic(err)
	}
	return v
}

// genKey creates one key of the given type from a fixed seed. Ed25519 and
// secp256k1 are bit-for-bit reproducible; ECDSA and RSA generation in Go mixes
// in a non-deterministic byte, so nothing in the harness depends on key bytes.
func genKey(typ, seed string) *keyInfo {
	rd := &detReader{seed: "verif-" + seed + "-" + typ}
	var sk ic.PrivKey
	var err error
	switch typ {
	case "ed25519":
		sk, _, err = ic.GenerateEd25519Key(rd)
	case "secp256k1":
		b := make([]byte, 32)
		rd.Read(b)
		sk, err = ic.UnmarshalSecp256k1PrivateKey(b)
	case "ecdsa":
		sk, _, err = ic.GenerateECDSAKeyPair(rd)
	case "rsa2048":
		sk, _, err = ic.GenerateRSAKeyPair(2048, rd)
	default:
		panic("unknown key type " + typ)
	}
	if err != nil {
		panic(err)
	}
	k := &keyInfo{typ: typ, sk: sk, pk: sk.GetPublic()}
	k.pid = must(peer.IDFromPrivateKey(sk))
	k.name = ipns.NameFromPeer(k.pid)
	_, err = k.pid.ExtractPublicKey()
	k.inlined = err == nil
	return k
}

var keyTypes = []string{"ed25519", "secp256k1", "ecdsa", "rsa2048"}
