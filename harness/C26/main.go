//go:build verif

// C26: IPNS records round-trip through creation, encoding and validation.
//
// Full Cartesian product of declared finite domains (key type x value path x
// sequence x expiry x TTL x metadata map x option set) through the real
// ipns.NewRecord -> MarshalRecord -> UnmarshalRecord -> Validate*, comparing
// every accessor of the created and of the decoded record with the inputs.
package main

import (
	"bytes"
	"encoding/json"
	"errors"
	"fmt"
	"math"
	"sort"
	"strings"
	"time"

	"github.com/ipfs/boxo/ipns"
	"github.com/ipfs/boxo/path"
	"github.com/ipfs/boxo/verifshim/eng"
	"github.com/ipfs/go-cid"
	ic "github.com/libp2p/go-libp2p/core/crypto"
	"github.com/libp2p/go-libp2p/core/peer"
	mh "github.com/multiformats/go-multihash"
)

// ---- domains ----

type named[T any] struct {
	n string
	v T
}

func names[T any](xs []named[T]) []string {
	out := make([]string, len(xs))
	for i, x := range xs {
		out[i] = x.n
	}
	return out
}

func find[T any](xs []named[T], n string) (named[T], bool) {
	for _, x := range xs {
		if x.n == n {
			return x, true
		}
	}
	var z named[T]
	return z, false
}

const (
	nQuickValues = 3
	nQuickMds    = 6
)

var (
	keys    = map[string]*keyInfo{}
	values  []named[path.Path]
	seqs    []named[uint64]
	eols    []named[time.Time]
	ttls    []named[time.Duration]
	mds     []named[map[string]any]
	badMds  []named[map[string]any]
	v1opts  = []string{"v1=default", "v1=true", "v1=false"}
	embopts = []string{"pk=default", "pk=true", "pk=false"}
	startAt = time.Now()
)

func mkCid(s string, v0 bool) cid.Cid {
	h := must(mh.Sum([]byte(s), mh.SHA2_256, -1))
	if v0 {
		return cid.NewCidV0(h)
	}
	return cid.NewCidV1(cid.DagProtobuf, h)
}

func initDomains(full bool) {
	for _, t := range keyTypes {
		keys[t] = genKey(t, "C26")
	}
	c1 := mkCid("c26", false)
	np := func(s string) path.Path { return must(path.NewPath(s)) }
	values = []named[path.Path]{
		{"ipfs-cidv1", path.FromCid(c1)},
		{"ipns-name", keys["ed25519"].name.AsPath()},
		{"ipfs-cid/a/b", np("/ipfs/" + c1.String() + "/a/b")},
	}
	if full {
		values = append(values,
			named[path.Path]{"ipfs-cidv0", path.FromCid(mkCid("c26", true))},
			named[path.Path]{"ipns-dnslink", np("/ipns/example.com/x")},
			named[path.Path]{"ipld-cid/x", np("/ipld/" + c1.String() + "/x")},
			named[path.Path]{"ipfs-unicode-space", np("/ipfs/" + c1.String() + "/é x/%2F")},
			named[path.Path]{"ipfs-noop", np(ipns.NoopValue)},
		)
	}
	seqs = []named[uint64]{{"0", 0}, {"1", 1}, {"2^31", 1 << 31}, {"2^63-1", 1<<63 - 1}, {"2^63", 1 << 63}, {"2^64-1", math.MaxUint64}}
	// All expiries are at least a day in the future, so the clock cannot decide.
	y2038 := time.Date(2038, 1, 19, 3, 14, 8, 0, time.UTC)
	y9999 := time.Date(9999, 12, 31, 23, 59, 59, 0, time.UTC)
	eols = []named[time.Time]{
		{"now+24h(local,monotonic)", startAt.Add(24 * time.Hour)},
		{"2038-01-19T03:14:08Z", y2038},
		{"2038+1ns", y2038.Add(1)},
		{"9999-12-31T23:59:59.999999999Z", y9999.Add(999999999)},
		{"2100+05:30.000000500", time.Date(2100, 1, 1, 0, 0, 0, 500, time.FixedZone("x", 5*3600+1800))},
	}
	if full {
		eols = append(eols,
			named[time.Time]{"2038+999999999ns", y2038.Add(999999999)},
			named[time.Time]{"9999-12-31T23:59:59Z", y9999},
			named[time.Time]{"9999+1ns", y9999.Add(1)},
			named[time.Time]{"maxUnixNano", time.Unix(0, math.MaxInt64)},
			named[time.Time]{"maxUnixNano+1ns", time.Unix(0, math.MaxInt64).Add(1)},
			named[time.Time]{"2100-14:00.1", time.Date(2100, 6, 30, 23, 59, 59, 100000000, time.FixedZone("y", -14*3600))},
			named[time.Time]{"now+24h.round(0).UTC", startAt.Add(24 * time.Hour).Round(0).UTC()},
		)
	}
	ttls = []named[time.Duration]{{"0", 0}, {"1h", time.Hour}, {"max", math.MaxInt64}}
	if full {
		ttls = append(ttls, named[time.Duration]{"1ns", 1}, named[time.Duration]{"1s+1ns", time.Second + 1})
	}
	mds = []named[map[string]any]{
		{"none", nil},
		{"empty", map[string]any{}},
		{"string", map[string]any{"_s": "str"}},
		{"mixed", map[string]any{"_s": "x", "_b": []byte{0, 0xff}, "_i64": int64(math.MinInt64), "_int": int(7), "_t": true, "_f": false}},
		{"key-order", map[string]any{"a": "short key", "Sequencf": int64(1), "ValiditX": "same length as reserved", "zzzzzzzzzzzzzzzzzzzzzzzz": []byte("long")}},
		{"case-variants", map[string]any{"value": "lower", "ttl": int64(-1), "TTl": true, "sequence": int64(math.MaxInt64)}},
	}
	if full {
		mds = append(mds,
			named[map[string]any]{"bytes", map[string]any{"_b": []byte("bytes")}},
			named[map[string]any]{"int64", map[string]any{"_i": int64(-1)}},
			named[map[string]any]{"int", map[string]any{"_i": int(math.MaxInt64)}},
			named[map[string]any]{"bool", map[string]any{"_t": true}},
			named[map[string]any]{"zero-values", map[string]any{"_es": "", "_eb": []byte{}, "_z": int64(0), "_f": false}},
			named[map[string]any]{"unicode", map[string]any{"_é": "ü", "_\x00": "nul in key", "_bin": "\xff\xfe not utf8"}},
			named[map[string]any]{"nil-bytes", map[string]any{"_nb": []byte(nil)}},
		)
	}
	type st struct{ X int }
	s := "p"
	bad := []named[[2]any]{
		{"empty-key", [2]any{"", "v"}},
		{"reserved-Value", [2]any{"Value", []byte("/ipfs/x")}},
		{"reserved-Validity", [2]any{"Validity", []byte("2100-01-01T00:00:00Z")}},
		{"reserved-ValidityType", [2]any{"ValidityType", int64(0)}},
		{"reserved-Sequence", [2]any{"Sequence", int64(99)}},
		{"reserved-TTL", [2]any{"TTL", int64(1)}},
		{"type-nil", [2]any{"_x", nil}},
		{"type-float64", [2]any{"_x", 1.5}},
		{"type-map", [2]any{"_x", map[string]any{"n": 1}}},
		{"type-list", [2]any{"_x", []any{1}}},
		{"type-stringslice", [2]any{"_x", []string{"a"}}},
		{"type-uint64", [2]any{"_x", uint64(1)}},
		{"type-uint", [2]any{"_x", uint(1)}},
		{"type-int32", [2]any{"_x", int32(1)}},
		{"type-int8", [2]any{"_x", int8(1)}},
		{"type-ptr", [2]any{"_x", &s}},
		{"type-struct", [2]any{"_x", st{1}}},
		{"type-duration", [2]any{"_x", time.Second}},
		{"type-cid", [2]any{"_x", mkCid("x", false)}},
	}
	for _, b := range bad {
		k := b.v[0].(string)
		badMds = append(badMds, named[map[string]any]{b.n, map[string]any{k: b.v[1]}})
		badMds = append(badMds, named[map[string]any]{b.n + "+valid", map[string]any{k: b.v[1], "_ok": "fine", "_ok2": int64(2)}})
	}
}

// ---- a tiny KeyBook ----

type keyBook map[peer.ID]ic.PubKey

func (k keyBook) PubKey(p peer.ID) ic.PubKey              { return k[p] }
func (k keyBook) AddPubKey(p peer.ID, pk ic.PubKey) error { k[p] = pk; return nil }
func (k keyBook) PrivKey(peer.ID) ic.PrivKey              { return nil }
func (k keyBook) AddPrivKey(peer.ID, ic.PrivKey) error    { return nil }
func (k keyBook) PeersWithKeys() peer.IDSlice             { return nil }
func (k keyBook) RemovePeer(p peer.ID)                    { delete(k, p) }

// ---- one case ----

type caseDesc struct {
	Key   string `json:"key"`
	Value string `json:"value"`
	Seq   string `json:"seq"`
	EOL   string `json:"eol"`
	TTL   string `json:"ttl"`
	MD    string `json:"metadata"`
	V1    string `json:"v1"`
	Emb   string `json:"embed"`
	// size boundary cases: pad the value path with this many bytes
	Pad int `json:"pad,omitempty"`
}

type inputs struct {
	k     *keyInfo
	val   path.Path
	seq   uint64
	eol   time.Time
	ttl   time.Duration
	md    map[string]any
	opts  []ipns.Option
	v1    bool
	embed bool
}

func (c caseDesc) resolve() (*inputs, error) {
	in := &inputs{k: keys[c.Key]}
	if in.k == nil {
		return nil, fmt.Errorf("unknown key %q", c.Key)
	}
	v, ok1 := find(values, c.Value)
	s, ok2 := find(seqs, c.Seq)
	e, ok3 := find(eols, c.EOL)
	t, ok4 := find(ttls, c.TTL)
	m, ok5 := find(mds, c.MD)
	if !ok5 {
		m, ok5 = find(badMds, c.MD)
	}
	if !(ok1 && ok2 && ok3 && ok4 && ok5) {
		return nil, fmt.Errorf("case %+v names a value outside the domains of this tier (replay with the tier that recorded it)", c)
	}
	in.val, in.seq, in.eol, in.ttl, in.md = v.v, s.v, e.v, t.v, m.v
	if c.Pad > 0 {
		in.val = must(path.NewPath(in.val.String() + "/" + strings.Repeat("p", c.Pad)))
	}
	in.v1 = true
	switch c.V1 {
	case "v1=true":
		in.opts = append(in.opts, ipns.WithV1Compatibility(true))
	case "v1=false":
		in.opts = append(in.opts, ipns.WithV1Compatibility(false))
		in.v1 = false
	}
	in.embed = !in.k.inlined
	switch c.Emb {
	case "pk=true":
		in.opts = append(in.opts, ipns.WithPublicKey(true))
		in.embed = true
	case "pk=false":
		in.opts = append(in.opts, ipns.WithPublicKey(false))
		in.embed = false
	}
	if in.md != nil {
		in.opts = append(in.opts, ipns.WithMetadata(in.md))
	}
	return in, nil
}

// feats describes the class of a case (not the individual case), so that the
// number of distinct violation signatures stays small.
func (c caseDesc) feats(extra ...string) []string {
	f := []string{"key", c.Key, "v1", fmt.Sprint(c.V1 != "v1=false")}
	if s, ok := find(seqs, c.Seq); ok {
		f = append(f, "seq_high_bit", fmt.Sprint(s.v >= 1<<63))
	}
	if e, ok := find(eols, c.EOL); ok {
		f = append(f, "eol_subsecond", fmt.Sprint(e.v.Nanosecond() != 0))
	}
	if t, ok := find(ttls, c.TTL); ok {
		cls := "whole-seconds"
		if t.v%time.Second != 0 {
			cls = "sub-second"
		}
		f = append(f, "ttl_class", cls)
	}
	f = append(f, "has_metadata", fmt.Sprint(c.MD != "none" && c.MD != "empty"))
	for i := 0; i+1 < len(extra); i += 2 {
		switch extra[i] {
		case "stage", "eol", "metadata": // part of the detail text only
		default:
			f = append(f, extra[i], extra[i+1])
		}
	}
	return f
}

// mdEqual compares one metadata value returned by the record with the input.
func mdEqual(mv ipns.MetadataValue, want any) (bool, string) {
	switch w := want.(type) {
	case string:
		g, err := mv.AsString()
		return mv.Kind() == ipns.MetadataKindString && err == nil && g == w, fmt.Sprintf("kind=%v AsString=%q,%v", mv.Kind(), g, err)
	case []byte:
		g, err := mv.AsBytes()
		return mv.Kind() == ipns.MetadataKindBytes && err == nil && bytes.Equal(g, w), fmt.Sprintf("kind=%v AsBytes=%x,%v", mv.Kind(), g, err)
	case int64:
		g, err := mv.AsInt()
		return mv.Kind() == ipns.MetadataKindInt && err == nil && g == w, fmt.Sprintf("kind=%v AsInt=%d,%v", mv.Kind(), g, err)
	case int:
		g, err := mv.AsInt()
		return mv.Kind() == ipns.MetadataKindInt && err == nil && g == int64(w), fmt.Sprintf("kind=%v AsInt=%d,%v", mv.Kind(), g, err)
	case bool:
		g, err := mv.AsBool()
		return mv.Kind() == ipns.MetadataKindBool && err == nil && g == w, fmt.Sprintf("kind=%v AsBool=%v,%v", mv.Kind(), g, err)
	}
	return false, "unsupported expectation"
}

// checkAccessors compares every accessor with the inputs.
func checkAccessors(stage string, rec *ipns.Record, in *inputs, c caseDesc) *eng.Violation {
	bad := func(acc, detail string) *eng.Violation {
		return eng.V("accessor-differs-from-input", acc, fmt.Sprintf("%s record, case %+v: %s", stage, c, detail), c.feats("stage", stage, "eol", c.EOL, "metadata", c.MD)...)
	}
	if v, err := rec.Value(); err != nil || v.String() != in.val.String() {
		return bad("Value", fmt.Sprintf("Value()=%v,%v want %s", v, err, in.val))
	}
	if s, err := rec.Sequence(); err != nil || s != in.seq {
		return bad("Sequence", fmt.Sprintf("Sequence()=%d,%v want %d", s, err, in.seq))
	}
	if e, err := rec.Validity(); err != nil || !e.Equal(in.eol) || e.Nanosecond() != in.eol.Nanosecond() {
		return bad("Validity", fmt.Sprintf("Validity()=%v,%v want %v", e, err, in.eol.UTC()))
	}
	if t, err := rec.ValidityType(); err != nil || t != ipns.ValidityEOL {
		return bad("ValidityType", fmt.Sprintf("ValidityType()=%v,%v want EOL", t, err))
	}
	if t, err := rec.TTL(); err != nil || t != in.ttl {
		return bad("TTL", fmt.Sprintf("TTL()=%d,%v want %d", t, err, in.ttl))
	}
	pk, err := rec.PubKey()
	if in.embed {
		if err != nil || !pk.Equals(in.k.pk) {
			return bad("PubKey", fmt.Sprintf("PubKey() err=%v, want the signing key embedded", err))
		}
	} else if !errors.Is(err, ipns.ErrPublicKeyNotFound) {
		return bad("PubKey", fmt.Sprintf("PubKey()=%v,%v want ErrPublicKeyNotFound (key not embedded)", pk, err))
	}
	// metadata
	got := map[string]ipns.MetadataValue{}
	n := 0
	for k, v := range rec.MetadataEntries() {
		got[k] = v
		n++
	}
	if n != len(in.md) || len(got) != len(in.md) {
		ks := []string{}
		for k := range got {
			ks = append(ks, k)
		}
		sort.Strings(ks)
		return bad("MetadataEntries", fmt.Sprintf("MetadataEntries yields %d entries %q, input has %d", n, ks, len(in.md)))
	}
	for k, want := range in.md {
		if ok, d := mdEqual(got[k], want); !ok {
			return bad("MetadataEntries", fmt.Sprintf("entry %q: %s want %#v", k, d, want))
		}
		if !rec.MetadataExists(k) {
			return bad("MetadataExists", fmt.Sprintf("MetadataExists(%q)=false", k))
		}
		mv, err := rec.Metadata(k)
		if err != nil {
			return bad("Metadata", fmt.Sprintf("Metadata(%q) error %v", k, err))
		}
		if ok, d := mdEqual(mv, want); !ok {
			return bad("Metadata", fmt.Sprintf("Metadata(%q): %s want %#v", k, d, want))
		}
	}
	for _, k := range []string{"_absent", "Value", "TTL"} {
		if _, in := in.md[k]; in {
			continue
		}
		if rec.MetadataExists(k) {
			return bad("MetadataExists", fmt.Sprintf("MetadataExists(%q)=true but it is not an input metadata key", k))
		}
		if _, err := rec.Metadata(k); err == nil {
			return bad("Metadata", fmt.Sprintf("Metadata(%q) succeeded but it is not an input metadata key", k))
		}
	}
	return nil
}

func checkValidates(stage string, rec *ipns.Record, raw []byte, in *inputs, c caseDesc) *eng.Violation {
	bad := func(op, detail string) *eng.Violation {
		return eng.V("created-record-does-not-validate", op, fmt.Sprintf("%s record, case %+v: %s", stage, c, detail), c.feats("stage", stage, "eol", c.EOL, "metadata", c.MD)...)
	}
	if err := ipns.Validate(rec, in.k.pk); err != nil {
		return bad("Validate", fmt.Sprintf("Validate(rec, signing key) = %v", err))
	}
	if in.embed || in.k.inlined {
		if err := ipns.ValidateWithName(rec, in.k.name); err != nil {
			return bad("ValidateWithName", fmt.Sprintf("ValidateWithName = %v", err))
		}
		if raw != nil {
			if err := (ipns.Validator{}).Validate(string(in.k.name.RoutingKey()), raw); err != nil {
				return bad("Validator.Validate", fmt.Sprintf("Validator{}.Validate = %v", err))
			}
		}
	}
	if raw != nil {
		kb := keyBook{in.k.pid: in.k.pk}
		if err := (ipns.Validator{KeyBook: kb}).Validate(string(in.k.name.RoutingKey()), raw); err != nil {
			return bad("Validator.Validate", fmt.Sprintf("Validator{KeyBook with the key}.Validate = %v", err))
		}
	}
	return nil
}

// runCase executes one valid-input case. Returns an outcome class.
func runCase(c caseDesc) (string, *eng.Violation) {
	in, err := c.resolve()
	if err != nil {
		return "", eng.V("bad-case", "", err.Error())
	}
	var out string
	var v *eng.Violation
	if pv := eng.Guard("NewRecord", func() { out, v = runCaseIn(c, in) }); pv != nil {
		pv.Features = map[string]string{"key": c.Key, "seq": c.Seq, "ttl": c.TTL}
		return "panic", pv
	}
	return out, v
}

func runCaseIn(c caseDesc, in *inputs) (string, *eng.Violation) {
	rec, err := ipns.NewRecord(in.k.sk, in.val, in.seq, in.eol, in.ttl, in.opts...)
	if err != nil {
		return "create-error", eng.V("creation-rejected-valid-input", "NewRecord", fmt.Sprintf("case %+v: NewRecord = %v", c, err), c.feats("metadata", c.MD)...)
	}
	if v := checkAccessors("created", rec, in, c); v != nil {
		return "created-mismatch", v
	}
	raw, err := ipns.MarshalRecord(rec)
	if err != nil {
		return "marshal-error", eng.V("marshal-failed", "MarshalRecord", fmt.Sprintf("case %+v: %v", c, err), c.feats()...)
	}
	over := len(raw) > ipns.MaxRecordSize
	rec2, err := ipns.UnmarshalRecord(raw)
	if err != nil {
		return "unmarshal-error", eng.V("created-record-does-not-unmarshal", "UnmarshalRecord", fmt.Sprintf("case %+v: record of %d bytes: UnmarshalRecord = %v", c, len(raw), err),
			c.feats("over_max_record_size", fmt.Sprint(over))...)
	}
	if v := checkValidates("created", rec, nil, in, c); v != nil {
		v.Features["over_max_record_size"] = fmt.Sprint(over)
		return "created-invalid", v
	}
	if v := checkAccessors("decoded", rec2, in, c); v != nil {
		return "decoded-mismatch", v
	}
	if v := checkValidates("decoded", rec2, raw, in, c); v != nil {
		v.Features["over_max_record_size"] = fmt.Sprint(over)
		return "decoded-invalid", v
	}
	raw2, err := ipns.MarshalRecord(rec2)
	if err != nil || !bytes.Equal(raw, raw2) {
		return "remarshal-differs", eng.V("remarshal-differs", "MarshalRecord", fmt.Sprintf("case %+v: marshal(unmarshal(b)) != b (%v)", c, err), c.feats()...)
	}
	return fmt.Sprintf("ok v1=%v embed=%v inl=%v md=%d", in.v1, in.embed, in.k.inlined, len(in.md)), nil
}

// runBad executes one invalid-metadata case: creation must be refused.
func runBad(c caseDesc) (string, *eng.Violation) {
	in, err := c.resolve()
	if err != nil {
		return "", eng.V("bad-case", "", err.Error())
	}
	kind := c.MD
	if i := strings.IndexByte(kind, '-'); i > 0 {
		kind = kind[:i]
	}
	var rec *ipns.Record
	if pv := eng.Guard("NewRecord", func() { rec, err = ipns.NewRecord(in.k.sk, in.val, in.seq, in.eol, in.ttl, in.opts...) }); pv != nil {
		pv.Features = map[string]string{"metadata_kind": kind}
		return "panic", pv
	}
	if err == nil {
		raw, _ := ipns.MarshalRecord(rec)
		return "accepted", eng.V("invalid-metadata-accepted", "NewRecord", fmt.Sprintf("case %+v: NewRecord succeeded with metadata %#v (record %d bytes)", c, in.md, len(raw)),
			"metadata_kind", kind, "metadata", strings.TrimSuffix(c.MD, "+valid"))
	}
	cls := "other-error"
	switch {
	case errors.Is(err, ipns.ErrMetadataEmptyKey):
		cls = "ErrMetadataEmptyKey"
	case errors.Is(err, ipns.ErrMetadataConflict):
		cls = "ErrMetadataConflict"
	case errors.Is(err, ipns.ErrMetadataUnsupportedType):
		cls = "ErrMetadataUnsupportedType"
	case errors.Is(err, ipns.ErrInvalidRecord):
		cls = "ErrInvalidRecord"
	}
	return "rejected " + cls, nil
}

func body(r *eng.Run) {
	initDomains(r.Thorough())
	r.Rule("Cartesian product (full for ed25519/secp256k1/ecdsa; for rsa2048 in the thorough tier restricted to the quick-tier value and metadata domains) key x value x seq x EOL x TTL x metadata x v1-option x embed-option through NewRecord -> accessors -> MarshalRecord -> UnmarshalRecord -> accessors -> Validate / ValidateWithName / Validator.Validate (with and without KeyBook); plus every invalid metadata entry (alone and next to valid entries) x key x options, which must be refused; plus value paths padded to put the encoded record just below / at / above MaxRecordSize. Every case with seq>1 or metadata or non-default options counts as non-trivial")
	r.Assume("libp2p key generation/signing, protobuf and dag-cbor codecs are correct")
	r.Assume("negative TTLs are outside the statement ('non-negative TTL') and are not enumerated")
	r.Set("domain_keys", keyTypes)
	r.Set("domain_values", names(values))
	r.Set("domain_seq", names(seqs))
	r.Set("domain_eol", names(eols))
	r.Set("domain_ttl", names(ttls))
	r.Set("domain_metadata", names(mds))
	r.Set("domain_invalid_metadata", names(badMds))
	r.Set("domain_options", append(append([]string{}, eng.Pick(r, []string{"v1=default", "v1=false"}, v1opts)...), embopts...))

	// outer product index: key x value x seq x eol
	type outer struct{ k, v, s, e int }
	var outs []outer
	for k := range keyTypes {
		for v := range values {
			for s := range seqs {
				for e := range eols {
					outs = append(outs, outer{k, v, s, e})
				}
			}
		}
	}
	eng.Shuffle(r, outs)
	// "v1=true" is the explicit spelling of the default; the quick tier skips it.
	v1s := eng.Pick(r, []string{"v1=default", "v1=false"}, v1opts)
	// RSA-2048 signing costs ~30x the other schemes: in the thorough tier the RSA key
	// runs the product with the quick-tier value and metadata domains (the first
	// nQuickValues / nQuickMds entries), the other three keys run the full product.
	eng.ParFor(len(outs), func(i int) {
		o := outs[i]
		rsa := keyTypes[o.k] == "rsa2048"
		if rsa && o.v >= nQuickValues {
			return
		}
		for _, t := range ttls {
			for mi, m := range mds {
				if r.Expired() {
					return
				}
				if rsa && mi >= nQuickMds {
					continue
				}
				for _, v1 := range v1s {
					for _, em := range embopts {
						c := caseDesc{Key: keyTypes[o.k], Value: values[o.v].n, Seq: seqs[o.s].n, EOL: eols[o.e].n, TTL: t.n, MD: m.n, V1: v1, Emb: em}
						out, v := runCase(c)
						r.Eval(1)
						r.Outcome(out)
						if v != nil {
							v.Replay = c
							r.Report(v)
							continue
						}
						if seqs[o.s].v > 1 || len(m.v) > 0 || v1 != v1opts[0] || em != embopts[0] {
							r.Distinct(fmt.Sprint(c))
						}
					}
				}
			}
		}
	})
	if r.Expired() {
		r.Incomplete("budget expired inside the main product")
	}

	// invalid metadata
	var bads []caseDesc
	for _, k := range keyTypes {
		for _, m := range badMds {
			for _, v1 := range []string{"v1=default", "v1=false"} {
				for _, em := range []string{"pk=default", "pk=true"} {
					bads = append(bads, caseDesc{Key: k, Value: values[0].n, Seq: "1", EOL: eols[1].n, TTL: "1h", MD: m.n, V1: v1, Emb: em})
				}
			}
		}
	}
	eng.ParFor(len(bads), func(i int) {
		out, v := runBad(bads[i])
		r.Eval(1)
		r.Outcome(out)
		r.Add("invalid_metadata_cases", 1)
		r.Distinct(fmt.Sprint(bads[i]))
		if v != nil {
			v.Replay = bads[i]
			r.Report(v)
		}
	})

	// size boundary: pad the value path so that the record crosses MaxRecordSize.
	sizeBoundary(r)
	r.Sample(caseDesc{Key: "rsa2048", Value: values[2].n, Seq: "2^63", EOL: eols[3].n, TTL: "max", MD: "mixed", V1: "v1=false", Emb: "pk=false"})
	r.Sample(bads[len(bads)/2])
}

// sizeBoundary finds, per (key, v1 option), the padding at which the encoded
// record first exceeds MaxRecordSize and runs the cases around it.
func sizeBoundary(r *eng.Run) {
	type job struct{ k, v1 string }
	var jobs []job
	for _, k := range keyTypes {
		for _, v1 := range []string{"v1=default", "v1=false"} {
			jobs = append(jobs, job{k, v1})
		}
	}
	eng.ParFor(len(jobs), func(i int) {
		j := jobs[i]
		base := caseDesc{Key: j.k, Value: values[0].n, Seq: "1", EOL: eols[1].n, TTL: "1h", MD: "none", V1: j.v1, Emb: "pk=default"}
		size := func(pad int) int {
			c := base
			c.Pad = pad
			in, _ := c.resolve()
			rec, err := ipns.NewRecord(in.k.sk, in.val, in.seq, in.eol, in.ttl, in.opts...)
			if err != nil {
				return math.MaxInt // refused at creation: counts as "too large" for the search
			}
			b, _ := ipns.MarshalRecord(rec)
			return len(b)
		}
		// smallest pad with size > MaxRecordSize (size is monotone in pad)
		lo, hi := 1, ipns.MaxRecordSize+16
		for lo < hi {
			mid := (lo + hi) / 2
			if size(mid) > ipns.MaxRecordSize {
				hi = mid
			} else {
				lo = mid + 1
			}
		}
		for _, pad := range []int{lo - 2, lo - 1, lo, lo + 1, ipns.MaxRecordSize + 16} {
			c := base
			c.Pad = pad
			out, v := runCase(c)
			r.Eval(1)
			r.Add("size_boundary_cases", 1)
			r.Outcome("size:" + out)
			r.Distinct(fmt.Sprint(c))
			if v != nil {
				v.Replay = c
				r.Report(v)
			}
		}
	})
}

func replay(r *eng.Run, raw json.RawMessage) {
	initDomains(true) // the thorough domains contain the quick ones
	var c caseDesc
	if err := json.Unmarshal(raw, &c); err != nil {
		fmt.Println("bad replay:", err)
		return
	}
	var out string
	var v *eng.Violation
	if _, isBad := find(badMds, c.MD); isBad {
		out, v = runBad(c)
	} else {
		out, v = runCase(c)
	}
	r.Eval(1)
	fmt.Printf("  case %+v => %s\n", c, out)
	if v != nil {
		v.Replay = c
		r.Report(v)
	}
}

func main() {
	eng.Main("C26", "exploration", body, replay)
}
