//go:build verif

// C29: name publishing is monotone and resolution is consistent.
//
// namesys is compiled from a rewritten copy whose time.Now/Until read the
// harness clock (passthrough mode, no scheduler). Part (a) (parta.go) is an
// operation-sequence BFS executed in worker processes (the clock is a process
// global, so in-process parallelism is not possible); part (b) (partb.go) is an
// exhaustive enumeration of name chains with a constant clock.
package main

import (
	"bytes"
	"crypto/sha256"
	"encoding/json"
	"fmt"
	"sync/atomic"
	"time"

	"github.com/ipfs/boxo/ipns"
	"github.com/ipfs/boxo/namesys"
	"github.com/ipfs/boxo/path"
	offroute "github.com/ipfs/boxo/routing/offline"
	"github.com/ipfs/boxo/verifshim/eng"
	"github.com/ipfs/boxo/verifshim/vsched"
	ds "github.com/ipfs/go-datastore"
	dssync "github.com/ipfs/go-datastore/sync"
	record "github.com/libp2p/go-libp2p-record"
	ci "github.com/libp2p/go-libp2p/core/crypto"
	"github.com/libp2p/go-libp2p/core/peer"
	"github.com/libp2p/go-libp2p/core/routing"
)

// ---------------------------------------------------------------- clock

var clockNanos atomic.Int64

// t0 is far in the future of the real clock: ipns.Validate compares record
// EOLs (virtual now + 48 h) with the real time.Now and must never reject.
var t0 = time.Date(2100, 1, 1, 0, 0, 0, 0, time.UTC)

func setClock(t time.Time) { clockNanos.Store(t.UnixNano()) }
func clockNow() time.Time  { return time.Unix(0, clockNanos.Load()).UTC() }

func init() {
	setClock(t0)
	vsched.SetPassthroughClock(clockNow)
}

// ---------------------------------------------------------------- names

type nameKey struct {
	priv ci.PrivKey
	name ipns.Name
	p    string // "/ipns/<name>"
}

func mkKey(i int) nameKey {
	seed := sha256.Sum256([]byte(fmt.Sprintf("verif-c29-name-%d", i)))
	priv, _, err := ci.GenerateEd25519Key(bytes.NewReader(seed[:]))
	if err != nil {
		panic(err)
	}
	pid, err := peer.IDFromPrivateKey(priv)
	if err != nil {
		panic(err)
	}
	n := ipns.NameFromPeer(pid)
	return nameKey{priv: priv, name: n, p: n.AsPath().String()}
}

var keys = func() []nameKey {
	var ks []nameKey
	for i := 0; i < 6; i++ {
		ks = append(ks, mkKey(i))
	}
	return ks
}()

const (
	cidX = "QmUNLLsPACCz1vLxQVkXqqLX5R1X345qqfHbsf67hvA3Nn"
	cidY = "Qmcqtw8FfrVSBaRmbWwHxt3AuySBhJLcvmFYi3Lbc4xnwj"
)

func mustPath(s string) path.Path {
	p, err := path.NewPath(s)
	if err != nil {
		panic(fmt.Sprintf("bad path %q: %v", s, err))
	}
	return p
}

// newStore builds the shared backing: one map datastore used by the offline
// router (validating ipns + pk records) and by the publisher's local record.
func newStore() (ds.Batching, routing.ValueStore) {
	dst := dssync.MutexWrap(ds.NewMapDatastore())
	rt := offroute.NewOfflineRouter(dst, record.NamespacedValidator{
		"ipns": ipns.Validator{},
		"pk":   record.PublicKeyValidator{},
	})
	return dst, rt
}

func newNS(rt routing.ValueStore, dst ds.Datastore, cache int, maxTTL *time.Duration) namesys.NameSystem {
	opts := []namesys.Option{namesys.WithDatastore(dst)}
	if cache > 0 {
		opts = append(opts, namesys.WithCache(cache))
	}
	if maxTTL != nil {
		opts = append(opts, namesys.WithMaxCacheTTL(*maxTTL))
	}
	ns, err := namesys.NewNameSystem(rt, opts...)
	if err != nil {
		panic(err)
	}
	return ns
}

// ---------------------------------------------------------------- main

type anyReplay struct {
	Part   string          `json:"part"`
	Config string          `json:"config"`
	Ops    []string        `json:"ops"`
	Chain  json.RawMessage `json:"chain"`
}

func main() {
	eng.WorkerMain = workerMainA
	eng.Main("C29", "model_checking", func(r *eng.Run) {
		r.Rule("(a) BFS over Publish/Resolve/advance-clock sequences per configuration (cache size x max-cache-TTL), successor = replay on a fresh name system + 1 op, state = stored records + resolver cache dump + model; non-trivial = path of >= 2 operations. (b) every chain shape (length, terminal /ipfs or back-edge) x per-hop TTL vector x per-hop remainder vector x request remainder x depth limit x cache mode; non-trivial = chain of >= 2 hops")
		r.Assume("routing/offline over go-datastore MapDatastore, ipns record creation/validation and golang-lru are correct")
		r.Assume("record EOLs are 48 h ahead of the virtual clock and the virtual clock is ahead of the real one, so validity never interferes; total clock advance in a history stays far below 48 h")
		tA := time.Now()
		partA(r)
		r.Set("a_wall_s", int(time.Since(tA).Seconds())) // informational only
		if !r.Expired() {
			tB := time.Now()
			partB(r)
			r.Set("b_wall_s", int(time.Since(tB).Seconds()))
		} else {
			r.Incomplete("budget expired before part (b)")
		}
	}, func(r *eng.Run, raw json.RawMessage) {
		var rp anyReplay
		if err := json.Unmarshal(raw, &rp); err != nil {
			fmt.Println("bad replay:", err)
			return
		}
		if rp.Part == "b" {
			replayB(r, rp.Chain)
			return
		}
		replayA(r, rp.Config, rp.Ops)
	})
}
