//go:build verif

package namesys

import (
	"time"

	lru "github.com/hashicorp/golang-lru/v2"
	ds "github.com/ipfs/go-datastore"
	"github.com/libp2p/go-libp2p/core/routing"
)

// VerifCacheEntry is a read-only view of one resolver cache entry.
type VerifCacheEntry struct {
	Key  string
	Val  string
	TTL  time.Duration
	Left time.Duration // remaining cache lifetime at the time given to VerifCacheDump (<= 0: expired, still occupying a slot)
}

// VerifCacheDump lists the entries of the resolver cache, least recently used
// first. Read-only: Peek does not touch the recency order.
func VerifCacheDump(n NameSystem, now time.Time) []VerifCacheEntry {
	ns, ok := n.(*namesys)
	if !ok || ns.cache == nil {
		return nil
	}
	var out []VerifCacheEntry
	for _, k := range ns.cache.Keys() {
		e, ok := ns.cache.Peek(k)
		if !ok {
			continue
		}
		out = append(out, VerifCacheEntry{Key: k, Val: e.val.String(), TTL: e.ttl, Left: e.cacheEOL.Sub(now)})
	}
	return out
}

// VerifClone builds a second name system with the same options as n over the
// given routing system and datastore, and with a copy of n's resolver cache
// (same entries, same recency order). cacheSize must be the size n was built
// with. n is not modified (Keys and Peek do not touch the recency order).
func VerifClone(n NameSystem, r routing.ValueStore, d ds.Datastore, cacheSize int) NameSystem {
	ns := n.(*namesys)
	c := &namesys{ds: d, dnsResolver: ns.dnsResolver, staticMap: ns.staticMap, maxCacheTTL: ns.maxCacheTTL}
	if ns.cache != nil {
		cache, err := lru.New[string, cacheEntry](cacheSize)
		if err != nil {
			panic(err)
		}
		for _, k := range ns.cache.Keys() {
			if e, ok := ns.cache.Peek(k); ok {
				cache.Add(k, e)
			}
		}
		c.cache = cache
	}
	c.ipnsResolver = NewIPNSResolver(r)
	c.ipnsPublisher = NewIPNSPublisher(r, d)
	return c
}
