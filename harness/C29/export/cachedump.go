//go:build verif

package namesys

import (
	"fmt"
	"time"
)

// VerifCacheDump lists the entries of the resolver cache, least recently used
// first: key, value, entry TTL and remaining cache lifetime at the given time
// ("expired" when it has run out; the entry still occupies an LRU slot).
// Read-only: Peek does not touch the recency order.
func VerifCacheDump(n NameSystem, now time.Time) []string {
	ns, ok := n.(*namesys)
	if !ok || ns.cache == nil {
		return nil
	}
	var out []string
	for _, k := range ns.cache.Keys() {
		e, ok := ns.cache.Peek(k)
		if !ok {
			continue
		}
		left := "expired"
		if d := e.cacheEOL.Sub(now); d > 0 {
			left = d.String()
		}
		out = append(out, fmt.Sprintf("%s=%s ttl=%s left=%s", k, e.val, e.ttl, left))
	}
	return out
}
