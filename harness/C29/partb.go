//go:build verif

package main

import (
	"context"
	"encoding/json"
	"errors"
	"fmt"
	"strings"
	"sync"
	"sync/atomic"
	"time"

	"github.com/ipfs/boxo/namesys"
	"github.com/ipfs/boxo/verifshim/eng"
)

// chainSpec: names N0..N(L-1); hop i is the record of Ni. Its value is
// target(i) + Rem[i], target(i) = /ipns/N(i+1) for i < L-1; the last hop points
// to /ipfs/<cid> (Term == -1) or back to name Term (cycle; Term == L-1 is a
// self-reference).
type chainSpec struct {
	L    int   `json:"len"`
	Term int   `json:"term"`
	TTL  []int `json:"ttl_minutes"` // per hop: 0, 1, 2
	Rem  []int `json:"rem"`         // per hop: 0 = "", 1 = "/x"
}

type caseB struct {
	Chain  chainSpec `json:"chain"`
	ReqRem string    `json:"request_remainder"`
	Depth  uint      `json:"depth"` // 0 = unlimited
	Cache  int       `json:"cache"` // 0 = no cache
}

func (c chainSpec) cyclic() bool { return c.Term >= 0 }

func (c chainSpec) value(i int) string {
	t := "/ipfs/" + cidX
	if i < c.L-1 {
		t = keys[i+1].p
	} else if c.Term >= 0 {
		t = keys[c.Term].p
	}
	if c.Rem[i] == 1 {
		t += "/x"
	}
	return t
}

func minNZ(a, b time.Duration) time.Duration {
	switch {
	case a <= 0:
		return b
	case b <= 0:
		return a
	case a < b:
		return a
	}
	return b
}

type expectB struct {
	recursion bool
	path      string
	ttl       time.Duration
	hops      int
}

// walk is the reference: follow the record table hop by hop.
func (c chainSpec) walk(reqRem string, depth uint) expectB {
	cur := keys[0].p + reqRem
	var e expectB
	for {
		if !strings.HasPrefix(cur, "/ipns/") {
			e.path = cur
			return e
		}
		if depth != 0 && uint(e.hops) == depth {
			e.recursion, e.path = true, cur
			return e
		}
		segs := strings.Split(strings.TrimPrefix(cur, "/ipns/"), "/")
		idx := -1
		for i := 0; i < c.L; i++ {
			if keys[i].name.String() == segs[0] {
				idx = i
			}
		}
		if idx < 0 {
			panic("walk: unknown name in " + cur)
		}
		cur = c.value(idx)
		if len(segs) > 1 {
			cur += "/" + strings.Join(segs[1:], "/")
		}
		e.ttl = minNZ(e.ttl, time.Duration(c.TTL[idx])*time.Minute)
		e.hops++
		if e.hops > 1000 {
			panic("walk: unlimited depth on a cycle")
		}
	}
}

func depthsFor(c chainSpec) []uint {
	cand := []int{1, 2, c.L - 1, c.L, c.L + 1, 7, int(namesys.DefaultDepthLimit), 0}
	var out []uint
	seen := map[int]bool{}
	for _, d := range cand {
		if d < 0 || seen[d] || (d == 0 && c.cyclic()) {
			continue
		}
		seen[d] = true
		out = append(out, uint(d))
	}
	return out
}

func vectors(n, base int) [][]int {
	out := [][]int{{}}
	for i := 0; i < n; i++ {
		var nx [][]int
		for _, v := range out {
			for d := 0; d < base; d++ {
				nx = append(nx, append(append([]int{}, v...), d))
			}
		}
		out = nx
	}
	return out
}

func allEq(xs []int, v int) bool {
	for _, x := range xs {
		if x != v {
			return false
		}
	}
	return true
}

func constVec(n, v int) []int {
	o := make([]int, n)
	for i := range o {
		o[i] = v
	}
	return o
}

// chainSets enumerates the record tables: the full TTL x remainder product up
// to length fullL, factorised (all TTL vectors x {no remainders, all
// remainders}; all remainder vectors x {all 1m, descending 2m/1m/0 pattern})
// for longer chains up to maxL.
func chainSets(fullL, maxL int) []chainSpec {
	var out []chainSpec
	for L := 1; L <= maxL; L++ {
		for term := -1; term < L; term++ {
			if L <= fullL {
				for _, t := range vectors(L, 3) {
					for _, rm := range vectors(L, 2) {
						out = append(out, chainSpec{L: L, Term: term, TTL: t, Rem: rm})
					}
				}
				continue
			}
			for _, t := range vectors(L, 3) {
				out = append(out, chainSpec{L: L, Term: term, TTL: t, Rem: constVec(L, 0)}, chainSpec{L: L, Term: term, TTL: t, Rem: constVec(L, 1)})
			}
			pat := make([]int, L)
			for i := range pat {
				pat[i] = (2 - i%3)
			}
			for _, rm := range vectors(L, 2) {
				out = append(out, chainSpec{L: L, Term: term, TTL: constVec(L, 1), Rem: rm}, chainSpec{L: L, Term: term, TTL: pat, Rem: rm})
			}
		}
	}
	return out
}

func buildB(c chainSpec) (mk func(cache int) namesys.NameSystem, err error) {
	dst, rt := newStore()
	pub := newNS(rt, dst, 0, nil)
	for i := 0; i < c.L; i++ {
		if e := pub.Publish(context.Background(), keys[i].priv, mustPath(c.value(i)), namesys.PublishWithTTL(time.Duration(c.TTL[i])*time.Minute)); e != nil {
			return nil, fmt.Errorf("publishing hop %d (%s): %w", i, c.value(i), e)
		}
	}
	return func(cache int) namesys.NameSystem { return newNS(rt, dst, cache, nil) }, nil
}

// judgeB resolves one case (cold, and warm when there is a cache) and compares with the walk.
func judgeB(r *eng.Run, mk func(int) namesys.NameSystem, cb caseB, verbose bool) *eng.Violation {
	want := cb.Chain.walk(cb.ReqRem, cb.Depth)
	ns := mk(cb.Cache)
	rounds := []string{"off"}
	if cb.Cache > 0 {
		rounds = []string{"cold", "warm"}
	}
	var opts []namesys.ResolveOption
	opts = append(opts, namesys.ResolveWithDepth(cb.Depth))
	for _, round := range rounds {
		var res namesys.Result
		var err error
		if pv := eng.Guard("Resolve", func() { res, err = ns.Resolve(context.Background(), mustPath(keys[0].p+cb.ReqRem), opts...) }); pv != nil {
			pv.Replay = map[string]any{"part": "b", "chain": cb}
			return pv
		}
		r.Eval(1)
		got := "<nil>"
		if res.Path != nil {
			got = res.Path.String()
		}
		if verbose {
			fmt.Printf("  Resolve(%s, depth=%d) cache=%s -> %s ttl=%s err=%v\n      expected: %s ttl=%s recursion=%v (%d hops)\n", "/ipns/N0"+cb.ReqRem, cb.Depth, round, got, res.TTL, err, want.path, want.ttl, want.recursion, want.hops)
		}
		hasZero := false
		for _, t := range cb.Chain.TTL {
			if t == 0 {
				hasZero = true
			}
		}
		feat := []string{"cache", round, "cycle", fmt.Sprint(cb.Chain.cyclic()), "unlimited_depth", fmt.Sprint(cb.Depth == 0)}
		desc := fmt.Sprintf("chain %s; Resolve(/ipns/N0%s) depth=%d cache=%s(%d): got %s ttl=%s err=%v; expected %s ttl=%s recursion-error=%v after %d hops",
			cb.Chain.describe(), cb.ReqRem, cb.Depth, round, cb.Cache, got, res.TTL, err, want.path, want.ttl, want.recursion, want.hops)
		mkv := func(sym string, extra ...string) *eng.Violation {
			v := eng.V(sym, "Resolve", desc, append(feat, extra...)...)
			v.Replay = map[string]any{"part": "b", "chain": cb}
			return v
		}
		isRec := errors.Is(err, namesys.ErrResolveRecursion)
		switch {
		case want.recursion && !isRec:
			return mkv("recursion-error-missing")
		case !want.recursion && isRec:
			return mkv("recursion-error-within-limit")
		case !want.recursion && err != nil:
			return mkv("unexpected-resolve-error")
		}
		if !want.recursion {
			if got != want.path {
				return mkv("wrong-resolved-path")
			}
			if res.TTL != want.ttl {
				return mkv("wrong-ttl", "zero_ttl_hop", fmt.Sprint(hasZero))
			}
		}
	}
	return nil
}

func (c chainSpec) describe() string {
	var sb strings.Builder
	for i := 0; i < c.L; i++ {
		v := c.value(i)
		for j := 0; j < c.L; j++ {
			v = strings.ReplaceAll(v, keys[j].p, fmt.Sprintf("/ipns/N%d", j))
		}
		v = strings.ReplaceAll(v, cidX, "CID")
		fmt.Fprintf(&sb, "N%d=>%s(ttl %dm) ", i, v, c.TTL[i])
	}
	return strings.TrimSpace(sb.String())
}

func casesFor(c chainSpec, caches []int) []caseB {
	var out []caseB
	for _, rr := range []string{"", "/r"} {
		for _, d := range depthsFor(c) {
			for _, ca := range caches {
				out = append(out, caseB{Chain: c, ReqRem: rr, Depth: d, Cache: ca})
			}
		}
	}
	return out
}

func partB(r *eng.Run) {
	setClock(t0)
	fullL, maxL := eng.Pick(r, 3, 4), 6
	quickLong := !r.Thorough()
	sets := chainSets(fullL, maxL)
	if quickLong {
		// quick tier: of the factorised long chains keep length 4, and of length 6 the acyclic / back-to-N0 / self-referencing
		// shapes with (all TTL vectors, no remainders) and (all remainder vectors, TTL 1m)
		var s2 []chainSpec
		for _, c := range sets {
			if c.L <= fullL || c.L == 4 || (c.L == 6 && (c.Term == -1 || c.Term == 0 || c.Term == 5) && (allEq(c.Rem, 0) || allEq(c.TTL, 1))) {
				s2 = append(s2, c)
			}
		}
		sets = s2
	}
	caches := eng.Pick(r, []int{0, 128}, []int{0, 2, 128})
	r.Set("b_record_tables", len(sets))
	r.Set("b_full_product_up_to_length", fullL)
	r.Set("b_max_length", maxL)
	r.Set("b_cache_sizes", caches)
	perLen := map[int]int{}
	for _, c := range sets {
		perLen[c.L]++
	}
	r.Set("b_record_tables_per_length", perLen)
	r.Sample(map[string]any{"part": "b", "chain": sets[len(sets)/2], "describe": sets[len(sets)/2].describe()})
	var once sync.Once
	var skipped atomic.Int64
	defer func() {
		if n := skipped.Load(); n > 0 {
			r.Set("b_record_tables_skipped_budget", n)
		}
	}()
	eng.ParFor(len(sets), func(i int) {
		if r.Expired() {
			once.Do(func() { r.Incomplete("budget expired in part (b): the remaining (longest) record tables were not run") })
			skipped.Add(1)
			return
		}
		c := sets[i]
		mk, err := buildB(c)
		if err != nil {
			v := eng.V("chain-publish-failed", "Publish", fmt.Sprintf("chain %s: %v", c.describe(), err))
			v.Replay = map[string]any{"part": "b", "chain": caseB{Chain: c}}
			r.Report(v)
			return
		}
		for _, cb := range casesFor(c, caches) {
			v := judgeB(r, mk, cb, false)
			want := c.walk(cb.ReqRem, cb.Depth)
			r.Outcome(fmt.Sprintf("b L=%d cyc=%v hops=%d rec=%v ttl=%s", c.L, c.cyclic(), want.hops, want.recursion, want.ttl))
			if c.L >= 2 {
				b, _ := json.Marshal(cb)
				r.Distinct("b" + string(b))
			}
			if v != nil {
				r.Report(v)
				r.Add("b_violating_cases", 1)
			}
		}
	})
}

func replayB(r *eng.Run, raw json.RawMessage) {
	var cb caseB
	if err := json.Unmarshal(raw, &cb); err != nil {
		fmt.Println("bad replay:", err)
		return
	}
	setClock(t0)
	fmt.Println("  chain:", cb.Chain.describe())
	mk, err := buildB(cb.Chain)
	if err != nil {
		fmt.Println("  publish failed:", err)
		r.Report(eng.V("chain-publish-failed", "Publish", err.Error()))
		return
	}
	if v := judgeB(r, mk, cb, true); v != nil {
		r.Report(v)
	} else {
		fmt.Println("  replay: no violation")
	}
}
