//go:build verif

package main

import (
	"bufio"
	"context"
	"crypto/sha256"
	"encoding/hex"
	"encoding/json"
	"errors"
	"fmt"
	"os"
	"os/exec"
	"runtime"
	"sort"
	"strings"
	"sync"
	"time"

	"github.com/ipfs/boxo/ipns"
	"github.com/ipfs/boxo/namesys"
	"github.com/ipfs/boxo/verifshim/eng"
	ds "github.com/ipfs/go-datastore"
	dsq "github.com/ipfs/go-datastore/query"
	recpb "github.com/libp2p/go-libp2p-record/pb"
	"github.com/multiformats/go-base32"
	"google.golang.org/protobuf/proto"
	"github.com/libp2p/go-libp2p/core/routing"
)

// ---------------------------------------------------------------- system under test + model

var valuesA = map[string]string{
	"v1": "/ipfs/" + cidX,
	"v2": "/ipfs/" + cidX + "/sub", // differs from v1 only below the root
	"v3": "/ipfs/" + cidY,
}

type recView struct {
	has bool
	seq uint64
	val string
	ttl time.Duration
}

func (v recView) String() string {
	if !v.has {
		return "-"
	}
	return fmt.Sprintf("%s ttl=%s", v.val, v.ttl)
}

type nameState struct {
	published bool            // at least one Publish returned nil
	latest    string          // value of the last successful Publish
	hist      map[string]bool // every value successfully published
	fresh     bool            // no clock advance since the last successful Publish
	ttlZero   bool            // the last successful Publish used TTL 0
}

type sysA struct {
	cfg       string
	cacheSize int
	maxTTL    *time.Duration
	cacheOn   bool
	thorough  bool
	dst       ds.Batching
	rt        routing.ValueStore
	ns        namesys.NameSystem
	now       time.Time
	st        [2]nameState
}

func parseCfgA(cfg string) (cache int, maxTTL *time.Duration) {
	for _, f := range strings.Split(cfg, ",") {
		kv := strings.SplitN(f, "=", 2)
		switch kv[0] {
		case "cache":
			fmt.Sscan(kv[1], &cache)
		case "max":
			if kv[1] != "unset" {
				d, err := time.ParseDuration(kv[1])
				if err != nil {
					panic(err)
				}
				maxTTL = &d
			}
		}
	}
	return
}

func newSysA(cfg string, thorough bool) *sysA {
	s := &sysA{cfg: cfg, thorough: thorough, now: t0}
	s.cacheSize, s.maxTTL = parseCfgA(cfg)
	s.cacheOn = s.cacheSize > 0 && (s.maxTTL == nil || *s.maxTTL > 0)
	s.dst, s.rt = newStore()
	setClock(s.now)
	s.ns = newNS(s.rt, s.dst, s.cacheSize, s.maxTTL)
	for i := range s.st {
		s.st[i].hist = map[string]bool{}
	}
	return s
}

// tick: every operation happens 1 ms after the previous one.
func (s *sysA) tick() {
	s.now = s.now.Add(time.Millisecond)
	setClock(s.now)
}

func decodeRec(b []byte) recView {
	rec, err := ipns.UnmarshalRecord(b)
	if err != nil {
		return recView{has: true, val: "<unparsable: " + err.Error() + ">"}
	}
	seq, _ := rec.Sequence()
	v, err := rec.Value()
	val := "<bad value>"
	if err == nil {
		val = v.String()
	}
	ttl, _ := rec.TTL()
	return recView{has: true, seq: seq, val: val, ttl: ttl}
}

// stored is the record the publisher keeps in its datastore.
func (s *sysA) stored(i int) recView {
	b, err := s.dst.Get(context.Background(), namesys.IpnsDsKey(keys[i].name))
	if err != nil {
		return recView{}
	}
	return decodeRec(b)
}

// routed is the record the routing system holds for the name, read from the
// value store's datastore entry without re-validating signatures.
func (s *sysA) routed(i int) recView {
	k := string(keys[i].name.RoutingKey())
	b, err := s.dst.Get(context.Background(), ds.NewKey("/ipns/"+base32.RawStdEncoding.EncodeToString([]byte(k))))
	if err != nil {
		return recView{}
	}
	var rec recpb.Record
	if err := proto.Unmarshal(b, &rec); err != nil {
		return recView{has: true, val: "<unparsable envelope>"}
	}
	return decodeRec(rec.GetValue())
}

// clone copies the whole system: datastore content, a new router and name
// system over the copy, the resolver cache (entries and recency order) and the
// model. Successors are produced from clones; every state that is expanded later
// is rebuilt by replay on a fresh instance and its key compared with the clone's.
func (s *sysA) clone() *sysA {
	c := &sysA{cfg: s.cfg, cacheSize: s.cacheSize, maxTTL: s.maxTTL, cacheOn: s.cacheOn, thorough: s.thorough, now: s.now}
	c.dst, c.rt = newStore()
	res, err := s.dst.Query(context.Background(), dsq.Query{})
	if err != nil {
		panic(err)
	}
	all, err := res.Rest()
	if err != nil {
		panic(err)
	}
	for _, e := range all {
		if err := c.dst.Put(context.Background(), ds.NewKey(e.Key), append([]byte{}, e.Value...)); err != nil {
			panic(err)
		}
	}
	c.ns = namesys.VerifClone(s.ns, c.rt, c.dst, s.cacheSize)
	for i := range s.st {
		c.st[i] = s.st[i]
		c.st[i].hist = map[string]bool{}
		for k := range s.st[i].hist {
			c.st[i].hist[k] = true
		}
	}
	return c
}

func (s *sysA) Ops() []string {
	var ops []string
	vals := []string{"v1", "v2"}
	adv := []string{"30s", "10m"}
	if s.thorough {
		vals = []string{"v1", "v2", "v3"}
		adv = []string{"30s", "2m", "10m", "2h"}
	}
	cur := s.stored(0)
	seqs := []string{"none", "cur+1", "cur", "0"}
	if !cur.has {
		seqs = []string{"none", "cur+1", "0"} // cur == 0
	} else if cur.seq == 0 {
		seqs = []string{"none", "cur+1", "cur"} // cur == 0
	}
	ops = append(ops, "Pub A v1 seq=none ttl=def", "Res A", "Res A/rem")
	for _, v := range vals {
		for _, sq := range seqs {
			for _, ttl := range []string{"def", "0", "1h"} {
				op := fmt.Sprintf("Pub A %s seq=%s ttl=%s", v, sq, ttl)
				if op != ops[0] {
					ops = append(ops, op)
				}
			}
		}
	}
	ops = append(ops, "Pub B", "Res B")
	for _, a := range adv {
		ops = append(ops, "Adv "+a)
	}
	return ops
}

func (s *sysA) feat(i int, kv ...string) []string {
	f := []string{"cache", fmt.Sprint(s.cacheOn), "publish_ttl_zero", fmt.Sprint(s.st[i].ttlZero)}
	return append(f, kv...)
}

func (s *sysA) Do(op string) (string, *eng.Violation) {
	ctx := context.Background()
	f := strings.Fields(op)
	switch f[0] {
	case "Adv":
		d, err := time.ParseDuration(f[1])
		if err != nil {
			panic(err)
		}
		s.now = s.now.Add(d)
		setClock(s.now)
		for i := range s.st {
			s.st[i].fresh = false
		}
		return "ok", nil
	case "Pub":
		i := 0
		val, seqMode, ttlMode := valuesA["v1"], "none", "def"
		if f[1] == "A" {
			val = valuesA[f[2]]
			seqMode = strings.TrimPrefix(f[3], "seq=")
			ttlMode = strings.TrimPrefix(f[4], "ttl=")
		} else {
			i = 1
		}
		pre := s.stored(i)
		var opts []namesys.PublishOption
		switch ttlMode {
		case "0":
			opts = append(opts, namesys.PublishWithTTL(0))
		case "1h":
			opts = append(opts, namesys.PublishWithTTL(time.Hour))
		}
		explicit, x := seqMode != "none", uint64(0)
		switch seqMode {
		case "cur":
			x = pre.seq
		case "cur+1":
			x = pre.seq + 1
			if !pre.has {
				x = 1
			}
		}
		if explicit {
			opts = append(opts, namesys.PublishWithSequence(x))
		}
		s.tick()
		err := s.ns.Publish(ctx, keys[i].priv, mustPath(val), opts...)
		post := s.stored(i)
		desc := fmt.Sprintf("%s [%s]: stored record before: seq=%d %v; after: seq=%d %v; err=%v", op, s.cfg, pre.seq, pre, post.seq, post, err)
		// never decreases
		if pre.has && (!post.has || post.seq < pre.seq) {
			return "x", eng.V("sequence-decreased", "Publish", desc)
		}
		stale := explicit && pre.has && x <= pre.seq
		switch {
		case stale:
			if !errors.Is(err, namesys.ErrInvalidSequence) {
				rel := "less"
				if x == pre.seq {
					rel = "equal"
				}
				return "x", eng.V("stale-sequence-accepted", "Publish", desc, "explicit_vs_current", rel)
			}
			if post != pre {
				return "x", eng.V("rejected-publish-changed-record", "Publish", desc)
			}
			return "rejected", nil
		case explicit && !pre.has && x == 0:
			// no current record: the statement does not say whether an explicit 0 is acceptable
			if err != nil {
				if post.has {
					return "x", eng.V("rejected-publish-changed-record", "Publish", desc)
				}
				return "rejected-first-zero", nil
			}
		case err != nil:
			return "x", eng.V("unexpected-publish-error", "Publish", desc)
		}
		// success
		if !post.has || post.val != val {
			return "x", eng.V("published-value-not-stored", "Publish", desc)
		}
		if pre.has && pre.val != val && post.seq <= pre.seq {
			return "x", eng.V("sequence-not-increased-on-change", "Publish", desc, "same_root", fmt.Sprint(strings.HasPrefix(val, pre.val) || strings.HasPrefix(pre.val, val)))
		}
		st := &s.st[i]
		st.published, st.latest, st.fresh, st.ttlZero = true, val, true, ttlMode == "0"
		st.hist[val] = true
		d := int64(post.seq) - int64(pre.seq)
		note := ""
		if explicit && post.seq != x {
			note = " explicit-sequence-not-used" // not demanded by the statement; recorded only
		}
		if !pre.has {
			return fmt.Sprintf("ok first seq=%d%s", post.seq, note), nil
		}
		return fmt.Sprintf("ok d=%d changed=%v%s", d, pre.val != val, note), nil
	case "Res":
		i, rem := 0, ""
		switch f[1] {
		case "A/rem":
			rem = "/rem"
		case "B":
			i = 1
		}
		st := &s.st[i]
		s.tick()
		res, err := s.ns.Resolve(ctx, mustPath(keys[i].p+rem))
		got := "<nil>"
		if res.Path != nil {
			got = res.Path.String()
		}
		if !st.published {
			if err != nil {
				return "unpublished: error", nil
			}
			return "unpublished: " + got, nil
		}
		desc := fmt.Sprintf("%s [%s]: got %s err=%v; last successfully published value %s; published so far %v; resolver cache: %v", op, s.cfg, got, err, st.latest, keysOf(st.hist), s.cacheDump())
		if st.fresh {
			if err != nil {
				return "x", eng.V("resolve-error-after-publish", "Resolve", desc, s.feat(i)...)
			}
			if got != st.latest+rem {
				earlier := "false"
				for h := range st.hist {
					if got == h+rem {
						earlier = "true"
					}
				}
				return "x", eng.V("stale-resolve-after-publish", "Resolve", desc, s.feat(i, "got_earlier_value", earlier)...)
			}
			return "fresh: latest", nil
		}
		if err != nil {
			return "aged: error", nil // not covered by the statement
		}
		if got == st.latest+rem {
			return "aged: latest", nil
		}
		for h := range st.hist {
			if got == h+rem {
				if !s.cacheOn {
					return "x", eng.V("stale-resolve-without-cache", "Resolve", desc, s.feat(i)...)
				}
				return "aged: earlier (cached)", nil
			}
		}
		return "x", eng.V("resolve-returns-never-published-value", "Resolve", desc, s.feat(i)...)
	}
	panic("unknown op " + op)
}

func keysOf(m map[string]bool) []string {
	var ks []string
	for k := range m {
		ks = append(ks, k)
	}
	sort.Strings(ks)
	return ks
}

func (s *sysA) cacheDump() []string {
	var out []string
	for _, e := range namesys.VerifCacheDump(s.ns, s.now) {
		left := "expired"
		if e.Left > 0 {
			// accumulated 1 ms ticks never decide anything (all lifetimes and
			// advances are multiples of 30 s): canonicalise to whole seconds
			left = ((e.Left + time.Second - 1) / time.Second * time.Second).String()
		}
		out = append(out, fmt.Sprintf("%s=%s ttl=%s left=%s", e.Key, e.Val, e.TTL, left))
	}
	return out
}

// Key: the sequence NUMBER is left out (all sequence operations are relative to
// the current one and explicit 0 is <= any current), everything else that can
// influence the future is in.
func (s *sysA) Key() string {
	var sb strings.Builder
	for i := range s.st {
		st, ro := s.stored(i), s.routed(i)
		fmt.Fprintf(&sb, "n%d ds[%v] rt[%v] seq0=%v insync=%v pub=%v latest=%s fresh=%v ttl0=%v hist=%v\n", i, st, ro, st.has && st.seq == 0, st.seq == ro.seq,
			s.st[i].published, s.st[i].latest, s.st[i].fresh, s.st[i].ttlZero, keysOf(s.st[i].hist))
	}
	for _, l := range s.cacheDump() {
		sb.WriteString(l + "\n")
	}
	return sb.String()
}

// Check: every property of the statement is a step property judged in Do.
func (s *sysA) Check() *eng.Violation { return nil }

// ---------------------------------------------------------------- expansion (runs in workers)

type succA struct {
	Op   string         `json:"op"`
	Obs  string         `json:"obs"`
	Key  string         `json:"key,omitempty"`
	Viol *eng.Violation `json:"viol,omitempty"`
}

type reqA struct {
	Cfg      string   `json:"cfg"`
	Path     []string `json:"path"`
	Thorough bool     `json:"thorough"`
	Init     bool     `json:"init,omitempty"` // only compute the key of the path itself
	ExpectKey string  `json:"expect_key,omitempty"` // key computed when the state was discovered through a clone
}

type repA struct {
	Succs []succA `json:"succs"`
	Err   string  `json:"err,omitempty"`
}

func hashKey(k string) string {
	h := sha256.Sum256([]byte(k))
	return hex.EncodeToString(h[:16])
}

// runPathA executes a path on a fresh instance; the violation (if any) belongs to the last executed op.
func runPathA(cfg string, thorough bool, p []string, trace bool) (s *sysA, obs string, v *eng.Violation) {
	s = newSysA(cfg, thorough)
	for i, op := range p {
		var o string
		var vv *eng.Violation
		if pv := eng.Guard(op, func() { o, vv = s.Do(op) }); pv != nil {
			vv = pv
		}
		if trace {
			fmt.Printf("  step %d: %s => %s\n", i+1, op, o)
		}
		obs = o
		if vv != nil {
			if vv.Op == "" {
				vv.Op = strings.Fields(op)[0]
			}
			return s, obs, vv
		}
	}
	return s, obs, nil
}

func doGuarded(s *sysA, op string) (obs string, v *eng.Violation) {
	if pv := eng.Guard(op, func() { obs, v = s.Do(op) }); pv != nil {
		v = pv
	}
	if v != nil && v.Op == "" {
		v.Op = strings.Fields(op)[0]
	}
	return
}

func expandA(rq reqA) repA {
	var rep repA
	s0, _, v0 := runPathA(rq.Cfg, rq.Thorough, rq.Path, false)
	if v0 != nil {
		rep.Err = "parent path is not clean: " + v0.Symptom
		return rep
	}
	k0 := hashKey(s0.Key())
	if rq.Init {
		rep.Succs = []succA{{Key: k0}}
		return rep
	}
	if rq.ExpectKey != "" && rq.ExpectKey != k0 {
		rep.Err = "state rebuilt by replay differs from the state the clone reached:\n" + s0.Key()
		return rep
	}
	for _, op := range s0.Ops() {
		s := s0.clone()
		obs, v := doGuarded(s, op)
		sc := succA{Op: op, Obs: obs}
		if v != nil {
			// confirm on a fresh instance by replay
			p := append(append(make([]string, 0, len(rq.Path)+1), rq.Path...), op)
			_, _, v2 := runPathA(rq.Cfg, rq.Thorough, p, false)
			if v2 == nil || v2.Symptom != v.Symptom {
				rep.Err = fmt.Sprintf("violation %q of %v seen on a clone is not reproduced by replay on a fresh instance", v.Symptom, p)
				return rep
			}
			v = v2
		} else {
			key := ""
			if pv := eng.Guard("key", func() { key = s.Key() }); pv != nil {
				v = pv
			} else {
				sc.Key = hashKey(key)
				if pv := eng.Guard("check", func() { v = s.Check() }); pv != nil {
					v = pv
				}
			}
		}
		sc.Viol = v
		rep.Succs = append(rep.Succs, sc)
	}
	return rep
}

func workerMainA() {
	runtime.GOMAXPROCS(2)
	in := bufio.NewReaderSize(os.Stdin, 1<<20)
	out := bufio.NewWriter(os.Stdout)
	for {
		line, err := in.ReadBytes('\n')
		if len(strings.TrimSpace(string(line))) > 0 {
			var rq reqA
			if e := json.Unmarshal(line, &rq); e != nil {
				fmt.Fprintln(os.Stderr, "worker: bad request:", e)
				os.Exit(2)
			}
			b, _ := json.Marshal(expandA(rq))
			out.Write(b)
			out.WriteByte('\n')
			out.Flush()
		}
		if err != nil {
			return
		}
	}
}

// ---------------------------------------------------------------- explorer (parent)

type jobA struct {
	rq  *reqA
	out *repA
	ok  *bool
	wg  *sync.WaitGroup
}

// poolA keeps worker processes alive for the whole part (a).
type poolA struct {
	n    int
	bin  string
	jobs chan jobA
	r    *eng.Run
	once sync.Once
	softStop time.Time // part (a) stops expanding here so that part (b) gets its share of the budget (coverage only, never a verdict)
}

func (p *poolA) expired() bool {
	return p.r.Expired() || (!p.softStop.IsZero() && time.Now().After(p.softStop))
}

func (p *poolA) start() {
	p.jobs = make(chan jobA, 1024)
	for w := 0; w < p.n; w++ {
		go func() {
			cmd := exec.Command(p.bin, "-worker")
			cmd.Stderr = os.Stderr
			cmd.Env = append(os.Environ(), "GOLOG_LOG_LEVEL=error")
			stdin, _ := cmd.StdinPipe()
			stdout, _ := cmd.StdoutPipe()
			if err := cmd.Start(); err != nil {
				fmt.Fprintln(os.Stderr, "cannot start worker:", err)
				os.Exit(2)
			}
			rd := bufio.NewReaderSize(stdout, 1<<20)
			for j := range p.jobs {
				if !p.expired() {
					b, _ := json.Marshal(j.rq)
					stdin.Write(append(b, '\n'))
					line, err := rd.ReadBytes('\n')
					if err != nil {
						fmt.Fprintf(os.Stderr, "worker died on %s: %v\n", b, err)
						os.Exit(2)
					}
					if e := json.Unmarshal(line, j.out); e != nil {
						fmt.Fprintln(os.Stderr, "bad worker reply:", e)
						os.Exit(2)
					}
					*j.ok = true
				}
				j.wg.Done()
			}
			stdin.Close()
			cmd.Wait()
		}()
	}
}

func (p *poolA) stop() {
	if p.jobs != nil {
		close(p.jobs)
	}
}

// expandAll expands every request, in parallel over worker processes (or
// in-process, sequentially, when no worker binary is known). nil = budget expired.
func (p *poolA) expandAll(reqs []reqA) []repA {
	out := make([]repA, len(reqs))
	done := make([]bool, len(reqs))
	if p.bin == "" || p.n <= 1 {
		for i, rq := range reqs {
			if p.expired() {
				break
			}
			out[i], done[i] = expandA(rq), true
		}
	} else {
		p.once.Do(p.start)
		var wg sync.WaitGroup
		wg.Add(len(reqs))
		for i := range reqs {
			p.jobs <- jobA{rq: &reqs[i], out: &out[i], ok: &done[i], wg: &wg}
		}
		wg.Wait()
	}
	for i := range out {
		if !done[i] {
			return nil
		}
		if out[i].Err != "" {
			fmt.Fprintf(os.Stderr, "harness: expansion of %v %v: %s\n", reqs[i].Cfg, reqs[i].Path, out[i].Err)
			os.Exit(2)
		}
	}
	return out
}

func configsA() []string {
	var cfgs []string
	for _, c := range []string{"0", "1", "128"} {
		for _, m := range []string{"unset", "0s", "1m"} {
			cfgs = append(cfgs, "cache="+c+",max="+m)
		}
	}
	return cfgs
}

func partA(r *eng.Run) {
	th := r.Thorough()
	depth := eng.Pick(r, 4, 6)
	maxStates := eng.Pick(r, 0, 4000) // per configuration and level (thorough)
	cfgs := configsA()
	pool := &poolA{n: runtime.NumCPU(), bin: os.Getenv("VERIF_BIN"), r: r}
	if d := r.DeadlineUnix(); d > 0 {
		now := time.Now()
		pool.softStop = now.Add(time.Until(time.Unix(d, 0)) * 6 / 10) // 60 % of the budget for part (a)
	}
	defer pool.stop()
	seen := map[string]map[string]bool{}
	type node struct {
		cfg  string
		path []string
		key  string
	}
	var frontier []node
	// initial states
	{
		var reqs []reqA
		for _, c := range cfgs {
			reqs = append(reqs, reqA{Cfg: c, Thorough: th, Init: true})
		}
		reps := pool.expandAll(reqs)
		if reps == nil {
			r.Incomplete("budget expired in part (a) before depth 1")
			return
		}
		for i, c := range cfgs {
			seen[c] = map[string]bool{reps[i].Succs[0].Key: true}
			frontier = append(frontier, node{cfg: c, key: reps[i].Succs[0].Key})
		}
	}
	states := len(cfgs)
	depthDone := 0
	perLevel := []int{}
	for d := 1; d <= depth && len(frontier) > 0; d++ {
		reqs := make([]reqA, len(frontier))
		for i, n := range frontier {
			reqs[i] = reqA{Cfg: n.cfg, Path: n.path, Thorough: th, ExpectKey: n.key}
		}
		reps := pool.expandAll(reqs)
		if reps == nil {
			r.Incomplete(fmt.Sprintf("budget share of part (a) used up: all sequences to depth %d covered", depthDone))
			break
		}
		next := []node{}
		perCfg := map[string]int{}
		capped := map[string]int{}
		for i, n := range frontier { // frontier order is deterministic, so is the representative of each state
			for _, sc := range reps[i].Succs {
				p := append(append(make([]string, 0, len(n.path)+1), n.path...), sc.Op)
				r.Transitions(1)
				r.Traces(1)
				r.Outcome(opClassA(sc.Op) + "=>" + sc.Obs)
				if sc.Viol != nil {
					sc.Viol.Replay = map[string]any{"part": "a", "config": n.cfg, "ops": p}
					r.Report(sc.Viol)
					r.Add("a_violating_transitions", 1)
					continue
				}
				if len(p) >= 2 {
					r.Distinct(n.cfg + "\x00" + strings.Join(p, "\x00"))
				}
				if seen[n.cfg][sc.Key] {
					continue
				}
				seen[n.cfg][sc.Key] = true
				states++
				if maxStates > 0 && perCfg[n.cfg] >= maxStates && d < depth {
					capped[n.cfg]++
					continue
				}
				perCfg[n.cfg]++
				next = append(next, node{n.cfg, p, sc.Key})
			}
		}
		for c, k := range capped {
			r.Incomplete(fmt.Sprintf("part (a) config %q: frontier at depth %d capped, %d states not expanded (all sequences to depth %d covered)", c, d, k, d))
		}
		depthDone = d
		perLevel = append(perLevel, len(next))
		if len(next) > 0 {
			r.Sample(map[string]any{"part": "a", "config": next[len(next)/2].cfg, "ops": next[len(next)/2].path})
		}
		frontier = next
	}
	r.States(states)
	r.Set("a_depth_bound", depth)
	r.Set("a_depth_completed", depthDone)
	r.Set("a_configs", len(cfgs))
	r.Set("a_new_states_per_level", perLevel)
	if len(frontier) == 0 {
		r.Set("a_state_space_closed", true)
	}
}

// opClassA drops the value name so that outcome classes stay few.
func opClassA(op string) string {
	f := strings.Fields(op)
	if f[0] == "Pub" && f[1] == "A" {
		return "Pub A " + f[3] + " " + f[4]
	}
	return op
}

func replayA(r *eng.Run, cfg string, ops []string) {
	s, _, v := runPathA(cfg, r.Thorough(), ops, true)
	if v == nil {
		if pv := eng.Guard("check", func() { v = s.Check() }); pv != nil {
			v = pv
		}
	}
	r.Eval(1)
	if v != nil {
		v.Replay = map[string]any{"part": "a", "config": cfg, "ops": ops}
		r.Report(v)
	} else {
		fmt.Println("  replay: no violation")
	}
}
