//go:build verif

// C35: Bitswap per-peer want-list converges to the client's current wants.
//
// The real messagequeue.MessageQueue (source-rewritten: wllock, the run loop's
// select, the debounce / rebroadcast timers, signalWorkReady, the atomic peer
// counter are scheduling points of vsched) is driven by producer threads that
// call AddWants / AddBroadcastWantHaves / AddCancels / RebroadcastNow while the
// run loop sends messages to a fake MessageSender living in this file. The
// oracle replays the recorded messages, in order, onto an empty receiver-side
// want-list and compares it, once the queue is idle, with the client's current
// wants (reference model: a map cid -> {peer want type, broadcast flag},
// overlapping calls linearised either way).
package main

import (
	"context"
	"encoding/json"
	"errors"
	"fmt"
	"os"
	"sort"
	"strconv"
	"strings"
	"time"

	"github.com/ipfs/boxo/bitswap/client/internal/messagequeue"
	bswl "github.com/ipfs/boxo/bitswap/client/wantlist"
	bsmsg "github.com/ipfs/boxo/bitswap/message"
	pb "github.com/ipfs/boxo/bitswap/message/pb"
	bsnet "github.com/ipfs/boxo/bitswap/network"
	"github.com/ipfs/boxo/verifshim/eng"
	"github.com/ipfs/boxo/verifshim/vexp"
	"github.com/ipfs/boxo/verifshim/vsched"
	cid "github.com/ipfs/go-cid"
	peer "github.com/libp2p/go-libp2p/core/peer"
	"github.com/libp2p/go-libp2p/p2p/protocol/ping"
	mh "github.com/multiformats/go-multihash"
)

const (
	nCids = 3   // individually addressed CIDs c0..c2
	nFill = 570 // filler CIDs, only added / cancelled in bulk (WF / CF): enough to make one send pass span several messages
	nAll  = nCids + nFill
	// entries per message in the multi-chunk scenarios: after the first message of a pass over nFill(+1)
	// entries at least sendMessageCutoff (256) are still pending, and they all fit into the second one
	chunkEntries = 300
)

var (
	cids     []cid.Cid
	cidIndex = map[cid.Cid]int{}
	chunkMsg int // maxMessageSize admitting chunkEntries want entries
)

func init() {
	for i := 0; i < nAll; i++ {
		h, _ := mh.Sum([]byte{byte(i), byte(i >> 8), 0x35}, mh.SHA2_256, -1)
		c := cid.NewCidV1(cid.Raw, h)
		cids = append(cids, c)
		cidIndex[c] = i
	}
	e := bsmsg.Entry{Entry: bswl.Entry{Cid: cids[nCids], Priority: 1 << 30, WantType: pb.Message_Wantlist_Block}, SendDontHave: true}
	chunkMsg = chunkEntries * e.Size()
}

func cidx(c cid.Cid) int {
	if i, ok := cidIndex[c]; ok {
		return i
	}
	return -1
}

// ---------------------------------------------------------------- scripts

// op is one producer step.
//
//	WB c  AddWants([c], nil)            want-block
//	WH c  AddWants(nil, [c])            want-have
//	BH c  AddBroadcastWantHaves([c])    broadcast want-have
//	CA c  AddCancels([c])
//	W2    AddWants([c0], [c1])          one call, two CIDs, both types
//	C2    AddCancels([c0, c1])
//	RB    RebroadcastNow()
//	RS c  ResponseReceived([c])         (latency bookkeeping only: clears sentAt)
//	SL d  virtual sleep (lets the run loop send / the rebroadcast timer fire)
type op struct {
	K string
	C int
	D time.Duration
}

func (o op) String() string {
	switch o.K {
	case "SL":
		return "SL" + o.D.String()
	case "RB", "W2", "C2", "WF", "CF":
		return o.K
	}
	return o.K + strconv.Itoa(o.C)
}

func (o op) model() bool { // does the call change the client's wants?
	switch o.K {
	case "WB", "WH", "BH", "CA", "W2", "C2", "WF", "CF":
		return true
	}
	return false
}

func parseOp(s string) op {
	k := s[:2]
	switch k {
	case "SL":
		d, err := time.ParseDuration(s[2:])
		if err != nil {
			panic("bad op " + s)
		}
		return op{K: k, D: d}
	case "RB", "W2", "C2", "WF", "CF":
		return op{K: k}
	}
	c, err := strconv.Atoi(s[2:])
	if err != nil || c >= nCids {
		panic("bad op " + s)
	}
	return op{K: k, C: c}
}

// slot is one script position: a fixed op (one alternative) or an exhaustive
// cost-free choice among several.
type slot []op

func parseSlots(s string) []slot {
	var out []slot
	for _, f := range strings.Fields(s) {
		var sl slot
		for _, a := range strings.Split(f, "|") {
			sl = append(sl, parseOp(a))
		}
		out = append(out, sl)
	}
	return out
}

const (
	settle  = 50 * time.Millisecond
	oneMsg  = 1       // maxMessageSize that admits exactly one entry per message
	twoMsg  = 60      // ... two entries
	bigMsg  = 1 << 21 // production value
	maxIter = 16      // finisher: debounce rounds granted to drain the queue
)

type script struct {
	name    string
	maxMsg  int
	have    bool
	pre     []slot   // run by the main thread, sequentially, before the producers start
	threads [][]slot // one producer thread each
	// sequential enumeration (E1 side): thread 1 performs up to seqDepth steps, each an exhaustive
	// cost-free choice from seqOps over seqCids CIDs (stop = choice 0)
	seqDepth int
	seqOps   []string
	seqCids  int
	fail     bool // SendMsg may fail once (cost 1)
	delta    int
	maxIdle  int
}

// ---------------------------------------------------------------- execution

type ent struct {
	c      int
	cancel bool
	block  bool
}

type msgRec struct {
	at     int // logical time of the send
	full   bool
	ents   []ent
	failed bool
}

type call struct {
	thr        int
	o          op
	start, ret int
}

type exec struct {
	sc       *script
	clock    int
	calls    []call
	msgs     []msgRec
	events   []string
	failed   bool
	stuck    bool
	finished bool
	dump     string
	resolved string
	elapsed  time.Duration // virtual time when the queue was found idle
	tracked  cstate        // the wants the queue itself tracks at the end (labelling only)
}

func (x *exec) tick() int { x.clock++; return x.clock }

func (x *exec) ev(f string, a ...any) {
	x.events = append(x.events, fmt.Sprintf("%3d +%-9s ", x.clock, vsched.Now().Sub(time.Unix(1_700_000_000, 0)).String())+fmt.Sprintf(f, a...))
}

type fakeNet struct{ x *exec }

func (n *fakeNet) Connect(context.Context, peer.AddrInfo) error { return nil }
func (n *fakeNet) NewMessageSender(context.Context, peer.ID, *bsnet.MessageSenderOpts) (bsnet.MessageSender, error) {
	return &fakeSender{n.x}, nil
}
func (n *fakeNet) Latency(peer.ID) time.Duration                 { return 0 }
func (n *fakeNet) Ping(context.Context, peer.ID) ping.Result     { return ping.Result{} }
func (n *fakeNet) Self() peer.ID                                 { return "" }

type fakeSender struct{ x *exec }

func (s *fakeSender) Reset() error       { return nil }
func (s *fakeSender) SupportsHave() bool { return s.x.sc.have }

func (s *fakeSender) SendMsg(_ context.Context, m bsmsg.BitSwapMessage) error {
	x := s.x
	rec := msgRec{full: m.Full()}
	for _, e := range m.Wantlist() { // Wantlist() copies the entries
		rec.ents = append(rec.ents, ent{c: cidx(e.Cid), cancel: e.Cancel, block: e.WantType == pb.Message_Wantlist_Block})
	}
	sort.Slice(rec.ents, func(i, j int) bool { return rec.ents[i].c < rec.ents[j].c })
	// the message is on the wire for a while: producers may run meanwhile
	vsched.Yield("SendMsg")
	if x.sc.fail && !x.failed && vsched.Choose(2, 1) == 1 {
		x.failed = true
		rec.failed = true
		x.tick()
		x.msgs = append(x.msgs, rec)
		x.ev("SendMsg FAILED %s", rec)
		return errors.New("injected send failure")
	}
	rec.at = x.tick()
	x.msgs = append(x.msgs, rec)
	x.ev("SendMsg #%d %s", len(x.msgs), rec)
	return nil
}

func (m msgRec) String() string {
	var sb strings.Builder
	sb.WriteString("{")
	if m.full {
		sb.WriteString("FULL ")
	}
	fw, fc := 0, 0
	for i, e := range m.ents {
		if e.c >= nCids {
			if e.cancel {
				fc++
			} else {
				fw++
			}
			continue
		}
		if i > 0 {
			sb.WriteString(", ")
		}
		switch {
		case e.cancel:
			fmt.Fprintf(&sb, "cancel c%d", e.c)
		case e.block:
			fmt.Fprintf(&sb, "want-block c%d", e.c)
		default:
			fmt.Fprintf(&sb, "want-have c%d", e.c)
		}
	}
	if fw+fc > 0 {
		fmt.Fprintf(&sb, " + %d filler wants, %d filler cancels", fw, fc)
	}
	sb.WriteString("}")
	return sb.String()
}

func (x *exec) do(mq *messagequeue.MessageQueue, thr int, o op) {
	if o.K == "SL" {
		vsched.Sleep(o.D)
		return
	}
	i := len(x.calls)
	x.calls = append(x.calls, call{thr: thr, o: o, start: x.tick(), ret: -1})
	x.ev("T%d %s call", thr, o)
	switch o.K {
	case "WB":
		mq.AddWants([]cid.Cid{cids[o.C]}, nil)
	case "WH":
		mq.AddWants(nil, []cid.Cid{cids[o.C]})
	case "BH":
		mq.AddBroadcastWantHaves([]cid.Cid{cids[o.C]})
	case "CA":
		mq.AddCancels([]cid.Cid{cids[o.C]})
	case "W2":
		mq.AddWants([]cid.Cid{cids[0]}, []cid.Cid{cids[1]})
	case "C2":
		mq.AddCancels([]cid.Cid{cids[0], cids[1]})
	case "WF":
		mq.AddWants(cids[nCids:], nil)
	case "CF":
		mq.AddCancels(cids[nCids:])
	case "RB":
		mq.RebroadcastNow()
	case "RS":
		mq.ResponseReceived([]cid.Cid{cids[o.C]})
	default:
		panic("unknown op " + o.K)
	}
	x.calls[i].ret = x.tick()
	x.ev("T%d %s returned", thr, o)
}

// choose resolves one slot (exhaustive, cost-free environment choice).
func choose(sl slot) op {
	if len(sl) == 1 {
		return sl[0]
	}
	return sl[vsched.Choose(len(sl), 0)]
}

func (x *exec) Main() {
	sc := x.sc
	// 1. resolve every choice of the script first (the choice points lead the schedule)
	var pre []op
	for _, sl := range sc.pre {
		pre = append(pre, choose(sl))
	}
	threads := make([][]op, len(sc.threads))
	for t, sls := range sc.threads {
		for _, sl := range sls {
			threads[t] = append(threads[t], choose(sl))
		}
	}
	if sc.seqDepth > 0 {
		var seq []op
		used := 0 // CIDs 0..used-1 have appeared: the next fresh CID is `used` (symmetry reduction)
		for d := 0; d < sc.seqDepth; d++ {
			var alts []op
			for _, k := range sc.seqOps {
				switch k {
				case "RB":
					alts = append(alts, op{K: "RB"})
				case "SL":
					alts = append(alts, op{K: "SL", D: settle})
				case "LG":
					alts = append(alts, op{K: "SL", D: 31 * time.Second})
				default:
					for c := 0; c <= used && c < sc.seqCids; c++ {
						alts = append(alts, op{K: k, C: c})
					}
				}
			}
			i := vsched.Choose(len(alts)+1, 0)
			if i == 0 {
				break
			}
			o := alts[i-1]
			if o.K != "SL" && o.K != "RB" && o.C == used {
				used++
			}
			seq = append(seq, o)
		}
		threads = append([][]op{seq}, threads...)
	}
	var sb strings.Builder
	fmt.Fprintf(&sb, "pre=%v", pre)
	for t, th := range threads {
		fmt.Fprintf(&sb, " T%d=%v", t+1, th)
	}
	x.resolved = sb.String()

	// 2. a fresh queue and its run loop
	mq := messagequeue.VerifNew(context.Background(), peer.ID("peer-c35"), &fakeNet{x}, sc.maxMsg)
	mq.Startup()
	for _, o := range pre {
		x.do(mq, 0, o)
	}
	// 3. producers; the last one to finish lets the queue drain (debounce timers) and then stops it
	left := len(threads)
	finish := func() {
		for i := 0; ; i++ {
			vsched.WaitIdle()
			if !mq.VerifBusy() {
				break
			}
			if i == maxIter {
				x.stuck = true
				break
			}
			vsched.Sleep(25 * time.Millisecond)
		}
		x.dump = mq.VerifDump(cids[:nCids])
		tp, tb := mq.VerifTracked(cids)
		for c := 0; c < nAll; c++ {
			x.tracked.peer[c], x.tracked.bcst[c] = tp[c], tb[c]
		}
		x.ev("queue idle: %s", x.dump)
		x.finished = true
		x.elapsed = vsched.Now().Sub(time.Unix(1_700_000_000, 0))
		mq.Shutdown()
	}
	for t := range threads {
		t := t
		vsched.GoNamed(fmt.Sprintf("producer%d", t+1), true, func() {
			for _, o := range threads[t] {
				x.do(mq, t+1, o)
			}
			left--
			if left == 0 {
				finish()
			}
		})
	}
	if len(threads) == 0 {
		finish()
	}
}

func (x *exec) AtEnd(*vsched.Result) {}

// ---------------------------------------------------------------- oracle

// want types: 0 none, 1 have, 2 block
type cstate struct {
	peer [nAll]int
	bcst [nAll]bool
}

func (s *cstate) apply(o op) {
	switch o.K {
	case "WB":
		s.peer[o.C] = 2
	case "WH":
		if s.peer[o.C] < 1 {
			s.peer[o.C] = 1
		}
	case "BH":
		s.bcst[o.C] = true
	case "CA":
		s.peer[o.C], s.bcst[o.C] = 0, false
	case "W2":
		s.peer[0] = 2
		if s.peer[1] < 1 {
			s.peer[1] = 1
		}
	case "C2":
		s.peer[0], s.bcst[0] = 0, false
		s.peer[1], s.bcst[1] = 0, false
	case "WF":
		for c := nCids; c < nAll; c++ {
			s.peer[c] = 2
		}
	case "CF":
		for c := nCids; c < nAll; c++ {
			s.peer[c], s.bcst[c] = 0, false
		}
	}
}

// expected returns, per CID, the set of acceptable receiver-side entries as a bit mask (bit t = type t acceptable).
func (s *cstate) expected(have bool) [nAll]int {
	var out [nAll]int
	for c := 0; c < nAll; c++ {
		switch {
		case have:
			t := s.peer[c]
			if s.bcst[c] && t < 1 {
				t = 1
			}
			out[c] = 1 << t
		case s.peer[c] == 2 || s.bcst[c]:
			// a peer without HAVE support gets broadcast want-haves as want-blocks
			out[c] = 1 << 2
		case s.peer[c] == 1:
			// a pure want-have cannot be expressed to such a peer: the statement does not say what it becomes
			out[c] = 1<<0 | 1<<1 | 1<<2
		default:
			out[c] = 1 << 0
		}
	}
	return out
}

// receiver replays the successfully sent messages onto an empty want-list.
func (x *exec) receiver() [nAll]int {
	var r [nAll]int
	for _, m := range x.msgs {
		if m.failed {
			continue
		}
		if m.full {
			r = [nAll]int{}
		}
		for _, e := range m.ents {
			if e.c < 0 {
				continue
			}
			switch {
			case e.cancel:
				r[e.c] = 0
			case e.block:
				r[e.c] = 2 // want-block upgrades want-have
			default:
				if r[e.c] < 1 { // want-have never downgrades want-block
					r[e.c] = 1
				}
			}
		}
	}
	return r
}

// finals enumerates the client states reachable by linearising the model calls
// consistently with real time (a call that returned before another started precedes it).
func (x *exec) finals() []cstate {
	var cs []call
	for _, c := range x.calls {
		if c.o.model() {
			cs = append(cs, c)
		}
	}
	seen := map[cstate]bool{}
	var out []cstate
	used := make([]bool, len(cs))
	var rec func(st cstate, n int)
	rec = func(st cstate, n int) {
		if n == len(cs) {
			if !seen[st] {
				seen[st] = true
				out = append(out, st)
			}
			return
		}
		for i := range cs {
			if used[i] {
				continue
			}
			// i may come next unless an unused call j happened-before it
			ok := true
			for j := range cs {
				if j != i && !used[j] && cs[j].ret >= 0 && cs[j].ret < cs[i].start {
					ok = false
					break
				}
			}
			if !ok {
				continue
			}
			used[i] = true
			ns := st
			ns.apply(cs[i].o)
			rec(ns, n+1)
			used[i] = false
		}
	}
	rec(cstate{}, 0)
	return out
}

var tname = []string{"-", "have", "block"}

// diff classifies the disagreement between the receiver-side list and one client state, per CID.
type cdiff struct {
	c    int
	kind string
}

func diff(exp [nAll]int, recv [nAll]int) (ds []cdiff, text string) {
	for c := 0; c < nAll; c++ {
		if exp[c]&(1<<recv[c]) != 0 {
			continue
		}
		want := 0
		for t := 2; t >= 0; t-- {
			if exp[c]&(1<<t) != 0 {
				want = t
				break
			}
		}
		var k string
		switch {
		case want == 0:
			k = "cancelled-want-active"
		case recv[c] == 0:
			k = "current-want-missing"
		case recv[c] > want:
			k = "type-stronger"
		default:
			k = "type-weaker"
		}
		ds = append(ds, cdiff{c, k})
		if len(ds) > 4 {
			continue // many fillers: the first few say it all
		}
		text += fmt.Sprintf(" c%d: peer has %s, client wants %s (%s);", c, tname[recv[c]], tname[want], k)
	}
	return ds, text
}

func (x *exec) history() string {
	return "script: " + x.resolved + "\n" + strings.Join(x.events, "\n") + "\n"
}

func touches(o op, c int) bool {
	switch o.K {
	case "W2", "C2":
		return c == 0 || c == 1
	case "WF", "CF":
		return c >= nCids
	case "WB", "WH", "BH", "CA":
		return o.C == c
	}
	return false
}

// features: predicates describing the class of the history with respect to the diverged CID d.c
// (black box: computed from the call log, the script and the schedule cost only).
func (x *exec) features(d cdiff, res *vsched.Result) []string {
	rewant, rebro := false, false
	for _, w := range x.calls {
		if w.o.K == "RB" {
			rebro = true
		}
		if !touches(w.o, d.c) || w.o.K == "CA" || w.o.K == "C2" || w.o.K == "CF" {
			continue
		}
		// a want for the CID that is not ordered strictly before some cancel of the CID
		for _, a := range x.calls {
			if (a.o.K == "CA" || a.o.K == "C2" || a.o.K == "CF") && touches(a.o, d.c) && !(w.ret >= 0 && w.ret < a.start) {
				rewant = true
			}
		}
	}
	if x.elapsed >= 30*time.Second {
		rebro = true // the periodic rebroadcast had a chance to refresh
	}
	dev := 0
	for i, p := range res.Points {
		if i < len(res.Choices) && res.Choices[i] < len(p.Costs) {
			dev += int(p.Costs[res.Choices[i]])
		}
	}
	last := "none" // the last successfully sent message entry that mentions the CID
	lastAt, cancelAt := -1, -1
	for _, a := range x.calls {
		if (a.o.K == "CA" || a.o.K == "C2" || a.o.K == "CF") && touches(a.o, d.c) && a.start > cancelAt {
			cancelAt = a.start
		}
	}
	for _, m := range x.msgs {
		if m.failed {
			continue
		}
		for _, e := range m.ents {
			if e.c != d.c {
				continue
			}
			lastAt = m.at
			switch {
			case e.cancel:
				last = "cancel"
			case e.block:
				last = "want-block"
			default:
				last = "want-have"
			}
		}
	}
	return []string{
		"diff", d.kind,
		"last_message_for_cid", last,
		"last_message_after_last_cancel_call", fmt.Sprint(cancelAt >= 0 && lastAt > cancelAt),
		"want_not_before_cancel_same_cid", fmt.Sprint(rewant),
		"rebroadcast", fmt.Sprint(rebro),
		"queue_stuck", fmt.Sprint(x.stuck),
		"size_limited", fmt.Sprint(x.sc.maxMsg != bigMsg),
		"schedule_deviation", fmt.Sprint(dev > 0),
		"supports_have", fmt.Sprint(x.sc.have),
	}
}

func (x *exec) Check(res *vsched.Result) *eng.Violation {
	if !x.finished {
		return eng.V("harness-incomplete", "quiescence", "verdict ok but the finisher did not run\n"+x.history())
	}
	if x.failed {
		// A failed SendMsg ends the peer session (bsnet marks the peer unresponsive, the peer manager
		// drops the queue); the statement is about the messages sent while the session lasts.
		return nil
	}
	recv := x.receiver()
	fin := x.finals()
	for _, st := range fin {
		if d, _ := diff(st.expected(x.sc.have), recv); len(d) == 0 && !x.stuck {
			return nil
		}
	}
	// No admissible linearisation agrees. Label the history against the linearisation the queue really
	// took (each call is one critical section: the admissible final state equal to the queue's own
	// bookkeeping), else against the one in return order.
	var cs []call
	for _, c := range x.calls {
		if c.o.model() {
			cs = append(cs, c)
		}
	}
	sort.SliceStable(cs, func(i, j int) bool { return cs[i].ret < cs[j].ret })
	var ro cstate
	for _, c := range cs {
		ro.apply(c.o)
	}
	for _, st := range fin {
		if st == x.tracked {
			ro = st
		}
	}
	bestD, bestT := diff(ro.expected(x.sc.have), recv)
	if len(bestD) == 0 {
		// the messages agree with the wants, yet work is queued that no timer or signal will ever send
		return eng.V("queue-not-drained", "quiescence", fmt.Sprintf("pending work is still queued after %d idle debounce rounds: %s\n%s", maxIter, x.dump, x.history()), x.features(cdiff{-1, "none"}, res)...)
	}
	detail := fmt.Sprintf("at quiescence the receiver-side want-list differs from the client's wants under every admissible linearisation (%d); closest:%s\nqueue state: %s\n%s", len(fin), bestT, x.dump, x.history())
	if os.Getenv("VERIF_C35_SHOW") != "" { // debugging aid: list every diverging history (also the known ones)
		fmt.Fprintf(os.Stderr, "C35SHOW %s %v | %s |%s | %v\n", x.sc.name, x.features(bestD[0], res), x.resolved, bestT, res.Choices)
	}
	// one violation per execution: classified by the lowest diverged CID
	return eng.V("wantlist-diverged", "quiescence", detail, x.features(bestD[0], res)...)
}

func (x *exec) Outcome() string {
	recv := x.receiver()
	resend, cancels, multi := false, 0, false
	var r [nAll]int
	for _, m := range x.msgs {
		if len(m.ents) > 1 {
			multi = true
		}
		for _, e := range m.ents {
			if e.c < 0 {
				continue
			}
			if e.cancel {
				cancels++
				r[e.c] = 0
				continue
			}
			if r[e.c] != 0 {
				resend = true
			}
			if e.block {
				r[e.c] = 2
			} else if r[e.c] < 1 {
				r[e.c] = 1
			}
		}
	}
	fillHeld := 0
	for c := nCids; c < nAll; c++ {
		if recv[c] != 0 {
			fillHeld++
		}
	}
	return fmt.Sprintf("recv=%v fillers=%d msgs=%d cancels=%d resend=%v multi=%v failed=%v stuck=%v", recv[:nCids], fillHeld, len(x.msgs), cancels, resend, multi, x.failed, x.stuck)
}

// ---------------------------------------------------------------- scenarios

func mk(name string, maxMsg int, have bool, pre string, threads ...string) *script {
	s := &script{name: name, maxMsg: maxMsg, have: have, pre: parseSlots(pre)}
	for _, t := range threads {
		s.threads = append(s.threads, parseSlots(t))
	}
	return s
}

func scripts(thorough bool) []*script {
	bound := 2
	if thorough {
		bound = 3
	}
	var out []*script
	add := func(s *script, b int) *script { s.delta = b - bound; out = append(out, s); return s }
	seq := func(name string, maxMsg int, have bool, depth, ncid int, ops string, b int) {
		add(&script{name: name, maxMsg: maxMsg, have: have, seqDepth: depth, seqCids: ncid, seqOps: strings.Fields(ops)}, b)
	}
	// --- E1 side: every operation sequence of one producer, default schedule (bound 0: only the cost-free
	// choices - which thread continues when the running one blocks, timer ties - are branched); SL lets the
	// run loop send, LG (31 s) lets the periodic rebroadcast refresh, RB is RebroadcastNow
	seq("seq-1cid-d5", bigMsg, true, 5, 1, "WB WH BH CA SL", 0)
	seq("seq-1cid-d4-rb", bigMsg, true, 4, 1, "WB BH CA RB SL", 0)
	seq("seq-2cid-d4", bigMsg, true, 4, 2, "WB BH CA SL", 0)
	seq("seq-2cid-d3-onemsg", oneMsg, true, 3, 2, "WB WH BH CA SL", 0)
	seq("seq-2cid-d3-nohave", bigMsg, false, 3, 2, "WB WH BH CA SL", 0)
	if thorough {
		seq("seq-1cid-d6", bigMsg, true, 6, 1, "WB WH BH CA SL", 0)
		seq("seq-1cid-d5-long", bigMsg, true, 5, 1, "WB WH BH CA SL LG", 0)
		seq("seq-2cid-d5", bigMsg, true, 5, 2, "WB BH CA SL", 0)
		seq("seq-2cid-d5-onemsg", oneMsg, true, 5, 2, "WB BH CA SL", 0)
		seq("seq-2cid-d4-onemsg", oneMsg, true, 4, 2, "WB WH BH CA SL", 0)
		seq("seq-2cid-d4-twomsg", twoMsg, true, 4, 2, "WB WH BH CA SL", 0)
		seq("seq-2cid-d4-nohave", bigMsg, false, 4, 2, "WB WH BH CA SL", 0)
		seq("seq-1cid-d4-resp-long", bigMsg, true, 4, 1, "WB BH CA RS SL LG", 0)
		seq("seq-3cid-d4", twoMsg, true, 4, 3, "WB BH CA SL", 0)
		seq("seq-1cid-d3-b1", bigMsg, true, 3, 1, "WB BH CA RB SL", 1)
	}
	// --- E3: hand-picked races
	lo := 1 // quick: small scenarios at the full bound 2, the rest at 1; thorough: 3 / 2
	if thorough {
		lo = 2
	}
	add(mk("cancel-vs-rebroadcastnow", bigMsg, true, "WB0 SL50ms", "RB", "CA0"), bound)
	add(mk("cancel-vs-timed-rebroadcast", bigMsg, true, "WB0", "SL30s CA0"), bound)
	add(mk("want-vs-cancel", bigMsg, true, "", "WB0", "CA0"), bound)
	add(mk("have-upgrade-in-flight", bigMsg, true, "", "WH0", "WB0"), bound)
	add(mk("block-in-flight-cancel-rewant-have", bigMsg, true, "", "WB0", "CA0 WH0"), 2)
	add(mk("both-lists-cancel-rewant", bigMsg, true, "WB0 BH0", "CA0 BH0"), bound)
	add(mk("both-lists-cancel-rewant-peer", bigMsg, true, "WB0 BH0", "CA0 WB0"), bound)
	add(mk("sent-cancel-rewant-vs-cancel", bigMsg, true, "WB0 SL50ms", "CA0 WB0", "CA0"), lo)
	add(mk("two-cids-one-entry-messages", oneMsg, true, "", "W2", "C2"), lo)
	add(mk("two-cids-two-entry-messages", twoMsg, true, "W2 BH2", "C2", "WB1"), lo)
	add(mk("nohave-mixed", bigMsg, false, "", "WH0 BH1", "CA0 WB1"), lo)
	add(mk("three-producers", bigMsg, true, "", "WB0", "CA0", "BH0"), lo)
	// --- E3: one send pass spanning several messages (sendMessage keeps looping while >= sendMessageCutoff = 256
	// entries are pending): 570 filler CIDs added in bulk, 300 entries per message; a producer call on c0 lands
	// between the chunks of the pass (SendMsg of a chunk is a scheduling point). State carried from one chunk to
	// the next (the reused message, the cancel set, priorities) is what these scenarios reach.
	add(mk("chunks-cancel-queued", chunkMsg, true, "WB0 SL50ms CA0 WF", "WB0|WH0|BH0|CA0"), 1)
	add(mk("chunks-want-sent", chunkMsg, true, "WB0 SL50ms WF", "CA0|WH0|BH0|WB0 WB0|CA0"), 1)
	add(mk("chunks-cancel-all", chunkMsg, true, "WB0 WF", "CF", "CA0 WB0"), 1)
	if thorough {
		add(mk("chunks-cancel-queued-b2", chunkMsg, true, "WB0 SL50ms CA0 WF", "WB0|WH0|BH0|CA0 WB0|CA0"), 2)
		add(mk("chunks-nohave", chunkMsg, false, "WB0 BH1 SL50ms CA0 WF", "WB0|BH0|CA0|WH1"), 1)
	}
	f := add(mk("send-failure", bigMsg, true, "", "WB0 CA0", "WH1"), lo)
	f.fail = true
	// --- E3: systematic pairs on one CID: every one-call producer against every two-call producer, bound 1
	pair := func(name string, maxMsg int, have bool, pre string, b int) {
		add(mk(name, maxMsg, have, pre, "WB0|WH0|BH0|CA0|RB", "WB0|WH0|BH0|CA0 WB0|WH0|BH0|CA0"), b)
	}
	if !thorough {
		add(mk("pairs-both-pending-q", bigMsg, true, "WB0 BH0", "WB0|BH0|CA0|RB", "WB0|BH0|CA0 WB0|BH0|CA0"), 1)
	} else {
		pair("pairs-both-pending", bigMsg, true, "WB0 BH0", 1)
		pair("pairs-empty", bigMsg, true, "", 1)
		pair("pairs-block-sent", bigMsg, true, "WB0 SL50ms", 1)
		pair("pairs-both-sent", bigMsg, true, "WH0 BH0 SL50ms", 1)
		pair("pairs-cancel-pending", bigMsg, true, "WB0 SL50ms CA0", 1)
		pair("pairs-nohave-both-pending", bigMsg, false, "WH0 BH0", 1)
		add(mk("pairs-both-pending-b2", bigMsg, true, "WB0 BH0", "WB0|BH0|CA0|RB", "WB0|BH0|CA0 WB0|BH0|CA0"), 2)
	}
	return out
}

func scenarios(thorough bool) []*vexp.Scenario {
	var out []*vexp.Scenario
	for _, s := range scripts(thorough) {
		s := s
		mi := s.maxIdle
		if mi == 0 {
			mi = 120
		}
		out = append(out, &vexp.Scenario{
			Name: s.name, BoundDelta: s.delta,
			Cfg: vsched.Config{MaxSteps: 400000, MaxIdleFires: mi, SelectCost: 1},
			New: func() vexp.Exec { return &exec{sc: s} },
		})
	}
	return out
}

func main() {
	eng.WorkerMain = func() {
		vexp.Register(append(scenarios(false), scenarios(true)...)...)
		eng.WorkerMain()
	}
	eng.Main("C35", "model_checking", func(r *eng.Run) {
		scs := scenarios(r.Thorough())
		r.Rule("every schedule (thread interleaving at each lock / channel / select / atomic / SendMsg point, early timer firing, select-case choice, injected send failure) of each scenario with at most B deviations from the default run-to-completion schedule, combined with every resolution of the scenario's cost-free script choices (operation sequences); a case is non-trivial when it has >= 1 deviation or a non-default script choice")
		r.Assume("vsched models channels, select, sync.Mutex, atomics and timers faithfully (virtual time; a timer never fires before an earlier-deadline timer)")
		r.Assume("overlapping producer calls may linearise in either order; a failed SendMsg ends the peer session (no convergence demanded afterwards)")
		r.Assume("the receiver applies messages in send order: cancel removes, want-block upgrades want-have, want-have never downgrades, Full replaces")
		vexp.Explore(r, scs, vexp.Options{Bound: eng.Pick(r, 2, 3)})
	}, func(r *eng.Run, raw json.RawMessage) { vexp.Replay(r, append(scenarios(false), scenarios(true)...), raw) })
}
