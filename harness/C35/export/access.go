//go:build verif

package messagequeue

import (
	"context"

	bswl "github.com/ipfs/boxo/bitswap/client/wantlist"
	pb "github.com/ipfs/boxo/bitswap/message/pb"
	cid "github.com/ipfs/go-cid"
	peer "github.com/libp2p/go-libp2p/core/peer"
)

// VerifNew exposes the package-internal constructor (the one boxo's own tests
// use) with the production back-off / latency constants, no DONT_HAVE timeout
// manager and no test event channel.
func VerifNew(ctx context.Context, p peer.ID, network MessageNetwork, maxMsgSize int) *MessageQueue {
	return newMessageQueue(ctx, p, network, maxMsgSize, sendErrorBackoff, maxValidLatency, nil, nil)
}

// VerifBusy reports whether anything is waiting to be sent (HasMessage without
// taking wllock: the harness calls it only from a managed thread while every
// other thread is parked outside the critical sections).
func (mq *MessageQueue) VerifBusy() bool {
	return mq.bcstWants.pending.Len() != 0 || mq.peerWants.pending.Len() != 0 || mq.cancels.Len() != 0
}

// VerifDump renders the bookkeeping for the given CIDs (diagnostics only; uses
// the pure Get/Has accessors so that no memoised slice is touched).
func (mq *MessageQueue) VerifDump(pool []cid.Cid) string {
	one := func(name string, w *bswl.Wantlist) string {
		s := name + "["
		for i, c := range pool {
			if e, ok := w.Get(c); ok {
				t := "H"
				if e.WantType == pb.Message_Wantlist_Block {
					t = "B"
				}
				s += " c" + string(rune('0'+i)) + ":" + t
			}
		}
		return s + " ]"
	}
	s := one("peer.pending", mq.peerWants.pending) + " " + one("peer.sent", mq.peerWants.sent) + " " +
		one("bcst.pending", mq.bcstWants.pending) + " " + one("bcst.sent", mq.bcstWants.sent) + " cancels["
	for i, c := range pool {
		if mq.cancels.Has(c) {
			s += " c" + string(rune('0'+i))
		}
	}
	return s + " ]"
}

// VerifTracked returns, for each CID of pool, the want the queue itself tracks
// (pending or sent): peer want type (0 none, 1 have, 2 block) and broadcast flag.
// Used only to label a diverging history with the call order the queue really took.
func (mq *MessageQueue) VerifTracked(pool []cid.Cid) (peer []int, bcst []bool) {
	for _, c := range pool {
		t := 0
		for _, w := range []*bswl.Wantlist{mq.peerWants.pending, mq.peerWants.sent} {
			if e, ok := w.Get(c); ok {
				if e.WantType == pb.Message_Wantlist_Block {
					t = 2
				} else if t < 1 {
					t = 1
				}
			}
		}
		peer = append(peer, t)
		bcst = append(bcst, mq.bcstWants.pending.Has(c) || mq.bcstWants.sent.Has(c))
	}
	return peer, bcst
}
