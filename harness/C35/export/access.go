//go:build verif

package messagequeue

import (
	"context"

	bswl "github.com/ipfs/boxo/bitswap/client/wantlist"
	pb "github.com/ipfs/boxo/bitswap/message/pb"
	cid "github.com/ipfs/go-cid"
	peer "github.com/libp2p/go-libp2p/core/peer"
)

// VerifNew exposes the package-internal constructor (the one boxo's own tests
// use) with the production back-off / latency constants, no DONT_HAVE timeout
// manager and no test event channel.
func VerifNew(ctx context.Context, p peer.ID, network MessageNetwork, maxMsgSize int) *MessageQueue {
	return newMessageQueue(ctx, p, network, maxMsgSize, sendErrorBackoff, maxValidLatency, nil, nil)
}

// VerifBusy reports whether anything is waiting to be sent (HasMessage without
// taking wllock: the harness calls it only from a managed thread while every
// other thread is parked outside the critical sections).
func (mq *MessageQueue) VerifBusy() bool {
	return mq.bcstWants.pending.Len() != 0 || mq.peerWants.pending.Len() != 0 || mq.cancels.Len() != 0
}

// VerifDump renders the bookkeeping for the given CIDs (diagnostics only; uses
// the pure Get/Has accessors so that no memoised slice is touched).
func (mq *MessageQueue) VerifDump(pool []cid.Cid) string {
	one := func(name string, w *bswl.Wantlist) string {
		s := name + "["
		for i, c := range pool {
			if e, ok := w.Get(c); ok {
				t := "H"
				if e.WantType == pb.Message_Wantlist_Block {
					t = "B"
				}
				s += " c" + string(rune('0'+i)) + ":" + t
			}
		}
		return s + " ]"
	}
	s := one("peer.pending", mq.peerWants.pending) + " " + one("peer.sent", mq.peerWants.sent) + " " +
		one("bcst.pending", mq.bcstWants.pending) + " " + one("bcst.sent", mq.bcstWants.sent) + " cancels["
	for i, c := range pool {
		if mq.cancels.Has(c) {
			s += " c" + string(rune('0'+i))
		}
	}
	return s + " ]"
}
