//go:build verif

package main

import (
	"github.com/ipfs/boxo/verifcid"
)

// ---- reference decision -------------------------------------------------------
//
// accept(code, n)  <=>  allowed(code) && min(code) <= n <= max(code)
//
// The default allowlist is a literal table (numeric multicodec values), the
// default bounds are 20..128 with identity 0..128.

var refDefaultSet = map[uint64]bool{
	0x12: true, // sha2-256
	0x13: true, // sha2-512
	0x19: true, // shake-256
	0x56: true, // dbl-sha2-256
	0x1e: true, // blake3
	0x00: true, // identity
	0x17: true, 0x16: true, 0x15: true, 0x14: true, // sha3-224/256/384/512
	0x1a: true, 0x1b: true, 0x1c: true, 0x1d: true, // keccak-224/256/384/512
	0x11: true, // sha1
}

func refDefaultAllowed(code uint64) bool {
	if refDefaultSet[code] {
		return true
	}
	if code >= 0xb214 && code <= 0xb240 { // blake2b-160 .. blake2b-512
		return true
	}
	if code >= 0xb254 && code <= 0xb260 { // blake2s-160 .. blake2s-256
		return true
	}
	return false
}

func refDefaultMin(code uint64) int {
	if code == 0 {
		return 0
	}
	return 20
}

func refDefaultMax(code uint64) int { return 128 }

type refAL struct {
	name    string
	al      verifcid.Allowlist
	allowed func(code uint64) bool
	min     func(code uint64) int
	max     func(code uint64) int
}

// accept returns the reference decision and, for a rejection, its cause.
func (a *refAL) accept(code uint64, n int) (bool, string) {
	if !a.allowed(code) {
		return false, "function-not-allowed"
	}
	if n < a.min(code) {
		return false, "digest-too-short"
	}
	if n > a.max(code) {
		if code == 0 {
			return false, "identity-too-long"
		}
		return false, "digest-too-long"
	}
	return true, ""
}

// refSet models NewAllowlist / NewOverridingAllowlist: a key present in the
// set decides; a missing key falls back to the override, or to "not allowed"
// without one. Bounds come from the override, or the defaults without one.
func refSet(name string, al verifcid.Allowlist, set map[uint64]bool, over *refAL) *refAL {
	r := &refAL{name: name, al: al}
	r.allowed = func(code uint64) bool {
		if v, ok := set[code]; ok {
			return v
		}
		if over != nil {
			return over.allowed(code)
		}
		return false
	}
	if over != nil {
		r.min, r.max = over.min, over.max
	} else {
		r.min, r.max = refDefaultMin, refDefaultMax
	}
	return r
}

// customAL is a user implementation of the Allowlist interface with its own
// bounds (identity is NOT exempt from its minimum here).
type customAL struct{}

func (customAL) IsAllowed(code uint64) bool {
	return code == 0x12 || code == 0xd5 || code == 0x00 || code == 0x1e
}

func (customAL) MinDigestSize(code uint64) int {
	switch code {
	case 0x12:
		return 32
	case 0xd5:
		return 16
	case 0x00:
		return 1
	}
	return 8
}

func (customAL) MaxDigestSize(code uint64) int {
	switch code {
	case 0x12:
		return 32
	case 0x00:
		return 16
	}
	return 64
}

func refCustom() *refAL {
	return &refAL{name: "custom-impl", al: customAL{},
		allowed: func(c uint64) bool { return c == 0x12 || c == 0xd5 || c == 0x00 || c == 0x1e },
		min: func(c uint64) int {
			switch c {
			case 0x12:
				return 32
			case 0xd5:
				return 16
			case 0x00:
				return 1
			}
			return 8
		},
		max: func(c uint64) int {
			switch c {
			case 0x12:
				return 32
			case 0x00:
				return 16
			}
			return 64
		}}
}

func refDefault() *refAL {
	return &refAL{name: "default", al: verifcid.DefaultAllowlist, allowed: refDefaultAllowed, min: refDefaultMin, max: refDefaultMax}
}

func allowlists() []*refAL {
	def := refDefault()
	cust := refCustom()
	cp := func(m map[uint64]bool) map[uint64]bool {
		o := map[uint64]bool{}
		for k, v := range m {
			o[k] = v
		}
		return o
	}
	s1 := map[uint64]bool{0x12: true}
	s2 := map[uint64]bool{0x12: true, 0x00: true, 0xd5: true, 0x11: false}
	s3 := map[uint64]bool{0x11: false, 0xd5: true}
	s4 := map[uint64]bool{0x12: true, 0xd5: true}
	s5 := map[uint64]bool{0x1e: true, 0x12: false, 0xb220: true}
	in := map[uint64]bool{0x11: false, 0x20: true}
	out := map[uint64]bool{0x11: true, 0x00: false}
	inner := refSet("inner", verifcid.NewOverridingAllowlist(verifcid.DefaultAllowlist, cp(in)), in, def)
	return []*refAL{
		def,
		refSet("set{sha256}", verifcid.NewAllowlist(cp(s1)), s1, nil),
		refSet("set{sha256,identity,md5,!sha1}", verifcid.NewAllowlist(cp(s2)), s2, nil),
		refSet("set{nil}", verifcid.NewAllowlist(nil), nil, nil),
		refSet("over(default){!sha1,md5}", verifcid.NewOverridingAllowlist(verifcid.DefaultAllowlist, cp(s3)), s3, def),
		refSet("over(nil){sha256,md5}", verifcid.NewOverridingAllowlist(nil, cp(s4)), s4, nil),
		refSet("over(default){}", verifcid.NewOverridingAllowlist(verifcid.DefaultAllowlist, nil), nil, def),
		refSet("over(over(default){!sha1,sha384}){sha1,!identity}", verifcid.NewOverridingAllowlist(inner.al, cp(out)), out, inner),
		cust,
		refSet("over(custom){blake3,!sha256,blake2b-256}", verifcid.NewOverridingAllowlist(customAL{}, cp(s5)), s5, cust),
	}
}
