//go:build verif

package main

import (
	"context"
	"fmt"
	"sort"
	"strings"

	"github.com/ipfs/boxo/blockservice"
	bstore "github.com/ipfs/boxo/blockstore"
	"github.com/ipfs/boxo/exchange"
	"github.com/ipfs/boxo/verifcid"
	"github.com/ipfs/boxo/verifshim/eng"
	blocks "github.com/ipfs/go-block-format"
	cid "github.com/ipfs/go-cid"
	ds "github.com/ipfs/go-datastore"
	dssync "github.com/ipfs/go-datastore/sync"
)

// Cross-service family: TWO real block services A and B over the SAME
// recording blockstore value and the same exchange, with different
// allowlists. A call on one service, with a plain context or with a context
// that embeds a session of A or of B, must obey the allowlist of the service
// that is CALLED: it never stores, fetches or returns a CID its own validator
// rejects.

func crossAllowlist(name string) *refAL {
	switch name {
	case "default", "flipped":
		return bsAllowlist(name)
	case "permissive": // default plus sha2-384 and md5
		set := map[uint64]bool{0x20: true, 0xd5: true}
		return refSet("permissive", verifcid.NewOverridingAllowlist(verifcid.DefaultAllowlist, map[uint64]bool{0x20: true, 0xd5: true}), set, refDefault())
	case "strict": // sha2-256 only, default bounds
		set := map[uint64]bool{0x12: true}
		return refSet("strict", verifcid.NewAllowlist(map[uint64]bool{0x12: true}), set, nil)
	}
	panic("bad allowlist " + name)
}

type crossCase struct {
	alA, alB string // allowlists of service A and service B
	ex       string // session | plain | none
	called   string // A | B  : the service the call is made on
	ctxOf    string // plain | A | B : context = ContextWithSession(that service)
	entry    string // GetBlock | GetBlocks | NewSession.GetBlock | NewSession.GetBlocks
	word     string
}

func (k crossCase) id() string {
	return fmt.Sprintf("cross/A=%s,B=%s/ex=%s/called=%s/ctx=%s/%s/%s", k.alA, k.alB, k.ex, k.called, k.ctxOf, k.entry, k.word)
}

func runCross(r *eng.Run, k crossCase, verbose bool) *eng.Violation {
	initKinds()
	bg := context.Background()
	refA, refB := crossAllowlist(k.alA), crossAllowlist(k.alB)
	rec := &recorder{}
	mds := dssync.MutexWrap(ds.NewMapDatastore())
	inner := bstore.NewBlockstore(mds)
	initial := map[string]bool{}
	remote := map[string]blocks.Block{}
	for i := range kinds {
		kd := &kinds[i]
		if kd.local {
			if err := inner.Put(bg, kd.block()); err != nil {
				panic(err)
			}
			initial[string(kd.c.Hash())] = true
		}
		if kd.remote {
			remote[string(kd.c.Hash())] = kd.block()
		}
	}
	rbs := &recBS{in: inner, rec: rec} // ONE blockstore value shared by both services
	var ex exchange.Interface
	switch k.ex {
	case "session":
		ex = recSessEx{&recEx{rec: rec, prefix: "exchange.", remote: remote}}
	case "plain":
		ex = &recEx{rec: rec, prefix: "exchange.", remote: remote}
	case "none":
	default:
		panic("bad exchange " + k.ex)
	}
	svcA := blockservice.New(rbs, ex, blockservice.WithAllowlist(refA.al))
	svcB := blockservice.New(rbs, ex, blockservice.WithAllowlist(refB.al))
	svc, ref, other := svcA, refA, refB
	if k.called == "B" {
		svc, ref, other = svcB, refB, refA
	}
	ctx := bg
	switch k.ctxOf {
	case "A":
		ctx = blockservice.ContextWithSession(bg, svcA)
	case "B":
		ctx = blockservice.ContextWithSession(bg, svcB)
	case "plain":
	default:
		panic("bad ctx " + k.ctxOf)
	}
	var args []*kind
	for _, l := range k.word {
		args = append(args, kindByLetter[string(l)])
	}
	var getter blockservice.BlockGetter = svc
	if strings.HasPrefix(k.entry, "NewSession.") {
		getter = blockservice.NewSession(ctx, svc)
	}
	var returned []cid.Cid
	var opErr error
	switch strings.TrimPrefix(k.entry, "NewSession.") {
	case "GetBlock":
		b, err := getter.GetBlock(ctx, args[0].c)
		opErr = err
		if b != nil {
			returned = append(returned, b.Cid())
		}
	case "GetBlocks":
		var cs []cid.Cid
		for _, a := range args {
			cs = append(cs, a.c)
		}
		for b := range getter.GetBlocks(ctx, cs) {
			returned = append(returned, b.Cid())
		}
	default:
		panic("bad entry " + k.entry)
	}

	id := k.id()
	foreign := "plain"
	switch {
	case k.ctxOf == k.called:
		foreign = "own-session"
	case k.ctxOf != "plain":
		foreign = "other-service-session"
	}
	feat := func(c cid.Cid, extra ...string) []string {
		okOther, _ := other.validCid(c)
		return append([]string{"part", "blockservice-cross", "entry", k.entry, "exchange", k.ex, "context", foreign,
			"called_allowlist", ref.name, "other_allowlist", other.name, "accepted_by_other_service", fmt.Sprint(okOther)}, extra...)
	}
	if verbose {
		fmt.Printf("  %s: err=%v returned=%d (judged by the allowlist of service %s = %s)\n", id, opErr, len(returned), k.called, ref.name)
		for _, e := range rec.ev {
			ok, cause := ref.validCid(e.c)
			fmt.Printf("    %s(%s) valid-for-called-service=%v %s\n", e.where, e.c, ok, cause)
		}
	}
	for _, e := range rec.ev {
		ok, cause := ref.validCid(e.c)
		if ok {
			continue
		}
		sym := "rejected-cid-fetched"
		switch {
		case strings.HasSuffix(e.where, "Put"), strings.HasSuffix(e.where, "PutMany"):
			sym = "rejected-cid-stored"
		case strings.HasSuffix(e.where, "NotifyNewBlocks"):
			sym = "rejected-cid-announced"
		}
		return eng.V(sym, k.entry, fmt.Sprintf("%s: %s was called with %s which the called service's validator rejects (%s)", id, e.where, e.c, cause),
			feat(e.c, "cause", cause, "reached", e.where)...)
	}
	for _, c := range returned {
		if ok, cause := ref.validCid(c); !ok {
			return eng.V("rejected-cid-returned", k.entry, fmt.Sprintf("%s: returned block %s which the called service's validator rejects (%s)", id, c, cause),
				feat(c, "cause", cause)...)
		}
	}
	ch, err := inner.AllKeysChan(bg)
	if err != nil {
		panic(err)
	}
	for c := range ch {
		if !initial[string(c.Hash())] {
			if ok, cause := ref.validCid(c); !ok {
				return eng.V("rejected-cid-stored", k.entry, fmt.Sprintf("%s: blockstore now holds %s which the called service's validator rejects (%s)", id, c, cause),
					feat(c, "cause", cause, "reached", "blockstore-contents")...)
			}
		}
	}
	// sanity: valid available CIDs are served (a foreign session must not make the service stricter either)
	got := map[string]bool{}
	for _, c := range returned {
		got[string(c.Hash())] = true
	}
	for i, a := range args {
		ok, _ := ref.validCid(a.c)
		avail := a.local || (a.remote && k.ex != "none")
		if ok && avail && !got[string(a.c.Hash())] {
			return eng.V("valid-cid-not-served", k.entry, fmt.Sprintf("%s: %s (%s) at index %d is valid for the called service and available but was not returned (err=%v)", id, a.c, a.name, i, opErr),
				feat(a.c, "position", posClass(i, len(args)))...)
		}
	}
	nInv := 0
	for _, a := range args {
		if ok, _ := ref.validCid(a.c); !ok {
			nInv++
		}
	}
	wheres := map[string]bool{}
	for _, e := range rec.ev {
		wheres[e.where] = true
	}
	ws := []string{}
	for w := range wheres {
		ws = append(ws, w)
	}
	sort.Strings(ws)
	r.Outcome(fmt.Sprintf("cross|%s|%s|err=%v|ret=%d|inv=%d|%s", k.entry, foreign, opErr != nil, len(returned), nInv, strings.Join(ws, ",")))
	return nil
}

func crossCases(thorough bool) []crossCase {
	initKinds()
	maxLen := 2
	if thorough {
		maxLen = 3
	}
	ws := words(maxLen)
	var out []crossCase
	for _, al := range [][2]string{{"default", "flipped"}, {"permissive", "strict"}, {"default", "default"}} {
		for _, ex := range []string{"session", "plain", "none"} {
			for _, called := range []string{"A", "B"} {
				for _, ctxOf := range []string{"plain", "A", "B"} {
					base := crossCase{alA: al[0], alB: al[1], ex: ex, called: called, ctxOf: ctxOf}
					for _, kd := range kinds {
						for _, e := range []string{"GetBlock", "NewSession.GetBlock"} {
							c := base
							c.entry, c.word = e, kd.letter
							out = append(out, c)
						}
					}
					for _, w := range ws {
						for _, e := range []string{"GetBlocks", "NewSession.GetBlocks"} {
							c := base
							c.entry, c.word = e, w
							out = append(out, c)
						}
					}
				}
			}
		}
	}
	return out
}

func parseCross(id string) (crossCase, bool) {
	// cross/A=<a>,B=<b>/ex=<ex>/called=<A|B>/ctx=<..>/<entry>/<word>
	f := strings.Split(id, "/")
	if len(f) != 7 || f[0] != "cross" {
		return crossCase{}, false
	}
	ab := strings.SplitN(f[1], ",", 2)
	if len(ab) != 2 {
		return crossCase{}, false
	}
	return crossCase{alA: strings.TrimPrefix(ab[0], "A="), alB: strings.TrimPrefix(ab[1], "B="), ex: strings.TrimPrefix(f[2], "ex="),
		called: strings.TrimPrefix(f[3], "called="), ctxOf: strings.TrimPrefix(f[4], "ctx="), entry: f[5], word: f[6]}, true
}
