//go:build verif

package main

import (
	"context"
	"fmt"
	"sort"
	"strings"
	"sync"

	"github.com/ipfs/boxo/blockservice"
	bstore "github.com/ipfs/boxo/blockstore"
	"github.com/ipfs/boxo/exchange"
	"github.com/ipfs/boxo/verifcid"
	"github.com/ipfs/boxo/verifshim/eng"
	blocks "github.com/ipfs/go-block-format"
	cid "github.com/ipfs/go-cid"
	ds "github.com/ipfs/go-datastore"
	dssync "github.com/ipfs/go-datastore/sync"
	ipld "github.com/ipfs/go-ipld-format"
	mh "github.com/multiformats/go-multihash"
)

// ---- alphabet of CID kinds ------------------------------------------------------

type kind struct {
	letter        string
	name          string
	c             cid.Cid
	data          []byte
	local, remote bool
}

var kinds []kind
var kindByLetter = map[string]*kind{}

func initKinds() {
	if len(kinds) > 0 {
		return
	}
	sum := func(data string, code uint64, n int) cid.Cid {
		h, err := mh.Sum([]byte(data), code, n)
		if err != nil {
			panic(err)
		}
		return cid.NewCidV1(cid.Raw, h)
	}
	id128 := strings.Repeat("i", 128)
	id129 := strings.Repeat("j", 129)
	kinds = []kind{
		{"a", "valid-local", sum("valid-local", mh.SHA2_256, -1), []byte("valid-local"), true, false},
		{"b", "valid-remote", sum("valid-remote", mh.SHA2_256, -1), []byte("valid-remote"), false, true},
		{"c", "valid-min-boundary", sum("valid-min", mh.SHA2_256, 20), []byte("valid-min"), true, false},
		{"d", "valid-identity-max", sum(id128, mh.IDENTITY, -1), []byte(id128), false, true},
		{"w", "invalid-function-local", cid.NewCidV1(cid.Raw, fakeMultihash(0x20, 48)), []byte("sha2-384 is not on the default list"), true, false},
		{"x", "invalid-function-remote", cid.NewCidV1(cid.DagProtobuf, fakeMultihash(0xd5, 32)), []byte("md5"), false, true},
		{"y", "too-short", sum("too-short", mh.SHA2_256, 19), []byte("too-short"), true, true},
		{"z", "too-long", cid.NewCidV1(cid.Raw, fakeMultihash(mh.SHA2_512, 129)), []byte("too-long"), true, true},
		{"i", "identity-too-long", sum(id129, mh.IDENTITY, -1), []byte(id129), true, true},
	}
	for i := range kinds {
		kindByLetter[kinds[i].letter] = &kinds[i]
	}
}

func (k *kind) block() blocks.Block {
	b, err := blocks.NewBlockWithCid(k.data, k.c)
	if err != nil {
		panic(err)
	}
	return b
}

// ---- recording doubles -----------------------------------------------------------

type event struct {
	where string
	c     cid.Cid
}

type recorder struct {
	mu sync.Mutex
	ev []event
}

func (r *recorder) add(where string, cs ...cid.Cid) {
	r.mu.Lock()
	for _, c := range cs {
		r.ev = append(r.ev, event{where, c})
	}
	r.mu.Unlock()
}

type recBS struct {
	in  bstore.Blockstore
	rec *recorder
}

func (b *recBS) DeleteBlock(ctx context.Context, c cid.Cid) error {
	b.rec.add("blockstore.DeleteBlock", c)
	return b.in.DeleteBlock(ctx, c)
}
func (b *recBS) Has(ctx context.Context, c cid.Cid) (bool, error) {
	b.rec.add("blockstore.Has", c)
	return b.in.Has(ctx, c)
}
func (b *recBS) Get(ctx context.Context, c cid.Cid) (blocks.Block, error) {
	b.rec.add("blockstore.Get", c)
	return b.in.Get(ctx, c)
}
func (b *recBS) GetSize(ctx context.Context, c cid.Cid) (int, error) {
	b.rec.add("blockstore.GetSize", c)
	return b.in.GetSize(ctx, c)
}
func (b *recBS) Put(ctx context.Context, blk blocks.Block) error {
	b.rec.add("blockstore.Put", blk.Cid())
	return b.in.Put(ctx, blk)
}
func (b *recBS) PutMany(ctx context.Context, bl []blocks.Block) error {
	for _, blk := range bl {
		b.rec.add("blockstore.PutMany", blk.Cid())
	}
	return b.in.PutMany(ctx, bl)
}
func (b *recBS) AllKeysChan(ctx context.Context) (<-chan cid.Cid, error) { return b.in.AllKeysChan(ctx) }

// recEx is an exchange that holds the "remote" blocks. subst maps a requested
// multihash to the letter of the kind it answers with instead (lying exchange).
type recEx struct {
	rec    *recorder
	prefix string
	remote map[string]blocks.Block
	subst  map[string]blocks.Block
}

func (e *recEx) lookup(c cid.Cid) (blocks.Block, bool) {
	if b, ok := e.subst[string(c.Hash())]; ok {
		return b, true
	}
	b, ok := e.remote[string(c.Hash())]
	return b, ok
}

func (e *recEx) GetBlock(ctx context.Context, c cid.Cid) (blocks.Block, error) {
	e.rec.add(e.prefix+"GetBlock", c)
	if b, ok := e.lookup(c); ok {
		return b, nil
	}
	return nil, ipld.ErrNotFound{Cid: c}
}

func (e *recEx) GetBlocks(ctx context.Context, ks []cid.Cid) (<-chan blocks.Block, error) {
	e.rec.add(e.prefix+"GetBlocks", ks...)
	out := make(chan blocks.Block, len(ks))
	for _, c := range ks {
		if b, ok := e.lookup(c); ok {
			out <- b
		}
	}
	close(out)
	return out, nil
}

func (e *recEx) NotifyNewBlocks(ctx context.Context, bl ...blocks.Block) error {
	for _, b := range bl {
		e.rec.add(e.prefix+"NotifyNewBlocks", b.Cid())
	}
	return nil
}
func (e *recEx) Close() error { return nil }

type recSessEx struct{ *recEx }

func (e recSessEx) NewSession(context.Context) exchange.Fetcher {
	s := *e.recEx
	s.prefix = "exchange.session."
	return &s
}

var _ exchange.SessionExchange = recSessEx{}
var _ exchange.Interface = (*recEx)(nil)

// ---- configurations and cases ------------------------------------------------------

type bsCfg struct {
	al string // default | flipped
	wt bool
	ex string // session | plain | none | substituting
}

func (c bsCfg) String() string { return fmt.Sprintf("%s/wt=%v/ex=%s", c.al, c.wt, c.ex) }

func bsAllowlist(name string) *refAL {
	switch name {
	case "default":
		return refDefault()
	case "flipped":
		set := map[uint64]bool{0x20: true, 0x12: false}
		return refSet("flipped", verifcid.NewOverridingAllowlist(verifcid.DefaultAllowlist, map[uint64]bool{0x20: true, 0x12: false}), set, refDefault())
	}
	panic("bad allowlist " + name)
}

func (a *refAL) validCid(c cid.Cid) (bool, string) {
	dm, err := mh.Decode(c.Hash())
	if err != nil {
		return false, "undecodable"
	}
	return a.accept(dm.Code, dm.Length)
}

type bsCase struct {
	cfg  bsCfg
	op   string // AddBlock AddBlocks GetBlock GetBlocks
	mode string // direct | session | ctxsession   (gets only)
	word string
}

func (k bsCase) id() string {
	return fmt.Sprintf("bsvc/%s/%s/%s/%s", k.cfg, k.op, k.mode, k.word)
}

func words(maxLen int) []string {
	out := []string{""}
	prev := []string{""}
	for l := 1; l <= maxLen; l++ {
		var cur []string
		for _, p := range prev {
			for _, k := range kinds {
				cur = append(cur, p+k.letter)
			}
		}
		out = append(out, cur...)
		prev = cur
	}
	return out
}

func posClass(i, n int) string {
	switch {
	case n == 1:
		return "only"
	case i == 0:
		return "first"
	case i == n-1:
		return "last"
	}
	return "middle"
}

func runBs(r *eng.Run, k bsCase, verbose bool) *eng.Violation {
	initKinds()
	bg := context.Background()
	ref := bsAllowlist(k.cfg.al)
	rec := &recorder{}
	mds := dssync.MutexWrap(ds.NewMapDatastore())
	inner := bstore.NewBlockstore(mds)
	initial := map[string]bool{}
	remote := map[string]blocks.Block{}
	for i := range kinds {
		kd := &kinds[i]
		if kd.local {
			if err := inner.Put(bg, kd.block()); err != nil {
				panic(err)
			}
			initial[string(kd.c.Hash())] = true
		}
		if kd.remote {
			remote[string(kd.c.Hash())] = kd.block()
		}
	}
	rbs := &recBS{in: inner, rec: rec}
	var ex exchange.Interface
	switch k.cfg.ex {
	case "session":
		ex = recSessEx{&recEx{rec: rec, prefix: "exchange.", remote: remote}}
	case "plain":
		ex = &recEx{rec: rec, prefix: "exchange.", remote: remote}
	case "substituting":
		// every request for a valid remote block is answered with a block
		// whose CID the validator rejects
		sub := map[string]blocks.Block{}
		for _, kd := range kinds {
			if ok, _ := ref.validCid(kd.c); ok && kd.remote {
				sub[string(kd.c.Hash())] = kindByLetter["x"].block()
			}
		}
		ex = recSessEx{&recEx{rec: rec, prefix: "exchange.", remote: remote, subst: sub}}
	case "none":
	default:
		panic("bad exchange " + k.cfg.ex)
	}
	svc := blockservice.New(rbs, ex, blockservice.WriteThrough(k.cfg.wt), blockservice.WithAllowlist(ref.al))

	var args []*kind
	for _, l := range k.word {
		args = append(args, kindByLetter[string(l)])
	}
	var getter blockservice.BlockGetter = svc
	ctx := bg
	switch k.mode {
	case "session":
		getter = blockservice.NewSession(bg, svc)
	case "ctxsession":
		ctx = blockservice.ContextWithSession(bg, svc)
	}

	var returned []cid.Cid
	var opErr error
	switch k.op {
	case "AddBlock":
		opErr = svc.AddBlock(ctx, args[0].block())
	case "AddBlocks":
		var bl []blocks.Block
		for _, a := range args {
			bl = append(bl, a.block())
		}
		opErr = svc.AddBlocks(ctx, bl)
	case "GetBlock":
		b, err := getter.GetBlock(ctx, args[0].c)
		opErr = err
		if b != nil {
			returned = append(returned, b.Cid())
		}
	case "GetBlocks":
		var cs []cid.Cid
		for _, a := range args {
			cs = append(cs, a.c)
		}
		for b := range getter.GetBlocks(ctx, cs) {
			returned = append(returned, b.Cid())
		}
	default:
		panic("bad op " + k.op)
	}

	id := k.id()
	feat := func(extra ...string) []string {
		return append([]string{"part", "blockservice", "entry", k.op, "mode", k.mode, "exchange", k.cfg.ex, "allowlist", k.cfg.al, "writethrough", fmt.Sprint(k.cfg.wt)}, extra...)
	}
	posOf := func(c cid.Cid) string {
		for i, a := range args {
			if a.c.Hash().B58String() == c.Hash().B58String() {
				return posClass(i, len(args))
			}
		}
		return "not-requested"
	}
	if verbose {
		fmt.Printf("  %s: err=%v returned=%d\n", id, opErr, len(returned))
		for _, e := range rec.ev {
			ok, cause := ref.validCid(e.c)
			fmt.Printf("    %s(%s) valid=%v %s\n", e.where, e.c, ok, cause)
		}
	}
	// 1. every CID that reached the blockstore or the exchange
	for _, e := range rec.ev {
		ok, cause := ref.validCid(e.c)
		if ok {
			continue
		}
		sym := "rejected-cid-fetched"
		switch {
		case strings.HasSuffix(e.where, "Put"), strings.HasSuffix(e.where, "PutMany"):
			sym = "rejected-cid-stored"
		case strings.HasSuffix(e.where, "NotifyNewBlocks"):
			sym = "rejected-cid-announced"
		}
		return eng.V(sym, k.op, fmt.Sprintf("%s: %s was called with %s which the validator rejects (%s)", id, e.where, e.c, cause),
			feat("cause", cause, "position", posOf(e.c), "reached", e.where)...)
	}
	// 2. everything returned
	for _, c := range returned {
		if ok, cause := ref.validCid(c); !ok {
			return eng.V("rejected-cid-returned", k.op, fmt.Sprintf("%s: returned block %s which the validator rejects (%s)", id, c, cause),
				feat("cause", cause, "position", posOf(c))...)
		}
	}
	// 3. final blockstore contents
	ch, err := inner.AllKeysChan(bg)
	if err != nil {
		panic(err)
	}
	stored := map[string]bool{}
	for c := range ch {
		stored[string(c.Hash())] = true
		if !initial[string(c.Hash())] {
			if ok, cause := ref.validCid(c); !ok {
				return eng.V("rejected-cid-stored", k.op, fmt.Sprintf("%s: blockstore now holds %s which the validator rejects (%s)", id, c, cause),
					feat("cause", cause, "position", posOf(c), "reached", "blockstore-contents")...)
			}
		}
	}
	// 4. sanity (keeps the check from being satisfied by a service that drops everything):
	// valid, available CIDs are served / stored when the whole call is valid.
	if k.cfg.ex != "substituting" {
		allValid := true
		for _, a := range args {
			if ok, _ := ref.validCid(a.c); !ok {
				allValid = false
			}
		}
		got := map[string]bool{}
		for _, c := range returned {
			got[string(c.Hash())] = true
		}
		switch k.op {
		case "GetBlock", "GetBlocks":
			for i, a := range args {
				ok, _ := ref.validCid(a.c)
				avail := a.local || (a.remote && k.cfg.ex != "none")
				if ok && avail && !got[string(a.c.Hash())] {
					return eng.V("valid-cid-not-served", k.op, fmt.Sprintf("%s: valid available %s (%s) at index %d was not returned (err=%v)", id, a.c, a.name, i, opErr),
						feat("position", posClass(i, len(args)))...)
				}
			}
		case "AddBlock", "AddBlocks":
			if allValid {
				for i, a := range args {
					if !stored[string(a.c.Hash())] || opErr != nil {
						return eng.V("valid-block-not-stored", k.op, fmt.Sprintf("%s: all CIDs valid but %s (%s) at index %d not stored (err=%v)", id, a.c, a.name, i, opErr),
							feat("position", posClass(i, len(args)))...)
					}
				}
			}
		}
	}
	// observation class for the outcome counter
	nInvalid := 0
	for _, a := range args {
		if ok, _ := ref.validCid(a.c); !ok {
			nInvalid++
		}
	}
	wheres := map[string]bool{}
	for _, e := range rec.ev {
		wheres[e.where] = true
	}
	ws := []string{}
	for w := range wheres {
		ws = append(ws, w)
	}
	sort.Strings(ws)
	r.Outcome(fmt.Sprintf("bsvc|%s|%s|err=%v|ret=%d|inv=%d|%s", k.op, k.mode, opErr != nil, len(returned), nInvalid, strings.Join(ws, ",")))
	return nil
}

func bsCases(thorough bool) []bsCase {
	initKinds()
	maxLen := 4
	if thorough {
		maxLen = 5
	}
	ws := words(maxLen)
	var out []bsCase
	for _, al := range []string{"default", "flipped"} {
		for _, wt := range []bool{false, true} {
			for _, ex := range []string{"session", "plain", "none"} {
				cfg := bsCfg{al, wt, ex}
				for _, kd := range kinds {
					out = append(out, bsCase{cfg, "AddBlock", "direct", kd.letter})
					for _, mode := range []string{"direct", "session", "ctxsession"} {
						out = append(out, bsCase{cfg, "GetBlock", mode, kd.letter})
					}
				}
				for _, w := range ws {
					out = append(out, bsCase{cfg, "AddBlocks", "direct", w})
					for _, mode := range []string{"direct", "session", "ctxsession"} {
						out = append(out, bsCase{cfg, "GetBlocks", mode, w})
					}
				}
			}
		}
	}
	// lying exchange sub-domain
	sub := words(3)
	for _, al := range []string{"default", "flipped"} {
		cfg := bsCfg{al, false, "substituting"}
		for _, kd := range kinds {
			for _, mode := range []string{"direct", "session", "ctxsession"} {
				out = append(out, bsCase{cfg, "GetBlock", mode, kd.letter})
			}
		}
		for _, w := range sub {
			for _, mode := range []string{"direct", "session", "ctxsession"} {
				out = append(out, bsCase{cfg, "GetBlocks", mode, w})
			}
		}
	}
	return out
}
