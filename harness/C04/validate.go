//go:build verif

package main

import (
	"fmt"
	"sort"
	"strconv"
	"strings"
	"sync"

	"github.com/ipfs/boxo/verifcid"
	"github.com/ipfs/boxo/verifshim/eng"
	cid "github.com/ipfs/go-cid"
	multicodec "github.com/multiformats/go-multicodec"
	mh "github.com/multiformats/go-multihash"
)

// codes: the go-multihash table, the multicodec registry's multihash entries,
// unknown codes, and both neighbours of every boundary of the allowed ranges.
func allCodes() []uint64 {
	set := map[uint64]bool{}
	for c := range mh.Codes {
		set[c] = true
	}
	for _, c := range multicodec.KnownCodes() {
		if c.Tag() == "multihash" {
			set[uint64(c)] = true
		}
	}
	for _, c := range []uint64{0x0f, 0x01, 0x55, 0x70, 0x1234567, 1 << 31, 1<<32 + 0x12, 1 << 62, 1<<63 - 1,
		0xb200, 0xb201, 0xb213, 0xb214, 0xb215, 0xb23f, 0xb240, 0xb241, 0xb253, 0xb254, 0xb255, 0xb25f, 0xb260, 0xb261, 0xb262} {
		set[c] = true
	}
	for c := range refDefaultSet {
		set[c] = true
		set[c+1] = true
		if c > 0 {
			set[c-1] = true
		}
	}
	out := make([]uint64, 0, len(set))
	for c := range set {
		out = append(out, c)
	}
	sort.Slice(out, func(i, j int) bool { return out[i] < out[j] })
	return out
}

func allLengths(thorough bool) []int {
	var ls []int
	hi := 256
	if thorough {
		hi = 300
	}
	for n := 0; n <= hi; n++ {
		ls = append(ls, n)
	}
	if thorough {
		ls = append(ls, 512, 1024, 4096, 65536)
	}
	return ls
}

func fakeMultihash(code uint64, n int) mh.Multihash {
	d := make([]byte, n)
	for i := range d {
		d[i] = byte(i + 1)
	}
	b, err := mh.Encode(d, code)
	if err != nil {
		panic(err)
	}
	return mh.Multihash(b)
}

var cidForms = []string{"v1raw", "v1pb", "v1cbor", "v0"}

func mkCid(form string, code uint64, n int) (cid.Cid, bool) {
	m := fakeMultihash(code, n)
	switch form {
	case "v1raw":
		return cid.NewCidV1(cid.Raw, m), true
	case "v1pb":
		return cid.NewCidV1(cid.DagProtobuf, m), true
	case "v1cbor":
		return cid.NewCidV1(cid.DagCBOR, m), true
	case "v0":
		if code == mh.SHA2_256 && n == 32 {
			return cid.NewCidV0(m), true
		}
	}
	return cid.Undef, false
}

func checkValidate(a *refAL, form string, code uint64, n int) (*eng.Violation, string) {
	c, ok := mkCid(form, code, n)
	if !ok {
		return nil, ""
	}
	p := c.Prefix()
	if p.MhType != code || p.MhLength != n {
		panic(fmt.Sprintf("harness: built CID has prefix %+v, wanted code %#x len %d", p, code, n))
	}
	err := verifcid.ValidateCid(a.al, c)
	want, cause := a.accept(code, n)
	id := fmt.Sprintf("val/%s/%#x/%d/%s", a.name, code, n, form)
	cls := "accept"
	if !want {
		cls = "reject:" + cause
	}
	feat := []string{"part", "validator", "allowlist", a.name, "identity", fmt.Sprint(code == 0), "expected", cls}
	if want && err != nil {
		v := eng.V("validator-rejects-allowed-cid", "ValidateCid", fmt.Sprintf("%s: code %#x (%s) digest length %d: ValidateCid = %v, reference accepts", id, code, mh.Codes[code], n, err), feat...)
		v.Replay = map[string]string{"case": id}
		return v, cls
	}
	if !want && err == nil {
		v := eng.V("validator-accepts-rejected-cid", "ValidateCid", fmt.Sprintf("%s: code %#x (%s) digest length %d: ValidateCid = nil, reference rejects (%s)", id, code, mh.Codes[code], n, cause), feat...)
		v.Replay = map[string]string{"case": id}
		return v, cls
	}
	return nil, cls
}

func validatorPart(r *eng.Run) {
	als := allowlists()
	codes := allCodes()
	lens := allLengths(r.Thorough())
	r.Set("validator_codes", len(codes))
	r.Set("validator_lengths", len(lens))
	r.Set("validator_allowlists", len(als))
	r.Set("validator_cid_forms", len(cidForms))
	var mu sync.Mutex
	classes := map[string]int{}
	eng.ParFor(len(codes), func(i int) {
		if r.Expired() {
			r.Incomplete("budget expired in validator enumeration")
			return
		}
		code := codes[i]
		local := map[string]int{}
		for _, a := range als {
			for _, n := range lens {
				for _, form := range cidForms {
					v, cls := checkValidate(a, form, code, n)
					if cls == "" {
						continue
					}
					r.Eval(1)
					local[a.name+"|"+cls]++
					if v != nil {
						r.Report(v)
					}
				}
			}
		}
		mu.Lock()
		for k, n := range local {
			classes[k] += n
		}
		mu.Unlock()
	})
	tot := map[string]int{}
	for k, n := range classes {
		r.Outcome("val|" + k)
		// a (allowlist, class) pair is a distinct non-trivial case family; the
		// individual cases are counted by evaluations
		r.Distinct("val|" + k)
		tot["val_"+k[strings.IndexByte(k, '|')+1:]] += n
	}
	for k, n := range tot {
		r.Set(k, n)
	}
	r.Sample(map[string]any{"part": "validator", "allowlist": als[4].name, "code": "0x11", "len": 20, "form": "v1raw"})
}

func replayValidate(r *eng.Run, id string) {
	f := strings.Split(id, "/")
	// val/<allowlist>/<code>/<len>/<form>; allowlist names contain no '/'
	if len(f) != 5 {
		fmt.Println("bad validator case id", id)
		return
	}
	code, _ := strconv.ParseUint(strings.TrimPrefix(f[2], "0x"), 16, 64)
	n, _ := strconv.Atoi(f[3])
	for _, a := range allowlists() {
		if a.name == f[1] {
			v, cls := checkValidate(a, f[4], code, n)
			r.Eval(1)
			fmt.Printf("  %s: reference says %s\n", id, cls)
			if v != nil {
				r.Report(v)
			} else {
				fmt.Println("  replay: no violation")
			}
			return
		}
	}
	fmt.Println("unknown allowlist in", id)
}
