//go:build verif

// C04: only allowlisted hashes and digest sizes enter or leave the block service.
package main

import (
	"encoding/json"
	"fmt"
	"strings"
	"sync/atomic"

	"github.com/ipfs/boxo/verifshim/eng"
)

func body(r *eng.Run) {
	r.Rule("part 1: nested loops allowlist x multihash code x digest length x CID form, each ValidateCid result compared with the reference decision (a distinct non-trivial family = (allowlist, expected class)); part 3: two services over ONE blockstore value with different allowlists x context {plain, session of A, session of B} x called service x Get entry point x words of length <= 2 (thorough 3), judged by the allowlist of the CALLED service; part 2: all words of bounded length over the 9-letter CID-kind alphabet x entry point x access mode x configuration on a fresh recording block service (non-trivial = every case; each has its own canonical id)")
	r.Assume("go-cid / go-multihash encode and decode multihashes correctly")
	r.Assume("the reference table of the default allowlist (numeric multicodec values) is the intended one")
	validatorPart(r)

	ks := bsCases(r.Thorough())
	r.Set("blockservice_cases", len(ks))
	r.Set("blockservice_alphabet", len(kinds))
	var skipped atomic.Int64
	eng.ParFor(len(ks), func(i int) {
		if r.Expired() {
			skipped.Add(1)
			return
		}
		k := ks[i]
		var v *eng.Violation
		if pv := eng.Guard(k.op, func() { v = runBs(r, k, false) }); pv != nil {
			v = pv
		}
		r.Eval(1)
		r.Distinct(k.id())
		if v != nil {
			v.Replay = map[string]string{"case": k.id()}
			r.Report(v)
		}
	})
	if n := skipped.Load(); n > 0 {
		r.Incomplete(fmt.Sprintf("budget expired: %d of %d block service cases not executed", n, len(ks)))
	}
	for i := 0; i < len(ks); i += len(ks)/3 + 1 {
		r.Sample(ks[len(ks)-1-i].id())
	}

	// cross-service family: two services over one blockstore value
	cs := crossCases(r.Thorough())
	r.Set("cross_service_cases", len(cs))
	var cskipped atomic.Int64
	eng.ParFor(len(cs), func(i int) {
		if r.Expired() {
			cskipped.Add(1)
			return
		}
		k := cs[i]
		var v *eng.Violation
		if pv := eng.Guard(k.entry, func() { v = runCross(r, k, false) }); pv != nil {
			v = pv
		}
		r.Eval(1)
		r.Distinct(k.id())
		if v != nil {
			v.Replay = map[string]string{"case": k.id()}
			r.Report(v)
		}
	})
	if n := cskipped.Load(); n > 0 {
		r.Incomplete(fmt.Sprintf("budget expired: %d of %d cross-service cases not executed", n, len(cs)))
	}
	for i := 0; i < len(cs); i += len(cs)/2 + 1 {
		r.Sample(cs[len(cs)-1-i].id())
	}
}

func replay(r *eng.Run, raw json.RawMessage) {
	var rp struct {
		Case string `json:"case"`
	}
	if err := json.Unmarshal(raw, &rp); err != nil {
		fmt.Println("bad replay:", err)
		return
	}
	if strings.HasPrefix(rp.Case, "val/") {
		replayValidate(r, rp.Case)
		return
	}
	if k, ok := parseCross(rp.Case); ok {
		var v *eng.Violation
		if pv := eng.Guard(k.entry, func() { v = runCross(r, k, true) }); pv != nil {
			v = pv
		}
		r.Eval(1)
		if v != nil {
			v.Replay = map[string]string{"case": k.id()}
			r.Report(v)
		} else {
			fmt.Println("  replay: no violation")
		}
		return
	}
	f := strings.Split(rp.Case, "/")
	if len(f) != 7 || f[0] != "bsvc" {
		fmt.Println("bad case id", rp.Case)
		return
	}
	k := bsCase{cfg: bsCfg{al: f[1], wt: f[2] == "wt=true", ex: strings.TrimPrefix(f[3], "ex=")}, op: f[4], mode: f[5], word: f[6]}
	var v *eng.Violation
	if pv := eng.Guard(k.op, func() { v = runBs(r, k, true) }); pv != nil {
		v = pv
	}
	r.Eval(1)
	if v != nil {
		v.Replay = map[string]string{"case": k.id()}
		r.Report(v)
	} else {
		fmt.Println("  replay: no violation")
	}
}

func main() { eng.Main("C04", "exploration", body, replay) }
