//go:build verif

package ipns

// VerifSelectRecord exposes selectRecord (the selection loop behind
// Validator.Select) for already decoded records, so that long sequences can be
// enumerated without paying for protobuf/CBOR decoding of every element on
// every call. Read-only; no behaviour is changed.
func VerifSelectRecord(recs []*Record, vals [][]byte) (int, error) {
	return selectRecord(recs, vals)
}
