//go:build verif

// C27: IPNS record selection is order-independent and picks the best record.
//
// For a pool of valid records of one name, EVERY ordered sequence (with
// repetition) of length 1..L over the pool is passed to the real
// ipns.Validator.Select. The sequences are visited grouped by multiset: for one
// multiset all of its distinct permutations are executed, the selected bytes
// are compared across the permutations (order independence) and with a
// reference "maximal under (has v2 signature, sequence, expiry)" computed from
// the parameters the records were created from (not from the accessors of the
// code under test).
package main

import (
	"bytes"
	"crypto/sha256"
	"encoding/binary"
	"encoding/json"
	"fmt"
	"sort"
	"strings"
	"time"

	"github.com/ipfs/boxo/ipns"
	ipns_pb "github.com/ipfs/boxo/ipns/pb"
	"github.com/ipfs/boxo/path"
	"github.com/ipfs/boxo/verifshim/eng"
	"github.com/ipfs/go-cid"
	"github.com/ipld/go-ipld-prime/codec/dagcbor"
	"github.com/ipld/go-ipld-prime/datamodel"
	"github.com/ipld/go-ipld-prime/fluent/qp"
	basicnode "github.com/ipld/go-ipld-prime/node/basic"
	ic "github.com/libp2p/go-libp2p/core/crypto"
	"github.com/libp2p/go-libp2p/core/peer"
	mh "github.com/multiformats/go-multihash"
	"google.golang.org/protobuf/proto"
)

// ---- deterministic byte stream (counter-mode sha256) ----

type detReader struct {
	seed string
	ctr  uint64
	buf  []byte
}

func (d *detReader) Read(p []byte) (int, error) {
	for i := range p {
		if len(d.buf) == 0 {
			var c [8]byte
			binary.BigEndian.PutUint64(c[:], d.ctr)
			d.ctr++
			h := sha256.Sum256(append([]byte(d.seed), c[:]...))
			d.buf = h[:]
		}
		p[i] = d.buf[0]
		d.buf = d.buf[1:]
	}
	return len(p), nil
}

// ---- pool ----

type prec struct {
	Name  string `json:"name"`
	v2    bool
	seq   uint64
	eol   time.Time
	bytes []byte
	valid bool         // passes ipns.ValidateWithName (premise of the statement)
	rec   *ipns.Record // decoded once; used by the direct selectRecord mode
}

// rank compares the statement's preorder (has v2 signature, sequence, expiry).
func rank(a, b *prec) int {
	if a.v2 != b.v2 {
		if a.v2 {
			return 1
		}
		return -1
	}
	if a.seq != b.seq {
		if a.seq > b.seq {
			return 1
		}
		return -1
	}
	return a.eol.Compare(b.eol)
}

type pool struct {
	name string
	key  string // routing key
	recs []*prec
	note string
}

var (
	sk    ic.PrivKey
	name  ipns.Name
	pools = map[string]*pool{}
	order []string
	// far future so that wall-clock time never decides anything
	t0 = time.Date(2200, 3, 4, 5, 6, 7, 0, time.UTC)
)

func must[T any](v T, err error) T {
	if err != nil {
		panic(err)
	}
	return v
}

func mkPath(s string) path.Path {
	c := cid.NewCidV1(cid.Raw, must(mh.Sum([]byte(s), mh.SHA2_256, -1)))
	return path.FromCid(c)
}

func libRec(nm string, val string, seq uint64, eol time.Time, ttl time.Duration, opts ...ipns.Option) *prec {
	r := must(ipns.NewRecord(sk, mkPath(val), seq, eol, ttl, opts...))
	b := must(ipns.MarshalRecord(r))
	return &prec{Name: nm, v2: true, seq: seq, eol: eol, bytes: b}
}

// handRec builds a v2-only record by hand (CBOR document signed with the name's
// key) so that the validity string can use a different but equivalent RFC3339
// spelling of an instant, and the sequence can use the whole uint64 range.
func handRec(nm string, val string, seq uint64, validity string, eol time.Time, ttl int64) *prec {
	n := must(qp.BuildMap(basicnode.Prototype.Map, 5, func(ma datamodel.MapAssembler) {
		// canonical dag-cbor key order: by length, then bytewise
		qp.MapEntry(ma, "TTL", qp.Int(ttl))
		qp.MapEntry(ma, "Value", qp.Bytes([]byte(mkPath(val).String())))
		qp.MapEntry(ma, "Sequence", qp.Int(int64(seq)))
		qp.MapEntry(ma, "Validity", qp.Bytes([]byte(validity)))
		qp.MapEntry(ma, "ValidityType", qp.Int(0))
	}))
	var buf bytes.Buffer
	if err := dagcbor.Encode(n, &buf); err != nil {
		panic(err)
	}
	sig := must(sk.Sign(append([]byte("ipns-signature:"), buf.Bytes()...)))
	pb := &ipns_pb.IpnsRecord{Data: buf.Bytes(), SignatureV2: sig}
	return &prec{Name: nm, v2: true, seq: seq, eol: eol, bytes: must(proto.Marshal(pb))}
}

// stripV2 re-encodes a library record without its v2 signature (a legacy,
// v1-signature-only record that still carries the CBOR document).
func stripV2(p *prec, nm string) *prec {
	var pb ipns_pb.IpnsRecord
	if err := proto.Unmarshal(p.bytes, &pb); err != nil {
		panic(err)
	}
	pb.SignatureV2 = nil
	return &prec{Name: nm, v2: false, seq: p.seq, eol: p.eol, bytes: must(proto.Marshal(&pb))}
}

func addPool(p *pool) {
	seen := map[string]bool{}
	for _, r := range p.recs {
		if seen[string(r.bytes)] {
			panic("pool " + p.name + ": duplicate record bytes " + r.Name)
		}
		seen[string(r.bytes)] = true
		rec, err := ipns.UnmarshalRecord(r.bytes)
		if err != nil {
			panic(fmt.Sprintf("pool %s: %s does not unmarshal: %v", p.name, r.Name, err))
		}
		r.rec = rec
		r.valid = ipns.ValidateWithName(rec, name) == nil
		if r.v2 && !r.valid {
			panic(fmt.Sprintf("pool %s: %s is not valid: %v", p.name, r.Name, ipns.ValidateWithName(rec, name)))
		}
	}
	p.key = string(name.RoutingKey())
	pools[p.name] = p
	order = append(order, p.name)
}

func initPools() {
	sk, _, _ = ic.GenerateEd25519Key(&detReader{seed: "verif-C27-ed25519"})
	pid := must(peer.IDFromPrivateKey(sk))
	name = ipns.NameFromPeer(pid)

	// core: the DESIGN pool. seq x EOL x value: ties on (seq, EOL) exist for
	// every (seq, EOL) pair, so the byte tie-break decides.
	core := &pool{name: "core", note: "seq{1,2} x EOL{t,t+1s} x value{a,b}, library records with v1 compatibility"}
	for _, seq := range []uint64{1, 2} {
		for ei, eol := range []time.Time{t0, t0.Add(time.Second)} {
			for _, v := range []string{"a", "b"} {
				core.recs = append(core.recs, libRec(fmt.Sprintf("s%d.e%d.%s", seq, ei, v), v, seq, eol, time.Hour))
			}
		}
	}
	addPool(core)

	// edge: whole uint64 sequence range (the CBOR integer is signed), expiries 1 ns
	// apart, equal instants spelled differently, records differing only in
	// TTL / v1 compatibility / embedded key (tie on the whole rank).
	edge := &pool{name: "edge", note: "seq{0,2^63-1,2^63,2^64-1}, EOL 1ns apart and same instant in two spellings, same rank with different options"}
	hi := uint64(1) << 63
	edge.recs = append(edge.recs,
		libRec("s0", "a", 0, t0.Add(time.Hour), time.Hour),
		libRec("sMaxInt", "a", hi-1, t0, time.Hour),
		libRec("s2^63", "a", hi, t0, time.Hour),
		libRec("s2^64-1.e0", "a", ^uint64(0), t0, time.Hour),
		libRec("s2^64-1.e+1ns", "a", ^uint64(0), t0.Add(1), time.Hour),
		libRec("s2^64-1.e+1ns.v2only", "a", ^uint64(0), t0.Add(1), time.Hour, ipns.WithV1Compatibility(false)),
		libRec("s2^64-1.e+1ns.pk", "a", ^uint64(0), t0.Add(1), time.Hour, ipns.WithPublicKey(true)),
		libRec("s2^64-1.e+1ns.ttl0", "a", ^uint64(0), t0.Add(1), 0),
		// later instant than the +01:00 record below although its local clock reading is earlier
		libRec("s2^64-1.e+10m", "a", ^uint64(0), t0.Add(10*time.Minute), time.Hour),
		// same instant as t0+1ns, written with a +01:00 offset
		handRec("s2^64-1.e+1ns.zone", "b", ^uint64(0), t0.Add(1).In(time.FixedZone("", 3600)).Format(time.RFC3339Nano), t0.Add(1), 5),
	)
	addPool(edge)

	// legacy: records without a v2 signature compete with v2 records of lower
	// sequence / expiry. (They do not pass Validate; they are here because the
	// statement's order names the v2 criterion.)
	leg := &pool{name: "legacy", note: "v1-only (SignatureV2 removed) records with higher seq/EOL against v2 records"}
	lo := libRec("v2.s1.e0", "a", 1, t0, time.Hour)
	lo2 := libRec("v2.s1.e0.b", "b", 1, t0, time.Hour)
	mid := libRec("v2.s2.e0", "a", 2, t0, time.Hour)
	h1 := libRec("x", "a", 3, t0.Add(time.Hour), time.Hour)
	h2 := libRec("x", "b", 3, t0.Add(time.Hour), time.Hour)
	h3 := libRec("x", "a", 9, t0, time.Hour)
	leg.recs = append(leg.recs, lo, lo2, mid, stripV2(h1, "v1.s3.e+1h.a"), stripV2(h2, "v1.s3.e+1h.b"), stripV2(h3, "v1.s9.e0"), stripV2(lo, "v1.s1.e0"))
	addPool(leg)
}

// ---- one case ----

type caseDesc struct {
	Pool string `json:"pool"`
	Idx  []int  `json:"idx"` // pool indices in the order supplied to Select
	// Direct: selectRecord on pre-decoded records instead of Validator.Select
	Direct bool `json:"direct,omitempty"`
}

func (c caseDesc) names() []string {
	p := pools[c.Pool]
	out := make([]string, len(c.Idx))
	for i, x := range c.Idx {
		out[i] = p.recs[x].Name
	}
	return out
}

// runSelect executes the selection on the real code and returns the pool index
// of the selected record. direct=false: Validator.Select on the record bytes
// (decodes every record on every call). direct=true: the unexported
// selectRecord loop behind it, on records decoded once (export accessor).
func runSelect(p *pool, idx []int, vals [][]byte, recs []*ipns.Record, direct bool) (int, *eng.Violation) {
	for i, x := range idx {
		vals[i] = p.recs[x].bytes
		recs[i] = p.recs[x].rec
	}
	var sel int
	var err error
	op := "Select"
	if direct {
		op = "selectRecord"
	}
	if pv := eng.Guard(op, func() {
		if direct {
			sel, err = ipns.VerifSelectRecord(recs[:len(idx)], vals[:len(idx)])
		} else {
			sel, err = ipns.Validator{}.Select(p.key, vals[:len(idx)])
		}
	}); pv != nil {
		return -1, pv
	}
	if err != nil {
		return -1, eng.V("select-error", op, fmt.Sprintf("%s returned error %v", op, err))
	}
	if sel < 0 || sel >= len(idx) {
		return -1, eng.V("select-index-out-of-range", op, fmt.Sprintf("%s returned index %d for %d records", op, sel, len(idx)))
	}
	return idx[sel], nil
}

// features of a multiset that describe the class of a failure
func classify(p *pool, idx []int, best []int) []string {
	mixedV2, allValid := false, true
	for _, x := range idx {
		if p.recs[x].v2 != p.recs[idx[0]].v2 {
			mixedV2 = true
		}
		if !p.recs[x].valid {
			allValid = false
		}
	}
	return []string{"rank_tie", fmt.Sprint(len(best) > 1), "mixed_v2", fmt.Sprint(mixedV2), "all_valid", fmt.Sprint(allValid)}
}

// maximal returns the distinct pool indices of the multiset that are maximal
// under the statement's preorder.
func maximal(p *pool, sorted []int) []int {
	var best []int
	for i, x := range sorted {
		if i > 0 && sorted[i-1] == x {
			continue
		}
		if len(best) == 0 {
			best = []int{x}
			continue
		}
		switch c := rank(p.recs[x], p.recs[best[0]]); {
		case c > 0:
			best = []int{x}
		case c == 0:
			best = append(best, x)
		}
	}
	return best
}

func nextPerm(a []int) bool {
	i := len(a) - 2
	for i >= 0 && a[i] >= a[i+1] {
		i--
	}
	if i < 0 {
		return false
	}
	j := len(a) - 1
	for a[j] <= a[i] {
		j--
	}
	a[i], a[j] = a[j], a[i]
	for l, r := i+1, len(a)-1; l < r; l, r = l+1, r-1 {
		a[l], a[r] = a[r], a[l]
	}
	return true
}

// checkMultiset runs every distinct permutation of the (sorted) multiset.
func checkMultiset(r *eng.Run, p *pool, sorted []int, direct bool) (perms int) {
	const report = true
	op := "Select"
	if direct {
		op = "selectRecord"
	}
	best := maximal(p, sorted)
	perm := append([]int(nil), sorted...)
	vals := make([][]byte, len(sorted))
	recs := make([]*ipns.Record, len(sorted))
	first, firstPerm := -1, []int(nil)
	distinctRecs := 1
	for i := 1; i < len(sorted); i++ {
		if sorted[i] != sorted[i-1] {
			distinctRecs++
		}
	}
	for {
		perms++
		sel, v := runSelect(p, perm, vals, recs, direct)
		if v == nil {
			isMax := false
			for _, b := range best {
				if b == sel {
					isMax = true
				}
			}
			if !isMax {
				v = eng.V("selected-not-maximal", op, fmt.Sprintf("pool %s, supplied %v: selected %s, maximal under (v2,seq,eol) are %v",
					p.name, caseDesc{Pool: p.name, Idx: perm}.names(), p.recs[sel].Name, caseDesc{Pool: p.name, Idx: best}.names()))
			} else if first >= 0 && sel != first {
				v = eng.V("order-dependent-selection", op, fmt.Sprintf("pool %s: supplied %v selects %s, but supplied %v selects %s",
					p.name, caseDesc{Pool: p.name, Idx: firstPerm}.names(), p.recs[first].Name, caseDesc{Pool: p.name, Idx: perm}.names(), p.recs[sel].Name))
			}
		}
		if v != nil {
			v.Replay = caseDesc{p.name, append([]int(nil), perm...), direct}
			if v.Features == nil {
				v.Features = map[string]string{}
			}
			f := classify(p, sorted, best)
			for i := 0; i+1 < len(f); i += 2 {
				v.Features[f[i]] = f[i+1]
			}
			if report {
				r.Report(v)
			}
		} else if first < 0 {
			first, firstPerm = sel, append([]int(nil), perm...)
		}
		if !nextPerm(perm) {
			break
		}
	}
	if report {
		r.Eval(perms)
		if distinctRecs >= 2 {
			r.Distinct(p.name + fmt.Sprint(sorted))
			if len(best) > 1 {
				r.Add("multisets_decided_by_byte_tiebreak", 1)
			}
			if perms > 1 {
				r.Add("multisets_with_several_permutations", 1)
			}
		}
		if first >= 0 {
			bigger := false // is the tie-break winner the bytewise larger one?
			for _, b := range best {
				if b != first && bytes.Compare(p.recs[first].bytes, p.recs[b].bytes) > 0 {
					bigger = true
				}
			}
			r.Outcome(fmt.Sprintf("%s sel=%s ties=%d winner_is_larger=%v", p.name, p.recs[first].Name, len(best), bigger))
		}
	}
	return perms
}

// multisets enumerates all non-decreasing index tuples of length k over n.
func multisets(n, k int) [][]int {
	var out [][]int
	cur := make([]int, k)
	var rec func(pos, min int)
	rec = func(pos, min int) {
		if pos == k {
			out = append(out, append([]int(nil), cur...))
			return
		}
		for x := min; x < n; x++ {
			cur[pos] = x
			rec(pos+1, x)
		}
	}
	rec(0, 0)
	return out
}

func body(r *eng.Run) {
	initPools()
	r.Rule("for each pool of records of one name: every multiset (with repetition) of size 1..L over the pool, and for each multiset every distinct permutation, is passed to Validator.Select on the real code (= every ordered sequence of length <= L); per multiset the selected bytes must be the same for all permutations and must be maximal under (has v2 signature, sequence, expiry) computed from the creation parameters; a multiset is non-trivial when it holds >= 2 different records")
	r.Assume("libp2p Ed25519 signing, protobuf and dag-cbor codecs are correct (records are created by ipns.NewRecord or hand-signed and checked valid with ipns.ValidateWithName before use)")
	r.Assume("pool 'legacy' holds records without SignatureV2, which do not pass Validate; they exercise the 'has v2 signature' component of the order named in the statement")
	// lengths 1..selLen go through Validator.Select (bytes decoded on every call);
	// lengths selLen+1..maxLen go through the selectRecord loop on records decoded once.
	selLen := map[string]int{"core": eng.Pick(r, 5, 7), "edge": eng.Pick(r, 4, 6), "legacy": eng.Pick(r, 5, 7)}
	maxLen := map[string]int{"core": eng.Pick(r, 7, 8), "edge": eng.Pick(r, 6, 7), "legacy": eng.Pick(r, 7, 8)}
	sizes := map[string]any{}
	for _, pn := range order {
		p := pools[pn]
		sizes[pn] = map[string]any{"records": len(p.recs), "max_len_Validator.Select": selLen[pn], "max_len_selectRecord": maxLen[pn], "note": p.note}
		names := []string{}
		for _, x := range p.recs {
			names = append(names, x.Name)
		}
		r.Sample(map[string]any{"pool": pn, "records": names})
		for k := 1; k <= maxLen[pn]; k++ {
			if r.Expired() {
				r.Incomplete(fmt.Sprintf("budget expired: pool %s complete to length %d", pn, k-1))
				break
			}
			ms := multisets(len(p.recs), k)
			direct := k > selLen[pn]
			eng.ParFor(len(ms), func(i int) {
				if r.Expired() {
					return
				}
				n := checkMultiset(r, p, ms[i], direct)
				if direct {
					r.Add("calls_selectRecord_direct", n)
				} else {
					r.Add("calls_Validator.Select", n)
				}
			})
			if r.Expired() {
				r.Incomplete(fmt.Sprintf("budget expired inside pool %s length %d", pn, k))
				break
			}
			r.Add("multisets", len(ms))
		}
	}
	r.Set("pools", sizes)
}

func replay(r *eng.Run, raw json.RawMessage) {
	initPools()
	var c caseDesc
	if err := json.Unmarshal(raw, &c); err != nil {
		fmt.Println("bad replay:", err)
		return
	}
	p := pools[c.Pool]
	if p == nil {
		fmt.Println("bad replay: unknown pool", c.Pool)
		return
	}
	fmt.Printf("  pool %s, supplied order %v\n", c.Pool, c.names())
	vals := make([][]byte, len(c.Idx))
	recs := make([]*ipns.Record, len(c.Idx))
	sel, v := runSelect(p, c.Idx, vals, recs, c.Direct)
	if v == nil {
		fmt.Printf("  Select -> %s\n", p.recs[sel].Name)
	}
	sorted := append([]int(nil), c.Idx...)
	sort.Ints(sorted)
	fmt.Printf("  maximal under (v2,seq,eol): %v; running all permutations of the multiset\n", strings.Join(caseDesc{Pool: c.Pool, Idx: maximal(p, sorted)}.names(), ","))
	checkMultiset(r, p, sorted, c.Direct)
}

func main() {
	eng.Main("C27", "exploration", body, replay)
}
