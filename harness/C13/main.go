//go:build verif

// C13: the provide-walker emits each reachable CID once, in pre-order; entity
// walks emit exactly the entity roots; the Bloom chain has no false negatives.
//
// Engine E2 (bounded-exhaustive enumeration on the real walker):
//
//	walk.*   all DAG shapes on n nodes (ordered child lists with repetition)
//	         x node kinds (dag-pb sorted/unsorted names, dag-cbor links in list
//	         and map positions, raw leaf, identity-inlined dag-pb / raw)
//	         x per-node status (ok / block missing / fails locality)
//	         x tracker (none, cid.Set, MapTracker) x (one walk | two walks
//	         sharing the tracker) x CIDv0/v1 alias bits on links
//	entity.* all small UnixFS trees (dir, HAMT shard, identity dir, raw / dag-pb
//	         / chunked / identity files with a shared chunk) x status x tracker
//	bloom.*  all Visit sequences (up to renaming of keys) on a BloomTracker
//	         with tiny initial capacity + long runs through NewBloomTracker
package main

import (
	"context"
	"crypto/sha256"
	"encoding/binary"
	"encoding/json"
	"fmt"
	"sort"
	"strings"
	"sync"
	"sync/atomic"

	bstore "github.com/ipfs/boxo/blockstore"
	"github.com/ipfs/boxo/dag/walker"
	ft "github.com/ipfs/boxo/ipld/unixfs"
	"github.com/ipfs/boxo/verifshim/eng"
	blocks "github.com/ipfs/go-block-format"
	cid "github.com/ipfs/go-cid"
	ds "github.com/ipfs/go-datastore"
	dssync "github.com/ipfs/go-datastore/sync"
	_ "github.com/ipld/go-codec-dagpb"
	_ "github.com/ipld/go-ipld-prime/codec/dagcbor"
	_ "github.com/ipld/go-ipld-prime/codec/raw"
	mh "github.com/multiformats/go-multihash"
)

// ---------- block encoders (hand-written, independent of the decoders under test) ----------

func putv(b []byte, x uint64) []byte {
	for x >= 0x80 {
		b = append(b, byte(x)|0x80)
		x >>= 7
	}
	return append(b, byte(x))
}

type pbLink struct {
	name string
	c    cid.Cid
}

func encodePB(data []byte, links []pbLink) []byte {
	var out []byte
	for _, l := range links {
		var lb []byte
		cb := l.c.Bytes()
		lb = append(lb, 0x0a)
		lb = putv(lb, uint64(len(cb)))
		lb = append(lb, cb...)
		lb = append(lb, 0x12)
		lb = putv(lb, uint64(len(l.name)))
		lb = append(lb, l.name...)
		lb = append(lb, 0x18)
		lb = putv(lb, 1)
		out = append(out, 0x12)
		out = putv(out, uint64(len(lb)))
		out = append(out, lb...)
	}
	if data != nil {
		out = append(out, 0x0a)
		out = putv(out, uint64(len(data)))
		out = append(out, data...)
	}
	return out
}

func cborHead(major byte, n int) []byte {
	if n < 24 {
		return []byte{major<<5 | byte(n)}
	}
	if n < 256 {
		return []byte{major<<5 | 24, byte(n)}
	}
	return []byte{major<<5 | 25, byte(n >> 8), byte(n)}
}

func cborText(s string) []byte { return append(cborHead(3, len(s)), s...) }

func cborLink(c cid.Cid) []byte {
	b := append([]byte{0x00}, c.Bytes()...)
	out := []byte{0xd8, 0x2a}
	out = append(out, cborHead(2, len(b))...)
	return append(out, b...)
}

// encodeCborList: {"n": i, "links": [l0, l1, ...]}  (canonical key order: length first)
func encodeCborList(i int, links []cid.Cid) []byte {
	out := cborHead(5, 2)
	out = append(out, cborText("n")...)
	out = append(out, cborHead(0, i)...)
	out = append(out, cborText("links")...)
	out = append(out, cborHead(4, len(links))...)
	for _, l := range links {
		out = append(out, cborLink(l)...)
	}
	return out
}

// encodeCborMap puts links in map-value, nested-map and nested-list positions:
// {"a": l0, "b": {"c": l1, "d": [l2, ...]}, "n": i}; absent links drop their key.
func encodeCborMap(i int, links []cid.Cid) []byte {
	nkeys := 1
	if len(links) > 0 {
		nkeys++
	}
	if len(links) > 1 {
		nkeys++
	}
	out := cborHead(5, nkeys)
	if len(links) > 0 {
		out = append(out, cborText("a")...)
		out = append(out, cborLink(links[0])...)
	}
	if len(links) > 1 {
		out = append(out, cborText("b")...)
		inner := 1
		if len(links) > 2 {
			inner = 2
		}
		out = append(out, cborHead(5, inner)...)
		out = append(out, cborText("c")...)
		out = append(out, cborLink(links[1])...)
		if len(links) > 2 {
			out = append(out, cborText("d")...)
			out = append(out, cborHead(4, len(links)-2)...)
			for _, l := range links[2:] {
				out = append(out, cborLink(l)...)
			}
		}
	}
	out = append(out, cborText("n")...)
	out = append(out, cborHead(0, i)...)
	return out
}

func sha(b []byte) mh.Multihash {
	h := sha256.Sum256(b)
	m, _ := mh.Encode(h[:], mh.SHA2_256)
	return m
}

func ident(b []byte) mh.Multihash {
	m, _ := mh.Encode(b, mh.IDENTITY)
	return m
}

// ---------- walk cases ----------

type lnk struct {
	T int `json:"t"`
	A int `json:"a,omitempty"` // 1 = refer to a dag-pb child by its CIDv1 alias
}

type wcase struct {
	Fam     string   `json:"family"`
	N       int      `json:"n"`
	Ch      [][]lnk  `json:"children"`
	Kinds   []string `json:"kinds"`
	Status  []int    `json:"status"` // 0 ok, 1 block missing, 2 fails locality
	Tracker string   `json:"tracker"`
	Mode    string   `json:"mode"` // single | two-10 | two-01
}

const (
	stOK = iota
	stMissing
	stNonLocal
)

type built struct {
	cids  [][2]cid.Cid // [idx][alias]
	data  [][]byte
	token map[string]string // cid key -> token
	ident []bool
}

func isIdentityKind(k string) bool { return k == "idpb" || k == "idraw" }

func build(c *wcase) *built {
	b := &built{cids: make([][2]cid.Cid, c.N), data: make([][]byte, c.N), token: map[string]string{}, ident: make([]bool, c.N)}
	for i := c.N - 1; i >= 0; i-- {
		var kids []cid.Cid
		for _, l := range c.Ch[i] {
			kids = append(kids, b.cids[l.T][l.A])
		}
		payload := []byte(fmt.Sprintf("node-%d", i))
		var raw []byte
		var c0, c1 cid.Cid
		switch c.Kinds[i] {
		case "pb", "pbU", "idpb":
			var ls []pbLink
			for j, k := range kids {
				name := fmt.Sprintf("l%d", j)
				if c.Kinds[i] == "pbU" {
					name = fmt.Sprintf("l%d", 9-j) // serialized order is NOT name order
				}
				ls = append(ls, pbLink{name, k})
			}
			raw = encodePB(payload, ls)
			if c.Kinds[i] == "idpb" {
				c0 = cid.NewCidV1(cid.DagProtobuf, ident(raw))
				c1 = c0
				b.ident[i] = true
			} else {
				c0 = cid.NewCidV0(sha(raw))
				c1 = cid.NewCidV1(cid.DagProtobuf, sha(raw))
			}
		case "cborL":
			raw = encodeCborList(i, kids)
			c0 = cid.NewCidV1(cid.DagCBOR, sha(raw))
			c1 = c0
		case "cborM":
			raw = encodeCborMap(i, kids)
			c0 = cid.NewCidV1(cid.DagCBOR, sha(raw))
			c1 = c0
		case "raw":
			raw = payload
			c0 = cid.NewCidV1(cid.Raw, sha(raw))
			c1 = c0
		case "idraw":
			raw = payload
			c0 = cid.NewCidV1(cid.Raw, ident(raw))
			c1 = c0
			b.ident[i] = true
		default:
			panic("kind " + c.Kinds[i])
		}
		b.cids[i] = [2]cid.Cid{c0, c1}
		b.data[i] = raw
		b.token[c0.KeyString()] = fmt.Sprint(i)
		if !c1.Equals(c0) {
			b.token[c1.KeyString()] = fmt.Sprintf("%d'", i)
		}
	}
	return b
}

func newBS() bstore.Blockstore {
	return bstore.NewBlockstore(dssync.MutexWrap(ds.NewMapDatastore()))
}

func tok(b map[string]string, c cid.Cid) string {
	if t, ok := b[c.KeyString()]; ok {
		return t
	}
	return "?" + c.String()
}

func roots(mode string) []int {
	switch mode {
	case "two-10":
		return []int{1, 0}
	case "two-01":
		return []int{0, 1}
	}
	return []int{0}
}

// reference: recursive pre-order DFS, visit-on-entry, over the locally
// available subgraph, deduplicating with the key the tracker documents.
func reference(c *wcase) [][]string {
	seen := map[string]bool{}
	var out [][]string
	for _, r := range roots(c.Mode) {
		var em []string
		var rec func(l lnk)
		rec = func(l lnk) {
			t := fmt.Sprint(l.T)
			if l.A == 1 && (c.Kinds[l.T] == "pb" || c.Kinds[l.T] == "pbU") {
				t += "'"
			}
			switch c.Tracker {
			case "cidset":
				if seen[t] {
					return
				}
				seen[t] = true
			case "map":
				k := fmt.Sprint(l.T)
				if seen[k] {
					return
				}
				seen[k] = true
			}
			if c.Status[l.T] != stOK && !(isIdentityKind(c.Kinds[l.T]) && c.Status[l.T] == stMissing) {
				return
			}
			if !isIdentityKind(c.Kinds[l.T]) {
				em = append(em, t)
			}
			for _, k := range c.Ch[l.T] {
				rec(k)
			}
		}
		rec(lnk{T: r})
		out = append(out, em)
	}
	return out
}

func newTracker(name string) walker.VisitedTracker {
	switch name {
	case "cidset":
		return cid.NewSet()
	case "map":
		return walker.NewMapTracker()
	}
	return nil
}

type wstats struct {
	sharing, identityInner, aliasDiff, missing, nonlocal, unsortedPB, cborMapLinks atomic.Int64
}

func runWalkCase(r *eng.Run, st *wstats, c *wcase, verbose bool) {
	b := build(c)
	bs := newBS()
	ctx := context.Background()
	nonlocal := map[string]bool{}
	for i := 0; i < c.N; i++ {
		if c.Status[i] == stNonLocal {
			nonlocal[string(b.cids[i][0].Hash())] = true
		}
		if c.Status[i] == stMissing || b.ident[i] {
			continue
		}
		blk, err := blocks.NewBlockWithCid(b.data[i], b.cids[i][0])
		if err != nil {
			panic(err)
		}
		if err := bs.Put(ctx, blk); err != nil {
			panic(err)
		}
	}
	want := reference(c)
	tr := newTracker(c.Tracker)
	fetch := walker.LinksFetcherFromBlockstore(bs)
	anyNonLocal := len(nonlocal) > 0
	var got [][]string
	for _, rt := range roots(c.Mode) {
		var em []string
		opts := []walker.Option{}
		if tr != nil {
			opts = append(opts, walker.WithVisitedTracker(tr))
		}
		var badLocal []string
		if anyNonLocal || c.Fam == "walk.full3" {
			opts = append(opts, walker.WithLocality(func(_ context.Context, x cid.Cid) (bool, error) {
				return !nonlocal[string(x.Hash())], nil
			}))
		}
		var err error
		pv := eng.Guard("WalkDAG", func() {
			err = walker.WalkDAG(ctx, b.cids[rt][0], fetch, func(x cid.Cid) bool {
				em = append(em, tok(b.token, x))
				if nonlocal[string(x.Hash())] {
					badLocal = append(badLocal, tok(b.token, x))
				}
				return true
			}, opts...)
		})
		if pv != nil {
			pv.Replay = c
			r.Report(pv)
			return
		}
		if err != nil {
			v := eng.V("walk-error", "WalkDAG", err.Error(), "family", c.Fam)
			v.Replay = c
			r.Report(v)
			return
		}
		if len(badLocal) > 0 {
			v := eng.V("emitted-non-local", "WalkDAG", fmt.Sprintf("emitted %v although the locality check fails for them", badLocal), "family", c.Fam, "tracker", c.Tracker)
			v.Replay = c
			r.Report(v)
			return
		}
		got = append(got, em)
	}
	if verbose {
		fmt.Printf("  emitted  %v\n  expected %v\n", got, want)
	}
	gs, ws := fmt.Sprint(got), fmt.Sprint(want)
	r.Outcome(gs)
	if gs != ws {
		sym := "emission-mismatch"
		same := sameMultiset(got, want)
		if same {
			sym = "emission-order"
		} else if hasDup(got, c.Tracker) {
			sym = "emitted-twice"
		} else if subsetOf(got, want) {
			sym = "reachable-not-emitted"
		}
		hasID := false
		for _, k := range c.Kinds {
			if isIdentityKind(k) {
				hasID = true
			}
		}
		v := eng.V(sym, "WalkDAG", fmt.Sprintf("emitted %s want %s\n case %s", gs, ws, descr(c)),
			"family", c.Fam, "tracker", c.Tracker, "mode", modeClass(c.Mode), "identity_nodes", fmt.Sprint(hasID))
		v.Replay = c
		r.Report(v)
	}
}

func modeClass(m string) string {
	if m == "single" {
		return "single"
	}
	return "shared-two-walks"
}

func flat(x [][]string) []string {
	var out []string
	for i, l := range x {
		for _, s := range l {
			out = append(out, fmt.Sprintf("%d:%s", i, s))
		}
	}
	sort.Strings(out)
	return out
}

func sameMultiset(a, b [][]string) bool {
	return strings.Join(flat(a), ",") == strings.Join(flat(b), ",")
}

func hasDup(a [][]string, tracker string) bool {
	if tracker == "none" {
		return false
	}
	seen := map[string]bool{}
	for _, l := range a {
		for _, s := range l {
			if seen[s] {
				return true
			}
			seen[s] = true
		}
	}
	return false
}

func subsetOf(a, b [][]string) bool {
	m := map[string]int{}
	for _, s := range flat(b) {
		m[s]++
	}
	for _, s := range flat(a) {
		if m[s] == 0 {
			return false
		}
		m[s]--
	}
	return true
}

func descr(c *wcase) string {
	b, _ := json.Marshal(c)
	return string(b)
}

// ---------- shape enumeration ----------

// shapes returns all child-list assignments for n nodes: node i has an ordered
// list (repetition allowed) of at most maxLinks(i) children among i+1..n-1.
func shapes(n int, maxLinks func(i int) int) [][][]int {
	perNode := make([][][]int, n)
	for i := 0; i < n; i++ {
		var lists [][]int
		var rec func(cur []int)
		rec = func(cur []int) {
			lists = append(lists, append([]int{}, cur...))
			if len(cur) == maxLinks(i) {
				return
			}
			for t := i + 1; t < n; t++ {
				rec(append(cur, t))
			}
		}
		rec(nil)
		perNode[i] = lists
	}
	var out [][][]int
	idx := make([]int, n)
	for {
		sh := make([][]int, n)
		for i := range sh {
			sh[i] = perNode[i][idx[i]]
		}
		out = append(out, sh)
		k := 0
		for k < n {
			idx[k]++
			if idx[k] < len(perNode[k]) {
				break
			}
			idx[k] = 0
			k++
		}
		if k == n {
			break
		}
	}
	return out
}

func plain(sh [][]int) [][]lnk {
	out := make([][]lnk, len(sh))
	for i, l := range sh {
		for _, t := range l {
			out[i] = append(out[i], lnk{T: t})
		}
	}
	return out
}

func product(n int, dom func(i int) int, f func(v []int)) {
	v := make([]int, n)
	for {
		f(v)
		k := 0
		for k < n {
			v[k]++
			if v[k] < dom(k) {
				break
			}
			v[k] = 0
			k++
		}
		if k == n {
			return
		}
	}
}

func hasSharing(sh [][]int) bool {
	indeg := make([]int, len(sh))
	for _, l := range sh {
		for _, t := range l {
			indeg[t]++
		}
	}
	for _, d := range indeg {
		if d > 1 {
			return true
		}
	}
	return false
}

var trackers = []string{"none", "cidset", "map"}

func modesFor(n int) []string {
	if n < 2 {
		return []string{"single"}
	}
	return []string{"single", "two-10", "two-01"}
}

var innerKinds = []string{"pb", "pbU", "cborL", "cborM", "idpb"}
var leafKinds = []string{"pb", "raw", "cborL", "idraw", "idpb"}

func fill(n int, s string) []string {
	out := make([]string, n)
	for i := range out {
		out[i] = s
	}
	return out
}

type job func()

// walkJobs builds the list of per-shape jobs for all walk families.
func walkFamilies(r *eng.Run, st *wstats, sizes map[string]int) []job {
	var jobs []job
	var mu sync.Mutex
	count := func(fam string, n int) {
		mu.Lock()
		sizes[fam] += n
		mu.Unlock()
	}
	ml3 := func(i int) int {
		if i == 0 {
			return 3
		}
		return 2
	}
	run := func(c *wcase, sharing bool) {
		runWalkCase(r, st, c, false)
		r.Eval(1)
		nt := sharing || c.Mode != "single"
		for i := 0; i < c.N; i++ {
			if c.Status[i] != stOK || c.Kinds[i] != "pb" {
				nt = true
			}
		}
		if nt {
			r.Distinct(descr(c))
		}
	}
	// family walk.status: all shapes x all status vectors x trackers x modes, all dag-pb
	maxN := eng.Pick(r, 4, 5)
	var lateJobs []job // the largest family member (n=5) runs last so that a budget expiry cannot starve the other families
	for n := 1; n <= maxN; n++ {
		n := n
		for _, sh := range shapes(n, ml3) {
			sh := sh
			target := &jobs
			if n == 5 {
				target = &lateJobs
			}
			*target = append(*target, func() {
				if r.Expired() {
					return
				}
				cnt := 0
				sharing := hasSharing(sh)
				if sharing {
					st.sharing.Add(1)
				}
				product(n, func(int) int { return 3 }, func(stv []int) {
					bad := 0
					for _, s := range stv {
						if s != stOK {
							bad++
						}
					}
					if n == 5 && bad > 2 {
						return
					}
					for _, tr := range trackers {
						for _, md := range modesFor(n) {
							c := &wcase{Fam: "walk.status", N: n, Ch: plain(sh), Kinds: fill(n, "pb"), Status: append([]int{}, stv...), Tracker: tr, Mode: md}
							run(c, sharing)
							cnt++
						}
					}
				})
				count("walk.status", cnt)
			})
		}
	}
	// family walk.kinds: all shapes (n<=4) x all kind vectors, status ok, trackers, single walk
	// (n <= 3 is covered with all status vectors by walk.full3 below)
	kindTrackers := trackers
	full3Modes := modesFor
	if !r.Thorough() {
		kindTrackers = []string{"map"} // tracker x kinds interplay is covered by walk.full3
		full3Modes = func(n int) []string {
			if n < 2 {
				return []string{"single"}
			}
			return []string{"single", "two-10"}
		}
	}
	for n := 4; n <= 4; n++ {
		n := n
		for _, sh := range shapes(n, ml3) {
			sh := sh
			jobs = append(jobs, func() {
				if r.Expired() {
					return
				}
				cnt := 0
				sharing := hasSharing(sh)
				product(n, func(i int) int { return 5 }, func(kv []int) {
					kinds := make([]string, n)
					for i, k := range kv {
						if len(sh[i]) == 0 {
							kinds[i] = leafKinds[k]
						} else {
							kinds[i] = innerKinds[k]
						}
					}
					for _, tr := range kindTrackers {
						c := &wcase{Fam: "walk.kinds", N: n, Ch: plain(sh), Kinds: kinds, Status: make([]int, n), Tracker: tr, Mode: "single"}
						run(c, sharing)
						cnt++
					}
				})
				count("walk.kinds", cnt)
			})
		}
	}
	// family walk.full3: n<=3, full product kinds x status x trackers x modes (locality option always set)
	for n := 1; n <= 3; n++ {
		n := n
		for _, sh := range shapes(n, ml3) {
			sh := sh
			jobs = append(jobs, func() {
				if r.Expired() {
					return
				}
				cnt := 0
				sharing := hasSharing(sh)
				product(n, func(i int) int { return 5 }, func(kv []int) {
					kinds := make([]string, n)
					for i, k := range kv {
						if len(sh[i]) == 0 {
							kinds[i] = leafKinds[k]
						} else {
							kinds[i] = innerKinds[k]
						}
					}
					product(n, func(int) int { return 3 }, func(stv []int) {
						for _, tr := range trackers {
							for _, md := range full3Modes(n) {
								c := &wcase{Fam: "walk.full3", N: n, Ch: plain(sh), Kinds: append([]string{}, kinds...), Status: append([]int{}, stv...), Tracker: tr, Mode: md}
								run(c, sharing)
								cnt++
							}
						}
					})
				})
				count("walk.full3", cnt)
			})
		}
	}
	// family walk.alias: all-dag-pb shapes, every link independently by CIDv0 or CIDv1 alias
	maxA := eng.Pick(r, 3, 4)
	for n := 2; n <= maxA; n++ {
		n := n
		for _, sh := range shapes(n, ml3) {
			sh := sh
			nl := 0
			for _, l := range sh {
				nl += len(l)
			}
			if nl == 0 {
				continue
			}
			jobs = append(jobs, func() {
				if r.Expired() {
					return
				}
				cnt := 0
				product(nl, func(int) int { return 2 }, func(av []int) {
					ch := plain(sh)
					k := 0
					any := false
					for i := range ch {
						for j := range ch[i] {
							ch[i][j].A = av[k]
							if av[k] == 1 {
								any = true
							}
							k++
						}
					}
					if !any {
						return
					}
					stvs := [][]int{make([]int, n)}
					for m := 1; m < n; m++ {
						s := make([]int, n)
						s[m] = stMissing
						stvs = append(stvs, s)
					}
					for _, stv := range stvs {
						var res [3]string
						for ti, tr := range trackers {
							for _, md := range modesFor(n) {
								c := &wcase{Fam: "walk.alias", N: n, Ch: ch, Kinds: fill(n, "pb"), Status: stv, Tracker: tr, Mode: md}
								run(c, true)
								cnt++
								if md == "single" {
									res[ti] = fmt.Sprint(reference(c))
								}
							}
						}
						if res[1] != res[2] {
							st.aliasDiff.Add(1)
						}
					}
				})
				count("walk.alias", cnt)
			})
		}
	}
	lateWalkJobs = lateJobs
	return jobs
}

var lateWalkJobs []job

// ---------- entity walks ----------

type enode struct {
	Kind string   `json:"k"` // dir hamt iddir raw0 raw1 pbfile chunked idfile
	Kids []*enode `json:"c,omitempty"`
	key  string
}

func en(kind string, kids ...*enode) *enode {
	e := &enode{Kind: kind, Kids: kids}
	ks := []string{}
	for _, k := range kids {
		ks = append(ks, k.key)
	}
	e.key = kind
	if len(kids) > 0 || kind == "dir" || kind == "hamt" || kind == "iddir" {
		e.key += "(" + strings.Join(ks, ",") + ")"
	}
	return e
}

func container(k string) bool { return k == "dir" || k == "hamt" || k == "iddir" }

type ecase struct {
	Fam     string `json:"family"`
	Tree    *enode `json:"tree"`
	Tracker string `json:"tracker"`
	Bad     string `json:"bad,omitempty"`    // structural key of the node that is missing / non-local
	BadHow  int    `json:"bad_how,omitempty"` // stMissing / stNonLocal
}

type ebuilt struct {
	cids  map[string]cid.Cid // structural key -> cid
	data  map[string][]byte
	token map[string]string
	ident map[string]bool
}

var chunkOnly = en("rawc") // a raw block that only ever appears as a file chunk

func (b *ebuilt) build(e *enode) cid.Cid {
	if c, ok := b.cids[e.key]; ok {
		return c
	}
	var raw []byte
	var c cid.Cid
	switch e.Kind {
	case "raw0", "raw1", "rawc":
		raw = []byte("content-" + e.Kind)
		c = cid.NewCidV1(cid.Raw, sha(raw))
	case "idfile":
		raw = []byte("tiny")
		c = cid.NewCidV1(cid.Raw, ident(raw))
		b.ident[e.key] = true
	case "pbfile":
		raw = encodePB(ft.FilePBData([]byte("p"), 1), nil)
		c = cid.NewCidV0(sha(raw))
	case "chunked":
		fsn := ft.NewFSNode(ft.TFile)
		fsn.AddBlockSize(12)
		fsn.AddBlockSize(12)
		d, err := fsn.GetBytes()
		if err != nil {
			panic(err)
		}
		raw = encodePB(d, []pbLink{{"", b.build(en("raw0"))}, {"", b.build(chunkOnly)}})
		c = cid.NewCidV0(sha(raw))
	case "dir", "iddir", "hamt":
		var ls []pbLink
		for i, k := range e.Kids {
			name := fmt.Sprintf("e%d", i)
			if e.Kind == "hamt" {
				name = fmt.Sprintf("0%de%d", i, i)
				if k.Kind == "hamt" {
					name = fmt.Sprintf("0%d", i)
				}
			}
			ls = append(ls, pbLink{name, b.build(k)})
		}
		var d []byte
		if e.Kind == "hamt" {
			var err error
			d, err = ft.HAMTShardData([]byte{0x03}, 8, 0x22)
			if err != nil {
				panic(err)
			}
		} else {
			d = ft.FolderPBData()
		}
		raw = encodePB(d, ls)
		if e.Kind == "iddir" {
			c = cid.NewCidV1(cid.DagProtobuf, ident(raw))
			b.ident[e.key] = true
		} else {
			c = cid.NewCidV0(sha(raw))
		}
	default:
		panic("entity kind " + e.Kind)
	}
	b.cids[e.key] = c
	b.data[e.key] = raw
	b.token[c.KeyString()] = e.key
	return c
}

func entityReference(c *ecase) []string {
	seen := map[string]bool{}
	var em []string
	var rec func(e *enode)
	rec = func(e *enode) {
		if c.Tracker != "none" {
			if seen[e.key] {
				return
			}
			seen[e.key] = true
		}
		ident := e.Kind == "iddir" || e.Kind == "idfile"
		if e.key == c.Bad && !(ident && c.BadHow == stMissing) {
			return
		}
		if !ident {
			em = append(em, e.key)
		}
		if container(e.Kind) {
			for _, k := range e.Kids {
				rec(k)
			}
		}
	}
	rec(c.Tree)
	return em
}

type estats struct {
	chunkAlsoEntry, hamt, iddir, skippedChunks atomic.Int64
}

func runEntityCase(r *eng.Run, st *estats, c *ecase, verbose bool) {
	b := &ebuilt{cids: map[string]cid.Cid{}, data: map[string][]byte{}, token: map[string]string{}, ident: map[string]bool{}}
	root := b.build(c.Tree)
	bs := newBS()
	ctx := context.Background()
	var nonlocal string
	for k, c0 := range b.cids {
		if k == c.Bad && c.BadHow == stNonLocal {
			nonlocal = string(c0.Hash())
		}
		if b.ident[k] || (k == c.Bad && c.BadHow == stMissing) {
			continue
		}
		blk, err := blocks.NewBlockWithCid(b.data[k], c0)
		if err != nil {
			panic(err)
		}
		if err := bs.Put(ctx, blk); err != nil {
			panic(err)
		}
	}
	want := entityReference(c)
	var got []string
	opts := []walker.Option{}
	if tr := newTracker(c.Tracker); tr != nil {
		opts = append(opts, walker.WithVisitedTracker(tr))
	}
	if nonlocal != "" {
		opts = append(opts, walker.WithLocality(func(_ context.Context, x cid.Cid) (bool, error) { return string(x.Hash()) != nonlocal, nil }))
	}
	var err error
	pv := eng.Guard("WalkEntityRoots", func() {
		err = walker.WalkEntityRoots(ctx, root, walker.NodeFetcherFromBlockstore(bs), func(x cid.Cid) bool {
			got = append(got, tok(b.token, x))
			return true
		}, opts...)
	})
	if pv != nil {
		pv.Replay = c
		r.Report(pv)
		return
	}
	if err != nil {
		v := eng.V("walk-error", "WalkEntityRoots", err.Error(), "family", c.Fam)
		v.Replay = c
		r.Report(v)
		return
	}
	if verbose {
		fmt.Printf("  emitted  %v\n  expected %v (as a multiset)\n", got, want)
	}
	r.Outcome(fmt.Sprint(got))
	gs := append([]string{}, got...)
	ws := append([]string{}, want...)
	sort.Strings(gs)
	sort.Strings(ws)
	if strings.Join(gs, ";") != strings.Join(ws, ";") {
		sym := "entity-roots-mismatch"
		for _, g := range got {
			if g == "rawc" {
				sym = "file-chunk-emitted"
			}
		}
		v := eng.V(sym, "WalkEntityRoots", fmt.Sprintf("emitted %v want (any order) %v\n tree %s tracker %s bad %s/%d", got, want, c.Tree.key, c.Tracker, c.Bad, c.BadHow), "family", c.Fam, "tracker", c.Tracker)
		v.Replay = c
		r.Report(v)
	}
}

func entityTrees(thorough bool) []*enode {
	leaves := []*enode{en("raw0"), en("pbfile"), en("chunked"), en("dir")}
	if thorough {
		leaves = append(leaves, en("idfile"), en("raw1"), en("hamt"))
	}
	lists := func(pool []*enode, max int) [][]*enode {
		var out [][]*enode
		var rec func(cur []*enode)
		rec = func(cur []*enode) {
			out = append(out, append([]*enode{}, cur...))
			if len(cur) == max {
				return
			}
			for _, p := range pool {
				rec(append(cur, p))
			}
		}
		rec(nil)
		return out
	}
	level1 := append([]*enode{}, leaves...)
	for _, kind := range []string{"dir", "hamt", "iddir"} {
		for _, l := range lists(leaves, 2) {
			if len(l) == 0 && kind == "dir" {
				continue // already a leaf
			}
			level1 = append(level1, en(kind, l...))
		}
	}
	var out []*enode
	seen := map[string]bool{}
	for _, kind := range []string{"dir", "hamt"} {
		for _, l := range lists(level1, 2) {
			e := en(kind, l...)
			if !seen[e.key] {
				seen[e.key] = true
				out = append(out, e)
			}
		}
	}
	return out
}

func distinctNodes(e *enode, into map[string]*enode) {
	if _, ok := into[e.key]; ok {
		return
	}
	into[e.key] = e
	for _, k := range e.Kids {
		distinctNodes(k, into)
	}
	if e.Kind == "chunked" {
		into["raw0"] = en("raw0")
		into["rawc"] = chunkOnly
	}
}

// ---------- bloom ----------

func keyCid(i uint64, v1 bool) cid.Cid {
	var b [8]byte
	binary.LittleEndian.PutUint64(b[:], i)
	m := sha(b[:])
	if v1 {
		return cid.NewCidV1(cid.Raw, m)
	}
	return cid.NewCidV0(m)
}

type bcase struct {
	Fam string `json:"family"`
	Cap uint64 `json:"cap"`
	Seq []int  `json:"seq"`
	Off int    `json:"offset"`
}

type bstats struct {
	grows, maxChain, fp atomic.Int64
}

const bloomPool = 9

func runBloomSeq(r *eng.Run, st *bstats, c *bcase, verbose bool) {
	bt, err := walker.VerifNewBloomTracker(c.Cap, walker.DefaultBloomFPRate)
	if err != nil {
		panic(err)
	}
	visited := map[int]bool{}
	var order []int
	report := func(sym, op, detail string) {
		chain, _, _ := bt.VerifChain()
		v := eng.V(sym, op, fmt.Sprintf("%s\n cap=%d seq=%v offset=%d chain=%d", detail, c.Cap, c.Seq, c.Off, chain), "family", c.Fam, "after_growth", fmt.Sprint(chain > 1))
		v.Replay = &bcase{Fam: c.Fam, Cap: c.Cap, Seq: append([]int{}, c.Seq...), Off: c.Off}
		r.Report(v)
	}
	for step, lab := range c.Seq {
		k := (lab + c.Off) % bloomPool
		// alternate the CID version used for the same multihash: the key is the multihash
		x := keyCid(uint64(k), step%2 == 1)
		was := visited[k]
		if was && !bt.Has(x) {
			report("bloom-false-negative", "Has", fmt.Sprintf("step %d: Has(key %d) is false although Visit(key %d) returned true before", step, k, k))
			return
		}
		first := bt.Visit(x)
		if was && first {
			report("bloom-false-negative", "Visit", fmt.Sprintf("step %d: Visit(key %d) returned true (unvisited) although it returned true before", step, k))
			return
		}
		if !was {
			if first {
				visited[k] = true
				order = append(order, k)
			} else {
				st.fp.Add(1) // false positive: allowed by the statement
			}
		}
		for _, p := range order {
			if !bt.Has(keyCid(uint64(p), false)) || !bt.Has(keyCid(uint64(p), true)) {
				report("bloom-false-negative", "Has", fmt.Sprintf("after step %d: Has(key %d) is false although it was visited", step, p))
				return
			}
		}
		if verbose {
			ch, lc, ci := bt.VerifChain()
			fmt.Printf("  step %d: Visit(k%d)=%v chain=%d lastCap=%d curInserts=%d\n", step, k, first, ch, lc, ci)
		}
	}
	chain, _, _ := bt.VerifChain()
	r.Outcome(fmt.Sprintf("chain=%d distinct=%d", chain, len(order)))
	for {
		m := st.maxChain.Load()
		if int64(chain) <= m || st.maxChain.CompareAndSwap(m, int64(chain)) {
			break
		}
	}
	if chain > 1 {
		st.grows.Add(1)
	}
}

// restricted growth strings of length L with at most maxSym symbols: every
// Visit sequence up to renaming of keys.
func rgs(L, maxSym int, f func(seq []int)) {
	seq := make([]int, L)
	var rec func(i, used int)
	rec = func(i, used int) {
		if i == L {
			f(seq)
			return
		}
		for s := 0; s <= used && s < maxSym; s++ {
			seq[i] = s
			nu := used
			if s == used {
				nu++
			}
			rec(i+1, nu)
		}
	}
	rec(0, 0)
}

type blong struct {
	Fam   string `json:"family"`
	Cap   uint   `json:"cap"`
	Total uint64 `json:"total"`
}

func runBloomLong(r *eng.Run, st *bstats, c *blong) (growths int) {
	bt, err := walker.NewBloomTracker(c.Cap, walker.DefaultBloomFPRate)
	if err != nil {
		panic(err)
	}
	report := func(sym, op, detail string) {
		v := eng.V(sym, op, detail, "family", c.Fam, "after_growth", "true")
		v.Replay = c
		r.Report(v)
	}
	lastChain := 1
	// confirmed[i] = Visit(key i) returned true
	confirmed := make([]bool, c.Total)
	checkAll := func(upto uint64, when string) bool {
		for j := uint64(0); j < upto; j++ {
			if confirmed[j] && !bt.Has(keyCid(j+1000, j%2 == 0)) {
				report("bloom-false-negative", "Has", fmt.Sprintf("%s: Has(key #%d) is false although it was visited (chain=%d, inserted=%d)", when, j, lastChain, upto))
				return false
			}
		}
		return true
	}
	for i := uint64(0); i < c.Total; i++ {
		if r.Expired() {
			r.Incomplete(fmt.Sprintf("budget expired in bloom long run at %d of %d inserts", i, c.Total))
			break
		}
		if bt.Visit(keyCid(i+1000, false)) {
			confirmed[i] = true
		} else {
			st.fp.Add(1)
		}
		if ch, _, _ := bt.VerifChain(); ch != lastChain {
			lastChain = ch
			growths++
			if !checkAll(i+1, fmt.Sprintf("right after growth #%d", growths)) {
				return
			}
		}
	}
	if !checkAll(c.Total, "at the end") {
		return
	}
	// second pass: nothing that was visited may be reported unvisited
	for i := uint64(0); i < c.Total; i++ {
		if confirmed[i] && bt.Visit(keyCid(i+1000, true)) {
			report("bloom-false-negative", "Visit", fmt.Sprintf("second pass: Visit(key #%d) returned true although it was visited before (chain=%d)", i, lastChain))
			return
		}
	}
	return growths
}

// ---------- main ----------

func body(r *eng.Run) {
	r.Rule("walk.*: every DAG shape on n nodes (child lists with repetition, n<=4 quick / n<=5 thorough) x node kinds x per-node status {ok, block missing, fails locality} x tracker {none, cid.Set, MapTracker} x {one walk, two walks sharing the tracker} x CIDv0/v1 alias bits; emitted sequence must equal a recursive pre-order reference over the locally available subgraph that dedups on the tracker's documented key; non-trivial = sharing, a non-ok status, a non-dag-pb kind, an alias or a shared tracker. entity.*: all UnixFS trees of depth<=2, fan-out<=2 over {dir, HAMT shard, identity dir, raw/dag-pb/chunked/identity file} x tracker x one missing/non-local block; emitted multiset must equal the entity roots. bloom.*: all Visit sequences up to key renaming (restricted growth strings) on a tracker with initial capacity 1..3, Has of every visited key after every step, plus long runs through NewBloomTracker past >=3 growth steps; only false negatives are violations.")
	r.Assume("locality predicates and block availability are functions of the multihash (as with a real blockstore) and stay fixed across walks that share a tracker")
	r.Assume("hand-written dag-pb / dag-cbor encoders of the harness produce the link order the model assumes (checked indirectly: any disagreement shows up as an emission mismatch)")
	var wst wstats
	var est estats
	var bst bstats
	sizes := map[string]int{}
	var mu sync.Mutex

	// bloom long runs in the background (single-threaded by nature)
	var wg sync.WaitGroup
	longs := []blong{{"bloom.long", walker.MinBloomCapacity, 10001 + 40001 + 160001 + 2000}}
	if r.Thorough() {
		longs = append(longs, blong{"bloom.long", walker.MinBloomCapacity, 10001 + 40001 + 160001 + 640001 + 2560001 + 5000})
		longs = append(longs, blong{"bloom.long", 12345, 12346 + 4*12345 + 1 + 16*12345 + 1 + 64*12345 + 1 + 100})
	}
	growthsSeen := make([]int, len(longs))
	for i := range longs {
		i := i
		wg.Add(1)
		go func() {
			defer wg.Done()
			growthsSeen[i] = runBloomLong(r, &bst, &longs[i])
			r.Eval(1)
		}()
	}

	jobs := walkFamilies(r, &wst, sizes)

	// entity family
	trees := entityTrees(r.Thorough())
	for _, t := range trees {
		t := t
		jobs = append(jobs, func() {
			if r.Expired() {
				return
			}
			nodes := map[string]*enode{}
			distinctNodes(t, nodes)
			keys := make([]string, 0, len(nodes))
			for k := range nodes {
				keys = append(keys, k)
			}
			sort.Strings(keys)
			cnt := 0
			if _, ok := nodes["chunked"]; ok {
				est.skippedChunks.Add(1)
				if strings.Contains(strings.ReplaceAll(t.key, "chunked", ""), "raw0") {
					est.chunkAlsoEntry.Add(1)
				}
			}
			if strings.Contains(t.key[1:], "hamt") {
				est.hamt.Add(1)
			}
			if strings.Contains(t.key, "iddir") {
				est.iddir.Add(1)
			}
			for _, tr := range trackers {
				c := &ecase{Fam: "entity", Tree: t, Tracker: tr}
				runEntityCase(r, &est, c, false)
				cnt++
				for _, k := range keys {
					for _, how := range []int{stMissing, stNonLocal} {
						c := &ecase{Fam: "entity", Tree: t, Tracker: tr, Bad: k, BadHow: how}
						runEntityCase(r, &est, c, false)
						cnt++
					}
				}
			}
			r.Eval(cnt)
			r.Distinct("entity|" + t.key)
			mu.Lock()
			sizes["entity"] += cnt
			mu.Unlock()
		})
	}

	// bloom sequences (generated once, stored flat)
	L := eng.Pick(r, 10, 12)
	var flatSeqs []uint8
	rgs(L, bloomPool, func(s []int) {
		for _, x := range s {
			flatSeqs = append(flatSeqs, uint8(x))
		}
	})
	nseq := len(flatSeqs) / L
	for _, cp := range []uint64{1, 2, 3} {
		cp := cp
		const chunk = 2000
		for lo := 0; lo < nseq; lo += chunk {
			lo := lo
			hi := min(lo+chunk, nseq)
			jobs = append(jobs, func() {
				if r.Expired() {
					return
				}
				seq := make([]int, L)
				for i := lo; i < hi; i++ {
					for j := 0; j < L; j++ {
						seq[j] = int(flatSeqs[i*L+j])
					}
					c := &bcase{Fam: "bloom.seq", Cap: cp, Seq: seq, Off: i % bloomPool}
					runBloomSeq(r, &bst, c, false)
					if i%50000 == 0 {
						r.Distinct(fmt.Sprintf("bloom|%d|%v", cp, seq))
					}
				}
				r.Eval(hi - lo)
				mu.Lock()
				sizes["bloom.seq"] += hi - lo
				mu.Unlock()
			})
		}
	}

	jobs = append(jobs, lateWalkJobs...)
	eng.ParFor(len(jobs), func(i int) { jobs[i]() })
	wg.Wait()
	if r.Expired() {
		r.Incomplete("budget expired: not every enumerated case was executed")
	}
	for i, l := range longs {
		r.Set(fmt.Sprintf("bloom_long_%d", i), map[string]any{"initial_capacity": l.Cap, "inserts": l.Total, "growth_steps": growthsSeen[i]})
		if growthsSeen[i] < 3 && !r.Expired() && r.ViolationCount() == 0 {
			r.Incomplete(fmt.Sprintf("bloom long run %d saw only %d growth steps", i, growthsSeen[i]))
		}
	}
	r.Set("family_cases", sizes)
	r.Set("shapes_with_sharing", wst.sharing.Load())
	r.Set("alias_cases_where_cidset_and_map_differ", wst.aliasDiff.Load())
	r.Set("entity_trees", len(trees))
	r.Set("entity_trees_with_chunked_file", est.skippedChunks.Load())
	r.Set("entity_trees_chunk_also_dir_entry", est.chunkAlsoEntry.Load())
	r.Set("entity_trees_with_nested_hamt", est.hamt.Load())
	r.Set("entity_trees_with_identity_dir", est.iddir.Load())
	r.Set("bloom_seq_len", L)
	r.Set("bloom_seq_with_growth", bst.grows.Load())
	r.Set("bloom_max_chain_len", bst.maxChain.Load())
	r.Set("bloom_false_positives_seen", bst.fp.Load())
	r.Sample(wcase{Fam: "walk.kinds", N: 3, Ch: [][]lnk{{{T: 1}, {T: 2}, {T: 1}}, {{T: 2}}, nil}, Kinds: []string{"cborM", "idpb", "raw"}, Status: []int{0, 0, 0}, Tracker: "map", Mode: "single"})
}

func replay(r *eng.Run, raw json.RawMessage) {
	var probe struct {
		Fam string `json:"family"`
	}
	json.Unmarshal(raw, &probe)
	switch {
	case strings.HasPrefix(probe.Fam, "walk."):
		var c wcase
		if err := json.Unmarshal(raw, &c); err != nil {
			fmt.Println("bad replay:", err)
			return
		}
		for len(c.Ch) < c.N {
			c.Ch = append(c.Ch, nil)
		}
		fmt.Printf("  case %s\n", descr(&c))
		runWalkCase(r, &wstats{}, &c, true)
	case probe.Fam == "entity":
		var c ecase
		if err := json.Unmarshal(raw, &c); err != nil {
			fmt.Println("bad replay:", err)
			return
		}
		var fix func(e *enode) *enode
		fix = func(e *enode) *enode {
			ks := []*enode{}
			for _, k := range e.Kids {
				ks = append(ks, fix(k))
			}
			return en(e.Kind, ks...)
		}
		c.Tree = fix(c.Tree)
		fmt.Printf("  tree %s tracker %s bad %q/%d\n", c.Tree.key, c.Tracker, c.Bad, c.BadHow)
		runEntityCase(r, &estats{}, &c, true)
	case probe.Fam == "bloom.seq":
		var c bcase
		json.Unmarshal(raw, &c)
		runBloomSeq(r, &bstats{}, &c, true)
	case probe.Fam == "bloom.long":
		var c blong
		json.Unmarshal(raw, &c)
		g := runBloomLong(r, &bstats{}, &c)
		fmt.Printf("  long run: %d inserts, %d growth steps\n", c.Total, g)
	default:
		fmt.Println("unknown family", probe.Fam)
	}
	r.Eval(1)
	if r.ViolationCount() == 0 {
		fmt.Println("  replay: no violation")
	}
}

func main() { eng.Main("C13", "exploration", body, replay) }
