//go:build verif

package walker

import bbloom "github.com/ipfs/bbloom"

// VerifNewBloomTracker builds a BloomTracker exactly like NewBloomTracker but
// without the MinBloomCapacity floor, so that chain growth happens after a
// handful of inserts (used by the /verif C13 harness). Behaviour of
// Visit/Has/grow is untouched.
func VerifNewBloomTracker(capacity uint64, fpRate uint) (*BloomTracker, error) {
	bpe, hlocs := BloomParams(fpRate)
	b, err := newBloom(capacity, bpe, hlocs)
	if err != nil {
		return nil, err
	}
	return &BloomTracker{
		chain:       []*bbloom.Bloom{b},
		lastCap:     capacity,
		bitsPerElem: bpe,
		hashLocs:    hlocs,
	}, nil
}

// VerifChain reports the private chain state (read-only).
func (bt *BloomTracker) VerifChain() (chainLen int, lastCap, curInserts uint64) {
	return len(bt.chain), bt.lastCap, bt.curInserts
}
