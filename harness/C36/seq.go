//go:build verif

package main

import (
	"context"
	"fmt"
	"sort"
	"strings"

	pb "github.com/ipfs/boxo/bitswap/message/pb"
	"github.com/ipfs/boxo/bitswap/server/internal/decision"
	"github.com/ipfs/boxo/verifshim/eng"
	"github.com/ipfs/boxo/verifshim/third/peertask"
	"github.com/ipfs/boxo/verifshim/vsched"
	blocks "github.com/ipfs/go-block-format"
	cid "github.com/ipfs/go-cid"
	"github.com/libp2p/go-libp2p/core/peer"
)

// ---- reference model --------------------------------------------------------

type want struct {
	prio int32
	have bool
	dh   bool
}

type heldEnv struct {
	role   int
	env    *decision.Envelope
	blocks []int
	haves  []int
	donts  []int
	dead   bool // the peer disconnected after the envelope was made
}

func (h *heldEnv) String() string {
	d := ""
	if h.dead {
		d = "†"
	}
	return fmt.Sprintf("p%d%s[blk=%s have=%s dont=%s]", h.role+1, d, names(h.blocks), names(h.haves), names(h.donts))
}

func names(cs []int) string {
	s := ""
	for _, c := range cs {
		s += cname(c)
	}
	return s
}

// seqRun is one sequential script executed on a fresh engine: the harness
// thread applies one operation at a time and lets the engine's workers run to
// quiescence (vsched.WaitIdle) before the next.
type seqRun struct {
	cfg   config
	ops   []string
	trace bool

	w *world
	// model
	asked     [2]map[int]want   // the peer's own current want-list (what it asked for and did not take back / receive)
	gone      [2]map[int]string // why a CID last left asked: cancel / full-replace / disconnect / delivered
	oblig     [2]map[int]bool   // accepted wants for an absent block with send_dont_have that still wait for any answer
	squeezed  [2]map[int]bool   // classification aid: wants whose task was dropped by a push into a full task queue
	connected [2]bool
	deleted   [nCids]bool // removed from the store by a del operation
	req       <-chan *decision.Envelope
	held      []*heldEnv

	// results
	log         []string
	viols       []*eng.Violation // violations raised by the LAST operation of the script (and by the final drain)
	fatal       bool             // scheduler-level failure: the state is not expanded
	key         string
	finalLedger [2]map[int]lent // server want-lists after the last operation (before the drain)
	preKey      string
	enabled     []string
	cov         map[string]int
	outcome     string
}

func (x *seqRun) logf(f string, a ...any) {
	x.log = append(x.log, fmt.Sprintf(f, a...))
}

func (x *seqRun) count(k string) { x.cov[k]++ }

func (x *seqRun) fail(v *eng.Violation) {
	for _, o := range x.viols {
		if o.Symptom == v.Symptom && fmt.Sprint(o.Features) == fmt.Sprint(v.Features) {
			return
		}
	}
	x.viols = append(x.viols, v)
}

// Main is thread 0 of the vsched execution.
func (x *seqRun) Main() {
	x.cov = map[string]int{}
	for i := range x.asked {
		x.asked[i] = map[int]want{}
		x.gone[i] = map[int]string{}
		x.oblig[i] = map[int]bool{}
		x.squeezed[i] = map[int]bool{}
	}
	x.w = newWorld(x.cfg)
	vsched.WaitIdle()
	for i, op := range x.ops {
		// violations of earlier operations were reported when that prefix was explored
		x.viols = nil
		if i == len(x.ops)-1 {
			x.cov = map[string]int{} // coverage counters describe the last operation (plus the drain) only
			x.preKey = x.stateKey()
		}
		x.step(op)
		if i == len(x.ops)-1 {
			for _, v := range x.viols {
				if v.Op == "" {
					v.Op = opKind(op)
				}
			}
		}
	}
	x.key = x.stateKey()
	for r := 0; r < 2; r++ {
		x.finalLedger[r] = x.w.ledger(r)
	}
	x.enabled = x.enabledOps()
	n := len(x.viols)
	x.drain()
	for _, v := range x.viols[n:] {
		if v.Op == "" {
			v.Op = "quiescence"
		}
	}
}

func opKind(op string) string {
	if i := strings.IndexByte(op, ':'); i > 0 {
		op = op[:i]
	}
	switch op {
	case "r1", "r2":
		return "MessageReceived"
	case "d1", "d2":
		return "PeerDisconnected"
	case "new", "ann":
		return "NotifyNewBlocks"
	case "del":
		return "DeleteBlock"
	}
	return op
}

// ---- operations -------------------------------------------------------------

func (x *seqRun) step(op string) {
	switch {
	case strings.HasPrefix(op, "r1:"), strings.HasPrefix(op, "r2:"):
		x.recv(int(op[1]-'1'), op[3:])
	case op == "pull":
		x.req = vsched.Recv(x.w.e.Outbox())
		x.logf("pull: receiver takes the next one-time channel from the outbox")
	case op == "sent":
		x.sent()
	case op == "new:C":
		pend := [2]int{x.pendingCount(0), x.pendingCount(1)}
		x.w.put(cC)
		x.w.e.NotifyNewBlocks([]blocks.Block{poolBlks[cC]})
		x.logf("new:C: block C stored, NotifyNewBlocks(C)")
		vsched.WaitIdle()
		for r := 0; r < 2; r++ {
			x.markSqueezed(r, pend[r]+1 > x.cfg.L)
		}
	case op == "ann:A":
		// the (still stored) block A is announced again, e.g. because it was re-added
		x.w.e.NotifyNewBlocks([]blocks.Block{poolBlks[cA]})
		x.logf("ann:A: NotifyNewBlocks(A) for the block that is already stored")
	case strings.HasPrefix(op, "del:"):
		c := strings.IndexByte(cidNames, op[4])
		x.w.del(c)
		x.deleted[c] = true
		x.logf("%s: block deleted from the blockstore", op)
	case op == "d1", op == "d2":
		r := int(op[1] - '1')
		x.w.e.PeerDisconnected(x.w.ids[r])
		for c := range x.asked[r] {
			x.gone[r][c] = "disconnect"
		}
		x.asked[r] = map[int]want{}
		x.oblig[r] = map[int]bool{}
		x.squeezed[r] = map[int]bool{}
		x.connected[r] = false
		for _, h := range x.held {
			if h.role == r {
				h.dead = true
			}
		}
		x.logf("%s: PeerDisconnected(p%d)", op, r+1)
	default:
		panic("unknown op " + op)
	}
	vsched.WaitIdle()
	x.poll()
	x.invariants(op)
}

func (x *seqRun) enabledOps() []string {
	var out []string
	for _, op := range opMenu(x.cfg) {
		switch {
		case op == "pull":
			if x.req != nil || len(x.held) >= 2 {
				continue
			}
		case op == "sent":
			if len(x.held) == 0 {
				continue
			}
		case op == "new:C":
			if x.w.store[cC] {
				continue
			}
		case strings.HasPrefix(op, "del:"):
			if !x.w.store[strings.IndexByte(cidNames, op[4])] {
				continue
			}
		case op == "ann:A":
			if !x.w.store[cA] {
				continue
			}
		case op == "d1", op == "d2":
			if !x.connected[int(op[1]-'1')] {
				continue
			}
		}
		out = append(out, op)
	}
	return out
}

// poll looks (without blocking) whether the envelope requested by "pull" is there.
func (x *seqRun) poll() {
	if x.req == nil {
		return
	}
	k := vsched.R(x.req)
	if vsched.Select(true, k) != 0 {
		return
	}
	x.req = nil
	if !k.Ok || k.V == nil {
		x.logf("  outbox channel closed without an envelope")
		return
	}
	x.judge(k.V)
}

// judge checks one envelope at the moment the engine produced it (safety part of the property).
func (x *seqRun) judge(env *decision.Envelope) {
	w := x.w
	r := w.role(env.Peer)
	h := &heldEnv{role: r, env: env}
	if r < 0 {
		x.fail(eng.V("envelope-for-unknown-peer", "", fmt.Sprintf("envelope addressed to %q", env.Peer)))
		return
	}
	for _, b := range env.Message.Blocks() {
		h.blocks = append(h.blocks, cidIdx(b.Cid()))
	}
	for _, bp := range env.Message.BlockPresences() {
		if bp.Type == pb.Message_Have {
			h.haves = append(h.haves, cidIdx(bp.Cid))
		} else {
			h.donts = append(h.donts, cidIdx(bp.Cid))
		}
	}
	sort.Ints(h.blocks)
	sort.Ints(h.haves)
	sort.Ints(h.donts)
	x.held = append(x.held, h)
	x.logf("  envelope -> %s", h)
	x.count("envelopes")
	if len(h.blocks)+len(h.haves)+len(h.donts) > 1 {
		x.count("envelopes_multi_entry")
	}
	kind := func(c int) string {
		switch c {
		case cZ:
			return "empty-block"
		case cD:
			return "filtered"
		}
		return "normal"
	}
	why := func(c int) string {
		if g := x.gone[r][c]; g != "" {
			return g
		}
		return "never-asked"
	}
	extra := func(c int, kv ...string) []string { return kv }
	whyOrStill := func(c int) string {
		if _, ok := x.asked[r][c]; ok {
			return "still-wanted"
		}
		return why(c)
	}
	for _, b := range env.Message.Blocks() {
		c := cidIdx(b.Cid())
		x.count("blocks_sent")
		if c < 0 || !w.store[c] || string(b.RawData()) != string(poolBlks[c].RawData()) {
			x.fail(eng.V("block-not-in-store", "", fmt.Sprintf("block %s sent to p%d is not (or not with this content) in the blockstore", cname(c), r+1), "cid_kind", kind(c)))
		}
		if !permitted(r, c) {
			x.fail(eng.V("block-denied-by-filter", "", fmt.Sprintf("block %s sent to p%d although the request filter denies it", cname(c), r+1)))
		}
		if _, ok := x.asked[r][c]; !ok {
			x.fail(eng.V("block-not-wanted", "", fmt.Sprintf("block %s sent to p%d whose current want-list %s does not contain it (it left the want-list by: %s)", cname(c), r+1, fmtWants(x.asked[r]), why(c)), extra(c, "want_removed_by", why(c))...))
		}
		delete(x.oblig[r], c)
	}
	for _, c := range h.haves {
		x.count("haves_sent")
		if !w.serves(r, c) {
			del := "false"
			if c >= 0 && x.deleted[c] {
				del = "true"
			}
			x.fail(eng.V("have-for-absent-block", "", fmt.Sprintf("HAVE %s sent to p%d but the block is not available to that peer (in store: %v, permitted: %v)", cname(c), r+1, c >= 0 && w.store[c], permitted(r, c)), "deleted_after_want", del))
		}
		if _, ok := x.asked[r][c]; !ok {
			x.fail(eng.V("have-not-wanted", "", fmt.Sprintf("HAVE %s sent to p%d whose current want-list %s does not contain it (left by: %s)", cname(c), r+1, fmtWants(x.asked[r]), why(c)), extra(c, "want_removed_by", why(c))...))
		}
		delete(x.oblig[r], c)
	}
	for _, c := range h.donts {
		x.count("dont_haves_sent")
		if w.serves(r, c) {
			x.fail(eng.V("dont-have-for-present-block", "", fmt.Sprintf("DONT_HAVE %s sent to p%d although the block is in the blockstore and permitted", cname(c), r+1), extra(c, "cid_kind", kind(c), "task_dropped_queue_at_limit", fmt.Sprint(x.squeezed[r][c]), "want_removed_by", whyOrStill(c))...))
		}
		if a, ok := x.asked[r][c]; !ok || !a.dh {
			x.fail(eng.V("dont-have-not-requested", "", fmt.Sprintf("DONT_HAVE %s sent to p%d which did not ask for it (current want-list %s; an earlier want for it left the list by: %s)", cname(c), r+1, fmtWants(x.asked[r]), why(c)), extra(c, "want_removed_by", why(c))...))
		}
		delete(x.oblig[r], c)
	}
}

func fmtWants(m map[int]want) string {
	ks := make([]int, 0, len(m))
	for k := range m {
		ks = append(ks, k)
	}
	sort.Ints(ks)
	var sb strings.Builder
	for _, k := range ks {
		t := "b"
		if m[k].have {
			t = "h"
		}
		d := ""
		if m[k].dh {
			d = "!"
		}
		fmt.Fprintf(&sb, "%s%s%d%s ", t, cname(k), m[k].prio, d)
	}
	return "{" + strings.TrimSpace(sb.String()) + "}"
}

// sent mirrors bitswap/server: MessageSent, then the envelope's Sent callback.
func (x *seqRun) sent() {
	h := x.held[0]
	x.held = x.held[1:]
	before := x.w.ledger(h.role)
	x.w.e.MessageSent(h.env.Peer, h.env.Message)
	h.env.Sent()
	// a sent HAVE answers a want-have only: a want-block that is on the list by now (the peer upgraded
	// after the envelope was made) stays accepted
	if after := x.w.ledger(h.role); true {
		for _, c := range h.haves {
			if en, ok := before[c]; ok && !en.have {
				if _, still := after[c]; !still {
					x.fail(eng.V("accepted-want-dropped", "sent", fmt.Sprintf("the HAVE %s sent to p%d retired the want-BLOCK %s that the peer sent after the envelope was made: want-list %s -> %s", cname(c), h.role+1, cname(c), fmtLedger(before), fmtLedger(after)), "dropped_by", "sent-have"))
				}
			}
		}
	}
	x.logf("sent: %s handed to the network (MessageSent + Sent)", h)
	if h.dead {
		return
	}
	// a want that has just been answered is off the peer's want-list: by the block whatever its type,
	// by a HAVE if it was a want-have
	srv := x.w.ledger(h.role)
	for _, c := range h.blocks {
		if en, ok := srv[c]; ok {
			x.fail(eng.V("wantlist-stale-entry", "sent", fmt.Sprintf("block %s was sent to p%d (MessageSent) but the want stays on the server's want-list %s", cname(c), h.role+1, fmtLedger(srv)), "stale_because", "answered-with-block", "want_have", fmt.Sprint(en.have)))
		}
	}
	for _, c := range h.haves {
		if en, ok := srv[c]; ok && en.have {
			x.fail(eng.V("wantlist-stale-entry", "sent", fmt.Sprintf("HAVE %s was sent to p%d (MessageSent) but the want-have stays on the server's want-list %s", cname(c), h.role+1, fmtLedger(srv)), "stale_because", "answered-with-have", "want_have", "true"))
		}
	}
	for _, c := range h.blocks {
		if _, ok := x.asked[h.role][c]; ok {
			delete(x.asked[h.role], c)
			x.gone[h.role][c] = "delivered"
		}
	}
	for _, c := range h.haves {
		if a, ok := x.asked[h.role][c]; ok && a.have {
			delete(x.asked[h.role], c)
			x.gone[h.role][c] = "delivered"
		}
	}
}

// recv applies one incoming wantlist message and checks the want-list relation
// pre -> post of the engine's ledger (limit, acceptance, eviction order).
func (x *seqRun) recv(r int, spec string) {
	w := x.w
	ms := parseMsg(spec)
	msg, merged := ms.build()
	pre := w.ledger(r)
	pendBefore := x.pendingCount(r)
	hadBlock := map[int]bool{} // availability while the engine processes the message
	for c := 0; c < nCids; c++ {
		hadBlock[c] = w.store[c]
	}
	L := x.cfg.L
	// model: the peer's own want-list
	x.connected[r] = true
	prevAsked := x.asked[r] // for the sticky flags of wants that a full message restates
	if ms.full {
		for c := range x.asked[r] {
			x.gone[r][c] = "full-replace"
		}
		prevAsked = x.asked[r]
		x.asked[r] = map[int]want{}
		x.count("full_messages")
	}
	// effective want entries: not ignored, not denied, and - as the engine takes no more want entries
	// from one message than the limit - only the first L in message order ("cut" = beyond that)
	wants := map[int]mEntry{}
	cancels := map[int]bool{}
	var cut []int
	deniedDH := 0
	for _, e := range merged {
		if e.cancel {
			if _, ok := x.asked[r][e.c]; ok {
				x.gone[r][e.c] = "cancel"
			}
			delete(x.asked[r], e.c)
			if e.c != cI && e.c != cO {
				cancels[e.c] = true
			}
			continue
		}
		// send_dont_have is sticky while the want stays on the list (as in the message type itself)
		old, had := x.asked[r][e.c]
		if !had {
			old, had = prevAsked[e.c]
		}
		// ... and so is a want-block (a later want-have does not take the request for the block back)
		x.asked[r][e.c] = want{e.prio, e.have && (!had || old.have), e.dh || (had && old.dh)}
		if e.c == cI || e.c == cO {
			x.count("ignored_cid_entries")
			continue
		}
		if !permitted(r, e.c) {
			x.count("denied_entries")
			if e.dh {
				deniedDH++
			}
			continue
		}
		if len(wants) >= L {
			cut = append(cut, e.c)
			continue
		}
		wants[e.c] = e
	}
	truncated := len(cut) > 0
	if truncated {
		x.count("messages_cut_at_limit")
	}
	kill := w.e.MessageReceived(context.Background(), w.ids[r], msg)
	x.logf("r%d:%s: MessageReceived(p%d, %s) -> %v", r+1, spec, r+1, spec, kill)
	if kill {
		x.fail(eng.V("connection-killed", "MessageReceived", "MessageReceived asked to close the connection for a well-formed message"))
		return
	}
	vsched.WaitIdle()
	post := w.ledger(r)
	x.logf("  want-list of p%d: %s -> %s", r+1, fmtLedger(pre), fmtLedger(post))
	zeroInvolved := false
	if _, ok := pre[cZ]; ok {
		zeroInvolved = true
	}
	if _, ok := wants[cZ]; ok {
		zeroInvolved = true
	}
	feat := func(kv ...string) []string {
		return append(kv, "full_message", fmt.Sprint(ms.full), "cut_at_limit", fmt.Sprint(truncated), "empty_block_involved", fmt.Sprint(zeroInvolved))
	}
	// (limit) the queued want-list never exceeds L
	if len(post) > L {
		x.fail(eng.V("wantlist-exceeds-limit", "MessageReceived", fmt.Sprintf("want-list of p%d has %d entries %s, limit %d", r+1, len(post), fmtLedger(post), L), feat()...))
	}
	// (no invention / replacement) every entry comes from the previous list or from this message
	for c, en := range post {
		if e, ok := wants[c]; ok {
			if e.prio != en.prio || e.have != en.have {
				x.fail(eng.V("wantlist-entry-not-updated", "MessageReceived", fmt.Sprintf("want %s of p%d is %v after a message that says prio %d have=%v", cname(c), r+1, en, e.prio, e.have), feat()...))
			}
			continue
		}
		if _, ok := pre[c]; ok && !ms.full && !cancels[c] {
			continue
		}
		reason := "never-sent"
		switch {
		case cancels[c]:
			reason = "cancelled-by-this-message"
		case ms.full:
			reason = "replaced-by-this-full-message"
		}
		x.fail(eng.V("wantlist-stale-entry", "MessageReceived", fmt.Sprintf("want-list of p%d contains %s after MessageReceived(%s): %s -> %s", r+1, cname(c), spec, fmtLedger(pre), fmtLedger(post)), feat("stale_because", reason)...))
	}
	// classification of this message's effect
	var admitted, rejected, evicted, oldSurvivors []int
	newcomers := 0
	for c := range wants {
		_, was := pre[c]
		was = was && !ms.full
		if !was {
			newcomers++
		}
		if _, ok := post[c]; !ok {
			if !was { // (a want that was on the list before and is gone now counts as evicted)
				rejected = append(rejected, c)
			}
		} else if !was {
			admitted = append(admitted, c)
		}
	}
	if !ms.full {
		for c := range pre {
			if _, ok := post[c]; !ok && !cancels[c] {
				evicted = append(evicted, c)
			}
		}
		for c := range post {
			if _, ok := pre[c]; ok {
				oldSurvivors = append(oldSurvivors, c)
			}
		}
	}
	sort.Ints(admitted)
	sort.Ints(rejected)
	sort.Ints(evicted)
	sort.Ints(oldSurvivors)
	eff := func(c int) int32 { // priority the server has on record when it decides
		if e, ok := wants[c]; ok {
			return e.prio
		}
		return pre[c].prio
	}
	if len(rejected) > 0 {
		x.count("overflow_rejections")
	}
	if len(evicted) > 0 {
		x.count("overflow_evictions")
	}
	desc := fmt.Sprintf("p%d limit %d, MessageReceived(%s): want-list %s -> %s; admitted %s, rejected %s, evicted %s, cut %s; blocks available: %s", r+1, L, spec, fmtLedger(pre), fmtLedger(post), names(admitted), names(rejected), names(evicted), names(cut), x.storeString())
	// (acceptance) a want is turned away only when the list is full
	if len(rejected) > 0 && len(post) < L && len(cancels) == 0 {
		x.fail(eng.V("want-rejected-with-room", "MessageReceived", desc, feat()...))
	}
	// (eviction only on overflow - cancels of the same message may be applied after the wants - and
	// at most one eviction per admitted newcomer)
	if len(evicted) > 0 && (len(pre)+newcomers <= L || len(evicted) > len(admitted)) {
		x.fail(eng.V("eviction-without-overflow", "MessageReceived", desc, feat()...))
	}
	// (order 1) wants without a local block go first
	for _, ev := range evicted {
		if !hadBlock[ev] {
			x.count("evicted_blockless")
			continue
		}
		x.count("evicted_with_block")
		for _, s := range oldSurvivors {
			if !hadBlock[s] {
				x.fail(eng.V("eviction-order", "MessageReceived", "a want with a local block was evicted while a want without a local block stayed: "+desc, feat("order", "blockless-first")...))
			}
		}
		// (order 2) then the lowest priority first
		for _, s := range oldSurvivors {
			if hadBlock[s] && eff(s) < eff(ev) {
				x.fail(eng.V("eviction-order", "MessageReceived", fmt.Sprintf("want %s (priority %d) was evicted while the lower-priority want %s (priority %d) stayed: %s", cname(ev), eff(ev), cname(s), eff(s), desc), feat("order", "lowest-priority-first")...))
			}
		}
	}
	// (order 3) only in favour of newcomers that are not of lower priority: injective matching evicted(with block) -> admitted
	{
		var ep, ap []int32
		for _, ev := range evicted {
			if hadBlock[ev] {
				ep = append(ep, eff(ev))
			}
		}
		for _, a := range admitted {
			ap = append(ap, wants[a].prio)
		}
		sort.Slice(ep, func(i, j int) bool { return ep[i] > ep[j] })
		sort.Slice(ap, func(i, j int) bool { return ap[i] > ap[j] })
		for i := range ep {
			if i >= len(ap) || ap[i] < ep[i] {
				x.fail(eng.V("eviction-order", "MessageReceived", "a want with a local block was evicted in favour of a lower-priority newcomer: "+desc, feat("order", "newcomer-not-lower")...))
				break
			}
		}
	}
	// (order 4) a newcomer is not turned away while an older want without block, or an older
	// lower-priority want, keeps its place
	for _, n := range rejected {
		for _, s := range oldSurvivors {
			if _, upd := wants[s]; upd {
				continue
			}
			if !hadBlock[s] && hadBlock[n] {
				x.fail(eng.V("newcomer-rejected", "MessageReceived", fmt.Sprintf("newcomer %s was turned away although the older want %s without a local block kept its place: %s", cname(n), cname(s), desc), feat("kept", "blockless")...))
			} else if hadBlock[s] && eff(s) < wants[n].prio {
				x.fail(eng.V("newcomer-rejected", "MessageReceived", fmt.Sprintf("newcomer %s (priority %d) was turned away although the older lower-priority want %s (priority %d) kept its place: %s", cname(n), wants[n].prio, cname(s), eff(s), desc), feat("kept", "lower-priority")...))
			}
		}
	}
	// obligations: accepted wants that must get a DONT_HAVE
	for c := range x.oblig[r] {
		if _, ok := post[c]; !ok {
			delete(x.oblig[r], c)
		}
	}
	// upper bound of the number of tasks this message pushes (classification only)
	nPushed := deniedDH + len(wants)
	for c, e := range wants {
		if _, ok := post[c]; ok && e.dh && !w.serves(r, c) && !x.answerInFlight(r, c) {
			x.oblig[r][c] = true
		}
	}
	x.markSqueezed(r, pendBefore+nPushed > L)
}

// answerInFlight: an envelope that the receiver holds but has not sent yet already tells the peer about c.
func (x *seqRun) answerInFlight(r, c int) bool {
	for _, h := range x.held {
		if h.role == r && !h.dead && (contains(h.blocks, c) || contains(h.haves, c) || contains(h.donts, c)) {
			return true
		}
	}
	return false
}

// pendingCount is the number of tasks queued (not yet popped) for a peer.
func (x *seqRun) pendingCount(r int) int {
	if t := x.w.e.VerifQueue().VerifTracker(x.w.ids[r]); t != nil {
		return len(t.VerifPending())
	}
	return 0
}

// markSqueezed records (for classification only, never for a verdict) which accepted wants of a
// peer have no up-to-date task in the request queue right after a push that did not fit into the
// peer's task queue (PushTasksTruncated at the want-list limit).
func (x *seqRun) markSqueezed(r int, pushOverLimit bool) {
	l := x.w.ledger(r)
	for c := range x.squeezed[r] {
		if _, ok := l[c]; !ok {
			delete(x.squeezed[r], c)
		}
	}
	if !pushOverLimit {
		return
	}
	t := x.w.e.VerifQueue().VerifTracker(x.w.ids[r])
	for c, le := range l {
		need := x.w.store[c] && c != cZ                                         // a task that knows the block is there ...
		needWB := need && (!le.have || (x.cfg.R > 0 && poolSize[c] <= x.cfg.R)) // ... and that it has to go out as a block
		needDH := !need && x.asked[r][c].dh                                     // ... or, for an absent block, that a DONT_HAVE was asked for
		ok := func(d peertask.Data) bool {
			wb, dh, hb, _ := decision.VerifTaskData(d)
			return (hb || !need) && (wb || !needWB) && (dh || !needDH)
		}
		found := false
		if t != nil {
			for _, q := range t.VerifPending() {
				if cidIdx(q.Topic.(cid.Cid)) == c && ok(q.Data) {
					found = true
				}
			}
			for _, q := range t.VerifActive() {
				if cidIdx(q.Topic.(cid.Cid)) == c && ok(q.Data) {
					found = true
				}
			}
		}
		if !found {
			x.squeezed[r][c] = true
			x.count("tasks_dropped_queue_at_limit")
		}
	}
}

func contains(xs []int, v int) bool {
	for _, x := range xs {
		if x == v {
			return true
		}
	}
	return false
}

func (x *seqRun) storeString() string {
	s := ""
	for c := 0; c < nCids; c++ {
		if x.w.store[c] {
			s += cname(c)
		}
	}
	return s
}

// invariants checked after every operation.
func (x *seqRun) invariants(op string) {
	for r := 0; r < 2; r++ {
		l := x.w.ledger(r)
		if len(l) > x.cfg.L {
			x.fail(eng.V("wantlist-exceeds-limit", "", fmt.Sprintf("after %s the want-list of p%d has %d entries %s, limit %d", op, r+1, len(l), fmtLedger(l), x.cfg.L)))
		}
	}
}

// drain: the receiver keeps taking envelopes and reporting them sent until the
// engine is quiet; then every accepted want must have been answered.
func (x *seqRun) drain() {
	x.logf("-- drain: receiver takes and sends everything the engine produces")
	for i := 0; i < 24; i++ {
		progressed := false
		for len(x.held) > 0 {
			x.sent()
			vsched.WaitIdle()
			x.poll()
			progressed = true
		}
		if x.req == nil {
			x.req = vsched.Recv(x.w.e.Outbox())
			vsched.WaitIdle()
			x.poll()
		}
		if len(x.held) > 0 {
			progressed = true
		}
		if !progressed {
			break
		}
	}
	if len(x.held) > 0 {
		x.fail(eng.V("drain-not-quiescent", "quiescence", "the engine still produced envelopes after 24 rounds"))
		return
	}
	for r := 0; r < 2; r++ {
		l := x.w.ledger(r)
		for c := range l {
			if _, still := x.asked[r][c]; still && x.w.serves(r, c) {
				kind := "normal"
				if c == cZ {
					kind = "empty-block"
				}
				x.fail(eng.V("want-unanswered", "quiescence", fmt.Sprintf("accepted want %s of p%d (want-list %s) was never answered although the block is in the store, the engine is idle and a receiver waits on the outbox\n%s", cname(c), r+1, fmtLedger(l), x.queueDump()), "cid_kind", kind, "task_dropped_queue_at_limit", fmt.Sprint(x.squeezed[r][c])))
			}
		}
		for c := range x.oblig[r] {
			x.fail(eng.V("dont-have-unanswered", "quiescence", fmt.Sprintf("p%d's accepted want %s with send_dont_have for an absent block never got an answer (want-list %s)\n%s", r+1, cname(c), fmtLedger(l), x.queueDump()), "task_dropped_queue_at_limit", fmt.Sprint(x.squeezed[r][c]), "deleted_after_want", fmt.Sprint(x.deleted[c])))
		}
	}
}

// ---- state key ---------------------------------------------------------------

func topicName(t peertask.Topic) string { return cname(cidIdx(t.(cid.Cid))) }

func dataName(d peertask.Data) string {
	wb, dh, hb, sz := decision.VerifTaskData(d)
	return fmt.Sprintf("wb%v,dh%v,hb%v,sz%d", wb, dh, hb, sz)
}

func (x *seqRun) queueDump() string {
	base := vsched.Now().UnixNano()
	return x.w.e.VerifQueue().VerifDump(func(p peer.ID) string { return x.w.pname(p) }, topicName, dataName, base)
}

func (x *seqRun) stateKey() string {
	var sb strings.Builder
	w := x.w
	base := vsched.Now().UnixNano()
	pn := func(p peer.ID) string { return w.pname(p) }
	sb.WriteString(x.storeString())
	for r := 0; r < 2; r++ {
		fmt.Fprintf(&sb, "|asked%d%s conn=%v ob=", r, fmtWants(x.asked[r]), x.connected[r])
		var ob []int
		for c := range x.oblig[r] {
			ob = append(ob, c)
		}
		sort.Ints(ob)
		sb.WriteString(names(ob))
		var sq []int
		for c := range x.squeezed[r] {
			sq = append(sq, c)
		}
		sort.Ints(sq)
		sb.WriteString(" sq=" + names(sq))
	}
	fmt.Fprintf(&sb, "|req=%v held=", x.req != nil)
	for _, h := range x.held {
		sb.WriteString(h.String())
	}
	byPeer, byCid, peers := w.e.VerifLedger()
	var a, b, c []string
	for _, e := range byPeer {
		a = append(a, fmt.Sprintf("%s:%s:%d:%v", pn(e.Peer), cname(cidIdx(e.Cid)), e.Priority, e.WantHave))
	}
	for _, e := range byCid {
		b = append(b, fmt.Sprintf("%s:%s:%d:%v", pn(e.Peer), cname(cidIdx(e.Cid)), e.Priority, e.WantHave))
	}
	for _, p := range peers {
		c = append(c, pn(p))
	}
	sort.Strings(a)
	sort.Strings(b)
	sort.Strings(c)
	fmt.Fprintf(&sb, "|L1=%v|L2=%v|LP=%v", a, b, c)
	sb.WriteString("|Q=" + w.e.VerifQueue().VerifDump(pn, topicName, dataName, base))
	sb.WriteString("|S=" + w.e.VerifServed(pn, base))
	fmt.Fprintf(&sb, "|ws=%d", w.e.VerifWorkSignal())
	return sb.String()
}

// runSeq executes one script under the controlled scheduler (default schedule:
// every worker runs to quiescence between two operations).
func runSeq(cfg config, ops []string, trace bool) (*seqRun, *vsched.Result) {
	x := &seqRun{cfg: cfg, ops: ops, trace: trace}
	res := vsched.Run(vsched.Config{MaxSteps: 200000, MaxIdleFires: 0, SelectCost: 1, Trace: trace}, x.Main)
	switch res.Verdict {
	case "ok", "horizon":
	default:
		x.viols = append(x.viols, eng.V(res.Verdict, "", res.Detail))
		x.fatal = true
	}
	return x, res
}

// outcomeString is the observation of the last operation (outcome counting).
func (x *seqRun) outcomeString() string {
	if len(x.ops) == 0 {
		return "init"
	}
	// the log lines produced by the last operation, up to the drain marker
	last := -1
	for i, l := range x.log {
		if strings.HasPrefix(l, "-- drain") {
			break
		}
		if !strings.HasPrefix(l, "  ") {
			last = i
		}
	}
	if last < 0 {
		return ""
	}
	var out []string
	for i := last; i < len(x.log) && !strings.HasPrefix(x.log[i], "-- drain"); i++ {
		out = append(out, strings.TrimSpace(x.log[i]))
	}
	return strings.Join(out, ";")
}
