//go:build verif

package main

import (
	"context"
	"fmt"
	"sort"
	"strings"
	"time"

	pb "github.com/ipfs/boxo/bitswap/message/pb"
	"github.com/ipfs/boxo/verifshim/eng"
	"github.com/ipfs/boxo/verifshim/vexp"
	"github.com/ipfs/boxo/verifshim/vsched"
	blocks "github.com/ipfs/go-block-format"
)

// Concurrent part: driver threads call MessageReceived / NotifyNewBlocks /
// PeerDisconnected while a receiver thread takes envelopes from the outbox
// and reports them sent, all interleaved with the engine's task worker and
// blockstore worker (and the thaw ticker). Every schedule within the deviation
// bound is executed. The oracle is interval-based: a call takes effect at some
// point between its start and its return, an envelope is judged against every
// want-list the peer may have had while it was being built.

type cscript struct {
	name    string
	cfg     config
	threads [][]string // per driver thread: operations ("r1:<msg>", "new:C", "d1")
	setup   []string   // operations applied sequentially (to quiescence) before the threads start
	rounds  int        // envelopes the receiver thread tries to take (0 = no receiver thread)
	serial  bool       // oracle: the final want-lists must be those of some serial order of the calls
	bq, bt  int        // deviation bound in the quick / thorough tier
}

type cev struct {
	kind         string // call | env | sent
	thr          int
	op           string
	role         int
	start, ret   int // logical positions (ret = -1: never returned)
	blocks       []int
	haves, donts []int
}

type cexec struct {
	sc  *cscript
	w   *world
	pos int
	evs []*cev
	// snapshot at final quiescence
	final   [2]map[int]lent
	snapped bool
}

func (x *cexec) tick() int { x.pos++; return x.pos }

func (x *cexec) Main() {
	sc := x.sc
	x.w = newWorld(sc.cfg)
	w := x.w
	done := vsched.Reg(make(chan struct{}, len(sc.threads)))
	runOps := func(ti int, ops []string) {
		for _, op := range ops {
			ev := &cev{kind: "call", thr: ti, op: op, ret: -1, role: -1}
			ev.start = x.tick()
			x.evs = append(x.evs, ev)
			switch {
			case strings.HasPrefix(op, "r1:"), strings.HasPrefix(op, "r2:"):
				ev.role = int(op[1] - '1')
				msg, _ := parseMsg(op[3:]).build()
				w.e.MessageReceived(context.Background(), w.ids[ev.role], msg)
			case op == "new:C":
				w.put(cC)
				w.e.NotifyNewBlocks([]blocks.Block{poolBlks[cC]})
			case op == "d1", op == "d2":
				ev.role = int(op[1] - '1')
				w.e.PeerDisconnected(w.ids[ev.role])
			default:
				panic("bad op " + op)
			}
			ev.ret = x.tick()
		}
	}
	for _, op := range sc.setup {
		runOps(-1, []string{op})
		vsched.WaitIdle()
	}
	// receiver: mirrors bitswap/server's task worker; may stay blocked at the end
	if sc.rounds > 0 {
		vsched.GoNamed("receiver", false, x.receiver)
	}
	// the main thread is caller 0 itself (fewer threads = fewer free scheduling choices)
	for ti := 1; ti < len(sc.threads); ti++ {
		ti := ti
		vsched.GoNamed(fmt.Sprintf("caller%d", ti), true, func() {
			runOps(ti, sc.threads[ti])
			vsched.SendTo(done)(struct{}{})
		})
	}
	runOps(0, sc.threads[0])
	for ti := 1; ti < len(sc.threads); ti++ {
		vsched.Recv((<-chan struct{})(done))
	}
	vsched.WaitIdle()
	for r := 0; r < 2; r++ {
		x.final[r] = w.ledger(r)
	}
	// second chance before a liveness verdict: if a want for an available block is still on a
	// want-list, let the engine's 100ms thaw ticker fire once and look again
	pendingWork := false
	for r := 0; r < 2; r++ {
		for c := range x.final[r] {
			if w.serves(r, c) {
				pendingWork = true
			}
		}
	}
	if pendingWork {
		vsched.Sleep(150 * time.Millisecond)
		vsched.WaitIdle()
		for r := 0; r < 2; r++ {
			x.final[r] = w.ledger(r)
		}
	}
	x.snapped = true
	x.tick()
}

// receiver mirrors bitswap/server's task worker: take the next envelope, MessageSent, Sent.
func (x *cexec) receiver() {
	sc, w := x.sc, x.w
	for i := 0; i < sc.rounds; i++ {
		ev := &cev{kind: "env", ret: -1, role: -1}
		ev.start = x.tick()
		x.evs = append(x.evs, ev)
		one := vsched.Recv(w.e.Outbox())
		env, ok := vsched.Recv2(one)
		if !ok || env == nil {
			continue
		}
		ev.role = w.role(env.Peer)
		for _, b := range env.Message.Blocks() {
			ev.blocks = append(ev.blocks, cidIdx(b.Cid()))
		}
		for _, bp := range env.Message.BlockPresences() {
			if bp.Type == pb.Message_Have {
				ev.haves = append(ev.haves, cidIdx(bp.Cid))
			} else {
				ev.donts = append(ev.donts, cidIdx(bp.Cid))
			}
		}
		sort.Ints(ev.blocks)
		sort.Ints(ev.haves)
		sort.Ints(ev.donts)
		ev.ret = x.tick()
		sv := &cev{kind: "sent", role: ev.role, blocks: ev.blocks, haves: ev.haves, ret: -1}
		sv.start = x.tick()
		x.evs = append(x.evs, sv)
		vsched.Yield("receiver: envelope in hand, before MessageSent")
		w.e.MessageSent(env.Peer, env.Message)
		env.Sent()
		sv.ret = x.tick()
	}
}

func (x *cexec) AtEnd(*vsched.Result) {}

func (x *cexec) Outcome() string {
	var sb strings.Builder
	for _, e := range x.evs {
		if e.kind == "env" && e.ret >= 0 {
			fmt.Fprintf(&sb, "p%d[%s|%s|%s] ", e.role+1, names(e.blocks), names(e.haves), names(e.donts))
		}
	}
	if x.snapped {
		fmt.Fprintf(&sb, "final %s %s", fmtLedger(x.final[0]), fmtLedger(x.final[1]))
	}
	return sb.String()
}

func (x *cexec) logString() string {
	var sb strings.Builder
	for _, e := range x.evs {
		switch e.kind {
		case "call":
			fmt.Fprintf(&sb, "  [%d..%d] caller%d %s\n", e.start, e.ret, e.thr, e.op)
		case "env":
			fmt.Fprintf(&sb, "  [%d..%d] receiver: envelope p%d blk=%s have=%s dont=%s\n", e.start, e.ret, e.role+1, names(e.blocks), names(e.haves), names(e.donts))
		case "sent":
			fmt.Fprintf(&sb, "  [%d..%d] receiver: MessageSent+Sent p%d\n", e.start, e.ret, e.role+1)
		}
	}
	if x.snapped {
		fmt.Fprintf(&sb, "  final want-lists: p1 %s p2 %s\n", fmtLedger(x.final[0]), fmtLedger(x.final[1]))
	}
	return sb.String()
}

// wantEv / remEv: the effects of the logged calls on the want-list entry (role, c).
type ival struct {
	start, ret int
	dh         bool
	have       bool
}

func (x *cexec) effects(role, c int) (adds, rems []ival) {
	inf := 1 << 30
	for _, e := range x.evs {
		ret := e.ret
		if ret < 0 {
			ret = inf
		}
		switch e.kind {
		case "call":
			if e.role != role {
				continue
			}
			if e.op[0] == 'd' {
				rems = append(rems, ival{e.start, ret, false, false})
				continue
			}
			ms := parseMsg(e.op[3:])
			_, merged := ms.build()
			mentioned := false
			for _, m := range merged {
				if m.c != c {
					continue
				}
				mentioned = true
				if m.cancel {
					rems = append(rems, ival{e.start, ret, false, false})
				} else {
					adds = append(adds, ival{e.start, ret, m.dh, m.have})
				}
			}
			if ms.full && !mentioned {
				rems = append(rems, ival{e.start, ret, false, false})
			}
		case "sent":
			if e.role == role && contains(e.blocks, c) {
				rems = append(rems, ival{e.start, ret, false, false})
			}
			if e.role == role && contains(e.haves, c) {
				rems = append(rems, ival{e.start, ret, false, true}) // a HAVE satisfies want-haves only
			}
		}
	}
	// a delivered HAVE does not take a want-block off the list: drop it as a removal when a
	// want-block for the CID may already have been there
	k := rems[:0]
	for _, rm := range rems {
		if rm.have {
			upgraded := false
			for _, a := range adds {
				if !a.have && a.start < rm.ret {
					upgraded = true
				}
			}
			if upgraded {
				continue
			}
		}
		k = append(k, rm)
	}
	rems = k
	return
}

// mayWant: the peer's want-list may have contained c at some moment of [ws, we].
func mayWant(adds, rems []ival, ws, we int, needDH bool) bool {
	for _, a := range adds {
		if a.start >= we || (needDH && !a.dh) {
			continue
		}
		killed := false
		for _, k := range rems {
			if k.start > a.ret && k.ret < ws {
				killed = true
			}
		}
		if !killed {
			return true
		}
	}
	return false
}

// surelyWants: at the end the peer wants c under every ordering of overlapping calls.
func surelyWants(adds, rems []ival) (bool, int) {
	for _, a := range adds {
		ok := true
		for _, k := range rems {
			if k.ret >= a.start {
				ok = false
			}
		}
		if ok {
			return true, a.start
		}
	}
	return false, 0
}

// listedWant: the server still lists c at quiescence; that is consistent with the calls only if some
// want for c is not followed by a removal that started after it returned. A removal that merely
// OVERLAPS the want does not excuse the entry: had it taken effect last, the entry would be gone, so
// the want took effect last, was accepted and has to be answered.
func listedWant(adds, rems []ival) (bool, int) {
	for _, a := range adds {
		ok := true
		for _, k := range rems {
			if k.start > a.ret {
				ok = false
			}
		}
		if ok {
			return true, a.start
		}
	}
	return false, 0
}

func (x *cexec) Check(res *vsched.Result) *eng.Violation {
	logStr := x.logString()
	w := x.w
	// when was C stored (scenarios with new:C)
	putStart, putRet := 1<<30, 1<<30
	for _, e := range x.evs {
		if e.kind == "call" && e.op == "new:C" {
			putStart = e.start
			if e.ret >= 0 {
				putRet = e.ret
			}
		}
	}
	inStoreMaybe := func(c, we int) bool { // possibly in the store at some moment before we
		if c == cC {
			return putStart < we
		}
		return c >= 0 && w.store[c]
	}
	absentMaybe := func(c, ws int) bool { // possibly absent at some moment after ws
		if c == cC {
			return putRet > ws
		}
		return c < 0 || !w.store[c]
	}
	for _, e := range x.evs {
		if e.kind != "env" || e.ret < 0 {
			continue
		}
		r := e.role
		if r < 0 {
			return eng.V("envelope-for-unknown-peer", "", logStr)
		}
		for _, c := range e.blocks {
			adds, rems := x.effects(r, c)
			if !inStoreMaybe(c, e.ret) {
				return eng.V("block-not-in-store", "", fmt.Sprintf("block %s sent to p%d\n%s", cname(c), r+1, logStr))
			}
			if !permitted(r, c) {
				return eng.V("block-denied-by-filter", "", fmt.Sprintf("block %s sent to p%d\n%s", cname(c), r+1, logStr))
			}
			if !mayWant(adds, rems, e.start, e.ret, false) {
				// classification: was the block announced (NotifyNewBlocks) while the removal of the want was running?
				announced := false
				for _, k := range rems {
					if c == cC && putStart < k.ret && putRet > k.start {
						announced = true
					}
				}
				return eng.V("block-not-wanted", "", fmt.Sprintf("block %s sent to p%d in the envelope built during [%d..%d] although under every ordering of the overlapping calls the peer's want-list did not contain it then\n%s", cname(c), r+1, e.start, e.ret, logStr), "concurrent", "true", "announced_while_want_was_removed", fmt.Sprint(announced))
			}
		}
		for _, c := range e.haves {
			adds, rems := x.effects(r, c)
			if !inStoreMaybe(c, e.ret) || !permitted(r, c) {
				return eng.V("have-for-absent-block", "", fmt.Sprintf("HAVE %s sent to p%d\n%s", cname(c), r+1, logStr), "concurrent", "true")
			}
			if !mayWant(adds, rems, e.start, e.ret, false) {
				return eng.V("have-not-wanted", "", fmt.Sprintf("HAVE %s sent to p%d during [%d..%d]\n%s", cname(c), r+1, e.start, e.ret, logStr), "concurrent", "true")
			}
		}
		for _, c := range e.donts {
			adds, rems := x.effects(r, c)
			if !absentMaybe(c, e.start) && permitted(r, c) {
				return eng.V("dont-have-for-present-block", "", fmt.Sprintf("DONT_HAVE %s sent to p%d in the envelope built during [%d..%d] although the block was in the store before\n%s", cname(c), r+1, e.start, e.ret, logStr), "concurrent", "true", "block_added_concurrently", fmt.Sprint(c == cC))
			}
			if !mayWant(adds, rems, e.start, e.ret, true) {
				return eng.V("dont-have-not-requested", "", fmt.Sprintf("DONT_HAVE %s sent to p%d during [%d..%d]\n%s", cname(c), r+1, e.start, e.ret, logStr), "concurrent", "true")
			}
		}
	}
	if !x.snapped {
		return nil
	}
	if x.sc.serial {
		got := fmtLedger(x.final[0]) + " " + fmtLedger(x.final[1])
		allowed := serialFinals(x.sc)
		if !allowed[got] {
			var as []string
			for a := range allowed {
				as = append(as, a)
			}
			sort.Strings(as)
			return eng.V("wantlist-not-serializable", "MessageReceived", fmt.Sprintf("final want-lists (p1 p2) %s are not those of any serial order of the overlapping MessageReceived calls (serial orders on this same build give: %s)\n%s", got, strings.Join(as, " | "), logStr), "concurrent", "true", "same_peer", "true")
		}
	}
	// limit and liveness at final quiescence (receiver still had rounds left?)
	envs := 0
	for _, e := range x.evs {
		if e.kind == "env" && e.ret >= 0 {
			envs++
		}
	}
	for r := 0; r < 2; r++ {
		if len(x.final[r]) > x.sc.cfg.L {
			return eng.V("wantlist-exceeds-limit", "", fmt.Sprintf("p%d: %s\n%s", r+1, fmtLedger(x.final[r]), logStr), "concurrent", "true")
		}
		if envs >= x.sc.rounds {
			continue // the receiver stopped taking envelopes: nothing can be said about the rest
		}
		for c := range x.final[r] {
			adds, rems := x.effects(r, c)
			listed, since := listedWant(adds, rems)
			if !listed {
				continue
			}
			sure, _ := surelyWants(adds, rems)
			if w.serves(r, c) {
				return eng.V("want-unanswered", "quiescence", fmt.Sprintf("at final quiescence (engine idle, receiver waiting on the outbox, thaw ticker fired) the want %s of p%d is on the server's want-list (accepted) and still unanswered although the block is in the store\n%s", cname(c), r+1, logStr), "concurrent", "true", "block_added_concurrently", fmt.Sprint(c == cC), "removal_overlapping_the_want", fmt.Sprint(!sure))
			}
			needDH := false
			for _, a := range adds {
				if a.dh {
					needDH = true
				}
			}
			if needDH {
				answered := false
				for _, e := range x.evs {
					if e.kind == "env" && e.ret > since && e.role == r && (contains(e.blocks, c) || contains(e.haves, c) || contains(e.donts, c)) {
						answered = true
					}
				}
				if !answered {
					return eng.V("dont-have-unanswered", "quiescence", fmt.Sprintf("accepted want %s of p%d with send_dont_have never got an answer\n%s", cname(c), r+1, logStr), "concurrent", "true")
				}
			}
		}
	}
	return nil
}

// serialFinals runs the scenario's calls in every serial order (per-thread order kept) on the real
// engine, one fresh sequential execution each, and returns the set of final want-lists.
var serialCache = map[string]map[string]bool{}

func serialFinals(sc *cscript) map[string]bool {
	if m, ok := serialCache[sc.name]; ok {
		return m
	}
	m := map[string]bool{}
	var rec func(idx []int, acc []string)
	rec = func(idx []int, acc []string) {
		done := true
		for t := range sc.threads {
			if idx[t] < len(sc.threads[t]) {
				done = false
				n := append([]int{}, idx...)
				n[t]++
				rec(n, append(append([]string{}, acc...), sc.threads[t][idx[t]]))
			}
		}
		if done {
			x, _ := runSeq(sc.cfg, append(append([]string{}, sc.setup...), acc...), false)
			m[fmtLedger(x.finalLedger[0])+" "+fmtLedger(x.finalLedger[1])] = true
		}
	}
	rec(make([]int, len(sc.threads)), nil)
	serialCache[sc.name] = m
	return m
}

func concScripts() []*cscript {
	base := config{L: 2, R: 16, T: 44}
	one := config{L: 2, R: 16, T: 1}
	return []*cscript{
		{name: "two-peers", cfg: base, threads: [][]string{{"r1:bA1"}, {"r2:bB2"}}, rounds: 2, bq: 0, bt: 1},
		{name: "cancel-race", cfg: one, threads: [][]string{{"r1:bA1", "r1:xA"}}, rounds: 2, bq: 1, bt: 2},
		{name: "want-upgrade", cfg: config{L: 2, R: 0, T: 1}, threads: [][]string{{"r1:hB2!", "r1:bB2"}}, rounds: 2, bq: 1, bt: 2},
		{name: "two-wants-one-peer", cfg: base, threads: [][]string{{"r1:bA1", "r1:bC3!"}}, rounds: 2, bq: 1, bt: 2},
		{name: "notify-race", cfg: one, threads: [][]string{{"r1:bC3!"}, {"new:C"}}, rounds: 2, bq: 0, bt: 1},
		{name: "notify-race-silent", cfg: one, threads: [][]string{{"r1:bC3"}, {"new:C"}}, rounds: 1, bq: 1, bt: 1},
		{name: "overflow-race", cfg: config{L: 1, R: 16, T: 1}, threads: [][]string{{"r1:bA1", "r1:bE4"}}, rounds: 2, bq: 1, bt: 2},
		{name: "disconnect-race", cfg: one, threads: [][]string{{"r1:bA1"}, {"d1"}}, rounds: 2, bq: 0, bt: 1},
		// the disconnect handler of the peer's old connection racing traffic that concerns the same peer:
		// a want from its new connection, an announcement of a block it wants
		{name: "disconnect-vs-want", cfg: one, threads: [][]string{{"d1"}, {"r1:bA1"}}, rounds: 1, bq: 1, bt: 2},
		{name: "disconnect-vs-notify", cfg: one, setup: []string{"r1:bC3"}, threads: [][]string{{"new:C"}, {"d1"}}, rounds: 1, bq: 1, bt: 1},
		// the peer upgrades want-have -> want-block while the HAVE envelope is between outbox and MessageSent, then cancels
		{name: "upgrade-vs-sent", cfg: config{L: 2, R: 0, T: 1}, threads: [][]string{{"r1:hB2!", "r1:bB2", "r1:xB"}}, rounds: 2, bq: 1, bt: 2},
		// two messages of the SAME peer handled concurrently while its want-list {A1, B2} is full (all blocks
		// present: with an absent one the engine's map-ordered size lookup makes executions irreproducible)
		{name: "same-peer-overflow", cfg: config{L: 2, R: 16, T: 44}, setup: []string{"r2:bA1,bB2"}, threads: [][]string{{"r2:bE9"}, {"r2:xA,bD5"}}, rounds: 0, serial: true, bq: 1, bt: 2},
		{name: "same-cid-two-peers-cancel", cfg: one, threads: [][]string{{"r1:bA1", "r1:xA"}, {"r2:bA1"}}, rounds: 2, bq: 0, bt: 1},
	}
}

// concScenarios: BoundDelta is relative to vexp.Options.Bound = 1 (quick) / 2 (thorough).
func concScenarios(thorough bool) []*vexp.Scenario {
	var out []*vexp.Scenario
	for _, s := range concScripts() {
		s := s
		delta := s.bq - 1
		if thorough {
			delta = s.bt - 2
		}
		out = append(out, &vexp.Scenario{
			Name: s.name, BoundDelta: delta,
			Cfg: vsched.Config{MaxSteps: 100000, MaxIdleFires: 2, SelectCost: 1},
			New: func() vexp.Exec { return &cexec{sc: s} },
		})
	}
	return out
}
