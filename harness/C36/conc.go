//go:build verif

package main

import "github.com/ipfs/boxo/verifshim/vexp"

func concScenarios() []*vexp.Scenario { return nil }
