//go:build verif

package main

import (
	"context"
	"fmt"
	"sort"
	"strings"

	bsmsg "github.com/ipfs/boxo/bitswap/message"
	pb "github.com/ipfs/boxo/bitswap/message/pb"
	"github.com/ipfs/boxo/bitswap/server/internal/decision"
	"github.com/ipfs/boxo/blockstore"
	blocks "github.com/ipfs/go-block-format"
	cid "github.com/ipfs/go-cid"
	ds "github.com/ipfs/go-datastore"
	dssync "github.com/ipfs/go-datastore/sync"
	"github.com/libp2p/go-libp2p/core/peer"
	mh "github.com/multiformats/go-multihash"
)

// ---- CID pool ---------------------------------------------------------------

const (
	cA = iota // present, 4 bytes  (<= replace size 16)
	cB        // present, 48 bytes (>  replace size 16)
	cE        // present, 5 bytes
	cC        // absent at start; "new:C" stores it (6 bytes) and calls NotifyNewBlocks
	cD        // present, 7 bytes, denied to peer p1 by the request filter
	cZ        // present, EMPTY block (only in "zero" configurations)
	cI        // identity-hash CID (ignored by the engine)
	cO        // oversize CID (sha2-512, 68 bytes > WithMaxCidSize(36); ignored by the engine)
	nCids
)

const cidNames = "ABECDZIO"

var (
	poolCids [nCids]cid.Cid
	poolBlks [nCids]blocks.Block
	poolSize = [nCids]int{4, 48, 5, 6, 7, 0, 3, 9}
)

func init() {
	for i := 0; i < nCids; i++ {
		data := []byte(strings.Repeat(string(cidNames[i]), poolSize[i]))
		typ := uint64(mh.SHA2_256)
		switch i {
		case cI:
			typ = mh.IDENTITY
		case cO:
			typ = mh.SHA2_512
		}
		h, err := mh.Sum(data, typ, -1)
		if err != nil {
			panic(err)
		}
		poolCids[i] = cid.NewCidV1(cid.Raw, h)
		b, err := blocks.NewBlockWithCid(data, poolCids[i])
		if err != nil {
			panic(err)
		}
		poolBlks[i] = b
	}
}

func cidIdx(c cid.Cid) int {
	for i := range poolCids {
		if poolCids[i].Equals(c) {
			return i
		}
	}
	return -1
}

func cname(i int) string {
	if i < 0 || i >= nCids {
		return "?"
	}
	return cidNames[i : i+1]
}

// ---- configuration ----------------------------------------------------------

type config struct {
	L    int  // WithMaxQueuedWantlistEntriesPerPeer
	R    int  // WithWantHaveReplaceSize (0 = never replace; 16 = between the small and the large block)
	T    int  // WithTargetMessageSize (1 = one task per envelope; 44 = a small block plus a presence)
	Zero bool // the empty block Z is in the store and in the menu
	Tie  int  // which peer role wins the fair comparator's salted-hash tiebreak
	Wide bool // larger message menu (thorough tier)
}

func (c config) String() string {
	z := 0
	if c.Zero {
		z = 1
	}
	w := 0
	if c.Wide {
		w = 1
	}
	return fmt.Sprintf("L%d-r%d-t%d-z%d-tie%d-w%d", c.L, c.R, c.T, z, c.Tie, w)
}

func parseConfig(s string) (c config, err error) {
	var z, w int
	_, err = fmt.Sscanf(s, "L%d-r%d-t%d-z%d-tie%d-w%d", &c.L, &c.R, &c.T, &z, &c.Tie, &w)
	c.Zero = z == 1
	c.Wide = w == 1
	return
}

// permitted is the request filter: D is denied to peer role 0 only.
func permitted(role, c int) bool { return !(c == cD && role == 0) }

// ---- messages ---------------------------------------------------------------

type mEntry struct {
	c      int
	prio   int32
	have   bool
	dh     bool
	cancel bool
}

type mSpec struct {
	full    bool
	entries []mEntry // wire order; duplicates are merged by the real message type
}

// parseMsg: "[F:]e,e,..." with e = (b|h)<CID><prio>[!]  or  x<CID>   ("F:" alone = full and empty)
func parseMsg(s string) mSpec {
	var m mSpec
	if strings.HasPrefix(s, "F:") {
		m.full = true
		s = s[2:]
	}
	if s == "" {
		return m
	}
	for _, t := range strings.Split(s, ",") {
		var e mEntry
		e.c = strings.IndexByte(cidNames, t[1])
		if e.c < 0 {
			panic("bad cid in " + t)
		}
		switch t[0] {
		case 'x':
			e.cancel = true
		case 'h':
			e.have = true
			fallthrough
		case 'b':
			e.prio = int32(t[2] - '0')
			e.dh = strings.HasSuffix(t, "!")
		default:
			panic("bad entry " + t)
		}
		m.entries = append(m.entries, e)
	}
	return m
}

// ordMsg is the real bitswap message with a deterministic Wantlist order (the
// real one iterates a Go map, i.e. any order can occur; the menu enumerates
// the orders that matter explicitly).
type ordMsg struct {
	bsmsg.BitSwapMessage
	order []cid.Cid
}

func (m *ordMsg) sorted(es []bsmsg.Entry) []bsmsg.Entry {
	pos := func(c cid.Cid) int {
		for i, o := range m.order {
			if o.Equals(c) {
				return i
			}
		}
		return len(m.order)
	}
	sort.SliceStable(es, func(i, j int) bool { return pos(es[i].Cid) < pos(es[j].Cid) })
	return es
}
func (m *ordMsg) Wantlist() []bsmsg.Entry { return m.sorted(m.BitSwapMessage.Wantlist()) }
func (m *ordMsg) FillWantlist(out []bsmsg.Entry) []bsmsg.Entry {
	return m.sorted(m.BitSwapMessage.FillWantlist(out))
}

// build feeds the wire entries to the real message implementation (which merges
// duplicate CIDs) and returns it with first-appearance order, plus the merged
// entries as the model sees them.
func (s mSpec) build() (*ordMsg, []mEntry) {
	m := bsmsg.New(s.full)
	var order []cid.Cid
	seen := map[int]bool{}
	for _, e := range s.entries {
		if !seen[e.c] {
			seen[e.c] = true
			order = append(order, poolCids[e.c])
		}
		if e.cancel {
			m.Cancel(poolCids[e.c])
		} else {
			t := pb.Message_Wantlist_Block
			if e.have {
				t = pb.Message_Wantlist_Have
			}
			m.AddEntry(poolCids[e.c], e.prio, t, e.dh)
		}
	}
	om := &ordMsg{BitSwapMessage: m, order: order}
	var merged []mEntry
	for _, e := range om.Wantlist() {
		merged = append(merged, mEntry{c: cidIdx(e.Cid), prio: e.Priority, have: e.WantType == pb.Message_Wantlist_Have, dh: e.SendDontHave, cancel: e.Cancel})
	}
	return om, merged
}

// ---- engine under test ------------------------------------------------------

type noTagger struct{}

func (noTagger) TagPeer(peer.ID, string, int) {}
func (noTagger) UntagPeer(peer.ID, string)    {}

type noScore struct{}

func (noScore) GetReceipt(p peer.ID) *decision.Receipt { return &decision.Receipt{Peer: p.String()} }
func (noScore) AddToSentBytes(peer.ID, int)            {}
func (noScore) AddToReceivedBytes(peer.ID, int)        {}
func (noScore) PeerConnected(peer.ID)                  {}
func (noScore) PeerDisconnected(peer.ID)               {}
func (noScore) Start(decision.ScorePeerFunc)           {}
func (noScore) Stop()                                  {}

type world struct {
	cfg   config
	bs    blockstore.Blockstore
	e     *decision.Engine
	ids   [2]peer.ID
	store [nCids]bool
}

func newWorld(cfg config) *world {
	w := &world{cfg: cfg}
	w.bs = blockstore.NewBlockstore(dssync.MutexWrap(ds.NewMapDatastore()))
	for _, c := range []int{cA, cB, cE, cD} {
		w.put(c)
	}
	if cfg.Zero {
		w.put(cZ)
	}
	w.ids = [2]peer.ID{"QmVerifPeerAlpha", "QmVerifPeerBeta"}
	w.e = decision.NewEngine(context.Background(), w.bs, noTagger{}, "QmVerifSelf",
		decision.WithScoreLedger(noScore{}),
		decision.WithTaskWorkerCount(1),
		decision.WithBlockstoreWorkerCount(1),
		decision.WithTargetMessageSize(cfg.T),
		decision.WithMaxQueuedWantlistEntriesPerPeer(uint(cfg.L)),
		decision.WithWantHaveReplaceSize(cfg.R),
		decision.WithMaxCidSize(36), // exactly the length of the pool's sha2-256 CIDv1s: the boundary value
		decision.WithPeerBlockRequestFilter(func(p peer.ID, c cid.Cid) bool {
			return permitted(w.role(p), cidIdx(c))
		}),
	)
	// the fair comparator's last layer is a per-engine random salted hash; bind
	// the peer roles to the two ids so that role cfg.Tie always wins it
	if w.e.VerifTiebreakLess(w.ids[0], w.ids[1]) != (cfg.Tie == 0) {
		w.ids[0], w.ids[1] = w.ids[1], w.ids[0]
	}
	return w
}

func (w *world) put(c int) {
	if err := w.bs.Put(context.Background(), poolBlks[c]); err != nil {
		panic(err)
	}
	w.store[c] = true
}

func (w *world) del(c int) {
	if err := w.bs.DeleteBlock(context.Background(), poolCids[c]); err != nil {
		panic(err)
	}
	w.store[c] = false
}

func (w *world) role(p peer.ID) int {
	for i, id := range w.ids {
		if id == p {
			return i
		}
	}
	return -1
}

func (w *world) pname(p peer.ID) string {
	if r := w.role(p); r >= 0 {
		return fmt.Sprintf("p%d", r+1)
	}
	return "p?"
}

// serves: the block is in the store and the filter lets this peer have it.
func (w *world) serves(role, c int) bool {
	return c >= 0 && c < nCids && w.store[c] && permitted(role, c)
}

type lent struct {
	prio int32
	have bool
}

// ledger returns the engine's want-list of one peer (peers[p] side of the ledger).
func (w *world) ledger(role int) map[int]lent {
	out := map[int]lent{}
	for _, en := range w.e.WantlistForPeer(w.ids[role]) {
		out[cidIdx(en.Cid)] = lent{en.Priority, en.WantType == pb.Message_Wantlist_Have}
	}
	return out
}

func fmtLedger(m map[int]lent) string {
	ks := make([]int, 0, len(m))
	for k := range m {
		ks = append(ks, k)
	}
	sort.Ints(ks)
	var sb strings.Builder
	for _, k := range ks {
		t := "b"
		if m[k].have {
			t = "h"
		}
		fmt.Fprintf(&sb, "%s%s%d ", t, cname(k), m[k].prio)
	}
	return "{" + strings.TrimSpace(sb.String()) + "}"
}
