//go:build verif

package peertaskqueue

import (
	"sort"
	"strings"

	"github.com/ipfs/boxo/verifshim/third/peertask"
	"github.com/ipfs/boxo/verifshim/third/peertracker"
	"github.com/libp2p/go-libp2p/core/peer"
)

// VerifDump renders the complete queue state canonically (read-only; called at
// quiescence by the C36 harness, no locking).
func (ptq *PeerTaskQueue) VerifDump(name func(peer.ID) string, topic func(peertask.Topic) string, data func(peertask.Data) string, base int64) string {
	ps := make([]peer.ID, 0, len(ptq.peerTrackers))
	for p := range ptq.peerTrackers {
		ps = append(ps, p)
	}
	sort.Slice(ps, func(i, j int) bool { return name(ps[i]) < name(ps[j]) })
	var sb strings.Builder
	for _, p := range ps {
		sb.WriteString(name(p) + "{" + ptq.peerTrackers[p].VerifDump(topic, data, base) + "}")
	}
	fz := make([]string, 0, len(ptq.frozenPeers))
	for p := range ptq.frozenPeers {
		fz = append(fz, name(p))
	}
	sort.Strings(fz)
	sb.WriteString("frozen=" + strings.Join(fz, ","))
	return sb.String()
}

// VerifTracker returns the tracker of p or nil (read-only).
func (ptq *PeerTaskQueue) VerifTracker(p peer.ID) *peertracker.PeerTracker {
	return ptq.peerTrackers[p]
}
