//go:build verif

package peertask

// VerifCreated returns the creation stamp of a queued task (read-only accessor for the C36 state key).
func (pt *QueueTask) VerifCreated() int64 { return pt.created.UnixNano() }
