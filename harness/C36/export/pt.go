//go:build verif

package peertracker

import (
	"fmt"
	"sort"
	"strings"

	"github.com/ipfs/boxo/verifshim/third/peertask"
)

// VerifDump renders the complete state of one peer tracker canonically
// (read-only; called at quiescence by the C36 harness, no locking).
// Pending tasks are listed in heap-array order because ties between equal
// priorities are broken by heap position.
func (p *PeerTracker) VerifDump(topic func(peertask.Topic) string, data func(peertask.Data) string, base int64) string {
	var sb strings.Builder
	fmt.Fprintf(&sb, "idx=%d frz=%d aw=%d pend[", p.index, p.freezeVal, p.activeWork)
	qs := make([]*peertask.QueueTask, 0, len(p.pendingTasks))
	for _, q := range p.pendingTasks {
		qs = append(qs, q)
	}
	sort.Slice(qs, func(i, j int) bool { return qs[i].Index() < qs[j].Index() })
	for _, q := range qs {
		fmt.Fprintf(&sb, "%d:%s/p%d/w%d/t%d/%s ", q.Index(), topic(q.Topic), q.Priority, q.Work, q.VerifCreated()-base, data(q.Data))
	}
	fmt.Fprintf(&sb, "]qlen=%d act[", p.taskQueue.Len())
	var as []string
	for t, ts := range p.activeTasks {
		for _, tk := range ts {
			as = append(as, fmt.Sprintf("%s/p%d/w%d/%s", topic(t), tk.Priority, tk.Work, data(tk.Data)))
		}
	}
	sort.Strings(as)
	sb.WriteString(strings.Join(as, " "))
	sb.WriteString("]")
	return sb.String()
}

// VerifPending returns the pending tasks (read-only).
func (p *PeerTracker) VerifPending() []*peertask.QueueTask {
	qs := make([]*peertask.QueueTask, 0, len(p.pendingTasks))
	for _, q := range p.pendingTasks {
		qs = append(qs, q)
	}
	sort.Slice(qs, func(i, j int) bool { return qs[i].Index() < qs[j].Index() })
	return qs
}

// VerifActive returns the active tasks (read-only).
func (p *PeerTracker) VerifActive() []*peertask.Task {
	var out []*peertask.Task
	for _, ts := range p.activeTasks {
		out = append(out, ts...)
	}
	return out
}
