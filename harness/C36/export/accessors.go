//go:build verif

package decision

import (
	"fmt"
	"hash/maphash"
	"sort"
	"strings"
	"sync/atomic"

	"github.com/ipfs/go-cid"
	"github.com/ipfs/go-peertaskqueue"
	"github.com/ipfs/go-peertaskqueue/peertask"
	"github.com/libp2p/go-libp2p/core/peer"
)

// Read-only accessors for the C36 harness. They are called from the harness
// thread at quiescence only and take no locks.

// VerifTiebreakLess reports how the fair peer comparator's salted-hash layer
// orders a before b for this engine instance (the seed is random per engine;
// the harness assigns its peer roles accordingly to stay deterministic).
func (e *Engine) VerifTiebreakLess(a, b peer.ID) bool {
	return maphash.String(e.scheduler.tiebreakSeed, string(a)) < maphash.String(e.scheduler.tiebreakSeed, string(b))
}

// VerifQueue returns the peer request queue.
func (e *Engine) VerifQueue() *peertaskqueue.PeerTaskQueue { return e.peerRequestQueue }

// VerifTaskData decodes the engine's task payload.
func VerifTaskData(d peertask.Data) (isWantBlock, sendDontHave, haveBlock bool, blockSize int) {
	td := d.(*taskData)
	return td.IsWantBlock, td.SendDontHave, td.HaveBlock, td.BlockSize
}

// VerifLedgerEntry is one (peer, cid) want of the peer ledger.
type VerifLedgerEntry struct {
	Peer     peer.ID
	Cid      cid.Cid
	Priority int32
	WantHave bool
}

// VerifLedger dumps both inverted maps of the peer ledger: byPeer from
// peers[p][c], byCid from cids[c][p], and the peers that have a (possibly
// empty) entry map.
func (e *Engine) VerifLedger() (byPeer, byCid []VerifLedgerEntry, peers []peer.ID) {
	for p, m := range e.peerLedger.peers {
		peers = append(peers, p)
		for c, en := range m {
			byPeer = append(byPeer, VerifLedgerEntry{p, c, en.Priority, en.WantType != 0})
		}
	}
	for c, m := range e.peerLedger.cids {
		for p, en := range m {
			byCid = append(byCid, VerifLedgerEntry{p, c, en.Priority, en.WantType != 0})
		}
	}
	return
}

// VerifServed returns the fair scheduler's last-served stamps relative to base.
func (e *Engine) VerifServed(name func(peer.ID) string, base int64) string {
	var out []string
	e.scheduler.lastServedAt.Range(func(k, v any) bool {
		out = append(out, fmt.Sprintf("%s@%d", name(k.(peer.ID)), v.(*atomic.Int64).Load()-base))
		return true
	})
	sort.Strings(out)
	return strings.Join(out, ",")
}

// VerifWorkSignal reports whether a work signal is buffered.
func (e *Engine) VerifWorkSignal() int { return len(e.workSignal) }
