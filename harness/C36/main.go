//go:build verif

package main

import (
	"encoding/json"
	"fmt"
	"os"
	"strings"

	"github.com/ipfs/boxo/verifshim/eng"
	"github.com/ipfs/boxo/verifshim/vexp"
)

// seqPlans: configurations of the sequential exploration and their depth bounds.
func seqPlans(thorough bool) []seqPlan {
	var out []seqPlan
	d := 3
	if thorough {
		d = 4
	}
	for _, L := range []int{1, 2, 3} {
		out = append(out, seqPlan{config{L: L, R: 16, T: 44}, d}, seqPlan{config{L: L, R: 0, T: 1}, d})
	}
	out = append(out, seqPlan{config{L: 2, R: 16, T: 44, Zero: true}, d + 1})
	// one configuration one level deeper (thorough: the three r16-t44 configurations)
	out[2].depth = d + 1 // L2-r16-t44
	if thorough {
		out[0].depth, out[4].depth = d+1, d+1 // L1-r16-t44, L3-r16-t44
	}
	if thorough {
		// the other pairing of replace size and target message size, other tiebreak winner
		out = append(out, seqPlan{config{L: 1, R: 16, T: 1, Tie: 1}, 4}, seqPlan{config{L: 2, R: 0, T: 44, Tie: 1}, 4}, seqPlan{config{L: 3, R: 16, T: 1, Tie: 1}, 4})
		out = append(out, seqPlan{config{L: 1, R: 0, T: 1, Zero: true}, 5})
		out = append(out, seqPlan{config{L: 2, R: 16, T: 44, Wide: true, Tie: 1}, 4}, seqPlan{config{L: 3, R: 0, T: 1, Wide: true}, 4})
	}
	return out
}

func main() {
	eng.WorkerMain = func() {
		if os.Getenv("VERIF_C36_WORKER") == "seq" {
			seqWorkerMain()
			return
		}
		vexp.Register(concScenarios(false)...)
		eng.WorkerMain()
	}
	eng.Main("C36", "model_checking", func(r *eng.Run) {
		// debugging aid: VERIF_C36_SCRIPT="L2-r16-t44-z0-tie0-w0;r1:bA1 pull sent" runs one script and prints its log
		if s := os.Getenv("VERIF_C36_SCRIPT"); s != "" {
			parts := strings.SplitN(s, ";", 2)
			var ops []string
			if len(parts) > 1 && parts[1] != "" {
				ops = strings.Split(parts[1], " ")
			}
			replaySeq(r, seqReplay{"seq", parts[0], ops})
			r.Incomplete("single script (debug)")
			return
		}
		r.Rule("sequential part: breadth-first search over ALL scripts of operations (MessageReceived from a menu of wantlist messages for 2 peers, NotifyNewBlocks, blockstore delete, receiver takes the next envelope, envelope sent, PeerDisconnected) up to the depth bound, each script replayed on a fresh real engine under the controlled scheduler with all workers run to quiescence after every operation, states merged on a complete key; a script is non-trivial when it has >= 2 operations and reaches a new state. Concurrent part: all schedules with at most B deviations from the default schedule of small scenarios with concurrent MessageReceived / NotifyNewBlocks / receiver threads")
		r.Assume("vsched models channels, select, sync and timers faithfully; the in-memory blockstore is synchronous")
		r.Assume("the order of Wantlist() entries of a message (a Go map iteration in the real type) is fixed to wire order by a wrapper; the orders that matter are separate menu entries")
		r.Assume("overlapping concurrent calls may take effect in either order")
		plans := seqPlans(r.Thorough())
		if os.Getenv("VERIF_C36_DEPTH") != "" {
			var depth int
			fmt.Sscan(os.Getenv("VERIF_C36_DEPTH"), &depth)
			for i := range plans {
				plans[i].depth = depth
			}
		}
		if os.Getenv("VERIF_C36_NOSEQ") == "" {
			exploreSeq(r, plans)
		}
		if scs := concScenarios(r.Thorough()); len(scs) > 0 && os.Getenv("VERIF_C36_NOCONC") == "" {
			vexp.Explore(r, scs, vexp.Options{Bound: eng.Pick(r, 1, 2), Workers: eng.Pick(r, 8, 0)})
		}
	}, func(r *eng.Run, raw json.RawMessage) {
		var probe struct {
			Mode string `json:"mode"`
		}
		json.Unmarshal(raw, &probe)
		if probe.Mode == "seq" {
			var rp seqReplay
			json.Unmarshal(raw, &rp)
			replaySeq(r, rp)
			return
		}
		vexp.Replay(r, concScenarios(r.Thorough()), raw)
	})
}
