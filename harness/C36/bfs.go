//go:build verif

package main

import (
	"bufio"
	"crypto/sha256"
	"encoding/json"
	"fmt"
	"os"
	"os/exec"
	"runtime"
	"sort"
	"strings"
	"sync"

	"github.com/ipfs/boxo/verifshim/eng"
)

// Sequential part: breadth-first search over ALL operation scripts up to a
// depth, every script replayed from a fresh engine inside the controlled
// scheduler; states are merged on a complete key (model + ledger + task queue
// + scheduler stamps + receiver state). The scheduler is process-global, so
// scripts are executed in worker subprocesses.

// opMenu is the operation alphabet of a configuration.
func opMenu(cfg config) []string {
	// priorities are unique per CID (A=1 or 5, B=2, C=3, E=4): the engine orders wants of equal
	// priority by Go map iteration, which would make executions irreproducible
	p1 := []string{
		"bA1",          // want-block, present small
		"hB2!",         // want-have, present large, send_dont_have
		"hA1",          // want-have small (answered by the block when replace size >= 4)
		"bC3!",         // absent, wants DONT_HAVE
		"bC3",          // absent, silent
		"bE4",          // present, high priority
		"bB2",          // present, middle priority
		"hD5!",         // denied by the filter (want-have), wants DONT_HAVE
		"xA",           // cancel
		"xB",           // cancel
		"xC",           // cancel of an absent want
		"F:bB2",        // full want-list: replaces everything
		"F:",           // full and empty: the peer wants nothing any more
		"bA1,bB2,bC3!", // three wants in one message, ascending priority (overflow / cut at the limit for L < 3)
		"bE4,bB2",      // two wants, descending priority
		"bE4,xA",       // want and cancel mixed
		"hA1,bA1",      // duplicate CID on the wire: merged to one want-block
		"bI1,bO1,bE4",  // identity and oversize CIDs are ignored, E is served
	}
	p2 := []string{"bA1", "bC3!", "hD2", "xA"}
	if cfg.Zero {
		p1 = []string{"bZ2!", "hZ2", "bA1", "xZ", "bB3"}
		p2 = []string{"bZ2"}
	}
	if cfg.Wide {
		p1 = append(p1, "bD5!", "bA5", "bE4,bA1", "F:bE4,bC3!")
	}
	var ops []string
	for _, m := range p1 {
		ops = append(ops, "r1:"+m)
	}
	for _, m := range p2 {
		ops = append(ops, "r2:"+m)
	}
	ops = append(ops, "pull", "sent", "new:C", "ann:A", "del:A", "del:B", "d1", "d2")
	return ops
}

type seqItem struct {
	Cfg  string   `json:"cfg"`
	Key  [16]byte `json:"key"` // state key of Path as first computed
	Path []string `json:"path"`
	Ops  []string `json:"ops"` // extensions to try
}

type seqChild struct {
	Op      string           `json:"op"`
	Key     [16]byte         `json:"key"`
	PreKey  [16]byte         `json:"prekey"` // state key before the last operation (must equal the parent's key)
	Enabled []string         `json:"enabled"`
	Viols   []*eng.Violation `json:"viols,omitempty"`
	Fatal   bool             `json:"fatal,omitempty"`
	Outcome string           `json:"outcome"`
	Cov     map[string]int   `json:"cov"`
	Verdict string           `json:"verdict"`
}

type seqReply struct {
	Children []seqChild `json:"children"`
}

type seqReplay struct {
	Mode string   `json:"mode"`
	Cfg  string   `json:"cfg"`
	Ops  []string `json:"ops"`
}

func h16(s string) (o [16]byte) {
	h := sha256.Sum256([]byte(s))
	copy(o[:], h[:16])
	return
}

func execChild(cfg config, path []string, op string) seqChild {
	p := append(append(make([]string, 0, len(path)+1), path...), op)
	if op == "" {
		p = path
	}
	x, res := runSeq(cfg, p, false)
	ch := seqChild{Op: op, Enabled: x.enabled, Cov: x.cov, Verdict: res.Verdict}
	ch.Fatal = x.fatal
	for _, v := range x.viols {
		v.Detail += "\n  script (config " + cfg.String() + "): " + strings.Join(p, " ") + "\n  " + strings.Join(x.log, "\n  ")
		v.Replay = seqReplay{"seq", cfg.String(), p}
		if v.Features == nil {
			v.Features = map[string]string{}
		}
		ch.Viols = append(ch.Viols, v)
		ch.Outcome += "viol:" + v.Symptom + ";"
	}
	ch.Key = h16(x.key)
	ch.PreKey = h16(x.preKey)
	ch.Outcome += x.outcomeString()
	return ch
}

func seqWorkerMain() {
	runtime.GOMAXPROCS(2)
	in := bufio.NewReaderSize(os.Stdin, 1<<20)
	out := bufio.NewWriter(os.Stdout)
	for {
		line, err := in.ReadBytes('\n')
		if len(line) > 1 {
			var it seqItem
			if e := json.Unmarshal(line, &it); e != nil {
				fmt.Fprintln(os.Stderr, "seq worker: bad item:", e)
				os.Exit(2)
			}
			cfg, e := parseConfig(it.Cfg)
			if e != nil {
				fmt.Fprintln(os.Stderr, "seq worker: bad config:", e)
				os.Exit(2)
			}
			var rep seqReply
			for _, op := range it.Ops {
				rep.Children = append(rep.Children, execChild(cfg, it.Path, op))
			}
			b, _ := json.Marshal(rep)
			out.Write(b)
			out.WriteByte('\n')
			out.Flush()
		}
		if err != nil {
			return
		}
	}
}

// pool of persistent worker subprocesses (the binary is large; starting it is expensive)
type seqJob struct {
	it   seqItem
	done func(seqReply)
}

type seqPool struct {
	n    int
	jobs chan seqJob
	wg   sync.WaitGroup
}

func newSeqPool(n int) *seqPool {
	sp := &seqPool{n: n, jobs: make(chan seqJob, 1024)}
	bin := os.Getenv("VERIF_BIN")
	if bin == "" || n <= 1 {
		sp.n = 1
		sp.wg.Add(1)
		go func() {
			defer sp.wg.Done()
			for j := range sp.jobs {
				cfg, _ := parseConfig(j.it.Cfg)
				var rep seqReply
				for _, op := range j.it.Ops {
					rep.Children = append(rep.Children, execChild(cfg, j.it.Path, op))
				}
				j.done(rep)
			}
		}()
		return sp
	}
	for w := 0; w < n; w++ {
		sp.wg.Add(1)
		go func() {
			defer sp.wg.Done()
			cmd := exec.Command(bin, "-worker")
			cmd.Stderr = os.Stderr
			cmd.Env = append(os.Environ(), "GOMAXPROCS=2", "VERIF_C36_WORKER=seq")
			stdin, _ := cmd.StdinPipe()
			stdout, _ := cmd.StdoutPipe()
			if err := cmd.Start(); err != nil {
				fmt.Fprintln(os.Stderr, "cannot start worker:", err)
				os.Exit(2)
			}
			rd := bufio.NewReaderSize(stdout, 1<<22)
			for j := range sp.jobs {
				b, _ := json.Marshal(j.it)
				stdin.Write(append(b, '\n'))
				line, err := rd.ReadBytes('\n')
				if err != nil {
					fmt.Fprintf(os.Stderr, "seq worker died on item %s: %v\n", b, err)
					os.Exit(2)
				}
				var rep seqReply
				if e := json.Unmarshal(line, &rep); e != nil {
					fmt.Fprintln(os.Stderr, "bad seq worker reply:", e)
					os.Exit(2)
				}
				j.done(rep)
			}
			stdin.Close()
			cmd.Wait()
		}()
	}
	return sp
}

func (sp *seqPool) close() { close(sp.jobs); sp.wg.Wait() }

// run executes all items; handle is called serially.
func (sp *seqPool) run(items []seqItem, handle func(it seqItem, rep seqReply), stop func() bool) {
	var mu sync.Mutex
	var wg sync.WaitGroup
	for _, it := range items {
		if stop() {
			break
		}
		it := it
		wg.Add(1)
		sp.jobs <- seqJob{it, func(rep seqReply) {
			mu.Lock()
			handle(it, rep)
			mu.Unlock()
			wg.Done()
		}}
	}
	wg.Wait()
}

type seqNode struct {
	path    []string
	enabled []string
	key     [16]byte
}

func lessPath(a, b []string) bool {
	if len(a) != len(b) {
		return len(a) < len(b)
	}
	for i := range a {
		if a[i] != b[i] {
			return a[i] < b[i]
		}
	}
	return false
}

// exploreSeq runs the BFS, level by level over all configurations at once.
type seqPlan struct {
	cfg   config
	depth int
}

func exploreSeq(r *eng.Run, plans []seqPlan) {
	depth := 0
	var cfgs []config
	depthOf := map[string]int{}
	for _, p := range plans {
		cfgs = append(cfgs, p.cfg)
		depthOf[p.cfg.String()] = p.depth
		if p.depth > depth {
			depth = p.depth
		}
	}
	pool := newSeqPool(runtime.NumCPU())
	defer pool.close()
	type cstate struct {
		cfg      config
		seen     map[[16]byte]struct{}
		frontier []seqNode
		states   int
		runs     int
		done     int
	}
	cov := map[string]int{}
	nondet := 0
	var cs []*cstate
	for _, cfg := range cfgs {
		c := &cstate{cfg: cfg, seen: map[[16]byte]struct{}{}}
		root := execChild(cfg, nil, "")
		c.runs++
		for _, v := range root.Viols {
			r.Report(v)
		}
		if !root.Fatal {
			c.seen[root.Key] = struct{}{}
			c.states = 1
			c.frontier = []seqNode{{nil, root.Enabled, root.Key}}
		}
		cs = append(cs, c)
	}
	byName := map[string]*cstate{}
	for _, c := range cs {
		byName[c.cfg.String()] = c
	}
	type succ struct {
		key     [16]byte
		path    []string
		enabled []string
	}
	for d := 1; d <= depth; d++ {
		var items []seqItem
		for _, c := range cs {
			if depthOf[c.cfg.String()] < d {
				continue
			}
			for _, n := range c.frontier {
				items = append(items, seqItem{Cfg: c.cfg.String(), Key: n.key, Path: n.path, Ops: n.enabled})
			}
		}
		if len(items) == 0 {
			break
		}
		if r.Expired() {
			r.Incomplete(fmt.Sprintf("budget expired: sequential exploration completed to depth %d of %d", d-1, depth))
			break
		}
		succs := map[string][]succ{}
		pool.run(items, func(it seqItem, rep seqReply) {
			c := byName[it.Cfg]
			for _, ch := range rep.Children {
				c.runs++
				if ch.PreKey != it.Key {
					nondet++
				}
				for k, v := range ch.Cov {
					cov[k] += v
				}
				r.Outcome(ch.Op + "=>" + ch.Outcome)
				for _, v := range ch.Viols {
					r.Report(v)
				}
				if ch.Fatal {
					continue
				}
				p := append(append(make([]string, 0, len(it.Path)+1), it.Path...), ch.Op)
				succs[it.Cfg] = append(succs[it.Cfg], succ{ch.Key, p, ch.Enabled})
			}
		}, r.Expired)
		if r.Expired() {
			r.Incomplete(fmt.Sprintf("budget expired: sequential exploration completed to depth %d of %d", d-1, depth))
			break
		}
		for _, c := range cs {
			if depthOf[c.cfg.String()] < d {
				continue
			}
			ss := succs[c.cfg.String()]
			sort.Slice(ss, func(a, b int) bool { return lessPath(ss[a].path, ss[b].path) })
			var next []seqNode
			for _, s := range ss {
				if _, ok := c.seen[s.key]; ok {
					continue
				}
				c.seen[s.key] = struct{}{}
				c.states++
				next = append(next, seqNode{s.path, s.enabled, s.key})
				if len(s.path) >= 2 {
					r.Distinct(c.cfg.String() + "\x00" + strings.Join(s.path, "\x00"))
				}
			}
			if len(next) > 0 && d == depthOf[c.cfg.String()] {
				r.Sample(map[string]any{"config": c.cfg.String(), "ops": next[len(next)/2].path})
			}
			c.frontier = next
			c.done = d
		}
	}
	totalStates, totalRuns := 0, 0
	perCfg := map[string]any{}
	for _, c := range cs {
		perCfg[c.cfg.String()] = map[string]any{"states": c.states, "scripts_executed": c.runs, "depth_bound": depthOf[c.cfg.String()], "depth_completed": c.done, "frontier_at_depth_bound": len(c.frontier)}
		totalStates += c.states
		totalRuns += c.runs
	}
	r.Eval(totalRuns)
	r.States(totalStates)
	r.Transitions(totalRuns)
	r.Traces(totalRuns)
	r.Set("seq_depth_bound_max", depth)
	r.Set("seq_configs", perCfg)
	r.Set("seq_coverage", cov)
	r.Set("seq_replays_reaching_a_different_state", nondet)
	if nondet > 0 {
		r.Incomplete(fmt.Sprintf("%d script replays did not reproduce their prefix state (non-determinism in the code under test)", nondet))
	}
}

// replaySeq re-executes one recorded script with the step log printed.
func replaySeq(r *eng.Run, rp seqReplay) {
	cfg, err := parseConfig(rp.Cfg)
	if err != nil {
		fmt.Println("bad config:", err)
		return
	}
	x, res := runSeq(cfg, rp.Ops, os.Getenv("VERIF_C36_SCHEDTRACE") != "")
	fmt.Printf("  config %s script %v\n", rp.Cfg, rp.Ops)
	for _, l := range x.log {
		fmt.Println("  " + l)
	}
	if os.Getenv("VERIF_C36_SCHEDTRACE") != "" {
		for _, l := range res.Trace {
			fmt.Println("    | " + l)
		}
	}
	fmt.Printf("  verdict=%s\n", res.Verdict)
	r.Eval(1)
	for _, v := range x.viols {
		v.Replay = rp
		r.Report(v)
	}
	if len(x.viols) == 0 {
		fmt.Println("  replay: no violation")
	}
}
