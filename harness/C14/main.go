//go:build verif

// C14: ApplyChange(a, Diff(a, b)) has b's CID; Diff(a, a) is empty.
//
// Engine E2: bounded-exhaustive enumeration of ordered pairs of dag-pb
// directory trees executed on the real Diff / ApplyChange / Editor code.
//
//	family "all":   ALL directory trees of depth <= D over a small name set with
//	                leaves {file x, file y} and directories -> all ordered pairs
//	family "meta":  same, but directories come in two Data variants (plain and
//	                with a UnixFS mtime) -> all ordered pairs at a smaller depth
//	family "edits": one deep base tree (depth 4, root fan-out 6); a and b range
//	                over ALL trees obtained from it by <= k edits drawn from a
//	                fixed edit alphabet (remove / replace by file / replace by
//	                directory / add, at every depth)
package main

import (
	"context"
	"encoding/json"
	"fmt"
	"sort"
	"strings"
	"sync"
	"sync/atomic"
	"time"

	dag "github.com/ipfs/boxo/ipld/merkledag"
	"github.com/ipfs/boxo/ipld/merkledag/dagutils"
	ft "github.com/ipfs/boxo/ipld/unixfs"
	"github.com/ipfs/boxo/verifshim/eng"
	cid "github.com/ipfs/go-cid"
	ipld "github.com/ipfs/go-ipld-format"
)

// ---------- tree model ----------

// T is an immutable model tree: a file (no children) or a directory.
type T struct {
	Dir  bool
	V    int           // file: content index; dir: Data variant (0 plain, 1 with mtime)
	Kids map[string]*T // dir only
	key  string
}

func file(v int) *T { t := &T{V: v}; t.key = fmt.Sprintf("f%d", v); return t }

func dir(v int, kids map[string]*T) *T {
	t := &T{Dir: true, V: v, Kids: kids}
	names := make([]string, 0, len(kids))
	for n := range kids {
		names = append(names, n)
	}
	sort.Strings(names)
	var sb strings.Builder
	fmt.Fprintf(&sb, "d%d{", v)
	for i, n := range names {
		if i > 0 {
			sb.WriteByte(',')
		}
		sb.WriteString(n + ":" + kids[n].key)
	}
	sb.WriteByte('}')
	t.key = sb.String()
	return t
}

func (t *T) names() []string {
	ns := make([]string, 0, len(t.Kids))
	for n := range t.Kids {
		ns = append(ns, n)
	}
	sort.Strings(ns)
	return ns
}

// parse reads the canonical key back (used by replay).
func parse(s string) (*T, string) {
	if s[0] == 'f' {
		i := 1
		for i < len(s) && s[i] >= '0' && s[i] <= '9' {
			i++
		}
		var v int
		fmt.Sscanf(s[1:i], "%d", &v)
		return file(v), s[i:]
	}
	// d<v>{name:sub,...}
	i := 1
	for s[i] != '{' {
		i++
	}
	var v int
	fmt.Sscanf(s[1:i], "%d", &v)
	rest := s[i+1:]
	kids := map[string]*T{}
	for rest[0] != '}' {
		if rest[0] == ',' {
			rest = rest[1:]
		}
		j := strings.IndexByte(rest, ':')
		name := rest[:j]
		var k *T
		k, rest = parse(rest[j+1:])
		kids[name] = k
	}
	return dir(v, kids), rest[1:]
}

var mtime = time.Unix(1700000000, 0)

func nodeData(t *T) []byte {
	if !t.Dir {
		content := []byte{byte('x' + t.V)}
		return ft.FilePBData(content, uint64(len(content)))
	}
	if t.V == 0 {
		return ft.FolderPBData()
	}
	return ft.FolderPBDataWithStat(0, mtime)
}

// builder turns model trees into ProtoNodes (memoised by key) and remembers
// every node so that a DAG service can be populated.
type builder struct {
	v1    bool
	nodes map[string]*dag.ProtoNode
	byCid map[string]*T
	cids  map[string]cid.Cid
	order []string
}

func newBuilder(v1 bool) *builder {
	return &builder{v1: v1, nodes: map[string]*dag.ProtoNode{}, byCid: map[string]*T{}, cids: map[string]cid.Cid{}}
}

func (b *builder) build(t *T) *dag.ProtoNode {
	if n, ok := b.nodes[t.key]; ok {
		return n
	}
	n := dag.NodeWithData(nodeData(t))
	if b.v1 {
		if err := n.SetCidBuilder(dag.V1CidPrefix()); err != nil {
			panic(err)
		}
	}
	for _, name := range t.names() {
		if err := n.AddNodeLink(name, b.build(t.Kids[name])); err != nil {
			panic(err)
		}
	}
	n.Cid()
	b.nodes[t.key] = n
	b.byCid[n.Cid().KeyString()] = t
	b.cids[t.key] = n.Cid()
	b.order = append(b.order, t.key)
	return n
}

// cidOf is read-only after the build phase (safe for concurrent use).
func (b *builder) cidOf(t *T) cid.Cid {
	c, ok := b.cids[t.key]
	if !ok {
		panic("harness: tree not built: " + t.key)
	}
	return c
}

// newDS creates a DAG service holding every node built so far.
func (b *builder) newDS() ipld.DAGService {
	ds := dagutils.NewMemoryDagService()
	ctx := context.Background()
	for _, k := range b.order {
		// decode a private copy: ProtoNode caches are not goroutine-safe
		n, err := dag.DecodeProtobuf(b.nodes[k].RawData())
		if err != nil {
			panic(err)
		}
		if b.v1 {
			n.SetCidBuilder(dag.V1CidPrefix())
		}
		if err := ds.Add(ctx, n); err != nil {
			panic(err)
		}
	}
	return ds
}

// ---------- enumeration of all trees ----------

func allNodes(depth int, names []string, files, dirVariants int) []*T {
	return allNodesV(depth, names, files, func(int) int { return dirVariants })
}

// allNodesV: dirVariants(d) = number of directory Data variants for a directory
// that may still have d levels below it.
func allNodesV(depth int, names []string, files int, dirVariantsAt func(depth int) int) []*T {
	dirVariants := dirVariantsAt(depth)
	var out []*T
	for v := 0; v < files; v++ {
		out = append(out, file(v))
	}
	var sub []*T
	if depth > 0 {
		sub = allNodesV(depth-1, names, files, dirVariantsAt)
	}
	for dv := 0; dv < dirVariants; dv++ {
		if depth == 0 {
			out = append(out, dir(dv, map[string]*T{}))
			continue
		}
		// every name: absent or one of sub
		idx := make([]int, len(names)) // 0 = absent, i>0 = sub[i-1]
		for {
			kids := map[string]*T{}
			for i, n := range names {
				if idx[i] > 0 {
					kids[n] = sub[idx[i]-1]
				}
			}
			out = append(out, dir(dv, kids))
			k := 0
			for k < len(idx) {
				idx[k]++
				if idx[k] <= len(sub) {
					break
				}
				idx[k] = 0
				k++
			}
			if k == len(idx) {
				break
			}
		}
	}
	return out
}

func dirsOnly(ts []*T) []*T {
	var out []*T
	for _, t := range ts {
		if t.Dir {
			out = append(out, t)
		}
	}
	return out
}

// ---------- edit family ----------

type edit struct {
	Path string
	To   *T // nil = remove
}

func baseTree() *T {
	f0, f1 := file(0), file(1)
	d := func(kids map[string]*T) *T { return dir(0, kids) }
	return d(map[string]*T{
		"a": d(map[string]*T{
			"a": d(map[string]*T{
				"a": d(map[string]*T{"a": f0, "b": f1}),
				"b": f0,
			}),
			"b": d(map[string]*T{"a": f1}),
			"c": f0,
		}),
		"b": d(map[string]*T{}),
		"c": f1,
		"d": f0,
		"e": d(map[string]*T{"a": f0}),
		"f": f1,
	})
}

// applyEdit returns t with the edit applied, or nil if the path runs through
// something that is not a directory (edit not applicable).
func applyEdit(t *T, path []string, to *T) *T {
	if !t.Dir {
		return nil
	}
	kids := map[string]*T{}
	for n, k := range t.Kids {
		kids[n] = k
	}
	if len(path) == 1 {
		if to == nil {
			if _, ok := kids[path[0]]; !ok {
				return nil
			}
			delete(kids, path[0])
		} else {
			kids[path[0]] = to
		}
		return dir(t.V, kids)
	}
	c, ok := kids[path[0]]
	if !ok {
		return nil
	}
	nc := applyEdit(c, path[1:], to)
	if nc == nil {
		return nil
	}
	kids[path[0]] = nc
	return dir(t.V, kids)
}

func editAlphabet(thorough bool) []edit {
	paths := []string{"a/a/a/a", "a/a/a/c", "a/a/b", "a/b/a", "a/a", "b/a", "c", "g", "e/a"}
	if thorough {
		paths = append(paths, "a/a/a/b", "a/c", "a/a/a", "e")
	}
	vals := []*T{nil, file(0), file(1), dir(0, map[string]*T{}), dir(0, map[string]*T{"a": file(0)})}
	var out []edit
	for _, p := range paths {
		for _, v := range vals {
			out = append(out, edit{p, v})
		}
	}
	return out
}

// variants returns all distinct trees reachable from base by <= k edits.
func variants(base *T, es []edit, k int) []*T {
	seen := map[string]*T{base.key: base}
	level := []*T{base}
	for i := 0; i < k; i++ {
		var next []*T
		for _, t := range level {
			for _, e := range es {
				nt := applyEdit(t, strings.Split(e.Path, "/"), e.To)
				if nt == nil {
					continue
				}
				if _, ok := seen[nt.key]; !ok {
					seen[nt.key] = nt
					next = append(next, nt)
				}
			}
		}
		level = next
	}
	keys := make([]string, 0, len(seen))
	for k := range seen {
		keys = append(keys, k)
	}
	sort.Strings(keys)
	out := make([]*T, len(keys))
	for i, k := range keys {
		out[i] = seen[k]
	}
	return out
}

// ---------- classification features ----------

// classify walks a and b the way a recursive differ has to: along common names
// whose subtrees differ. dataDiff: some visited pair has different node Data
// while at least one side has links (a change that the Change vocabulary can
// only express as a Mod of the whole entry). rootLeafless: the two roots
// differ and neither has links.
func classify(a, b *T) (dataDiff, rootLeafless bool, depth int) {
	if a.key == b.key {
		return
	}
	if len(a.Kids) == 0 && len(b.Kids) == 0 {
		rootLeafless = true
		return
	}
	var rec func(a, b *T, d int)
	rec = func(a, b *T, d int) {
		if a.key == b.key {
			return
		}
		if d > depth {
			depth = d
		}
		if len(a.Kids) == 0 && len(b.Kids) == 0 {
			return
		}
		if a.Dir != b.Dir || a.V != b.V {
			dataDiff = true
		}
		for n, ka := range a.Kids {
			if kb, ok := b.Kids[n]; ok {
				rec(ka, kb, d+1)
			}
		}
	}
	rec(a, b, 0)
	return
}

// modelApply applies the reported changes to the model tree a. ok=false when a
// change is not applicable to a directory tree (e.g. Add below a file).
func modelApply(a *T, cs []*dagutils.Change, byCid map[string]*T) (*T, string) {
	cur := a
	for _, c := range cs {
		if c.Path == "" && c.Type == dagutils.Mod {
			// a Mod of the root itself: the root is replaced
			t, ok := byCid[c.After.KeyString()]
			if !ok {
				return nil, "change refers to an unknown CID"
			}
			cur = t
			continue
		}
		p := strings.Split(c.Path, "/")
		var to *T
		if c.Type != dagutils.Remove {
			t, ok := byCid[c.After.KeyString()]
			if !ok {
				return nil, "change refers to an unknown CID"
			}
			to = t
		}
		// strict: intermediate path elements must be directories; Remove/Mod need the entry
		n := cur
		for _, el := range p[:len(p)-1] {
			k, ok := n.Kids[el]
			if !ok || !k.Dir {
				return nil, fmt.Sprintf("%s %q: %q is not a directory in the source", typeName(c.Type), c.Path, el)
			}
			n = k
		}
		_, exists := n.Kids[p[len(p)-1]]
		if c.Type != dagutils.Add && !exists {
			return nil, fmt.Sprintf("%s %q: no such entry", typeName(c.Type), c.Path)
		}
		nt := applyEdit(cur, p, to)
		if nt == nil {
			return nil, fmt.Sprintf("%s %q not applicable", typeName(c.Type), c.Path)
		}
		cur = nt
	}
	return cur, ""
}

func typeName(t dagutils.ChangeType) string {
	switch t {
	case dagutils.Add:
		return "Add"
	case dagutils.Remove:
		return "Remove"
	case dagutils.Mod:
		return "Mod"
	}
	return "?"
}

// ---------- one case ----------

type caseRec struct {
	Family string `json:"family"`
	V1     bool   `json:"cidv1"`
	A      string `json:"a"`
	B      string `json:"b"`
}

type stats struct {
	changes, nested, mods, adds, removes, empty, same atomic.Int64
	maxDepth                                         atomic.Int64
}

func runCase(r *eng.Run, st *stats, bl *builder, ds ipld.DAGService, fam string, a, b *T, verbose bool) {
	ctx := context.Background()
	ca, cb := bl.cidOf(a), bl.cidOf(b)
	rec := caseRec{fam, bl.v1, a.key, b.key}
	dataDiff, rootLeafless, depth := classify(a, b)
	feat := []string{"family", fam, "data_differs_on_descended_node", fmt.Sprint(dataDiff), "roots_differ_without_links", fmt.Sprint(rootLeafless), "same", fmt.Sprint(a.key == b.key)}
	report := func(sym, op, detail string, extra ...string) {
		v := eng.V(sym, op, detail+fmt.Sprintf("\n a=%s\n b=%s", a.key, b.key), append(append([]string{}, feat...), extra...)...)
		v.Replay = rec
		r.Report(v)
	}
	get := func(c cid.Cid) *dag.ProtoNode {
		n, err := ds.Get(ctx, c)
		if err != nil {
			panic(fmt.Sprintf("harness: tree node %s missing from DAG service: %v", c, err))
		}
		return n.(*dag.ProtoNode)
	}
	na, nb := get(ca), get(cb)
	var cs []*dagutils.Change
	var err error
	if pv := eng.Guard("Diff", func() { cs, err = dagutils.Diff(ctx, ds, na, nb) }); pv != nil {
		pv.Replay = rec
		r.Report(pv)
		return
	}
	if err != nil {
		report("diff-error", "Diff", err.Error())
		return
	}
	if verbose {
		for _, c := range cs {
			fmt.Printf("  change: %s\n", c.String())
		}
	}
	if a.key == b.key {
		st.same.Add(1)
		if len(cs) != 0 {
			report("diff-of-identical-not-empty", "Diff", fmt.Sprintf("Diff(a,a) returned %d changes", len(cs)))
		}
		r.Outcome("same")
		// applying the empty diff must also be the identity
	}
	st.changes.Add(int64(len(cs)))
	if len(cs) == 0 {
		st.empty.Add(1)
	}
	oc := []string{}
	for _, c := range cs {
		switch c.Type {
		case dagutils.Add:
			st.adds.Add(1)
		case dagutils.Remove:
			st.removes.Add(1)
		case dagutils.Mod:
			st.mods.Add(1)
		}
		d := strings.Count(c.Path, "/") + 1
		if d > 1 {
			st.nested.Add(1)
		}
		for {
			m := st.maxDepth.Load()
			if int64(d) <= m || st.maxDepth.CompareAndSwap(m, int64(d)) {
				break
			}
		}
		oc = append(oc, fmt.Sprintf("%s@%d", typeName(c.Type), d))
	}
	sort.Strings(oc)
	r.Outcome(strings.Join(compress(oc), ","))
	_ = depth
	// is the change list itself a correct description (model level)?
	rootMod := false
	for _, c := range cs {
		if c.Type == dagutils.Mod && c.Path == "" {
			rootMod = true
		}
	}
	feat = append(feat, "root_mod_empty_path", fmt.Sprint(rootMod))
	mres, why := modelApply(a, cs, bl.byCid)
	sound := mres != nil && mres.key == b.key
	if mres != nil && !sound {
		why = "changes applied to the model tree give " + mres.key
	}
	// apply on the real code, to a fresh copy of a
	src := get(ca)
	var res *dag.ProtoNode
	if pv := eng.Guard("ApplyChange", func() { res, err = dagutils.ApplyChange(ctx, ds, src, cs) }); pv != nil {
		pv.Replay = rec
		pv.Features = map[string]string{"family": fam}
		r.Report(pv)
		return
	}
	if err != nil {
		report("apply-error", "ApplyChange", fmt.Sprintf("ApplyChange(a, Diff(a,b)) failed: %v; changes=%s; model: %s", err, changesString(cs), why), "diff_sound", fmt.Sprint(sound))
		return
	}
	if !res.Cid().Equals(cb) {
		got := "?"
		if t, ok := bl.byCid[res.Cid().KeyString()]; ok {
			got = t.key
		}
		report("applied-cid-mismatch", "ApplyChange", fmt.Sprintf("ApplyChange(a, Diff(a,b)) = %s (%s), want b = %s; changes=%s; model: %s", res.Cid(), got, cb, changesString(cs), why), "diff_sound", fmt.Sprint(sound))
		return
	}
	if !sound {
		// result is right although the model could not follow: harness model too strict?
		report("model-disagrees", "Diff", "real apply reproduced b but the model apply did not: "+why)
	}
}

func compress(xs []string) []string {
	var out []string
	for i := 0; i < len(xs); {
		j := i
		for j < len(xs) && xs[j] == xs[i] {
			j++
		}
		n := j - i
		if n > 3 {
			n = 3 // 3 = "many"
		}
		out = append(out, fmt.Sprintf("%s*%d", xs[i], n))
		i = j
	}
	return out
}

func changesString(cs []*dagutils.Change) string {
	s := []string{}
	for _, c := range cs {
		s = append(s, fmt.Sprintf("%s(%q)", typeName(c.Type), c.Path))
	}
	return "[" + strings.Join(s, " ") + "]"
}

// ---------- families ----------

type family struct {
	name string
	v1   bool
	as   []*T
	bs   []*T
}

func families(r *eng.Run) []family {
	th := r.Thorough()
	var fams []family
	ab := []string{"a", "b"}
	// all trees, depth <= 2, names {a,b}
	all2 := dirsOnly(allNodes(2, ab, 2, 1))
	fams = append(fams, family{"all-d2-ab", false, all2, all2})
	// directories with two Data variants
	meta1 := dirsOnly(allNodes(1, ab, 2, 2))
	fams = append(fams, family{"meta-d1-ab", false, meta1, meta1})
	// three names, depth 1
	abc1 := dirsOnly(allNodes(1, []string{"a", "b", "c"}, 2, 1))
	fams = append(fams, family{"all-d1-abc", false, abc1, abc1})
	base := baseTree()
	es := editAlphabet(th)
	v1 := variants(base, es, 1)
	v2 := variants(base, es, 2)
	if th {
		fams = append(fams, family{"edits-2x2", false, v2, v2})
		fams = append(fams, family{"all-d2-ab-cidv1", true, all2, all2})
		// depth 2, one file kind; empty leaf-level directories only in the plain variant
		meta2 := dirsOnly(allNodesV(2, ab, 1, func(d int) int {
			if d == 0 {
				return 1
			}
			return 2
		}))
		fams = append(fams, family{"meta-d2-ab-1file", false, meta2, meta2})
		// a single name, depth 3: long chains of directories with/without metadata
		meta3 := dirsOnly(allNodes(3, []string{"a"}, 2, 2))
		fams = append(fams, family{"meta-d3-a", false, meta3, meta3})
	} else {
		fams = append(fams, family{"edits-1x2", false, v1, v2})
		fams = append(fams, family{"edits-2x1", false, v2, v1})
		fams = append(fams, family{"meta-d1-ab-cidv1", true, meta1, meta1})
	}
	return fams
}

func main() {
	eng.Main("C14", "exploration", func(r *eng.Run) {
		r.Rule("ordered pairs (a,b) of dag-pb UnixFS directory trees; families: ALL trees of bounded depth over a name set (all ordered pairs), and ALL trees within <=k edits of a depth-4 base tree; a case is non-trivial when a != b; each case runs the real Diff and ApplyChange on a fresh copy of a and compares the result CID with b's; Diff(a,a) must be empty")
		r.Assume("link Tsizes are the honest cumulative sizes (trees are built with AddNodeLink), one CID version per pair")
		r.Assume("in-memory DAG service (blockstore/blockservice/offline exchange) is correct")
		var st stats
		sizes := map[string]any{}
		for _, fam := range families(r) {
			if r.Expired() {
				r.Incomplete("budget expired before family " + fam.name)
				break
			}
			bl := newBuilder(fam.v1)
			for _, t := range fam.as {
				bl.build(t)
			}
			for _, t := range fam.bs {
				bl.build(t)
			}
			for _, e := range editAlphabet(true) { // change targets must be resolvable by the model
				if e.To != nil {
					bl.build(e.To)
				}
			}
			pool := sync.Pool{New: func() any { return bl.newDS() }}
			na, nb := len(fam.as), len(fam.bs)
			sizes[fam.name] = map[string]int{"a_trees": na, "b_trees": nb, "pairs": na * nb, "distinct_nodes": len(bl.order)}
			var expired atomic.Bool
			eng.ParFor(na, func(i int) {
				if expired.Load() || r.Expired() {
					expired.Store(true)
					return
				}
				ds := pool.Get().(ipld.DAGService)
				for j := 0; j < nb; j++ {
					runCase(r, &st, bl, ds, fam.name, fam.as[i], fam.bs[j], false)
					if fam.as[i].key != fam.bs[j].key {
						r.Distinct(fam.as[i].key + "|" + fam.bs[j].key + fmt.Sprint(fam.v1))
					}
				}
				r.Eval(nb)
				pool.Put(ds)
			})
			if expired.Load() {
				r.Incomplete("budget expired inside family " + fam.name)
				break
			}
			if len(fam.as) > 2 {
				r.Sample(caseRec{fam.name, fam.v1, fam.as[len(fam.as)/2].key, fam.bs[len(fam.bs)/3].key})
			}
		}
		r.Set("families", sizes)
		r.Set("changes_total", st.changes.Load())
		r.Set("changes_nested_path", st.nested.Load())
		r.Set("changes_add", st.adds.Load())
		r.Set("changes_remove", st.removes.Load())
		r.Set("changes_mod", st.mods.Load())
		r.Set("max_change_path_depth", st.maxDepth.Load())
		r.Set("identical_pairs", st.same.Load())
		r.Set("empty_diffs", st.empty.Load())
	}, func(r *eng.Run, raw json.RawMessage) {
		var c caseRec
		if err := json.Unmarshal(raw, &c); err != nil {
			fmt.Println("bad replay:", err)
			return
		}
		a, _ := parse(c.A)
		b, _ := parse(c.B)
		bl := newBuilder(c.V1)
		bl.build(a)
		bl.build(b)
		for _, e := range editAlphabet(true) {
			if e.To != nil {
				bl.build(e.To)
			}
		}
		var st stats
		fmt.Printf("  a=%s\n  b=%s\n", a.key, b.key)
		runCase(r, &st, bl, bl.newDS(), c.Family, a, b, true)
		r.Eval(1)
		if r.ViolationCount() == 0 {
			fmt.Println("  replay: no new violation (see KNOWN-FINDING lines, if any)")
		}
	})
}
