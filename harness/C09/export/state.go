//go:build verif

package io

import (
	"fmt"
	"reflect"
)

// VerifReaderState renders the hidden cursor state of a dagReader: the file
// offset, the partially consumed leaf buffer (total length / remaining) and
// the walker position (depth and child indices along the active path).
// Read-only.
func VerifReaderState(r DagReader) string {
	dr, ok := r.(*dagReader)
	if !ok {
		return fmt.Sprintf("%T", r)
	}
	buf := "nil"
	if dr.currentNodeData != nil {
		buf = fmt.Sprintf("%d/%d", dr.currentNodeData.Len(), dr.currentNodeData.Size())
	}
	w := reflect.ValueOf(dr.dagWalker).Elem()
	depth := int(w.FieldByName("currentDepth").Int())
	ci := w.FieldByName("childIndex")
	idx := []uint64{}
	for i := 0; i <= depth && i < ci.Len(); i++ {
		idx = append(idx, ci.Index(i).Uint())
	}
	return fmt.Sprintf("off=%d buf=%s depth=%d idx=%v", dr.offset, buf, depth, idx)
}

// VerifReaderBuffered reports whether a leaf buffer is loaded and how many
// bytes remain in it.
func VerifReaderBuffered(r DagReader) (bool, int) {
	dr, ok := r.(*dagReader)
	if !ok || dr.currentNodeData == nil {
		return false, 0
	}
	return true, dr.currentNodeData.Len()
}
