//go:build verif

package main

import (
	"bytes"
	"context"
	"encoding/json"
	"fmt"
	"io"
	"sort"
	"strconv"
	"strings"
	"sync"

	chunker "github.com/ipfs/boxo/chunker"
	mdag "github.com/ipfs/boxo/ipld/merkledag"
	mdtest "github.com/ipfs/boxo/ipld/merkledag/test"
	ft "github.com/ipfs/boxo/ipld/unixfs"
	"github.com/ipfs/boxo/ipld/unixfs/importer/balanced"
	h "github.com/ipfs/boxo/ipld/unixfs/importer/helpers"
	"github.com/ipfs/boxo/ipld/unixfs/importer/trickle"
	uio "github.com/ipfs/boxo/ipld/unixfs/io"
	"github.com/ipfs/boxo/ipld/unixfs/mod"
	"github.com/ipfs/boxo/verifshim/eng"
	cid "github.com/ipfs/go-cid"
	ipld "github.com/ipfs/go-ipld-format"
)

// ---------------------------------------------------------------- file pool

type file struct {
	name    string
	origin  string // importer | modifier
	root    ipld.Node
	ds      ipld.DAGService
	content []byte
	chunk   int
	leaves  int
	sampled bool // big file: offsets/lengths are boundary samples, not the full range
	// a node with links that also carries inline file data (only the modifier
	// produces this, by appending to a single-block dag-pb file)
	branchInline bool
	err          error
}

func pattern(n int) []byte {
	b := make([]byte, n)
	for i := range b {
		b[i] = byte(1 + i%250) // never 0, so zero fill is distinguishable
	}
	return b
}

func splitGen(sz int) chunker.SplitterGen {
	return func(r io.Reader) chunker.Splitter { return chunker.NewSizeSplitter(r, int64(sz)) }
}

func importFile(ds ipld.DAGService, layout string, data []byte, chunk, maxlinks int, raw bool) (ipld.Node, error) {
	var pfx cid.Builder = mdag.V0CidPrefix()
	if raw {
		pfx = mdag.V1CidPrefix()
	}
	dbp := h.DagBuilderParams{Dagserv: ds, Maxlinks: maxlinks, RawLeaves: raw, CidBuilder: pfx}
	db, err := dbp.New(chunker.NewSizeSplitter(bytes.NewReader(data), int64(chunk)))
	if err != nil {
		return nil, err
	}
	if layout == "trickle" {
		return trickle.Layout(db)
	}
	return balanced.Layout(db)
}

// countLeaves walks the DAG with plain link resolution (not the code under test).
func countLeaves(ds ipld.DAGService, n ipld.Node) int {
	if len(n.Links()) == 0 {
		return 1
	}
	c := 0
	for _, l := range n.Links() {
		ch, err := l.GetNode(context.Background(), ds)
		if err != nil {
			panic(err)
		}
		c += countLeaves(ds, ch)
	}
	return c
}

// branchInline reports whether some node with links also has inline file data.
func branchInline(ds ipld.DAGService, n ipld.Node) bool {
	if len(n.Links()) == 0 {
		return false
	}
	if pn, ok := n.(*mdag.ProtoNode); ok {
		if fsn, err := ft.FSNodeFromBytes(pn.Data()); err == nil && len(fsn.Data()) > 0 {
			return true
		}
	}
	for _, l := range n.Links() {
		ch, err := l.GetNode(context.Background(), ds)
		if err != nil {
			panic(err)
		}
		if branchInline(ds, ch) {
			return true
		}
	}
	return false
}

// A modifier recipe: a fixed list of absolute edits, each flushed before the
// next one, whose intended content is computed on a byte slice here.
type edit struct {
	kind string // writeat | truncate
	off  int
	data []byte
}

func applyEdits(content []byte, eds []edit) []byte {
	c := append([]byte{}, content...)
	for _, e := range eds {
		switch e.kind {
		case "writeat":
			for len(c) < e.off+len(e.data) {
				c = append(c, 0)
			}
			copy(c[e.off:], e.data)
		case "truncate":
			for len(c) < e.off {
				c = append(c, 0)
			}
			c = c[:e.off]
		}
	}
	return c
}

func modFile(ds ipld.DAGService, base ipld.Node, maxlinks, chunk int, eds []edit) (ipld.Node, error) {
	ctx := context.Background()
	dm, err := mod.NewDagModifier(ctx, base, ds, splitGen(chunk))
	if err != nil {
		return nil, err
	}
	dm.MaxLinks = maxlinks
	for _, e := range eds {
		switch e.kind {
		case "writeat":
			if _, err := dm.WriteAt(e.data, int64(e.off)); err != nil {
				return nil, err
			}
			if err := dm.Sync(); err != nil {
				return nil, err
			}
		case "truncate":
			if err := dm.Truncate(int64(e.off)); err != nil {
				return nil, err
			}
		}
	}
	return dm.GetNode()
}

var (
	poolOnce sync.Once
	pool     []*file
	byName   = map[string]*file{}
)

func buildPool(thorough bool) {
	ds := mdtest.Mock()
	add := func(f *file) {
		f.ds = ds
		if f.err == nil {
			f.leaves = countLeaves(ds, f.root)
			f.branchInline = branchInline(ds, f.root)
		}
		pool = append(pool, f)
		byName[f.name] = f
	}
	imp := func(name, layout string, size, chunk, maxlinks int, raw bool) {
		data := pattern(size)
		nd, err := importFile(ds, layout, data, chunk, maxlinks, raw)
		add(&file{name: name, origin: "importer", root: nd, content: data, chunk: chunk, err: err})
	}
	modf := func(name string, baseLayout string, baseSize, baseChunk, maxlinks int, raw bool, modChunk int, eds []edit) {
		data := pattern(baseSize)
		base, err := importFile(ds, baseLayout, data, baseChunk, maxlinks, raw)
		var nd ipld.Node
		if err == nil {
			nd, err = modFile(ds, base, maxlinks, modChunk, eds)
		}
		add(&file{name: name, origin: "modifier", root: nd, content: applyEdits(data, eds), chunk: modChunk, err: err})
	}
	X := func(n int) []byte { return bytes.Repeat([]byte{0xF1}, n) }

	imp("empty-pb", "balanced", 0, 4, 2, false)
	imp("empty-raw", "balanced", 0, 4, 2, true)
	imp("single-pb", "balanced", 5, 8, 2, false)
	imp("single-raw", "balanced", 5, 8, 2, true)
	imp("balanced-w2", "balanced", 14, 3, 2, false)    // 5 leaves, depth 3, ragged tail
	imp("balanced-raw-w3", "balanced", 11, 2, 3, true) // 6 raw leaves
	imp("trickle-w2", "trickle", 17, 2, 2, false)      // 9 leaves, nested sub-tries
	imp("trickle-raw-w2", "trickle", 13, 3, 2, true)   // 5 raw leaves
	imp("balanced-w3", "balanced", 22, 4, 3, false)    // 6 leaves, 3 levels
	imp("trickle-w2-deep", "trickle", 25, 2, 2, false) // 13 leaves: depth-2 sub-tries
	// modifier products
	modf("mod-overwrite-append", "trickle", 12, 3, 2, false, 4, []edit{{"writeat", 4, X(3)}, {"writeat", 12, X(5)}, {"truncate", 15, nil}})
	modf("mod-trunc-boundary", "trickle", 12, 3, 2, false, 3, []edit{{"truncate", 6, nil}})
	modf("mod-sparse", "trickle", 0, 3, 2, false, 3, []edit{{"writeat", 5, X(2)}})
	modf("mod-raw-append", "balanced", 6, 8, 2, true, 4, []edit{{"writeat", 6, X(5)}})
	modf("mod-raw-overwrite", "trickle", 13, 3, 2, true, 3, []edit{{"writeat", 2, X(5)}, {"writeat", 11, X(1)}})
	modf("mod-inline-append", "balanced", 6, 8, 2, false, 4, []edit{{"writeat", 6, X(5)}})
	if thorough {
		imp("balanced-w2-deep", "balanced", 33, 2, 2, false) // 17 leaves, depth 6
		imp("trickle-w3-deep", "trickle", 41, 2, 3, true)    // 21 leaves
		modf("mod-trunc-to-zero", "trickle", 12, 3, 2, false, 3, []edit{{"truncate", 0, nil}})
		modf("mod-trunc-then-grow", "trickle", 17, 2, 2, false, 2, []edit{{"truncate", 7, nil}, {"writeat", 9, X(4)}})
		// systematic family: layout x width x leaf type x size (chunk 3)
		for _, layout := range []string{"balanced", "trickle"} {
			for _, w := range []int{2, 3, 4, 8} {
				for _, raw := range []bool{false, true} {
					for _, sz := range []int{1, 3, 4, 9, 16, 27} {
						lt := "pb"
						if raw {
							lt = "raw"
						}
						imp(fmt.Sprintf("fam-%s-w%d-%s-%d", layout, w, lt, sz), layout, sz, 3, w, raw)
					}
				}
			}
		}
		// one realistic-size file with the default chunker and fan-out
		data := pattern(3*256*1024 + 17)
		nd, err := importFile(ds, "balanced", data, 256*1024, h.DefaultLinksPerBlock, true)
		add(&file{name: "big-default", origin: "importer", root: nd, content: data, chunk: 256 * 1024, err: err, sampled: true})
	}
}

// ---------------------------------------------------------------- system

type sys struct {
	f   *file
	rd  uio.DagReader
	pos int64
	ops []string
}

func size(f *file) int64 { return int64(len(f.content)) }

func opsFor(f *file) []string {
	S := int(size(f))
	c := f.chunk
	if c > S && S > 0 {
		c = S
	}
	lens := map[int]bool{0: true, 1: true, 2: true, c: true, c + 1: true, 2 * c: true, S: true, S + 1: true}
	ls := []int{}
	for l := range lens {
		ls = append(ls, l)
	}
	sort.Ints(ls)
	ops := []string{}
	for _, l := range ls {
		ops = append(ops, fmt.Sprintf("Read %d", l))
	}
	for _, l := range ls {
		ops = append(ops, fmt.Sprintf("CtxReadFull %d", l))
	}
	ops = append(ops, "WriteTo")
	offs := []int{}
	if !f.sampled {
		for o := -S - 2; o <= S+2; o++ {
			offs = append(offs, o)
		}
	} else {
		m := map[int]bool{}
		for _, k := range []int{0, 1, c - 1, c, c + 1, 2*c - 1, 2 * c, 3*c - 1, 3 * c, S - 1, S, S + 1, S + 2} {
			m[k] = true
			m[-k] = true
		}
		m[-S-2] = true
		for o := range m {
			offs = append(offs, o)
		}
		sort.Ints(offs)
	}
	for _, w := range []int{0, 1, 2} {
		for _, o := range offs {
			ops = append(ops, fmt.Sprintf("Seek %d %d", o, w))
		}
	}
	ops = append(ops, "Seek 0 3", "Seek 1 -1")
	return ops
}

var opsCache sync.Map

func newSys(cfg string) eng.Sys {
	f := byName[cfg]
	if f == nil {
		panic("unknown file " + cfg)
	}
	if f.err != nil {
		panic(fmt.Sprintf("building file %s: %v", cfg, f.err))
	}
	rd, err := uio.NewDagReader(context.Background(), f.root, f.ds)
	if err != nil {
		panic(fmt.Sprintf("NewDagReader(%s): %v", cfg, err))
	}
	s := &sys{f: f, rd: rd}
	if v, ok := opsCache.Load(cfg); ok {
		s.ops = v.([]string)
	} else {
		s.ops = opsFor(f)
		opsCache.Store(cfg, s.ops)
	}
	return s
}

// posSlack bounds the model position at size+posSlack so that the state space
// is finite: a seek whose target would lie beyond it is not enabled.
const posSlack = 4

func (s *sys) Ops() []string {
	out := make([]string, 0, len(s.ops))
	for _, op := range s.ops {
		if strings.HasPrefix(op, "Seek ") {
			f := strings.Fields(op)
			off, _ := strconv.ParseInt(f[1], 10, 64)
			abs := off
			switch f[2] {
			case "1":
				abs = s.pos + off
			case "2":
				abs = size(s.f) + off
			}
			if abs > size(s.f)+posSlack {
				continue
			}
		}
		out = append(out, op)
	}
	return out
}

func (s *sys) where() string {
	switch {
	case s.pos < size(s.f):
		return "inside"
	case s.pos == size(s.f):
		return "at-end"
	}
	return "past-end"
}

func (s *sys) feat(extra ...string) []string {
	multi := "false"
	if s.f.leaves > 1 {
		multi = "true"
	}
	return append([]string{"file", s.f.name, "origin", s.f.origin, "multi_leaf", multi, "pos", s.where(), "branch_inline_data", fmt.Sprint(s.f.branchInline)}, extra...)
}

func (s *sys) read(kind string, n int) (string, *eng.Violation) {
	buf := bytes.Repeat([]byte{0xEE}, n)
	var got int
	var err error
	if kind == "Read" {
		got, err = s.rd.Read(buf)
	} else {
		got, err = s.rd.CtxReadFull(context.Background(), buf)
	}
	if s.pos > size(s.f) {
		theRun.Add("execs_read_past_end", 1)
	}
	rem := size(s.f) - s.pos
	if rem < 0 {
		rem = 0
	}
	want := int64(n)
	if rem < want {
		want = rem
	}
	ft := s.feat()
	desc := fmt.Sprintf("%s(len %d) at offset %d of %d-byte file %s returned n=%d err=%v", kind, n, s.pos, size(s.f), s.f.name, got, err)
	if err != nil && err != io.EOF {
		return "err", eng.V("read-unexpected-error", kind, desc, ft...)
	}
	if int64(got) != want {
		return "badn", eng.V("read-wrong-count", kind, desc+fmt.Sprintf("; a byte reader returns n=%d", want), ft...)
	}
	if got > 0 && !bytes.Equal(buf[:got], s.f.content[s.pos:s.pos+int64(got)]) {
		return "badbytes", eng.V("read-wrong-bytes", kind, desc+fmt.Sprintf("; bytes %x want %x", buf[:got], s.f.content[s.pos:s.pos+int64(got)]), ft...)
	}
	if err == io.EOF && s.pos+int64(got) < size(s.f) {
		return "eof", eng.V("premature-eof", kind, desc, ft...)
	}
	if n > 0 && got == 0 && err == nil {
		return "noeof", eng.V("missing-eof", kind, desc+"; zero bytes without io.EOF", ft...)
	}
	s.pos += int64(got)
	return fmt.Sprintf("n=%d eof=%v", got, err == io.EOF), nil
}

func (s *sys) seek(off int64, whence int) (string, *eng.Violation) {
	var abs int64
	ok := true
	switch whence {
	case io.SeekStart:
		abs = off
	case io.SeekCurrent:
		abs = s.pos + off
	case io.SeekEnd:
		abs = size(s.f) + off
	default:
		ok = false
	}
	if ok && abs < 0 {
		ok = false
	}
	target := "inside"
	switch {
	case !ok:
		target = "invalid"
	case abs == size(s.f):
		target = "at-end"
	case abs > size(s.f):
		target = "past-end"
	}
	ft := s.feat("whence", strconv.Itoa(whence), "target", target)
	if has, left := uio.VerifReaderBuffered(s.rd); has && left > 0 {
		if ok && abs == s.pos {
			theRun.Add("execs_seek_to_current_offset_with_partial_leaf", 1)
		} else {
			theRun.Add("execs_seek_away_from_partial_leaf", 1)
		}
	}
	if s.f.leaves > 1 && (target == "at-end" || target == "past-end") {
		theRun.Add("execs_seek_at_or_past_end_multi_leaf", 1)
	}
	got, err := s.rd.Seek(off, whence)
	desc := fmt.Sprintf("Seek(%d, whence %d) at offset %d of %d-byte file %s returned %d, %v", off, whence, s.pos, size(s.f), s.f.name, got, err)
	if !ok {
		if err == nil {
			return "accepted", eng.V("seek-accepted-invalid", "Seek", desc+"; a byte reader rejects it", ft...)
		}
		return "rejected", nil
	}
	if err != nil {
		return "err", eng.V("seek-unexpected-error", "Seek", desc+fmt.Sprintf("; a byte reader returns %d, nil", abs), ft...)
	}
	if got != abs {
		return "badoff", eng.V("seek-wrong-offset", "Seek", desc+fmt.Sprintf("; a byte reader returns %d", abs), ft...)
	}
	s.pos = abs
	return "ok " + target, nil
}

func (s *sys) writeTo() (string, *eng.Violation) {
	var w bytes.Buffer
	if has, left := uio.VerifReaderBuffered(s.rd); has && left > 0 {
		theRun.Add("execs_writeto_with_partial_leaf", 1)
	}
	n, err := s.rd.WriteTo(&w)
	want := []byte{}
	if s.pos < size(s.f) {
		want = s.f.content[s.pos:]
	}
	ft := s.feat()
	desc := fmt.Sprintf("WriteTo at offset %d of %d-byte file %s returned n=%d err=%v wrote %d bytes", s.pos, size(s.f), s.f.name, n, err, w.Len())
	if err != nil {
		return "err", eng.V("writeto-unexpected-error", "WriteTo", desc, ft...)
	}
	if n != int64(w.Len()) {
		return "badn", eng.V("writeto-count-differs-from-written", "WriteTo", desc, ft...)
	}
	if !bytes.Equal(w.Bytes(), want) {
		return "badbytes", eng.V("writeto-wrong-bytes", "WriteTo", desc+fmt.Sprintf("; want %d bytes; got %x want %x", len(want), clip(w.Bytes()), clip(want)), ft...)
	}
	if s.pos < size(s.f) {
		s.pos = size(s.f)
	}
	return fmt.Sprintf("n=%d", min64(n, 3)), nil
}

func min64(a, b int64) int64 {
	if a < b {
		return a
	}
	return b
}

func clip(b []byte) []byte {
	if len(b) > 48 {
		return b[:48]
	}
	return b
}

func (s *sys) Do(op string) (string, *eng.Violation) {
	f := strings.Fields(op)
	switch f[0] {
	case "Read", "CtxReadFull":
		n, _ := strconv.Atoi(f[1])
		return s.read(f[0], n)
	case "Seek":
		off, _ := strconv.ParseInt(f[1], 10, 64)
		wh, _ := strconv.Atoi(f[2])
		return s.seek(off, wh)
	case "WriteTo":
		return s.writeTo()
	}
	panic("bad op " + op)
}

func (s *sys) Key() string {
	return fmt.Sprintf("pos=%d|%s", s.pos, uio.VerifReaderState(s.rd))
}

// Check: the reader's reported size and offset equal the model's and the rest
// of the stream is exactly the rest of the content, followed by EOF.
func (s *sys) Check() *eng.Violation {
	if s.rd.Size() != uint64(size(s.f)) {
		return eng.V("size-mismatch", "Size", fmt.Sprintf("Size()=%d, content has %d bytes (file %s)", s.rd.Size(), size(s.f), s.f.name), s.feat()...)
	}
	off, err := s.rd.Seek(0, io.SeekCurrent)
	if err != nil || off != s.pos {
		return eng.V("offset-mismatch", "Seek", fmt.Sprintf("Seek(0,SeekCurrent)=%d,%v but the byte reader is at %d (file %s)", off, err, s.pos, s.f.name), s.feat()...)
	}
	if has, left := uio.VerifReaderBuffered(s.rd); has && left > 0 {
		theRun.Add("states_with_partially_consumed_leaf", 1)
	}
	if _, v := s.writeTo(); v != nil {
		v.Symptom = "tail-" + v.Symptom
		return v
	}
	if _, v := s.read("Read", 1); v != nil {
		v.Symptom = "after-drain-" + v.Symptom
		return v
	}
	return nil
}

func (s *sys) Close() { s.rd.Close() }

var theRun *eng.Run

func spec(r *eng.Run) eng.SeqSpec {
	theRun = r
	poolOnce.Do(func() { buildPool(r.Thorough()) })
	cfgs := []string{}
	for _, f := range pool {
		cfgs = append(cfgs, f.name)
	}
	return eng.SeqSpec{Configs: cfgs, New: newSys, Depth: eng.Pick(r, 12, 40)}
}

func main() {
	eng.Main("C09", "model_checking", func(r *eng.Run) {
		r.Rule("BFS over Read/CtxReadFull/Seek/WriteTo sequences on a fresh DagReader per path; state = (byte-reader offset, DagReader offset, leaf buffer remaining, walker path); the search runs until no new state appears; non-trivial = path of >= 2 calls; each call's n/bytes/err/offset is compared with a byte reader over the intended content, and after every path the rest of the stream must equal the rest of the content")
		r.Assume("in-memory DAGService (merkledag over map datastore) is correct; importer output is the file under test, its intended content is the imported byte string")
		sp := spec(r)
		fl := map[string]any{}
		for _, f := range pool {
			fl[f.name] = map[string]any{"size": len(f.content), "leaves": f.leaves, "origin": f.origin, "alphabet": len(opsFor(f))}
		}
		r.Set("files", fl)
		eng.ExploreSeq(r, sp)
	}, func(r *eng.Run, raw json.RawMessage) { eng.ReplaySeq(r, spec(r), raw) })
}
