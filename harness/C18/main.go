//go:build verif

// C18: UnixFS metadata (mode, mtime) round-trips through serialization and the
// file-size accessors report the content length.  Exhaustive enumeration of a
// declared finite domain on the real ipld/unixfs + files code.
package main

import (
	"encoding/json"
	"fmt"
	"os"
	"sync"
	"sync/atomic"
	"time"

	"github.com/ipfs/boxo/ipld/merkledag"
	unixfs "github.com/ipfs/boxo/ipld/unixfs"
	pb "github.com/ipfs/boxo/ipld/unixfs/pb"
	"github.com/ipfs/boxo/verifshim/eng"
)

// ---------------------------------------------------------------- reference

// refMode is the reference conversion unix permission bits -> os.FileMode
// permission bits, written from the documentation of os.FileMode (not from
// boxo): low 9 bits are rwxrwxrwx, 04000 setuid, 02000 setgid, 01000 sticky.
func refMode(p uint32) os.FileMode {
	m := os.FileMode(p & 0o777)
	if p&0o4000 != 0 {
		m |= os.ModeSetuid
	}
	if p&0o2000 != 0 {
		m |= os.ModeSetgid
	}
	if p&0o1000 != 0 {
		m |= os.ModeSticky
	}
	return m
}

// refUnix is the inverse: the 12 permission bits of an os.FileMode.
func refUnix(m os.FileMode) uint32 {
	p := uint32(m & 0o777)
	if m&os.ModeSetuid != 0 {
		p |= 0o4000
	}
	if m&os.ModeSetgid != 0 {
		p |= 0o2000
	}
	if m&os.ModeSticky != 0 {
		p |= 0o1000
	}
	return p
}

var types = []pb.Data_DataType{unixfs.TFile, unixfs.TRaw, unixfs.TDirectory, unixfs.TSymlink, unixfs.THAMTShard}

// other os.FileMode bits that may accompany the permission bits handed to SetMode
var typeBits = []os.FileMode{0, os.ModeDir, os.ModeSymlink, os.ModeDir | os.ModeNamedPipe | os.ModeAppend | os.ModeExclusive | os.ModeTemporary | os.ModeDevice | os.ModeSocket | os.ModeCharDevice | os.ModeIrregular}

var zones = []*time.Location{time.UTC, time.FixedZone("p0530", 5*3600+1800), time.FixedZone("m1100", -11*3600)}

// T is a time value of the domain: the zero time or time.Unix(Sec,Nsec) in zone Loc.
type T struct {
	Zero bool  `json:"zero,omitempty"`
	Sec  int64 `json:"sec"`
	Nsec int64 `json:"nsec"`
	Loc  int   `json:"loc,omitempty"`
}

func (t T) time() time.Time {
	if t.Zero {
		return time.Time{}
	}
	return time.Unix(t.Sec, t.Nsec).In(zones[t.Loc])
}

func (t T) class() string {
	if t.Zero {
		return "zero"
	}
	s := "s0"
	if t.Sec < 0 {
		s = "s-"
	} else if t.Sec > 0 {
		s = "s+"
	}
	n := "n0"
	switch {
	case t.Nsec == 999999999:
		n = "nmax"
	case t.Nsec > 0:
		n = "n+"
	}
	return s + n
}

// Case is one fully described test case (also the replay record).
type Case struct {
	Kind   string `json:"kind"` // stat | ctor | remode | reext | retime | size
	Type   int    `json:"type"`
	Perm   uint32 `json:"perm"`
	Ext    uint32 `json:"ext"`
	Order  int    `json:"order"`  // 0: ext,mode,mtime  1: mtime,mode,ext
	Setter int    `json:"setter"` // 0: SetMode(os.FileMode) 1: SetModeFromUnixPermissions
	TB     int    `json:"tb"`     // index into typeBits (setter 0 / ctor)
	Time   T      `json:"time"`
	Dag    bool   `json:"dag,omitempty"` // additionally travel through a dag-pb ProtoNode encode/decode
	// second step (re* kinds)
	Perm1  uint32 `json:"perm1,omitempty"`
	Ext1   uint32 `json:"ext1,omitempty"`
	Time1  T      `json:"time1"`
	Reload bool   `json:"reload,omitempty"` // serialize+parse between the two steps
	// size cases
	DataLen  int      `json:"datalen,omitempty"`
	DataLen2 int      `json:"datalen2,omitempty"`
	Blocks   []uint64 `json:"blocks,omitempty"`
	Remove   int      `json:"remove,omitempty"` // 0 none, -1 RemoveAllBlockSizes, i+1 RemoveBlockSize(i)
	Via      string   `json:"via,omitempty"`
}

func typeName(i int) string { return types[i].String() }

func roundTrip(n *unixfs.FSNode, viaDag bool) (*unixfs.FSNode, []byte, error) {
	b, err := n.GetBytes()
	if err != nil {
		return nil, nil, fmt.Errorf("GetBytes: %w", err)
	}
	if viaDag {
		nd := merkledag.NodeWithData(b)
		raw := nd.RawData()
		nd2, err := merkledag.DecodeProtobuf(raw)
		if err != nil {
			return nil, b, fmt.Errorf("DecodeProtobuf: %w", err)
		}
		n2, err := unixfs.ExtractFSNode(nd2)
		return n2, b, err
	}
	n2, err := unixfs.FSNodeFromBytes(b)
	return n2, b, err
}

func (c *Case) feats(extra ...string) []string {
	via := c.Via
	if via == "" {
		via = []string{"SetMode", "SetModeFromUnixPermissions"}[c.Setter]
	}
	return append([]string{"kind", c.Kind, "type", typeName(c.Type), "via", via}, extra...)
}

func checkStat(c *Case, op string, n *unixfs.FSNode, wantPerm uint32, wantExt *uint32, want T) *eng.Violation {
	if got := refUnix(n.Mode()); got != wantPerm {
		return eng.V("perm-bits-changed", "Mode", fmt.Sprintf("%s: set permission bits %#o, read back Mode()=%v (bits %#o)", op, wantPerm, n.Mode(), got), c.feats()...)
	}
	if wantExt != nil {
		if got := n.ExtendedMode(); got != *wantExt&0xFFFFF {
			return eng.V("extended-bits-changed", "ExtendedMode", fmt.Sprintf("%s: set extended bits %#x, read back %#x", op, *wantExt&0xFFFFF, got), c.feats()...)
		}
	}
	wt := want.time()
	got := n.ModTime()
	if wt.IsZero() {
		if !got.IsZero() {
			return eng.V("unset-mtime-not-zero", "ModTime", fmt.Sprintf("%s: mtime unset (zero time) but ModTime()=%v", op, got), c.feats("tclass", want.class())...)
		}
	} else {
		if got.IsZero() {
			return eng.V("mtime-lost", "ModTime", fmt.Sprintf("%s: set mtime %v (unix %d,%d), ModTime() is the zero time", op, wt, want.Sec, want.Nsec), c.feats("tclass", want.class())...)
		}
		if !got.Equal(wt) {
			return eng.V("mtime-changed", "ModTime", fmt.Sprintf("%s: set mtime %v (unix %d ns %d), read back %v (unix %d ns %d)", op, wt.UTC(), wt.Unix(), wt.Nanosecond(), got.UTC(), got.Unix(), got.Nanosecond()), c.feats("tclass", want.class())...)
		}
	}
	return nil
}

func newNode(c *Case) *unixfs.FSNode {
	n := unixfs.NewFSNode(types[c.Type])
	switch types[c.Type] {
	case unixfs.TFile, unixfs.TRaw:
		n.SetData([]byte("hello"))
	case unixfs.TSymlink:
		n.SetData([]byte("../target"))
	}
	return n
}

func setMode(c *Case, n *unixfs.FSNode, p uint32) {
	if c.Setter == 0 {
		n.SetMode(refMode(p) | typeBits[c.TB])
	} else {
		n.SetModeFromUnixPermissions(p)
	}
}

// run executes one case on the real code and judges it.
func run(c *Case) (v *eng.Violation, outcome string) {
	pv := eng.Guard(c.Kind, func() { v, outcome = run1(c) })
	if pv != nil {
		pv.Features = map[string]string{"kind": c.Kind, "type": typeName(c.Type)}
		v = pv
	}
	if v != nil {
		v.Replay = c
	}
	return
}

func run1(c *Case) (*eng.Violation, string) {
	switch c.Kind {
	case "stat":
		n := newNode(c)
		if c.Order == 0 {
			n.SetExtendedMode(c.Ext)
			setMode(c, n, c.Perm)
			n.SetModTime(c.Time.time())
		} else {
			n.SetModTime(c.Time.time())
			setMode(c, n, c.Perm)
			n.SetExtendedMode(c.Ext)
		}
		// before serialization
		if v := checkStat(c, "in memory", n, c.Perm, &c.Ext, c.Time); v != nil {
			return v, ""
		}
		n2, b, err := roundTrip(n, c.Dag)
		if err != nil {
			return eng.V("roundtrip-error", "FSNodeFromBytes", err.Error(), c.feats()...), ""
		}
		if n2.Type() != types[c.Type] {
			return eng.V("type-changed", "Type", fmt.Sprintf("type %v read back as %v", types[c.Type], n2.Type()), c.feats()...), ""
		}
		if v := checkStat(c, "after FSNodeFromBytes(GetBytes())", n2, c.Perm, &c.Ext, c.Time); v != nil {
			return v, ""
		}
		return nil, fmt.Sprintf("%s/len%d/%s/p%v/e%v", typeName(c.Type), len(b), c.Time.class(), c.Perm != 0, c.Ext&0xFFFFF != 0)

	case "ctor":
		// the *WithStat constructors
		m := refMode(c.Perm) | typeBits[c.TB]
		t := c.Time.time()
		var b []byte
		var err error
		wantType := unixfs.TFile
		switch c.Via {
		case "FilePBDataWithStat":
			b = unixfs.FilePBDataWithStat([]byte("hello"), 5, m, t)
		case "FolderPBDataWithStat":
			b = unixfs.FolderPBDataWithStat(m, t)
			wantType = unixfs.TDirectory
		case "EmptyDirNodeWithStat":
			nd := unixfs.EmptyDirNodeWithStat(m, t)
			nd2, derr := merkledag.DecodeProtobuf(nd.RawData())
			if derr != nil {
				return eng.V("roundtrip-error", "DecodeProtobuf", derr.Error(), c.feats()...), ""
			}
			b = nd2.Data()
			wantType = unixfs.TDirectory
		case "HAMTShardDataWithStat":
			b, err = unixfs.HAMTShardDataWithStat([]byte{0x01}, 256, 0x22, m, t)
			wantType = unixfs.THAMTShard
		}
		if err != nil {
			return eng.V("roundtrip-error", c.Via, err.Error(), c.feats()...), ""
		}
		n2, err := unixfs.FSNodeFromBytes(b)
		if err != nil {
			return eng.V("roundtrip-error", "FSNodeFromBytes", err.Error(), c.feats()...), ""
		}
		if n2.Type() != wantType {
			return eng.V("type-changed", "Type", fmt.Sprintf("type %v read back as %v", wantType, n2.Type()), c.feats()...), ""
		}
		if v := checkStat(c, c.Via, n2, c.Perm, nil, c.Time); v != nil {
			return v, ""
		}
		return nil, fmt.Sprintf("%s/len%d/%s/p%v", c.Via, len(b), c.Time.class(), c.Perm != 0)

	case "remode", "reext", "retime":
		n := newNode(c)
		// first setting
		n.SetExtendedMode(c.Ext1)
		setMode(c, n, c.Perm1)
		n.SetModTime(c.Time1.time())
		if c.Reload {
			n1, _, err := roundTrip(n, false)
			if err != nil {
				return eng.V("roundtrip-error", "FSNodeFromBytes", err.Error(), c.feats()...), ""
			}
			n = n1
		}
		wantPerm, wantExt, wantT := c.Perm1, c.Ext1, c.Time1
		switch c.Kind {
		case "remode":
			setMode(c, n, c.Perm)
			wantPerm = c.Perm
		case "reext":
			n.SetExtendedMode(c.Ext)
			wantExt = c.Ext
		case "retime":
			n.SetModTime(c.Time.time())
			wantT = c.Time
		}
		n2, b, err := roundTrip(n, false)
		if err != nil {
			return eng.V("roundtrip-error", "FSNodeFromBytes", err.Error(), c.feats()...), ""
		}
		if v := checkStat(c, "after second setting and FSNodeFromBytes(GetBytes())", n2, wantPerm, &wantExt, wantT); v != nil {
			v.Features["second_setting"] = "true"
			return v, ""
		}
		return nil, fmt.Sprintf("%s/%s/len%d/%s>%s/p%v>%v/e%v>%v", c.Kind, typeName(c.Type), len(b), c.Time1.class(), wantT.class(), c.Perm1 != 0, wantPerm != 0, c.Ext1&0xFFFFF != 0, wantExt&0xFFFFF != 0)

	case "size":
		return runSize(c)
	}
	return eng.V("harness-bad-case", "", "unknown kind "+c.Kind), ""
}

func mkData(n int) []byte {
	d := make([]byte, n)
	for i := range d {
		d[i] = byte('a' + i%26)
	}
	return d
}

func runSize(c *Case) (*eng.Violation, string) {
	data := mkData(c.DataLen)
	want := uint64(len(data))
	var b []byte
	var err error
	var mem *unixfs.FSNode
	bad := func(op string, got uint64, w uint64) *eng.Violation {
		return eng.V("filesize-not-content-length", op, fmt.Sprintf("%s: %s reports %d, content length is %d (data %d bytes, child blocks %v, remove=%d)", c.Via, op, got, w, len(data), c.Blocks, c.Remove), c.feats()...)
	}
	switch c.Via {
	case "FSNode":
		n := unixfs.NewFSNode(types[c.Type])
		n.SetData(mkData(c.DataLen2)) // replaced below: SetData must track the difference
		n.SetData(data)
		if types[c.Type] == unixfs.TFile {
			blocks := append([]uint64{}, c.Blocks...)
			for _, s := range blocks {
				n.AddBlockSize(s)
			}
			switch {
			case c.Remove == -1:
				n.RemoveAllBlockSizes()
				blocks = nil
			case c.Remove > 0:
				n.RemoveBlockSize(c.Remove - 1)
				blocks = append(blocks[:c.Remove-1], blocks[c.Remove:]...)
			}
			for _, s := range blocks {
				want += s
			}
			if n.NumChildren() != len(blocks) {
				return eng.V("numchildren-wrong", "NumChildren", fmt.Sprintf("NumChildren()=%d want %d", n.NumChildren(), len(blocks)), c.feats()...), ""
			}
		}
		n.SetModeFromUnixPermissions(c.Perm)
		n.SetModTime(c.Time.time())
		mem = n
		b, err = n.GetBytes()
	case "FilePBData":
		for _, s := range c.Blocks {
			want += s
		}
		b = unixfs.FilePBData(data, want)
	case "FilePBDataWithStat":
		for _, s := range c.Blocks {
			want += s
		}
		b = unixfs.FilePBDataWithStat(data, want, refMode(c.Perm), c.Time.time())
	case "WrapData":
		b = unixfs.WrapData(data)
	case "SymlinkData":
		b, err = unixfs.SymlinkData(string(data))
	}
	if err != nil {
		return eng.V("roundtrip-error", c.Via, err.Error(), c.feats()...), ""
	}
	if mem != nil {
		if got := mem.FileSize(); got != want {
			return bad("FileSize (in memory)", got, want), ""
		}
	}
	n2, err := unixfs.FSNodeFromBytes(b)
	if err != nil {
		return eng.V("roundtrip-error", "FSNodeFromBytes", err.Error(), c.feats()...), ""
	}
	if got := n2.FileSize(); got != want {
		return bad("FileSize", got, want), ""
	}
	got, err := unixfs.DataSize(b)
	if err != nil {
		return eng.V("datasize-error", "DataSize", err.Error(), c.feats()...), ""
	}
	if got != want {
		return bad("DataSize", got, want), ""
	}
	if string(n2.Data()) != string(data) {
		return eng.V("data-changed", "Data", fmt.Sprintf("content %q read back as %q", data, n2.Data()), c.feats()...), ""
	}
	return nil, fmt.Sprintf("size/%s/%s/d%v/b%d/r%d", c.Via, typeName(c.Type), len(data) > 0, len(c.Blocks), sign(c.Remove))
}

func sign(i int) int {
	if i < 0 {
		return -1
	}
	if i > 0 {
		return 1
	}
	return 0
}

// ---------------------------------------------------------------- domains

func timePool(r *eng.Run) []T {
	secs := []int64{-(1 << 40), -62135596800 /* 0001-01-01, the zero instant */, -1, 0, 1, 1 << 31, 1 << 40, 253402300799 /* 9999-12-31T23:59:59Z */}
	nanos := []int64{0, 1, 500000000, 999999999}
	if r.Thorough() {
		secs = append(secs, -62135596801, -62135596799, -2, 1<<31-1, 1<<32)
		nanos = append(nanos, 999, 999999998)
		for k := uint(7); k <= 41; k += 8 {
			secs = append(secs, 1<<k, 1<<k-1, -(1 << k), -(1<<k - 1))
		}
		nanos = append(nanos, 127, 128, 65535, 65536, 1<<24, 1<<29+1)
	}
	seen := map[int64]bool{}
	pool := []T{{Zero: true}}
	for _, s := range secs {
		if seen[s] {
			continue
		}
		seen[s] = true
		for _, n := range nanos {
			pool = append(pool, T{Sec: s, Nsec: n})
		}
	}
	// the same instants seen through other zones
	pool = append(pool, T{Sec: 1, Nsec: 5, Loc: 1}, T{Sec: -1, Nsec: 0, Loc: 2}, T{Sec: 1 << 31, Nsec: 999999999, Loc: 1}, T{Sec: 0, Nsec: 0, Loc: 2})
	return pool
}

func main() {
	eng.Main("C18", "exploration", body, func(r *eng.Run, raw json.RawMessage) {
		var c Case
		if err := json.Unmarshal(raw, &c); err != nil {
			fmt.Println("bad replay record:", err)
			os.Exit(2)
		}
		v, out := run(&c)
		r.Eval(1)
		fmt.Printf("  replay %+v\n  outcome %q\n", c, out)
		if v != nil {
			r.Report(v)
		} else {
			fmt.Println("  replay: no violation")
		}
	})
}

type local struct {
	evals    int
	distinct map[string]struct{}
	outcomes map[string]struct{}
}

func body(r *eng.Run) {
	r.Rule("nested loops over declared finite domains, every case executed on the real FSNode code: (1) all 4096 permission values x extended-bit values x 5 node types x time pool x {2 setters} x {2 call orders} x accompanying os.FileMode type bits, read back in memory and after FSNodeFromBytes(GetBytes()) (and through a dag-pb ProtoNode); (2) the *WithStat constructors over all 4096 x times; (3) two-step histories (set, optionally reload, set again) for mode, extended bits and mtime; (4) file-size accessors over data lengths x child block-size lists x removal. A case is non-trivial when mode or mtime is set; distinct cases are keyed (kind,type,perm,ext,time class)")
	r.Assume("google.golang.org/protobuf marshal/unmarshal is correct; os.FileMode bit layout as documented in package io/fs")
	times := timePool(r)
	thorough := r.Thorough()
	exts := eng.Pick(r, []uint32{0, 1, 0xFFFFF}, []uint32{0, 1, 0xFFFFF, 0xFFFFFFFF})
	r.Set("domain_perms", 4096)
	r.Set("domain_ext", len(exts))
	r.Set("domain_types", len(types))
	r.Set("domain_times", len(times))

	var locals = make([]*local, 4096)
	// a broken build fails millions of cases; keep the first 25 per defect class
	var sigCount sync.Map
	report := func(v *eng.Violation) {
		k := v.Symptom + "|" + v.Op + "|" + fmt.Sprint(v.Features)
		c, _ := sigCount.LoadOrStore(k, new(atomic.Int64))
		if c.(*atomic.Int64).Add(1) <= 25 {
			r.Report(v)
		}
	}
	do := func(l *local, c Case, nontrivial bool) {
		v, out := run(&c)
		l.evals++
		if v != nil {
			report(v)
			return
		}
		l.outcomes[out] = struct{}{}
		if nontrivial {
			l.distinct[fmt.Sprintf("%s/%d/%d/%d/%s/%d/%s", c.Kind, c.Type, c.Perm, c.Ext, c.Time.class(), c.Perm1, c.Via)] = struct{}{}
		}
	}

	// (1)+(2)+(3 mode part): outermost index = permission value
	eng.ParFor(4096, func(pi int) {
		l := &local{distinct: map[string]struct{}{}, outcomes: map[string]struct{}{}}
		locals[pi] = l
		if r.Expired() {
			return
		}
		p := uint32(pi)
		for ti := range types {
			for _, e := range exts {
				for tix, t := range times {
					nt := p != 0 || !t.Zero
					// both setters, both orders; type bits only matter for SetMode
					for setter := 0; setter < 2; setter++ {
						for order := 0; order < 2; order++ {
							if !thorough && order != setter && tix%4 != 0 {
								continue // quick: the two mixed (setter, order) combinations only on every 4th time value
							}
							do(l, Case{Kind: "stat", Type: ti, Perm: p, Ext: e, Order: order, Setter: setter, Time: t}, nt)
						}
					}
					if tix%7 == 0 {
						for tb := 1; tb < len(typeBits); tb++ {
							do(l, Case{Kind: "stat", Type: ti, Perm: p, Ext: e, TB: tb, Time: t}, nt)
						}
						do(l, Case{Kind: "stat", Type: ti, Perm: p, Ext: e, Time: t, Dag: true}, nt)
					}
				}
			}
		}
		for _, via := range []string{"FilePBDataWithStat", "FolderPBDataWithStat", "EmptyDirNodeWithStat", "HAMTShardDataWithStat"} {
			for tb := range typeBits {
				for tix, t := range times {
					if tb > 0 && tix%7 != 0 {
						continue
					}
					do(l, Case{Kind: "ctor", Via: via, Perm: p, TB: tb, Time: t}, p != 0 || !t.Zero)
				}
			}
		}
		// two-step: previous mode/ext from a boundary set, then this permission value
		for ti := range types {
			for _, p1 := range []uint32{0, 1, 0o777, 0o1000, 0o7777} {
				for _, e1 := range exts {
					for setter := 0; setter < 2; setter++ {
						for _, reload := range []bool{false, true} {
							do(l, Case{Kind: "remode", Type: ti, Perm1: p1, Ext1: e1, Perm: p, Setter: setter, Reload: reload, Time1: T{Sec: 1, Nsec: 1}}, true)
						}
					}
				}
			}
			for _, e1 := range exts {
				for _, e2 := range exts {
					do(l, Case{Kind: "reext", Type: ti, Perm1: p, Ext1: e1, Ext: e2, Setter: 1, Time1: T{Zero: true}}, true)
				}
			}
		}
	})

	// (3 mtime part): all ordered pairs of the time pool
	nT := len(times)
	l2 := make([]*local, nT)
	eng.ParFor(nT, func(i int) {
		l := &local{distinct: map[string]struct{}{}, outcomes: map[string]struct{}{}}
		l2[i] = l
		for j := 0; j < nT; j++ {
			for ti := range types {
				if !r.Thorough() && ti != 0 && ti != 2 {
					continue
				}
				for _, reload := range []bool{false, true} {
					c := Case{Kind: "retime", Type: ti, Perm1: 0o644, Time1: times[i], Time: times[j], Reload: reload}
					v, out := run(&c)
					l.evals++
					if v != nil {
						report(v)
						continue
					}
					l.outcomes[out] = struct{}{}
					l.distinct[fmt.Sprintf("retime/%d/%d/%d", ti, i, j)] = struct{}{}
				}
			}
		}
	})

	// (4) sizes
	dataLens := []int{0, 1, 5, 127, 128, 300, 70000}
	blockLists := [][]uint64{nil, {0}, {1}, {127, 128}, {1 << 32, 1, 0}, {262144, 262144, 262144, 17}}
	var sizeCases []Case
	for _, dl := range dataLens {
		for _, dl2 := range []int{0, 3, 400} {
			for _, bl := range blockLists {
				for rm := -1; rm <= len(bl); rm++ {
					for _, st := range []struct {
						p uint32
						t T
					}{{0, T{Zero: true}}, {0o644, T{Sec: 1700000000, Nsec: 5}}} {
						sizeCases = append(sizeCases, Case{Kind: "size", Via: "FSNode", Type: 0, DataLen: dl, DataLen2: dl2, Blocks: bl, Remove: rm, Perm: st.p, Time: st.t})
					}
				}
			}
			sizeCases = append(sizeCases,
				Case{Kind: "size", Via: "FSNode", Type: 1, DataLen: dl, DataLen2: dl2, Time: T{Zero: true}},
				Case{Kind: "size", Via: "FSNode", Type: 3, DataLen: dl, DataLen2: dl2, Time: T{Zero: true}},
				Case{Kind: "size", Via: "FSNode", Type: 1, DataLen: dl, DataLen2: dl2, Perm: 0o755, Time: T{Sec: -1, Nsec: 1}},
				Case{Kind: "size", Via: "FSNode", Type: 3, DataLen: dl, DataLen2: dl2, Perm: 0o777, Time: T{Sec: -1, Nsec: 1}})
		}
		for _, bl := range blockLists {
			sizeCases = append(sizeCases, Case{Kind: "size", Via: "FilePBData", Type: 0, DataLen: dl, Blocks: bl, Time: T{Zero: true}},
				Case{Kind: "size", Via: "FilePBDataWithStat", Type: 0, DataLen: dl, Blocks: bl, Perm: 0o600, Time: T{Sec: 5, Nsec: 0}})
		}
		sizeCases = append(sizeCases, Case{Kind: "size", Via: "WrapData", Type: 1, DataLen: dl, Time: T{Zero: true}},
			Case{Kind: "size", Via: "SymlinkData", Type: 3, DataLen: dl, Time: T{Zero: true}})
	}
	r.Set("domain_size_cases", len(sizeCases))
	l3 := &local{distinct: map[string]struct{}{}, outcomes: map[string]struct{}{}}
	for i := range sizeCases {
		c := sizeCases[i]
		v, out := run(&c)
		l3.evals++
		if v != nil {
			report(v)
			continue
		}
		l3.outcomes[out] = struct{}{}
		l3.distinct[fmt.Sprintf("size/%d", i)] = struct{}{}
	}
	r.Sample(sizeCases[len(sizeCases)/2])

	for _, l := range append(append(locals, l2...), l3) {
		if l == nil {
			continue
		}
		r.Eval(l.evals)
		for k := range l.distinct {
			r.Distinct(k)
		}
		for k := range l.outcomes {
			r.Outcome(k)
		}
	}
	r.Sample(Case{Kind: "stat", Type: 2, Perm: 0o1755, Ext: 0xFFFFF, Time: T{Sec: -1, Nsec: 999999999}})
	r.Sample(Case{Kind: "retime", Type: 0, Perm1: 0o644, Time1: T{Sec: 1, Nsec: 5}, Time: T{Sec: 2}})
	if r.Expired() {
		r.Incomplete("budget expired before all permission values were enumerated")
	}
}
