//go:build verif

package main

import (
	"context"
	"fmt"
	"sort"
	"strconv"
	"strings"

	"github.com/ipfs/boxo/pinning/pinner/dsindex"
	"github.com/ipfs/boxo/verifshim/eng"
	ds "github.com/ipfs/go-datastore"
	dsq "github.com/ipfs/go-datastore/query"
)

type pool struct {
	keys, vals []string
}

// Pools (4 or 5 keys, 3 or 4 values each; a config "<pool>:<nk>x<nv>" uses the
// first nk keys and nv values). base64url facts used: enc(s) is a string prefix
// of enc(t) when len(s)%3==0 and s is a prefix of t ("abc"/"abcd"/"abcdef"),
// when len(s)%3==1 and the next byte of t is < 0x10 ("a"/"a\x00"/"a\x0f" but
// not "a\x10"), when len(s)%3==2 and the next byte of t is < 0x40
// ("ab"/"ab?"/"ab0" but not "ab@"; '?' also maps to '/' in the *standard*
// base64 alphabet). "uYWJj" is the encoded form of "abc", "uAA" of "\x00".
var poolOrder = []string{"encprefix3", "encprefix1", "encprefix2", "pathy", "dots", "bytes", "lookalike", "cidlike", "case", "long", "spaces", "valprefix"}

var pools = map[string]pool{
	"encprefix3": {[]string{"abc", "abcd", "abcdef", "ab", "abcdefg"}, []string{"a", "a\x00", "x", "abc"}},
	"encprefix1": {[]string{"a", "a\x00", "a\x0f", "a\x10"}, []string{"abc", "abcd", "a", "a\x00"}},
	"encprefix2": {[]string{"ab", "ab?", "ab0", "ab@"}, []string{"ab", "ab?", "/", "ab0"}},
	"pathy":      {[]string{"/", "a/b", "a", "//", "a//b"}, []string{"/", "..", "a/b/", "b"}},
	"dots":       {[]string{".", "..", "./a", "a/.."}, []string{".", "..", "\x00"}},
	"bytes":      {[]string{"\x00", "\x00\x00", "\xff", "\xff\xff"}, []string{"\xff", "\x00", "uAA"}},
	"lookalike":  {[]string{"abc", "uYWJj", "YWJj", "u"}, []string{"uYWJj", "abc", "uYWJj/ueA"}},
	// shapes used by dspinner: binary CID keys, pin-id values (old records had a leading slash)
	"cidlike": {[]string{"\x01\x55\x12\x02ab", "\x01\x55\x12\x02ab\x00", "\x12\x02ab", "\x01\x70\x12\x02ab"}, []string{"ID1", "ID12", "/ID1"}},
	"case":    {[]string{"A", "a", "B", "b"}, []string{"a", "A", "aa"}},
	"long":    {[]string{strings.Repeat("a", 300), strings.Repeat("a", 301), "\u00e9", "e\u0301"}, []string{"\u00e9", strings.Repeat("/", 64), " "}},
	"spaces":  {[]string{" ", "  ", "\t", "\n"}, []string{" ", "\n", "a b"}},
	"valprefix": {[]string{"k", "k/v", "kk", "k/"}, []string{"v", "vv", "k"}},
}

type cfgT struct {
	pool string
	nk   int
	nv   int
}

func parseCfg(cfg string) (pool, cfgT) {
	// "<pool>:<nk>x<nv>"
	i := strings.IndexByte(cfg, ':')
	name := cfg[:i]
	dims := strings.Split(cfg[i+1:], "x")
	nk, _ := strconv.Atoi(dims[0])
	nv, _ := strconv.Atoi(dims[1])
	p := pools[name]
	return pool{p.keys[:nk], p.vals[:nv]}, cfgT{name, nk, nv}
}

const (
	idxName     = "/i"
	siblingName = "/ia" // name is a string prefix extension of idxName
)

type seqSys struct {
	p       pool
	raw     *ds.MapDatastore
	x       dsindex.Indexer
	sibling dsindex.Indexer
	sibWant pairSet
	m       pairSet
}

func newSeqSys(cfg string) eng.Sys {
	p, _ := parseCfg(cfg)
	s := &seqSys{p: p, raw: ds.NewMapDatastore(), m: pairSet{}, sibWant: pairSet{}}
	s.x = dsindex.New(s.raw, ds.NewKey(idxName))
	s.sibling = dsindex.New(s.raw, ds.NewKey(siblingName))
	// static content of the sibling index: must never be touched through s.x
	for _, k := range p.keys[:2] {
		if err := s.sibling.Add(context.Background(), k, p.vals[0]); err != nil {
			panic(err)
		}
		s.sibWant[[2]string{k, p.vals[0]}] = struct{}{}
	}
	return s
}

func (s *seqSys) Ops() []string {
	ops := []string{}
	for i := range s.p.keys {
		for j := range s.p.vals {
			ops = append(ops, fmt.Sprintf("Add k%d v%d", i, j))
		}
	}
	for i := range s.p.keys {
		for j := range s.p.vals {
			ops = append(ops, fmt.Sprintf("Delete k%d v%d", i, j))
		}
	}
	for i := range s.p.keys {
		ops = append(ops, fmt.Sprintf("DeleteKey k%d", i))
	}
	ops = append(ops, "DeleteAll")
	// empty arguments
	ops = append(ops, "Add ke v0", "Add k0 ve", "Delete ke v0", "Delete k0 ve", "DeleteKey ke")
	return ops
}

func (s *seqSys) arg(a string) string {
	if a[1] == 'e' {
		return ""
	}
	n, err := strconv.Atoi(a[1:])
	if err != nil {
		panic("bad op argument " + a)
	}
	if a[0] == 'k' {
		return s.p.keys[n]
	}
	return s.p.vals[n]
}

func (s *seqSys) Do(op string) (string, *eng.Violation) {
	ctx := context.Background()
	f := strings.Fields(op)
	switch f[0] {
	case "Add", "Delete":
		k, v := s.arg(f[1]), s.arg(f[2])
		var err error
		if f[0] == "Add" {
			err = s.x.Add(ctx, k, v)
		} else {
			err = s.x.Delete(ctx, k, v)
		}
		desc := fmt.Sprintf("%s(%q,%q)", f[0], k, v)
		if k == "" || v == "" {
			if err == nil {
				return desc + "=nil", eng.V("empty-arg-accepted", f[0], desc+" returned nil; want an error")
			}
			return desc + "=err", nil
		}
		if err != nil {
			return desc + "=err", eng.V("unexpected-error", f[0], fmt.Sprintf("%s: %v", desc, err))
		}
		if f[0] == "Add" {
			s.m[[2]string{k, v}] = struct{}{}
		} else {
			delete(s.m, [2]string{k, v})
		}
		return desc + "=ok", nil
	case "DeleteKey":
		k := s.arg(f[1])
		n, err := s.x.DeleteKey(ctx, k)
		desc := fmt.Sprintf("DeleteKey(%q)", k)
		if k == "" {
			if err == nil {
				return desc + "=nil", eng.V("empty-arg-accepted", f[0], desc+" returned nil; want an error")
			}
			return desc + "=err", nil
		}
		if err != nil {
			return desc + "=err", eng.V("unexpected-error", f[0], fmt.Sprintf("%s: %v", desc, err))
		}
		want := s.m.deleteKey(k)
		if n != want {
			return fmt.Sprintf("%s=%d", desc, n), eng.V("delete-count-mismatch", f[0], fmt.Sprintf("%s returned count %d, model removed %d", desc, n, want))
		}
		return fmt.Sprintf("%s=%d", desc, n), nil
	case "DeleteAll":
		n, err := s.x.DeleteAll(ctx)
		if err != nil {
			return "DeleteAll=err", eng.V("unexpected-error", f[0], fmt.Sprintf("DeleteAll: %v", err))
		}
		want := len(s.m)
		s.m = pairSet{}
		if n != want {
			return fmt.Sprintf("DeleteAll=%d", n), eng.V("delete-count-mismatch", f[0], fmt.Sprintf("DeleteAll returned count %d, model removed %d", n, want))
		}
		return fmt.Sprintf("DeleteAll=%d", n), nil
	}
	panic("unknown op " + op)
}

func (s *seqSys) Key() string {
	res, err := s.raw.Query(context.Background(), dsq.Query{KeysOnly: true})
	if err != nil {
		panic(err)
	}
	all, _ := res.Rest()
	ks := make([]string, len(all))
	for i, e := range all {
		ks[i] = e.Key
	}
	sort.Strings(ks)
	return "S:" + strings.Join(ks, "\x00")
}

func (s *seqSys) Check() *eng.Violation {
	if v := observeAll(s.x, s.p.keys, s.p.vals, s.m); v != nil {
		return v
	}
	// the sibling index (name "/ia" extends "/i") is never modified
	got := []string{}
	err := s.sibling.ForEach(context.Background(), "", func(k, v string) bool {
		got = append(got, fmt.Sprintf("%q=%q", k, v))
		return true
	})
	sort.Strings(got)
	if want := s.sibWant.list(""); err != nil || strings.Join(got, ",") != strings.Join(want, ",") {
		return eng.V("sibling-index-changed", "", fmt.Sprintf("index %s (never modified) now holds %v (err %v), want %v", siblingName, got, err, want))
	}
	return nil
}

func (s *seqSys) Close() {}

func seqConfigs(r *eng.Run) []string {
	cfgs := []string{}
	if r.Thorough() {
		// biggest first (they run as separate unit processes)
		cfgs = append(cfgs, "encprefix3:5x3", "pathy:5x3")
	}
	for _, name := range poolOrder {
		if r.Thorough() {
			cfgs = append(cfgs, name+":4x3")
		} else {
			cfgs = append(cfgs, name+":3x3")
		}
	}
	return cfgs
}

// seqSpec returns the spec for the given configs (one config per unit process).
func seqSpec(cfgs []string) eng.SeqSpec {
	depth := 0
	for _, c := range cfgs {
		if _, t := parseCfg(c); t.nk*t.nv > depth {
			depth = t.nk * t.nv
		}
	}
	return eng.SeqSpec{Configs: cfgs, New: newSeqSys, Depth: depth}
}
