//go:build verif

// C24: the pin index (dsindex.Indexer) is an exact multimap.
//
// Part 1 (seq.go): BFS over Add/Delete/DeleteKey/DeleteAll sequences per small
// key/value pool, state space closed by deduplication on the raw datastore.
// Part 2 (pairs.go): all ordered pairs of a large byte-string pool as two keys
// / two values.
package main

import (
	"context"
	"encoding/json"
	"fmt"
	"sort"
	"strings"

	"github.com/ipfs/boxo/pinning/pinner/dsindex"
	"github.com/ipfs/boxo/verifshim/eng"
)

// pairSet is the reference model: a set of (key,value) pairs.
type pairSet map[[2]string]struct{}

func (m pairSet) valuesOf(k string) []string {
	out := []string{}
	for p := range m {
		if p[0] == k {
			out = append(out, p[1])
		}
	}
	sort.Strings(out)
	return out
}

func (m pairSet) list(k string) []string { // k=="" -> all pairs
	out := []string{}
	for p := range m {
		if k == "" || p[0] == k {
			out = append(out, fmt.Sprintf("%q=%q", p[0], p[1]))
		}
	}
	sort.Strings(out)
	return out
}

func (m pairSet) deleteKey(k string) int {
	n := 0
	for p := range m {
		if p[0] == k {
			delete(m, p)
			n++
		}
	}
	return n
}

func qs(ss []string) string {
	o := make([]string, len(ss))
	for i, s := range ss {
		o[i] = fmt.Sprintf("%q", s)
	}
	return "[" + strings.Join(o, " ") + "]"
}

func diffFeat(got, want []string) []string {
	ws := map[string]int{}
	for _, w := range want {
		ws[w]++
	}
	extra, missing := false, false
	for _, g := range got {
		if ws[g] == 0 {
			extra = true
		} else {
			ws[g]--
		}
	}
	for _, n := range ws {
		if n > 0 {
			missing = true
		}
	}
	return []string{"extra", fmt.Sprint(extra), "missing", fmt.Sprint(missing)}
}

// observeAll compares every query of the Indexer interface, for every key of
// keys plus "" and every value of vals plus "", with the model.
func observeAll(x dsindex.Indexer, keys, vals []string, m pairSet) *eng.Violation {
	ctx := context.Background()
	for _, k := range append([]string{""}, keys...) {
		// Search
		got, err := x.Search(ctx, k)
		if k == "" {
			if err == nil {
				return eng.V("empty-arg-accepted", "Search", fmt.Sprintf("Search(\"\") = %s, nil; want an error", qs(got)))
			}
		} else {
			if err != nil {
				return eng.V("unexpected-error", "Search", fmt.Sprintf("Search(%q): %v", k, err))
			}
			g := append([]string{}, got...)
			sort.Strings(g)
			want := m.valuesOf(k)
			if qs(g) != qs(want) {
				return eng.V("search-mismatch", "Search", fmt.Sprintf("Search(%q) = %s want %s; model pairs %v", k, qs(g), qs(want), m.list("")), diffFeat(g, want)...)
			}
		}
		// HasAny
		any, err := x.HasAny(ctx, k)
		if err != nil {
			return eng.V("unexpected-error", "HasAny", fmt.Sprintf("HasAny(%q): %v", k, err))
		}
		wantAny := len(m.list(k)) > 0
		if any != wantAny {
			return eng.V("hasany-mismatch", "HasAny", fmt.Sprintf("HasAny(%q) = %v want %v; model pairs %v", k, any, wantAny, m.list("")), "want", fmt.Sprint(wantAny))
		}
		// ForEach, full
		gotPairs := []string{}
		err = x.ForEach(ctx, k, func(kk, vv string) bool {
			gotPairs = append(gotPairs, fmt.Sprintf("%q=%q", kk, vv))
			return true
		})
		if err != nil {
			return eng.V("unexpected-error", "ForEach", fmt.Sprintf("ForEach(%q): %v", k, err))
		}
		sort.Strings(gotPairs)
		wantPairs := m.list(k)
		if strings.Join(gotPairs, "\x00") != strings.Join(wantPairs, "\x00") {
			return eng.V("foreach-mismatch", "ForEach", fmt.Sprintf("ForEach(%q) yields %v want %v", k, gotPairs, wantPairs), append(diffFeat(gotPairs, wantPairs), "all", fmt.Sprint(k == ""))...)
		}
		// ForEach, stop after the first pair
		calls := 0
		err = x.ForEach(ctx, k, func(kk, vv string) bool { calls++; return false })
		if err != nil {
			return eng.V("unexpected-error", "ForEach", fmt.Sprintf("ForEach(%q) with early stop: %v", k, err))
		}
		wantCalls := 0
		if len(wantPairs) > 0 {
			wantCalls = 1
		}
		if calls != wantCalls {
			return eng.V("foreach-continued-after-stop", "ForEach", fmt.Sprintf("ForEach(%q) with fn returning false called fn %d times, want %d", k, calls, wantCalls))
		}
		// HasValue
		for _, v := range append([]string{""}, vals...) {
			has, err := x.HasValue(ctx, k, v)
			if k == "" || v == "" {
				if err == nil {
					return eng.V("empty-arg-accepted", "HasValue", fmt.Sprintf("HasValue(%q,%q) = %v, nil; want an error", k, v, has))
				}
				continue
			}
			if err != nil {
				return eng.V("unexpected-error", "HasValue", fmt.Sprintf("HasValue(%q,%q): %v", k, v, err))
			}
			_, want := m[[2]string{k, v}]
			if has != want {
				return eng.V("hasvalue-mismatch", "HasValue", fmt.Sprintf("HasValue(%q,%q) = %v want %v; model pairs %v", k, v, has, want, m.list("")), "want", fmt.Sprint(want))
			}
		}
	}
	return nil
}

type replayProbe struct {
	Kind   string `json:"kind"`
	Unit   string `json:"unit"`
	Config string `json:"config"`
}

const pairShards = 64

func listUnits(r *eng.Run) []string {
	us := []string{}
	for _, c := range seqConfigs(r) { // biggest first
		us = append(us, "seq:"+c)
	}
	for i := 0; i < pairShards; i++ {
		us = append(us, fmt.Sprintf("pairs:%d", i))
	}
	return us
}

func runUnit(r *eng.Run, u string) {
	switch {
	case strings.HasPrefix(u, "seq:"):
		eng.ExploreSeq(r, seqSpec([]string{u[4:]}))
	case strings.HasPrefix(u, "pairs:"):
		var i int
		fmt.Sscanf(u[6:], "%d", &i)
		runPairs(r, i, pairShards)
	default:
		panic("unknown unit " + u)
	}
}

func main() {
	eng.Main("C24", "model_checking", func(r *eng.Run) {
		if u := shardUnit(); u != "" {
			runUnit(r, u)
			return
		}
		r.Rule("part 1: BFS over Add/Delete/DeleteKey/DeleteAll sequences (incl. empty arguments) per key/value pool, successor = replay on a fresh indexer + 1 op, state = raw datastore dump, depth bound = |keys|*|values| so the state space of each pool closes; a path is non-trivial when it has >= 2 operations. part 2: every ordered pair (s1,s2), s1!=s2, of the byte-string pool as two keys (with s1 also used as a value) and as two values of one key, through a fixed Add/DeleteKey/Delete script; a pair is counted non-trivial when one encoding is a string prefix of the other. After every step of both parts Search/HasValue/HasAny/ForEach(key)/ForEach(\"\")/early-stop ForEach are compared with a set-of-pairs model.")
		r.Assume("go-datastore MapDatastore, namespace/keytransform wrappers and NaiveQueryApply are correct")
		r.Assume("order of Search/ForEach results is unspecified: compared as sorted multisets (duplicates are reported)")
		r.Assume("Add/Delete/HasValue/Search/DeleteKey with an empty key or value must return an error and change nothing (documented ErrEmptyKey/ErrEmptyValue)")
		sp := stringPool(eng.Pick(r, 2, 3))
		r.Set("pair_pool_strings", len(sp))
		r.Set("pair_alphabet_hex", fmt.Sprintf("%x", eng.Pick(r, alphabet, alphabet3)))
		r.Set("pair_max_len", eng.Pick(r, 2, 3))
		r.Set("seq_configs", seqConfigs(r))
		pl := map[string]any{}
		for n, p := range pools {
			pl[n] = map[string]string{"keys": qs(p.keys), "vals": qs(p.vals)}
		}
		r.Set("seq_pools", pl)
		runUnits(r, listUnits(r))
	}, func(r *eng.Run, raw json.RawMessage) {
		var p replayProbe
		json.Unmarshal(raw, &p)
		switch p.Kind {
		case "pair":
			replayPair(r, raw)
		case "unit":
			runUnit(r, p.Unit)
		default:
			eng.ReplaySeq(r, seqSpec([]string{p.Config}), raw)
		}
	})
}
