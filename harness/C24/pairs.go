//go:build verif

package main

import (
	"context"
	"encoding/base64"
	"encoding/hex"
	"encoding/json"
	"fmt"
	"strings"

	"github.com/ipfs/boxo/pinning/pinner/dsindex"
	"github.com/ipfs/boxo/verifshim/eng"
	ds "github.com/ipfs/go-datastore"
)

// boundary byte alphabet: NUL, 0x01, 0x0f/0x10 (4-bit boundary of base64
// tails), '.', '/', '0', '?' (0x3f: top-2-bits boundary, '/' in std base64),
// '@' (0x40), 'a', 'u' (the multibase prefix), 0x7f/0x80, 0xff.
var alphabet = []byte{0x00, 0x01, 0x0f, 0x10, '.', '/', '0', '?', '@', 'a', 'u', 0x7f, 0x80, 0xff}

var specials = []string{"abc", "abcd", "abcdef", "ab?", "uYWJj", "a/b", "abc/", "abc\x00", "uAA", "YQ"}

// thorough: strings up to length 3 over a 10-byte subset (drops 0x01, '0', 'u', 0x7f)
var alphabet3 = []byte{0x00, 0x0f, 0x10, '.', '/', '?', '@', 'a', 0x80, 0xff}

func stringPool(maxLen int) []string {
	out := []string{}
	alphabet := alphabet
	if maxLen >= 3 {
		alphabet = alphabet3
	}
	var rec func(prefix []byte)
	rec = func(prefix []byte) {
		if len(prefix) > 0 {
			out = append(out, string(prefix))
		}
		if len(prefix) == maxLen {
			return
		}
		for _, b := range alphabet {
			rec(append(append([]byte{}, prefix...), b))
		}
	}
	rec(nil)
	seen := map[string]bool{}
	for _, s := range out {
		seen[s] = true
	}
	for _, s := range specials {
		if !seen[s] {
			out = append(out, s)
		}
	}
	return out
}

type pairReplay struct {
	Kind string `json:"kind"`
	S1   string `json:"s1_hex"`
	S2   string `json:"s2_hex"`
}

func hostile(s string) bool {
	for i := 0; i < len(s); i++ {
		if c := s[i]; c == '/' || c == '.' || c == 0 || c >= 0x80 {
			return true
		}
	}
	return false
}

func encPrefixRelated(a, b string) bool {
	ea, eb := base64.RawURLEncoding.EncodeToString([]byte(a)), base64.RawURLEncoding.EncodeToString([]byte(b))
	return strings.HasPrefix(ea, eb) || strings.HasPrefix(eb, ea)
}

// pairCase runs the fixed script for the ordered pair (s1,s2) on a fresh index.
func pairCase(s1, s2 string) (v *eng.Violation) {
	ctx := context.Background()
	x := dsindex.New(ds.NewMapDatastore(), ds.NewKey("/i"))
	m := pairSet{}
	keys := []string{s1, s2, "k"}
	vals := []string{"v", "w", s1, s2}
	step := ""
	fail := func(vv *eng.Violation) *eng.Violation {
		vv.Detail = fmt.Sprintf("s1=%q s2=%q after %s: %s", s1, s2, step, vv.Detail)
		if vv.Features == nil {
			vv.Features = map[string]string{}
		}
		vv.Features["enc_prefix_related"] = fmt.Sprint(encPrefixRelated(s1, s2))
		vv.Replay = pairReplay{"pair", hex.EncodeToString([]byte(s1)), hex.EncodeToString([]byte(s2))}
		return vv
	}
	add := func(k, val string) *eng.Violation {
		step += fmt.Sprintf("Add(%q,%q);", k, val)
		if err := x.Add(ctx, k, val); err != nil {
			return eng.V("unexpected-error", "Add", err.Error())
		}
		m[[2]string{k, val}] = struct{}{}
		return observeAll(x, keys, vals, m)
	}
	del := func(k, val string) *eng.Violation {
		step += fmt.Sprintf("Delete(%q,%q);", k, val)
		if err := x.Delete(ctx, k, val); err != nil {
			return eng.V("unexpected-error", "Delete", err.Error())
		}
		delete(m, [2]string{k, val})
		return observeAll(x, keys, vals, m)
	}
	delKey := func(k string) *eng.Violation {
		step += fmt.Sprintf("DeleteKey(%q);", k)
		n, err := x.DeleteKey(ctx, k)
		if err != nil {
			return eng.V("unexpected-error", "DeleteKey", err.Error())
		}
		if want := m.deleteKey(k); n != want {
			return eng.V("delete-count-mismatch", "DeleteKey", fmt.Sprintf("count %d, model removed %d", n, want))
		}
		return observeAll(x, keys, vals, m)
	}
	script := []func() *eng.Violation{
		// two keys
		func() *eng.Violation { return add(s1, "v") },
		func() *eng.Violation { return add(s2, "w") },
		func() *eng.Violation { return add(s2, s1) },
		func() *eng.Violation { return delKey(s1) },
		func() *eng.Violation { return del(s2, s1) },
		// two values of one key
		func() *eng.Violation { return add("k", s1) },
		func() *eng.Violation { return add("k", s2) },
		func() *eng.Violation { return del("k", s1) },
		func() *eng.Violation { return delKey(s2) },
		func() *eng.Violation { return delKey("k") },
	}
	for _, st := range script {
		var vv *eng.Violation
		if pv := eng.Guard("pair", func() { vv = st() }); pv != nil {
			vv = pv
		}
		if vv != nil {
			return fail(vv)
		}
	}
	if len(m) != 0 {
		panic("script must end empty")
	}
	return nil
}

// runPairs runs shard `shard` of `of` (outer index i with i%of==shard).
func runPairs(r *eng.Run, shard, of int) {
	sp := stringPool(eng.Pick(r, 2, 3))
	n := len(sp)
	evals, related, hostileN := 0, 0, 0
	for i := shard; i < n; i += of {
		if r.Expired() {
			r.Incomplete(fmt.Sprintf("budget expired during pair enumeration (shard %d at outer index %d of %d)", shard, i, n))
			break
		}
		for j := 0; j < n; j++ {
			if i == j {
				continue
			}
			s1, s2 := sp[i], sp[j]
			v := pairCase(s1, s2)
			evals++
			cls := "plain"
			if encPrefixRelated(s1, s2) {
				related++
				cls = "enc-prefix-related"
				r.Distinct("pair\x00" + s1 + "\x01" + s2)
			} else if hostile(s1) || hostile(s2) {
				hostileN++
				cls = "hostile-bytes"
			}
			r.Outcome("pair:" + cls + ":" + fmt.Sprint(v == nil))
			if v != nil {
				r.Report(v)
			}
		}
	}
	r.Eval(evals)
	r.Add("pairs_evaluated", evals)
	r.Add("pairs_enc_prefix_related", related)
	r.Add("pairs_hostile_bytes", hostileN)
	if shard < n {
		r.Sample(map[string]any{"pair": []string{fmt.Sprintf("%q", sp[shard]), fmt.Sprintf("%q", sp[n/2])}})
	}
}

func replayPair(r *eng.Run, raw json.RawMessage) {
	var p pairReplay
	if err := json.Unmarshal(raw, &p); err != nil {
		fmt.Println("bad replay:", err)
		return
	}
	a, _ := hex.DecodeString(p.S1)
	b, _ := hex.DecodeString(p.S2)
	fmt.Printf("  pair s1=%q s2=%q\n", a, b)
	r.Eval(1)
	if v := pairCase(string(a), string(b)); v != nil {
		r.Report(v)
	} else {
		fmt.Println("  replay: no violation")
	}
}
