//go:build verif

package main

// Local process-sharding helper (not part of /verif/lib): the code under test
// hands every datastore query result through a goroutine + unbuffered channel;
// with GOMAXPROCS=16 on a loaded machine each hand-off costs an OS-thread
// wake-up and the whole run is ~10x slower than with GOMAXPROCS=1. So the
// parent process splits the work into independent *units* and runs each unit
// in a child process (same binary, GOMAXPROCS=1), 16 at a time, then merges
// the children's evidence and violations into its own eng.Run. The set of
// cases executed is the same as in a single process; only the placement
// differs.

import (
	"bytes"
	"encoding/json"
	"flag"
	"fmt"
	"os"
	"os/exec"
	"path/filepath"
	"runtime"
	"sync"
	"time"

	"github.com/ipfs/boxo/verifshim/eng"
)

const unitEnv = "VERIF_SHARD_UNIT"

// shardUnit returns the unit this process has to run ("" = parent).
func shardUnit() string { return os.Getenv(unitEnv) }

type childEvidence struct {
	Coverage map[string]any `json:"coverage"`
	Wall     float64        `json:"wall_s"`
}

var stdCov = map[string]bool{"evaluations": true, "distinct_nontrivial": true, "distinct_outcomes": true, "vacuous": true,
	"rule": true, "samples": true, "states": true, "transitions": true, "traces_validated_against_impl": true,
	"exhaustive": true, "cap_hit": true, "known_findings_matched": true, "go_maxprocs": true,
	"depth_bound": true, "configs": true}

func num(v any) (int, bool) {
	f, ok := v.(float64)
	return int(f), ok
}

// runUnits executes every unit in a child process and merges the results.
func runUnits(r *eng.Run, units []string) {
	start := time.Now()
	var budget time.Duration
	if f := flag.Lookup("budget"); f != nil {
		budget, _ = time.ParseDuration(f.Value.String())
	}
	seed := "0"
	if f := flag.Lookup("seed"); f != nil {
		seed = f.Value.String()
	}
	bin, err := os.Executable()
	if err != nil {
		panic(err)
	}
	tmp, err := os.MkdirTemp("", "units-")
	if err != nil {
		panic(err)
	}
	defer os.RemoveAll(tmp)
	workers := runtime.NumCPU()
	if workers > len(units) {
		workers = len(units)
	}
	var mu sync.Mutex // guards merging
	next := 0
	perConfig := map[string]any{}
	var wg sync.WaitGroup
	for w := 0; w < workers; w++ {
		wg.Add(1)
		go func() {
			defer wg.Done()
			for {
				mu.Lock()
				i := next
				next++
				mu.Unlock()
				if i >= len(units) {
					return
				}
				u := units[i]
				if r.Expired() {
					r.Incomplete("budget expired before unit " + u + " was started")
					continue
				}
				dir := filepath.Join(tmp, fmt.Sprintf("u%d", i))
				os.MkdirAll(filepath.Join(dir, "rep"), 0o755)
				args := []string{"-tier", r.Tier, "-seed", seed, "-evidence", filepath.Join(dir, "ev.json"), "-replaydir", filepath.Join(dir, "rep")}
				if budget > 0 {
					rem := budget - time.Since(start)
					if rem < time.Second {
						rem = time.Second
					}
					args = append(args, "-budget", rem.String())
				}
				cmd := exec.Command(bin, args...)
				cmd.Dir = dir
				cmd.Env = append(os.Environ(), unitEnv+"="+u, "GOMAXPROCS=1", "TMPDIR="+dir)
				var out bytes.Buffer
				cmd.Stdout, cmd.Stderr = &out, &out
				err := cmd.Run()
				code := 0
				if err != nil {
					code = 2
					if ee, ok := err.(*exec.ExitError); ok {
						code = ee.ExitCode()
					}
				}
				mu.Lock()
				mergeUnit(r, u, dir, code, out.String(), perConfig)
				mu.Unlock()
				os.RemoveAll(dir)
			}
		}()
	}
	wg.Wait()
	if len(perConfig) > 0 {
		r.Set("depth_completed_per_config", perConfig)
	}
	r.Set("units", len(units))
	r.Set("unit_processes", "one child process per unit, GOMAXPROCS=1, up to NumCPU at a time")
}

func tailStr(s string, n int) string {
	if len(s) > n {
		return "..." + s[len(s)-n:]
	}
	return s
}

func mergeUnit(r *eng.Run, u, dir string, code int, out string, perConfig map[string]any) {
	r.Logf("unit %s exit=%d\n%s", u, code, tailStr(out, 600))
	// violations first: every replay file is a full violation record
	files, _ := filepath.Glob(filepath.Join(dir, "rep", "*.json"))
	for _, f := range files {
		b, err := os.ReadFile(f)
		if err != nil {
			continue
		}
		var rec struct {
			Violation eng.Violation `json:"violation"`
		}
		if json.Unmarshal(b, &rec) == nil {
			v := rec.Violation
			r.Report(&v)
		}
	}
	if code != 0 && !(code == 1 && len(files) > 0) {
		// the child died (Go fatal error, deadlock, os.Exit in code under test ...)
		r.Report(&eng.Violation{Symptom: "worker-crashed", Op: "unit", Detail: fmt.Sprintf("unit %s exited with code %d:\n%s", u, code, tailStr(out, 3000)),
			Replay: map[string]any{"kind": "unit", "unit": u}})
		r.Incomplete("unit " + u + " crashed")
		return
	}
	b, err := os.ReadFile(filepath.Join(dir, "ev.json"))
	if err != nil {
		r.Incomplete("unit " + u + ": no evidence")
		return
	}
	var ev childEvidence
	if err := json.Unmarshal(b, &ev); err != nil {
		r.Incomplete("unit " + u + ": bad evidence")
		return
	}
	c := ev.Coverage
	st, _ := num(c["states"])
	tr, _ := num(c["transitions"])
	tv, _ := num(c["traces_validated_against_impl"])
	evs, _ := num(c["evaluations"])
	if st > 0 {
		r.States(st)
		r.Transitions(tr)
		r.Traces(tv)
		if evs != tr {
			r.Eval(evs)
		}
	} else {
		r.Eval(evs)
	}
	if n, _ := num(c["distinct_nontrivial"]); n > 0 {
		for i := 0; i < n; i++ {
			r.Distinct(fmt.Sprintf("%s#%d", u, i)) // cases of different units are different cases
		}
	}
	if n, _ := num(c["distinct_outcomes"]); n > 0 {
		for i := 0; i < n; i++ {
			r.Outcome(fmt.Sprintf("%s#%d", u, i))
		}
	}
	if ex, ok := c["exhaustive"].(bool); ok && !ex {
		reasons, _ := c["cap_hit"].([]any)
		if len(reasons) == 0 {
			r.Incomplete("unit " + u + " incomplete")
		}
		for _, x := range reasons {
			r.Incomplete(fmt.Sprintf("unit %s: %v", u, x))
		}
	}
	if ss, ok := c["samples"].([]any); ok && len(ss) > 0 {
		r.Sample(map[string]any{"unit": u, "sample": ss[len(ss)/2]})
	}
	if m, ok := c["depth_completed_per_config"].(map[string]any); ok {
		for k, v := range m {
			perConfig[k] = v
		}
	}
	for k, v := range c {
		if stdCov[k] || k == "depth_completed_per_config" {
			continue
		}
		if n, ok := num(v); ok {
			r.Add(k, n)
		} else {
			r.Set(k, v)
		}
	}
}
