//go:build verif

package main

import (
	"bufio"
	"context"
	"encoding/json"
	"errors"
	"fmt"
	"os"
	"os/exec"
	"sort"
	"strings"
	"sync"
	"time"

	"github.com/ipfs/boxo/provider"
	"github.com/ipfs/boxo/verifcid"
	"github.com/ipfs/boxo/verifshim/eng"
	"github.com/ipfs/boxo/verifshim/vexp"
	"github.com/ipfs/boxo/verifshim/vsched"
	cid "github.com/ipfs/go-cid"
	datastore "github.com/ipfs/go-datastore"
	dssync "github.com/ipfs/go-datastore/sync"
	mh "github.com/multiformats/go-multihash"
)

// ---------------------------------------------------------------------------
// symbol table: the keys a key provider may produce

type sym struct {
	name    string
	c       cid.Cid
	allowed [2]bool // under allowlist 0 (default) and 1 (custom: sha2-256 only)
}

var syms []sym
var symByCid = map[cid.Cid]int{}
var warmCid cid.Cid
var customAL = verifcid.NewAllowlist(map[uint64]bool{mh.SHA2_256: true})
var allowlists = []verifcid.Allowlist{verifcid.DefaultAllowlist, customAL}

const (
	symA  = 0 // v1 raw sha2-256
	symA2 = 1 // v1 dag-pb, SAME multihash as A
	symB  = 2 // v1 raw sha2-512 (rejected by the custom allowlist)
	symX  = 3 // md5: rejected hash function
	symS  = 4 // sha2-256 truncated to 16 bytes: digest too short
	symC  = 5 // v0 sha2-256
	symD  = 6 // v1 raw sha2-256
	nBase = 7
	nLong = 200
)

func mustSum(data string, code uint64, l int) mh.Multihash {
	h, err := mh.Sum([]byte(data), code, l)
	if err != nil {
		panic(err)
	}
	return h
}

func init() {
	ha := mustSum("a", mh.SHA2_256, -1)
	add := func(name string, c cid.Cid, d, cu bool) {
		symByCid[c] = len(syms)
		syms = append(syms, sym{name, c, [2]bool{d, cu}})
	}
	add("A", cid.NewCidV1(cid.Raw, ha), true, true)
	add("A2", cid.NewCidV1(cid.DagProtobuf, ha), true, true)
	add("B", cid.NewCidV1(cid.Raw, mustSum("b", mh.SHA2_512, -1)), true, false)
	add("X", cid.NewCidV1(cid.Raw, mustSum("x", mh.MD5, -1)), false, false)
	add("S", cid.NewCidV1(cid.Raw, mustSum("s", mh.SHA2_256, 16)), false, false)
	add("C", cid.NewCidV0(mustSum("c", mh.SHA2_256, -1)), true, true)
	add("D", cid.NewCidV1(cid.Raw, mustSum("d", mh.SHA2_256, -1)), true, true)
	for i := 0; i < nLong; i++ {
		add(fmt.Sprintf("K%d", i), cid.NewCidV1(cid.Raw, mustSum(fmt.Sprintf("long-%d", i), mh.SHA2_256, -1)), true, true)
	}
	warmCid = cid.NewCidV1(cid.Raw, mustSum("warm-up", mh.SHA2_256, -1))
	// the hard-coded verdicts are the reference model; make sure the table is what it claims to be
	for _, s := range syms {
		for al := 0; al < 2; al++ {
			if got := verifcid.ValidateCid(allowlists[al], s.c) == nil; got != s.allowed[al] {
				panic(fmt.Sprintf("harness symbol table: %s allowlist %d: ValidateCid says %v", s.name, al, got))
			}
		}
	}
}

// ---------------------------------------------------------------------------
// part A: Reprovide, bounded-exhaustive over streams x configurations

type cfg struct {
	Word   []int `json:"word"`   // stream of symbol indices
	Batch  int   `json:"batch"`  // MaxBatchSize; -1 = option not given
	Thr    int   `json:"thr"`    // ThroughputReport minimum; -1 = option not given
	More   bool  `json:"more"`   // return value of the throughput callback
	Router int   `json:"router"` // 0: ProvideMany router, 1: single-Provide router
	Fail   int   `json:"fail"`   // 0: router always succeeds, 1: its first reprovide call fails
	AL     int   `json:"al"`     // allowlist 0 default, 1 custom
}

type cbCall struct {
	complete bool
	n        uint
}

type router struct {
	mu      sync.Mutex
	batches [][]mh.Multihash
	calls   int
	fail    int
	warm    chan struct{}
}

var errRouter = errors.New("injected router failure")

func (r *router) record(keys []mh.Multihash) error {
	r.mu.Lock()
	defer r.mu.Unlock()
	r.batches = append(r.batches, append([]mh.Multihash{}, keys...))
	r.calls++
	if r.fail == 1 && r.calls == 1 {
		return errRouter
	}
	return nil
}

type singleRouter struct{ r *router }

func (s *singleRouter) Provide(ctx context.Context, c cid.Cid, announce bool) error {
	if c.Equals(warmCid) {
		close(s.r.warm)
		return nil
	}
	return s.r.record([]mh.Multihash{c.Hash()})
}

type manyRouter struct{ singleRouter }

func (m *manyRouter) ProvideMany(ctx context.Context, keys []mh.Multihash) error {
	return m.r.record(keys)
}

type result struct {
	nonterm bool
	err     error
	panicV  any
	batches [][]mh.Multihash
	cbs     []cbCall
	left    int // keys left unread in the key channel
}

func tickBudget(n int) int { return 2000 + 100*n }

// passes: every case runs this many consecutive Reprovide passes on the SAME system (the key provider yields
// the same stream on every call), so that state surviving from one pass to the next is exercised.
const passes = 2

func runPasses(c cfg) (out []result) {
	res := &result{}
	ds := dssync.MutexWrap(datastore.NewMapDatastore())
	rt := &router{fail: c.Fail, warm: make(chan struct{})}
	var rsys provider.Provide
	if c.Router == 0 {
		rsys = &manyRouter{singleRouter{rt}}
	} else {
		rsys = &singleRouter{rt}
	}
	var kch chan cid.Cid
	kpf := func(context.Context) (<-chan cid.Cid, error) {
		kch = make(chan cid.Cid, len(c.Word))
		for _, k := range c.Word {
			kch <- syms[k].c
		}
		close(kch)
		return kch, nil
	}
	opts := []provider.Option{
		provider.Online(rsys),
		provider.KeyProvider(kpf),
		provider.ReproviderInterval(0),
		provider.ProvideWorkerCount(1),
		provider.Allowlist(allowlists[c.AL]),
	}
	if c.Batch >= 0 {
		opts = append(opts, provider.MaxBatchSize(uint(c.Batch)))
	}
	if c.Thr >= 0 {
		opts = append(opts, provider.ThroughputReport(func(reprovide, complete bool, n uint, d time.Duration) bool {
			res.cbs = append(res.cbs, cbCall{complete, n})
			return c.More
		}, uint(c.Thr)))
	}
	sys, err := provider.New(ds, opts...)
	if err != nil {
		res.err = fmt.Errorf("New: %w", err)
		return []result{*res}
	}
	// Warm-up: push one key through the provide queue and wait until the router sees it. After that the
	// provide-worker goroutines started by New are parked for good (blocked on the empty queue) and execute no
	// more instrumented loop iterations, so the loop budget below counts Reprovide only.
	if err := sys.Provide(context.Background(), warmCid, true); err != nil {
		res.err = fmt.Errorf("warm-up Provide: %w", err)
		return []result{*res}
	}
	<-rt.warm
	for p := 0; p < passes; p++ {
		if p > 0 {
			res = &result{}
		}
		kch = nil
		pres := res
		runOnePass(sys, c, pres)
		if kch != nil {
			pres.left = len(kch)
		}
		rt.mu.Lock()
		pres.batches, rt.batches = rt.batches, nil
		rt.mu.Unlock()
		out = append(out, *pres)
		if pres.nonterm || pres.panicV != nil {
			break
		}
	}
	sys.Close()
	return out
}

func runOnePass(sys provider.System, c cfg, res *result) {
	vsched.SetTickBudget(tickBudget(len(c.Word)))
	func() {
		defer func() {
			if e := recover(); e != nil {
				if _, ok := e.(vsched.TickOverrun); ok {
					res.nonterm = true
				} else {
					res.panicV = e
				}
			}
		}()
		res.err = sys.Reprovide(context.Background())
	}()
	vsched.SetTickBudget(0)
}

func effectiveBatch(c cfg) int {
	// reference reading of the documented configuration: a single-Provide router works one key at a time;
	// MaxBatchSize limits the batch; while a ThroughputReport is set batches are at most its minimum.
	b := 1 << 30
	if c.Router == 1 {
		b = 1
	} else if c.Batch >= 0 {
		b = c.Batch
	}
	if c.Thr >= 0 && c.Thr < b {
		b = c.Thr
	}
	return b
}

func judge(c cfg, res result, pass int) *eng.Violation {
	mk := func(symptom, detail string, kv ...string) *eng.Violation {
		v := eng.V(symptom, "Reprovide", fmt.Sprintf("pass %d on the same system: %s\n  case: %s", pass+1, detail, describe(c)), kv...)
		if v.Features == nil {
			v.Features = map[string]string{}
		}
		v.Features["first_pass"] = fmt.Sprint(pass == 0)
		v.Replay = c
		return v
	}
	zero := fmt.Sprint(effectiveBatch(c) == 0)
	if res.panicV != nil {
		return mk("reprovide-panic", fmt.Sprintf("Reprovide panicked: %v", res.panicV))
	}
	if res.nonterm {
		via := "other"
		switch {
		case c.Thr == 0:
			via = "throughput-minimum-0"
		case c.Router == 0 && c.Batch == 0:
			via = "max-batch-size-0"
		}
		return mk("reprovide-nontermination", fmt.Sprintf("Reprovide did not return within %d loop iterations (a terminating pass over %d keys needs < %d); %d of %d keys were never read from the key channel, %d router calls", tickBudget(len(c.Word)), len(c.Word), 20+10*len(c.Word), res.left, len(c.Word), len(res.batches)),
			"effective_batch_size_zero", zero, "via", via)
	}
	if res.err != nil {
		return mk("reprovide-error", "Reprovide returned "+res.err.Error())
	}
	want, rej := map[string]string{}, map[string]string{}
	for _, k := range c.Word {
		s := syms[k]
		if s.allowed[c.AL] {
			want[string(s.c.Hash())] = s.name
		} else {
			rej[string(s.c.Hash())] = s.name
		}
	}
	got := map[string]bool{}
	for _, b := range res.batches {
		// (a limit of 0 cannot be honoured together with "announce every key"; only limits >= 1 are judged)
		if c.Router == 0 && c.Batch >= 1 && len(b) > c.Batch {
			return mk("batch-too-large", fmt.Sprintf("ProvideMany was called with %d keys, MaxBatchSize is %d", len(b), c.Batch))
		}
		if len(b) == 0 {
			return mk("empty-batch", "the router was called with an empty batch")
		}
		for _, h := range b {
			got[string(h)] = true
			if n, ok := rej[string(h)]; ok {
				return mk("rejected-key-announced", fmt.Sprintf("key %s fails the allowlist but was announced", n))
			}
			if _, ok := want[string(h)]; !ok {
				return mk("unknown-key-announced", fmt.Sprintf("multihash %x was announced but is not the multihash of any key of the stream", []byte(h)))
			}
		}
	}
	var missing []string
	for h, n := range want {
		if !got[h] {
			missing = append(missing, n)
		}
	}
	if len(missing) > 0 {
		sort.Strings(missing)
		return mk("key-not-announced", fmt.Sprintf("Reprovide returned nil but allowed keys %v were never passed to the router (%d router calls)", missing, len(res.batches)), "effective_batch_size_zero", zero, "router_failed", fmt.Sprint(c.Fail == 1 && pass == 0))
	}
	return nil
}

func describe(c cfg) string {
	var w []string
	for _, k := range c.Word {
		w = append(w, syms[k].name)
	}
	opt := func(n int) string {
		if n < 0 {
			return "unset"
		}
		return fmt.Sprint(n)
	}
	return fmt.Sprintf("stream=[%s] MaxBatchSize=%s ThroughputReport.min=%s (callback returns %v) router=%s routerFailsFirstCall=%v allowlist=%s",
		strings.Join(w, " "), opt(c.Batch), opt(c.Thr), c.More, []string{"ProvideMany", "single-Provide"}[c.Router], c.Fail == 1, []string{"default", "sha2-256-only"}[c.AL])
}

func outcomeOf(c cfg, res result) string {
	nb := len(res.batches)
	if nb > 3 {
		nb = 3
	}
	maxb := 0
	for _, b := range res.batches {
		if len(b) > maxb {
			maxb = len(b)
		}
	}
	if maxb > 3 {
		maxb = 3
	}
	ncb := len(res.cbs)
	if ncb > 2 {
		ncb = 2
	}
	return fmt.Sprintf("nonterm=%v err=%v batches=%d maxbatch=%d cb=%d", res.nonterm, res.err != nil, nb, maxb, ncb)
}

// configurations and words

func configs() []cfg {
	var out []cfg
	for _, batch := range []int{-1, 0, 1, 2, 3} {
		for _, thr := range []int{-1, 0, 1, 3} {
			for _, more := range []bool{true, false} {
				if thr < 0 && !more {
					continue
				}
				for router := 0; router < 2; router++ {
					for fail := 0; fail < 2; fail++ {
						for al := 0; al < 2; al++ {
							out = append(out, cfg{Batch: batch, Thr: thr, More: more, Router: router, Fail: fail, AL: al})
						}
					}
				}
			}
		}
	}
	return out
}

var alphabet = []int{symA, symB, symA2, symX, symS}

func words(maxLen int) [][]int {
	out := [][]int{{}}
	prev := [][]int{{}}
	for l := 1; l <= maxLen; l++ {
		var cur [][]int
		for _, w := range prev {
			for _, a := range alphabet {
				cur = append(cur, append(append([]int{}, w...), a))
			}
		}
		out = append(out, cur...)
		prev = cur
	}
	return out
}

// longWords: streams of ~200 keys with duplicates and rejected keys sprinkled in
func longWords() [][]int {
	var w1, w2 []int
	for i := 0; i < nLong; i++ {
		w1 = append(w1, nBase+i)
		if i%10 == 9 {
			w1 = append(w1, nBase+i-5, symX) // a duplicate of an earlier key and a rejected key
		}
		if i%37 == 0 {
			w1 = append(w1, symS)
		}
	}
	for i := 0; i < 60; i++ { // many duplicates, rejected key first and last
		w2 = append(w2, nBase+i%7)
	}
	w2 = append(append([]int{symX}, w2...), symS)
	return [][]int{w1, w2}
}

type e2stats struct {
	Evals     int              `json:"evals"`
	Distinct  int              `json:"distinct"`
	Outcomes  map[string]int   `json:"outcomes"`
	Counters  map[string]int   `json:"counters"`
	Viols     []*eng.Violation `json:"viols"`
	ViolCount map[string]int   `json:"viol_count"`
	Expired   bool             `json:"expired"`
}

func newE2() *e2stats {
	return &e2stats{Outcomes: map[string]int{}, Counters: map[string]int{}, ViolCount: map[string]int{}}
}

func allCases(thorough bool) (ws [][]int, cs []cfg) {
	ml := 3
	if thorough {
		ml = 6
	}
	ws = append(words(ml), longWords()...)
	return ws, configs()
}

// runShard runs cases i with i % of == shard, sequentially (the loop budget is process-global).
func runShard(thorough bool, shard, of int, deadline int64) *e2stats {
	st := newE2()
	ws, cs := allCases(thorough)
	idx := 0
	for _, w := range ws {
		for _, c0 := range cs {
			idx++
			if idx%of != shard {
				continue
			}
			if deadline > 0 && idx%64 == shard && time.Now().Unix() > deadline {
				st.Expired = true
				return st
			}
			c := c0
			c.Word = w
			ress := runPasses(c)
			res := ress[0]
			st.Evals++
			st.Counters["passes"] += len(ress)
			if len(w) > 0 {
				st.Distinct++
			}
			oc := ""
			for _, pr := range ress {
				oc += outcomeOf(c, pr) + " / "
			}
			st.Outcomes[oc]++
			if res.nonterm {
				st.Counters["nonterminating_cases"]++
			}
			if len(res.cbs) > 0 {
				st.Counters["cases_with_throughput_callback_fired"]++
			}
			multi, hasRej, dup := false, false, false
			seen := map[string]bool{}
			for _, b := range res.batches {
				if len(b) > 1 {
					multi = true
				}
			}
			for _, k := range w {
				if !syms[k].allowed[c.AL] {
					hasRej = true
				}
				if seen[string(syms[k].c.Hash())] {
					dup = true
				}
				seen[string(syms[k].c.Hash())] = true
			}
			if multi {
				st.Counters["cases_with_multi_key_batch"]++
			}
			if hasRej {
				st.Counters["cases_with_rejected_key"]++
			}
			if dup {
				st.Counters["cases_with_duplicate_multihash"]++
			}
			if c.Fail == 1 && len(res.batches) > 0 {
				st.Counters["cases_with_router_failure"]++
			}
			for pi, pr := range ress {
				if v := judge(c, pr, pi); v != nil {
					sig := v.Symptom + fmt.Sprint(v.Features)
					st.ViolCount[sig]++
					if st.ViolCount[sig] <= 3 {
						st.Viols = append(st.Viols, v)
					}
					break
				}
			}
		}
	}
	return st
}

func (a *e2stats) merge(b *e2stats) {
	a.Evals += b.Evals
	a.Distinct += b.Distinct
	for k, v := range b.Outcomes {
		a.Outcomes[k] += v
	}
	for k, v := range b.Counters {
		a.Counters[k] += v
	}
	for k, v := range b.ViolCount {
		a.ViolCount[k] += v
	}
	a.Viols = append(a.Viols, b.Viols...)
	a.Expired = a.Expired || b.Expired
}

func e2Worker() {
	var shard, of int
	var tier string
	var deadline int64
	fmt.Sscanf(os.Getenv("C44_SHARD"), "%d/%d/%s", &shard, &of, &tier)
	fmt.Sscanf(os.Getenv("C44_DEADLINE"), "%d", &deadline)
	st := runShard(strings.HasPrefix(tier, "thorough"), shard, of, deadline)
	w := bufio.NewWriter(os.Stdout)
	b, _ := json.Marshal(st)
	w.Write(b)
	w.WriteByte('\n')
	w.Flush()
}

func reprovidePart(r *eng.Run) {
	total := newE2()
	bin := os.Getenv("VERIF_BIN")
	// leave the second half of the budget to part B
	var deadline int64
	if d := r.DeadlineUnix(); d > 0 {
		now := time.Now().Unix()
		deadline = now + (d-now)*3/4
	}
	if bin == "" {
		total.merge(runShard(r.Thorough(), 0, 1, deadline))
	} else {
		const n = 16
		var mu sync.Mutex
		var wg sync.WaitGroup
		for i := 0; i < n; i++ {
			wg.Add(1)
			go func(i int) {
				defer wg.Done()
				cmd := exec.Command(bin, "-worker")
				cmd.Env = append(os.Environ(), fmt.Sprintf("C44_SHARD=%d/%d/%s", i, n, r.Tier), fmt.Sprintf("C44_DEADLINE=%d", deadline), "GOMAXPROCS=2")
				cmd.Stderr = os.Stderr
				out, err := cmd.Output()
				if err != nil {
					fmt.Fprintf(os.Stderr, "C44 shard %d failed: %v\n", i, err)
					os.Exit(2)
				}
				st := newE2()
				if e := json.Unmarshal(out, st); e != nil {
					fmt.Fprintf(os.Stderr, "C44 shard %d: bad reply: %v\n", i, e)
					os.Exit(2)
				}
				mu.Lock()
				total.merge(st)
				mu.Unlock()
			}(i)
		}
		wg.Wait()
	}
	ws, cs := allCases(r.Thorough())
	r.Eval(total.Evals)
	r.SetDistinctCount(total.Distinct)
	for o := range total.Outcomes {
		r.Outcome("reprovide:" + o)
	}
	for k, v := range total.Counters {
		r.Set("reprovide_"+k, v)
	}
	r.Set("reprovide_streams", len(ws))
	r.Set("reprovide_configurations", len(cs))
	r.Set("reprovide_outcome_classes", total.Outcomes)
	r.Set("reprovide_violation_counts", total.ViolCount)
	if total.Expired {
		r.Incomplete("reprovide part: budget hit")
	}
	wl := func(v *eng.Violation) int {
		var c cfg
		b, _ := json.Marshal(v.Replay)
		json.Unmarshal(b, &c)
		return len(c.Word)
	}
	sort.SliceStable(total.Viols, func(i, j int) bool { return wl(total.Viols[i]) < wl(total.Viols[j]) })
	for _, v := range total.Viols {
		r.Report(v)
	}
	r.Sample(map[string]any{"reprovide_case": describe(cfg{Word: []int{symA, symX, symA2}, Batch: 1, Thr: 3, More: true})})
}

// ---------------------------------------------------------------------------
// part B: NewPrioritizedProvider under the controlled scheduler

type pscript struct {
	name    string
	streams [][]int
	fail    int // index of a stream whose KeyChanFunc returns an error, -1 none
	buf     int // capacity of the stream channels
	delta   int
	// every consumer lists the SAME KeyChanFunc value `passes` times in a row (0 = 2); `consumers` threads do so
	// concurrently (0 = 1)
	passes    int
	consumers int
}

type listing struct {
	consumer, pass int
	out            []int
	closed         bool
	kpErr          error
}

type pexec struct {
	sc    *pscript
	lists []*listing
}

func (x *pexec) Main() {
	sc := x.sc
	var fns []provider.KeyChanFunc
	for i, st := range sc.streams {
		i, st := i, st
		fns = append(fns, func(ctx context.Context) (<-chan cid.Cid, error) {
			if i == sc.fail {
				return nil, errors.New("injected stream error")
			}
			ch := vsched.Reg(make(chan cid.Cid, sc.buf))
			vsched.GoNamed(fmt.Sprintf("producer%d", i), false, func() {
				for _, k := range st {
					vsched.Send((chan<- cid.Cid)(ch), syms[k].c)
				}
				vsched.Close(ch)
			})
			return ch, nil
		})
	}
	kp := provider.NewPrioritizedProvider(fns...)
	np, nc := sc.passes, sc.consumers
	if np == 0 {
		np = 2
	}
	if nc == 0 {
		nc = 1
	}
	for ci := 0; ci < nc; ci++ {
		ci := ci
		vsched.GoNamed(fmt.Sprintf("consumer%d", ci), true, func() {
			for pi := 0; pi < np; pi++ {
				l := &listing{consumer: ci, pass: pi}
				x.lists = append(x.lists, l)
				ch, err := kp(context.Background())
				if err != nil {
					l.kpErr = err
					return
				}
				for {
					c, ok := vsched.Recv2(ch)
					if !ok {
						l.closed = true
						break
					}
					k, known := symByCid[c]
					if !known {
						k = -1
					}
					l.out = append(l.out, k)
				}
			}
		})
	}
}

func (x *pexec) AtEnd(*vsched.Result) {}

func (x *pexec) Outcome() string {
	ls := append([]*listing{}, x.lists...)
	sort.SliceStable(ls, func(i, j int) bool {
		if ls[i].consumer != ls[j].consumer {
			return ls[i].consumer < ls[j].consumer
		}
		return ls[i].pass < ls[j].pass
	})
	var sb strings.Builder
	for _, l := range ls {
		fmt.Fprintf(&sb, "c%dp%d:%v closed=%v err=%v ", l.consumer, l.pass, l.out, l.closed, l.kpErr)
	}
	return sb.String()
}

// Check judges every listing on its own: each call of the KeyChanFunc is one listing of all streams.
func (x *pexec) Check(*vsched.Result) *eng.Violation {
	np, nc := x.sc.passes, x.sc.consumers
	if np == 0 {
		np = 2
	}
	if nc == 0 {
		nc = 1
	}
	if len(x.lists) != np*nc {
		return eng.V("prioritized-no-output", "NewPrioritizedProvider", fmt.Sprintf("%d listings were started, %d expected", len(x.lists), np*nc))
	}
	for _, l := range x.lists {
		if v := x.checkListing(l); v != nil {
			if v.Features == nil {
				v.Features = map[string]string{}
			}
			v.Features["first_listing"] = fmt.Sprint(l.pass == 0)
			v.Features["concurrent_listings"] = fmt.Sprint(nc > 1)
			return v
		}
	}
	return nil
}

func (x *pexec) checkListing(l *listing) *eng.Violation {
	sc := x.sc
	desc := fmt.Sprintf("listing %d of consumer %d over the same provider value: streams=%v failing=%d output=%v", l.pass+1, l.consumer, names2(sc.streams), sc.fail, names(l.out))
	if l.kpErr != nil || !l.closed {
		return eng.V("prioritized-no-output", "NewPrioritizedProvider", "the provider returned an error or its channel was not closed: "+desc)
	}
	count := map[int]int{}
	for _, k := range l.out {
		if k < 0 {
			return eng.V("prioritized-unknown-key", "NewPrioritizedProvider", desc)
		}
		count[k]++
	}
	first := map[int]int{} // key -> multiplicity in the first (non-failing) stream that contains it
	for i, st := range sc.streams {
		if i == sc.fail {
			continue
		}
		m := map[int]int{}
		for _, k := range st {
			m[k]++
		}
		for k, n := range m {
			if _, ok := first[k]; !ok {
				first[k] = n
			}
		}
	}
	for k, n := range first {
		if count[k] == 0 {
			return eng.V("prioritized-key-missing", "NewPrioritizedProvider", fmt.Sprintf("key %s of a stream was never emitted: %s", syms[k].name, desc))
		}
		if count[k] > n {
			return eng.V("prioritized-duplicate", "NewPrioritizedProvider", fmt.Sprintf("key %s was emitted %d times although it occurs only %d time(s) in the first stream that has it: a later stream re-emitted it: %s", syms[k].name, count[k], n, desc))
		}
	}
	for k := range count {
		if _, ok := first[k]; !ok {
			return eng.V("prioritized-unknown-key", "NewPrioritizedProvider", desc)
		}
	}
	return nil
}

func names(ks []int) []string {
	var o []string
	for _, k := range ks {
		if k < 0 {
			o = append(o, "?")
		} else {
			o = append(o, syms[k].name)
		}
	}
	return o
}

func names2(ss [][]int) [][]string {
	var o [][]string
	for _, s := range ss {
		o = append(o, names(s))
	}
	return o
}

func pscripts(thorough bool) []*pscript {
	A, A2, B, C, D := symA, symA2, symB, symC, symD
	ss := []*pscript{
		{name: "one-stream-dup", streams: [][]int{{A, B, A}}, fail: -1},
		{name: "two-overlap", streams: [][]int{{A, B}, {B, C}}, fail: -1},
		{name: "two-overlap-buffered", streams: [][]int{{A, B, A}, {B, A, C}}, fail: -1, buf: 2},
		{name: "three-streams", streams: [][]int{{A, A, B}, {A, C}, {C, B, D}}, fail: -1, delta: -1},
		{name: "four-streams", streams: [][]int{{A}, {A}, {A, A2}, {A2, A, B}}, fail: -1, delta: -1},
		{name: "stream-error", streams: [][]int{{A, B}, {C}, {B, C, D}}, fail: 1},
		{name: "first-stream-error", streams: [][]int{{A}, {A, B}, {B}}, fail: 0},
		{name: "empty-streams", streams: [][]int{{}, {A}, {}}, fail: -1},
		{name: "same-multihash-different-cid", streams: [][]int{{A, A2}, {A2, A}}, fail: -1},
		{name: "concurrent-listings", streams: [][]int{{A, B}, {B, C}}, fail: -1, passes: 1, consumers: 2},
	}
	if thorough {
		ss = append(ss,
			&pscript{name: "four-streams-3keys", streams: [][]int{{A, B, C}, {C, B, A}, {D, A, D}, {B, D, A2}}, fail: -1, buf: 1, delta: -1},
			&pscript{name: "last-stream-dups", streams: [][]int{{A}, {B, B, A}}, fail: -1},
		)
	}
	return ss
}

func pscenarios(thorough bool) []*vexp.Scenario {
	var out []*vexp.Scenario
	for _, s0 := range pscripts(thorough) {
		// (1) one listing, every thread switch at a blocking point free (classical preemption bounding), as before
		if s0.consumers <= 1 {
			one := *s0
			one.passes = 1
			out = append(out, &vexp.Scenario{
				Name: one.name, BoundDelta: one.delta,
				Cfg: vsched.Config{MaxSteps: 20000, MaxIdleFires: 2, SelectCost: 1},
				New: func() vexp.Exec { return &pexec{sc: &one} },
			})
		}
		// (2) the SAME provider value listed again (and, where the script says so, by concurrent consumers). Free
		// switches multiply over consecutive listings, so these runs use delay bounding (SwitchCost 1): resuming a
		// thread other than the lowest-numbered enabled one costs a deviation as well.
		rep := *s0
		if rep.consumers <= 1 {
			rep.name += "/relisted"
			rep.passes = 2
		}
		out = append(out, &vexp.Scenario{
			Name: rep.name, BoundDelta: 0,
			Cfg: vsched.Config{MaxSteps: 40000, MaxIdleFires: 2, SelectCost: 1, SwitchCost: 1},
			New: func() vexp.Exec { return &pexec{sc: &rep} },
		})
	}
	return out
}

// ---------------------------------------------------------------------------
// part C: the reprovider itself under the controlled scheduler: Reprovide
// racing with SetKeyProvider / another Reprovide. The system is built by the
// real New in its offline form plus the router (export VerifNewNoWorkers), so
// no provide-worker goroutine exists; go-dsqueue's own goroutine is native,
// idle and never touches instrumented code.

type rscript struct {
	name    string
	kps     [][]int         // key providers (their key streams): kps[0] is installed at construction
	prio    map[int][][]int // kps[i] is a NewPrioritizedProvider over these streams (its keys: kps[i] = their union)
	threads [][]string      // actions: "rp" (Reprovide), "set:<i>" (SetKeyProvider(kps[i]))
	batch   int
	delta   int
}

type rev struct {
	kind string // rp-start rp-ret set-start set-ret announce
	thr  int
	kp   int
	err  string
	keys []int
}

type rexec struct {
	sc  *rscript
	log []rev
	sys provider.System
	kpv []provider.KeyChanFunc // ONE value per key provider for the whole execution, called once per pass
}

type schedRouter struct{ x *rexec }

func (r *schedRouter) Provide(ctx context.Context, c cid.Cid, announce bool) error {
	return r.ProvideMany(ctx, []mh.Multihash{c.Hash()})
}

func (r *schedRouter) ProvideMany(ctx context.Context, keys []mh.Multihash) error {
	var ks []int
	for _, h := range keys {
		k := -1
		for i, s := range syms {
			if string(s.c.Hash()) == string(h) {
				k = i
				break
			}
		}
		ks = append(ks, k)
	}
	sort.Ints(ks) // the batch is built by ranging over a map: its order is not an observation
	r.x.log = append(r.x.log, rev{kind: "announce", thr: vsched.CurrentThread(), keys: ks})
	vsched.Yield("router") // announcing takes time
	return nil
}

func (x *rexec) kp(i int) provider.KeyChanFunc { return x.kpv[i] }

func (x *rexec) mkKP(i int) provider.KeyChanFunc {
	if sts, ok := x.sc.prio[i]; ok {
		var fns []provider.KeyChanFunc
		for _, st := range sts {
			fns = append(fns, x.plainKP(st))
		}
		return provider.NewPrioritizedProvider(fns...)
	}
	return x.plainKP(x.sc.kps[i])
}

func (x *rexec) plainKP(keys []int) provider.KeyChanFunc {
	return func(context.Context) (<-chan cid.Cid, error) {
		ch := vsched.Reg(make(chan cid.Cid, len(keys)+1))
		for _, k := range keys {
			vsched.Send((chan<- cid.Cid)(ch), syms[k].c)
		}
		vsched.Close(ch)
		return ch, nil
	}
}

func (x *rexec) Main() {
	sc := x.sc
	for i := range sc.kps {
		x.kpv = append(x.kpv, x.mkKP(i))
	}
	ds := dssync.MutexWrap(datastore.NewMapDatastore())
	sys, err := provider.VerifNewNoWorkers(ds, &schedRouter{x}, provider.KeyProvider(x.kp(0)), provider.ReproviderInterval(0), provider.MaxBatchSize(uint(sc.batch)))
	if err != nil {
		panic(err)
	}
	x.sys = sys
	for t, acts := range sc.threads {
		t, acts := t, acts
		vsched.GoNamed(fmt.Sprintf("caller%d", t), true, func() {
			for _, a := range acts {
				if a == "rp" {
					x.log = append(x.log, rev{kind: "rp-start", thr: t, kp: vsched.CurrentThread()})
					err := sys.Reprovide(context.Background())
					e := ""
					if err != nil {
						e = err.Error()
					}
					x.log = append(x.log, rev{kind: "rp-ret", thr: t, err: e})
				} else {
					var i int
					fmt.Sscanf(a, "set:%d", &i)
					x.log = append(x.log, rev{kind: "set-start", thr: t, kp: i})
					sys.SetKeyProvider(x.kp(i))
					x.log = append(x.log, rev{kind: "set-ret", thr: t, kp: i})
				}
			}
		})
	}
}

func (x *rexec) AtEnd(*vsched.Result) {
	if x.sys != nil {
		provider.VerifCloseQueue(x.sys)
	}
}

func (x *rexec) logString() string {
	var sb strings.Builder
	for i, e := range x.log {
		fmt.Fprintf(&sb, "  %2d T%d %s", i, e.thr, e.kind)
		switch e.kind {
		case "announce":
			fmt.Fprintf(&sb, " %v", names(e.keys))
		case "set-start", "set-ret":
			fmt.Fprintf(&sb, " kp%d %v", e.kp, names(x.sc.kps[e.kp]))
		case "rp-ret":
			if e.err == "" {
				sb.WriteString(" -> nil")
			} else {
				sb.WriteString(" -> error: " + e.err)
			}
		}
		sb.WriteString("\n")
	}
	return sb.String()
}

func (x *rexec) Outcome() string {
	var sb strings.Builder
	for _, e := range x.log {
		switch e.kind {
		case "announce":
			fmt.Fprintf(&sb, "a%v ", names(e.keys))
		case "rp-ret":
			fmt.Fprintf(&sb, "rp%d=%v ", e.thr, e.err == "")
		case "set-ret":
			fmt.Fprintf(&sb, "set%d ", e.kp)
		}
	}
	return sb.String()
}

// Check: a Reprovide call that returned nil has announced, before it returned, every allowed key of the key
// provider that was current when the call started, or of a newer one (one whose SetKeyProvider had started
// before the call returned). An error return is always acceptable. No rejected key is ever announced.
func (x *rexec) Check(*vsched.Result) *eng.Violation {
	sc := x.sc
	for _, e := range x.log {
		if e.kind != "announce" {
			continue
		}
		for _, k := range e.keys {
			if k < 0 || !syms[k].allowed[0] {
				return eng.V("rejected-key-announced", "Reprovide", "a rejected or unknown key was announced\n"+x.logString(), "concurrent", "true")
			}
		}
		if len(e.keys) > sc.batch {
			return eng.V("batch-too-large", "Reprovide", fmt.Sprintf("batch of %d keys, MaxBatchSize %d\n%s", len(e.keys), sc.batch, x.logString()), "concurrent", "true")
		}
	}
	for r, e := range x.log {
		if e.kind != "rp-ret" || e.err != "" {
			continue
		}
		s := -1
		for j := r - 1; j >= 0; j-- {
			if x.log[j].kind == "rp-start" && x.log[j].thr == e.thr {
				s = j
				break
			}
		}
		// positions of the set calls; "current at start" = the last SetKeyProvider that returned before s
		cur, curStart := 0, -1
		for j := 0; j < s; j++ {
			if x.log[j].kind == "set-ret" {
				cur = x.log[j].kp
				for k := j - 1; k >= 0; k-- {
					if x.log[k].kind == "set-start" && x.log[k].thr == x.log[j].thr && x.log[k].kp == cur {
						curStart = k
						break
					}
				}
			}
		}
		cands := []int{cur}
		for j := 0; j < r; j++ {
			if x.log[j].kind == "set-start" {
				// not older than cur: its SetKeyProvider call did not return before cur's call started
				// (overlapping SetKeyProvider calls may take effect in either order)
				ret := len(x.log)
				for k := j + 1; k < len(x.log); k++ {
					if x.log[k].kind == "set-ret" && x.log[k].thr == x.log[j].thr && x.log[k].kp == x.log[j].kp {
						ret = k
						break
					}
				}
				if ret > curStart {
					cands = append(cands, x.log[j].kp)
				}
			}
		}
		// "has announced": the router calls made by this very call (same scheduler thread, between its start and its return)
		got := map[int]bool{}
		for j := s + 1; j < r; j++ {
			if x.log[j].kind == "announce" && x.log[j].thr == x.log[s].kp {
				for _, k := range x.log[j].keys {
					got[k] = true
				}
			}
		}
		ok := false
		for _, c := range cands {
			all := true
			for _, k := range sc.kps[c] {
				if syms[k].allowed[0] && !got[k] {
					all = false
				}
			}
			if all {
				ok = true
			}
		}
		if !ok {
			overlap := false
			for j := 0; j < r; j++ {
				if x.log[j].kind == "rp-start" && x.log[j].thr != e.thr {
					done := false
					for k := j + 1; k < s; k++ {
						if x.log[k].kind == "rp-ret" && x.log[k].thr == x.log[j].thr {
							done = true
						}
					}
					if !done {
						overlap = true
					}
				}
			}
			return eng.V("reprovide-nil-keys-not-announced", "Reprovide", fmt.Sprintf("Reprovide (caller %d) returned nil although the allowed keys of the key provider current at its start (kp%d %v) - or of a newer one - had not all been announced when it returned\n%s", e.thr, cur, names(sc.kps[cur]), x.logString()), "overlapping_pass", fmt.Sprint(overlap))
		}
	}
	return nil
}

func rscripts(thorough bool) []*rscript {
	A, B, C, D, X := symA, symB, symC, symD, symX
	ss := []*rscript{
		{name: "reprovide-vs-setkeyprovider", kps: [][]int{{A, X, B}, {C, D}}, threads: [][]string{{"rp"}, {"set:1"}}, delta: 1, batch: 1},
		{name: "reprovide-vs-set-reprovide", kps: [][]int{{A, B}, {C, X, D}}, threads: [][]string{{"rp"}, {"set:1", "rp"}}, delta: 1, batch: 1},
		{name: "reprovide-vs-reprovide", kps: [][]int{{A, B, X}}, threads: [][]string{{"rp"}, {"rp"}}, delta: 1, batch: 2},
		{name: "two-passes", kps: [][]int{{A, B, X}}, threads: [][]string{{"rp", "rp"}}, batch: 2},
		{name: "two-passes-prioritized", kps: [][]int{{A, B, C, X}}, prio: map[int][][]int{0: {{A, B}, {B, X, C}}}, threads: [][]string{{"rp", "rp"}}, batch: 2},
		{name: "prioritized-reprovide-vs-reprovide", kps: [][]int{{A, B, C}}, prio: map[int][][]int{0: {{A, B}, {B, C}}}, threads: [][]string{{"rp", "rp"}, {"rp"}}, batch: 1},
		{name: "set-reprovide-vs-set-reprovide", kps: [][]int{{A}, {B}, {C}}, threads: [][]string{{"set:1", "rp"}, {"set:2", "rp"}}, batch: 1},
	}
	if thorough {
		ss = append(ss, &rscript{name: "three-callers", kps: [][]int{{A, B}, {C, D}}, threads: [][]string{{"rp"}, {"set:1"}, {"rp"}}, batch: 1, delta: -1})
	}
	return ss
}

func rscenarios(thorough bool) []*vexp.Scenario {
	var out []*vexp.Scenario
	for _, s := range rscripts(thorough) {
		s := s
		cfg := vsched.Config{MaxSteps: 20000, MaxIdleFires: 2, SelectCost: 1}
		if len(s.prio) > 0 {
			cfg.SwitchCost = 1 // forwarder + producer threads on top of the callers: delay bounding
		}
		out = append(out, &vexp.Scenario{
			Name: s.name, BoundDelta: s.delta, Cfg: cfg,
			New: func() vexp.Exec { return &rexec{sc: s} },
		})
	}
	return out
}

func allScenarios(thorough bool) []*vexp.Scenario {
	return append(pscenarios(thorough), rscenarios(thorough)...)
}

// ---------------------------------------------------------------------------

func main() {
	eng.WorkerMain = func() {
		if os.Getenv("C44_SHARD") != "" {
			e2Worker()
			return
		}
		vexp.Register(allScenarios(true)...)
		eng.WorkerMain()
	}
	eng.Main("C44", "model_checking", func(r *eng.Run) {
		r.Rule("(A) every key stream (all words up to length L over {A, B(sha2-512), A2(same multihash as A), X(md5), S(16-byte digest)}, plus two ~200-key streams with duplicates and rejected keys) x every configuration (MaxBatchSize unset/0/1/2/3, ThroughputReport unset/0/1/3 with callback returning true/false, ProvideMany or single-Provide router, router failing its first call or not, default or sha2-256-only allowlist): New + Reprovide on the real rewritten provider package in passthrough mode, non-termination decided by a loop-iteration budget; a case is non-trivial when its stream is non-empty. (B) NewPrioritizedProvider with 1-4 streams under the controlled scheduler: every schedule with at most B deviations")
		r.Assume("go-dsqueue, go-datastore map store and the provide-worker goroutines are idle during Reprovide (a warm-up key is pushed through the queue first) and trusted")
		r.Assume("a key counts as announced when it is passed to the router's ProvideMany/Provide, whether or not the router reports success")
		r.Assume("allowlist verdicts of the 5 symbol classes are fixed by construction and cross-checked against verifcid.ValidateCid at start-up")
		reprovidePart(r)
		vexp.Explore(r, allScenarios(r.Thorough()), vexp.Options{Bound: eng.Pick(r, 2, 3)})
	}, func(r *eng.Run, raw json.RawMessage) {
		var probe map[string]json.RawMessage
		json.Unmarshal(raw, &probe)
		if _, ok := probe["word"]; ok {
			var c cfg
			if err := json.Unmarshal(raw, &c); err != nil {
				fmt.Println("bad replay:", err)
				return
			}
			fmt.Printf("  case: %s\n", describe(c))
			var viol *eng.Violation
			for pi, res := range runPasses(c) {
				fmt.Printf("  pass %d: nonterminating=%v err=%v keys-left-in-channel=%d router calls=%d callback calls=%v\n", pi+1, res.nonterm, res.err, res.left, len(res.batches), res.cbs)
				if v := judge(c, res, pi); v != nil && viol == nil {
					viol = v
				}
				for i, b := range res.batches {
					var ns []string
					for _, h := range b {
						n := "?"
						for _, s := range syms {
							if string(s.c.Hash()) == string(h) {
								n = s.name
								break
							}
						}
						ns = append(ns, n)
					}
					fmt.Printf("  router call %d: %v\n", i, ns)
				}
			}
			r.Eval(1)
			if v := viol; v != nil {
				r.Report(v)
			} else {
				fmt.Println("  replay: no violation")
			}
			return
		}
		vexp.Replay(r, allScenarios(true), raw)
	})
}
