//go:build verif

package provider

import (
	datastore "github.com/ipfs/go-datastore"
)

// VerifNewNoWorkers builds a reprovider with the real constructor in its
// offline form (so that New starts no goroutine of this package: no provide
// worker, no reprovide scheduler) and then installs the router exactly as New
// does for an online system. Used by the concurrency part of the C44 harness,
// where every goroutine that touches this package must be a scheduler thread.
func VerifNewNoWorkers(ds datastore.Batching, rsys Provide, opts ...Option) (System, error) {
	sys, err := New(ds, opts...)
	if err != nil {
		return nil, err
	}
	s := sys.(*reprovider)
	s.rsys = rsys
	if _, ok := rsys.(ProvideMany); !ok {
		s.maxReprovideBatchSize = 1
	}
	return s, nil
}

// VerifCloseQueue stops the (un-instrumented, idle) go-dsqueue goroutine of a system built by VerifNewNoWorkers.
func VerifCloseQueue(sys System) { sys.(*reprovider).q.Close() }
