//go:build verif

// C45: the autoconf cache survives interrupted writes.
//
// The autoconf package is compiled from a rewritten copy in which os.WriteFile
// / Remove / Rename / MkdirAll go through verifshim/vos (real file operations,
// logged, interruptible at every byte) and time.Now reads the harness clock.
// See harness.json level_text for what is enumerated.
package main

import (
	"bufio"
	"bytes"
	"context"
	"encoding/json"
	"fmt"
	"io"
	"net/http"
	"os"
	"os/exec"
	"path/filepath"
	"regexp"
	"runtime"
	"sort"
	"strings"
	"sync"
	"time"

	"github.com/ipfs/boxo/autoconf"
	"github.com/ipfs/boxo/verifshim/eng"
	"github.com/ipfs/boxo/verifshim/vos"
	"github.com/ipfs/boxo/verifshim/vsched"
)

// ---------------------------------------------------------------- clock

var now time.Time

const baseUnix = 1_700_000_000

func init() { vsched.SetPassthroughClock(func() time.Time { return now }) }

// ---------------------------------------------------------------- versions

const cfgURL = "http://autoconf.verif.invalid/autoconf.json"

type version struct {
	n       int
	payload []byte // exactly what the server sends
	canon   string // canonical form of the parsed configuration
	etag    string
	lastMod string
}

func canonOf(c *autoconf.Config) string {
	if c == nil {
		return "<nil>"
	}
	b, err := json.Marshal(c)
	if err != nil {
		return "<unmarshalable: " + err.Error() + ">"
	}
	return string(b)
}

// makeVersions builds v1..v4: all valid for the client's validator, pairwise
// different, of different lengths (shorter and longer than the predecessor) and
// different formattings (compact, indented, trailing newline).
func makeVersions(big bool) []*version {
	var vs []*version
	for n := 1; n <= 4; n++ {
		var c *autoconf.Config
		if big {
			c = autoconf.GetMainnetFallbackConfig()
			c.AutoConfVersion = 2025090000 + int64(n)
			c.DNSResolvers = map[string][]string{"eth.": {"https://dns.eth.limo/dns-query"}}
			for i := 0; i < n; i++ {
				c.DNSResolvers[fmt.Sprintf("v%d.", i)] = []string{fmt.Sprintf("https://doh%d.example.net/dns-query", n)}
			}
			if n%2 == 0 { // even versions are shorter
				delete(c.SystemRegistry, "Example")
				delete(c.DelegatedEndpoints, "https://example.com")
			}
		} else {
			c = &autoconf.Config{
				AutoConfVersion: 2025090000 + int64(n),
				AutoConfSchema:  autoconf.SupportedAutoConfSchema,
				SystemRegistry: map[string]autoconf.SystemConfig{
					autoconf.SystemAminoDHT: {
						URL:          "https://example.org/dht",
						NativeConfig: &autoconf.NativeConfig{Bootstrap: []string{fmt.Sprintf("/ip4/10.0.0.%d/tcp/4001", n)}},
					},
				},
				DNSResolvers: map[string][]string{"eth.": {"https://dns.eth.limo/dns-query"}},
			}
			if n%2 == 1 { // odd versions are longer
				c.DelegatedEndpoints = map[string]autoconf.EndpointConfig{
					"https://delegated.example.org": {Systems: []string{autoconf.SystemAminoDHT}, Read: []string{"/routing/v1/providers"}, Write: []string{}},
				}
			}
		}
		var p []byte
		switch n {
		case 1, 3:
			p, _ = json.Marshal(c)
		case 2:
			p, _ = json.MarshalIndent(c, "", " ")
			p = append(p, '\n')
		default:
			p, _ = json.MarshalIndent(c, "", "\t")
		}
		var parsed autoconf.Config
		if err := json.Unmarshal(p, &parsed); err != nil {
			panic(err)
		}
		vs = append(vs, &version{n: n, payload: p, canon: canonOf(&parsed),
			etag:    fmt.Sprintf("\"etag-v%d\"", n),
			lastMod: time.Unix(baseUnix-86400+int64(n)*3600, 0).UTC().Format(http.TimeFormat)})
	}
	return vs
}

var fallbackCanon = canonOf(autoconf.GetMainnetFallbackConfig())

// ---------------------------------------------------------------- fake server

type fakeRT struct {
	v       *version
	hdr     string // etag | lastmod | both | none
	down    bool
	calls   int
	got304  int
	lastReq http.Header
}

func (f *fakeRT) RoundTrip(req *http.Request) (*http.Response, error) {
	f.calls++
	f.lastReq = req.Header.Clone()
	if f.down {
		return nil, fmt.Errorf("network unreachable (harness)")
	}
	h := http.Header{}
	useEtag := f.hdr == "etag" || f.hdr == "both"
	useLM := f.hdr == "lastmod" || f.hdr == "both"
	if useEtag {
		h.Set("ETag", f.v.etag)
	}
	if useLM {
		h.Set("Last-Modified", f.v.lastMod)
	}
	resp := &http.Response{Proto: "HTTP/1.1", ProtoMajor: 1, ProtoMinor: 1, Header: h, Request: req}
	if (useEtag && req.Header.Get("If-None-Match") == f.v.etag) ||
		(useLM && req.Header.Get("If-None-Match") == "" && req.Header.Get("If-Modified-Since") == f.v.lastMod) {
		f.got304++
		resp.StatusCode, resp.Status = 304, "304 Not Modified"
		resp.Body = io.NopCloser(bytes.NewReader(nil))
		return resp, nil
	}
	resp.StatusCode, resp.Status = 200, "200 OK"
	h.Set("Content-Type", "application/json")
	resp.ContentLength = int64(len(f.v.payload))
	resp.Body = io.NopCloser(bytes.NewReader(f.v.payload))
	return resp, nil
}

func newClient(dir string, rt *fakeRT, cacheSize int) *autoconf.Client {
	c, err := autoconf.NewClient(
		autoconf.WithHTTPClient(&http.Client{Transport: rt}),
		autoconf.WithCacheDir(dir),
		autoconf.WithCacheSize(cacheSize),
		autoconf.WithURL(cfgURL),
		autoconf.WithRefreshInterval(time.Nanosecond), // every GetLatest asks the server
	)
	if err != nil {
		panic(err)
	}
	return c
}

// ---------------------------------------------------------------- variants

type variant struct {
	K         int    `json:"k"`          // earlier successful updates
	Gaps      string `json:"gaps"`       // one letter per update 2..K+1: 's' same second as the previous update, 'n' a later second
	CacheSize int    `json:"cache_size"` // WithCacheSize
	Hdr       string `json:"hdr"`        // validators the server sends
	Big       bool   `json:"big"`        // full-size payloads
}

func (v variant) String() string {
	return fmt.Sprintf("k=%d gaps=%q cache=%d hdr=%s big=%v", v.K, v.Gaps, v.CacheSize, v.Hdr, v.Big)
}

func variants(thorough bool) []variant {
	var out []variant
	sizes := []int{1, 3}
	hdrs := []string{"both", "none"}
	if thorough {
		sizes = []int{1, 2, 3}
		hdrs = []string{"etag", "lastmod", "both", "none"}
	}
	for k := 0; k <= 3; k++ {
		var pats []string
		if thorough {
			for m := 0; m < 1<<k; m++ {
				p := ""
				for i := 0; i < k; i++ {
					if m>>i&1 == 1 {
						p += "s"
					} else {
						p += "n"
					}
				}
				pats = append(pats, p)
			}
		} else {
			pats = []string{strings.Repeat("n", k)}
			if k > 0 {
				pats = append(pats, strings.Repeat("n", k-1)+"s")
			}
			if k > 1 {
				pats = append(pats, strings.Repeat("s", k))
			}
		}
		for _, p := range pats {
			for _, cs := range sizes {
				for _, h := range hdrs {
					out = append(out, variant{K: k, Gaps: p, CacheSize: cs, Hdr: h, Big: thorough})
				}
			}
		}
	}
	return out
}

// clockFor returns the virtual time of update number u (1-based).
func (v variant) clockFor(u int) time.Time {
	t := time.Unix(baseUnix, 100e6).UTC() // xx.100 s: never on a second boundary
	for i := 2; i <= u; i++ {
		if v.Gaps[i-2] == 's' {
			t = t.Add(200 * time.Millisecond) // up to 3 updates inside one second
		} else {
			t = time.Unix(t.Unix()+1, 100e6).UTC().Add(time.Duration(i) * time.Second) // >= 1 s later
		}
	}
	return t
}

// ---------------------------------------------------------------- directory snapshots

type snap map[string][]byte // relative path -> content ("dir/" entries have nil content)

func takeSnap(root string) snap {
	s := snap{}
	filepath.Walk(root, func(p string, fi os.FileInfo, err error) error {
		if err != nil || p == root {
			return nil
		}
		rel, _ := filepath.Rel(root, p)
		if fi.IsDir() {
			s[rel+"/"] = nil
			return nil
		}
		b, err := os.ReadFile(p)
		if err != nil {
			panic(err)
		}
		s[rel] = b
		return nil
	})
	return s
}

func (s snap) restore(root string) {
	if err := os.RemoveAll(root); err != nil {
		panic(err)
	}
	if err := os.MkdirAll(root, 0o755); err != nil {
		panic(err)
	}
	names := make([]string, 0, len(s))
	for n := range s {
		names = append(names, n)
	}
	sort.Strings(names)
	for _, n := range names {
		p := filepath.Join(root, n)
		if strings.HasSuffix(n, "/") {
			os.MkdirAll(p, 0o755)
			continue
		}
		os.MkdirAll(filepath.Dir(p), 0o755)
		if err := os.WriteFile(p, s[n], 0o600); err != nil {
			panic(err)
		}
	}
}

func (s snap) describe() string {
	names := make([]string, 0, len(s))
	for n := range s {
		names = append(names, n)
	}
	sort.Strings(names)
	var sb strings.Builder
	for _, n := range names {
		if strings.HasSuffix(n, "/") {
			fmt.Fprintf(&sb, "    %s\n", n)
		} else {
			fmt.Fprintf(&sb, "    %s (%d bytes)\n", n, len(s[n]))
		}
	}
	return sb.String()
}

// ---------------------------------------------------------------- one variant

type result struct {
	Evals      int               `json:"evals"`
	Nontrivial int               `json:"nontrivial"`
	Outcomes   map[string]int    `json:"outcomes"`
	Counters   map[string]int    `json:"counters"`
	Violations []*eng.Violation  `json:"violations"`
	Sample     any               `json:"sample,omitempty"`
	vsigs      map[string]bool
}

func newResult() *result {
	return &result{Outcomes: map[string]int{}, Counters: map[string]int{}, vsigs: map[string]bool{}}
}

func (r *result) report(v *eng.Violation) {
	// keep the first (smallest crash point) violation per defect class and variant
	ks := make([]string, 0, len(v.Features))
	for k, x := range v.Features {
		ks = append(ks, k+"="+x)
	}
	sort.Strings(ks)
	sig := v.Symptom + "|" + v.Op + "|" + strings.Join(ks, "|")
	r.Counters["viol:"+v.Symptom]++
	if r.vsigs[sig] {
		return
	}
	r.vsigs[sig] = true
	r.Violations = append(r.Violations, v)
}

type replayRec struct {
	Variant variant `json:"variant"`
	Stage   string  `json:"stage"` // "crash" | "complete" | "pre"
	Op      int     `json:"op"`
	Step    int     `json:"step"`
}

var cfgFileRe = regexp.MustCompile(`^autoconf-\d+\.json$`)

func opClass(o vos.OpRec) string {
	p := o.Path
	if i := strings.Index(p, " -> "); i >= 0 {
		p = p[i+4:]
	}
	b := filepath.Base(p)
	switch o.Kind {
	case "WriteFile":
		switch {
		case cfgFileRe.MatchString(b):
			return "config-write"
		case strings.Contains(b, "autoconf-"):
			return "config-temp-write"
		case b == ".etag":
			return "etag-write"
		case b == ".last-modified":
			return "lastmod-write"
		case b == ".last-refresh":
			return "refresh-write"
		}
		return "other-write"
	case "Remove", "RemoveAll":
		return "remove"
	case "Rename":
		if cfgFileRe.MatchString(b) {
			return "config-rename"
		}
		return "rename"
	case "MkdirAll", "Mkdir":
		return "mkdir"
	}
	return strings.ToLower(o.Kind)
}

type runner struct {
	v        variant
	vs       []*version
	root     string
	res      *result
	verbose  bool
}

// update performs update number u (serving version u) with a fresh client, as a
// process that runs, fetches once and exits would.
func (x *runner) update(u int) (*autoconf.Response, error, *fakeRT) {
	now = x.v.clockFor(u)
	rt := &fakeRT{v: x.vs[u-1], hdr: x.v.Hdr}
	c := newClient(x.root, rt, x.v.CacheSize)
	resp, err := c.GetLatest(context.Background())
	return resp, err, rt
}

// recovered is what a restarted process sees.
func (x *runner) recovered(u int) string {
	now = x.v.clockFor(u).Add(50 * time.Millisecond)
	c := newClient(x.root, &fakeRT{down: true}, x.v.CacheSize)
	return canonOf(c.GetCached())
}

// offlineRefresh: informational second reader (GetCachedOrRefresh with the network down).
func (x *runner) offlineRefresh(u int) string {
	now = x.v.clockFor(u).Add(50 * time.Millisecond)
	c := newClient(x.root, &fakeRT{down: true}, x.v.CacheSize)
	return canonOf(c.GetCachedOrRefresh(context.Background()))
}

func (x *runner) name(canon string) string {
	if canon == fallbackCanon {
		return "fallback"
	}
	for _, v := range x.vs {
		if v.canon == canon {
			return fmt.Sprintf("v%d", v.n)
		}
	}
	return "other"
}

// diskState inspects the config files left on disk.
func (x *runner) diskState() (newest string, validOnDisk bool, listing string) {
	s := takeSnap(x.root)
	listing = s.describe()
	var names []string
	for n := range s {
		if cfgFileRe.MatchString(filepath.Base(n)) {
			names = append(names, n)
		}
	}
	sort.Slice(names, func(i, j int) bool { return filepath.Base(names[i]) > filepath.Base(names[j]) })
	newest = "none"
	for i, n := range names {
		var c autoconf.Config
		ok := json.Unmarshal(s[n], &c) == nil && strings.HasPrefix(x.name(canonOf(&c)), "v")
		if ok {
			validOnDisk = true
		}
		if i == 0 {
			if ok {
				newest = "complete"
			} else {
				newest = "torn"
			}
		}
	}
	return
}

func (x *runner) run(only *replayRec) {
	v := x.v
	K := v.K
	vr := func(stage string, i, j int) replayRec { return replayRec{Variant: v, Stage: stage, Op: i, Step: j} }
	same := K > 0 && v.Gaps[K-1] == 's'
	// --- K earlier successful updates
	os.RemoveAll(x.root)
	os.MkdirAll(x.root, 0o755)
	vos.Reset()
	for u := 1; u <= K; u++ {
		resp, err, _ := x.update(u)
		if err != nil || resp == nil || canonOf(resp.Config) != x.vs[u-1].canon {
			x.res.report(&eng.Violation{Symptom: "update-failed", Op: "GetLatest", Detail: fmt.Sprintf("%v: update %d: err=%v", v, u, err), Replay: vr("pre", u, 0)})
			return
		}
		if got := x.recovered(u); got != x.vs[u-1].canon {
			_, _, ls := x.diskState()
			x.res.report(&eng.Violation{Symptom: "completed-update-not-visible", Op: "GetCached",
				Features: map[string]string{"same_second": fmt.Sprint(u > 1 && v.Gaps[u-2] == 's')},
				Detail:   fmt.Sprintf("%v: after %d complete updates a new client's GetCached() returns %s, want v%d\n  cache directory:\n%s", v, u, x.name(got), u, ls), Replay: vr("pre", u, 0)})
			return
		}
	}
	base := takeSnap(x.root)
	U := K + 1
	newV, prevCanon := x.vs[U-1], ""
	if K > 0 {
		prevCanon = x.vs[K-1].canon
	}
	// --- learn the operations of the update
	vos.Reset()
	resp, err, rt := x.update(U)
	ops := vos.Ops()
	if err != nil || resp == nil || canonOf(resp.Config) != newV.canon {
		x.res.report(&eng.Violation{Symptom: "update-failed", Op: "GetLatest", Detail: fmt.Sprintf("%v: update %d: err=%v", v, U, err), Replay: vr("complete", 0, 0)})
		return
	}
	if rt.calls != 1 || rt.got304 != 0 {
		panic(fmt.Sprintf("harness: %v: update %d made %d requests, %d answered 304", v, U, rt.calls, rt.got304))
	}
	x.res.Evals++
	if got := x.recovered(U); got != newV.canon {
		_, _, ls := x.diskState()
		x.res.report(&eng.Violation{Symptom: "completed-update-not-visible", Op: "GetCached",
			Features: map[string]string{"same_second": fmt.Sprint(same)},
			Detail:   fmt.Sprintf("%v: after the complete update %d a new client's GetCached() returns %s, want v%d\n  cache directory:\n%s", v, U, x.name(got), U, ls), Replay: vr("complete", 0, 0)})
	}
	for _, o := range ops {
		x.res.Counters["ops:"+opClass(o)]++
	}
	if len(ops) == 0 {
		panic(fmt.Sprintf("harness: %v: the update performed no mutating file operation", v))
	}
	if x.res.Sample == nil {
		x.res.Sample = map[string]any{"variant": v, "ops_of_the_crashing_update": ops, "payload_bytes": len(newV.payload)}
	}
	// --- every crash point
	for i, o := range ops {
		for j := 0; j < o.Steps; j++ {
			if only != nil && (only.Op != i || only.Step != j) {
				continue
			}
			base.restore(x.root)
			vos.Arm(i, j)
			crashed := false
			func() {
				defer func() {
					if e := recover(); e != nil {
						if _, ok := e.(vos.Crash); ok {
							crashed = true
							return
						}
						panic(e)
					}
				}()
				x.update(U)
			}()
			if !crashed {
				panic(fmt.Sprintf("harness: %v: crash point (%d,%d) of %v not reached on re-execution (non-deterministic update?)", v, i, j, o))
			}
			vos.Reset()
			x.res.Evals++
			got := x.recovered(U)
			gname := x.name(got)
			newest, validOnDisk, listing := x.diskState()
			cls := opClass(o)
			if o.Kind == "WriteFile" && j >= 1 && j <= o.Size {
				x.res.Nontrivial++ // a really torn state: file truncated / partially written
			}
			x.res.Outcomes[fmt.Sprintf("k=%d same=%v %s newest=%s -> %s", K, same, cls, newest, relName(gname, U))]++
			feat := map[string]string{"same_second": fmt.Sprint(same), "crash_op": cls, "newest_file": newest, "valid_file_on_disk": fmt.Sprint(validOnDisk)}
			mk := func(sym, why string) *eng.Violation {
				return &eng.Violation{Symptom: sym, Op: "GetCached", Features: feat, Replay: vr("crash", i, j),
					Detail: fmt.Sprintf("%v: %d earlier successful updates (v1..v%d); update %d (v%d, %d bytes) stopped at operation %d (%s %s) step %d of %d; a new client's GetCached() returns %s: %s\n  cache directory after the stop:\n%s",
						v, K, K, U, U, len(newV.payload), i, o.Kind, filepath.Base(o.Path), j, o.Steps, gname, why, listing)}
			}
			switch {
			case got == newV.canon, K > 0 && got == prevCanon:
				// the new configuration or the newest earlier one
			case got == fallbackCanon && validOnDisk:
				x.res.report(mk("fallback-while-valid-cache-exists", "the built-in fallback although a complete, valid cached version is on disk"))
			case got == fallbackCanon && K > 0:
				x.res.report(mk("earlier-version-lost", fmt.Sprintf("the built-in fallback; v%d had been fetched, validated and cached, and the interrupted update destroyed it", K)))
			case got == fallbackCanon:
				// nothing was ever cached completely: the fallback is the only possible answer
				x.res.Counters["fallback_with_nothing_cached"]++
			case strings.HasPrefix(gname, "v"):
				x.res.report(mk("stale-older-version", fmt.Sprintf("an older version, neither the new one (v%d) nor the newest earlier one (v%d)", U, K)))
			default:
				x.res.report(mk("corrupt-config", "a configuration that was never fetched: "+trunc(got, 300)))
			}
			// informational: the other reader, with the network down
			if only != nil || (j%16 == 0 || j >= o.Steps-2) {
				off := x.offlineRefresh(U)
				if off == fallbackCanon && validOnDisk {
					x.res.Counters["info_offline_GetCachedOrRefresh_fallback_with_valid_file:"+cls]++
				}
				if only != nil {
					fmt.Printf("  GetCachedOrRefresh (network down) -> %s\n", x.name(off))
				}
			}
			if only != nil {
				fmt.Printf("  %v\n  stop at op %d (%s %s) step %d/%d\n  cache directory:\n%s  GetCached() on a new client -> %s (allowed: v%d", v, i, o.Kind, o.Path, j, o.Steps, listing, gname, U)
				if K > 0 {
					fmt.Printf(", v%d", K)
				}
				fmt.Println(")")
			}
		}
	}
}

func relName(g string, U int) string {
	switch g {
	case fmt.Sprintf("v%d", U):
		return "new"
	case fmt.Sprintf("v%d", U-1):
		return "prev"
	}
	if strings.HasPrefix(g, "v") {
		return "older"
	}
	return g
}

func trunc(s string, n int) string {
	if len(s) > n {
		return s[:n] + "…"
	}
	return s
}

func runVariant(v variant, root string, only *replayRec) *result {
	res := newResult()
	x := &runner{v: v, vs: makeVersions(v.Big), root: root, res: res}
	x.run(only)
	return res
}

// ---------------------------------------------------------------- workers (vos and the clock are process-global)

// workDir returns the directory under which cache directories are created:
// a tmpfs directory made by the parent (C45_WORK) when available, else the
// private scratch directory of the run.
func workDir() string {
	if d := os.Getenv("C45_WORK"); d != "" {
		return d
	}
	return "."
}

// fatal ends the run with an infrastructure error, removing the tmpfs directory first.
func fatal() {
	if d := os.Getenv("C45_WORK"); d != "" {
		os.RemoveAll(d)
	}
	os.Exit(2)
}

func workerMain() {
	runtime.GOMAXPROCS(2)
	root, err := os.MkdirTemp(workDir(), "w")
	if err != nil {
		fmt.Fprintln(os.Stderr, err)
		os.Exit(2)
	}
	root, _ = filepath.Abs(root)
	in := bufio.NewReaderSize(os.Stdin, 1<<16)
	out := bufio.NewWriter(os.Stdout)
	for {
		line, err := in.ReadBytes('\n')
		if len(bytes.TrimSpace(line)) > 0 {
			var v variant
			if e := json.Unmarshal(line, &v); e != nil {
				fmt.Fprintln(os.Stderr, "worker: bad item:", e)
				os.Exit(2)
			}
			b, _ := json.Marshal(runVariant(v, filepath.Join(root, "cache"), nil))
			out.Write(b)
			out.WriteByte('\n')
			out.Flush()
		}
		if err != nil {
			return
		}
	}
}

func merge(r *eng.Run, res *result) {
	r.Eval(res.Evals)
	r.SetDistinctCount(res.Nontrivial)
	for k := range res.Outcomes {
		r.Outcome(k)
	}
	for k, n := range res.Counters {
		r.Add(k, n)
	}
	for k, n := range res.Outcomes {
		r.Add("outcome: "+k, n)
	}
	for _, v := range res.Violations {
		r.Report(v)
	}
	if res.Sample != nil {
		r.Sample(res.Sample)
	}
}

func body(r *eng.Run) {
	r.Rule("for every variant (k earlier updates x same-second/next-second gap pattern x cache size x validators) the update k+1 is executed once to list its mutating file operations, then re-executed from the restored directory snapshot and stopped at EVERY (operation, step): before it, after create/truncate, after every byte written, after it; a NEW client then calls GetCached(). Non-trivial case = a stop that leaves a truncated/partially written file")
	r.Assume("crash = process stop: effects before the stop are on disk, none after; no write reordering / fsync modelling; real file system in a scratch directory")
	r.Assume("one updating process at a time; HTTP served by an in-process RoundTripper (no sockets)")
	vs := variants(r.Thorough())
	r.Set("variants", len(vs))
	big := makeVersions(r.Thorough())
	sz := []int{}
	for _, v := range big {
		sz = append(sz, len(v.payload))
	}
	r.Set("payload_sizes_v1_v4", sz)
	nw := runtime.NumCPU()
	if nw > len(vs) {
		nw = len(vs)
	}
	// the cases are dominated by file-system calls: use a memory file system when there is one
	if d, err := os.MkdirTemp("/dev/shm", "verif-C45-"); err == nil {
		defer os.RemoveAll(d)
		os.Setenv("C45_WORK", d)
		r.Set("work_dir", "tmpfs (/dev/shm)")
	} else {
		r.Set("work_dir", "scratch directory")
	}
	bin := os.Getenv("VERIF_BIN")
	if bin == "" || nw <= 1 {
		root, _ := filepath.Abs(filepath.Join(workDir(), "cache-main"))
		for _, v := range vs {
			if r.Expired() {
				r.Incomplete("budget expired")
				break
			}
			merge(r, runVariant(v, root, nil))
		}
		return
	}
	// biggest variants first
	sort.SliceStable(vs, func(i, j int) bool { return vs[i].K > vs[j].K })
	q := make(chan variant, len(vs))
	for _, v := range vs {
		q <- v
	}
	close(q)
	var mu sync.Mutex
	var wg sync.WaitGroup
	done := 0
	for w := 0; w < nw; w++ {
		wg.Add(1)
		go func() {
			defer wg.Done()
			cmd := exec.Command(bin, "-worker")
			cmd.Stderr = os.Stderr
			stdin, _ := cmd.StdinPipe()
			stdout, _ := cmd.StdoutPipe()
			if err := cmd.Start(); err != nil {
				fmt.Fprintln(os.Stderr, "cannot start worker:", err)
				fatal()
			}
			rd := bufio.NewReaderSize(stdout, 1<<20)
			for v := range q {
				if r.Expired() {
					r.Incomplete("budget expired before variant " + v.String())
					continue
				}
				b, _ := json.Marshal(v)
				stdin.Write(append(b, '\n'))
				line, err := rd.ReadBytes('\n')
				if err != nil {
					fmt.Fprintf(os.Stderr, "worker died on variant %s: %v\n", b, err)
					fatal()
				}
				res := newResult()
				if e := json.Unmarshal(line, res); e != nil {
					fmt.Fprintln(os.Stderr, "bad worker reply:", e)
					fatal()
				}
				mu.Lock()
				merge(r, res)
				done++
				mu.Unlock()
			}
			stdin.Close()
			cmd.Wait()
		}()
	}
	wg.Wait()
	r.Set("variants_completed", done)
}

func replay(r *eng.Run, raw json.RawMessage) {
	var rp replayRec
	if err := json.Unmarshal(raw, &rp); err != nil {
		fmt.Println("bad replay:", err)
		return
	}
	root, _ := filepath.Abs("cache-replay")
	var res *result
	if rp.Stage == "crash" {
		res = runVariant(rp.Variant, root, &rp)
	} else {
		// violations of the complete runs: re-run the whole variant, keep those of that stage
		res = runVariant(rp.Variant, root, &replayRec{Op: -1, Step: -1})
	}
	r.Eval(res.Evals)
	n := 0
	for _, v := range res.Violations {
		r.Report(v)
		n++
	}
	if n == 0 {
		fmt.Println("  replay: no violation")
	}
}

func main() {
	eng.WorkerMain = workerMain
	eng.Main("C45", "fault_enumeration", body, replay)
}
