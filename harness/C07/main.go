//go:build verif

package main

import (
	"bytes"
	"context"
	"encoding/json"
	"fmt"
	"io"
	"os"
	"runtime/pprof"
	"strconv"
	"sync"
	"time"

	chunk "github.com/ipfs/boxo/chunker"
	dag "github.com/ipfs/boxo/ipld/merkledag"
	"github.com/ipfs/boxo/ipld/unixfs/importer/balanced"
	h "github.com/ipfs/boxo/ipld/unixfs/importer/helpers"
	"github.com/ipfs/boxo/ipld/unixfs/importer/trickle"
	uio "github.com/ipfs/boxo/ipld/unixfs/io"
	"github.com/ipfs/boxo/verifshim/eng"
	cid "github.com/ipfs/go-cid"
	ipld "github.com/ipfs/go-ipld-format"
	mh "github.com/multiformats/go-multihash"
)

// ---------------------------------------------------------------------------
// case description

type caseD struct {
	Layout  string `json:"layout"`  // balanced | trickle
	W       int    `json:"w"`       // DAG width (Maxlinks)
	Chunker string `json:"chunker"` // chunker spec
	N       int    `json:"n"`       // input length in bytes
	Raw     bool   `json:"raw_leaves"`
	Builder string `json:"builder"` // nil | v0 | v1 | v1blake | v1id
	Mode    uint32 `json:"mode"`    // os.FileMode bits
	Mtime   string `json:"mtime"`   // zero | 1.5s | -1s | epoch
}

var mtimes = map[string]time.Time{
	"zero":  {},
	"1.5s":  time.Unix(1, 500000000),
	"-1s":   time.Unix(-1, 0),
	"epoch": time.Unix(0, 0),
}

func builderOf(name string) cid.Builder {
	switch name {
	case "nil":
		return nil
	case "v0":
		return dag.V0CidPrefix()
	case "v1":
		return dag.V1CidPrefix()
	case "v1blake":
		p := dag.V1CidPrefix()
		p.MhType = mh.BLAKE2B_MIN + 31
		p.MhLength = -1
		return p
	case "v1id":
		p := dag.V1CidPrefix()
		p.MhType = mh.IDENTITY
		p.MhLength = -1
		return p
	}
	panic("unknown builder " + name)
}

var (
	inputOnce sync.Once
	inputBuf  []byte
)

const inputCap = 8 << 20

// input returns the first n bytes of a fixed xorshift stream (so that
// content-defined chunkers see varied data and equal-length leaves differ).
func input(n int) []byte {
	inputOnce.Do(func() {
		inputBuf = make([]byte, inputCap)
		s := uint64(0x9E3779B97F4A7C15)
		for i := 0; i < len(inputBuf); {
			s ^= s << 13
			s ^= s >> 7
			s ^= s << 17
			v := s
			for k := 0; k < 8 && i < len(inputBuf); k++ {
				inputBuf[i] = byte(v)
				v >>= 8
				i++
			}
		}
	})
	if n > len(inputBuf) {
		panic("input too long")
	}
	return inputBuf[:n:n]
}

func (c caseD) features(rootRawLeaf bool) []string {
	return []string{"layout", c.Layout, "raw_leaves", strconv.FormatBool(c.Raw), "root_is_raw_leaf", strconv.FormatBool(rootRawLeaf),
		"has_mode", strconv.FormatBool(c.Mode != 0), "has_mtime", strconv.FormatBool(c.Mtime != "zero")}
}

type result struct {
	root        cid.Cid
	leaves      int
	depth       int // balanced: leaf depth; trickle: deepest layer at the root
	rootRawLeaf bool
}

func build(c caseD, ds *memDag, data []byte) (ipld.Node, error) {
	spl, err := chunk.FromString(bytes.NewReader(data), c.Chunker)
	if err != nil {
		return nil, err
	}
	p := h.DagBuilderParams{Maxlinks: c.W, RawLeaves: c.Raw, CidBuilder: builderOf(c.Builder), Dagserv: ds,
		FileMode: os.FileMode(c.Mode), FileModTime: mtimes[c.Mtime]}
	db, err := p.New(spl)
	if err != nil {
		return nil, err
	}
	if c.Layout == "balanced" {
		return balanced.Layout(db)
	}
	return trickle.Layout(db)
}

// runCase builds the file once, checks everything the statement says about
// it, and returns the violations found.
func runCase(c caseD, full bool) (res result, out []*eng.Violation) {
	ctx := context.Background()
	data := input(c.N)
	ds := newMemDag()
	feat := c.features(false)
	fail := func(sym, op, detail string) {
		v := eng.V(sym, op, fmt.Sprintf("%+v: %s", c, detail), feat...)
		v.Replay = c
		out = append(out, v)
	}
	var root ipld.Node
	var err error
	if pv := eng.Guard("Layout", func() { root, err = build(c, ds, data) }); pv != nil {
		pv.Features = map[string]string{"layout": c.Layout}
		pv.Replay = c
		return res, append(out, pv)
	}
	if err != nil {
		fail("import-error", "Layout", err.Error())
		return
	}
	res.root = root.Cid()
	if !full {
		return
	}
	// everything below works on what was stored, decoded from bytes
	stored, err := ds.Get(ctx, root.Cid())
	if err != nil {
		fail("root-not-stored", "Layout", err.Error())
		return
	}
	_, res.rootRawLeaf = stored.(*dag.RawNode)
	feat = c.features(res.rootRawLeaf)

	// content, size, attributes through the DagReader
	var dr uio.DagReader
	var got []byte
	if pv := eng.Guard("DagReader", func() {
		dr, err = uio.NewDagReader(ctx, stored, ds)
		if err == nil {
			got, err = io.ReadAll(dr)
		}
	}); pv != nil {
		pv.Features = map[string]string{"layout": c.Layout}
		pv.Replay = c
		return res, append(out, pv)
	}
	if err != nil {
		fail("read-error", "DagReader", err.Error())
		return
	}
	if !bytes.Equal(got, data) {
		fail("content-mismatch", "DagReader", fmt.Sprintf("read back %d bytes, differ from the %d input bytes", len(got), len(data)))
	}
	if dr.Size() != uint64(c.N) {
		fail("size-mismatch", "DagReader", fmt.Sprintf("Size()=%d want %d", dr.Size(), c.N))
	}
	wantMode, wantMtime := os.FileMode(c.Mode), mtimes[c.Mtime]
	if dr.Mode() != wantMode {
		fail("mode-not-carried", "Layout", fmt.Sprintf("file mode %o, requested %o", dr.Mode(), wantMode))
	}
	if !dr.ModTime().Equal(wantMtime) {
		fail("mtime-not-carried", "Layout", fmt.Sprintf("file mtime %v, requested %v", dr.ModTime().UTC(), wantMtime.UTC()))
	}

	// size bookkeeping of every node + shape
	t, cerr := loadTree(ctx, ds, root.Cid(), "root")
	if cerr != nil {
		fail(cerr.symptom, "Layout", cerr.detail)
		return
	}
	if t.size != uint64(c.N) {
		fail("tree-content-length-mismatch", "Layout", fmt.Sprintf("leaves hold %d bytes, input has %d", t.size, c.N))
	}
	if c.Layout == "balanced" {
		d, l, cerr := checkBalanced(t, c.W)
		res.depth, res.leaves = d, l
		if cerr != nil {
			fail(cerr.symptom, "Layout", cerr.detail)
		}
	} else {
		min, max := -1, 0
		t.leafDepths(0, &min, &max, &res.leaves)
		if t.leaf {
			if c.N != 0 || t.raw {
				fail("trickle-root-is-leaf", "Layout", "trickle root carries data directly")
			}
			res.leaves = 0
		} else {
			layers, cerr := checkTrickle(t, -1, c.W, "root")
			res.depth = layers
			if cerr != nil {
				fail(cerr.symptom, "Layout", cerr.detail)
			}
		}
		if verr := trickle.VerifyTrickleDagStructure(stored, trickle.VerifyParams{Getter: ds, Direct: c.W, LayerRepeat: 4, RawLeaves: c.Raw}); verr != nil {
			fail("verify-trickle-structure-failed", "VerifyTrickleDagStructure", verr.Error())
		}
	}
	return res, out
}

// checkCase = runCase twice (determinism of the root CID).
func checkCase(r *eng.Run, c caseD) result {
	res, vs := runCase(c, true)
	r.Eval(1)
	for _, v := range vs {
		r.Report(v)
	}
	if len(vs) == 0 || res.root.Defined() {
		res2, _ := runCase(c, false)
		r.Eval(1)
		if !res2.root.Equals(res.root) {
			v := eng.V("root-cid-not-deterministic", "Layout", fmt.Sprintf("%+v: %s then %s", c, res.root, res2.root), c.features(res.rootRawLeaf)...)
			v.Replay = c
			r.Report(v)
		}
	}
	return res
}

// ---------------------------------------------------------------------------
// enumeration

type meta struct {
	mode  uint32
	mtime string
}

var allMeta = []meta{{0, "zero"}, {0o644, "zero"}, {0, "1.5s"}, {0o644, "1.5s"}, {0o755 | uint32(os.ModeSetuid), "-1s"}, {0, "epoch"}, {0o400, "epoch"}, {0, "-1s"}}
var fewMeta = []meta{{0, "zero"}, {0o644, "1.5s"}}

func lengthsFor(cs int, leaves []int) []int {
	set := map[int]bool{}
	var out []int
	for _, l := range leaves {
		for _, n := range []int{l * cs, l*cs - 1, l*cs + 1} {
			if n >= 0 && !set[n] {
				set[n] = true
				out = append(out, n)
			}
		}
	}
	return out
}

func buildCases(r *eng.Run) []caseD {
	var cs []caseD
	layouts := []string{"balanced", "trickle"}
	add := func(w int, chunker string, n int, builders []string, metas []meta) {
		for _, lay := range layouts {
			for _, raw := range []bool{false, true} {
				for _, b := range builders {
					for _, m := range metas {
						cs = append(cs, caseD{lay, w, chunker, n, raw, b, m.mode, m.mtime})
					}
				}
			}
		}
	}
	allB := []string{"nil", "v0", "v1", "v1blake", "v1id"}
	hashB := []string{"nil", "v0", "v1", "v1blake"}
	fewB := []string{"nil", "v1"}

	// (1) small widths: every input length
	maxLeaves := map[int]int{2: eng.Pick(r, 60, 260), 3: eng.Pick(r, 110, 400), 4: eng.Pick(r, 130, 620)}
	for _, w := range []int{2, 3, 4} {
		for _, csz := range []int{1, 2, 5} {
			full := (w*w + w + 2) * csz // full parameter cross up to here
			idMax := 12 * csz
			for n := 0; n <= maxLeaves[w]*csz; n++ {
				switch {
				case n <= idMax:
					add(w, fmt.Sprintf("size-%d", csz), n, allB, allMeta)
				case n <= full:
					add(w, fmt.Sprintf("size-%d", csz), n, hashB, allMeta)
				default:
					add(w, fmt.Sprintf("size-%d", csz), n, fewB, fewMeta)
				}
			}
		}
		// content-defined chunker: leaves of unequal sizes
		for n := 0; n <= eng.Pick(r, 400, 1500); n += eng.Pick(r, 7, 3) {
			add(w, "rabin-16-32-64", n, fewB, fewMeta)
		}
	}
	r.Set("small_width_max_leaves", maxLeaves)

	// (2) larger widths: boundary leaf counts
	type wl struct {
		w      int
		leaves []int
	}
	big := []wl{{8, []int{0, 1, 2, 7, 8, 9, 40, 41, 64, 65, 512, 513}}, {174, []int{0, 1, 173, 174, 175, 174 * 5, 174*5 + 1}}}
	if r.Thorough() {
		big[1].leaves = append(big[1].leaves, 174*174, 174*174+1)
		big = append(big, wl{16, []int{15, 16, 17, 80, 81, 256, 257, 4096, 4097}}, wl{1024, []int{0, 1, 1023, 1024, 1025, 5 * 1024, 5*1024 + 1}})
	} else {
		big = append(big, wl{1024, []int{1, 1025}})
	}
	for _, b := range big {
		for _, csz := range []int{1, 3} {
			if b.w == 1024 && csz != 1 {
				continue
			}
			for _, n := range lengthsFor(csz, b.leaves) {
				add(b.w, fmt.Sprintf("size-%d", csz), n, fewB, fewMeta)
			}
		}
	}
	// (3) default-sized chunks with the default width
	for _, n := range []int{262143, 262144, 262145, 3*262144 + 1} {
		add(174, "size-262144", n, fewB, allMeta)
		add(174, "", n, fewB, fewMeta)
	}
	add(174, "buzhash", 1<<20+1, fewB, fewMeta)
	if r.Thorough() {
		// depth-3 balanced tree at width 1024 (1024^2+1 leaves): one configuration
		// per layout only - reading it back costs minutes (the DagReader copies
		// the 1024 links of a node for every child it visits).
		for _, lay := range layouts {
			cs = append(cs, caseD{lay, 1024, "size-1", 1024*1024 + 1, true, "nil", 0o644, "1.5s"})
		}
	}
	return cs
}

func body(r *eng.Run) {
	r.Rule("nested loops over layout {balanced,trickle} x width x chunker x EVERY input length up to the bound (widths 2,3,4; boundary leaf counts for widths 8..1024) x leaf type x CID builder x mode/mtime; each case is built twice on fresh in-memory DAG services; non-trivial = the file has >= 2 leaves; distinct = distinct (layout,width,leaf count,depth,raw,builder,attrs) classes")
	r.Assume("in-memory DAG service of the harness (stores serialized blocks, decodes on every Get) is correct")
	r.Assume("chunkers are correct (C06); go-cid/go-multihash hashing is correct")
	cases := buildCases(r)
	// heavy cases first
	r.Set("cases", len(cases))
	order := make([]int, 0, len(cases))
	for i, c := range cases {
		if c.N > 4096 {
			order = append(order, i)
		}
	}
	for i, c := range cases {
		if c.N <= 4096 {
			order = append(order, i)
		}
	}
	var expired sync.Once
	var mu sync.Mutex
	depthHist := map[string]int{}
	var dumpF *os.File
	if f := os.Getenv("VERIF_C07_DUMP"); f != "" {
		dumpF, _ = os.Create(f)
		defer dumpF.Close()
	}
	eng.ParFor(len(order), func(k int) {
		if r.Expired() {
			expired.Do(func() { r.Incomplete("budget expired before all cases ran") })
			return
		}
		c := cases[order[k]]
		res := checkCase(r, c)
		if dumpF != nil { // development aid: root CID of every case
			mu.Lock()
			fmt.Fprintf(dumpF, "%+v %s\n", c, res.root)
			mu.Unlock()
		}
		r.Outcome(fmt.Sprintf("%s depth=%d rootraw=%v leaves>=2:%v", c.Layout, res.depth, res.rootRawLeaf, res.leaves >= 2))
		if res.leaves >= 2 {
			r.Distinct(fmt.Sprintf("%s w=%d leaves=%d depth=%d raw=%v b=%s m=%o t=%s", c.Layout, c.W, res.leaves, res.depth, c.Raw, c.Builder, c.Mode, c.Mtime))
			if res.leaves > c.W {
				r.Sample(map[string]any{"case": c, "root": res.root.String(), "leaves": res.leaves, "depth": res.depth})
			}
		}
		mu.Lock()
		depthHist[fmt.Sprintf("%s_w%d_depth%d", c.Layout, c.W, res.depth)]++
		mu.Unlock()
	})
	r.Set("depth_histogram", depthHist)
}

func replay(r *eng.Run, raw json.RawMessage) {
	var c caseD
	if err := json.Unmarshal(raw, &c); err != nil {
		panic(err)
	}
	checkCase(r, c)
}

func main() {
	if f := os.Getenv("VERIF_C07_CPUPROF"); f != "" { // development aid
		w, _ := os.Create(f)
		pprof.StartCPUProfile(w)
		go func() { time.Sleep(30 * time.Second); pprof.StopCPUProfile(); w.Close() }()
	}
	eng.Main("C07", "exploration", body, replay)
}
