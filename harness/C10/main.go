//go:build verif

package main

import (
	"bytes"
	"context"
	"encoding/json"
	"fmt"
	"io"
	"runtime/debug"
	"sort"
	"strconv"
	"strings"
	"sync"

	chunker "github.com/ipfs/boxo/chunker"
	mdag "github.com/ipfs/boxo/ipld/merkledag"
	mdtest "github.com/ipfs/boxo/ipld/merkledag/test"
	ft "github.com/ipfs/boxo/ipld/unixfs"
	"github.com/ipfs/boxo/ipld/unixfs/importer/balanced"
	h "github.com/ipfs/boxo/ipld/unixfs/importer/helpers"
	"github.com/ipfs/boxo/ipld/unixfs/importer/trickle"
	uio "github.com/ipfs/boxo/ipld/unixfs/io"
	"github.com/ipfs/boxo/ipld/unixfs/mod"
	"github.com/ipfs/boxo/verifshim/eng"
	cid "github.com/ipfs/go-cid"
	ipld "github.com/ipfs/go-ipld-format"
	mh "github.com/multiformats/go-multihash"
)

const defaultWriteBuffer = 1 << 21

// ---------------------------------------------------------------- initial files

type initFile struct {
	name    string
	layout  string
	size    int
	chunk   int    // chunk size used by the importer for the initial file
	leaf    string // pb | raw | ident
	content []byte
}

var initFiles = map[string]*initFile{}

func pattern(n int) []byte {
	b := make([]byte, n)
	for i := range b {
		b[i] = byte(1 + i%250)
	}
	return b
}

func addInit(name, layout string, size, chunk int, leaf string) {
	initFiles[name] = &initFile{name: name, layout: layout, size: size, chunk: chunk, leaf: leaf, content: pattern(size)}
}

func init() {
	addInit("empty-pb", "trickle", 0, 4, "pb")
	addInit("raw6", "balanced", 6, 8, "raw")              // a single RawNode
	addInit("inline6-pb", "balanced", 6, 8, "pb")         // a single dag-pb node with inline data (what `add` makes of a small file)
	addInit("trickle10-pb", "trickle", 10, 4, "pb")       // leaves 4,4,2
	addInit("trickle10-raw", "trickle", 10, 4, "raw")     // CIDv1, raw leaves
	addInit("trickle10-ident", "trickle", 10, 4, "ident") // identity-hash CIDs
	addInit("balanced14-pb", "balanced", 14, 3, "pb")     // 5 leaves, 3 levels
	addInit("trickle4k-raw", "trickle", 4096, 512, "raw")
}

func buildInit(ds ipld.DAGService, f *initFile, maxlinks int) (ipld.Node, error) {
	var pfx cid.Builder = mdag.V0CidPrefix()
	raw := false
	switch f.leaf {
	case "raw":
		pfx, raw = mdag.V1CidPrefix(), true
	case "ident":
		pfx, raw = cid.Prefix{Version: 1, Codec: cid.DagProtobuf, MhType: mh.IDENTITY, MhLength: -1}, true
	}
	dbp := h.DagBuilderParams{Dagserv: ds, Maxlinks: maxlinks, RawLeaves: raw, CidBuilder: pfx}
	db, err := dbp.New(chunker.NewSizeSplitter(bytes.NewReader(f.content), int64(f.chunk)))
	if err != nil {
		return nil, err
	}
	if f.layout == "trickle" {
		return trickle.Layout(db)
	}
	return balanced.Layout(db)
}

// ---------------------------------------------------------------- system

type sys struct {
	cfg      string
	file     *initFile
	links    int
	wb       int
	chunk    int
	thorough bool

	ds ipld.DAGService
	dm *mod.DagModifier

	data     []byte // model content
	cur      int64  // model cursor
	curKnown bool   // false after WriteAt: the statement does not define the cursor then

	maxDepth int // per-configuration depth bound
	nops     int

	lastFeat []string // features of the last executed operation (hidden-state hazard class)

	// shadow bookkeeping of hidden state, used only to label violations
	readerStale bool   // the open reader was created before the last change of the DAG
	brokenBy    string // which call left curWrOff != writeStart+len(wrBuf): "read" | "writeat" | ""
}

func (s *sys) track(kind string, pre, post mod.VerifC10State) {
	if post.ReaderOpen && pre.ReaderOpen && post.ReaderID == pre.ReaderID {
		if post.Root != pre.Root {
			s.readerStale = true
		}
	} else {
		s.readerStale = false
	}
	broken := post.CurWrOff != post.WriteStart+uint64(len(post.Buf))
	wasBroken := pre.CurWrOff != pre.WriteStart+uint64(len(pre.Buf))
	switch {
	case !broken:
		s.brokenBy = ""
	case kind == "Read":
		s.brokenBy = "read"
	case kind == "WriteAt" && !wasBroken:
		s.brokenBy = "writeat"
	case s.brokenBy == "":
		s.brokenBy = "other:" + kind
	}
}

func parseCfg(cfg string) (file string, links, wb, chunk, depth int) {
	chunk, depth = 4, 3
	for _, kv := range strings.Split(cfg, ",") {
		p := strings.SplitN(kv, "=", 2)
		switch p[0] {
		case "file":
			file = p[1]
		case "links":
			links, _ = strconv.Atoi(p[1])
		case "wb":
			wb, _ = strconv.Atoi(p[1])
		case "chunk":
			chunk, _ = strconv.Atoi(p[1])
		case "d":
			depth, _ = strconv.Atoi(p[1])
		}
	}
	return
}

var wbMu sync.Mutex

func newSys(cfg string, thorough bool) eng.Sys {
	fn, links, wb, chunk, depth := parseCfg(cfg)
	f := initFiles[fn]
	if f == nil {
		panic("unknown file in config " + cfg)
	}
	want := defaultWriteBuffer
	if wb > 0 {
		want = wb
	}
	// All instances alive at one time belong to the same configuration (the
	// explorer finishes one configuration before starting the next and its
	// first New() for a configuration is single-threaded), so this write
	// happens only while no other instance is running.
	wbMu.Lock()
	if mod.VerifC10WriteBufferSize() != want {
		mod.VerifC10SetWriteBufferSize(want)
	}
	wbMu.Unlock()
	ds := mdtest.Mock()
	root, err := buildInit(ds, f, links)
	if err != nil {
		panic(fmt.Sprintf("building %s: %v", cfg, err))
	}
	ctx := context.Background()
	dm, err := mod.NewDagModifier(ctx, root, ds, func(r io.Reader) chunker.Splitter { return chunker.NewSizeSplitter(r, int64(chunk)) })
	if err != nil {
		panic(fmt.Sprintf("NewDagModifier %s: %v", cfg, err))
	}
	dm.MaxLinks = links
	return &sys{maxDepth: depth, cfg: cfg, file: f, links: links, wb: wb, chunk: chunk, thorough: thorough, ds: ds, dm: dm,
		data: append([]byte{}, f.content...), cur: 0, curKnown: true}
}

func uniq(xs ...int) []int {
	m := map[int]bool{}
	out := []int{}
	for _, x := range xs {
		if !m[x] {
			m[x] = true
			out = append(out, x)
		}
	}
	sort.Ints(out)
	return out
}

func nonneg(xs []int) []int {
	out := []int{}
	for _, x := range xs {
		if x >= 0 {
			out = append(out, x)
		}
	}
	return out
}

func (s *sys) Ops() []string {
	if s.nops >= s.maxDepth {
		return nil
	}
	S := len(s.data)
	c := s.chunk
	ops := []string{"Sync"}
	wr := []string{"-", "X", "YZ", "PQRST"}
	wa := []string{"x", "yz", "pqrst"}
	rd := []int{0, 1, c, 2*c + 1}
	if (s.thorough || s.file.leaf == "ident") && s.maxDepth <= 3 { // identity files need the 9-byte payload to push a child past the 128-byte identity limit
		wr = append(wr, "ABCDEFGHI")
		wa = append(wa, "abcdefghi")
	}
	if s.file.size > 1000 { // the big file: chunk-relative payloads
		big := strings.Repeat("W", c+1)
		wr = []string{"X", big}
		wa = []string{"x", strings.ToLower(big)}
		rd = []int{1, c + 1}
	}
	// Write/Read are generated in every state. After a WriteAt the statement
	// does not say where the cursor is; the call is then checked against the
	// cursor that Seek(0,SeekCurrent) reports right after it (see resolveCursor).
	if !s.curKnown && !s.thorough {
		wr, rd = []string{"-", "YZ"}, []int{1, 2*c + 1} // quick: half the alphabet in these states
	}
	for _, b := range wr {
		if b == "-" && s.curKnown && s.cur > int64(S) {
			continue // a zero-length write past the end: left unspecified
		}
		ops = append(ops, "Write "+b)
	}
	for _, n := range rd {
		ops = append(ops, fmt.Sprintf("Read %d", n))
	}
	for _, off := range nonneg(uniq(0, 1, S-1, S, S+1, S+3)) {
		if off <= S && s.file.size <= 1000 {
			// zero-length payload (no effect on content; past the end it is
			// left unspecified like the zero-length Write)
			ops = append(ops, fmt.Sprintf("WriteAt - %d", off))
		}
		for _, b := range wa {
			ops = append(ops, fmt.Sprintf("WriteAt %s %d", b, off))
		}
	}
	for _, off := range uniq(-1, 0, 1, 2, S, S+2) {
		ops = append(ops, fmt.Sprintf("Seek %d 0", off))
	}
	if s.curKnown {
		for _, off := range uniq(-1, 0, 1, 2, -int(s.cur)-1) {
			ops = append(ops, fmt.Sprintf("Seek %d 1", off))
		}
	}
	for _, off := range uniq(-S-1, -S, -2, -1, 0, 1, 2) {
		ops = append(ops, fmt.Sprintf("Seek %d 2", off))
	}
	ops = append(ops, "Seek 0 3")
	for _, n := range nonneg(uniq(0, 1, S-1, S, S+5)) {
		ops = append(ops, fmt.Sprintf("Truncate %d", n))
	}
	return ops
}

func (s *sys) base() []string {
	return []string{"file", s.file.name, "links", strconv.Itoa(s.links), "wb", strconv.Itoa(s.wb), "leaf", s.file.leaf}
}

// dagFeatures inspects the modifier's current DAG (only when a violation is
// being built; it flushes the modifier).
func (s *sys) dagFeatures() []string {
	out := []string{"branch_inline_data", "unknown"}
	eng.Guard("dagFeatures", func() {
		nd, err := s.dm.GetNode()
		if err == nil {
			out[1] = fmt.Sprint(branchInline(s.ds, nd))
		}
	})
	return out
}

// missing lists the links below n that the DAG service cannot resolve.
func missing(ds ipld.DAGService, n ipld.Node) []string {
	out := []string{}
	for _, l := range n.Links() {
		ch, err := l.GetNode(context.Background(), ds)
		if err != nil {
			p := l.Cid.Prefix()
			out = append(out, fmt.Sprintf("%s(v%d codec=%#x mh=%#x)", l.Cid, p.Version, p.Codec, p.MhType))
			continue
		}
		out = append(out, missing(ds, ch)...)
	}
	return out
}

func branchInline(ds ipld.DAGService, n ipld.Node) bool {
	if len(n.Links()) == 0 {
		return false
	}
	if pn, ok := n.(*mdag.ProtoNode); ok {
		if fsn, err := ft.FSNodeFromBytes(pn.Data()); err == nil && len(fsn.Data()) > 0 {
			return true
		}
	}
	for _, l := range n.Links() {
		ch, err := l.GetNode(context.Background(), ds)
		if err != nil {
			return false
		}
		if branchInline(ds, ch) {
			return true
		}
	}
	return false
}

func (s *sys) viol(symptom, op, detail string, feat []string) *eng.Violation {
	all := append(append(append([]string{}, s.base()...), feat...), s.dagFeatures()...)
	return eng.V(symptom, op, detail, all...)
}

func payload(tok string) []byte {
	if tok == "-" {
		return []byte{}
	}
	return []byte(tok)
}

func (s *sys) modelWriteAt(b []byte, off int64) {
	if len(b) == 0 {
		return
	}
	for int64(len(s.data)) < off+int64(len(b)) {
		s.data = append(s.data, 0)
	}
	copy(s.data[off:], b)
}

func (s *sys) modelResize(n int64) {
	for int64(len(s.data)) < n {
		s.data = append(s.data, 0)
	}
	s.data = s.data[:n]
}

func (s *sys) hazard(kind string, pre mod.VerifC10State, b []byte, off int64) string {
	broken := pre.CurWrOff != pre.WriteStart+uint64(len(pre.Buf))
	switch kind {
	case "WriteAt":
		if off == int64(pre.WriteStart) && pre.HasBuf {
			if len(b) < len(pre.Buf) {
				return "writeat-at-writestart-shorter-than-pending"
			}
			return "none"
		}
		if uint64(off) == pre.CurWrOff && broken {
			return "writeat-at-cursor-left-stale-by-" + s.brokenBy
		}
	case "Write":
		if broken {
			return "write-at-cursor-left-stale-by-" + s.brokenBy
		}
	case "Read":
		if pre.ReaderOpen && !pre.HasBuf {
			if s.readerStale {
				return "read-through-reader-predating-dag-change"
			}
			if pre.ReaderOff != int64(pre.CurWrOff) {
				return "read-through-desynced-reader"
			}
		}
	}
	return "none"
}

// wedged reports the case in which Read must not be executed because it would
// never return. Sync keeps the open reader when nothing is pending, so dm.Read
// goes straight into dagReader.CtxReadFull: it first drains the loaded leaf
// buffer and, if that does not fill the caller's buffer (or there is none),
// enters Walker.Iterate, which delivers the leaves still unvisited below the
// wedged level and then climbs to that level, where it spins (see
// uio.VerifC10ReaderWedge). The call is predicted to hang exactly when the
// request cannot be satisfied before that climb; otherwise it is executed.
func (s *sys) wedged(pre mod.VerifC10State, n int, feat []string, ctx string) *eng.Violation {
	if !pre.ReaderOpen || pre.HasBuf || pre.WedgeLevel < 0 {
		return nil
	}
	if pre.BufLeft >= 0 && n <= pre.BufLeft {
		return nil // served from the loaded leaf
	}
	need := uint64(n)
	if pre.BufLeft > 0 {
		need -= uint64(pre.BufLeft)
	}
	if pre.WedgeBelow > 0 && need <= pre.WedgeBelow {
		return nil // Iterate pauses before it climbs to the wedged level
	}
	theRun.Add("execs_read_on_wedged_walker", 1)
	return s.viol("read-never-returns", "Read", fmt.Sprintf("Read(len %d) not executed: the kept reader's Walker has childIndex > ChildTotal at level %d (walker depth %d, %d bytes left in the loaded leaf, %d bytes in unvisited leaves below that level) because the root node it holds was shrunk in place by Truncate; the request cannot be filled before Walker.Iterate climbs to that level, where NextChild returns nil without advancing and Iterate loops forever", n, pre.WedgeLevel, pre.WalkerDepth, pre.BufLeft, pre.WedgeBelow)+ctx,
		append(append([]string{}, feat...), "walker_wedged", "true"))
}

func ok2(wh int) bool { return wh >= 0 && wh <= 2 }

func errClass(err error) string {
	if err == nil {
		return "none"
	}
	if strings.Contains(err.Error(), "digest too large") {
		return "identity-digest-too-large"
	}
	if strings.Contains(err.Error(), "failed to fetch all nodes") {
		return "unresolvable-link"
	}
	return "other"
}

func (s *sys) Do(op string) (obs string, v *eng.Violation) {
	f := strings.Fields(op)
	s.nops++
	pre := mod.VerifC10Snapshot(s.dm)
	S := int64(len(s.data))
	feat := []string{"hazard", "none"}
	defer func() {
		s.lastFeat = feat
		if e := recover(); e != nil {
			obs = "panic"
			v = s.viol("panic", f[0], fmt.Sprintf("%s panicked: %v (model: %d bytes, cursor %s; hidden before: %s)\n%s", op, e, S, s.curStr(), pre, stack()), append(feat, "panic_site", panicSite()))
			return
		}
		s.track(f[0], pre, mod.VerifC10Snapshot(s.dm))
	}()
	hidden := fmt.Sprintf(" [model before: %d bytes %q cursor %s; hidden before: %s]", S, clip(s.data), s.curStr(), pre)
	switch f[0] {
	case "Sync":
		if err := s.dm.Sync(); err != nil {
			return "err", s.viol("unexpected-error", "Sync", fmt.Sprintf("Sync: %v", err)+hidden, append(feat, "error_class", errClass(err)))
		}
		return "ok", nil
	case "Write":
		b := payload(f[1])
		feat = []string{"hazard", s.hazard("Write", pre, b, s.cur)}
		theRun.Add("execs_hazard_"+feat[1], 1)
		n, err := s.dm.Write(b)
		if err != nil || n != len(b) {
			return "err", s.viol("write-bad-result", "Write", fmt.Sprintf("Write(%q)=%d,%v", b, n, err)+hidden, append(feat, "error_class", errClass(err)))
		}
		if v := s.resolveCursor("Write", int64(n), feat, hidden); v != nil {
			return "badcursor", v
		}
		if len(b) > 0 && !mod.VerifC10Snapshot(s.dm).HasBuf {
			theRun.Add("execs_write_triggered_autoflush", 1)
		}
		s.modelWriteAt(b, s.cur)
		s.cur += int64(len(b))
		return "ok", nil
	case "WriteAt":
		b := payload(f[1])
		off, _ := strconv.ParseInt(f[2], 10, 64)
		feat = []string{"hazard", s.hazard("WriteAt", pre, b, off)}
		theRun.Add("execs_hazard_"+feat[1], 1)
		n, err := s.dm.WriteAt(b, off)
		if err != nil || n != len(b) {
			return "err", s.viol("write-bad-result", "WriteAt", fmt.Sprintf("WriteAt(%q,%d)=%d,%v", b, off, n, err)+hidden, append(feat, "error_class", errClass(err)))
		}
		s.modelWriteAt(b, off)
		s.curKnown = false
		return "ok", nil
	case "Truncate":
		n, _ := strconv.ParseInt(f[1], 10, 64)
		if err := s.dm.Truncate(n); err != nil {
			return "err", s.viol("unexpected-error", "Truncate", fmt.Sprintf("Truncate(%d): %v", n, err)+hidden, append(feat, "error_class", errClass(err)))
		}
		s.modelResize(n)
		return "ok", nil
	case "Seek":
		off, _ := strconv.ParseInt(f[1], 10, 64)
		wh, _ := strconv.Atoi(f[2])
		var abs int64
		ok := true
		whs := map[int]string{0: "start", 1: "current", 2: "end"}[wh]
		switch wh {
		case io.SeekStart:
			abs = off
		case io.SeekCurrent:
			abs = s.cur + off
		case io.SeekEnd:
			abs = S + off
		default:
			ok, whs = false, "invalid"
		}
		target := "inside"
		switch {
		case !ok:
			target = "invalid-whence"
		case abs < 0:
			ok, target = false, "negative"
		case abs == S:
			target = "at-end"
		case abs > S:
			target = "past-end"
		}
		sign := "zero"
		if off < 0 {
			sign = "negative"
		} else if off > 0 {
			sign = "positive"
		}
		feat = []string{"hazard", "none", "whence", whs, "target", target, "offset_sign", sign}
		got, err := s.dm.Seek(off, wh)
		post := mod.VerifC10Snapshot(s.dm)
		if feat[1] == "none" && pre.ReaderOpen && !pre.HasBuf && s.readerStale {
			// dm.Seek forwards (offset, whence) to the kept reader, whose size and
			// offset predate the last change of the DAG
			feat[1] = "seek-forwarded-to-reader-predating-dag-change"
		}
		theRun.Add("execs_hazard_"+feat[1], 1)
		feat = append(feat, "error_class", errClass(err))
		desc := fmt.Sprintf("Seek(%d, %s) with cursor %s in a %d-byte file returned %d, %v", off, whs, s.curStr(), S, got, err)
		if !ok {
			if err == nil {
				return "accepted", s.viol("seek-result-mismatch", "Seek", desc+"; io.Seeker: seeking before the start / with an invalid whence is an error"+hidden, feat)
			}
			if s.curKnown && post.CurWrOff != pre.CurWrOff {
				// the failed call moved the hidden cursor: observe it right away
				// (the end-of-path cursor query is skipped when the model cursor
				// lies past the end, which would let this slip to a later call)
				if o, e := s.dm.Seek(0, io.SeekCurrent); e != nil || o != s.cur {
					return "rejected-moved", s.viol("cursor-mismatch", "Seek", desc+fmt.Sprintf("; the call failed, yet Seek(0,SeekCurrent) now returns %d,%v where the file model's cursor is still %d", o, e, s.cur)+hidden, feat)
				}
			}
			return "rejected", nil
		}
		if err != nil || got != abs {
			return "bad", s.viol("seek-result-mismatch", "Seek", desc+fmt.Sprintf("; io.Seeker gives %d, nil", abs)+hidden, feat)
		}
		if abs > S {
			// io.Seeker leaves I/O after a seek past the end implementation
			// dependent; DagModifier's choice is to zero-extend right away, and it
			// is held to that choice.
			s.modelResize(abs)
		}
		s.cur, s.curKnown = abs, true
		return "ok " + target, nil
	case "Read":
		n, _ := strconv.Atoi(f[1])
		feat = []string{"hazard", s.hazard("Read", pre, nil, s.cur)}
		theRun.Add("execs_hazard_"+feat[1], 1)
		if v := s.wedged(pre, n, feat, hidden); v != nil {
			return "never-returns", v
		}
		buf := bytes.Repeat([]byte{0xEE}, n)
		got, err := s.dm.Read(buf)
		if err == nil || err == io.EOF {
			if v := s.resolveCursor("Read", int64(got), feat, hidden); v != nil {
				return "badcursor", v
			}
		}
		rem := S - s.cur
		if rem < 0 {
			rem = 0
		}
		want := int64(n)
		if rem < want {
			want = rem
		}
		desc := fmt.Sprintf("Read(len %d) at cursor %d of a %d-byte file returned n=%d err=%v", n, s.cur, S, got, err)
		if err != nil && err != io.EOF {
			return "err", s.viol("read-unexpected-error", "Read", desc+hidden, append(feat, "error_class", errClass(err)))
		}
		if int64(got) != want {
			return "badn", s.viol("read-wrong-count", "Read", desc+fmt.Sprintf("; the file model gives n=%d", want)+hidden, feat)
		}
		if got > 0 && !bytes.Equal(buf[:got], s.data[s.cur:s.cur+int64(got)]) {
			return "badbytes", s.viol("read-wrong-bytes", "Read", desc+fmt.Sprintf("; bytes %q want %q", buf[:got], s.data[s.cur:s.cur+int64(got)])+hidden, feat)
		}
		if err == io.EOF && s.cur+int64(got) < S {
			return "eof", s.viol("premature-eof", "Read", desc+hidden, feat)
		}
		if n > 0 && got == 0 && err == nil {
			return "noeof", s.viol("missing-eof", "Read", desc+hidden, feat)
		}
		s.cur += int64(got)
		return fmt.Sprintf("n=%d eof=%v", got, err == io.EOF), nil
	}
	panic("bad op " + op)
}

func stack() string {
	ls := strings.Split(string(debug.Stack()), "\n")
	out := []string{}
	for _, l := range ls {
		if strings.Contains(l, "runtime/debug") || strings.Contains(l, "verifh_c10") || strings.Contains(l, "verifshim") {
			continue
		}
		out = append(out, l)
		if len(out) > 16 {
			break
		}
	}
	return strings.Join(out, "\n")
}

// panicSite names the first boxo function on the panicking stack.
func panicSite() string {
	for _, l := range strings.Split(string(debug.Stack()), "\n") {
		if strings.HasPrefix(l, "github.com/ipfs/boxo/") && !strings.Contains(l, "verifh_c10") && !strings.Contains(l, "verifshim") {
			l = strings.TrimPrefix(l, "github.com/ipfs/boxo/")
			if i := strings.LastIndex(l, "("); i > 0 {
				l = l[:i]
			}
			return l
		}
	}
	return "unknown"
}

// resolveCursor handles a cursor-relative call made while the model's cursor is
// unspecified (after WriteAt): the cursor the modifier reports right after the
// call, minus the bytes the call transferred, is taken as the position the
// call was made at; the call's result is then judged against the file model at
// that position like any other. This demands only self-consistency (what was
// read/written is what lies just before the reported cursor), not a particular
// cursor after WriteAt.
func (s *sys) resolveCursor(op string, moved int64, feat []string, ctx string) *eng.Violation {
	if s.curKnown {
		return nil
	}
	theRun.Add("execs_cursor_resolved_after_"+op, 1)
	tell, err := s.dm.Seek(0, io.SeekCurrent)
	if err != nil || tell-moved < 0 {
		return s.viol("cursor-mismatch", op, fmt.Sprintf("%s moved %d bytes with an unspecified cursor; Seek(0,SeekCurrent) right after it returned %d, %v", op, moved, tell, err)+ctx, append(append([]string{}, feat...), "error_class", errClass(err)))
	}
	s.cur, s.curKnown = tell-moved, true
	if moved == 0 && tell > int64(len(s.data)) {
		// nothing was transferred and the cursor lies past the end: the tell
		// itself was a seek past the end (eager zero-extension, see Seek)
		s.modelResize(tell)
	}
	return nil
}

func (s *sys) curStr() string {
	if !s.curKnown {
		return "unspecified"
	}
	return strconv.FormatInt(s.cur, 10)
}

func clip(b []byte) []byte {
	if len(b) > 40 {
		return b[:40]
	}
	return b
}

func (s *sys) Key() string {
	if len(s.data) > 1000 {
		// big file: hash-free compact key (content is mostly the fixed pattern)
		return fmt.Sprintf("M:%d:%x|c=%s|%s", len(s.data), h16(s.data), s.curStr(), mod.VerifC10Snapshot(s.dm))
	}
	return fmt.Sprintf("M:%q|c=%s|%s", s.data, s.curStr(), mod.VerifC10Snapshot(s.dm))
}

func h16(b []byte) uint64 {
	var x uint64 = 1469598103934665603
	for _, c := range b {
		x ^= uint64(c)
		x *= 1099511628211
	}
	return x
}

// Check compares every observer with the model: Size (before and after the
// flush), the cursor (when the statement defines it), the DAG returned by
// GetNode read back in full, and the content read through the modifier itself.
func (s *sys) Check() (v *eng.Violation) {
	feat := s.lastFeat
	if feat == nil {
		feat = []string{"hazard", "none"}
	}
	phase, pfeat := "Size/GetNode", feat
	defer func() {
		if e := recover(); e != nil {
			v = s.viol("panic", "", fmt.Sprintf("observer %s panicked: %v\n%s", phase, e, stack()), append(append([]string{}, pfeat...), "panic_site", panicSite()))
		}
	}()
	S := int64(len(s.data))
	state := fmt.Sprintf(" [model: %d bytes %q cursor %s; hidden: %s]", S, clip(s.data), s.curStr(), mod.VerifC10Snapshot(s.dm))
	sz, err := s.dm.Size()
	if err != nil {
		return s.viol("unexpected-error", "Size", fmt.Sprintf("Size: %v", err)+state, feat)
	}
	if s.curKnown && s.cur > S {
		// Asking for the cursor is itself a seek past the end (which the
		// modifier answers by zero-extending the file), so it is not a pure
		// observer here and is skipped.
		theRun.Add("states_cursor_past_end_not_queried", 1)
	}
	if s.curKnown && s.cur <= S {
		off, err := s.dm.Seek(0, io.SeekCurrent)
		if err != nil {
			return s.viol("unexpected-error", "Seek", fmt.Sprintf("Seek(0,SeekCurrent) (flushes the pending write): %v", err)+state, append(feat, "error_class", errClass(err)))
		}
		if off != s.cur {
			return s.viol("cursor-mismatch", "", fmt.Sprintf("Seek(0,SeekCurrent)=%d,%v; the file model's cursor is %d", off, err, s.cur)+state, feat)
		}
	}
	pre0 := mod.VerifC10Snapshot(s.dm)
	nd, err := s.dm.GetNode()
	s.track("GetNode", pre0, mod.VerifC10Snapshot(s.dm))
	if err != nil {
		return s.viol("unexpected-error", "GetNode", fmt.Sprintf("GetNode: %v", err)+state, append(feat, "error_class", errClass(err)))
	}
	rd, err := uio.NewDagReader(context.Background(), nd, s.ds)
	if err != nil {
		return s.viol("unexpected-error", "GetNode", fmt.Sprintf("NewDagReader(GetNode()): %v", err)+state, feat)
	}
	got, err := io.ReadAll(rd)
	if err != nil {
		return s.viol("unexpected-error", "GetNode", fmt.Sprintf("reading GetNode(): %v; unresolvable links: %v", err, missing(s.ds, nd))+state, append(feat, "error_class", errClass(err)))
	}
	sz2, _ := s.dm.Size()
	if sz != S || sz2 != S || rd.Size() != uint64(S) || !bytes.Equal(got, s.data) {
		return s.viol("file-state-mismatch", "", fmt.Sprintf("Size()=%d (after flush %d), GetNode() reports size %d and reads back %d bytes %q; the file model has %d bytes %q",
			sz, sz2, rd.Size(), len(got), clip(got), S, clip(s.data))+state, feat)
	}
	if branchInline(s.ds, nd) {
		theRun.Add("states_branch_inline_data", 1)
	}
	if _, isRaw := nd.(*mdag.RawNode); isRaw {
		theRun.Add("states_root_is_rawnode", 1)
	} else if s.file.name == "raw6" {
		theRun.Add("states_raw_root_converted_to_proto", 1)
	}
	// content through the modifier's own Read
	pre := mod.VerifC10Snapshot(s.dm)
	rfeat := []string{"hazard", s.hazard("Read", pre, nil, 0)}
	phase, pfeat = "Seek(0,SeekStart)+read-to-EOF", rfeat
	if o, err := s.dm.Seek(0, io.SeekStart); err != nil || o != 0 {
		return s.viol("seek-result-mismatch", "Seek", fmt.Sprintf("final Seek(0,SeekStart)=%d,%v", o, err)+state, append(rfeat, "error_class", errClass(err)))
	}
	if v := s.wedged(mod.VerifC10Snapshot(s.dm), 512, rfeat, state); v != nil {
		return v
	}
	// bounded ReadAll (a reader that keeps returning 0,nil must not hang the check)
	var got2 []byte
	var rerr error
	for stalls := 0; len(got2) <= len(s.data)+64; {
		buf := make([]byte, 512)
		n, err := s.dm.Read(buf)
		got2 = append(got2, buf[:n]...)
		if err != nil {
			if err != io.EOF {
				rerr = err
			}
			break
		}
		if n == 0 {
			if stalls++; stalls > 2 {
				rerr = fmt.Errorf("Read keeps returning 0, nil")
				break
			}
		}
	}
	if rerr != nil || !bytes.Equal(got2, s.data) {
		return s.viol("readall-mismatch", "Read", fmt.Sprintf("Seek(0,SeekStart)+read-to-EOF through the modifier gives %d bytes %q err=%v; the file model has %d bytes %q",
			len(got2), clip(got2), rerr, S, clip(s.data))+state, rfeat)
	}
	return nil
}

func (s *sys) Close() {}

var theRun *eng.Run

func spec(r *eng.Run) eng.SeqSpec {
	theRun = r
	th := r.Thorough()
	cfgs := []string{}
	depths := map[string]int{}
	add := func(file string, links, wb, d int) {
		c := fmt.Sprintf("file=%s,links=%d,wb=%d,d=%d", file, links, wb, d)
		cfgs = append(cfgs, c)
		depths[c] = d
	}
	maxd := 3
	if !th {
		add("empty-pb", 2, 0, 3)
		add("raw6", 2, 0, 3)
		add("inline6-pb", 2, 0, 3)
		add("trickle10-pb", 2, 0, 3)
		add("trickle10-raw", 2, 8, 3)
		add("trickle10-ident", 2, 0, 3)
		add("balanced14-pb", 3, 8, 3)
		add("trickle10-pb", 3, 8, 3)
	} else {
		for _, f := range []string{"empty-pb", "raw6", "inline6-pb", "trickle10-pb", "trickle10-raw", "trickle10-ident", "balanced14-pb"} {
			add(f, 2, 0, 3)
			add(f, 3, 8, 3)
		}
		add("trickle10-pb", 2, 8, 3)
		add("trickle10-raw", 3, 0, 3)
		c := "file=trickle4k-raw,links=8,wb=64,chunk=512,d=3"
		cfgs = append(cfgs, c)
		depths[c] = 3
		// one level deeper (with the quick alphabet) on one configuration, last
		// so that a budget cut hits this one
		add("trickle10-pb", 2, 8, 4)
		maxd = 4
	}
	r.Set("depth_bound_per_config", depths)
	return eng.SeqSpec{Configs: cfgs, New: func(c string) eng.Sys { return newSys(c, th) }, Depth: maxd}
}

func main() {
	eng.Main("C10", "model_checking", func(r *eng.Run) {
		r.Rule("BFS over Write/WriteAt/Seek/Read/Truncate/Sync sequences (offsets and lengths relative to the current model size), successor = replay on a fresh DagModifier + 1 call; state = (model bytes, model cursor) + (writeStart, curWrOff, wrBuf, open reader, root CID); non-trivial = path of >= 2 calls; every call's result is compared with a byte-array file with an io.Seeker cursor, and after every path Size, cursor, GetNode()+full read-back and ReadAll through the modifier are compared with the model")
		r.Assume("in-memory DAGService is correct; DagReader is used for read-back (checked by C09)")
		r.Assume("the cursor after WriteAt is unspecified by the statement: cursor-relative calls are only generated after an absolute Seek")
		r.Assume("a Seek past the end zero-extends the file at once (io.Seeker leaves this implementation-dependent; boxo's own tests rely on it); the model follows that choice")
		eng.ExploreSeq(r, spec(r))
	}, func(r *eng.Run, raw json.RawMessage) { eng.ReplaySeq(r, spec(r), raw) })
}
