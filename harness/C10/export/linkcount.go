//go:build verif

package merkledag

// VerifC10LinkCount returns the number of links without going through
// Links() (which re-sorts and drops the cached encoding when dirty).
func VerifC10LinkCount(n *ProtoNode) int { return len(n.links) }
