//go:build verif

package io

import (
	"fmt"
	"reflect"
	"unsafe"

	mdag "github.com/ipfs/boxo/ipld/merkledag"
	unixfs "github.com/ipfs/boxo/ipld/unixfs"
	ipld "github.com/ipfs/go-ipld-format"
)

// VerifC10ReaderState returns the CID of the root a dagReader was opened on
// and a rendering of its cursor (offset, leaf buffer remaining). Read-only.
func VerifC10ReaderState(r DagReader) (root string, state string, off int64) {
	dr, ok := r.(*dagReader)
	if !ok {
		return "", fmt.Sprintf("%T", r), -1
	}
	buf := "nil"
	if dr.currentNodeData != nil {
		buf = fmt.Sprintf("%d/%d", dr.currentNodeData.Len(), dr.currentNodeData.Size())
	}
	return dr.rootNode.Cid().String(), fmt.Sprintf("off=%d buf=%s", dr.offset, buf), dr.offset
}

// VerifC10ReaderWedge inspects the reader's walker: it returns the shallowest
// level on the active path whose child index lies beyond the node's current
// number of links (-1 if none), the walker depth, the bytes left in the loaded
// leaf buffer (-1 if none) and the number of file bytes in not-yet-visited
// leaves strictly below the wedged level (what Iterate can still deliver
// before it climbs back to that level). The Walker documents childIndex <=
// ChildTotal as its invariant; with childIndex > ChildTotal, NextChild()
// neither advances nor reports ErrNextNoChild, and Walker.Iterate alternates
// down()=ErrDownNoChild / NextChild()=nil forever. Read-only.
func VerifC10ReaderWedge(r DagReader) (level, depth, bufLeft int, below uint64) {
	level, bufLeft = -1, -1
	dr, ok := r.(*dagReader)
	if !ok {
		return
	}
	if dr.currentNodeData != nil {
		bufLeft = dr.currentNodeData.Len()
	}
	w := reflect.ValueOf(dr.dagWalker).Elem()
	depth = int(w.FieldByName("currentDepth").Int())
	ci := w.FieldByName("childIndex")
	pf := w.FieldByName("path")
	pf = reflect.NewAt(pf.Type(), unsafe.Pointer(pf.UnsafeAddr())).Elem()
	nodes := pf.Interface().([]ipld.NavigableNode)
	for l := 0; l <= depth && l < len(nodes) && l < ci.Len(); l++ {
		total := 0
		if pn, ok := ipld.ExtractIPLDNode(nodes[l]).(*mdag.ProtoNode); ok {
			total = mdag.VerifC10LinkCount(pn)
		}
		if int(ci.Index(l).Uint()) > total {
			level = l
			break
		}
	}
	if level < 0 {
		return
	}
	for l := level + 1; l <= depth && l < len(nodes) && l < ci.Len(); l++ {
		pn, ok := ipld.ExtractIPLDNode(nodes[l]).(*mdag.ProtoNode)
		if !ok || mdag.VerifC10LinkCount(pn) == 0 {
			continue
		}
		fsn, err := unixfs.FSNodeFromBytes(pn.Data())
		if err != nil {
			continue
		}
		for j := int(ci.Index(l).Uint()) + 1; j < fsn.NumChildren(); j++ {
			below += fsn.BlockSize(j)
		}
	}
	return
}
