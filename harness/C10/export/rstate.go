//go:build verif

package io

import "fmt"

// VerifC10ReaderState returns the CID of the root a dagReader was opened on
// and a rendering of its cursor (offset, leaf buffer remaining). Read-only.
func VerifC10ReaderState(r DagReader) (root string, state string, off int64) {
	dr, ok := r.(*dagReader)
	if !ok {
		return "", fmt.Sprintf("%T", r), -1
	}
	buf := "nil"
	if dr.currentNodeData != nil {
		buf = fmt.Sprintf("%d/%d", dr.currentNodeData.Len(), dr.currentNodeData.Size())
	}
	return dr.rootNode.Cid().String(), fmt.Sprintf("off=%d buf=%s", dr.offset, buf), dr.offset
}
