//go:build verif

package mod

import (
	"fmt"

	uio "github.com/ipfs/boxo/ipld/unixfs/io"
)

// VerifC10State is a read-only snapshot of the modifier's hidden cursor and
// buffer state.
type VerifC10State struct {
	WriteStart uint64
	CurWrOff   uint64
	HasBuf     bool
	Buf        []byte
	ReaderOpen bool
	// ReaderStale: a DagReader is open over a root other than the current node.
	ReaderStale bool
	Reader      string
	ReaderOff   int64
	ReaderID    string // identity of the open reader object
	// walker wedge (see uio.VerifC10ReaderWedge)
	WedgeLevel, WalkerDepth, BufLeft int
	WedgeBelow                       uint64
	Root                             string
}

func VerifC10Snapshot(dm *DagModifier) VerifC10State {
	s := VerifC10State{WedgeLevel: -1, WriteStart: dm.writeStart, CurWrOff: dm.curWrOff, Root: dm.curNode.Copy().Cid().String()}
	if dm.wrBuf != nil {
		s.HasBuf = true
		s.Buf = append([]byte{}, dm.wrBuf.Bytes()...)
	}
	if dm.read != nil {
		s.ReaderOpen = true
		root, st, off := uio.VerifC10ReaderState(dm.read)
		s.ReaderOff = off
		s.ReaderID = fmt.Sprintf("%p", dm.read)
		s.WedgeLevel, s.WalkerDepth, s.BufLeft, s.WedgeBelow = uio.VerifC10ReaderWedge(dm.read)
		s.Reader = st
		s.ReaderStale = root != s.Root
	}
	return s
}

func (s VerifC10State) String() string {
	b := "nil"
	if s.HasBuf {
		b = fmt.Sprintf("%q", s.Buf)
	}
	r := "none"
	if s.ReaderOpen {
		r = fmt.Sprintf("{%s wedge=%d/%d}", s.Reader, s.WedgeLevel, s.WalkerDepth)
	}
	return fmt.Sprintf("ws=%d cur=%d buf=%s rd=%s root=%s", s.WriteStart, s.CurWrOff, b, r, s.Root)
}

// VerifC10WriteBufferSize returns the package's auto-flush threshold.
func VerifC10WriteBufferSize() int { return writebufferSize }

// VerifC10SetWriteBufferSize sets the package's auto-flush threshold (a
// package variable, default 2 MiB) so that the flush inside Write is reachable
// with small inputs. No code path is altered.
func VerifC10SetWriteBufferSize(n int) { writebufferSize = n }
