//go:build verif

package files

// VerifNewMultiFileReaderBoundary is NewMultiFileReader with a caller-chosen
// (deterministic) multipart boundary instead of a random one. Nothing else
// differs from NewMultiFileReader.
func VerifNewMultiFileReaderBoundary(file Directory, form, rawAbsPath bool, boundary string) (*MultiFileReader, error) {
	mfr := NewMultiFileReader(file, form, rawAbsPath)
	if err := mfr.mpWriter.SetBoundary(boundary); err != nil {
		return nil, err
	}
	return mfr, nil
}
