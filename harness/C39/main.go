//go:build verif

// C39: multipart file serialization round-trips.
//
// Every case is a tree of directories, files and symlinks (slice directories
// with explicit stat), serialised by the real files.MultiFileReader and parsed
// back by the real files.NewFileFromPartReader; the walked output tree is
// compared with the input tree (identity model).
package main

import (
	"bytes"
	"encoding/json"
	"errors"
	"fmt"
	"io"
	"mime/multipart"
	"os"
	"sort"
	"strconv"
	"strings"
	"sync"
	"time"

	"github.com/ipfs/boxo/files"
	"github.com/ipfs/boxo/verifshim/eng"
)

const boundary = "verifC39-0123456789abcdef0123456789abcdef0123456789abcdef"

const (
	kFile = 0
	kLink = 1
	kDir  = 2
)

type node struct {
	N    []byte  `json:"n"`              // entry name, raw bytes
	K    int     `json:"k"`              // 0 file, 1 symlink, 2 dir
	D    []byte  `json:"d,omitempty"`    // file content or link target
	Mode uint32  `json:"mode,omitempty"` // os.FileMode bits, 0 = unset
	TSet bool    `json:"tset,omitempty"` // mtime set?
	Sec  int64   `json:"sec,omitempty"`
	Nsec int64   `json:"nsec,omitempty"`
	Kids []*node `json:"kids,omitempty"`
	RS   int     `json:"rs,omitempty"` // reader style serving a file's content, see styledReader
}

type tcase struct {
	Layer string  `json:"layer"`
	Form  bool    `json:"form"`
	Raw   bool    `json:"raw_abspath"`
	Root  []*node `json:"root"`
}

// ---------------------------------------------------------------- building

type stat struct {
	name  string
	size  int64
	mode  os.FileMode
	mtime time.Time
}

func (s *stat) Name() string       { return s.name }
func (s *stat) Size() int64        { return s.size }
func (s *stat) Mode() os.FileMode  { return s.mode }
func (s *stat) ModTime() time.Time { return s.mtime }
func (s *stat) IsDir() bool        { return s.mode.IsDir() }
func (s *stat) Sys() any           { return nil }

func (n *node) mtime() time.Time {
	if !n.TSet {
		return time.Time{}
	}
	return time.Unix(n.Sec, n.Nsec)
}

// statOf returns nil (a nil interface) when neither mode nor mtime is set.
func statOf(n *node) os.FileInfo {
	if n.Mode == 0 && !n.TSet {
		return nil
	}
	return &stat{name: string(n.N), size: int64(len(n.D)), mode: os.FileMode(n.Mode), mtime: n.mtime()}
}

// styledReader serves d through one of several legal io.Reader behaviours:
//
//	0 plain bytes.Reader (as much as fits, then 0,EOF)
//	1 the last bytes are returned together with io.EOF (iotest.DataErrReader, HTTP bodies)
//	2 one byte per Read, then 0,EOF
//	3 as 0, but one (0,nil) read before the first byte and one before EOF
//	4 one byte per Read and the last byte together with io.EOF
const readerStyles = 5

type styledReader struct {
	d            []byte
	off          int
	style        int
	zero0, zeroE bool
}

func (r *styledReader) Read(p []byte) (int, error) {
	if len(p) == 0 {
		return 0, nil
	}
	if r.style == 3 {
		if !r.zero0 {
			r.zero0 = true
			return 0, nil
		}
		if r.off == len(r.d) && !r.zeroE {
			r.zeroE = true
			return 0, nil
		}
	}
	if r.off == len(r.d) {
		return 0, io.EOF
	}
	n := len(r.d) - r.off
	if n > len(p) {
		n = len(p)
	}
	if (r.style == 2 || r.style == 4) && n > 1 {
		n = 1
	}
	copy(p, r.d[r.off:r.off+n])
	r.off += n
	if r.off == len(r.d) && (r.style == 1 || r.style == 4) {
		return n, io.EOF
	}
	return n, nil
}

func contentReader(n *node) io.Reader {
	if n.RS == 0 {
		return bytes.NewReader(n.D)
	}
	return &styledReader{d: n.D, style: n.RS}
}

func build(n *node, abspath bool) files.Node {
	switch n.K {
	case kLink:
		return files.NewSymlinkFile(string(n.D), n.mtime())
	case kDir:
		return buildDir(n.Kids, statOf(n), abspath)
	default:
		if abspath {
			f, err := files.NewReaderPathFile("/abs/"+string(n.N), io.NopCloser(contentReader(n)), statOf(n))
			if err != nil {
				panic(err)
			}
			return f
		}
		return files.NewReaderStatFile(contentReader(n), statOf(n))
	}
}

func buildDir(kids []*node, st os.FileInfo, abspath bool) files.Directory {
	es := make([]files.DirEntry, 0, len(kids))
	for _, k := range kids {
		es = append(es, files.FileEntry(string(k.N), build(k, abspath)))
	}
	if st == nil {
		return files.NewSliceDirectory(es)
	}
	return files.NewSliceStatDirectory(es, st)
}

// expected mode of the input node = what the input files.Node reports.
func (n *node) wantMode() os.FileMode {
	if n.K == kLink {
		return os.ModeSymlink | os.ModePerm
	}
	return os.FileMode(n.Mode)
}

// ---------------------------------------------------------------- walking

var errRunaway = errors.New("runaway output tree")

func walk(d files.Directory, depth int, budget *int) ([]*node, error) {
	if depth > 10 {
		return nil, errRunaway
	}
	it := d.Entries()
	var out []*node
	for it.Next() {
		*budget--
		if *budget < 0 {
			return out, errRunaway
		}
		n := &node{N: []byte(it.Name())}
		nd := it.Node()
		n.Mode = uint32(nd.Mode())
		if t := nd.ModTime(); !t.IsZero() {
			n.TSet = true
			n.Sec = t.Unix()
			n.Nsec = int64(t.Nanosecond())
		}
		switch f := nd.(type) {
		case *files.Symlink:
			n.K = kLink
			n.D = []byte(f.Target)
		case files.Directory:
			n.K = kDir
			kids, err := walk(f, depth+1, budget)
			n.Kids = kids
			if err != nil {
				out = append(out, n)
				return out, err
			}
		case files.File:
			n.K = kFile
			b, err := io.ReadAll(f)
			n.D = b
			if err != nil {
				out = append(out, n)
				return out, err
			}
		default:
			return out, fmt.Errorf("unknown node type %T", nd)
		}
		if err := nd.Close(); err != nil {
			out = append(out, n)
			return out, err
		}
		out = append(out, n)
	}
	return out, it.Err()
}

// ---------------------------------------------------------------- oracle

type diff struct {
	symptom string
	feat    []string
	detail  string
}

func kindName(k int) string { return [...]string{"file", "symlink", "dir"}[k] }

func sorted(ns []*node) []*node {
	o := append([]*node{}, ns...)
	sort.SliceStable(o, func(i, j int) bool { return bytes.Compare(o[i].N, o[j].N) < 0 })
	return o
}

func render(ns []*node, ind string, sb *strings.Builder) {
	for _, n := range ns {
		fmt.Fprintf(sb, "%s%s %s", ind, strconv.Quote(string(n.N)), kindName(n.K))
		if n.K != kDir {
			d := string(n.D)
			if len(d) > 40 {
				d = d[:40] + fmt.Sprintf("...(%d bytes)", len(n.D))
			}
			fmt.Fprintf(sb, " %s", strconv.Quote(d))
		}
		if n.RS != 0 {
			fmt.Fprintf(sb, " reader-style=%d", n.RS)
		}
		fmt.Fprintf(sb, " mode=%#o", n.Mode)
		if n.TSet {
			fmt.Fprintf(sb, " mtime=(%d s,%d ns)", n.Sec, n.Nsec)
		} else {
			sb.WriteString(" mtime=unset")
		}
		sb.WriteString("\n")
		render(n.Kids, ind+"  ", sb)
	}
}

// compare the directory listings in and out (form: also mode and mtime) and
// collect every difference. A structural difference (entry count, name, kind)
// ends the comparison of that directory only; metadata and content
// differences never stop it, so a known defect cannot mask another one.
func compare(form bool, in, out []*node, path string, ds *[]*diff) {
	a, b := sorted(in), sorted(out)
	if len(a) != len(b) {
		*ds = append(*ds, &diff{symptom: "entry-count-changed", detail: fmt.Sprintf("directory %q: %d entries in, %d entries out", path, len(a), len(b))})
		return
	}
	for i := range a {
		if !bytes.Equal(a[i].N, b[i].N) {
			*ds = append(*ds, &diff{symptom: "name-changed", detail: fmt.Sprintf("directory %q: entry name %q came back as %q", path, a[i].N, b[i].N)})
			return
		}
	}
	for i := range a {
		x, y := a[i], b[i]
		p := path + "/" + string(x.N)
		if x.K != y.K {
			*ds = append(*ds, &diff{symptom: "type-changed", feat: []string{"kind", kindName(x.K)}, detail: fmt.Sprintf("%q: %s came back as %s", p, kindName(x.K), kindName(y.K))})
			continue
		}
		if x.K != kDir && !bytes.Equal(x.D, y.D) {
			s := "content-changed"
			if x.K == kLink {
				s = "link-target-changed"
			}
			*ds = append(*ds, &diff{symptom: s, feat: []string{"kind", kindName(x.K)}, detail: fmt.Sprintf("%q: %q came back as %q", p, clip(x.D), clip(y.D))})
		}
		if form {
			f := []string{"kind", kindName(x.K), "mode_set", fmt.Sprint(x.wantMode() != 0)}
			if x.wantMode() != os.FileMode(y.Mode) {
				*ds = append(*ds, &diff{symptom: "mode-changed", feat: f,
					detail: fmt.Sprintf("%q: mode %#o came back as %#o", p, uint32(x.wantMode()), y.Mode)})
			}
			switch {
			case !x.TSet && y.TSet:
				got := "other"
				if y.Sec == 0 && y.Nsec == 0 {
					got = "unix-epoch"
				}
				*ds = append(*ds, &diff{symptom: "unset-mtime-became-set", feat: append(f, "got", got),
					detail: fmt.Sprintf("%q: mtime unset (zero time) on input, came back as set (%d s,%d ns) = %s", p, y.Sec, y.Nsec, time.Unix(y.Sec, y.Nsec).UTC().Format(time.RFC3339Nano))})
			case x.TSet && !y.TSet:
				*ds = append(*ds, &diff{symptom: "mtime-lost", feat: f, detail: fmt.Sprintf("%q: mtime (%d s,%d ns) came back unset", p, x.Sec, x.Nsec)})
			case x.TSet && !x.mtime().Equal(y.mtime()):
				*ds = append(*ds, &diff{symptom: "mtime-changed", feat: f, detail: fmt.Sprintf("%q: mtime (%d s,%d ns) came back as (%d s,%d ns)", p, x.Sec, x.Nsec, y.Sec, y.Nsec)})
			}
		}
		if x.K == kDir {
			compare(form, x.Kids, y.Kids, p, ds)
		}
	}
}

func clip(b []byte) string {
	if len(b) > 60 {
		return string(b[:60]) + fmt.Sprintf("...(%d bytes)", len(b))
	}
	return string(b)
}

// nameClass classifies an entry name: only "single" names are valid directory
// entry names (exactly one non-special path component).
func nameClass(n []byte) string {
	s := string(n)
	switch {
	case s == "":
		return "empty"
	case s == "." || s == "..":
		return "dot"
	case strings.Contains(s, "/"):
		return "slash"
	}
	return "single"
}

func treeNameClass(ns []*node, set map[string]bool) {
	for _, n := range ns {
		set[nameClass(n.N)] = true
		treeNameClass(n.Kids, set)
	}
}

func count(ns []*node) int {
	c := 0
	for _, n := range ns {
		c += 1 + count(n.Kids)
	}
	return c
}

// runCase executes one round trip. outcome is a coarse result class.
func runCase(c *tcase) (outcome string, vs []*eng.Violation) {
	var out []*node
	var werr error
	pv := eng.Guard("roundtrip", func() {
		// abspath is attached to files only with the encoded header; the raw
		// legacy header is documented as unable to carry arbitrary bytes.
		dir := buildDir(c.Root, nil, !c.Raw)
		mfr, err := files.VerifNewMultiFileReaderBoundary(dir, c.Form, c.Raw, boundary)
		if err != nil {
			panic(err)
		}
		mpr := multipart.NewReader(mfr, boundary)
		d, err := files.NewFileFromPartReader(mpr, "multipart/form-data")
		if err != nil {
			werr = err
			return
		}
		budget := 4*count(c.Root) + 16
		out, werr = walk(d, 0, &budget)
	})
	cls := map[string]bool{}
	treeNameClass(c.Root, cls)
	ks := []string{}
	for k := range cls {
		ks = append(ks, k)
	}
	sort.Strings(ks)
	nc := strings.Join(ks, "+")
	if nc == "" {
		nc = "single"
	}
	mode := "mixed"
	if c.Form {
		mode = "form"
	}
	fin := func(d *diff) *eng.Violation {
		var sb strings.Builder
		fmt.Fprintf(&sb, "%s\nmode=%s rawAbsPath=%v\ninput tree:\n", d.detail, mode, c.Raw)
		render(c.Root, "  ", &sb)
		sb.WriteString("output tree:\n")
		render(out, "  ", &sb)
		f := append([]string{"disposition", mode, "names", nc}, d.feat...)
		sym := d.symptom
		if nc != "single" && sym != "unset-mtime-became-set" {
			// the tree contains a name that is not one path component: whatever
			// the first difference is, it is reported as one defect class
			f = append(f, "first_difference", sym)
			sym = "non-component-name-not-preserved"
		}
		vv := eng.V(sym, "roundtrip", sb.String(), f...)
		vv.Replay = c
		return vv
	}
	if pv != nil {
		pv.Features = map[string]string{"disposition": mode, "names": nc}
		pv.Replay = c
		return "panic", []*eng.Violation{pv}
	}
	if werr != nil {
		if nc != "single" {
			// a name that is not one path component may be rejected
			return "rejected/" + nc, nil
		}
		return "error", []*eng.Violation{fin(&diff{symptom: "roundtrip-error", detail: "round trip failed: " + werr.Error()})}
	}
	var ds []*diff
	compare(c.Form, c.Root, out, "", &ds)
	if len(ds) > 0 {
		seen := map[string]bool{}
		syms := []string{}
		for _, d := range ds {
			k := d.symptom + "|" + strings.Join(d.feat, ",")
			if seen[k] {
				continue
			}
			seen[k] = true
			vs = append(vs, fin(d))
			if !seen[d.symptom] {
				seen[d.symptom] = true
				syms = append(syms, d.symptom)
			}
		}
		sort.Strings(syms)
		return strings.Join(syms, "+") + "/" + mode + "/" + nc, vs
	}
	return "equal/" + mode + "/" + nc, nil
}

// ---------------------------------------------------------------- domains

type mt struct {
	set       bool
	sec, nsec int64
}

var (
	// valid entry names: exactly one path component
	namesValid = []string{
		"a", "a b", " a", "a ", `q"uote`, "100%", "%41", "%zz", "é", "日本語", "x;y=z", "a+b", "a&b=c", "a?b=c", "#h",
		`back\slash`, "a\r\nb", "a\nX-Inject: 1", "a\x00b", "\xff\xfe", "...", ".hidden", "a.", "..a", `name="x"`, "'", "*", "a\tb", "~", "-",
		"file?mode=0777", "Content-Type: x", strings.Repeat("L", 300),
	}
	// names that are not a single path component (cannot exist in a file system)
	namesPathlike = []string{"a/b", "..", ".", "", "/abs", "a/", "a//b", "a/../b", "../x", "a/."}

	modesFull  = []uint32{0, 0o644, 0o1777, 0o7777, 0o1, 0o777, uint32(os.ModeDir | 0o755), uint32(os.ModeSetuid | os.ModeSticky | 0o750), uint32(os.ModePerm | os.ModeIrregular)}
	mtimesFull = []mt{{}, {true, 5, 0}, {true, 5, 7}, {true, -3, 0}, {true, -3, 7}, {true, 0, 0}, {true, 0, 1}, {true, 1604320500, 999999999}, {true, 1 << 40, 500}, {true, -(1 << 40), 0}}
)

type kd struct {
	k int
	d string
}

func kindsFull(thorough bool) []kd {
	ks := []kd{
		{kFile, ""}, {kFile, "data"}, {kFile, "\r\n--"}, {kFile, "\r\n--" + boundary[:20]}, {kFile, "\r\n--" + boundary + "x\r\n"},
		{kFile, "x--" + boundary + "--"}, {kFile, "x\r\n"}, {kFile, "x\r"}, {kFile, "\x00\xff\r"}, {kFile, strings.Repeat("0123456789abcdef", 313)}, // 5008 bytes
		{kLink, "t"}, {kLink, ""}, {kLink, "../é x/%41+\"q\""}, {kLink, "a\r\n--b"},
		{kDir, ""},
	}
	if thorough {
		ks = append(ks, kd{kFile, strings.Repeat("\r\n--"+boundary[:30]+"\r", 2100)}) // ~ 75 KB, crosses all buffer sizes
	}
	return ks
}

func mk(name string, k kd, mode uint32, t mt, kids ...*node) *node {
	n := &node{N: []byte(name), K: k.k, Mode: mode, TSet: t.set, Sec: t.sec, Nsec: t.nsec, Kids: kids}
	if k.k != kDir {
		n.D = []byte(k.d)
	}
	if k.k == kLink {
		n.Mode = 0 // a Symlink node has a fixed mode
	}
	return n
}

type cfg struct{ form, raw bool }

// ---------------------------------------------------------------- driver

type driver struct {
	r        *eng.Run
	mu       sync.Mutex
	outcomes map[string]int
}

func (d *driver) exec(c *tcase, key string) {
	r := d.r
	oc, vs := runCase(c)
	r.Eval(1)
	unknown := 0
	for _, v := range vs {
		if !r.Report(v) {
			unknown++
		}
	}
	if len(vs) > 0 && unknown == 0 {
		oc = "known:" + oc
	}
	d.mu.Lock()
	if d.outcomes[oc] == 0 {
		r.Outcome(oc)
	}
	d.outcomes[oc]++
	d.mu.Unlock()
	if len(c.Root) >= 1 {
		// keys are the enumeration indices: the enumerations are products
		// without repetition, so distinct keys are distinct trees/configs
		r.Distinct(key)
	}
}

func plainDir(name string, kids ...*node) *node {
	return &node{N: []byte(name), K: kDir, Kids: kids}
}

// layer 1: one entry, full product of name x kind/content x mode x mtime, at
// three positions (root, inside d, inside d/e), all four configurations.
func layer1(d *driver) {
	r := d.r
	th := r.Thorough()
	names := append(append([]string{}, namesValid...), namesPathlike...)
	kinds := kindsFull(th)
	cfgs := []cfg{{true, false}, {false, false}, {true, true}, {false, true}}
	r.Set("L1_names", len(names))
	r.Set("L1_kinds_contents", len(kinds))
	r.Set("L1_modes", len(modesFull))
	r.Set("L1_mtimes", len(mtimesFull))
	r.Set("L1_positions", 3)
	r.Set("L1_configs", len(cfgs))
	total := len(names) * len(kinds)
	eng.ParFor(total, func(i int) {
		if r.Expired() {
			return
		}
		name, k := names[i/len(kinds)], kinds[i%len(kinds)]
		for _, m := range modesFull {
			if k.k == kLink && m != 0 {
				continue
			}
			for _, t := range mtimesFull {
				for pos := 0; pos < 3; pos++ {
					for _, cf := range cfgs {
						e := mk(name, k, m, t)
						if k.k == kDir && pos == 0 {
							// give the directory a child so that its own path is exercised as a prefix
							e.Kids = []*node{mk("c", kd{kFile, "x"}, 0, mt{})}
						}
						root := []*node{e}
						if pos >= 1 {
							root = []*node{plainDir("d", e)}
						}
						if pos == 2 {
							root = []*node{plainDir("d", plainDir("e", e), mk("z", kd{kFile, "z"}, 0, mt{}))}
						}
						d.exec(&tcase{Layer: "L1", Form: cf.form, Raw: cf.raw, Root: root}, fmt.Sprint("L1/", i, m, t, pos, cf))
					}
				}
			}
		}
	})
}

// layer 1r: every file content x every non-plain reader style x reduced
// name/mode/mtime pools x 3 positions x 4 configurations, alone and followed
// by a second file served in the same style (so that the bytes delivered with
// or around io.EOF are followed by another part).
func layer1r(d *driver) {
	r := d.r
	var contents []kd
	for _, k := range kindsFull(r.Thorough()) {
		if k.k == kFile {
			contents = append(contents, k)
		}
	}
	contents = append(contents, kd{kFile, "z"}, kd{kFile, strings.Repeat("ab", 2048)}, kd{kFile, strings.Repeat("c", 4097)})
	names := []string{"a", "a b", `q"uote`}
	modes := []uint32{0, 0o644}
	mtimes := []mt{{}, {true, 5, 7}}
	cfgs := []cfg{{true, false}, {false, false}, {true, true}, {false, true}}
	r.Set("L1r_contents", len(contents))
	r.Set("L1r_reader_styles", readerStyles-1)
	eng.ParFor(len(contents)*(readerStyles-1), func(i int) {
		if r.Expired() {
			return
		}
		k, rs := contents[i/(readerStyles-1)], 1+i%(readerStyles-1)
		for ni, name := range names {
			for _, m := range modes {
				for _, t := range mtimes {
					for pos := 0; pos < 3; pos++ {
						for _, two := range []bool{false, true} {
							for _, cf := range cfgs {
								e := mk(name, k, m, t)
								e.RS = rs
								es := []*node{e}
								if two {
									e2 := mk("zz", kd{kFile, "tail"}, 0, mt{})
									e2.RS = rs
									es = append(es, e2)
								}
								root := es
								if pos >= 1 {
									root = []*node{plainDir("d", es...)}
								}
								if pos == 2 {
									root = []*node{plainDir("d", plainDir("e", es...), mk("z", kd{kFile, "z"}, 0, mt{}))}
								}
								d.exec(&tcase{Layer: "L1r", Form: cf.form, Raw: cf.raw, Root: root}, fmt.Sprint("L1r/", i, ni, m, t, pos, two, cf))
								r.Add("files_served_by_nonplain_reader", len(es))
							}
						}
					}
				}
			}
		}
	})
}

// layer 2: two entries A,B from reduced pools, full product, as siblings [A,B]
// and as parent/child A{B} (A a directory), form and mixed.
func layer2(d *driver) {
	r := d.r
	names := []string{"a", "a b", "a.", "ab", "a%2Fb", `a"`, "é", "b", "a/b", ".."}
	kinds := []kd{{kFile, "x"}, {kFile, ""}, {kLink, "t"}, {kDir, ""}}
	modes := []uint32{0, 0o644, uint32(os.ModeDir | 0o1755)}
	mtimes := []mt{{}, {true, 5, 7}, {true, 0, 0}}
	if r.Thorough() {
		names = append(names, "a ", "a\r\n", "A", "a/", "")
		mtimes = append(mtimes, mt{true, -3, 0})
	}
	var vars []*node
	for _, n := range names {
		for _, k := range kinds {
			for _, m := range modes {
				if k.k == kLink && m != 0 {
					continue
				}
				for _, t := range mtimes {
					vars = append(vars, mk(n, k, m, t))
				}
			}
		}
	}
	r.Set("L2_node_variants", len(vars))
	cl := func(n *node) *node { c := *n; return &c }
	eng.ParFor(len(vars), func(i int) {
		for j := range vars {
			if r.Expired() {
				return
			}
			a, b := vars[i], vars[j]
			for _, form := range []bool{true, false} {
				if !bytes.Equal(a.N, b.N) {
					d.exec(&tcase{Layer: "L2", Form: form, Root: []*node{cl(a), cl(b)}}, fmt.Sprint("L2s/", i, j, form))
				}
				if a.K == kDir {
					p := cl(a)
					p.Kids = []*node{cl(b)}
					// followed by a plain sibling so that leaving the directory is exercised
					d.exec(&tcase{Layer: "L2", Form: form, Root: []*node{p, mk("zz", kd{kFile, "z"}, 0, mt{})}}, fmt.Sprint("L2p/", i, j, form))
				}
			}
		}
	})
}

// layer 3: every tree shape up to (depth, width) over kinds {file, symlink,
// dir}; attributes are assigned to the nodes in pre-order by rotating through
// the pools, once for every rotation offset.
var namesL3 = []string{"a", "a b", "b", `q"uote`, "100%", "é", "x;y=z", "a.", "ab", "a+b", "c", "日本", `b\c`, "a\r\nb", "%41", " ", "zz"}

type shape struct {
	k    int
	kids []*shape
}

func lists(pool []*shape, w int) [][]*shape {
	out := [][]*shape{{}}
	prev := [][]*shape{{}}
	for l := 1; l <= w; l++ {
		var cur [][]*shape
		for _, p := range prev {
			for _, s := range pool {
				cur = append(cur, append(append([]*shape{}, p...), s))
			}
		}
		out = append(out, cur...)
		prev = cur
	}
	return out
}

// entries of height <= h
func entriesOf(h, w int) []*shape {
	es := []*shape{{k: kFile}, {k: kLink}}
	if h <= 1 {
		return append(es, &shape{k: kDir})
	}
	for _, l := range lists(entriesOf(h-1, w), w) {
		es = append(es, &shape{k: kDir, kids: l})
	}
	return es
}

func instantiate(ss []*shape, off int, idx *int) []*node {
	var out []*node
	for _, s := range ss {
		i := *idx + off
		*idx++
		n := &node{N: []byte(namesL3[i%len(namesL3)]), K: s.k}
		t := mtimesFull[(i+off*3)%len(mtimesFull)]
		n.TSet, n.Sec, n.Nsec = t.set, t.sec, t.nsec
		switch s.k {
		case kFile:
			n.D = []byte([]string{"", "data", "\r\n--", "x\r\n"}[(i+off)%4])
			n.RS = (i/4 + off) % readerStyles
			n.Mode = modesFull[(i+off*2)%len(modesFull)]
		case kLink:
			n.D = []byte([]string{"t", "../x y", ""}[(i+off)%3])
		case kDir:
			n.Mode = modesFull[(i+off*2)%len(modesFull)]
			n.Kids = instantiate(s.kids, off, idx)
		}
		out = append(out, n)
	}
	return out
}

func dupNames(ns []*node) bool {
	seen := map[string]bool{}
	for _, n := range ns {
		if seen[string(n.N)] {
			return true
		}
		seen[string(n.N)] = true
		if dupNames(n.Kids) {
			return true
		}
	}
	return false
}

func layer3(d *driver, depth, width int, tag string, offsets []int) {
	r := d.r
	roots := lists(entriesOf(depth, width), width)
	offs := len(offsets)
	r.Set("L3_"+tag+"_shapes", len(roots))
	r.Set("L3_"+tag+"_rotations", offs)
	eng.ParFor(len(roots), func(i int) {
		for _, off := range offsets {
			if r.Expired() {
				return
			}
			idx := 0
			root := instantiate(roots[i], off, &idx)
			if dupNames(root) {
				r.Add("L3_skipped_duplicate_sibling_names", 1)
				continue
			}
			for _, form := range []bool{true, false} {
				d.exec(&tcase{Layer: "L3" + tag, Form: form, Root: root}, fmt.Sprint("L3/", tag, i, off, form))
			}
		}
	})
}

func main() {
	eng.Main("C39", "exploration", func(r *eng.Run) {
		r.Rule("E2 enumeration of trees, each serialised by MultiFileReader and parsed back by NewFileFromPartReader on the real code and compared with the input (names, kinds, contents, link targets; in form mode also mode and mtime incl. unset-stays-unset; sibling order not compared). L1: one entry, full product name x kind/content x mode x mtime x 3 nesting positions x {form,mixed} x {abspath-encoded,abspath}. L1r: every file content x reader styles {bytes with io.EOF in the same call, 1-byte reads, a (0,nil) read, 1-byte reads ending with byte+EOF} x reduced name/mode/mtime pools x 3 positions x 4 configurations, alone and followed by a second file; in L3 the reader style of each file is rotated as well. L2: all ordered pairs of node variants (name x kind x mode x mtime) as siblings and as parent/child. L3: every tree shape up to the depth/width bound over {file,symlink,dir}, attributes rotated through the pools in pre-order for every rotation offset. Every case with >= 1 entry is non-trivial; names that are not a single path component ('a/b', '..', '', ...) may be rejected but must not be altered.")
		r.Assume("mime/multipart, net/url and net/textproto of the Go standard library are correct")
		r.Assume("file contents do not contain a complete multipart delimiter line (CRLF--boundary followed by CRLF or --); inherent to the format")
		r.Assume("with the legacy raw 'abspath' header (rawAbsPath=true) files carry no absolute path")
		d := &driver{r: r, outcomes: map[string]int{}}
		layer1(d)
		layer1r(d)
		layer2(d)
		all := make([]int, len(namesL3))
		for i := range all {
			all[i] = i
		}
		layer3(d, 2, 2, "d2w2", all)
		if r.Thorough() {
			layer3(d, 2, 3, "d2w3", all)
			layer3(d, 3, 2, "d3w2", all)
		} else {
			layer3(d, 2, 3, "d2w3", []int{0, 7})
		}
		if r.Expired() {
			r.Incomplete("budget expired")
		}
		d.mu.Lock()
		r.Set("outcome_counts", d.outcomes)
		d.mu.Unlock()
		r.Sample(tcase{Layer: "L1", Form: true, Root: []*node{mk(`q"uote`, kd{kFile, "data"}, 0o644, mt{true, 5, 7})}})
		r.Sample(tcase{Layer: "L2", Form: true, Root: []*node{mk("a", kd{kDir, ""}, 0, mt{}, mk("a b", kd{kLink, "t"}, 0, mt{true, 0, 0}))}})
	}, func(r *eng.Run, raw json.RawMessage) {
		var c tcase
		if err := json.Unmarshal(raw, &c); err != nil {
			fmt.Fprintln(os.Stderr, "bad replay:", err)
			os.Exit(2)
		}
		oc, vs := runCase(&c)
		r.Eval(1)
		r.Outcome(oc)
		for _, v := range vs {
			r.Report(v)
		}
		if len(vs) == 0 {
			fmt.Println("replay: no violation, outcome", oc)
		}
	})
}
