//go:build verif

package main

import (
	"bytes"
	"context"
	"fmt"

	bstore "github.com/ipfs/boxo/blockstore"
	"github.com/ipfs/boxo/datastore/dshelp"
	"github.com/ipfs/boxo/verifshim/eng"
	blocks "github.com/ipfs/go-block-format"
	cid "github.com/ipfs/go-cid"
	ds "github.com/ipfs/go-datastore"
	dssync "github.com/ipfs/go-datastore/sync"
	ipld "github.com/ipfs/go-ipld-format"
)

// liar is a Blockstore that holds arbitrary bytes under a multihash and labels
// what it returns either with the requested CID or with the bytes' own CID.
type liar struct {
	bstore.Blockstore // nil; only Get is used through the validating wrapper
	held              map[string][]byte
	ownLabel          bool
	pfx               cid.Prefix
}

func (l *liar) Get(_ context.Context, c cid.Cid) (blocks.Block, error) {
	b, ok := l.held[string(c.Hash())]
	if !ok {
		return nil, ipld.ErrNotFound{Cid: c}
	}
	label := c
	if l.ownLabel {
		p := l.pfx
		if lc, err := p.Sum(b); err == nil {
			label = lc
		}
	}
	return blocks.NewBlockWithCid(b, label)
}

var vbsBackings = []string{"ds", "ds-noprefix-idstore", "liar-reqlabel", "liar-ownlabel"}

func vbsCases(thorough bool, want func(string) bool, emit func(kase)) {
	lens := []int{0, 1, 2, 33, 300}
	if thorough {
		lens = []int{0, 1, 2, 3, 31, 32, 33, 55, 56, 63, 64, 65, 127, 128, 300, 1024}
	}
	for _, backing := range vbsBackings {
		for _, f := range allForms {
			for _, n := range lens {
				group := fmt.Sprintf("vbs/%s/%s/len=%d/", backing, f.name, n)
				if !want(group) {
					continue
				}
				orig := pattern(n, 1)
				for _, co := range corruptions(n, masksFor(thorough, n)) {
					for _, al := range []bool{false, true} {
						backing, f, co, al := backing, f, co, al
						id := fmt.Sprintf("%s%s/alias=%v", group, co, al)
						emit(kase{id: id, trivial: co.kind == "none", run: func(x *ctx) *eng.Violation {
							return runVbs(x, backing, f, orig, co, al)
						}})
					}
				}
			}
		}
	}
}

func runVbs(x *ctx, backing string, f form, orig []byte, co corr, useAlias bool) *eng.Violation {
	bg := context.Background()
	c := f.cid(orig)
	held, present := co.apply(orig)
	var inner bstore.Blockstore
	switch backing {
	case "ds", "ds-noprefix-idstore":
		mds := dssync.MutexWrap(ds.NewMapDatastore())
		key := dshelp.MultihashToDsKey(c.Hash())
		if backing == "ds" {
			inner = bstore.NewBlockstore(mds)
			key = bstore.BlockPrefix.Child(key)
		} else {
			inner = bstore.NewIdStore(bstore.NewBlockstore(mds, bstore.NoPrefix()))
		}
		blk, err := blocks.NewBlockWithCid(orig, c)
		if err != nil {
			panic(err)
		}
		if err := inner.Put(bg, blk); err != nil {
			panic(err)
		}
		// tamper with the backing store behind the blockstore's back
		if present {
			if err := mds.Put(bg, key, held); err != nil {
				panic(err)
			}
		} else if err := mds.Delete(bg, key); err != nil {
			panic(err)
		}
	case "liar-reqlabel", "liar-ownlabel":
		l := &liar{held: map[string][]byte{}, ownLabel: backing == "liar-ownlabel", pfx: f.pfx}
		if present {
			l.held[string(c.Hash())] = held
		}
		inner = l
	}
	vbs := &bstore.ValidatingBlockstore{Blockstore: inner}
	req := c
	if useAlias {
		req = alias(c)
	}
	// what does the (unvalidated) inner store serve? (non-vacuity: the tampering took effect)
	servesWrong := false
	if ib, err := inner.Get(bg, req); err == nil && !bytes.Equal(ib.RawData(), orig) {
		servesWrong = true
	}
	feat := []string{"part", "validating-blockstore", "backing", backing, "form", f.name, "corruption", co.kind, "alias", fmt.Sprint(useAlias)}
	blk, err := vbs.Get(bg, req)
	if err == nil {
		if blk == nil {
			return eng.V("nil-block-nil-error", "Get", x.id, feat...)
		}
		got := blk.RawData()
		if !hashesTo(req, got) || !bytes.Equal(got, orig) {
			return eng.V("wrong-bytes-returned", "Get", fmt.Sprintf("%s: Get(%s) returned %d bytes %.40q which do not hash to the requested CID (original %.40q)", x.id, req, len(got), got, orig), feat...)
		}
		if servesWrong {
			panic("harness: inner store serves wrong bytes but validated bytes are right")
		}
		x.keep("Get", blk, req, orig, feat)
		// further reads on the same store: same request again and the codec alias
		for _, rq := range []cid.Cid{req, alias(req)} {
			if b2, err := vbs.Get(bg, rq); err == nil && b2 != nil {
				if !bytes.Equal(b2.RawData(), orig) {
					return eng.V("wrong-bytes-returned", "Get", fmt.Sprintf("%s: repeated Get(%s) returned %.40q", x.id, rq, b2.RawData()), feat...)
				}
				x.keep("Get(repeated)", b2, rq, orig, feat)
			}
		}
		x.outcome("vbs/returned-good")
		return nil
	}
	intactStore := present && bytes.Equal(held, orig)
	idstoreIdentity := backing == "ds-noprefix-idstore" && f.name == "v1raw-identity"
	if intactStore || idstoreIdentity {
		return eng.V("intact-block-rejected", "Get", fmt.Sprintf("%s: Get(%s) = %v although the store holds the right bytes", x.id, req, err), feat...)
	}
	switch {
	case ipld.IsNotFound(err):
		x.outcome("vbs/notfound")
	case err == bstore.ErrHashMismatch:
		if servesWrong {
			x.outcome("vbs/rejected-hash-mismatch")
		} else {
			x.outcome("vbs/rejected-hash-mismatch-other")
		}
	default:
		x.outcome("vbs/rejected-other-error")
	}
	return nil
}
