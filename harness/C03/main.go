//go:build verif

// C03: verified reads never return bytes that do not hash to the requested CID.
package main

import (
	"bytes"
	"encoding/json"
	"fmt"
	"os"
	"sync"
	"strings"
	"sync/atomic"

	"github.com/ipfs/boxo/verifshim/eng"
	blocks "github.com/ipfs/go-block-format"
	cid "github.com/ipfs/go-cid"
	mh "github.com/multiformats/go-multihash"
)

// kase is one enumerated case; id is canonical and is what a replay needs.
type kase struct {
	id      string
	trivial bool // unmodified control case
	run     func(x *ctx) *eng.Violation
}

type ctx struct {
	r       *eng.Run
	id      string
	verbose bool
	kept    []keptBlock
}

// keptBlock is a block a verified read handed out. "A result that was verified
// when it was returned must stay what was returned": every returned block is
// retained across all following operations of the case (further reads of the
// same and of other references, rejected reads, Verify/VerifyAll passes) and
// re-hashed at the very end of the case.
type keptBlock struct {
	via  string
	blk  blocks.Block
	c    cid.Cid
	want []byte
	feat []string
}

func (x *ctx) keep(via string, blk blocks.Block, c cid.Cid, want []byte, feat []string) {
	if blk == nil {
		return
	}
	x.kept = append(x.kept, keptBlock{via, blk, c, append([]byte{}, want...), append([]string{}, feat...)})
}

func (x *ctx) recheck() *eng.Violation {
	for i, k := range x.kept {
		got := k.blk.RawData()
		if !bytes.Equal(got, k.want) || !hashesTo(k.c, got) {
			return eng.V("returned-block-changed-later", k.via,
				fmt.Sprintf("%s: block #%d returned by %s for %s held %q when it was returned and verified; after the following operations of the case the same block holds %q, which does not hash to its CID", x.id, i+1, k.via, k.c, k.want, got),
				append(k.feat, "retained", "true")...)
		}
	}
	return nil
}

func (x *ctx) outcome(class string) {
	x.r.Outcome(class)
	countMu.Lock()
	counts[class]++
	countMu.Unlock()
	if x.verbose {
		fmt.Printf("  %s => %s\n", x.id, class)
	}
}

var (
	countMu sync.Mutex
	counts  = map[string]int{}
)

// ---- CID forms -------------------------------------------------------------

type form struct {
	name string
	pfx  cid.Prefix
}

var allForms = []form{
	{"v0", cid.Prefix{Version: 0, Codec: cid.DagProtobuf, MhType: mh.SHA2_256, MhLength: -1}},
	{"v1raw-sha256", cid.Prefix{Version: 1, Codec: cid.Raw, MhType: mh.SHA2_256, MhLength: -1}},
	{"v1pb-sha256", cid.Prefix{Version: 1, Codec: cid.DagProtobuf, MhType: mh.SHA2_256, MhLength: -1}},
	{"v1raw-blake2b256", cid.Prefix{Version: 1, Codec: cid.Raw, MhType: mh.BLAKE2B_MIN + 31, MhLength: -1}},
	{"v1raw-sha256t20", cid.Prefix{Version: 1, Codec: cid.Raw, MhType: mh.SHA2_256, MhLength: 20}},
	{"v1raw-identity", cid.Prefix{Version: 1, Codec: cid.Raw, MhType: mh.IDENTITY, MhLength: -1}},
	{"v1raw-sha512", cid.Prefix{Version: 1, Codec: cid.Raw, MhType: mh.SHA2_512, MhLength: -1}},
	{"v1raw-sha3-256", cid.Prefix{Version: 1, Codec: cid.Raw, MhType: mh.SHA3_256, MhLength: -1}},
	{"v1raw-blake3", cid.Prefix{Version: 1, Codec: cid.Raw, MhType: mh.BLAKE3, MhLength: 32}},
}

func (f form) cid(data []byte) cid.Cid {
	c, err := f.pfx.Sum(data)
	if err != nil {
		panic(fmt.Sprintf("form %s: %v", f.name, err))
	}
	return c
}

// alias returns a CID with the same multihash and another codec/version.
func alias(c cid.Cid) cid.Cid {
	if c.Prefix().Codec == cid.Raw {
		return cid.NewCidV1(cid.DagProtobuf, c.Hash())
	}
	return cid.NewCidV1(cid.Raw, c.Hash())
}

// hashesTo is the reference judgement "b hashes to c": an independent
// multihash computation over b with the function and length named by c.
func hashesTo(c cid.Cid, b []byte) bool {
	dm, err := mh.Decode(c.Hash())
	if err != nil {
		return false
	}
	if dm.Code == mh.IDENTITY {
		return bytes.Equal(dm.Digest, b)
	}
	h, err := mh.Sum(b, dm.Code, dm.Length)
	if err != nil {
		return false
	}
	return bytes.Equal(h, c.Hash())
}

func pattern(n, salt int) []byte {
	b := make([]byte, n)
	for i := range b {
		b[i] = byte(i*31 + 7 + salt*101 + i/251)
	}
	return b
}

// ---- byte-string corruptions ------------------------------------------------

type corr struct {
	kind string // none flip trunc append prepend dup foreign foreign-samelen missing
	pos  int
	val  byte
}

func (c corr) String() string {
	switch c.kind {
	case "flip":
		return fmt.Sprintf("flip@%d^%02x", c.pos, c.val)
	case "trunc":
		return fmt.Sprintf("trunc=%d", c.pos)
	case "append", "prepend":
		return fmt.Sprintf("%s+%02x", c.kind, c.val)
	}
	return c.kind
}

func corruptions(n int, masks []byte) []corr {
	out := []corr{{kind: "none"}, {kind: "missing"}, {kind: "foreign"}, {kind: "foreign-samelen"}}
	for p := 0; p < n; p++ {
		for _, m := range masks {
			out = append(out, corr{"flip", p, m})
		}
	}
	for l := 0; l < n; l++ {
		out = append(out, corr{"trunc", l, 0})
	}
	for _, v := range []byte{0x00, 0xff, 0x0a} {
		out = append(out, corr{"append", 0, v}, corr{"prepend", 0, v})
	}
	if n > 0 {
		out = append(out, corr{kind: "dup"})
	}
	return out
}

func (c corr) apply(orig []byte) (out []byte, present bool) {
	cp := append([]byte{}, orig...)
	switch c.kind {
	case "none":
		return cp, true
	case "missing":
		return nil, false
	case "flip":
		cp[c.pos] ^= c.val
		return cp, true
	case "trunc":
		return cp[:c.pos], true
	case "append":
		return append(cp, c.val), true
	case "prepend":
		return append([]byte{c.val}, cp...), true
	case "dup":
		return append(cp, orig...), true
	case "foreign":
		return []byte("some other block"), true
	case "foreign-samelen":
		o := pattern(len(orig), 9)
		if len(o) > 0 && bytes.Equal(o, orig) {
			o[0] ^= 0x55
		}
		return o, true
	}
	panic("bad corruption " + c.kind)
}

func masksFor(thorough bool, n int) []byte {
	if !thorough {
		return []byte{0x01, 0x80, 0xff}
	}
	if n <= 3 {
		m := make([]byte, 0, 255)
		for v := 1; v < 256; v++ {
			m = append(m, byte(v))
		}
		return m
	}
	return []byte{0x01, 0x02, 0x04, 0x08, 0x10, 0x20, 0x40, 0x80, 0xff}
}

// ---- driver -------------------------------------------------------------------

// gen streams the cases of one part. want(prefix) lets a replay skip whole
// groups of cases whose ids start with a prefix it is not looking for.
type gen func(thorough bool, want func(groupPrefix string) bool, emit func(kase))

var parts = []gen{vbsCases, fileCases, urlCases}

func scratch() string {
	if s := os.Getenv("VERIF_SCRATCH"); s != "" {
		return s
	}
	d, _ := os.Getwd()
	return d
}

func runCase(r *eng.Run, k kase, verbose bool) *eng.Violation {
	x := &ctx{r: r, id: k.id, verbose: verbose}
	var v *eng.Violation
	if pv := eng.Guard("case", func() {
		if v = k.run(x); v == nil {
			v = x.recheck()
		}
	}); pv != nil {
		v = pv
	}
	r.Eval(1)
	if v != nil {
		v.Replay = map[string]string{"case": k.id}
		r.Report(v)
	}
	return v
}

func body(r *eng.Run) {
	r.Rule("plain nested loops over declared finite domains (see level_text); one case = (subject, CID form / reference, one corruption or file/HTTP mutation); a case is non-trivial when the corruption is not the unmodified control; every case runs on a fresh store / fresh scratch directory")
	r.Assume("go-multihash hash functions, go-cid and go-datastore's MapDatastore are correct")
	r.Assume("the OS file system and the loopback HTTP stack behave as specified")
	stop := startServer()
	defer stop()
	var skipped atomic.Int64
	total := 0
	var chunk []kase
	flush := func() {
		ks := chunk
		eng.ParFor(len(ks), func(i int) {
			if r.Expired() {
				skipped.Add(1)
				return
			}
			runCase(r, ks[i], false)
			if !ks[i].trivial {
				r.Distinct(ks[i].id)
			}
		})
		for i := 0; i < len(ks); i += len(ks)/2 + 1 {
			r.Sample(ks[len(ks)-1-i].id)
		}
		total += len(ks)
		chunk = chunk[:0]
	}
	for _, g := range parts {
		g(r.Thorough(), func(string) bool { return true }, func(k kase) {
			chunk = append(chunk, k)
			if len(chunk) >= 100000 {
				flush()
			}
		})
		flush()
	}
	if n := skipped.Load(); n > 0 {
		r.Incomplete(fmt.Sprintf("budget expired: %d of %d cases not executed", n, total))
	}
	r.Set("cases_total", total)
	countMu.Lock()
	for k, v := range counts {
		r.Set("n_"+k, v)
	}
	countMu.Unlock()
}

func replay(r *eng.Run, raw json.RawMessage) {
	var rp struct {
		Case string `json:"case"`
	}
	if err := json.Unmarshal(raw, &rp); err != nil {
		fmt.Println("bad replay:", err)
		return
	}
	stop := startServer()
	defer stop()
	found := false
	want := func(prefix string) bool { return strings.HasPrefix(rp.Case, prefix) }
	for _, g := range parts {
		// the thorough domain contains the quick one
		g(true, want, func(k kase) {
			if k.id != rp.Case || found {
				return
			}
			found = true
			if runCase(r, k, true) == nil {
				fmt.Println("  replay: no violation")
			}
		})
	}
	if !found {
		fmt.Println("  replay: case not found in the domain:", rp.Case)
	}
}

func main() { eng.Main("C03", "fault_enumeration", body, replay) }
