//go:build verif

package main

import (
	"context"
	"fmt"

	"github.com/ipfs/boxo/filestore"
	"github.com/ipfs/boxo/verifshim/eng"
	cid "github.com/ipfs/go-cid"
)

// Every exported entry point of filestore/util.go that reports the state of a
// reference:
//
//	verifying:      Verify(key), VerifyAll(fileOrder=false), VerifyAll(fileOrder=true)
//	non-verifying:  List(key), ListAll(fileOrder=false), ListAll(fileOrder=true)
//	                (documented: "does not verify that the reference is valid")
//
// The verifying ones are judged by the same oracle as Get: region no longer
// readable => a corrupt status (file error / not found / changed); unmodified
// control => ok; any other non-ok status is not "reported as corrupt".
// The non-verifying ones are executed and must enumerate the reference; their
// status only says that the entry exists, so it is recorded, not judged.

type statusJudge struct {
	x       *ctx
	feat    []string
	intact  bool // the referenced region can still be re-read independently
	control bool // nothing was modified at all
}

func corruptStatus(s filestore.Status) bool {
	return s == filestore.StatusFileError || s == filestore.StatusFileNotFound || s == filestore.StatusFileChanged
}

// judge evaluates the status a verifying entry point reported for the target reference.
func (j *statusJudge) judge(via string, lr *filestore.ListRes) *eng.Violation {
	if lr == nil {
		if !j.intact || j.control {
			return eng.V("reference-missing-from-listing", via, fmt.Sprintf("%s: %s did not report the reference at all", j.x.id, via), j.feat...)
		}
		return nil
	}
	ok := lr.Status == filestore.StatusOk
	switch {
	case ok && !j.intact:
		return eng.V("verify-ok-on-corrupt-reference", via, fmt.Sprintf("%s: %s reports status ok although the referenced region can no longer be read from the file", j.x.id, via), j.feat...)
	case !ok && !corruptStatus(lr.Status):
		return eng.V("error-not-corrupt-reference", via, fmt.Sprintf("%s: %s status %v (%s), want a corrupt-reference status", j.x.id, via, lr.Status, lr.ErrorMsg), j.feat...)
	case !ok && j.control:
		return eng.V("intact-reference-rejected", via, fmt.Sprintf("%s: %s status %v (%s) on an unmodified file", j.x.id, via, lr.Status, lr.ErrorMsg), j.feat...)
	}
	return nil
}

// judgeBystander: a reference to a file that was never touched must stay ok.
func (j *statusJudge) judgeBystander(via string, lr *filestore.ListRes) *eng.Violation {
	if lr == nil {
		return eng.V("reference-missing-from-listing", via, fmt.Sprintf("%s: %s did not report the untouched bystander reference", j.x.id, via), append(j.feat, "bystander", "true")...)
	}
	if lr.Status != filestore.StatusOk {
		return eng.V("intact-reference-rejected", via, fmt.Sprintf("%s: %s status %v (%s) for the untouched bystander reference", j.x.id, via, lr.Status, lr.ErrorMsg), append(j.feat, "bystander", "true")...)
	}
	return nil
}

// drain runs a ListAll/VerifyAll iterator to its end and indexes the results by multihash.
func drain(mk func() (func(context.Context) *filestore.ListRes, error)) (map[string]*filestore.ListRes, int, error) {
	next, err := mk()
	if err != nil {
		return nil, 0, err
	}
	out := map[string]*filestore.ListRes{}
	n := 0
	for {
		lr := next(context.Background())
		if lr == nil {
			return out, n, nil
		}
		n++
		if n > 1000 {
			return out, n, fmt.Errorf("iterator does not terminate")
		}
		if lr.Key.Defined() {
			out[string(lr.Key.Hash())] = lr
		}
	}
}

// judgeAll runs every status-reporting entry point for target c (and an
// optional bystander) and returns the first violation plus an observation string.
func (j *statusJudge) judgeAll(fs *filestore.Filestore, c cid.Cid, bystander cid.Cid) (*eng.Violation, string) {
	bg := context.Background()
	obs := ""
	if v := j.judge("Verify", filestore.Verify(bg, fs, c)); v != nil {
		return v, obs
	}
	if bystander.Defined() {
		if v := j.judgeBystander("Verify", filestore.Verify(bg, fs, bystander)); v != nil {
			return v, obs
		}
	}
	for _, fo := range []bool{false, true} {
		fo := fo
		via := fmt.Sprintf("VerifyAll(fileOrder=%v)", fo)
		res, _, err := drain(func() (func(context.Context) *filestore.ListRes, error) { return filestore.VerifyAll(bg, fs, fo) })
		if err != nil {
			return eng.V("listing-failed", via, fmt.Sprintf("%s: %s: %v", j.x.id, via, err), j.feat...), obs
		}
		if v := j.judge(via, res[string(c.Hash())]); v != nil {
			return v, obs
		}
		if bystander.Defined() {
			if v := j.judgeBystander(via, res[string(bystander.Hash())]); v != nil {
				return v, obs
			}
		}
	}
	// non-verifying listings: must enumerate the reference; status recorded only
	lr := filestore.List(bg, fs, c)
	obs += fmt.Sprintf("List=%v", lr.Status)
	if lr.Status == filestore.StatusKeyNotFound {
		return eng.V("reference-missing-from-listing", "List", fmt.Sprintf("%s: List does not find the stored reference", j.x.id), j.feat...), obs
	}
	for _, fo := range []bool{false, true} {
		fo := fo
		via := fmt.Sprintf("ListAll(fileOrder=%v)", fo)
		res, _, err := drain(func() (func(context.Context) *filestore.ListRes, error) { return filestore.ListAll(bg, fs, fo) })
		if err != nil {
			return eng.V("listing-failed", via, fmt.Sprintf("%s: %s: %v", j.x.id, via, err), j.feat...), obs
		}
		e := res[string(c.Hash())]
		if e == nil {
			return eng.V("reference-missing-from-listing", via, fmt.Sprintf("%s: %s does not enumerate the stored reference", j.x.id, via), j.feat...), obs
		}
		obs += fmt.Sprintf(",%s=%v", via, e.Status)
	}
	return nil, obs
}
