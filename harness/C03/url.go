//go:build verif

package main

import (
	"bytes"
	"context"
	"errors"
	"fmt"
	"net/http"
	"net/http/httptest"
	"strconv"
	"strings"
	"sync"
	"sync/atomic"

	bstore "github.com/ipfs/boxo/blockstore"
	"github.com/ipfs/boxo/filestore"
	posinfo "github.com/ipfs/boxo/filestore/posinfo"
	dag "github.com/ipfs/boxo/ipld/merkledag"
	"github.com/ipfs/boxo/verifshim/eng"
	cid "github.com/ipfs/go-cid"
	ds "github.com/ipfs/go-datastore"
	dssync "github.com/ipfs/go-datastore/sync"
)

// behav describes how the loopback server answers one URL.
type behav struct {
	honest   bool   // honour the Range header over content
	content  []byte // (possibly mutated) resource
	gone     bool   // honest server: resource does not exist (404)
	status   int    // dishonest: fixed status and body
	body     []byte
	declLen  int // >= 0: declared Content-Length (>= len(body)), connection dropped after body
	drop     bool
	redirect string // key to redirect to
}

var (
	srvURL  string
	behavs  sync.Map // key -> *behav
	behavID atomic.Int64
)

func register(b *behav) string {
	k := fmt.Sprintf("r%d", behavID.Add(1))
	behavs.Store(k, b)
	return k
}

func handler(w http.ResponseWriter, req *http.Request) {
	v, ok := behavs.Load(strings.TrimPrefix(req.URL.Path, "/"))
	if !ok {
		http.Error(w, "unknown", 410)
		return
	}
	b := v.(*behav)
	switch {
	case b.drop:
		if hj, ok := w.(http.Hijacker); ok {
			if c, _, err := hj.Hijack(); err == nil {
				c.Close()
			}
		}
	case b.redirect != "":
		http.Redirect(w, req, "/"+b.redirect, http.StatusFound)
	case b.honest:
		if b.gone {
			http.Error(w, "not found", 404)
			return
		}
		lo, hi, ok := parseRange(req.Header.Get("Range"))
		if !ok || hi < lo {
			w.WriteHeader(200)
			w.Write(b.content)
			return
		}
		if lo >= uint64(len(b.content)) {
			http.Error(w, "range not satisfiable", 416)
			return
		}
		if hi >= uint64(len(b.content)) {
			hi = uint64(len(b.content)) - 1
		}
		w.WriteHeader(206)
		w.Write(b.content[lo : hi+1])
	default:
		if b.declLen >= 0 {
			w.Header().Set("Content-Length", strconv.Itoa(b.declLen))
		}
		w.WriteHeader(b.status)
		w.Write(b.body)
	}
}

func parseRange(h string) (lo, hi uint64, ok bool) {
	h, found := strings.CutPrefix(h, "bytes=")
	if !found {
		return
	}
	a, b, found := strings.Cut(h, "-")
	if !found {
		return
	}
	lo, e1 := strconv.ParseUint(a, 10, 64)
	hi, e2 := strconv.ParseUint(b, 10, 64)
	return lo, hi, e1 == nil && e2 == nil
}

func startServer() func() {
	s := httptest.NewServer(http.HandlerFunc(handler))
	srvURL = s.URL
	return s.Close
}

// content-level mutations of the remote resource served by an honest server
func applyContent(m fmut, content []byte) (out []byte, gone bool) {
	cp := append([]byte{}, content...)
	switch m.kind {
	case "none", "rewrite-identical":
		return cp, false
	case "delete":
		return nil, true
	case "replace-samelen":
		return pattern(len(cp), 5), false
	case "zero-fill":
		return make([]byte, len(cp)), false
	case "extend":
		return append(cp, 0x41), false
	case "flip":
		cp[m.pos] ^= m.val
		return cp, false
	case "trunc":
		return cp[:m.pos], false
	case "remove":
		return append(cp[:m.pos:m.pos], cp[m.pos+1:]...), false
	case "insert":
		return append(append(append([]byte{}, cp[:m.pos]...), 0x5a), cp[m.pos:]...), false
	}
	return nil, true // file-system-only mutation kinds are not used here
}

func urlContentMutations(L int, masks []byte) []fmut {
	var out []fmut
	for _, m := range fileMutations(L, masks) {
		switch m.kind {
		case "none", "rewrite-identical", "delete", "replace-samelen", "zero-fill", "extend", "flip", "trunc", "remove", "insert":
			out = append(out, m)
		}
	}
	return out
}

// dishonest answers for a reference to orig = content[off:off+size]
type lie struct {
	name string
	mk   func(content, orig []byte, off int) *behav
}

func fixed(status int, body []byte) *behav { return &behav{status: status, body: body, declLen: -1} }

func lies(size int, masks []byte) []lie {
	ls := []lie{
		{"206-exact", func(_, o []byte, _ int) *behav { return fixed(206, o) }},
		{"200-exact", func(_, o []byte, _ int) *behav { return fixed(200, o) }},
		{"200-ignores-range", func(c, _ []byte, _ int) *behav { return fixed(200, c) }},
		{"206-wrong-range", func(c, o []byte, off int) *behav {
			if off > 0 {
				return fixed(206, c[:len(o)])
			}
			if 1+len(o) > len(c) {
				return fixed(206, pattern(len(o), 7))
			}
			return fixed(206, c[1:1+len(o)])
		}},
		{"206-long+1", func(_, o []byte, _ int) *behav { return fixed(206, append(append([]byte{}, o...), 0x00)) }},
		{"206-long+whole", func(c, o []byte, _ int) *behav { return fixed(206, append(append([]byte{}, o...), c...)) }},
		{"206-shifted", func(_, o []byte, _ int) *behav { return fixed(206, append([]byte{0x00}, o...)) }},
		{"206-empty", func(_, _ []byte, _ int) *behav { return fixed(206, nil) }},
		{"200-empty", func(_, _ []byte, _ int) *behav { return fixed(200, nil) }},
		{"404-errorpage", func(_, o []byte, _ int) *behav { return fixed(404, pattern(len(o), 7)) }},
		{"404-exact-body", func(_, o []byte, _ int) *behav { return fixed(404, o) }},
		{"500-errorpage", func(_, o []byte, _ int) *behav { return fixed(500, pattern(len(o), 7)) }},
		{"416", func(_, _ []byte, _ int) *behav { return fixed(416, nil) }},
		{"203-wrong", func(_, o []byte, _ int) *behav { return fixed(203, pattern(len(o), 7)) }},
		{"200-errorpage-samelen", func(_, o []byte, _ int) *behav { return fixed(200, pattern(len(o), 7)) }},
		{"drop-connection", func(_, _ []byte, _ int) *behav { return &behav{drop: true, declLen: -1} }},
		{"302-to-exact", func(_, o []byte, _ int) *behav { return &behav{redirect: register(fixed(206, o)), declLen: -1} }},
		{"302-to-wrong", func(_, o []byte, _ int) *behav {
			return &behav{redirect: register(fixed(206, pattern(len(o), 7))), declLen: -1}
		}},
		{"206-exact-declared-longer", func(_, o []byte, _ int) *behav {
			return &behav{status: 206, body: o, declLen: len(o) + 5}
		}},
	}
	for p := 0; p < size; p++ {
		for _, m := range masks {
			p, m := p, m
			ls = append(ls, lie{fmt.Sprintf("206-flip@%d^%02x", p, m), func(_, o []byte, _ int) *behav {
				b := append([]byte{}, o...)
				b[p] ^= m
				return fixed(206, b)
			}})
		}
		p := p
		ls = append(ls, lie{fmt.Sprintf("206-trunc=%d", p), func(_, o []byte, _ int) *behav { return fixed(206, o[:p]) }})
		ls = append(ls, lie{fmt.Sprintf("206-trunc=%d-declared-full", p), func(_, o []byte, _ int) *behav {
			return &behav{status: 206, body: o[:p], declLen: len(o)}
		}})
	}
	return ls
}

func urlCases(thorough bool, want func(string) bool, emit func(kase)) {
	type lay struct{ k, tail int }
	lays := []lay{{4, 2}}
	masks := []byte{0x01, 0xff}
	if thorough {
		lays = []lay{{4, 2}, {1, 0}, {16, 5}}
		masks = []byte{0x01, 0x02, 0x04, 0x08, 0x10, 0x20, 0x40, 0x80, 0xff}
	}
	for _, la := range lays {
		L, refs := refsFor(la.k, la.tail)
		for _, rf := range refs {
			group := fmt.Sprintf("url/k=%d,tail=%d/%s/", la.k, la.tail, rf.name)
			if !want(group) {
				continue
			}
			for _, m := range urlContentMutations(L, masks) {
				rf, m, L := rf, m, L
				emit(kase{id: group + "honest/" + m.String(), trivial: m.kind == "none", run: func(x *ctx) *eng.Violation {
					content := pattern(L, 2)
					mc, gone := applyContent(m, content)
					return runURL(x, content, rf, m.kind, m.kind == "none", func(_ []byte) *behav {
						return &behav{honest: true, content: mc, gone: gone, declLen: -1}
					})
				}})
			}
			for _, li := range lies(rf.size, masks) {
				rf, li, L := rf, li, L
				emit(kase{id: group + "lying/" + li.name, run: func(x *ctx) *eng.Violation {
					content := pattern(L, 2)
					kind := li.name
					if i := strings.IndexAny(kind, "@="); i > 0 {
						kind = kind[:i]
					}
					return runURL(x, content, rf, kind, false, func(orig []byte) *behav { return li.mk(content, orig, rf.off) })
				}})
			}
		}
	}
}

// finalBody computes, independently of the client, which bytes an HTTP client
// following redirects can read from this behaviour for the given range.
func finalBody(b *behav, off, size int) (body []byte, ok bool) {
	switch {
	case b.drop:
		return nil, false
	case b.redirect != "":
		v, _ := behavs.Load(b.redirect)
		return finalBody(v.(*behav), off, size)
	case b.honest:
		if b.gone {
			return []byte("not found\n"), true
		}
		if size == 0 {
			return b.content, true
		}
		if off >= len(b.content) {
			return []byte("range not satisfiable\n"), true
		}
		hi := off + size
		if hi > len(b.content) {
			hi = len(b.content)
		}
		return b.content[off:hi], true
	}
	return b.body, true
}

func runURL(x *ctx, content []byte, rf ref, kind string, control bool, mk func(orig []byte) *behav) *eng.Violation {
	bg := context.Background()
	orig := append([]byte{}, content[rf.off:rf.off+rf.size]...)
	mds := dssync.MutexWrap(ds.NewMapDatastore())
	fm := filestore.NewFileManager(mds, "/nonexistent-root")
	fm.AllowUrls = true
	fs := filestore.NewFilestore(bstore.NewBlockstore(mds), fm, nil)
	node, err := dag.NewRawNodeWPrefix(orig, refForms[rf.form])
	must(err)
	c := node.Cid()

	// The URL is fixed when the reference is written; the resource behind it
	// changes afterwards (the key is re-bound to the faulty behaviour).
	key := register(&behav{honest: true, content: content, declLen: -1})
	defer behavs.Delete(key)
	url := srvURL + "/" + key
	must(fs.Put(bg, &posinfo.FilestoreNode{Node: node, PosInfo: &posinfo.PosInfo{FullPath: url, Offset: uint64(rf.off)}}))
	feat := []string{"part", "filestore-url", "mutation", kind, "empty_region", fmt.Sprint(rf.size == 0)}
	if b, err := fs.Get(bg, c); err != nil || !bytes.Equal(b.RawData(), orig) {
		return eng.V("intact-reference-rejected", "Get", fmt.Sprintf("%s: honest unmodified server, Get = %v", x.id, err), feat...)
	} else {
		x.keep("Filestore.Get(before mutation)", b, c, orig, feat)
	}
	bh := mk(orig)
	if bh.redirect != "" {
		defer behavs.Delete(bh.redirect)
	}
	behavs.Store(key, bh)

	fb, ok := finalBody(bh, rf.off, rf.size)
	intact := ok && len(fb) >= rf.size && bytes.Equal(fb[:rf.size], orig)
	feat = append(feat, "region_intact", fmt.Sprint(intact))

	blk, err := fs.Get(bg, c)
	cls := "served"
	if err == nil {
		data := blk.RawData()
		if !hashesTo(c, data) || !bytes.Equal(data, orig) {
			return eng.V("wrong-bytes-returned", "Get", fmt.Sprintf("%s: Get returned %q, reference is to %q", x.id, data, orig), feat...)
		}
		if !intact {
			return eng.V("corrupt-reference-served", "Get", fmt.Sprintf("%s: Get succeeded although the server does not deliver the referenced bytes", x.id), feat...)
		}
		x.keep("Filestore.Get", blk, c, orig, feat)
	} else {
		var cre *filestore.CorruptReferenceError
		if !errors.As(err, &cre) {
			return eng.V("error-not-corrupt-reference", "Get", fmt.Sprintf("%s: Get failed with %T %v, want *CorruptReferenceError", x.id, err, err), feat...)
		}
		if control {
			return eng.V("intact-reference-rejected", "Get", fmt.Sprintf("%s: Get = %v on an unmodified resource", x.id, err), feat...)
		}
		cls = "corrupt-" + cre.Code.String()
	}
	j := &statusJudge{x: x, feat: feat, intact: intact, control: control}
	if v, _ := j.judgeAll(fs, c, cid.Undef); v != nil {
		return v
	}
	x.outcome(fmt.Sprintf("url/%s/intact=%v", cls, intact))
	return nil
}
