//go:build verif

package main

import (
	"bytes"
	"context"
	"errors"
	"fmt"
	"os"
	"path/filepath"

	bstore "github.com/ipfs/boxo/blockstore"
	"github.com/ipfs/boxo/filestore"
	posinfo "github.com/ipfs/boxo/filestore/posinfo"
	dag "github.com/ipfs/boxo/ipld/merkledag"
	"github.com/ipfs/boxo/verifshim/eng"
	cid "github.com/ipfs/go-cid"
	ds "github.com/ipfs/go-datastore"
	dssync "github.com/ipfs/go-datastore/sync"
)

// ref is a reference to the region [off, off+size) of the backing file/URL.
type ref struct {
	name      string
	off, size int
	form      string // hash form of the reference's CID
}

var refForms = map[string]cid.Prefix{
	"sha256":    {Version: 1, Codec: cid.Raw, MhType: 0x12, MhLength: -1},
	"blake2b":   {Version: 1, Codec: cid.Raw, MhType: 0xb220, MhLength: -1},
	"sha256t20": {Version: 1, Codec: cid.Raw, MhType: 0x12, MhLength: 20},
}

// layout: k-byte chunks 0,1,2 and an r-byte tail; L = 3k+r.
func refsFor(k, tail int) (L int, refs []ref) {
	L = 3*k + tail
	refs = []ref{
		{"chunk0", 0, k, "sha256"},
		{"chunk1", k, k, "sha256"},
		{"chunk1-blake2b", k, k, "blake2b"},
		{"chunk2-sha256t20", 2 * k, k, "sha256t20"},
		{"whole", 0, L, "sha256"},
		{"lastbyte", L - 1, 1, "sha256"},
		{"empty@0", 0, 0, "sha256"},
		{"empty@mid", k, 0, "sha256"},
		{"empty@eof", L, 0, "sha256"},
	}
	if tail > 0 {
		refs = append(refs, ref{"tail", 3 * k, tail, "sha256"})
	}
	if k > 1 {
		refs = append(refs, ref{"overlap", k / 2, k, "sha256"})
	}
	return
}

// file mutations
type fmut struct {
	kind string
	pos  int
	val  byte
}

func (m fmut) String() string {
	switch m.kind {
	case "flip":
		return fmt.Sprintf("flip@%d^%02x", m.pos, m.val)
	case "trunc", "insert", "remove":
		return fmt.Sprintf("%s@%d", m.kind, m.pos)
	}
	return m.kind
}

func fileMutations(L int, masks []byte) []fmut {
	out := []fmut{{kind: "none"}, {kind: "rewrite-identical"}, {kind: "delete"}, {kind: "replace-by-dir"},
		{kind: "dangling-symlink"}, {kind: "symlink-to-copy"}, {kind: "symlink-to-modified"}, {kind: "parent-removed"},
		{kind: "replace-samelen"}, {kind: "zero-fill"}, {kind: "extend"}, {kind: "rename-away"}}
	for p := 0; p < L; p++ {
		for _, m := range masks {
			out = append(out, fmut{"flip", p, m})
		}
		out = append(out, fmut{"trunc", p, 0}, fmut{"remove", p, 0})
	}
	for p := 0; p <= L; p++ {
		out = append(out, fmut{"insert", p, 0})
	}
	return out
}

func must(err error) {
	if err != nil {
		panic("harness setup: " + err.Error())
	}
}

func (m fmut) apply(dir, path string, content []byte) {
	cp := append([]byte{}, content...)
	switch m.kind {
	case "none":
	case "rewrite-identical":
		must(os.WriteFile(path, cp, 0o644))
	case "delete":
		must(os.Remove(path))
	case "replace-by-dir":
		must(os.Remove(path))
		must(os.Mkdir(path, 0o755))
	case "dangling-symlink":
		must(os.Remove(path))
		must(os.Symlink(filepath.Join(dir, "nowhere"), path))
	case "symlink-to-copy":
		must(os.Remove(path))
		must(os.WriteFile(filepath.Join(dir, "copy.bin"), cp, 0o644))
		must(os.Symlink(filepath.Join(dir, "copy.bin"), path))
	case "symlink-to-modified":
		must(os.Remove(path))
		for i := range cp {
			cp[i] ^= 0x20
		}
		must(os.WriteFile(filepath.Join(dir, "copy.bin"), cp, 0o644))
		must(os.Symlink(filepath.Join(dir, "copy.bin"), path))
	case "parent-removed":
		must(os.RemoveAll(filepath.Dir(path)))
	case "rename-away":
		must(os.Rename(path, path+".moved"))
	case "replace-samelen":
		tmp := path + ".new"
		must(os.WriteFile(tmp, pattern(len(cp), 5), 0o644))
		must(os.Rename(tmp, path))
	case "zero-fill":
		must(os.WriteFile(path, make([]byte, len(cp)), 0o644))
	case "extend":
		must(os.WriteFile(path, append(cp, 0x41), 0o644))
	case "flip":
		cp[m.pos] ^= m.val
		must(os.WriteFile(path, cp, 0o644))
	case "trunc":
		must(os.Truncate(path, int64(m.pos)))
	case "remove":
		must(os.WriteFile(path, append(cp[:m.pos:m.pos], cp[m.pos+1:]...), 0o644))
	case "insert":
		n := append(append(append([]byte{}, cp[:m.pos]...), 0x5a), cp[m.pos:]...)
		must(os.WriteFile(path, n, 0o644))
	default:
		panic("bad mutation " + m.kind)
	}
}

func fileCases(thorough bool, want func(string) bool, emit func(kase)) {
	type lay struct{ k, tail int }
	lays := []lay{{4, 2}, {1, 0}}
	if thorough {
		lays = []lay{{4, 2}, {1, 0}, {16, 5}, {32, 0}}
	}
	for _, reader := range []string{"std", "mmap"} {
		for _, la := range lays {
			L, refs := refsFor(la.k, la.tail)
			masks := []byte{0x01, 0xff}
			if thorough {
				masks = []byte{0x01, 0x02, 0x04, 0x08, 0x10, 0x20, 0x40, 0x80, 0xff}
			}
			for _, rf := range refs {
				group := fmt.Sprintf("file/%s/k=%d,tail=%d/%s/", reader, la.k, la.tail, rf.name)
				if !want(group) {
					continue
				}
				for _, m := range fileMutations(L, masks) {
					reader, rf, m, L := reader, rf, m, L
					emit(kase{id: group + m.String(), trivial: m.kind == "none", run: func(x *ctx) *eng.Violation {
						return runFile(x, reader, L, rf, m)
					}})
				}
			}
		}
	}
}

func runFile(x *ctx, reader string, L int, rf ref, m fmut) *eng.Violation {
	bg := context.Background()
	dir, err := os.MkdirTemp(scratch(), "c03f-")
	must(err)
	defer os.RemoveAll(dir)
	root := filepath.Join(dir, "root")
	must(os.Mkdir(root, 0o755))
	must(os.Mkdir(filepath.Join(root, "sub"), 0o755))
	path := filepath.Join(root, "sub", "data.bin")
	content := pattern(L, 2)
	must(os.WriteFile(path, content, 0o644))

	mds := dssync.MutexWrap(ds.NewMapDatastore())
	var opts []filestore.Option
	if reader == "mmap" {
		opts = append(opts, filestore.WithMMapReader())
	}
	fm := filestore.NewFileManager(mds, root, opts...)
	fm.AllowFiles = true
	fs := filestore.NewFilestore(bstore.NewBlockstore(mds), fm, nil)

	orig := append([]byte{}, content[rf.off:rf.off+rf.size]...)
	node, err := dag.NewRawNodeWPrefix(orig, refForms[rf.form])
	must(err)
	c := node.Cid()
	must(fs.Put(bg, &posinfo.FilestoreNode{Node: node, PosInfo: &posinfo.PosInfo{FullPath: path, Offset: uint64(rf.off)}}))

	// an untouched bystander file with its own reference: must stay ok in every listing
	other := filepath.Join(root, "other.bin")
	ocontent := pattern(9, 3)
	must(os.WriteFile(other, ocontent, 0o644))
	onode, err := dag.NewRawNodeWPrefix(ocontent[2:7], refForms["sha256"])
	must(err)
	bystander := onode.Cid()
	if bystander.Hash().B58String() == c.Hash().B58String() {
		bystander = cid.Undef
	} else {
		must(fs.Put(bg, &posinfo.FilestoreNode{Node: onode, PosInfo: &posinfo.PosInfo{FullPath: other, Offset: 2}}))
	}

	feat := []string{"part", "filestore-file", "reader", reader, "mutation", m.kind, "empty_region", fmt.Sprint(rf.size == 0)}
	// control: before the mutation the reference must be served
	// reads before the mutation: first the bystander, then the target, so that the
	// LAST read before the file changes is a successful verified read of that very
	// file (state kept from it - open handles, caches, buffers - must not survive the change)
	if bystander.Defined() {
		bb, err := fs.Get(bg, bystander)
		if err != nil || !bytes.Equal(bb.RawData(), ocontent[2:7]) {
			return eng.V("intact-reference-rejected", "Get", fmt.Sprintf("%s: Get of the untouched bystander = %v", x.id, err), append(feat, "bystander", "true")...)
		}
		x.keep("Filestore.Get(bystander)", bb, bystander, ocontent[2:7], append(feat, "bystander", "true"))
	}
	if b, err := fs.Get(bg, c); err != nil || !bytes.Equal(b.RawData(), orig) {
		return eng.V("intact-reference-rejected", "Get", fmt.Sprintf("%s: before any mutation Get = %v", x.id, err), feat...)
	} else {
		x.keep("Filestore.Get(before mutation)", b, c, orig, feat)
	}

	m.apply(dir, path, content)

	// independent re-read of the region
	intact := false
	if st, err := os.Stat(path); err == nil && st.Mode().IsRegular() {
		if cur, err := os.ReadFile(path); err == nil {
			if rf.size == 0 {
				intact = true
			} else if rf.off+rf.size <= len(cur) && bytes.Equal(cur[rf.off:rf.off+rf.size], orig) {
				intact = true
			}
		}
	}
	feat = append(feat, "region_intact", fmt.Sprint(intact))

	check := func(via string, data []byte, err error) *eng.Violation {
		if err == nil {
			if !hashesTo(c, data) || !bytes.Equal(data, orig) {
				return eng.V("wrong-bytes-returned", via, fmt.Sprintf("%s: %s returned %q, reference is to %q", x.id, via, data, orig), feat...)
			}
			if !intact {
				return eng.V("corrupt-reference-served", via, fmt.Sprintf("%s: %s succeeded although the referenced region can no longer be read from the file", x.id, via), feat...)
			}
			return nil
		}
		var cre *filestore.CorruptReferenceError
		if !errors.As(err, &cre) {
			return eng.V("error-not-corrupt-reference", via, fmt.Sprintf("%s: %s failed with %T %v, want *CorruptReferenceError", x.id, via, err, err), feat...)
		}
		if m.kind == "none" {
			return eng.V("intact-reference-rejected", via, fmt.Sprintf("%s: %s = %v on an unmodified file", x.id, via, err), feat...)
		}
		return nil
	}
	b1, err1 := fs.Get(bg, c)
	var d1 []byte
	if err1 == nil {
		d1 = b1.RawData()
	}
	if v := check("Filestore.Get", d1, err1); v != nil {
		return v
	}
	if err1 == nil {
		x.keep("Filestore.Get", b1, c, orig, feat)
	}
	b2, err2 := fm.Get(bg, alias(c)) // same multihash, other codec
	var d2 []byte
	if err2 == nil {
		d2 = b2.RawData()
	}
	if v := check("FileManager.Get", d2, err2); v != nil {
		return v
	}
	if err2 == nil {
		x.keep("FileManager.Get", b2, alias(c), orig, feat)
	}
	j := &statusJudge{x: x, feat: feat, intact: intact, control: m.kind == "none"}
	v, lobs := j.judgeAll(fs, c, bystander)
	if v != nil {
		return v
	}
	if bystander.Defined() {
		bb, err := fm.Get(bg, bystander)
		if err != nil || !bytes.Equal(bb.RawData(), ocontent[2:7]) {
			return eng.V("intact-reference-rejected", "FileManager.Get", fmt.Sprintf("%s: Get of the untouched bystander after the reads of the mutated file = %v", x.id, err), append(feat, "bystander", "true")...)
		}
		x.keep("FileManager.Get(bystander, last)", bb, bystander, ocontent[2:7], append(feat, "bystander", "true"))
	}
	cls := "served"
	if err1 != nil {
		var cre *filestore.CorruptReferenceError
		errors.As(err1, &cre)
		cls = "corrupt-" + cre.Code.String()
	}
	if lobs != "List=ok,ListAll(fileOrder=false)=ok,ListAll(fileOrder=true)=ok" {
		cls += "/" + lobs
	}
	x.outcome(fmt.Sprintf("file/%s/intact=%v", cls, intact))
	return nil
}
