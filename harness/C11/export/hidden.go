//go:build verif

package merkledag

import (
	cid "github.com/ipfs/go-cid"
	format "github.com/ipfs/go-ipld-format"
)

// VerifHidden is a read-only view of the private cache state of a ProtoNode
// (used by the /verif C11 harness as part of the canonical state key).
type VerifHidden struct {
	EncodedNil bool
	Encoded    []byte
	Cached     cid.Cid
	LinksDirty bool
	Links      []*format.Link // current in-memory order (not copied deep)
	Builder    cid.Builder
}

// VerifHiddenState returns the private cache fields without touching them.
func (n *ProtoNode) VerifHiddenState() VerifHidden {
	h := VerifHidden{EncodedNil: n.encoded == nil, Cached: n.cached, LinksDirty: n.linksDirty, Builder: n.builder}
	if n.encoded != nil {
		h.Encoded = n.encoded.encoded
	}
	h.Links = append([]*format.Link(nil), n.links...)
	return h
}
