//go:build verif

// C11: dag-pb nodes encode canonically and never expose a stale CID.
//
// Engine E1: breadth-first search over sequences of ProtoNode mutations and
// (cache-touching) observers, every successor replayed on a fresh node. The
// reference model is (data, link list kept in the order the statement
// prescribes, CID builder). The state key contains the model and the private
// cache flags of the node (export/hidden.go).
package main

import (
	"bytes"
	"encoding/json"
	"fmt"
	"sort"
	"strings"

	mdag "github.com/ipfs/boxo/ipld/merkledag"
	blocks "github.com/ipfs/go-block-format"
	"github.com/ipfs/boxo/verifshim/eng"
	cid "github.com/ipfs/go-cid"
	format "github.com/ipfs/go-ipld-format"
	mh "github.com/multiformats/go-multihash"
)

// ---------- fixed pools ----------

type mlink struct {
	Name string
	Cid  cid.Cid
	Size uint64
}

func (l mlink) String() string { return fmt.Sprintf("%q>%s/%d", l.Name, l.Cid.String(), l.Size) }

func short(c cid.Cid) string {
	s := c.String()
	if len(s) > 10 {
		return s[len(s)-8:]
	}
	return s
}

func sum(data string, code uint64) mh.Multihash {
	h, err := mh.Sum([]byte(data), code, -1)
	if err != nil {
		panic(err)
	}
	return h
}

var (
	t1 = cid.NewCidV0(sum("target-1", mh.SHA2_256))
	t2 = cid.NewCidV1(cid.Raw, sum("target-2", mh.BLAKE2B_MIN+31))
	// link "kinds": target + Tsize
	linkKinds = map[string]mlink{
		"L1": {Cid: t1, Size: 0},
		"L2": {Cid: t2, Size: 1<<63 - 1},
		"L3": {Cid: t1, Size: 1<<63 - 1},
		"L4": {Cid: t2, Size: 1},
		"LX": {Cid: t1, Size: 1 << 63}, // above the statement's range: the model follows the node's accept/reject decision
	}
	datas = map[string][]byte{"nil": nil, "empty": {}, "x": []byte("x"), "long": bytes.Repeat([]byte{0xff, 0x00, 0x7f}, 50)}
)

func child() *mdag.ProtoNode { return mdag.NodeWithData([]byte("child-node")) }

type bld struct {
	name string
	arg  cid.Builder // what is handed to SetCidBuilder
	want cid.Builder // what the CID must be computed with afterwards
	bad  bool
}

func builders() map[string]bld {
	v0 := cid.Prefix{Version: 0, Codec: cid.DagProtobuf, MhType: mh.SHA2_256, MhLength: -1}
	v1 := cid.Prefix{Version: 1, Codec: cid.DagProtobuf, MhType: mh.SHA2_256, MhLength: -1}
	bl := cid.Prefix{Version: 1, Codec: cid.DagProtobuf, MhType: mh.BLAKE2B_MIN + 31, MhLength: -1}
	s5 := cid.Prefix{Version: 1, Codec: cid.DagProtobuf, MhType: mh.SHA2_512, MhLength: -1}
	bad := cid.Prefix{Version: 1, Codec: cid.DagProtobuf, MhType: 0x7ffe, MhLength: -1}
	return map[string]bld{
		"nil":    {"nil", nil, v0, false},
		"v0":     {"v0", cid.V0Builder{}, v0, false},
		"v1":     {"v1", v1, v1, false},
		"blake":  {"blake", bl, bl, false},
		"sha512": {"sha512", &s5, s5, false},
		"bad":    {"bad", bad, nil, true},
	}
}

// ---------- minimal independent protobuf reader for dag-pb ----------

type plink struct {
	hash  []byte
	name  string
	tsize uint64
}

func uvarint(b []byte) (uint64, int) {
	var x uint64
	var s uint
	for i, c := range b {
		if i == 10 {
			return 0, -1
		}
		if c < 0x80 {
			return x | uint64(c)<<s, i + 1
		}
		x |= uint64(c&0x7f) << s
		s += 7
	}
	return 0, -1
}

func fields(b []byte, f func(num int, wire int, val []byte, v uint64) error) error {
	for len(b) > 0 {
		tag, n := uvarint(b)
		if n <= 0 {
			return fmt.Errorf("bad tag")
		}
		b = b[n:]
		num, wire := int(tag>>3), int(tag&7)
		switch wire {
		case 0:
			v, n := uvarint(b)
			if n <= 0 {
				return fmt.Errorf("bad varint")
			}
			b = b[n:]
			if err := f(num, wire, nil, v); err != nil {
				return err
			}
		case 2:
			l, n := uvarint(b)
			if n <= 0 || uint64(len(b)-n) < l {
				return fmt.Errorf("bad length")
			}
			if err := f(num, wire, b[n:n+int(l)], 0); err != nil {
				return err
			}
			b = b[n+int(l):]
		default:
			return fmt.Errorf("unexpected wire type %d", wire)
		}
	}
	return nil
}

func parsePB(b []byte) (data []byte, links []plink, err error) {
	err = fields(b, func(num, wire int, val []byte, v uint64) error {
		switch {
		case num == 1 && wire == 2:
			data = append([]byte{}, val...)
		case num == 2 && wire == 2:
			var l plink
			if e := fields(val, func(num, wire int, val []byte, v uint64) error {
				switch {
				case num == 1 && wire == 2:
					l.hash = append([]byte{}, val...)
				case num == 2 && wire == 2:
					l.name = string(val)
				case num == 3 && wire == 0:
					l.tsize = v
				default:
					return fmt.Errorf("unknown link field %d/%d", num, wire)
				}
				return nil
			}); e != nil {
				return e
			}
			links = append(links, l)
		default:
			return fmt.Errorf("unknown node field %d/%d", num, wire)
		}
		return nil
	})
	return
}

// refEncode is used only to build the *initial* encoded forms for the
// "decoded" start configurations (never as an oracle).
func refEncode(data []byte, links []mlink) []byte {
	putv := func(b []byte, x uint64) []byte {
		for x >= 0x80 {
			b = append(b, byte(x)|0x80)
			x >>= 7
		}
		return append(b, byte(x))
	}
	var out []byte
	for _, l := range links {
		var lb []byte
		cb := l.Cid.Bytes()
		lb = append(lb, 0x0a)
		lb = putv(lb, uint64(len(cb)))
		lb = append(lb, cb...)
		lb = append(lb, 0x12)
		lb = putv(lb, uint64(len(l.Name)))
		lb = append(lb, l.Name...)
		lb = append(lb, 0x18)
		lb = putv(lb, l.Size)
		out = append(out, 0x12)
		out = putv(out, uint64(len(lb)))
		out = append(out, lb...)
	}
	if data != nil {
		out = append(out, 0x0a)
		out = putv(out, uint64(len(data)))
		out = append(out, data...)
	}
	return out
}

// ---------- system under exploration ----------

type sys struct {
	cfg   string
	start string
	prof  *profile
	blds  map[string]bld

	n *mdag.ProtoNode

	// model
	data    []byte
	links   []mlink // in the order the statement prescribes for serialization
	sorted  bool    // false only for a node decoded from an unsorted form that has had no link mutation yet
	builder bld
	steps   int
	lastMut string // kind of the most recent state-changing operation (defect-class feature)
}

func stableSort(ls []mlink) {
	sort.SliceStable(ls, func(i, j int) bool { return ls[i].Name < ls[j].Name })
}

// profile = the alphabet of one exploration phase.
type profile struct {
	Name      string
	Observers []string
	Datas     []string
	Builders  []string
	Names     []string
	Kinds     []string
	NodeLink  []string // names used with AddNodeLink
	SetLinks  []string
	MaxLinks  int
	Depth     int
	Starts    []string // start forms (first operation of every path)
}

func newSys(cfg string, profs map[string]*profile) eng.Sys {
	s := &sys{cfg: cfg, start: "none", prof: profs[cfg], blds: builders(), sorted: true, lastMut: "none"}
	s.builder = s.blds["nil"]
	return s
}

// begin creates the node under test; it is the first operation of every path
// so that all start forms share one visited-set.
func (s *sys) begin(start string) {
	s.start = start
	if strings.HasPrefix(start, "bulk-") {
		s.beginBulk(start)
		return
	}
	switch start {
	case "fresh":
		s.n = new(mdag.ProtoNode)
	case "decoded-sorted", "decoded-unsorted", "decoded-block-v1":
		ls := []mlink{{"a", t1, 3}, {"b", t2, 0}}
		if start == "decoded-unsorted" {
			ls = []mlink{{"b", t2, 0}, {"a", t1, 3}}
			s.sorted = false
		}
		s.data = []byte("x")
		s.links = ls
		raw := refEncode(s.data, ls)
		if start == "decoded-block-v1" {
			// decoded through the block decoder: CID and builder come from the block
			b := s.blds["v1"]
			c, err := b.want.Sum(raw)
			if err != nil {
				panic(err)
			}
			blk, err := newBlock(raw, c)
			if err != nil {
				panic(err)
			}
			nd, err := mdag.DecodeProtobufBlock(blk)
			if err != nil {
				panic(err)
			}
			s.n = nd.(*mdag.ProtoNode)
			s.builder = b
		} else {
			nd, err := mdag.DecodeProtobuf(raw)
			if err != nil {
				panic(err)
			}
			s.n = nd
		}
	default:
		panic("unknown start " + start)
	}
}

// bulkLinks returns n links over the names {a, b, "", c} (so every name occurs
// several times) in one of several initial orders. Every link is
// distinguishable by its Tsize, so the relative order of equal names is
// observable.
func bulkLinks(order string, n int) []mlink {
	names := []string{"a", "b", "", "c"}
	base := make([]mlink, n)
	for i := range base {
		c := t1
		if i%2 == 1 {
			c = t2
		}
		base[i] = mlink{names[i%len(names)], c, uint64(i + 1)}
	}
	srt := append([]mlink{}, base...)
	stableSort(srt)
	switch order {
	case "interleaved":
		return base
	case "sorted":
		return srt
	case "reversed":
		out := make([]mlink, n)
		for i, l := range srt {
			out[n-1-i] = l
		}
		return out
	case "rotated":
		k := n / 3
		return append(append([]mlink{}, srt[k:]...), srt[:k]...)
	}
	panic("bulk order " + order)
}

// beginBulk: "bulk-<ctor>-<order>-<n>": a node that has n (13..20) links before
// its first sort, built by n AddRawLink calls, one SetLinks call, or by
// decoding an encoding that carries the links in that order. Library sort
// routines switch algorithm above a size threshold (Go: 12), which
// single-link operations in a depth-bounded search never reach.
func (s *sys) beginBulk(start string) {
	f := strings.Split(start, "-")
	ctor, order := f[1], f[2]
	var n int
	fmt.Sscanf(f[3], "%d", &n)
	ls := bulkLinks(order, n)
	s.links = append([]mlink{}, ls...)
	switch ctor {
	case "addraw":
		s.n = new(mdag.ProtoNode)
		for _, l := range ls {
			if err := s.n.AddRawLink(l.Name, &format.Link{Cid: l.Cid, Size: l.Size}); err != nil {
				panic(err)
			}
		}
		s.linkMutated()
		s.lastMut = "AddRawLink"
	case "setlinks":
		s.n = mdag.NodeWithData([]byte("x"))
		s.data = []byte("x")
		arg := []*format.Link{}
		for _, l := range ls {
			arg = append(arg, &format.Link{Name: l.Name, Cid: l.Cid, Size: l.Size})
		}
		if err := s.n.SetLinks(arg); err != nil {
			panic(err)
		}
		s.linkMutated()
		s.lastMut = "SetLinks"
	case "decoded":
		s.data = []byte("x")
		nd, err := mdag.DecodeProtobuf(refEncode(s.data, ls))
		if err != nil {
			panic(err)
		}
		s.n = nd
		s.sorted = order == "sorted"
	default:
		panic("bulk ctor " + ctor)
	}
}

func (s *sys) Ops() []string {
	p := s.prof
	var ops []string
	if s.n == nil {
		sts := p.Starts
		if sts == nil {
			sts = starts
		}
		for _, st := range sts {
			ops = append(ops, "Start "+st)
		}
		return ops
	}
	if s.steps >= p.Depth {
		return nil
	}
	ops = append(ops, p.Observers...) // observers that touch the caches
	for _, d := range p.Datas {
		ops = append(ops, "SetData "+d)
	}
	for _, b := range p.Builders {
		ops = append(ops, "SetCidBuilder "+b)
	}
	for _, nm := range p.Names {
		ops = append(ops, "RemoveNodeLink "+q(nm))
	}
	if len(s.links) < p.MaxLinks {
		for _, nm := range p.Names {
			for _, k := range p.Kinds {
				ops = append(ops, "AddRawLink "+q(nm)+" "+k)
			}
		}
		for _, nm := range p.NodeLink {
			ops = append(ops, "AddNodeLink "+q(nm))
		}
	}
	for _, x := range p.SetLinks {
		ops = append(ops, "SetLinks "+x)
	}
	ops = append(ops, "Copy")
	return ops
}

func q(s string) string   { return "'" + s + "'" }
func unq(s string) string { return strings.Trim(s, "'") }

func (s *sys) has(name string) bool {
	for _, l := range s.links {
		if l.Name == name {
			return true
		}
	}
	return false
}

func (s *sys) linkMutated() {
	s.sorted = true
	stableSort(s.links)
}

func (s *sys) feat(extra ...string) []string {
	dup := false
	seen := map[string]bool{}
	for _, l := range s.links {
		if seen[l.Name] {
			dup = true
		}
		seen[l.Name] = true
	}
	f := []string{"last_mutation", s.lastMut, "builder", s.builder.name, "dup_names", fmt.Sprint(dup), "start", s.start}
	return append(f, extra...)
}

func (s *sys) Do(op string) (string, *eng.Violation) {
	f := strings.Fields(op)
	if f[0] == "Start" {
		s.begin(f[1])
		return "ok", nil
	}
	s.steps++
	n := s.n
	switch f[0] {
	case "Cid":
		c := n.Cid()
		raw := n.RawData()
		if v := s.checkCid(c, raw, "Cid"); v != nil {
			return "bad", v
		}
		return "cid", nil
	case "RawData":
		raw := n.RawData()
		if v := s.checkEncoding(raw, "RawData"); v != nil {
			return "bad", v
		}
		return "raw", nil
	case "EncodeForce":
		raw, err := n.EncodeProtobuf(true)
		if err != nil {
			return "err", eng.V("unexpected-error", "EncodeProtobuf", err.Error(), s.feat()...)
		}
		if v := s.checkEncoding(raw, "EncodeProtobuf"); v != nil {
			return "bad", v
		}
		return "raw", nil
	case "Links":
		if v := s.checkLinks(n.Links(), "Links"); v != nil {
			return "bad", v
		}
		return "links", nil
	case "Tree":
		got := n.Tree("", -1)
		want := []string{}
		for _, l := range s.links {
			want = append(want, l.Name)
		}
		if strings.Join(got, "\x00") != strings.Join(want, "\x00") || len(got) != len(want) {
			return "bad", eng.V("links-mismatch", "Tree", fmt.Sprintf("Tree()=%q want %q", got, want), s.feat()...)
		}
		return "tree", nil
	case "MarshalJSON":
		if _, err := n.MarshalJSON(); err != nil {
			return "err", eng.V("unexpected-error", "MarshalJSON", err.Error(), s.feat()...)
		}
		return "json", nil
	case "Size":
		sz, err := n.Size()
		if err != nil {
			return "err", eng.V("unexpected-error", "Size", err.Error(), s.feat()...)
		}
		_ = sz
		return "size", nil
	case "SetData":
		d := datas[f[1]]
		if d != nil {
			d = append([]byte{}, d...)
		}
		n.SetData(d)
		s.data = d
		s.lastMut = "SetData"
		return "ok", nil
	case "SetCidBuilder":
		b := s.blds[f[1]]
		err := n.SetCidBuilder(b.arg)
		if b.bad {
			if err == nil {
				// accepting an unusable hasher is outside the statement: not judged,
				// and the CID is not judged while that builder is installed.
				s.builder = b
				s.lastMut = "SetCidBuilder(bad)"
				return "accepted-bad", nil
			}
			return "rejected", nil
		}
		if err != nil {
			return "err", eng.V("unexpected-error", "SetCidBuilder", fmt.Sprintf("SetCidBuilder(%s): %v", b.name, err), s.feat()...)
		}
		s.builder = b
		s.lastMut = "SetCidBuilder(" + b.name + ")"
		return "ok", nil
	case "AddRawLink":
		name := unq(f[1])
		k := linkKinds[f[2]]
		err := n.AddRawLink(name, &format.Link{Name: "ignored-by-AddRawLink", Cid: k.Cid, Size: k.Size})
		if err != nil {
			if k.Size <= 1<<63-1 {
				return "err", eng.V("unexpected-error", "AddRawLink", fmt.Sprintf("AddRawLink(%q, tsize=%d): %v", name, k.Size, err), s.feat("tsize", tsClass(k.Size))...)
			}
			return "rejected", nil // model unchanged
		}
		s.links = append(s.links, mlink{name, k.Cid, k.Size})
		s.linkMutated()
		s.lastMut = "AddRawLink"
		return "ok", nil
	case "AddNodeLink":
		name := unq(f[1])
		ch := child()
		err := n.AddNodeLink(name, ch)
		if err != nil {
			return "err", eng.V("unexpected-error", "AddNodeLink", err.Error(), s.feat()...)
		}
		s.links = append(s.links, mlink{name, ch.Cid(), uint64(len(ch.RawData()))})
		s.linkMutated()
		s.lastMut = "AddNodeLink"
		return "ok", nil
	case "RemoveNodeLink":
		name := unq(f[1])
		present := s.has(name)
		err := n.RemoveNodeLink(name)
		if !present {
			// nothing to remove: whatever is returned, the node must be unchanged
			if err == nil {
				return "ok-absent", nil
			}
			return "notfound", nil
		}
		if err != nil {
			return "err", eng.V("unexpected-error", "RemoveNodeLink", fmt.Sprintf("RemoveNodeLink(%q) with the name present: %v", name, err), s.feat()...)
		}
		keep := s.links[:0:0]
		for _, l := range s.links {
			if l.Name != name {
				keep = append(keep, l)
			}
		}
		s.links = keep
		s.linkMutated()
		s.lastMut = "RemoveNodeLink"
		return "ok", nil
	case "SetLinks":
		var nl []mlink
		switch f[1] {
		case "nil":
		case "rev":
			for i := len(s.links) - 1; i >= 0; i-- {
				nl = append(nl, s.links[i])
			}
		case "dup":
			nl = []mlink{{"b", t1, 7}, {"a", t2, 0}, {"a", t1, 1<<63 - 1}}
		}
		arg := []*format.Link{}
		for _, l := range nl {
			arg = append(arg, &format.Link{Name: l.Name, Cid: l.Cid, Size: l.Size})
		}
		if f[1] == "nil" {
			arg = nil
		}
		if err := n.SetLinks(arg); err != nil {
			return "err", eng.V("unexpected-error", "SetLinks", err.Error(), s.feat()...)
		}
		s.links = nl
		s.linkMutated()
		s.lastMut = "SetLinks"
		return "ok", nil
	case "Copy":
		// Copy is not one of the mutations the statement talks about; the model
		// follows what Copy documents (sorted links, same builder) and adopts its
		// nil-for-empty data, then the invariants are checked on the copy.
		cp := n.Copy().(*mdag.ProtoNode)
		s.n = cp
		if len(s.data) == 0 {
			s.data = nil
		}
		s.linkMutated()
		s.lastMut = "Copy"
		return "ok", nil
	}
	panic("unknown op " + op)
}

// sameLinks compares a printed link sequence with the model: as a sequence
// once the statement's ordering applies, as a multiset for a node decoded from
// an unsorted form that has not had a link mutation yet (order unspecified).
func (s *sys) sameLinks(got []string) bool {
	want := []string{}
	for _, l := range s.links {
		want = append(want, l.String())
	}
	if !s.sorted {
		got = append([]string{}, got...)
		sort.Strings(got)
		sort.Strings(want)
	}
	return strings.Join(got, "\x00") == strings.Join(want, "\x00") && len(got) == len(want)
}

func tsClass(x uint64) string {
	switch {
	case x == 0:
		return "0"
	case x == 1<<63-1:
		return "maxint64"
	case x > 1<<63-1:
		return ">maxint64"
	}
	return "small"
}

func (s *sys) checkCid(c cid.Cid, raw []byte, op string) *eng.Violation {
	if s.builder.want == nil {
		return nil
	}
	want, err := s.builder.want.Sum(raw)
	if err != nil {
		panic(err)
	}
	if !c.Equals(want) {
		return eng.V("cid-not-hash-of-encoding", op, fmt.Sprintf("Cid()=%s but builder(%s).Sum(RawData())=%s (prefix got %+v)", c, s.builder.name, want, c.Prefix()), s.feat()...)
	}
	return nil
}

func (s *sys) checkLinks(got []*format.Link, op string) *eng.Violation {
	gs := []string{}
	for _, l := range got {
		gs = append(gs, mlink{l.Name, l.Cid, l.Size}.String())
	}
	if !s.sameLinks(gs) {
		return eng.V("links-mismatch", op, fmt.Sprintf("%s()=%v want %v", op, gs, s.links), s.feat()...)
	}
	return nil
}

// checkEncoding parses raw with the harness's own protobuf reader and compares
// the serialized link order and data with the model.
func (s *sys) checkEncoding(raw []byte, op string) *eng.Violation {
	if raw == nil {
		return eng.V("encode-failed", op, "RawData() returned nil (encode error)", s.feat()...)
	}
	data, links, err := parsePB(raw)
	if err != nil {
		return eng.V("encoding-unparseable", op, fmt.Sprintf("%v: %x", err, raw), s.feat()...)
	}
	if !bytes.Equal(data, s.data) {
		return eng.V("encoded-data-mismatch", op, fmt.Sprintf("encoding carries data %q, node data is %q", data, s.data), s.feat()...)
	}
	gs := []string{}
	sortedNames := true
	for i, l := range links {
		c, err := cid.Cast(l.hash)
		if err != nil {
			return eng.V("encoding-unparseable", op, fmt.Sprintf("link hash %x is not a CID: %v", l.hash, err), s.feat()...)
		}
		gs = append(gs, mlink{l.name, c, l.tsize}.String())
		if i > 0 && links[i-1].name > l.name {
			sortedNames = false
		}
	}
	if !s.sameLinks(gs) {
		sym := "serialized-links-mismatch"
		if len(links) == len(s.links) && !sortedNames {
			sym = "serialized-links-unsorted"
		} else if len(links) == len(s.links) && sortedNames {
			sym = "serialized-links-wrong-order-or-content"
		}
		return eng.V(sym, op, fmt.Sprintf("encoding has links %v want %v", gs, s.links), s.feat()...)
	}
	return nil
}

func (s *sys) Key() string {
	if s.n == nil {
		return "init"
	}
	h := s.n.VerifHiddenState()
	var sb strings.Builder
	fmt.Fprintf(&sb, "M|%v|%q|%v|%s|", s.data == nil, s.data, s.sorted, s.builder.name)
	for _, l := range s.links {
		sb.WriteString(l.String() + ",")
	}
	fmt.Fprintf(&sb, "|H|%v|%x|%s|%v|%#v|", h.EncodedNil, h.Encoded, h.Cached.String(), h.LinksDirty, h.Builder)
	for _, l := range h.Links {
		sb.WriteString(mlink{l.Name, l.Cid, l.Size}.String() + ",")
	}
	return sb.String()
}

func (s *sys) Check() *eng.Violation {
	n := s.n
	if n == nil {
		return nil
	}
	// 1. CID is the hash (per the current builder) of the current encoding
	c := n.Cid()
	raw := n.RawData()
	if v := s.checkEncoding(raw, "RawData"); v != nil {
		return v
	}
	if v := s.checkCid(c, raw, "Cid"); v != nil {
		return v
	}
	raw2, err := n.EncodeProtobuf(false)
	if err != nil || !bytes.Equal(raw, raw2) {
		return eng.V("encoding-unstable", "EncodeProtobuf", fmt.Sprintf("EncodeProtobuf(false)=%x,%v after RawData()=%x", raw2, err, raw), s.feat()...)
	}
	// 2. the node's own view
	if v := s.checkLinks(n.Links(), "Links"); v != nil {
		return v
	}
	if !bytes.Equal(n.Data(), s.data) {
		return eng.V("data-mismatch", "Data", fmt.Sprintf("Data()=%q want %q", n.Data(), s.data), s.feat()...)
	}
	// observers must not have changed the identity
	if c2 := n.Cid(); !c2.Equals(c) {
		return eng.V("cid-unstable", "Cid", fmt.Sprintf("Cid() changed from %s to %s across pure observers", c, c2), s.feat()...)
	}
	// 3. decoding the encoding yields the same data and links
	dec, err := mdag.DecodeProtobuf(raw)
	if err != nil {
		return eng.V("decode-failed", "DecodeProtobuf", fmt.Sprintf("%v on %x", err, raw), s.feat()...)
	}
	if !bytes.Equal(dec.Data(), s.data) {
		return eng.V("roundtrip-data-mismatch", "DecodeProtobuf", fmt.Sprintf("decoded data %q want %q", dec.Data(), s.data), s.feat()...)
	}
	if v := s.checkLinks(dec.Links(), "DecodeProtobuf.Links"); v != nil {
		v.Symptom = "roundtrip-links-mismatch"
		return v
	}
	blk, err := newBlock(raw, c)
	if err == nil {
		nd, err := mdag.DecodeProtobufBlock(blk)
		if err != nil {
			return eng.V("decode-failed", "DecodeProtobufBlock", err.Error(), s.feat()...)
		}
		if !nd.Cid().Equals(c) || !bytes.Equal(nd.RawData(), raw) {
			return eng.V("roundtrip-block-mismatch", "DecodeProtobufBlock", fmt.Sprintf("decoded block has cid %s raw %x; want %s %x", nd.Cid(), nd.RawData(), c, raw), s.feat()...)
		}
	}
	// 4. same data + same named links (distinct names) => identical encoding,
	// whatever order the links are added in: rebuild the node in every insertion
	// order (<= 24 permutations) on a fresh node and compare the bytes.
	names := map[string]bool{}
	for _, l := range s.links {
		names[l.Name] = true
	}
	if len(names) == len(s.links) && s.sorted && len(s.links) <= 4 {
		var v *eng.Violation
		permute(len(s.links), func(p []int) bool {
			f := mdag.NodeWithData(s.data)
			for _, i := range p {
				l := s.links[i]
				if err := f.AddRawLink(l.Name, &format.Link{Cid: l.Cid, Size: l.Size}); err != nil {
					v = eng.V("unexpected-error", "AddRawLink", err.Error(), s.feat()...)
					return false
				}
			}
			if !bytes.Equal(f.RawData(), raw) {
				v = eng.V("encoding-depends-on-history", "RawData", fmt.Sprintf("fresh node with links added in order %v encodes to %x; explored node encodes to %x", p, f.RawData(), raw), s.feat("nil_data", fmt.Sprint(s.data == nil))...)
				return false
			}
			return true
		})
		if v != nil {
			return v
		}
	}
	return nil
}

func newBlock(raw []byte, c cid.Cid) (blocks.Block, error) { return blocks.NewBlockWithCid(raw, c) }

func permute(n int, f func(p []int) bool) {
	p := make([]int, n)
	for i := range p {
		p[i] = i
	}
	var rec func(k int) bool
	rec = func(k int) bool {
		if k == n {
			return f(p)
		}
		for i := k; i < n; i++ {
			p[k], p[i] = p[i], p[k]
			ok := rec(k + 1)
			p[k], p[i] = p[i], p[k]
			if !ok {
				return false
			}
		}
		return true
	}
	rec(0)
}

func (s *sys) Close() {}

func bulkStarts(sizes []int) []string {
	var out []string
	for _, ctor := range []string{"addraw", "setlinks", "decoded"} {
		for _, order := range []string{"interleaved", "sorted", "reversed", "rotated"} {
			for _, n := range sizes {
				out = append(out, fmt.Sprintf("bulk-%s-%s-%d", ctor, order, n))
			}
		}
	}
	return out
}

func profiles(r *eng.Run) map[string]*profile {
	m := profilesAB(r)
	// C: bulk nodes (13..20 links over 4 names incl. the empty name, every name
	// duplicated, 4 initial orders, 3 ways of construction), normal alphabet on top
	m["C"] = &profile{Name: "C", Observers: []string{"Cid", "Links"}, Datas: []string{"nil"}, Builders: []string{"v1"},
		Names: []string{"", "a", "c"}, Kinds: []string{"L1"}, NodeLink: []string{"b"}, SetLinks: []string{"rev"}, MaxLinks: 24,
		Depth: eng.Pick(r, 2, 3), Starts: bulkStarts(eng.Pick(r, []int{13, 16, 20}, []int{12, 13, 14, 16, 17, 20}))}
	return m
}

func profilesAB(r *eng.Run) map[string]*profile {
	obsAll := []string{"Cid", "RawData", "Links", "EncodeForce", "Tree", "MarshalJSON", "Size"}
	if !r.Thorough() {
		return map[string]*profile{
			// A: small link pool, explored until the state space closes (all histories of any length)
			"A": {Name: "A", Observers: obsAll[:4], Datas: []string{"nil", "empty", "x"}, Builders: []string{"nil", "v1", "blake"},
				Names: []string{"a", "b"}, Kinds: []string{"L1", "L2"}, SetLinks: []string{"nil", "rev"}, MaxLinks: 2, Depth: 64},
			// B: larger link pool (empty and duplicate names, 3 links), depth-bounded
			"B": {Name: "B", Observers: []string{"Cid", "Links"}, Datas: []string{"nil", "x"}, Builders: []string{"nil", "v1"},
				Names: []string{"", "a", "b"}, Kinds: []string{"L1", "L2"}, NodeLink: []string{"a"}, SetLinks: []string{"nil", "rev"}, MaxLinks: 3, Depth: 5},
		}
	}
	return map[string]*profile{
		"A": {Name: "A", Observers: obsAll, Datas: []string{"nil", "empty", "x"}, Builders: []string{"nil", "v0", "v1", "blake", "bad"},
			Names: []string{"", "a", "b"}, Kinds: []string{"L1", "L2", "LX"}, NodeLink: []string{"a"}, SetLinks: []string{"nil", "rev", "dup"}, MaxLinks: 2, Depth: 64},
		"B": {Name: "B", Observers: []string{"Cid", "Links", "RawData"}, Datas: []string{"nil", "empty", "long"}, Builders: []string{"nil", "v1", "sha512"},
			Names: []string{"", "a", "b", "ab"}, Kinds: []string{"L1", "L2", "L3"}, NodeLink: []string{"a", ""}, SetLinks: []string{"nil", "rev", "dup"}, MaxLinks: 4, Depth: 5},
	}
}

var starts = []string{"fresh", "decoded-sorted", "decoded-unsorted", "decoded-block-v1"}

func spec(r *eng.Run) eng.SeqSpec {
	profs := profiles(r)
	return eng.SeqSpec{
		Configs: []string{"C", "B", "A"},
		New:     func(c string) eng.Sys { return newSys(c, profs) },
		Depth:   100, // phase A ends by closure, phase B by its own depth bound (Ops() is empty beyond it)
		NonTrivial: func(cfg string, p []string) bool { return len(p) >= 3 },
	}
}

func main() {
	eng.Main("C11", "model_checking", func(r *eng.Run) {
		r.Rule("BFS over sequences of ProtoNode mutations (AddRawLink/AddNodeLink/RemoveNodeLink/SetLinks/SetData/SetCidBuilder/Copy) interleaved with cache-touching observers (Cid/RawData/Links/EncodeProtobuf(true)/Tree/MarshalJSON/Size); successor = replay on a fresh node + 1 op; state = model (data, ordered links, builder) + private cache flags (encoded, cached CID, linksDirty, in-memory link order); non-trivial = path of >= 2 operations. Phase A: <=2 links, run until no new state appears (closure). Phase B: larger link pool with empty/duplicate names, depth-bounded. Phase C: bulk nodes with 13..20 links (4 names incl. empty, all duplicated; built by AddRawLink xN, SetLinks, or decoding; initial order interleaved/sorted/reversed/rotated) with the alphabet on top to depth 2/3, so that size thresholds of the sort routine are crossed. After every transition: Cid()==builder.Sum(RawData()), RawData parsed by an independent protobuf reader has the model's data and links in sorted-by-name / insertion order, DecodeProtobuf(RawData()) has the same data and links, and (distinct names) a fresh node built in every insertion order encodes to the same bytes.")
		r.Assume("go-cid Prefix.Sum / go-multihash compute the hash functions correctly")
		r.Assume("a node decoded from an unsorted encoding is required to serialize sorted only after its first link mutation or Copy (documented behaviour of fromImmutableNode); before that its links are compared as a multiset")
		all := map[string]any{}
		for ph, p := range profiles(r) {
			b, _ := json.Marshal(p)
			var pj any
			json.Unmarshal(b, &pj)
			all["phase_"+ph] = pj
		}
		r.Set("phases", all)
		eng.ExploreSeq(r, spec(r))
	}, func(r *eng.Run, raw json.RawMessage) { eng.ReplaySeq(r, spec(r), raw) })
}
