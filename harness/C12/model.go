//go:build verif

package main

import (
	"fmt"
	"sort"
	"strconv"
	"strings"
)

// ---------------------------------------------------------------------------
// Case description (JSON-able: it is also the replay record of part A).

// Case is one fully determined walk.
type Case struct {
	API   string `json:"api"`   // "walk": Walk/WalkDepth over a harness getLinks; "fetch": FetchGraph(WithDepthLimit) over a real block service
	Shape string `json:"shape"` // links per node in link order, e.g. "1,2;2,2;" = 0->1, 0->2, 1->2 (doubled), 2 is a leaf
	State string `json:"state"` // per node: o = present, m = missing (ErrNotFound), b = broken (generic error; walk API only)
	Lim   int    `json:"lim"`   // walk: -2 = Walk + plain set visit, >= -1 = WalkDepth + depth-aware visit; fetch: -1 = FetchGraph, >= 0 = FetchGraphWithDepthLimit
	Skip  bool   `json:"skip"`  // SkipRoot()
	H     string `json:"h"`     // handler options in application order, comma separated: IE IM OM OEp OEs
	Prov  bool   `json:"prov"`  // WithProvider(recorder)
	Conc  int    `json:"conc"`  // 0 = no option, -1 = Concurrent(), k = Concurrency(k)
	Raw   bool   `json:"raw"`   // fetch API: sink nodes are raw leaves instead of dag-pb
}

func (c *Case) handlers() []string {
	if c.H == "" {
		return nil
	}
	return strings.Split(c.H, ",")
}

// parallel reports whether the concurrent walker is selected by the options.
func (c *Case) parallel() bool {
	conc := c.Conc
	if c.API == "fetch" && conc == 0 {
		conc = -1 // FetchGraph defaults to Concurrent()
	}
	return conc == -1 || conc > 1
}

func (c *Case) walker() string {
	if c.parallel() {
		return "parallel"
	}
	return "sequential"
}

func (c *Case) String() string {
	return fmt.Sprintf("%s shape=%s state=%s lim=%d skip=%v h=[%s] prov=%v conc=%d raw=%v", c.API, c.Shape, c.State, c.Lim, c.Skip, c.H, c.Prov, c.Conc, c.Raw)
}

// Shape is a DAG on labelled nodes 0..N-1 (0 = root) with ordered, possibly repeated links.
type Shape struct {
	N     int
	Links [][]int
	Text  string
}

func parseShape(s string) *Shape {
	segs := strings.Split(s, ";")
	if len(segs) > 0 && segs[len(segs)-1] == "" {
		segs = segs[:len(segs)-1]
	}
	sh := &Shape{N: len(segs), Text: s}
	for _, sg := range segs {
		var ls []int
		if sg != "" {
			for _, t := range strings.Split(sg, ",") {
				v, err := strconv.Atoi(t)
				if err != nil {
					panic("bad shape " + s)
				}
				ls = append(ls, v)
			}
		}
		sh.Links = append(sh.Links, ls)
	}
	return sh
}

func shapeText(links [][]int) string {
	var sb strings.Builder
	for _, ls := range links {
		for k, l := range ls {
			if k > 0 {
				sb.WriteByte(',')
			}
			sb.WriteString(strconv.Itoa(l))
		}
		sb.WriteByte(';')
	}
	return sb.String()
}

// enumShapes lists every DAG on n labelled nodes with edges i->j (i<j) in
// which every node is reachable from node 0 (the others are DAGs on fewer
// nodes plus garbage), links in ascending child order; with desc also the
// descending link order where that differs; with doubled also every variant
// with exactly one link repeated (adjacent duplicate).
func enumShapes(n int, doubled, desc bool) []*Shape {
	var out []*Shape
	seen := map[string]bool{}
	add := func(links [][]int) {
		t := shapeText(links)
		if !seen[t] {
			seen[t] = true
			out = append(out, parseShape(t))
		}
	}
	// parents[j] = non-empty subset of {0..j-1}
	masks := make([]int, n)
	var rec func(j int)
	rec = func(j int) {
		if j == n {
			links := make([][]int, n)
			for c := 1; c < n; c++ {
				for p := 0; p < c; p++ {
					if masks[c]&(1<<p) != 0 {
						links[p] = append(links[p], c)
					}
				}
			}
			add(links)
			if desc {
				dl := make([][]int, n)
				for p := range links {
					for k := len(links[p]) - 1; k >= 0; k-- {
						dl[p] = append(dl[p], links[p][k])
					}
				}
				add(dl)
			}
			if doubled {
				for p := range links {
					for k := range links[p] {
						d := make([][]int, n)
						for q := range links {
							d[q] = append([]int{}, links[q]...)
						}
						d[p] = append(append(append([]int{}, links[p][:k+1]...), links[p][k]), links[p][k+1:]...)
						add(d)
					}
				}
			}
			return
		}
		for m := 1; m < 1<<j; m++ {
			masks[j] = m
			rec(j + 1)
		}
	}
	if n == 1 {
		add(make([][]int, 1))
		return out
	}
	rec(1)
	return out
}

// enumStates lists the per-node state strings: every subset of missing nodes,
// and (broken > 0) additionally every assignment with exactly one broken node.
func enumStates(n int, broken bool) []string {
	var out []string
	for m := 0; m < 1<<n; m++ {
		b := make([]byte, n)
		for i := 0; i < n; i++ {
			if m&(1<<i) != 0 {
				b[i] = 'm'
			} else {
				b[i] = 'o'
			}
		}
		out = append(out, string(b))
	}
	if broken {
		for bi := 0; bi < n; bi++ {
			for m := 0; m < 1<<n; m++ {
				if m&(1<<bi) != 0 {
					continue
				}
				b := make([]byte, n)
				for i := 0; i < n; i++ {
					switch {
					case i == bi:
						b[i] = 'b'
					case m&(1<<i) != 0:
						b[i] = 'm'
					default:
						b[i] = 'o'
					}
				}
				out = append(out, string(b))
			}
		}
	}
	return out
}

// ---------------------------------------------------------------------------
// Reference model: independent reachability computation.

type Expect struct {
	N        int
	ReachAll uint32   // nodes reachable from the root through present nodes, no depth limit
	Dist     []int    // shortest distance (-1 unreachable)
	Depths   []uint32 // Depths[c] bit d set = some path root->c through present nodes has length d
	E        uint32   // nodes the visit callback must accept in a completed walk
	X        uint32   // nodes whose links are requested in a completed walk (E plus a skipped root)
	F        uint32   // X ∩ failing
	Fmiss    uint32   // X ∩ missing
	U        uint32   // F not swallowed by the configured handlers: the walk must fail iff non-empty
	Local    uint32   // fetch API: blocks that must be local afterwards (completed walk)
	Sharing  bool
	LimBinds bool
}

func bits(m uint32) string {
	var s []string
	for i := 0; i < 32; i++ {
		if m&(1<<uint(i)) != 0 {
			s = append(s, strconv.Itoa(i))
		}
	}
	return "{" + strings.Join(s, ",") + "}"
}

func model(c *Case, sh *Shape) *Expect {
	n := sh.N
	ex := &Expect{N: n, Dist: make([]int, n), Depths: make([]uint32, n)}
	present := func(i int) bool { return c.State[i] == 'o' }
	for i := range ex.Dist {
		ex.Dist[i] = -1
	}
	// breadth-first search: shortest distances
	ex.Dist[0] = 0
	queue := []int{0}
	for len(queue) > 0 {
		u := queue[0]
		queue = queue[1:]
		ex.ReachAll |= 1 << uint(u)
		if !present(u) {
			continue // links of a failing node are unknown
		}
		for _, v := range sh.Links[u] {
			if ex.Dist[v] < 0 {
				ex.Dist[v] = ex.Dist[u] + 1
				queue = append(queue, v)
			}
		}
	}
	// all path lengths (labels are a topological order)
	ex.Depths[0] = 1
	for u := 0; u < n; u++ {
		if ex.Depths[u] == 0 || !present(u) {
			continue
		}
		for _, v := range sh.Links[u] {
			ex.Depths[v] |= ex.Depths[u] << 1
		}
	}
	indeg := make([]int, n)
	for u := 0; u < n; u++ {
		for _, v := range sh.Links[u] {
			indeg[v]++
		}
	}
	for _, d := range indeg {
		if d > 1 {
			ex.Sharing = true
		}
	}
	lim := c.Lim
	unlimited := lim < 0
	for i := 0; i < n; i++ {
		if ex.Dist[i] < 0 {
			continue
		}
		if unlimited || ex.Dist[i] <= lim {
			ex.E |= 1 << uint(i)
		} else {
			ex.LimBinds = true
		}
	}
	ex.X = ex.E | 1 // the root's links are always requested
	if c.Skip {
		ex.E &^= 1
	}
	var swallowAll, swallowMissing bool
	for _, h := range c.handlers() {
		switch h {
		case "IE", "OEs":
			swallowAll = true
		case "IM":
			swallowMissing = true
		}
	}
	for i := 0; i < n; i++ {
		if ex.X&(1<<uint(i)) == 0 {
			continue
		}
		switch c.State[i] {
		case 'm':
			ex.F |= 1 << uint(i)
			ex.Fmiss |= 1 << uint(i)
			if !swallowAll && !swallowMissing {
				ex.U |= 1 << uint(i)
			}
		case 'b':
			ex.F |= 1 << uint(i)
			if !swallowAll {
				ex.U |= 1 << uint(i)
			}
		default:
			ex.Local |= 1 << uint(i)
		}
	}
	return ex
}

// risky: the error handler chain composed of >= 2 handlers will be invoked.
func risky(c *Case, ex *Expect) bool {
	return len(c.handlers()) >= 2 && ex.F != 0
}

func nontrivial(c *Case, ex *Expect) bool {
	return ex.Sharing || ex.F != 0 || ex.LimBinds || c.H != "" || c.Skip || c.Prov
}

// ---------------------------------------------------------------------------
// Groups: one option set; the cases of a group are shapes x states x limits.

type Group struct {
	API  string `json:"api"`
	Skip bool   `json:"skip"`
	H    string `json:"h"`
	Prov bool   `json:"prov"`
	Conc int    `json:"conc"`
	Raw  bool   `json:"raw"`
	N5   bool   `json:"n5"` // thorough: additionally the 5-node shapes (ascending link order, missing-only states)
}

func (g *Group) String() string {
	return fmt.Sprintf("%s skip=%v h=[%s] prov=%v conc=%d raw=%v n5=%v", g.API, g.Skip, g.H, g.Prov, g.Conc, g.Raw, g.N5)
}

// Domains of the enumeration for a tier.
type Domains struct {
	WalkShapes  []*Shape
	FetchShapes []*Shape
	Shapes5     []*Shape
	WalkLims    []int
	FetchLims   []int
	Broken      bool
	statesCache map[string][]string
}

func domains(thorough bool) *Domains {
	d := &Domains{statesCache: map[string][]string{}}
	if !thorough {
		for n := 1; n <= 3; n++ {
			d.WalkShapes = append(d.WalkShapes, enumShapes(n, true, true)...)
		}
		d.WalkShapes = append(d.WalkShapes, enumShapes(4, false, true)...)
		d.FetchShapes = d.WalkShapes
	} else {
		for n := 1; n <= 4; n++ {
			d.WalkShapes = append(d.WalkShapes, enumShapes(n, true, true)...)
		}
		d.FetchShapes = d.WalkShapes
		d.Shapes5 = enumShapes(5, false, false)
	}
	d.WalkLims = []int{-2, 0, 1, 2, 3}
	if thorough {
		d.WalkLims = []int{-2, -1, 0, 1, 2, 3, 4}
		d.FetchLims = []int{-1, 0, 1, 2, 3, 4}
	}
	if !thorough {
		d.FetchLims = []int{-1, 0, 1, 2, 3}
	}
	d.Broken = true
	return d
}

func (d *Domains) states(n int, broken bool) []string {
	k := fmt.Sprint(n, broken)
	if s, ok := d.statesCache[k]; ok {
		return s
	}
	s := enumStates(n, broken)
	d.statesCache[k] = s
	return s
}

// forEach enumerates the cases of group g in a fixed order; f returns false to stop.
func (d *Domains) forEach(g *Group, f func(i int, c *Case, sh *Shape) bool) {
	shapes, lims, broken := d.WalkShapes, d.WalkLims, d.Broken
	if g.API == "fetch" {
		shapes, lims, broken = d.FetchShapes, d.FetchLims, false
	}
	i := 0
	if g.N5 {
		shapes = append(append([]*Shape{}, shapes...), d.Shapes5...)
	}
	for _, sh := range shapes {
		for _, st := range d.states(sh.N, broken && sh.N < 5) {
			for _, lim := range lims {
				if lim > sh.N-1 && lim > 0 {
					continue // a limit beyond the longest possible path adds nothing over lim = N-1
				}
				c := &Case{API: g.API, Shape: sh.Text, State: st, Lim: lim, Skip: g.Skip, H: g.H, Prov: g.Prov, Conc: g.Conc, Raw: g.Raw}
				if !f(i, c, sh) {
					return
				}
				i++
			}
		}
	}
}

func countKey(g *Group) string { return fmt.Sprint(g.API, g.N5) }

func (d *Domains) count(g *Group) int {
	n := 0
	d.forEach(g, func(int, *Case, *Shape) bool { n++; return true })
	return n
}

// handlerLists: every subset of {IE, IM, OM, OE(pass|swallow)} in canonical
// order and (allPerms=false) reversed order, or (allPerms=true) every order.
func handlerLists(allPerms bool) []string {
	base := []string{"IE", "IM", "OM"}
	var out []string
	seen := map[string]bool{}
	add := func(l []string) {
		s := strings.Join(l, ",")
		if !seen[s] {
			seen[s] = true
			out = append(out, s)
		}
	}
	for m := 0; m < 8; m++ {
		for _, oe := range []string{"", "OEp", "OEs"} {
			var l []string
			for i, b := range base {
				if m&(1<<i) != 0 {
					l = append(l, b)
				}
			}
			if oe != "" {
				l = append(l, oe)
			}
			if allPerms {
				permute(l, add)
			} else {
				add(l)
				r := make([]string, len(l))
				for i := range l {
					r[len(l)-1-i] = l[i]
				}
				add(r)
			}
		}
	}
	sort.SliceStable(out, func(i, j int) bool { return len(out[i]) < len(out[j]) })
	return out
}

func permute(l []string, f func([]string)) {
	var rec func(k int)
	p := append([]string{}, l...)
	rec = func(k int) {
		if k == len(p) {
			f(append([]string{}, p...))
			return
		}
		for i := k; i < len(p); i++ {
			p[k], p[i] = p[i], p[k]
			rec(k + 1)
			p[k], p[i] = p[i], p[k]
		}
	}
	rec(0)
}

func groups(thorough bool) []*Group {
	var out []*Group
	nh := func(h string) int {
		if h == "" {
			return 0
		}
		return strings.Count(h, ",") + 1
	}
	if !thorough {
		// 42 handler lists (every subset, canonical and reversed order) x SkipRoot x provider x 3 walkers
		for _, h := range handlerLists(false) {
			for _, skip := range []bool{false, true} {
				for _, prov := range []bool{false, true} {
					for _, conc := range []int{0, 2, -1} {
						out = append(out, &Group{API: "walk", Skip: skip, H: h, Prov: prov, Conc: conc})
					}
				}
			}
		}
		for _, h := range []string{"", "IM", "IE", "OM", "OEs", "OEp", "OM,IM", "IM,OM", "OM,IE"} {
			for _, skip := range []bool{false, true} {
				for _, prov := range []bool{false, true} {
					for _, conc := range []int{0, 1, 2} {
						out = append(out, &Group{API: "fetch", Skip: skip, H: h, Prov: prov, Conc: conc})
					}
				}
			}
		}
		return out
	}
	// thorough: every ORDER of every handler subset (114 lists). Lists of up to
	// two handlers get the full option product and the 5-node shapes; the 90
	// orders of three and four handlers run without provider on the sequential
	// walker and Concurrency(2).
	for _, h := range handlerLists(true) {
		if nh(h) <= 2 {
			for _, skip := range []bool{false, true} {
				for _, prov := range []bool{false, true} {
					for _, conc := range []int{0, 2, 3, -1} {
						out = append(out, &Group{API: "walk", Skip: skip, H: h, Prov: prov, Conc: conc, N5: conc != 3})
					}
				}
			}
			for _, skip := range []bool{false, true} {
				for _, prov := range []bool{false, true} {
					for _, conc := range []int{0, 1, 2} {
						for _, raw := range []bool{false, true} {
							out = append(out, &Group{API: "fetch", Skip: skip, H: h, Prov: prov, Conc: conc, Raw: raw})
						}
					}
				}
			}
			continue
		}
		for _, skip := range []bool{false, true} {
			for _, conc := range []int{0, 2} {
				out = append(out, &Group{API: "walk", Skip: skip, H: h, Conc: conc})
			}
		}
	}
	return out
}
