//go:build verif

package main

import (
	"encoding/json"
	"fmt"
	"os"
	"sort"
	"time"

	"github.com/ipfs/boxo/verifshim/eng"
	"github.com/ipfs/boxo/verifshim/vexp"
)

func partARun(r *eng.Run) {
	p := newPartA(r)
	gs := spread(groups(r.Thorough()))
	if d := r.DeadlineUnix(); d > 0 {
		now := time.Now().Unix()
		p.deadline = now + (d-now)*6/10 // part B gets the rest of the budget
	}
	total := 0
	perAPI := map[string]int{}
	for _, g := range gs {
		if _, ok := perAPI[countKey(g)]; !ok {
			perAPI[countKey(g)] = p.dom.count(g)
		}
		total += perAPI[countKey(g)]
	}
	r.Set("partA_cases_per_group", perAPI)
	r.Set("partA_option_groups", len(gs))
	r.Set("partA_cases_declared", total)
	if f := os.Getenv("C12_GROUP_LIMIT"); f != "" { // debugging aid: only the first k groups
		var k int
		fmt.Sscan(f, &k)
		if k > 0 && k < len(gs) {
			gs = gs[:k]
			r.Incomplete("C12_GROUP_LIMIT set")
		}
	}

	r.Set("partA_walk_shapes", len(p.dom.WalkShapes))
	r.Set("partA_fetch_shapes", len(p.dom.FetchShapes))
	r.Set("partA_handler_lists", len(handlerLists(r.Thorough())))
	r.Set("partA_depth_limits_walk", p.dom.WalkLims)
	r.Set("partA_depth_limits_fetch", p.dom.FetchLims)
	p.run(gs)
	r.Eval(p.evals)
	r.SetDistinctCount(p.nontriv)
	for k := range p.outcomes {
		r.Outcome("A:" + k)
	}
	ks := make([]string, 0, len(p.cov))
	for k := range p.cov {
		ks = append(ks, k)
	}
	sort.Strings(ks)
	for _, k := range ks {
		r.Set("partA_"+k, p.cov[k])
	}
	r.Set("partA_cases_executed", p.evals)
	r.Set("partA_worker_crashes_attributed", p.crashN)
	r.Set("partA_cases_not_executed_after_fatal", p.skipped)
	if p.skipped > 0 {
		r.Incomplete(fmt.Sprintf("%d part-A cases were not executed: their (API, handler list, walker kind) had already crashed the process %d times (stack overflow) in cases where, as in these, a chain of >= 2 error handlers is invoked", p.skipped, crashesBeforeSkip))
	}
	if p.expired {
		r.Incomplete("part A: budget used up before all option groups were run")
	}
	for _, g := range p.abandoned {
		r.Incomplete("part A: group abandoned after too many worker crashes: " + g)
	}
}

// spread orders the groups (the set is unchanged) so that a run cut short by
// its budget has still sampled every kind of option group: a fixed-stride
// permutation, then a stable partition by how much of the group is executed.
func spread(gs []*Group) []*Group {
	n := len(gs)
	stride := 37
	gcd := func(a, b int) int {
		for b != 0 {
			a, b = b, a%b
		}
		return a
	}
	for gcd(stride, n) != 1 {
		stride++
	}
	out := make([]*Group, 0, n)
	for i := 0; i < n; i++ {
		out = append(out, gs[(i*stride)%n])
	}
	// first the groups that are executed in full even on the unchanged tree (at
	// most one handler), sequential walker before concurrent; then the rest
	class := func(g *Group) int {
		c := Case{API: g.API, H: g.H, Conc: g.Conc}
		switch {
		case len(c.handlers()) <= 1 && !c.parallel():
			return 0
		case len(c.handlers()) <= 1:
			return 1
		}
		return 2
	}
	sort.SliceStable(out, func(i, j int) bool { return class(out[i]) < class(out[j]) })
	return out
}

func main() {
	if sp := os.Getenv("C12_SPEC"); sp != "" {
		workerA(sp)
		return
	}
	eng.WorkerMain = func() { vexp.Register(scenarios()...); eng.WorkerMain() }
	eng.Main("C12", "model_checking", func(r *eng.Run) {
		r.Rule("part A: every option group (SkipRoot x ordered handler list over {IgnoreErrors, IgnoreMissing, OnMissing, OnError pass|swallow} x WithProvider x {sequential, Concurrency(k), Concurrent()}; FetchGraph groups likewise) x every DAG shape on n labelled nodes (all nodes reachable, edges i->j for i<j, both link orders, one doubled link) x every subset of missing blocks (walk API: plus one block failing with a non-NotFound error) x depth limits, each executed on the real walker and judged against a breadth-first reference; non-trivial = shared node, failing block on the walk, binding depth limit or any option. part B: every schedule of the concurrent walker (rewritten ipld/merkledag) with at most B deviations (preemptions, non-first ready select case) on small DAGs with sharing / missing blocks; non-trivial = at least one deviation")
		r.Assume("part A runs the concurrent walker with free-running goroutines (its judged results are sets, schedule-independent for a correct walker); schedules are explored systematically only in part B")
		r.Assume("go-ipld-format, go-cid, go-block-format, the dag-pb codec and blockservice/offline-exchange plumbing used by FetchGraph are trusted; blocks live in a harness in-memory blockstore")
		r.Assume("vsched models channels, select, sync.Mutex and WaitGroup faithfully; context.Done() channels are polled natively")
		if os.Getenv("C12_SKIP_A") == "" {
			partARun(r)
		} else {
			r.Incomplete("C12_SKIP_A set")
		}
		if os.Getenv("C12_SKIP_B") == "" {
			vexp.Explore(r, scenarios(), vexp.Options{Bound: eng.Pick(r, 2, 3)})
		} else {
			r.Incomplete("C12_SKIP_B set")
		}
	}, func(r *eng.Run, raw json.RawMessage) {
		var probe struct {
			Scenario string `json:"scenario"`
			API      string `json:"api"`
		}
		json.Unmarshal(raw, &probe)
		if probe.Scenario != "" {
			vexp.Replay(r, scenarios(), raw)
			return
		}
		var c Case
		if err := json.Unmarshal(raw, &c); err != nil || c.API == "" {
			fmt.Println("bad replay record:", err)
			return
		}
		fmt.Printf("  replaying case: %s\n", &c)
		p := newPartA(r)
		p.runChunk([]Task{{GID: 0, One: &c}})
		r.Eval(1)
		if r.ViolationCount() == 0 {
			fmt.Println("  replay: no new violation (a known finding may have matched)")
		}
	})
}
