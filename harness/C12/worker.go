//go:build verif

package main

import (
	"bufio"
	"bytes"
	"encoding/json"
	"fmt"
	"os"
	"os/exec"
	"path/filepath"
	"runtime"
	"runtime/debug"
	"runtime/pprof"
	"sort"
	"strings"
	"sync"
	"sync/atomic"
	"syscall"
	"time"

	"github.com/ipfs/boxo/verifshim/eng"
)

// Part A runs in worker subprocesses of this binary (switched by the
// environment variable C12_SPEC before eng.Main parses flags). A worker
// writes the index of the case it is about to execute to a journal file, so a
// Go fatal error (stack overflow: not recoverable) is attributed to exactly
// one case, reported as a violation "fatal:<reason>", and the worker is
// restarted after that case.

type Task struct {
	GID       int    `json:"gid"`
	Group     *Group `json:"group,omitempty"`
	Start     int    `json:"start"`
	SkipRisky bool   `json:"skip_risky"` // do not execute cases in which a chain of >= 2 handlers would be invoked (they crashed this group before)
	One       *Case  `json:"one,omitempty"`
}

type Spec struct {
	Thorough bool   `json:"thorough"`
	Tasks    []Task `json:"tasks"`
	Journal  string `json:"journal"`
	Results  string `json:"results"`
	Deadline int64  `json:"deadline"`
}

type ResLine struct {
	Kind       string         `json:"kind"` // viol | prog | done | expired
	Task       int            `json:"task"`
	Idx        int            `json:"idx"`
	V          *eng.Violation `json:"v,omitempty"`
	Evals      int            `json:"evals,omitempty"`
	NonTrivial int            `json:"nontrivial,omitempty"`
	Skipped    int            `json:"skipped,omitempty"`
	Outcomes   map[string]int `json:"outcomes,omitempty"`
	Cov        map[string]int `json:"cov,omitempty"`
	Sample     *Case          `json:"sample,omitempty"`
}

const watchdogLimit = 60 * time.Second

func workerA(specPath string) {
	debug.SetMaxStack(2 << 20) // walks here are at most 5 levels deep; a runaway recursion overflows quickly and its traceback stays cheap
	b, err := os.ReadFile(specPath)
	if err != nil {
		fmt.Fprintln(os.Stderr, "worker: spec:", err)
		os.Exit(2)
	}
	var spec Spec
	if err := json.Unmarshal(b, &spec); err != nil {
		fmt.Fprintln(os.Stderr, "worker: spec:", err)
		os.Exit(2)
	}
	jf, err := os.OpenFile(spec.Journal, os.O_CREATE|os.O_RDWR|os.O_TRUNC, 0o644)
	if err != nil {
		fmt.Fprintln(os.Stderr, "worker: journal:", err)
		os.Exit(2)
	}
	rf, err := os.OpenFile(spec.Results, os.O_CREATE|os.O_WRONLY|os.O_APPEND, 0o644)
	if err != nil {
		fmt.Fprintln(os.Stderr, "worker: results:", err)
		os.Exit(2)
	}
	emit := func(l *ResLine) {
		bb, _ := json.Marshal(l)
		rf.Write(append(bb, '\n'))
	}
	var progress atomic.Int64
	go func() { // a walk that never returns cannot be interrupted: give up the process, the parent attributes it
		last, since := int64(-1), time.Now()
		for {
			time.Sleep(2 * time.Second)
			p := progress.Load()
			if p != last {
				last, since = p, time.Now()
			} else if time.Since(since) > watchdogLimit {
				fmt.Fprintf(os.Stderr, "fatal error: watchdog: case did not finish within %v\n", watchdogLimit)
				os.Exit(3)
			}
		}
	}()
	if pf := os.Getenv("C12_CPUPROFILE"); pf != "" {
		f, _ := os.Create(pf)
		pprof.StartCPUProfile(f)
		defer pprof.StopCPUProfile()
	}
	dom := domains(spec.Thorough)
	// the journal is a shared file mapping: a store per case, no system call; the
	// page survives the death of the process
	const jlen = 18
	jf.Truncate(jlen)
	jmap, merr := syscall.Mmap(int(jf.Fd()), 0, jlen, syscall.PROT_READ|syscall.PROT_WRITE, syscall.MAP_SHARED)
	jbuf := make([]byte, 0, 32)
	journal := func(ti, i int) {
		jbuf = jbuf[:0]
		jbuf = fmt.Appendf(jbuf, "%06d %010d\n", ti, i)
		if merr == nil {
			copy(jmap, jbuf)
		} else {
			jf.WriteAt(jbuf, 0)
		}
	}
	for ti := range spec.Tasks {
		t := &spec.Tasks[ti]
		cnt := &ResLine{Task: ti, Outcomes: map[string]int{}, Cov: map[string]int{}}
		flush := func(kind string, idx int) {
			cnt.Kind, cnt.Idx = kind, idx
			emit(cnt)
			cnt = &ResLine{Task: ti, Outcomes: map[string]int{}, Cov: map[string]int{}}
		}
		emitted := map[string]int{} // per task and violation signature only the first few cases are written out
		exec1 := func(i int, c *Case, sh *Shape, ex *Expect) {
			journal(ti, i)
			e := &env{c: c, sh: sh}
			e.run()
			vs := e.judge(ex)
			progress.Add(1)
			cnt.Evals++
			if nontrivial(c, ex) {
				cnt.NonTrivial++
				if cnt.Sample == nil && sh.N >= 4 && ex.Sharing && ex.F&^1 != 0 && ex.U == 0 && ex.LimBinds {
					cnt.Sample = c
				}
			}
			cnt.Outcomes[e.outcome()]++
			cover(cnt.Cov, c, ex, e)
			for _, v := range vs {
				sig := violSig(v)
				cnt.Cov["violating_observations:"+sig]++
				if emitted[sig] < maxViolPerSig {
					emitted[sig]++
					v.Detail += "\n" + e.describe(ex)
					emit(&ResLine{Kind: "viol", Task: ti, Idx: i, V: v})
				}
			}
		}
		if t.One != nil {
			sh := parseShape(t.One.Shape)
			exec1(0, t.One, sh, model(t.One, sh))
			flush("done", -1)
			continue
		}
		expired := false
		riskySurvived := false
		dom.forEach(t.Group, func(i int, c *Case, sh *Shape) bool {
			if i < t.Start {
				return true
			}
			if i%256 == 0 && spec.Deadline > 0 && time.Now().Unix() > spec.Deadline {
				expired = true
				flush("expired", i)
				return false
			}
			ex := model(c, sh)
			rk := risky(c, ex)
			if rk && t.SkipRisky {
				cnt.Skipped++
				return true
			}
			if rk && !riskySurvived {
				flush("prog", i) // counters survive the crash this case may cause
			}
			exec1(i, c, sh, ex)
			if rk {
				riskySurvived = true
			}
			return true
		})
		if expired {
			return
		}
		flush("done", -1)
	}
}

const maxViolPerSig = 2

func violSig(v *eng.Violation) string {
	ks := make([]string, 0, len(v.Features))
	for k, x := range v.Features {
		ks = append(ks, k+"="+x)
	}
	sort.Strings(ks)
	return v.Symptom + "|" + v.Op + "|" + strings.Join(ks, ",")
}

// cover records which targeted paths a case exercised.
func cover(cov map[string]int, c *Case, ex *Expect, e *env) {
	cov["cases_"+c.API+"_"+c.walker()]++
	if ex.Sharing {
		cov["cases_with_shared_nodes"]++
	}
	if ex.F != 0 {
		cov["cases_with_failing_block_on_walk"]++
	}
	if ex.U != 0 {
		cov["cases_walk_must_fail"]++
	}
	if ex.LimBinds {
		cov["cases_depth_limit_cuts_nodes"]++
	}
	if len(c.handlers()) >= 2 && ex.F != 0 {
		cov["cases_composed_handlers_invoked"]++
	}
	if len(e.om) > 0 {
		cov["cases_onmissing_called"]++
	}
	if len(e.oe) > 0 {
		cov["cases_onerror_called"]++
	}
	if len(e.prov) > 0 {
		cov["cases_provider_called"]++
	}
	// a node accepted twice: the depth-aware revisit (found deeper first, then nearer)
	acc := map[int]int{}
	for _, v := range e.visits {
		if v.ret {
			acc[v.idx]++
		}
	}
	for _, n := range acc {
		if n > 1 {
			cov["cases_depth_aware_revisit"]++
			break
		}
	}
}

// ---------------------------------------------------------------------------
// parent side

type partA struct {
	r        *eng.Run
	thorough bool
	dom      *Domains
	dir      string
	bin      string
	deadline int64

	mu        sync.Mutex
	crashes   map[string]int // crashKey -> fatal stack overflows in cases where a composed handler chain is invoked
	restarts  map[int]int
	skipped   int
	evals     int
	nontriv   int
	crashN    int
	outcomes  map[string]int
	cov       map[string]int
	expired   bool
	abandoned []string
	seq       atomic.Int64
}

const crashesBeforeSkip = 2
const maxRestartsPerGroup = 12

func newPartA(r *eng.Run) *partA {
	dir := os.Getenv("VERIF_SCRATCH")
	if dir == "" {
		dir, _ = os.Getwd()
	}
	bin := os.Getenv("VERIF_BIN")
	if bin == "" {
		bin, _ = filepath.Abs(os.Args[0])
	}
	return &partA{r: r, thorough: r.Thorough(), dom: domains(r.Thorough()), dir: dir, bin: bin,
		crashes: map[string]int{}, restarts: map[int]int{}, outcomes: map[string]int{}, cov: map[string]int{}}
}

// crashKey: the crash of a composed handler chain depends on the handler list
// and on the call site (sequential or concurrent walker, Walk or FetchGraph),
// not on SkipRoot / provider / number of fetchers.
func crashKey(c *Case) string {
	return c.API + "|" + c.H + "|" + c.walker()
}

func (p *partA) skipFor(g *Group) bool {
	c := &Case{API: g.API, H: g.H, Conc: g.Conc}
	p.mu.Lock()
	defer p.mu.Unlock()
	return p.crashes[crashKey(c)] >= crashesBeforeSkip
}

func (p *partA) caseOf(t *Task, idx int) (*Case, *Shape) {
	if t.One != nil {
		return t.One, parseShape(t.One.Shape)
	}
	var rc *Case
	var rs *Shape
	p.dom.forEach(t.Group, func(i int, c *Case, sh *Shape) bool {
		if i == idx {
			rc, rs = c, sh
			return false
		}
		return true
	})
	return rc, rs
}

func crashSymptom(stderr string, err error) string {
	for _, l := range strings.Split(stderr, "\n") {
		if strings.HasPrefix(l, "fatal error: ") {
			s := strings.TrimPrefix(l, "fatal error: ")
			if i := strings.Index(s, " within "); i > 0 && strings.HasPrefix(s, "watchdog") {
				s = s[:i]
			}
			return "fatal:" + s
		}
		if strings.HasPrefix(l, "panic: ") {
			return "fatal:panic in a goroutine"
		}
	}
	return fmt.Sprintf("fatal:worker died (%v)", err)
}

func firstN(s string, n int) string {
	ls := strings.Split(s, "\n")
	if len(ls) > n {
		ls = ls[:n]
	}
	return strings.Join(ls, "\n")
}

// runChunk runs tasks in one worker process, restarting it after every crash.
func (p *partA) runChunk(tasks []Task) {
	for len(tasks) > 0 {
		for i := range tasks {
			if tasks[i].Group != nil && !tasks[i].SkipRisky {
				tasks[i].SkipRisky = p.skipFor(tasks[i].Group)
			}
		}
		id := p.seq.Add(1)
		base := filepath.Join(p.dir, fmt.Sprintf("c12a-%d", id))
		spec := Spec{Thorough: p.thorough, Tasks: tasks, Journal: base + ".journal", Results: base + ".results", Deadline: p.deadline}
		sb, _ := json.Marshal(spec)
		if err := os.WriteFile(base+".spec", sb, 0o644); err != nil {
			fmt.Fprintln(os.Stderr, "C12: cannot write spec:", err)
			os.Exit(2)
		}
		cmd := exec.Command(p.bin)
		var stderr bytes.Buffer
		cmd.Stderr = &stderr
		cmd.Stdout = os.Stderr
		cmd.Env = append(os.Environ(), "C12_SPEC="+base+".spec", "GOMAXPROCS=2", "GOTRACEBACK=single")
		runErr := cmd.Run()
		done := map[int]bool{}
		expired := false
		if f, err := os.Open(spec.Results); err == nil {
			sc := bufio.NewScanner(f)
			sc.Buffer(make([]byte, 1<<20), 64<<20)
			for sc.Scan() {
				var l ResLine
				if json.Unmarshal(sc.Bytes(), &l) != nil {
					continue
				}
				switch l.Kind {
				case "viol":
					if l.Task < len(tasks) && tasks[l.Task].One != nil { // replay: show the observation
						fmt.Printf("  %s (%s): %s\n", l.V.Symptom, l.V.Op, strings.ReplaceAll(l.V.Detail, "\n", "\n  "))
					}
					p.r.Report(l.V)
				case "prog", "done", "expired":
					p.mu.Lock()
					p.evals += l.Evals
					p.nontriv += l.NonTrivial
					p.skipped += l.Skipped
					for k, v := range l.Outcomes {
						p.outcomes[k] += v
					}
					for k, v := range l.Cov {
						p.cov[k] += v
					}
					p.mu.Unlock()
					if l.Sample != nil {
						p.r.Sample(map[string]any{"part": "A", "case": l.Sample})
					}
					if l.Kind == "done" {
						done[l.Task] = true
					}
					if l.Kind == "expired" {
						expired = true
					}
				}
			}
			f.Close()
		}
		jb, _ := os.ReadFile(spec.Journal)
		os.Remove(base + ".spec")
		os.Remove(spec.Journal)
		os.Remove(spec.Results)
		if expired {
			p.mu.Lock()
			p.expired = true
			p.mu.Unlock()
			return
		}
		if runErr == nil {
			for ti := range tasks {
				if !done[ti] {
					fmt.Fprintf(os.Stderr, "C12: worker exited cleanly but task %d was not completed\n%s\n", ti, firstN(stderr.String(), 20))
					os.Exit(2)
				}
			}
			return
		}
		// the worker died: attribute to the journalled case
		var ti, idx int
		if n, _ := fmt.Sscanf(string(jb), "%d %d", &ti, &idx); n != 2 || ti >= len(tasks) {
			fmt.Fprintf(os.Stderr, "C12: worker died before its first case (%v)\n%s\n", runErr, firstN(stderr.String(), 40))
			os.Exit(2)
		}
		t := tasks[ti]
		c, sh := p.caseOf(&t, idx)
		if c == nil {
			fmt.Fprintf(os.Stderr, "C12: journal names case %d of task %d which does not exist\n", idx, ti)
			os.Exit(2)
		}
		ex := model(c, sh)
		sym := crashSymptom(stderr.String(), runErr)
		op := map[string]string{"walk": "Walk", "fetch": "FetchGraph"}[c.API]
		v := eng.V(sym, op, fmt.Sprintf("the process died while executing this case\ncase: %s\nreference: accept=%s requested=%s failing=%s unhandled=%s\n%s", c, bits(ex.E), bits(ex.X), bits(ex.F), bits(ex.U), firstN(stderr.String(), 14)),
			"walker", c.walker(), "api", c.API, "handlers_ge2", fmt.Sprint(len(c.handlers()) >= 2), "handler_invoked", fmt.Sprint(ex.F != 0))
		v.Replay = c
		p.r.Report(v)
		p.mu.Lock()
		p.crashN++
		p.evals++
		if risky(c, ex) && sym == "fatal:stack overflow" {
			p.crashes[crashKey(c)]++
		}
		p.restarts[t.GID]++
		nr := p.restarts[t.GID]
		p.mu.Unlock()
		if t.One != nil {
			tasks = tasks[ti+1:]
			continue
		}
		if nr > maxRestartsPerGroup {
			p.mu.Lock()
			p.abandoned = append(p.abandoned, t.Group.String())
			p.mu.Unlock()
			tasks = tasks[ti+1:]
			continue
		}
		rest := append([]Task{{GID: t.GID, Group: t.Group, Start: idx + 1, SkipRisky: t.SkipRisky}}, tasks[ti+1:]...)
		tasks = rest
	}
}

// run executes all groups of the tier.
func (p *partA) run(gs []*Group) {
	nw := runtime.NumCPU()
	if nw > 16 {
		nw = 16
	}
	const chunk = 4
	var chunks [][]Task
	for i := 0; i < len(gs); i += chunk {
		var ts []Task
		for j := i; j < i+chunk && j < len(gs); j++ {
			ts = append(ts, Task{GID: j, Group: gs[j]})
		}
		chunks = append(chunks, ts)
	}
	var next atomic.Int64
	var wg sync.WaitGroup
	for w := 0; w < nw; w++ {
		wg.Add(1)
		go func() {
			defer wg.Done()
			for {
				i := int(next.Add(1) - 1)
				if i >= len(chunks) {
					return
				}
				p.mu.Lock()
				exp := p.expired
				p.mu.Unlock()
				if exp {
					return
				}
				p.runChunk(chunks[i])
			}
		}()
	}
	wg.Wait()
}
