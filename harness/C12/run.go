//go:build verif

package main

import (
	"context"
	"errors"
	"fmt"
	"sort"
	"strings"
	"sync"

	bserv "github.com/ipfs/boxo/blockservice"
	bstore "github.com/ipfs/boxo/blockstore"
	offline "github.com/ipfs/boxo/exchange/offline"
	mdag "github.com/ipfs/boxo/ipld/merkledag"
	"github.com/ipfs/boxo/verifshim/eng"
	"github.com/ipfs/boxo/verifshim/vsched"
	blocks "github.com/ipfs/go-block-format"
	cid "github.com/ipfs/go-cid"
	format "github.com/ipfs/go-ipld-format"
	mh "github.com/multiformats/go-multihash"
)

const maxNodes = 6

// synthetic CIDs of the walk API (the harness getLinks never needs block bytes)
var walkCids [maxNodes]cid.Cid
var walkIdx = map[cid.Cid]int{}

func init() {
	for i := 0; i < maxNodes; i++ {
		h, err := mh.Sum([]byte{'c', '1', '2', byte(i)}, mh.SHA2_256, -1)
		if err != nil {
			panic(err)
		}
		walkCids[i] = cid.NewCidV1(cid.DagProtobuf, h)
		walkIdx[walkCids[i]] = i
	}
}

type brokenErr struct{ idx int }

func (e *brokenErr) Error() string { return fmt.Sprintf("injected failure fetching node %d", e.idx) }

// ---------------------------------------------------------------------------
// in-memory blockstore (fetch API)

type memStore struct {
	mu    sync.Mutex
	m     map[string]blocks.Block
	yield bool
}

func newMemStore() *memStore { return &memStore{m: map[string]blocks.Block{}} }

func (s *memStore) DeleteBlock(_ context.Context, c cid.Cid) error {
	s.mu.Lock()
	delete(s.m, string(c.Hash()))
	s.mu.Unlock()
	return nil
}
func (s *memStore) Has(_ context.Context, c cid.Cid) (bool, error) {
	s.mu.Lock()
	_, ok := s.m[string(c.Hash())]
	s.mu.Unlock()
	return ok, nil
}
func (s *memStore) Get(_ context.Context, c cid.Cid) (blocks.Block, error) {
	if s.yield {
		vsched.Yield("remote-get")
	}
	s.mu.Lock()
	b, ok := s.m[string(c.Hash())]
	s.mu.Unlock()
	if !ok {
		return nil, format.ErrNotFound{Cid: c}
	}
	return blocks.NewBlockWithCid(b.RawData(), c)
}
func (s *memStore) GetSize(ctx context.Context, c cid.Cid) (int, error) {
	b, err := s.Get(ctx, c)
	if err != nil {
		return -1, err
	}
	return len(b.RawData()), nil
}
func (s *memStore) Put(_ context.Context, b blocks.Block) error {
	s.mu.Lock()
	s.m[string(b.Cid().Hash())] = b
	s.mu.Unlock()
	return nil
}
func (s *memStore) PutMany(ctx context.Context, bs []blocks.Block) error {
	for _, b := range bs {
		s.Put(ctx, b)
	}
	return nil
}
func (s *memStore) AllKeysChan(context.Context) (<-chan cid.Cid, error) {
	return nil, errors.New("not supported")
}
func (s *memStore) keys() []string {
	s.mu.Lock()
	defer s.mu.Unlock()
	var ks []string
	for k := range s.m {
		ks = append(ks, k)
	}
	return ks
}

var _ bstore.Blockstore = (*memStore)(nil)

// real nodes of a shape (fetch API), built bottom-up; cached per (shape, raw)
type realDag struct {
	nodes []format.Node
	idx   map[string]int // multihash -> label
}

var realCache sync.Map

func buildReal(sh *Shape, raw bool) *realDag {
	key := fmt.Sprint(sh.Text, raw)
	if v, ok := realCache.Load(key); ok {
		return v.(*realDag)
	}
	rd := &realDag{nodes: make([]format.Node, sh.N), idx: map[string]int{}}
	for i := sh.N - 1; i >= 0; i-- {
		data := []byte(fmt.Sprintf("C12 node %d of %s", i, sh.Text))
		if raw && len(sh.Links[i]) == 0 {
			rd.nodes[i] = mdag.NewRawNode(data)
		} else {
			nd := mdag.NodeWithData(data)
			for k, ch := range sh.Links[i] {
				if err := nd.AddRawLink(fmt.Sprintf("l%02d", k), &format.Link{Cid: rd.nodes[ch].Cid()}); err != nil {
					panic(err)
				}
			}
			rd.nodes[i] = nd
		}
		rd.idx[string(rd.nodes[i].Cid().Hash())] = i
	}
	realCache.Store(key, rd)
	return rd
}

// ---------------------------------------------------------------------------
// one execution

type visitCall struct {
	idx, depth int
	ret        bool
}

type handlerCall struct {
	idx    int // label of the CID argument (-1: not a CID of this DAG)
	errIdx int // label named by the error argument (-1 nil error, -2 unattributable)
}

type env struct {
	c     *Case
	sh    *Shape
	yield bool // part B: scheduling points inside the callbacks

	mu       sync.Mutex
	visits   []visitCall
	om       []int
	oe       []handlerCall
	prov     []int
	getLinks []int
	inVisit  int
	overlap  bool

	idxOf func(cid.Cid) int
	mhIdx func(mh.Multihash) int

	local *memStore
	real  *realDag

	err      error
	panicked *eng.Violation
	returned bool
	late     int // callbacks observed after the walk returned
}

func (e *env) errLabel(err error) int {
	if err == nil {
		return -1
	}
	var be *brokenErr
	if errors.As(err, &be) {
		return be.idx
	}
	var nf format.ErrNotFound
	if errors.As(err, &nf) {
		return e.idxOf(nf.Cid)
	}
	return -2
}

type provRec struct{ e *env }

func (p provRec) StartProviding(force bool, keys ...mh.Multihash) error {
	p.e.mu.Lock()
	for _, k := range keys {
		p.e.prov = append(p.e.prov, p.e.mhIdx(k))
	}
	if p.e.returned {
		p.e.late++
	}
	p.e.mu.Unlock()
	return nil
}

func (e *env) options() []mdag.WalkOption {
	c := e.c
	var opts []mdag.WalkOption
	if c.Skip {
		opts = append(opts, mdag.SkipRoot())
	}
	for _, h := range c.handlers() {
		switch h {
		case "IE":
			opts = append(opts, mdag.IgnoreErrors())
		case "IM":
			opts = append(opts, mdag.IgnoreMissing())
		case "OM":
			opts = append(opts, mdag.OnMissing(func(ci cid.Cid) {
				e.mu.Lock()
				e.om = append(e.om, e.idxOf(ci))
				if e.returned {
					e.late++
				}
				e.mu.Unlock()
			}))
		case "OEp", "OEs":
			swallow := h == "OEs"
			opts = append(opts, mdag.OnError(func(ci cid.Cid, err error) error {
				e.mu.Lock()
				e.oe = append(e.oe, handlerCall{e.idxOf(ci), e.errLabel(err)})
				if e.returned {
					e.late++
				}
				e.mu.Unlock()
				if swallow {
					return nil
				}
				return err
			}))
		default:
			panic("unknown handler " + h)
		}
	}
	if c.Prov {
		opts = append(opts, mdag.WithProvider(provRec{e}))
	}
	switch {
	case c.Conc == -1:
		opts = append(opts, mdag.Concurrent())
	case c.Conc > 0:
		opts = append(opts, mdag.Concurrency(c.Conc))
	}
	return opts
}

func (e *env) noteVisit(idx, depth int, f func() bool) bool {
	e.mu.Lock()
	e.inVisit++
	if e.inVisit > 1 {
		e.overlap = true
	}
	if e.returned {
		e.late++
	}
	e.mu.Unlock()
	if e.yield {
		vsched.Yield("visit") // a visit callback takes time: overlapping calls become observable
	}
	ret := f()
	e.mu.Lock()
	e.inVisit--
	e.visits = append(e.visits, visitCall{idx, depth, ret})
	e.mu.Unlock()
	return ret
}

// run executes the case on the real code.
func (e *env) run() {
	c, sh := e.c, e.sh
	ctx := context.Background()
	defer func() {
		e.mu.Lock()
		e.returned = true
		e.mu.Unlock()
	}()
	if c.API == "walk" {
		e.idxOf = func(ci cid.Cid) int {
			if i, ok := walkIdx[ci]; ok && i < sh.N {
				return i
			}
			return -1
		}
		e.mhIdx = func(m mh.Multihash) int {
			for i := 0; i < sh.N; i++ {
				if string(walkCids[i].Hash()) == string(m) {
					return i
				}
			}
			return -1
		}
		links := make([][]*format.Link, sh.N)
		for i := range links {
			for k, ch := range sh.Links[i] {
				links[i] = append(links[i], &format.Link{Name: fmt.Sprint(k), Cid: walkCids[ch]})
			}
		}
		getLinks := func(_ context.Context, ci cid.Cid) ([]*format.Link, error) {
			i := e.idxOf(ci)
			e.mu.Lock()
			e.getLinks = append(e.getLinks, i)
			if e.returned {
				e.late++
			}
			e.mu.Unlock()
			if e.yield {
				vsched.Yield("fetch") // fetch latency: a scheduling point
			}
			if i < 0 {
				return nil, fmt.Errorf("getLinks asked for a CID that is not in the DAG: %s", ci)
			}
			switch c.State[i] {
			case 'm':
				return nil, format.ErrNotFound{Cid: ci}
			case 'b':
				return nil, &brokenErr{i}
			}
			return links[i], nil
		}
		opts := e.options()
		if c.Lim == -2 {
			seen := map[cid.Cid]bool{}
			visit := func(ci cid.Cid) bool {
				return e.noteVisit(e.idxOf(ci), -1, func() bool {
					if seen[ci] {
						return false
					}
					seen[ci] = true
					return true
				})
			}
			e.panicked = eng.Guard("Walk", func() { e.err = mdag.Walk(ctx, getLinks, walkCids[0], visit, opts...) })
			return
		}
		// depth-aware visit: accept a node that is new or now seen at a smaller depth, within the limit
		lim := c.Lim
		best := map[cid.Cid]int{}
		visit := func(ci cid.Cid, depth int) bool {
			return e.noteVisit(e.idxOf(ci), depth, func() bool {
				old, ok := best[ci]
				if lim >= 0 && depth > lim {
					return false
				}
				if !ok || depth < old {
					best[ci] = depth
					return true
				}
				return false
			})
		}
		e.panicked = eng.Guard("WalkDepth", func() { e.err = mdag.WalkDepth(ctx, getLinks, walkCids[0], visit, opts...) })
		return
	}
	// fetch API: real nodes, a remote store behind an offline exchange, an empty local store
	rd := buildReal(sh, c.Raw)
	e.real = rd
	e.idxOf = func(ci cid.Cid) int {
		if i, ok := rd.idx[string(ci.Hash())]; ok {
			return i
		}
		return -1
	}
	e.mhIdx = func(m mh.Multihash) int {
		if i, ok := rd.idx[string(m)]; ok {
			return i
		}
		return -1
	}
	remote := newMemStore()
	remote.yield = e.yield
	for i, nd := range rd.nodes {
		if c.State[i] == 'o' {
			remote.Put(ctx, nd)
		}
	}
	e.local = newMemStore()
	bs := bserv.New(e.local, offline.Exchange(remote))
	ds := mdag.NewDAGService(bs)
	opts := e.options()
	if c.Lim < 0 {
		e.panicked = eng.Guard("FetchGraph", func() { e.err = mdag.FetchGraph(ctx, rd.nodes[0].Cid(), ds, opts...) })
	} else {
		e.panicked = eng.Guard("FetchGraphWithDepthLimit", func() {
			e.err = mdag.FetchGraphWithDepthLimit(ctx, rd.nodes[0].Cid(), c.Lim, ds, opts...)
		})
	}
}

func setOf(xs []int) (m uint32, foreign bool) {
	for _, x := range xs {
		if x < 0 {
			foreign = true
		} else {
			m |= 1 << uint(x)
		}
	}
	return
}

// judge compares the observations with the reference. Every clause is
// reported separately (own symptom), so a known defect of one clause does not
// hide a failure of another. The caller appends e.describe(ex) to the detail
// of the violations it keeps.
func (e *env) judge(ex *Expect) []*eng.Violation {
	c := e.c
	var out []*eng.Violation
	op := map[string]string{"walk": "Walk", "fetch": "FetchGraph"}[c.API]
	add := func(symptom, opn, detail string, kv ...string) {
		kv = append(kv, "walker", c.walker(), "api", c.API)
		v := eng.V(symptom, opn, detail, kv...)
		v.Replay = c
		out = append(out, v)
	}
	if e.panicked != nil {
		e.panicked.Replay = c
		e.panicked.Features = map[string]string{"walker": c.walker(), "api": c.API}
		return []*eng.Violation{e.panicked}
	}
	complete := ex.U == 0
	// 1. walk result
	el := e.errLabel(e.err)
	switch {
	case complete && e.err != nil:
		add("spurious-error", op, fmt.Sprintf("every failure on the walk is handled by the configured options, yet the walk returned %q", e.err))
	case !complete && e.err == nil:
		add("error-lost", op, fmt.Sprintf("fetching %s fails and no configured option handles it, yet the walk returned nil", bits(ex.U)))
	case !complete && (el < 0 || ex.U&(1<<uint(el)) == 0):
		add("wrong-error", op, fmt.Sprintf("the walk returned %q, which is not the failure of one of the unhandled failing nodes %s", e.err, bits(ex.U)))
	}
	// 2. visit callback
	if c.API == "walk" {
		var accepted, called uint32
		foreign, depthBad := false, false
		for _, v := range e.visits {
			if v.idx < 0 {
				foreign = true
				continue
			}
			called |= 1 << uint(v.idx)
			if v.ret {
				accepted |= 1 << uint(v.idx)
			}
			if v.depth >= 0 && ex.Depths[v.idx]&(1<<uint(v.depth)) == 0 && !depthBad {
				depthBad = true
				add("visit-depth-wrong", op, fmt.Sprintf("visit(node %d, depth %d): no path of that length leads from the root to the node", v.idx, v.depth))
			}
		}
		reachable := ex.ReachAll
		if c.Skip {
			reachable &^= 1
		}
		if foreign || called&^reachable != 0 {
			add("visit-unreachable", op, fmt.Sprintf("visit callback called for %s (foreign=%v), reachable nodes are %s", bits(called), foreign, bits(reachable)),
				"root_visited_despite_skip", fmt.Sprint(c.Skip && called&1 != 0))
		}
		if complete && e.err == nil && accepted != ex.E {
			add("visited-set-wrong", op, fmt.Sprintf("completed walk: visit accepted %s, reachable within the limit (shortest distance) are %s", bits(accepted), bits(ex.E)),
				"missing_nodes", fmt.Sprint(ex.E&^accepted != 0), "extra_nodes", fmt.Sprint(accepted&^ex.E != 0))
		} else if accepted&^ex.E != 0 {
			add("visited-set-wrong", op, fmt.Sprintf("visit accepted %s, not a subset of the nodes reachable within the limit %s", bits(accepted), bits(ex.E)), "missing_nodes", "false", "extra_nodes", "true")
		}
		if e.overlap {
			add("visit-overlap", op, "two visit callbacks were in progress at the same time (the walker documents that it never calls visit concurrently; a plain set visit relies on it)")
		}
	}
	// 3. fetch-graph: local store
	if c.API == "fetch" {
		var local uint32
		foreign := false
		for _, k := range e.local.keys() {
			if i, ok := e.real.idx[k]; ok {
				local |= 1 << uint(i)
			} else {
				foreign = true
			}
		}
		if foreign || (complete && e.err == nil && local != ex.Local) || local&^ex.Local != 0 {
			add("local-set-wrong", op, fmt.Sprintf("blocks local after the fetch: %s (foreign=%v); reachable within the limit and available: %s", bits(local), foreign, bits(ex.Local)),
				"missing_nodes", fmt.Sprint(ex.Local&^local != 0), "extra_nodes", fmt.Sprint(local&^ex.Local != 0))
		}
	}
	// 4. handlers
	hs := c.handlers()
	first := ""
	if len(hs) > 0 {
		first = hs[0]
	}
	if len(e.om) > 0 || first == "OM" {
		got, foreign := setOf(e.om)
		if foreign || got&^ex.Fmiss != 0 {
			add("handler-wrong-cid", "OnMissing", fmt.Sprintf("OnMissing callback received %s (foreign=%v); the blocks that were requested and are missing are %s", bits(got), foreign, bits(ex.Fmiss)),
				"got_root_instead", fmt.Sprint(!foreign && got&^ex.Fmiss == 1))
		} else if first == "OM" {
			// OnMissing is the innermost handler: it sees every raw failure
			if complete && e.err == nil && got != ex.Fmiss {
				add("handler-not-called", "OnMissing", fmt.Sprintf("completed walk: OnMissing (first handler) reported %s, missing blocks met by the walk are %s", bits(got), bits(ex.Fmiss)))
			}
			if el >= 0 && e.c.State[el] == 'm' && got&(1<<uint(el)) == 0 && ex.Fmiss&(1<<uint(el)) != 0 {
				add("handler-not-called", "OnMissing", fmt.Sprintf("the walk failed on missing node %d but OnMissing (first handler) was only called for %s", el, bits(got)))
			}
		}
	}
	if len(e.oe) > 0 || first == "OEp" || first == "OEs" {
		var got uint32
		foreign, mismatch := false, ""
		for _, h := range e.oe {
			if h.idx < 0 {
				foreign = true
				continue
			}
			got |= 1 << uint(h.idx)
			if h.errIdx != -1 && h.errIdx != h.idx && ex.F&(1<<uint(h.idx)) != 0 {
				mismatch = fmt.Sprintf("handler(node %d, error of node %d)", h.idx, h.errIdx)
			}
		}
		if foreign || got&^ex.F != 0 {
			add("handler-wrong-cid", "OnError", fmt.Sprintf("OnError handler received %s (foreign=%v); the blocks whose fetch failed are %s", bits(got), foreign, bits(ex.F)),
				"got_root_instead", fmt.Sprint(!foreign && got&^ex.F == 1))
		} else {
			if mismatch != "" {
				add("handler-cid-error-mismatch", "OnError", "OnError received a CID together with the error of a different block: "+mismatch)
			}
			if first == "OEp" || first == "OEs" {
				if complete && e.err == nil && got != ex.F {
					add("handler-not-called", "OnError", fmt.Sprintf("completed walk: OnError (first handler) saw %s, failures met by the walk are %s", bits(got), bits(ex.F)))
				}
				if el >= 0 && got&(1<<uint(el)) == 0 && ex.F&(1<<uint(el)) != 0 {
					add("handler-not-called", "OnError", fmt.Sprintf("the walk failed on node %d but OnError (first handler) was only called for %s", el, bits(got)))
				}
			}
		}
	}
	// 5. provider
	if c.Prov {
		got, foreign := setOf(e.prov)
		upper := ex.E | 1 // visited nodes; a skipped root is traversed and may be announced
		allRoot := len(e.prov) > 1
		for _, p := range e.prov {
			if p != 0 {
				allRoot = false
			}
		}
		if foreign || got&^upper != 0 {
			add("provider-extra", "StartProviding", fmt.Sprintf("provider asked to announce %s (foreign=%v), visited nodes are %s", bits(got), foreign, bits(upper)))
		}
		need := ex.E & ex.Local // visited and successfully fetched
		if complete && e.err == nil && need&^got != 0 {
			add("provider-missing", "StartProviding", fmt.Sprintf("completed walk: provider asked to announce %s in %d calls; visited and fetched nodes are %s", bits(got), len(e.prov), bits(need)),
				"every_call_announced_root", fmt.Sprint(allRoot))
		}
	}
	return out
}

func (e *env) describe(ex *Expect) string {
	var sb strings.Builder
	fmt.Fprintf(&sb, "case: %s\n", e.c)
	fmt.Fprintf(&sb, "reference: reachable=%s dist=%v accept=%s requested=%s failing=%s unhandled=%s\n", bits(ex.ReachAll), ex.Dist, bits(ex.E), bits(ex.X), bits(ex.F), bits(ex.U))
	fmt.Fprintf(&sb, "observed: err=%v\n", e.err)
	if e.c.API == "walk" {
		var vs []string
		for _, v := range e.visits {
			vs = append(vs, fmt.Sprintf("%d@%d=%v", v.idx, v.depth, v.ret))
		}
		fmt.Fprintf(&sb, "  visit calls (node@depth=result, completion order): %s\n  getLinks calls: %v\n", strings.Join(vs, " "), e.getLinks)
	}
	if e.local != nil && e.real != nil {
		var ls []int
		for _, k := range e.local.keys() {
			ls = append(ls, e.real.idx[k])
		}
		sort.Ints(ls)
		fmt.Fprintf(&sb, "  local blocks: %v\n", ls)
	}
	fmt.Fprintf(&sb, "  OnMissing args: %v  OnError (node,errnode) args: %v  provider: %v", e.om, e.oe, e.prov)
	return sb.String()
}

// outcome is a small observation class (distinct-outcome counting).
func (e *env) outcome() string {
	ek := "nil"
	if e.err != nil {
		ek = "err"
		if format.IsNotFound(e.err) {
			ek = "notfound"
		}
	}
	acc := 0
	for _, v := range e.visits {
		if v.ret {
			acc++
		}
	}
	nl := 0
	if e.local != nil {
		nl = len(e.local.keys())
	}
	return fmt.Sprintf("%s/%s e=%s acc=%d om=%d oe=%d prov=%d local=%d", e.c.API, e.c.walker(), ek, acc, len(e.om), len(e.oe), len(e.prov), nl)
}

// runCase executes and judges one case.
func runCase(c *Case, sh *Shape, yield bool) (*env, *Expect, []*eng.Violation) {
	ex := model(c, sh)
	e := &env{c: c, sh: sh, yield: yield}
	e.run()
	return e, ex, e.judge(ex)
}
