//go:build verif

package main

import (
	"sort"

	"github.com/ipfs/boxo/verifshim/eng"
	"github.com/ipfs/boxo/verifshim/vexp"
	"github.com/ipfs/boxo/verifshim/vsched"
)

// Part B: the concurrent walker (rewritten ipld/merkledag) under the
// controlled scheduler. Every getLinks call, every visit callback and every
// remote block fetch contains a scheduling point, so fetch latencies and the
// dispatcher's select choices are explored systematically.

type bScn struct {
	name  string
	c     Case
	delta int
}

func bScenarios() []bScn {
	w := func(shape, state string, lim int, h string, conc int) Case {
		return Case{API: "walk", Shape: shape, State: state, Lim: lim, H: h, Conc: conc}
	}
	prov := func(c Case) Case { c.Prov = true; return c }
	skip := func(c Case) Case { c.Skip = true; return c }
	fetch := func(c Case) Case { c.API = "fetch"; return c }
	return []bScn{
		{"diamond", w("1,2;3;3;;", "oooo", -2, "", 2), 0},
		{"diamond-leaf-missing-ignored", w("1,2;3;3;;", "ooom", -2, "IM", 2), 0},
		{"chain-shortcut-lim1-skiproot", skip(w("1,2;2;3;;", "oooo", 1, "", 2)), 0},
		{"doubled-edge", w("1,1;2;;", "ooo", -2, "", 2), 0},
		{"two-missing-abort", w("1,2;;;", "omm", -2, "", 2), 1},
		{"shared-missing-onmissing-abort", w("1,2;3;3;;", "ooom", -2, "OM", 2), 0},
		{"broken-swallowed-onerror", w("1,2;2;;", "oob", 0+3, "OEs", 2), 0},
		{"provider-shared", prov(w("1,2;2;;", "ooo", -2, "", 2)), 0},
		{"root-missing", w("1;;", "mo", -2, "", 2), 1},
		{"three-fetchers-diamond", w("1,2,3;3;3;;", "oooo", -2, "", 3), -1},
		{"fetchgraph-diamond", fetch(w("1,2;3;3;;", "oooo", -1, "", 2)), 0},
		{"fetchgraph-lim2-shortcut-missing", fetch(w("1,2;2;3;;", "ooom", 2, "IM", 2)), 0},
		// largest last: a budget cut then costs the least
		{"chain-shortcut-lim2", w("1,2;2;3;;", "oooo", 2, "", 2), 1},
	}
}

type bExec struct {
	sc       *bScn
	sh       *Shape
	ex       *Expect
	e        *env
	finished bool
}

func (x *bExec) Main() {
	c := x.sc.c
	x.e = &env{c: &c, sh: x.sh, yield: true}
	vsched.GoNamed("walk", true, func() {
		x.e.run()
		x.finished = true
	})
}

func (x *bExec) AtEnd(*vsched.Result) {}

func (x *bExec) Outcome() string {
	if x.e == nil {
		return "not-started"
	}
	return x.e.outcome()
}

// Check returns one violation per execution; clauses hit by the recorded
// defects of the concurrent walker (wrong CID to handler / provider) are
// ranked last so that they cannot mask a different failure of the same run.
func (x *bExec) Check(res *vsched.Result) *eng.Violation {
	if !x.finished {
		return eng.V("walk-not-finished", "Walk", "the execution ended without the walk returning")
	}
	vs := x.e.judge(x.ex)
	if len(vs) == 0 {
		return nil
	}
	rank := func(v *eng.Violation) int {
		switch v.Symptom {
		case "handler-wrong-cid", "provider-missing":
			return 1
		}
		return 0
	}
	sort.SliceStable(vs, func(i, j int) bool { return rank(vs[i]) < rank(vs[j]) })
	vs[0].Detail += "\n" + x.e.describe(x.ex)
	return vs[0]
}

func scenarios() []*vexp.Scenario {
	var out []*vexp.Scenario
	for _, s := range bScenarios() {
		s := s
		sh := parseShape(s.c.Shape)
		ex := model(&s.c, sh)
		out = append(out, &vexp.Scenario{
			Name: s.name, BoundDelta: s.delta,
			Cfg: vsched.Config{MaxSteps: 20000, MaxIdleFires: 4, SelectCost: 1, SwitchCost: 1},
			New: func() vexp.Exec { return &bExec{sc: &s, sh: sh, ex: ex} },
		})
	}
	return out
}
