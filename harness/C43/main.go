//go:build verif

// C43: Map/Filter/Limit/FromSlice/FromReaderJSON obey the list laws, do not
// read more than one element ahead when limited, and forward Close.
package main

import (
	"encoding/json"
	"fmt"
	"runtime/debug"
	"strconv"
	"strings"
	"sync/atomic"

	iter "github.com/ipfs/boxo/routing/http/types/iter"
	"github.com/ipfs/boxo/verifshim/eng"
)

// E is the element type of every iterator in this harness. FromReaderJSON[int]
// yields Result[int]; slices are built from the same type so that one family
// of combinators fits both sources.
type E = iter.Result[int]

// ---------------------------------------------------------------- combinators

type opSpec struct {
	code string
	kind byte // 'm' map, 'f' filter, 'l' limit
	n    int
	mf   func(int) int
	pf   func(int) bool
	mfE  func(E) E
	pfE  func(E) bool
}

func parseOp(code string) opSpec {
	switch code {
	case "m+1":
		return opSpec{code: code, kind: 'm', mf: func(v int) int { return v + 1 }}
	case "m*2":
		return opSpec{code: code, kind: 'm', mf: func(v int) int { return v * 2 }}
	case "f.even":
		return opSpec{code: code, kind: 'f', pf: func(v int) bool { return v%2 == 0 }}
	case "f.false":
		return opSpec{code: code, kind: 'f', pf: func(v int) bool { return false }}
	case "f.true":
		return opSpec{code: code, kind: 'f', pf: func(v int) bool { return true }}
	}
	if strings.HasPrefix(code, "l") {
		n, err := strconv.Atoi(code[1:])
		if err == nil {
			return opSpec{code: code, kind: 'l', n: n}
		}
	}
	panic("bad op code " + code)
}

func parseOps(codes []string) []opSpec {
	out := make([]opSpec, len(codes))
	for i, c := range codes {
		o := parseOp(c)
		if f := o.mf; f != nil {
			o.mfE = func(e E) E { e.Val = f(e.Val); return e }
		}
		if p := o.pf; p != nil {
			o.pfE = func(e E) bool { return p(e.Val) }
		}
		out[i] = o
	}
	return out
}

// chains returns every chain of exactly depth ops (ops[0] is innermost).
func chains(alpha []string, depth int) [][]string {
	out := [][]string{{}}
	for d := 0; d < depth; d++ {
		var nx [][]string
		for _, c := range out {
			for _, a := range alpha {
				nx = append(nx, append(append(make([]string, 0, len(c)+1), c...), a))
			}
		}
		out = nx
	}
	return out
}

func chainsUpTo(alpha []string, lo, hi int) [][]string {
	var out [][]string
	for d := lo; d <= hi; d++ {
		out = append(out, chains(alpha, d)...)
	}
	return out
}

// -------------------------------------------------------------------- sources

type Src struct {
	Kind    string `json:"kind"` // slice | json
	Vals    []int  `json:"vals"`
	BadPos  int    `json:"bad_pos"`  // json only: index at which a malformed token is inserted, -1 = none
	BadKind string `json:"bad_kind"` // syntax | type | trunc
	Sep     string `json:"sep"`
	txt     string // cached text()
	es      []E    // cached slice elements (SliceIter only reads them)
}

// mel is a model element.
type mel struct {
	v   int
	err bool
}

func (s *Src) list() []mel {
	out := []mel{}
	for i, v := range s.Vals {
		if s.Kind == "json" && s.BadPos == i {
			break
		}
		out = append(out, mel{v: v})
	}
	if s.Kind == "json" && s.BadPos >= 0 {
		out = append(out, mel{err: true}) // JSONIter: one error result, then stop
	}
	return out
}

func (s *Src) text() string {
	toks := []string{}
	for i, v := range s.Vals {
		if s.BadPos == i {
			toks = append(toks, badTok(s.BadKind))
		}
		toks = append(toks, strconv.Itoa(v))
	}
	if s.BadPos == len(s.Vals) {
		toks = append(toks, badTok(s.BadKind))
	}
	t := strings.Join(toks, s.Sep)
	if s.BadKind != "trunc" || s.BadPos < 0 {
		t += s.Sep
	}
	return t
}

func badTok(k string) string {
	switch k {
	case "syntax":
		return "}"
	case "type":
		return `"s"`
	case "trunc":
		return "tru" // only ever last: the stream ends inside a literal
	}
	panic("bad kind")
}

type counter struct {
	in     iter.Iter[E]
	pulls  int // Next calls that delivered an element
	calls  int
	closes int
}

func (c *counter) Next() bool {
	c.calls++
	ok := c.in.Next()
	if ok {
		c.pulls++
	}
	return ok
}
func (c *counter) Val() E       { return c.in.Val() }
func (c *counter) Close() error { c.closes++; return c.in.Close() }

type closeReader struct {
	*strings.Reader
	closes int
}

func (c *closeReader) Close() error { c.closes++; return nil }

type inst struct {
	src *counter
	rd  *closeReader
	it  iter.Iter[E]
}

func newInst(s *Src, ops []opSpec) *inst {
	in := &inst{}
	if s.Kind == "slice" {
		if s.es == nil {
			s.es = make([]E, len(s.Vals))
			for i, v := range s.Vals {
				s.es[i] = E{Val: v}
			}
		}
		in.src = &counter{in: iter.FromSlice(s.es)}
	} else {
		if s.txt == "" {
			s.txt = s.text()
		}
		in.rd = &closeReader{Reader: strings.NewReader(s.txt)}
		in.src = &counter{in: iter.FromReaderJSON[int](in.rd)}
	}
	var it iter.Iter[E] = in.src
	for i := range ops {
		o := &ops[i]
		switch o.kind {
		case 'm':
			it = iter.Map(it, o.mfE)
		case 'f':
			it = iter.Filter(it, o.pfE)
		case 'l':
			it = iter.Limit(it, o.n)
		}
	}
	in.it = it
	return in
}

// ---------------------------------------------------------------------- model

// evalList is the list semantics: map, filter, take-prefix on slices.
func evalList(l []mel, ops []opSpec) []mel {
	cur := l
	for _, o := range ops {
		nx := []mel{}
		switch o.kind {
		case 'm':
			for _, e := range cur {
				nx = append(nx, mel{o.mf(e.v), e.err})
			}
		case 'f':
			for _, e := range cur {
				if o.pf(e.v) {
					nx = append(nx, e)
				}
			}
		case 'l':
			nx = cur
			if o.n > 0 && len(cur) > o.n {
				nx = cur[:o.n]
			}
		}
		cur = nx
	}
	return cur
}

// lazy is a demand-driven evaluator used only to know how many source elements
// are NEEDED to answer the first j Next calls of the outermost iterator.
type lazy struct {
	list []mel
	pos  int
	ops  []opSpec
	cnt  []int
}

func (z *lazy) next(level int) (mel, bool) {
	if level == 0 {
		if z.pos < len(z.list) {
			z.pos++
			return z.list[z.pos-1], true
		}
		return mel{}, false
	}
	o := &z.ops[level-1]
	switch o.kind {
	case 'm':
		e, ok := z.next(level - 1)
		if !ok {
			return mel{}, false
		}
		return mel{o.mf(e.v), e.err}, true
	case 'f':
		for {
			e, ok := z.next(level - 1)
			if !ok {
				return mel{}, false
			}
			if o.pf(e.v) {
				return e, true
			}
		}
	default:
		if o.n > 0 && z.cnt[level] >= o.n {
			return mel{}, false
		}
		e, ok := z.next(level - 1)
		if ok {
			z.cnt[level]++
		}
		return e, ok
	}
}

// needs returns need[j] = source elements needed after j outer Next calls,
// j = 0..len(exp)+1 (constant afterwards), and cross-checks the two models.
func needs(l []mel, ops []opSpec, exp []mel) []int {
	z := &lazy{list: l, ops: ops, cnt: make([]int, len(ops)+1)}
	need := []int{0}
	for j := 0; ; j++ {
		e, ok := z.next(len(ops))
		need = append(need, z.pos)
		if !ok {
			if j != len(exp) {
				panic("harness bug: lazy model and list model disagree on length")
			}
			break
		}
		if j >= len(exp) || e != exp[j] {
			panic("harness bug: lazy model and list model disagree")
		}
	}
	return need
}

func effectiveLimit(ops []opSpec) bool {
	for _, o := range ops {
		if o.kind == 'l' && o.n > 0 {
			return true
		}
	}
	return false
}

// --------------------------------------------------------------------- runner

type Case struct {
	Src     Src      `json:"src"`
	Ops     []string `json:"ops"`
	Pattern string   `json:"pattern"`
}

type cov struct {
	postClose, limitCut, errElem, afterEnd, closes, maxAhead, valChecks atomic.Int64
}

// lcov is the per-task (goroutine-local) copy, merged once per task.
type lcov struct {
	postClose, afterEnd, closes, maxAhead, valChecks int64
}

var cv cov

func (l *lcov) merge() {
	cv.postClose.Add(l.postClose)
	cv.afterEnd.Add(l.afterEnd)
	cv.closes.Add(l.closes)
	cv.valChecks.Add(l.valChecks)
	for {
		old := cv.maxAhead.Load()
		if l.maxAhead <= old || cv.maxAhead.CompareAndSwap(old, l.maxAhead) {
			break
		}
	}
}

func feat(s *Src, ops []opSpec, extra ...string) []string {
	outer := "source"
	if len(ops) > 0 {
		outer = map[byte]string{'m': "map", 'f': "filter", 'l': "limit"}[ops[len(ops)-1].kind]
	}
	return append([]string{"source", s.Kind, "outer", outer}, extra...)
}

func melOf(e E) mel { return mel{e.Val, e.Err != nil} }

func sameEl(got E, want mel) bool {
	if want.err {
		return got.Err != nil
	}
	return got.Err == nil && got.Val == want.v
}

// runCase drives one call pattern on a fresh real iterator stack.
func runCase(lc *lcov, s *Src, ops []opSpec, exp []mel, need []int, limited bool, pat string) (v *eng.Violation) {
	in := newInst(s, ops)
	closed := false
	yielded, nCalls := 0, 0
	haveCur := false
	var cur mel
	needAt := func(j int) int {
		if j >= len(need) {
			j = len(need) - 1
		}
		return need[j]
	}
	checkPulls := func(op string) *eng.Violation {
		ahead := in.src.pulls - needAt(nCalls)
		if int64(ahead) > lc.maxAhead {
			lc.maxAhead = int64(ahead)
		}
		if limited && ahead > 1 {
			return eng.V("read-ahead", op, fmt.Sprintf("after %d outer Next calls the source delivered %d elements, only %d are needed to answer them (more than one ahead)", nCalls, in.src.pulls, needAt(nCalls)), feat(s, ops)...)
		}
		return nil
	}
	for i := 0; i < len(pat); i++ {
		switch pat[i] {
		case 'N':
			ok := in.it.Next()
			if closed {
				lc.postClose++
				haveCur = false
				continue
			}
			nCalls++
			want := yielded < len(exp)
			if ok && !want {
				return eng.V("extra-element", "Next", fmt.Sprintf("Next call %d returned true (Val=%+v) but the list expression has only %d elements %v", nCalls, in.it.Val(), len(exp), exp), feat(s, ops, "after_false", fmt.Sprint(nCalls > yielded+1))...)
			}
			if !ok && want {
				return eng.V("missing-element", "Next", fmt.Sprintf("Next call %d returned false but the list expression still has element %d of %v", nCalls, yielded, exp), feat(s, ops)...)
			}
			if ok {
				cur, haveCur = exp[yielded], true
				yielded++
			} else {
				haveCur = false
				if nCalls > len(exp)+1 {
					lc.afterEnd++
				}
			}
			if pv := checkPulls("Next"); pv != nil {
				return pv
			}
		case 'V':
			got := in.it.Val()
			if haveCur && !closed {
				lc.valChecks++
				if !sameEl(got, cur) {
					return eng.V("wrong-value", "Val", fmt.Sprintf("element %d: Val()=%+v want %+v (expected list %v)", yielded-1, got, cur, exp), feat(s, ops)...)
				}
			}
		case 'C':
			in.it.Close()
			closed = true
			lc.closes++
			if in.src.closes < 1 {
				return eng.V("close-not-forwarded", "Close", "Close on the outermost iterator did not reach the source iterator", feat(s, ops)...)
			}
			if in.rd != nil && in.rd.closes < 1 {
				return eng.V("reader-not-closed", "Close", "Close on the outermost iterator did not close the io.Closer behind FromReaderJSON", feat(s, ops)...)
			}
		case 'A': // ReadAll: rest of the list, then Close
			got := iter.ReadAll[E](in.it)
			if closed {
				continue
			}
			rest := exp[yielded:]
			if nCalls > yielded { // already saw false
				rest = nil
			}
			if len(got) != len(rest) {
				return eng.V("readall-mismatch", "ReadAll", fmt.Sprintf("ReadAll returned %d elements %+v want %v", len(got), got, rest), feat(s, ops)...)
			}
			for k := range got {
				if !sameEl(got[k], rest[k]) {
					return eng.V("readall-mismatch", "ReadAll", fmt.Sprintf("ReadAll returned %+v want %v", got, rest), feat(s, ops)...)
				}
			}
			nCalls += len(rest) + 1
			yielded += len(rest)
			haveCur = false
			if pv := checkPulls("ReadAll"); pv != nil {
				return pv
			}
			closed = true
			if in.src.closes < 1 || (in.rd != nil && in.rd.closes < 1) {
				return eng.V("close-not-forwarded", "ReadAll", "ReadAll did not close the source", feat(s, ops)...)
			}
		case 'R': // ReadAllResults over the Result elements
			got, err := iter.ReadAllResults[int](in.it)
			if closed {
				continue
			}
			rest := exp[yielded:]
			if nCalls > yielded {
				rest = nil
			}
			errAt := -1
			for k, e := range rest {
				if e.err {
					errAt = k
					break
				}
			}
			if errAt >= 0 {
				if err == nil || got != nil {
					return eng.V("readallresults-mismatch", "ReadAllResults", fmt.Sprintf("ReadAllResults=%v,%v want an error for element %d of %v", got, err, errAt, rest), feat(s, ops)...)
				}
				nCalls += errAt + 1
				yielded += errAt + 1
			} else {
				if err != nil || len(got) != len(rest) {
					return eng.V("readallresults-mismatch", "ReadAllResults", fmt.Sprintf("ReadAllResults=%v,%v want %v", got, err, rest), feat(s, ops)...)
				}
				for k := range got {
					if got[k] != rest[k].v {
						return eng.V("readallresults-mismatch", "ReadAllResults", fmt.Sprintf("ReadAllResults=%v want %v", got, rest), feat(s, ops)...)
					}
				}
				nCalls += len(rest) + 1
				yielded += len(rest)
			}
			haveCur = false
			if pv := checkPulls("ReadAllResults"); pv != nil {
				return pv
			}
		}
	}
	return nil
}

// doCases runs every pattern of pats on (c.Src, ops); a panic is attributed to
// the pattern that was running and the loop resumes with the next one.
func doCases(r *eng.Run, lc *lcov, c *Case, ops []opSpec, exp []mel, need []int, limited bool, pats []string) {
	idx := 0
	for idx < len(pats) {
		pv := eng.Guard("pattern", func() {
			for ; idx < len(pats); idx++ {
				if v := runCase(lc, &c.Src, ops, exp, need, limited, pats[idx]); v != nil {
					cc := *c
					cc.Pattern = pats[idx]
					v.Replay = cc
					r.Report(v)
				}
			}
		})
		if pv != nil {
			pv.Features = map[string]string{"source": c.Src.Kind}
			cc := *c
			cc.Pattern = pats[idx]
			pv.Replay = cc
			r.Report(pv)
			idx++
		}
	}
}

// ------------------------------------------------------------------- patterns

func fullPatterns(alpha string, maxLen int) []string {
	out := []string{}
	level := []string{""}
	for l := 1; l <= maxLen; l++ {
		var nx []string
		for _, p := range level {
			for i := 0; i < len(alpha); i++ {
				nx = append(nx, p+string(alpha[i]))
			}
		}
		out = append(out, nx...)
		level = nx
	}
	return out
}

// drainPatterns: k Nexts (with and without Val after each), for every k up to
// n+2, followed by every tail of a small family (close, double close, calls
// after close, ReadAll, ReadAllResults).
func drainPatterns(n int) []string {
	tails := []string{"", "C", "CC", "CNVN", "A", "AC", "R", "RNVC", "CA"}
	out := []string{}
	for k := 0; k <= n+2; k++ {
		for _, unit := range []string{"N", "NV", "NVV"} {
			if k == 0 && unit != "N" {
				continue
			}
			for _, t := range tails {
				out = append(out, strings.Repeat(unit, k)+t)
			}
		}
	}
	return out
}

// -------------------------------------------------------------------- domains

func parityVals(n, m int) []int {
	v := make([]int, n)
	for i := range v {
		v[i] = 2*i + 1 + (m >> i & 1) // distinct, increasing; bit i of m makes it even
	}
	return v
}

// threeMasks: all odd, all even, mixed.
func threeMasks(n int) []int {
	if n == 0 {
		return []int{0}
	}
	all := (1 << n) - 1
	ms := []int{0, all}
	if mix := 0x2a & all; mix != 0 && mix != all {
		ms = append(ms, mix)
	}
	return ms
}

// paritySlices: every odd/even pattern for lengths 0..maxFull, three patterns
// (all odd, all even, mixed) for lengths maxFull+1..maxLen.
func paritySlices(maxFull, maxLen int) [][]int {
	out := [][]int{}
	for n := 0; n <= maxLen; n++ {
		if n <= maxFull {
			for m := 0; m < 1<<n; m++ {
				out = append(out, parityVals(n, m))
			}
		} else {
			for _, m := range threeMasks(n) {
				out = append(out, parityVals(n, m))
			}
		}
	}
	return out
}

func sources(maxFull, maxLen int) []Src {
	out := []Src{}
	ps := paritySlices(maxFull, maxLen)
	for _, v := range ps {
		out = append(out, Src{Kind: "slice", Vals: v, BadPos: -1})
	}
	seps := []string{" ", "\n", "\r\n\t "}
	for i, v := range ps {
		out = append(out, Src{Kind: "json", Vals: v, BadPos: -1, Sep: seps[i%len(seps)]})
	}
	// malformed token at every position of every length; three parity patterns
	// up to maxFull, the mixed one beyond
	for n := 0; n <= maxLen; n++ {
		ms := threeMasks(n)
		if n > maxFull {
			ms = ms[len(ms)-1:]
		}
		for _, m := range ms {
			v := parityVals(n, m)
			for pos := 0; pos <= n; pos++ {
				for ki, kind := range []string{"syntax", "type", "trunc"} {
					if kind == "trunc" && pos != n {
						continue
					}
					out = append(out, Src{Kind: "json", Vals: v, BadPos: pos, BadKind: kind, Sep: seps[(pos+ki)%len(seps)]})
				}
			}
		}
	}
	return out
}

func longSources() []Src {
	v := make([]int, 50)
	for i := range v {
		v[i] = 3*i + 1 + (i*i)%2 + (i/7)%2 // mixed parity, strictly increasing
	}
	return []Src{
		{Kind: "slice", Vals: v, BadPos: -1},
		{Kind: "json", Vals: v, BadPos: -1, Sep: "\n"},
		{Kind: "json", Vals: v, BadPos: 49, BadKind: "type", Sep: "\n"},
		{Kind: "json", Vals: v, BadPos: 50, BadKind: "trunc", Sep: " "},
	}
}

var baseOps = []string{"m+1", "m*2", "f.even", "f.false", "f.true", "l-1", "l0", "l1", "l2", "l60"}
var wideOps = append(append([]string{}, baseOps...), "l3", "l5", "l6", "l7")
var longOps = []string{"m+1", "m*2", "f.even", "f.false", "f.true", "l-1", "l0", "l1", "l2", "l49", "l50", "l51", "l60"}

type phase struct {
	name   string
	chains [][]string
	srcs   []Src
	pats   func(n int) []string // n = length of the expected list
}

func runPhase(r *eng.Run, ph phase) {
	nS := len(ph.srcs)
	total := len(ph.chains) * nS
	var pairs, evals atomic.Int64
	eng.ParFor(total, func(i int) {
		if r.Expired() {
			return
		}
		codes := ph.chains[i/nS]
		s := ph.srcs[i%nS]
		ops := parseOps(codes)
		l := s.list()
		exp := evalList(l, ops)
		need := needs(l, ops, exp)
		limited := effectiveLimit(ops)
		pats := ph.pats(len(exp))
		c := Case{Src: s, Ops: codes}
		var lc lcov
		doCases(r, &lc, &c, ops, exp, need, limited, pats)
		lc.merge()
		evals.Add(int64(len(pats)))
		pairs.Add(1)
		hasErr := len(exp) > 0 && exp[len(exp)-1].err
		if len(exp) < len(l) && limited {
			cv.limitCut.Add(1)
		}
		if hasErr {
			cv.errElem.Add(1)
		}
		if len(ops) >= 1 && len(l) >= 1 {
			r.Distinct(strings.Join(codes, ",") + "|" + s.Kind + fmt.Sprint(len(s.Vals), s.BadPos >= 0))
		}
		r.Outcome(fmt.Sprintf("src=%d yields=%d need=%d err=%v limited=%v", len(l), len(exp), need[len(need)-1], hasErr, limited))
		if i%(total/5+1) == 0 {
			r.Sample(map[string]any{"phase": ph.name, "src": s, "ops": codes, "expected_yields": len(exp), "patterns": len(pats)})
		}
	})
	r.Eval(int(evals.Load()))
	r.Set("phase_"+ph.name, map[string]any{"chains": len(ph.chains), "sources": nS, "pairs_done": pairs.Load(), "cases": evals.Load()})
	if r.Expired() {
		r.Incomplete(fmt.Sprintf("budget expired in phase %s after %d of %d chain x source pairs", ph.name, pairs.Load(), total))
	}
}

// toResultCheck covers ToResultIter/ReadAllResults on plain ints.
func toResultCheck(r *eng.Run) {
	n := 0
	for _, v := range paritySlices(4, 4) {
		for _, lim := range []int{-1, 0, 1, 2, 3, 4, 5} {
			src := &intCounter{in: iter.FromSlice(v)}
			got, err := iter.ReadAllResults[int](iter.ToResultIter[int](iter.Limit[int](src, lim)))
			want := v
			if lim > 0 && lim < len(v) {
				want = v[:lim]
			}
			n++
			if err != nil || fmt.Sprint(got) != fmt.Sprint(append([]int(nil), want...)) && !(len(got) == 0 && len(want) == 0) {
				r.Report(eng.V("readallresults-mismatch", "ToResultIter", fmt.Sprintf("ReadAllResults(ToResultIter(Limit(%v,%d)))=%v,%v want %v", v, lim, got, err, want), "source", "slice", "outer", "map"))
			}
			if lim > 0 && src.pulls > len(want)+1 {
				r.Report(eng.V("read-ahead", "ToResultIter", fmt.Sprintf("Limit(%v,%d) pulled %d", v, lim, src.pulls), "source", "slice", "outer", "map"))
			}
		}
	}
	r.Eval(n)
}

type intCounter struct {
	in    iter.Iter[int]
	pulls int
}

func (c *intCounter) Next() bool {
	ok := c.in.Next()
	if ok {
		c.pulls++
	}
	return ok
}
func (c *intCounter) Val() int     { return c.in.Val() }
func (c *intCounter) Close() error { return c.in.Close() }

var ballast []byte

func body(r *eng.Run) {
	// the live heap is tiny and the allocation rate high: an untouched ballast makes GC cycles rare
	debug.SetGCPercent(100)
	ballast = make([]byte, 32<<20)
	r.Rule("every chain of <= depth combinators x every source (slice/JSON, every odd/even pattern of length 0..6, malformed JSON token at every position) x every call pattern over {Next,Val,Close} up to the pattern bound plus the drain family; each case runs on a fresh real iterator stack over a counting source; a (chain, source shape) pair is non-trivial when the chain has >= 1 combinator and the source >= 1 element")
	r.Assume("encoding/json Decoder tokenises whitespace-delimited values correctly")
	r.Assume("Next/Val after Close and Val without a preceding successful Next are unspecified (only required not to panic)")
	withDrain := func(maxLen int) func(int) []string {
		full := fullPatterns("NVC", maxLen)
		r.Set(fmt.Sprintf("patterns_full%d", maxLen), len(full))
		cache := map[int][]string{}
		for n := 0; n <= 8; n++ {
			cache[n] = append(append([]string{}, full...), drainPatterns(n)...)
		}
		return func(n int) []string { return cache[n] }
	}
	toResultCheck(r)
	if !r.Thorough() {
		runPhase(r, phase{"depth0to2_full6", chainsUpTo(baseOps, 0, 2), sources(3, 6), withDrain(6)})
		runPhase(r, phase{"depth3_full4", chainsUpTo(baseOps, 3, 3), sources(3, 6), withDrain(4)})
		runPhase(r, phase{"long50_depth0to2", chainsUpTo(longOps, 0, 2), longSources(), drainPatterns})
	} else {
		runPhase(r, phase{"wide_depth0to2_full7", chainsUpTo(wideOps, 0, 2), sources(6, 6), withDrain(7)})
		runPhase(r, phase{"wide_depth3_full5", chainsUpTo(wideOps, 3, 3), sources(4, 6), withDrain(5)})
		runPhase(r, phase{"depth4_full4", chainsUpTo(baseOps, 4, 4), sources(3, 6), withDrain(4)})
		runPhase(r, phase{"long50_depth0to3", chainsUpTo(longOps, 0, 3), longSources(), drainPatterns})
	}
	r.Set("calls_after_close", cv.postClose.Load())
	r.Set("next_calls_after_exhaustion", cv.afterEnd.Load())
	r.Set("pairs_cut_by_limit", cv.limitCut.Load())
	r.Set("pairs_ending_in_json_error", cv.errElem.Load())
	r.Set("close_calls_checked", cv.closes.Load())
	r.Set("val_comparisons", cv.valChecks.Load())
	r.Set("max_elements_read_ahead_observed", cv.maxAhead.Load())
}

func replay(r *eng.Run, raw json.RawMessage) {
	var c Case
	if err := json.Unmarshal(raw, &c); err != nil {
		fmt.Println("bad replay:", err)
		return
	}
	ops := parseOps(c.Ops)
	l := c.Src.list()
	exp := evalList(l, ops)
	need := needs(l, ops, exp)
	fmt.Printf("  source=%+v text=%q\n  chain(innermost first)=%v pattern=%s\n  expected list=%v need=%v\n", c.Src, c.Src.text(), c.Ops, c.Pattern, exp, need)
	before := r.ViolationCount()
	doCases(r, &lcov{}, &c, ops, exp, need, effectiveLimit(ops), []string{c.Pattern})
	r.Eval(1)
	if r.ViolationCount() == before {
		fmt.Println("  replay: no violation")
	}
}

func main() { eng.Main("C43", "exploration", body, replay) }
