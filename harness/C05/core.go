//go:build verif

package main

import (
	"context"
	"fmt"
	"strings"

	"github.com/ipfs/boxo/blockservice"
	"github.com/ipfs/boxo/blockstore"
	"github.com/ipfs/boxo/exchange"
	"github.com/ipfs/boxo/verifshim/eng"
	"github.com/ipfs/boxo/verifshim/vsched"
	blocks "github.com/ipfs/go-block-format"
	cid "github.com/ipfs/go-cid"
	mh "github.com/multiformats/go-multihash"
)

// Pool. A, A2: honest blocks in the local store. B, C: honest blocks only the
// exchange has. D: honest block nobody asks for. I: CID with a hash function the
// default allowlist rejects (md5). U: cid.Undef.
// Adversarial exchange answers: Bbad = CID of B with other bytes; Xbad = CID
// of an unrequested block with bytes that do not hash to it.
var (
	cids   = map[string]cid.Cid{}
	honest = map[string]blocks.Block{}
	bBad   blocks.Block
	xBad   blocks.Block
)

func init() {
	mk := func(name, data string) {
		h, err := mh.Sum([]byte(data), mh.SHA2_256, -1)
		if err != nil {
			panic(err)
		}
		c := cid.NewCidV1(cid.Raw, h)
		b, _ := blocks.NewBlockWithCid([]byte(data), c)
		cids[name], honest[name] = c, b
	}
	mk("A", "local block a")
	mk("A2", "local block a2")
	mk("B", "remote block b")
	mk("C", "remote block c")
	mk("D", "unrequested block d")
	mk("X", "never delivered honestly")
	md5, _ := mh.Encode(make([]byte, 16), mh.MD5)
	cids["I"] = cid.NewCidV1(cid.Raw, md5)
	cids["U"] = cid.Undef
	bBad, _ = blocks.NewBlockWithCid([]byte("forged bytes for b"), cids["B"])
	xBad, _ = blocks.NewBlockWithCid([]byte("forged bytes for x"), cids["X"])
}

func nameOf(c cid.Cid) string {
	for n, k := range cids {
		if k.Equals(c) {
			return n
		}
	}
	return c.String()
}

func hashOK(b blocks.Block) bool {
	c := b.Cid()
	if !c.Defined() {
		return false
	}
	s, err := c.Prefix().Sum(b.RawData())
	return err == nil && s.Equals(c)
}

// ans builds the exchange answer for a script letter.
func ans(l string) answer {
	switch l {
	case "B", "C":
		return answer{"honest", l, honest[l]}
	case "D":
		return answer{"unrequested", l, honest["D"]}
	case "Bbad":
		return answer{"wrong_hash", l, bBad}
	case "Xbad":
		return answer{"unrequested_wrong_hash", l, xBad}
	}
	panic("bad answer letter " + l)
}

// kindOf classifies a block handed to the caller by where it came from.
func kindOf(b blocks.Block, script []answer) string {
	for _, a := range script {
		if a.blk == b {
			return a.kind
		}
	}
	return "local"
}

// ---- one case ----

type caseT struct {
	Entry   string   `json:"entry"`   // direct | session | ctxsession
	SessEx  bool     `json:"sess_ex"` // the exchange implements SessionExchange
	Call    string   `json:"call"`    // GetBlocks | GetBlock
	Req     []string `json:"req"`
	Script  []string `json:"script"`
	CallErr bool     `json:"call_err"`
	NoEx    bool     `json:"no_exchange"`
}

func (c caseT) String() string {
	return fmt.Sprintf("%s/%s sessEx=%v req=%v script=%v callErr=%v noEx=%v", c.Call, c.Entry, c.SessEx, c.Req, c.Script, c.CallErr, c.NoEx)
}

// rx is one block handed to the caller and whether, at that moment, a Put of
// exactly this block had completed (or the store held it from the start).
// Under vsched this is exact (no scheduling point between the receive and the
// look-up); in the sequential part the getBlocks goroutine runs natively, the
// look-up can only be late, so a violation there may be missed but is never
// invented.
type rx struct {
	blk    blocks.Block
	stored bool
}

type world struct {
	st    *rstore
	x     *xfake
	bs    blockservice.BlockService
	local map[string]bool // multihash keys present before the call
	// wrap: sessions are created on a BlockService wrapper whose Blockstore()
	// and Exchange() accessors are scheduling points (concurrent part)
	wrap bool
	// faulty: the scenario cancels the context or lets Put fail; availability is then not demanded
	faulty bool
}

// yieldBS is a BlockService wrapper (as applications write them) whose accessor
// calls take time: every call is a scheduling point.
type yieldBS struct{ blockservice.BlockService }

func (y yieldBS) Exchange() exchange.Interface {
	vsched.Yield("bs.Exchange")
	return y.BlockService.Exchange()
}

func (y yieldBS) Blockstore() blockstore.Blockstore {
	vsched.Yield("bs.Blockstore")
	return y.BlockService.Blockstore()
}

func (w *world) sessionBS() blockservice.BlockService {
	if w.wrap {
		return yieldBS{w.bs}
	}
	return w.bs
}

func newWorld(c caseT) *world {
	w := &world{st: newStore(), x: &xfake{ending: "close", callErr: c.CallErr}, local: map[string]bool{}}
	for _, n := range []string{"A", "A2"} {
		w.st.m[skey(cids[n])] = honest[n].RawData()
		w.local[skey(cids[n])] = true
	}
	for _, l := range c.Script {
		w.x.script = append(w.x.script, ans(l))
	}
	switch {
	case c.NoEx:
		w.bs = blockservice.New(w.st, nil)
	case c.SessEx:
		w.bs = blockservice.New(w.st, xsess{w.x})
	default:
		w.bs = blockservice.New(w.st, w.x)
	}
	return w
}

func (w *world) getter(ctx context.Context, entry string) (context.Context, blockservice.BlockGetter) {
	switch entry {
	case "session":
		return ctx, blockservice.NewSession(ctx, w.sessionBS())
	case "ctxsession":
		return blockservice.ContextWithSession(ctx, w.bs), w.bs
	}
	return ctx, w.bs
}

func (w *world) observe(b blocks.Block) rx {
	r := rx{blk: b}
	if b != nil {
		r.stored = w.st.wasPut(b.Cid(), b.RawData())
	}
	return r
}

// drain reads a GetBlocks channel to the end, looking at the store at the
// moment each block is handed over (no scheduling point in between).
func (w *world) drain(out <-chan blocks.Block) []rx {
	var got []rx
	for {
		b, ok := vsched.Recv2(out)
		if !ok {
			return got
		}
		got = append(got, w.observe(b))
	}
}

// judge applies the property statement to one finished call.
func judge(c caseT, w *world, req []cid.Cid, got []rx, gbErr error) *eng.Violation {
	requested := map[string]bool{}
	for _, k := range req {
		requested[k.KeyString()] = true
	}
	feat := func(kind string) []string {
		return []string{"exchange_answer", kind, "call", c.Call, "entry", c.Entry}
	}
	for _, r := range got {
		if r.blk == nil {
			return eng.V("nil-block-handed-over", c.Call, c.String(), feat("?")...)
		}
		kind := kindOf(r.blk, w.x.script)
		if !requested[r.blk.Cid().KeyString()] {
			switch kind { // relative to THIS request
			case "honest":
				kind = "unrequested"
			case "wrong_hash":
				kind = "unrequested_wrong_hash"
			}
			sym := "emitted-unrequested"
			if c.Call == "GetBlock" {
				sym = "getblock-wrong-cid"
			}
			return eng.V(sym, c.Call, fmt.Sprintf("%s: handed over block %s (%s answer) whose CID was not requested", c, nameOf(r.blk.Cid()), kind), feat(kind)...)
		}
		if !hashOK(r.blk) {
			return eng.V("handed-over-wrong-hash", c.Call, fmt.Sprintf("%s: handed over a block with CID %s whose bytes do not hash to it (%s answer); the store now holds %q under that CID", c, nameOf(r.blk.Cid()), kind, storeBytes(w, r.blk.Cid())), feat(kind)...)
		}
		if kind != "local" && !r.stored {
			return eng.V("handed-over-before-stored", c.Call, fmt.Sprintf("%s: block %s from the exchange was handed to the caller before any Put of it into the blockstore had completed", c, nameOf(r.blk.Cid())), feat(kind)...)
		}
	}
	for _, q := range w.x.reqs {
		for _, k := range q {
			if k.Defined() && w.local[skey(k)] {
				return eng.V("local-block-fetched", c.Call, fmt.Sprintf("%s: the exchange was asked for %s, which the blockstore already had", c, nameOf(k)), feat("-")...)
			}
		}
	}
	if c.Call == "GetBlock" && len(req) == 1 && req[0].Defined() && w.local[skey(req[0])] {
		if gbErr != nil || len(got) != 1 {
			return eng.V("getblock-local-miss", c.Call, fmt.Sprintf("%s: GetBlock of a locally stored block returned %v", c, gbErr), feat("-")...)
		}
	}
	// Availability, fault-free executions only (no cancellation, no failing Put,
	// the exchange call itself does not fail): a requested, allowlisted block
	// that is stored locally, or that the exchange does deliver honestly, is
	// handed over at least once.
	if !w.faulty {
		emitted := map[string]bool{}
		for _, r := range got {
			if r.blk != nil {
				emitted[r.blk.Cid().KeyString()] = true
			}
		}
		for i, k := range req {
			n := c.Req[i]
			if n == "I" || n == "U" || emitted[k.KeyString()] {
				continue
			}
			deliverable := w.local[skey(k)]
			if !deliverable && !c.NoEx && !c.CallErr {
				for _, a := range w.x.script {
					if a.kind == "honest" && a.blk.Cid().Equals(k) {
						deliverable = true
					}
				}
			}
			if deliverable {
				src := "exchange"
				if w.local[skey(k)] {
					src = "local"
				}
				return eng.V("deliverable-block-missing", c.Call, fmt.Sprintf("%s: block %s was requested and is available (%s), no fault and no cancellation occurred, yet it was not handed over (err=%v; exchange asked %d times)", c, n, src, gbErr, len(w.x.reqs)), "source", src, "call", c.Call, "entry", c.Entry)
			}
		}
	}
	return nil
}

func storeBytes(w *world, c cid.Cid) string {
	d, _ := w.st.has(c)
	return string(d)
}

// outcome is the canonical observation of a case.
func outcome(got []rx, err error, w *world) string {
	var sb strings.Builder
	for _, r := range got {
		if r.blk == nil {
			sb.WriteString("nil ")
			continue
		}
		fmt.Fprintf(&sb, "%s:%v ", nameOf(r.blk.Cid()), hashOK(r.blk))
	}
	if err != nil {
		sb.WriteString("err ")
	}
	fmt.Fprintf(&sb, "| asked=%d", len(w.x.reqs))
	return sb.String()
}
